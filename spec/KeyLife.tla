------------------------------ MODULE KeyLife ------------------------------
(***************************************************************************)
(* Key material through its life: key generation, refresh, non-hardened    *)
(* derivation, store / restore, and then a probe - a signing session or a  *)
(* reconstruction - in which every participant uses SOME version of the    *)
(* material it still holds (an old object, or bytes it serialised before a *)
(* refresh).  Arithmetic is exact in GF(Q) (module Shamir).  The module    *)
(* states what the probe must yield: a signature (resp. the key) iff the   *)
(* set is large enough and everybody uses the same version; it checks the  *)
(* sharing invariants after every operation and prints every complete      *)
(* history with the expected outcome, to be executed on the real protocols *)
(* (CMP, FROST, FROST-Taproot with threshold sharing; Doerner with its     *)
(* two-party additive sharing).                                             *)
(***************************************************************************)
EXTENDS Shamir, TLC, Json

CONSTANTS XS,         \* party points (distinct, non-zero); Doerner: two of them
          T,          \* threshold
          Additive,   \* TRUE: two-party additive sharing (Doerner); FALSE: Shamir sharing
          EvenY,      \* TRUE: keys are normalised to "even" after derivation (Taproot)
          FreshPolys, \* polynomials key generation may deal (sum of all dealers)
          RefPolys,   \* zero-constant polynomials a refresh may deal (sum of all dealers)
          Indices,    \* child indices offered to Derive
          MaxOps,     \* number of transforming operations before the probe
          Kinds,      \* probe kinds: "sign", "reconstruct", and for CMP "online" (presign first, sign later)
          SubsetRefresh, \* TRUE: a refresh may also be ATTEMPTED by a strict subset of the shareholders (FROST takes a participant list)
          EmitHist

VARIABLES ver,    \* sequence of all versions created so far: [epoch, path, share, key]
          held,   \* held[x]: indices of the versions party x still has
          ops,    \* history of transforming operations
          probe   \* the final probe, or the empty record marker
vars == <<ver, held, ops, probe>>

NoProbe == [kind |-> "none"]
Cur == ver[Len(ver)]

\* child scalar of index i (stands for the HMAC-SHA512 output): any fixed non-zero function
Adj(i) == (i * 2 + 1) % Q
\* "odd" half of the field: exactly one of k, -k is odd for k # 0 (stands for the parity of the Y coordinate)
Odd(k) == k > (Q - 1) \div 2

\* combine the values val[x] of the parties in S
Combine(S, val) == IF Additive THEN SumF(S, val) ELSE Interp0(S, val)
Enough(S) == IF Additive THEN S = XS ELSE Cardinality(S) > T

Dealt(p) == IF Additive
            THEN \* two additive shares of p[1]: the first party gets p[2] (if any), the second the rest
                 LET a == CHOOSE x \in XS : \A y \in XS : x <= y
                     r == IF Len(p) >= 2 THEN p[2] ELSE 1
                 IN [x \in XS |-> IF x = a THEN r ELSE Fsub(p[1], r)]
            ELSE [x \in XS |-> Eval(p, x)]

Init ==
  /\ \E p \in FreshPolys :
       ver = << [epoch |-> 0, path |-> <<>>, share |-> Dealt(p), key |-> p[1]] >>
  /\ held = [x \in XS |-> {1}]
  /\ ops = <<>>
  /\ probe = NoProbe

CanTransform == probe = NoProbe /\ Len(ops) < MaxOps

NewVersion(v, op) ==
  /\ ver' = Append(ver, v)
  /\ held' = [x \in XS |-> held[x] \cup {Len(ver) + 1}]
  /\ ops' = Append(ops, op)
  /\ UNCHANGED probe

Refresh(z) ==
  /\ CanTransform /\ ~Additive
  /\ NewVersion([epoch |-> Cur.epoch + 1, path |-> Cur.path,
                 share |-> [x \in XS |-> Fadd(Cur.share[x], Eval(z, x))],
                 key |-> Cur.key],
                [op |-> "refresh"])

\* Doerner refresh: one party adds r, the other subtracts it
RefreshAdd(r) ==
  /\ CanTransform /\ Additive
  /\ LET a == CHOOSE x \in XS : \A y \in XS : x <= y IN
     NewVersion([epoch |-> Cur.epoch + 1, path |-> Cur.path,
                 share |-> [x \in XS |-> IF x = a THEN Fadd(Cur.share[x], r) ELSE Fsub(Cur.share[x], r)],
                 key |-> Cur.key],
                [op |-> "refresh"])

Derive(i) ==
  /\ CanTransform /\ Len(Cur.path) < 2
  /\ LET adj == Adj(i)
         k1 == Fadd(Cur.key, adj)
         a == CHOOSE x \in XS : \A y \in XS : x <= y
         s1 == IF Additive THEN [x \in XS |-> IF x = a THEN Fadd(Cur.share[x], adj) ELSE Cur.share[x]]
               ELSE [x \in XS |-> Fadd(Cur.share[x], adj)]
         flip == EvenY /\ Odd(k1)
     IN NewVersion([epoch |-> Cur.epoch, path |-> Append(Cur.path, i),
                    share |-> IF flip THEN [x \in XS |-> Fneg(s1[x])] ELSE s1,
                    key |-> IF flip THEN Fneg(k1) ELSE k1],
                   [op |-> "derive", idx |-> i])

\* A refresh among a strict subset S of the shareholders (still more than T of them) would leave the others with shares of
\* the old polynomial while their public shares are rewritten: it must be refused.  The attempt is recorded in the
\* history; it creates no version.
RefreshBySubset(S) ==
  /\ CanTransform /\ SubsetRefresh /\ ~Additive
  /\ S \subseteq XS /\ S # XS /\ Cardinality(S) > T
  /\ (IF ops = <<>> THEN TRUE ELSE ops[Len(ops)].op # "refresh-subset")
  /\ ops' = Append(ops, [op |-> "refresh-subset", S |-> S, expect |-> "refused"])
  /\ UNCHANGED <<ver, held, probe>>

\* party x serialises its current material and restores it: nothing changes
StoreRestore(x) ==
  /\ CanTransform /\ ops # <<>> /\ ops[Len(ops)].op # "store"
  /\ ops' = Append(ops, [op |-> "store", who |-> x])
  /\ UNCHANGED <<ver, held, probe>>

SameVersion(S, pick) == \A x, y \in S : pick[x] = pick[y]
\* for a reconstruction only the share values matter: in the two-party additive scheme a derivation changes one
\* party's share only, so the other party's share of the parent version IS its share of the child version
\* (only there: with Shamir sharing two versions' shares coincide in GF(Q) by accident, never in the real group)
SameShares(S, pick) == \E v \in 1..Len(ver) : \A x \in S : ver[pick[x]].share[x] = ver[v].share[x]

\* kind "reconstruct" with expectation "mixed": judged on the real shares for every (t+1)-subset of S whose members picked
\* different versions (a reconstruction takes t+1 shares; interpolating through more points at once can hit the key by an
\* algebraic coincidence of the evaluation points - e.g. t = 1 and the symmetric split {1,4} / {2,3} of consecutive points)
\* kind "online" (CMP): the signers first produce a presignature with the OLDEST version any of them picked (all of them
\* hold it), later each signs with the version it picked; the expectation is the same: a signature iff all use one version
Probe(kind, S, pick) ==
  /\ probe = NoProbe /\ S # {} /\ S \subseteq XS
  /\ \A x \in S : pick[x] \in held[x]
  /\ probe' = [kind |-> kind, S |-> S, pick |-> pick,
               expect |-> IF ~Enough(S) THEN "refused"
                          ELSE IF SameVersion(S, pick) \/ (kind = "reconstruct" /\ Additive /\ SameShares(S, pick)) THEN "ok"
                          ELSE "mixed"]
  /\ UNCHANGED <<ver, held, ops>>

\* A refresh that is given up before it completes (messages of its last round lost, everybody stops) is a stuttering
\* step: no version is created and nobody's material changes.  It is not a disjunct of Next (it would only add
\* self-loops); the driver performs such an attempt before some of the Refresh steps of a history and requires the
\* key material OBJECTS to be what they were (klife: abortedRefresh).
RefreshGivenUp == UNCHANGED vars

Next ==
  \/ \E z \in RefPolys : IF Additive THEN RefreshAdd(z[2]) ELSE Refresh(z)
  \/ \E i \in Indices : Derive(i)
  \/ \E x \in XS : StoreRestore(x)
  \/ \E S \in SUBSET XS : RefreshBySubset(S)
  \/ \E kind \in Kinds, S \in SUBSET XS :
        \E pick \in [S -> 1..Len(ver)] : Probe(kind, S, pick)

Spec == Init /\ [][Next]_vars

----------------------------------------------------------------------------
\* invariants (every version ever created is a consistent sharing of its key)
Sub(k) == {S \in SUBSET XS : Cardinality(S) = k}
VersionConsistent(v) ==
  IF Additive THEN Combine(XS, v.share) = v.key
  ELSE \A S \in SUBSET XS : Cardinality(S) > T => Combine(S, v.share) = v.key
AllVersionsConsistent == \A k \in 1..Len(ver) : VersionConsistent(ver[k])
\* C08: refresh keeps the key; C14: derivation moves it by the child scalar (up to the Taproot sign)
RefreshKeepsKey == \A k \in 2..Len(ver) : (ver[k].path = ver[k-1].path) => ver[k].key = ver[k-1].key
DeriveMovesKey == \A k \in 2..Len(ver) : (ver[k].path # ver[k-1].path) =>
     LET want == Fadd(ver[k-1].key, Adj(ver[k].path[Len(ver[k].path)])) IN
     ver[k].key = want \/ (EvenY /\ ver[k].key = Fneg(want))
EvenKeys == EvenY => \A k \in 2..Len(ver) : (ver[k].path # ver[k-1].path) => (~Odd(ver[k].key) \/ ver[k].key = 0)
\* C01 / C08: the probe's expectation is what the arithmetic gives when everybody uses the same version
ProbeSound ==
  (probe # NoProbe /\ probe.expect = "ok") =>
     \E k \in 1..Len(ver) :
        /\ \A x \in probe.S : ver[probe.pick[x]].share[x] = ver[k].share[x]
        /\ Combine(probe.S, [x \in probe.S |-> ver[k].share[x]]) = ver[k].key

\* export
Done == probe # NoProbe
Emit == (EmitHist /\ Done) =>
  PrintT(<<"HIST", ToJson([ops |-> ops, probe |-> [kind |-> probe.kind, S |-> probe.S, expect |-> probe.expect,
                                                   pick |-> [x \in probe.S |-> probe.pick[x]]],
                           nver |-> Len(ver), epochs |-> [k \in 1..Len(ver) |-> ver[k].epoch],
                           paths |-> [k \in 1..Len(ver) |-> ver[k].path]])>>)

\* polynomial sets for the configurations (cfg files cannot contain tuples): <<c0, c1, ...>>
FreshT0 == {<<3>>, <<5>>}
FreshT1 == {<<3, 2>>, <<5, 6>>}
FreshT2 == {<<3, 2, 4>>, <<1, 6, 5>>}
FreshT3 == {<<3, 2, 4, 1>>}
RefT0 == {<<0>>}
RefT1 == {<<0, 4>>, <<0, 1>>}
RefT2 == {<<0, 4, 2>>, <<0, 0, 3>>}
RefT3 == {<<0, 4, 2, 6>>}
=============================================================================
