-------------------------------- MODULE Pool --------------------------------
(***************************************************************************)
(* The worker pool of multi-party-sig (pkg/pool/pool.go): one caller, W    *)
(* long-lived workers, an atomic counter and two UNBUFFERED channels       *)
(* (commands, and a per-call notification channel).  Go's unbuffered       *)
(* channels are rendezvous, so a send and its matching receive are ONE     *)
(* joint step of two processes.  Labels are exactly the yield points the   *)
(* verif hooks expose in the code; a process "at" a label has not yet      *)
(* executed the operation that follows it.                                 *)
(*                                                                         *)
(* Fixed = TRUE  is the algorithm in the tree (after the fix): the caller  *)
(*   consumes exactly one notification per result; a search worker         *)
(*   notifies only for a slot it claimed, after writing it.                *)
(* Fixed = FALSE is the algorithm before the fix (caller waits on the      *)
(*   counter, search worker always notifies and writes after the           *)
(*   decrement) - kept as a negative control TLC must reject.              *)
(***************************************************************************)
EXTENDS Integers, Sequences, FiniteSets, TLC, Json

CONSTANTS W,        \* set of workers
          Calls,    \* sequence of calls: [kind |-> "par" | "search", k |-> Nat]
          MaxMiss,  \* bound on nil results per worker per search command
          Fixed,
          EmitHist  \* TRUE: print the action history of every complete behaviour

VARIABLES cpc,      \* caller label: "c_select" | "c_wait" | "c_return" | "c_done"
          call,     \* index of the current call
          ctr,      \* ctr[c]: the atomic counter of call c
          cmdI,     \* commands sent so far in this call
          done,     \* notifications consumed so far in this call
          results,  \* results[c]: slot -> value (-1 = not written)
          wpc,      \* worker label
          wcall,    \* the call a worker's current command belongs to
          wtask,    \* Parallelize: index to evaluate
          wi,       \* Search: value returned by the decrement
          miss,     \* Search: misses so far for this command
          hist      \* action history (for replay on the real pool)
vars == <<cpc, call, ctr, cmdI, done, results, wpc, wcall, wtask, wi, miss, hist>>

NCalls == Len(Calls)
K(c) == Calls[c].k
IsPar(c) == Calls[c].kind = "par"
NCmds(c) == IF IsPar(c) THEN K(c) ELSE Cardinality(W)

\* every history entry carries the labels after the step, so the replay can compare them with the real goroutines
Log(a, w) == hist' = Append(hist, [a |-> a, w |-> w, cpc |-> cpc', wpc |-> wpc'])

\* label the caller is at when call c starts / continues
CallerLabel(c, sent, got) ==
  IF sent < NCmds(c) THEN "c_select"
  ELSE IF Fixed THEN (IF got < K(c) THEN "c_wait" ELSE "c_return")
       ELSE "c_load"

Init ==
  /\ call = 1
  /\ ctr = [c \in 1..NCalls |-> K(c)]
  /\ cmdI = 0 /\ done = 0
  /\ results = [c \in 1..NCalls |-> [i \in 0..(K(c)-1) |-> -1]]
  /\ cpc = IF NCalls = 0 THEN "c_done" ELSE CallerLabel(1, 0, 0)
  /\ wpc = [w \in W |-> "w_idle"]
  /\ wcall = [w \in W |-> 0] /\ wtask = [w \in W |-> 0] /\ wi = [w \in W |-> 0]
  /\ miss = [w \in W |-> 0]
  /\ hist = <<>>

\* joint step: the caller sends a command, an idle worker receives it
SendCmd(w) ==
  /\ cpc = "c_select" /\ wpc[w] = "w_idle"
  /\ wpc' = [wpc EXCEPT ![w] = IF IsPar(call) THEN "w_run" ELSE "ws_check"]
  /\ wcall' = [wcall EXCEPT ![w] = call]
  /\ wtask' = [wtask EXCEPT ![w] = cmdI]
  /\ miss' = [miss EXCEPT ![w] = 0]
  /\ cmdI' = cmdI + 1
  /\ cpc' = CallerLabel(call, cmdI + 1, done)
  /\ UNCHANGED <<call, ctr, done, results, wi>>
  /\ Log("SendCmd", w)

\* joint step: a worker of the CURRENT call hands over its notification (the channel is per call)
RecvNotify(w) ==
  /\ cpc \in {"c_select", "c_wait"}
  /\ wpc[w] \in {"w_notify", "ws_notify"} /\ wcall[w] = call
  /\ wpc' = [wpc EXCEPT ![w] = IF wpc[w] = "w_notify" THEN "w_idle" ELSE "ws_check"]
  /\ done' = done + 1
  /\ cpc' = IF cpc = "c_select" THEN "c_select"
            ELSE IF Fixed THEN CallerLabel(call, cmdI, done + 1) ELSE "c_load"
  /\ UNCHANGED <<call, ctr, cmdI, results, wcall, wtask, wi, miss>>
  /\ Log("RecvNotify", w)

\* only the algorithm before the fix: the caller polls the counter
CLoad ==
  /\ ~Fixed /\ cpc = "c_load"
  /\ cpc' = IF ctr[call] > 0 THEN "c_wait" ELSE "c_return"
  /\ UNCHANGED <<call, ctr, cmdI, done, results, wpc, wcall, wtask, wi, miss>>
  /\ Log("CLoad", "caller")

CReturn ==
  /\ cpc = "c_return"
  /\ IF call < NCalls
     THEN /\ call' = call + 1
          /\ cpc' = CallerLabel(call + 1, 0, 0)
     ELSE /\ call' = call
          /\ cpc' = "c_done"
  /\ cmdI' = 0 /\ done' = 0
  /\ UNCHANGED <<ctr, results, wpc, wcall, wtask, wi, miss>>
  /\ Log("CReturn", "caller")

\* ---- worker, Parallelize command: results[i] = f(i); ctr--; notify
WRun(w) ==
  /\ wpc[w] = "w_run"
  /\ results' = [results EXCEPT ![wcall[w]][wtask[w]] = wtask[w]]
  /\ wpc' = [wpc EXCEPT ![w] = "w_dec"]
  /\ UNCHANGED <<cpc, call, ctr, cmdI, done, wcall, wtask, wi, miss>>
  /\ Log("WRun", w)
WDec(w) ==
  /\ wpc[w] = "w_dec"
  /\ ctr' = [ctr EXCEPT ![wcall[w]] = @ - 1]
  /\ wpc' = [wpc EXCEPT ![w] = "w_notify"]
  /\ UNCHANGED <<cpc, call, cmdI, done, results, wcall, wtask, wi, miss>>
  /\ Log("WDec", w)

\* ---- worker, Search command
WSCheck(w) ==
  /\ wpc[w] = "ws_check"
  /\ wpc' = [wpc EXCEPT ![w] = IF ctr[wcall[w]] > 0 THEN "ws_run" ELSE "w_idle"]
  /\ UNCHANGED <<cpc, call, ctr, cmdI, done, results, wcall, wtask, wi, miss>>
  /\ Log("WSCheck", w)
WSMiss(w) ==
  /\ wpc[w] = "ws_run" /\ miss[w] < MaxMiss
  /\ miss' = [miss EXCEPT ![w] = @ + 1]
  /\ wpc' = [wpc EXCEPT ![w] = "ws_check"]
  /\ UNCHANGED <<cpc, call, ctr, cmdI, done, results, wcall, wtask, wi>>
  /\ Log("WSMiss", w)
WSHit(w) ==
  /\ wpc[w] = "ws_run"
  /\ wpc' = [wpc EXCEPT ![w] = "ws_dec"]
  /\ UNCHANGED <<cpc, call, ctr, cmdI, done, results, wcall, wtask, wi, miss>>
  /\ Log("WSHit", w)
WSDec(w) ==
  /\ wpc[w] = "ws_dec"
  /\ ctr' = [ctr EXCEPT ![wcall[w]] = @ - 1]
  /\ wi' = [wi EXCEPT ![w] = ctr[wcall[w]] - 1]
  /\ wpc' = [wpc EXCEPT ![w] = IF ctr[wcall[w]] - 1 >= 0 THEN "ws_write"
                                ELSE IF Fixed THEN "ws_check" ELSE "ws_notify"]
  /\ UNCHANGED <<cpc, call, cmdI, done, results, wcall, wtask, miss>>
  /\ Log("WSDec", w)
WSWrite(w) ==
  /\ wpc[w] = "ws_write"
  /\ results' = [results EXCEPT ![wcall[w]][wi[w]] = 100]
  /\ wpc' = [wpc EXCEPT ![w] = "ws_notify"]
  /\ UNCHANGED <<cpc, call, ctr, cmdI, done, wcall, wtask, wi, miss>>
  /\ Log("WSWrite", w)

Next ==
  \/ CLoad \/ CReturn
  \/ \E w \in W : SendCmd(w) \/ RecvNotify(w) \/ WRun(w) \/ WDec(w)
                  \/ WSCheck(w) \/ WSMiss(w) \/ WSHit(w) \/ WSDec(w) \/ WSWrite(w)

Spec == Init /\ [][Next]_vars /\ WF_vars(Next)

----------------------------------------------------------------------------
\* C18
\* when a call returns, every slot is written; Parallelize slot i holds f(i)
ResultsComplete ==
  cpc = "c_return" => \A i \in 0..(K(call)-1) :
        results[call][i] # -1 /\ (IsPar(call) => results[call][i] = i)
AllIdle == \A w \in W : wpc[w] = "w_idle"
\* the system never gets stuck before all calls returned with all workers idle again
NoLostWorker == (~ENABLED Next) => (cpc = "c_done" /\ AllIdle)
\* every call returns; afterwards every worker is available again, forever (so the pool can be reused)
Returns == <>(cpc = "c_done")
WorkersRecovered == <>[](cpc = "c_done" /\ AllIdle)
\* a worker blocked on a notification always belongs to the call in progress (somebody will receive it)
NotifierHasReceiver == \A w \in W : wpc[w] \in {"w_notify", "ws_notify"} => (wcall[w] = call /\ cpc # "c_done")
TypeOK == /\ cpc \in {"c_select", "c_wait", "c_load", "c_return", "c_done"}
          /\ \A w \in W : wpc[w] \in {"w_idle", "w_run", "w_dec", "w_notify", "ws_check", "ws_run", "ws_dec", "ws_write", "ws_notify"}
          /\ done >= 0 /\ cmdI >= 0

\* export of complete behaviours for the gated replay on the real pool
Terminal == cpc = "c_done" /\ AllIdle
Emit == (EmitHist /\ Terminal) => PrintT(<<"HIST", ToJson(hist)>>)

\* hist does not influence behaviour: exhaustive runs look at the state without it
NoHist == <<cpc, call, ctr, cmdI, done, results, wpc, wcall, wtask, wi, miss>>

CallsPar2 == <<[kind |-> "par", k |-> 2]>>
CallsPar3 == <<[kind |-> "par", k |-> 3]>>
CallsPar0 == <<[kind |-> "par", k |-> 0], [kind |-> "par", k |-> 1]>>
CallsSearch1 == <<[kind |-> "search", k |-> 1]>>
CallsSearch2 == <<[kind |-> "search", k |-> 2]>>
CallsSearch0 == <<[kind |-> "search", k |-> 0], [kind |-> "search", k |-> 1]>>
CallsParPar == <<[kind |-> "par", k |-> 2], [kind |-> "par", k |-> 2]>>
CallsMix == <<[kind |-> "par", k |-> 2], [kind |-> "search", k |-> 2], [kind |-> "par", k |-> 3]>>
CallsMix2 == <<[kind |-> "search", k |-> 2], [kind |-> "par", k |-> 3], [kind |-> "search", k |-> 1]>>
CallsMix4 == <<[kind |-> "search", k |-> 3], [kind |-> "par", k |-> 4], [kind |-> "search", k |-> 2], [kind |-> "par", k |-> 1]>>
=============================================================================
