----------------------------- MODULE DoernerAlg -----------------------------
(***************************************************************************)
(* The algebra of two-party ECDSA signing after Doerner et al.             *)
(* (protocols/doerner/sign: round1R, round1S, round2R, round2S) over the   *)
(* prime field Z_Q, a curve point a*G represented by its exponent a.       *)
(*                                                                         *)
(*   key        sk = skA + skB,  P = sk G      (Sender A, Receiver B)      *)
(*   round1R    B draws kB, publishes D = kB G, enters three OT            *)
(*              multiplications with 1/kB, 1/kB and skB/kB                  *)
(*   round1S    A draws kA (R = kA D = kA kB G) and a pad phi, enters the  *)
(*              multiplications with 1/kA + phi, skA/kA and 1/kA; a        *)
(*              multiplication hands the two sides additive shares of the  *)
(*              product: tA + tB = alpha beta                              *)
(*              Gamma1 = G + phi kA G - tA1 R      muPhi = H(Gamma1) + phi  *)
(*              sigA = m tA1 + r tA2                                        *)
(*              Gamma2 = tA1 P - tA2 G             muSig = H(Gamma2) + sigA *)
(*   round2R    B: Gamma1 = tB1 R, phi = muPhi - H(Gamma1),                 *)
(*              theta = tB1 - phi/kB, sigB = m theta + r tB2,              *)
(*              Gamma2 = tB2 G - theta P, s = sigB + muSig - H(Gamma2);     *)
(*              (R, s) is VERIFIED before it is sent to A and returned      *)
(*   round2S    A verifies the signature it receives and returns it        *)
(*                                                                         *)
(* The hashes are not modelled as functions: when the two sides hash the   *)
(* same point the masks cancel; when they hash different points the        *)
(* difference of the masks ranges over MaskDiffs (0 included: a collision).*)
(* r = x(R) is an arbitrary non-zero value.                                *)
(*                                                                         *)
(* One side may compute with other inputs than the ones fixed at key       *)
(* generation (a state-level deviation: every message it sends is          *)
(* well-formed):                                                           *)
(*   "share"   another key share (sk_i + off)                               *)
(*   "public"  another public key in Gamma2 (and in its own verification)  *)
(*   "ot"      another OT correlation: the shares of multiplication mul    *)
(*             (3: of all three) sum to the product plus off               *)
(*   "kinv"    the Receiver unmasks with another 1/kB than it multiplied   *)
(*             with (state kept between its two rounds)                    *)
(* TLC checks: honest sessions complete with a valid signature whatever    *)
(* the random choices are; the two consistency checks (Gamma1, Gamma2) hold*)
(* exactly when the multiplications were fed consistent inputs; and under  *)
(* every deviation the honest side never returns an invalid signature.     *)
(*                                                                         *)
(* Binding: the module prints the deviation catalogue; bin/c03.py runs     *)
(* each case on the real protocol (the deviating side is started from      *)
(* altered key material / has its round state altered by a proxy session)  *)
(* and compares the outcome at the honest side.                            *)
(***************************************************************************)
EXTENDS Integers, FiniteSets, TLC, Json

CONSTANTS Q,                       \* a small prime
          SkVals, KVals, PhiVals,  \* ranges of key shares, nonces (non-zero), pad
          TVals,                   \* ranges of the Sender's multiplication shares
          MVals, RVals,            \* message scalar, x-coordinate of R (non-zero)
          Kinds, Offs, MaskDiffs,
          VerifyFinal              \* TRUE: as coded; FALSE (control): the Receiver returns what it assembled unverified

F == 0..(Q-1)
Fadd(a, b) == (a + b) % Q
Fsub(a, b) == (a - b + Q) % Q
Fmul(a, b) == (a * b) % Q
Fneg(a) == (Q - a) % Q
Finv(a) == CHOOSE x \in 1..(Q-1) : (a * x) % Q = 1

VARIABLES skA, skB, kA, kB, phi, tA, m, r, dev, md, phase, out
vars == <<skA, skB, kA, kB, phi, tA, m, r, dev, md, phase, out>>

None == "none"
Dev(who, kind) == dev.who = who /\ dev.kind = kind
Off(who, kind) == IF Dev(who, kind) THEN dev.off ELSE 0

Sk == Fadd(skA, skB)
P == Sk                                  \* the public key fixed at key generation
K == Fmul(kA, kB)                        \* R = K G
PubOf(i) == Fadd(P, Off(i, "public"))    \* the public key side i computes with

\* inputs of the three multiplications
Alpha(j) == CASE j = 0 -> Fadd(Finv(kA), phi)
              [] j = 1 -> Fmul(Fadd(skA, Off("A", "share")), Finv(kA))
              [] j = 2 -> Finv(kA)
Beta(j) == CASE j = 0 -> Finv(kB)
             [] j = 1 -> Finv(kB)
             [] j = 2 -> Fmul(Fadd(skB, Off("B", "share")), Finv(kB))
\* shares: the Sender's is random, the Receiver's is the rest (plus the error of a broken correlation)
OtErr(j) == IF dev.kind = "ot" /\ (dev.mul = j \/ dev.mul = 3) THEN dev.off ELSE 0     \* mul = 3: all three
TA(j) == tA[j]
TB(j) == Fadd(Fsub(Fmul(Alpha(j), Beta(j)), tA[j]), OtErr(j))

\* Sender
TA2 == Fadd(TA(1), TA(2))
Gamma1A == Fsub(Fadd(1, Fmul(phi, kA)), Fmul(TA(0), K))
SigA == Fadd(Fmul(m, TA(0)), Fmul(r, TA2))
Gamma2A == Fsub(Fmul(TA(0), PubOf("A")), TA2)

\* Receiver
TB2 == Fadd(TB(1), TB(2))
Gamma1B == Fmul(TB(0), K)
Mask1 == IF Gamma1A = Gamma1B THEN 0 ELSE md[1]        \* H(Gamma1A) - H(Gamma1B)
PhiB == Fadd(phi, Mask1)
KBInvUsed == Fadd(Finv(kB), Off("B", "kinv"))
Theta == Fsub(TB(0), Fmul(PhiB, KBInvUsed))
SigB == Fadd(Fmul(m, Theta), Fmul(r, TB2))
Gamma2B == Fsub(TB2, Fmul(Theta, PubOf("B")))
Mask2 == IF Gamma2A = Gamma2B THEN 0 ELSE md[2]
S == Fadd(Fadd(SigB, SigA), Mask2)

\* ECDSA verification of (R, s) under public key pub:  s # 0 and  s K = m + r pub   (R = (m/s) G + (r/s) pub)
Valid(pub) == S # 0 /\ Fmul(S, K) = Fadd(m, Fmul(r, pub))

Deviations ==
  {[who |-> None, kind |-> "none", off |-> 0, mul |-> 0]} \cup
  {[who |-> w, kind |-> k, off |-> o, mul |-> 0] : w \in {"A", "B"}, k \in Kinds \cap {"share", "public"}, o \in Offs} \cup
  {[who |-> w, kind |-> "ot", off |-> o, mul |-> j] : w \in (IF "ot" \in Kinds THEN {"A", "B"} ELSE {}), o \in Offs, j \in 0..3} \cup
  {[who |-> "B", kind |-> "kinv", off |-> o, mul |-> 0] : o \in (IF "kinv" \in Kinds THEN Offs ELSE {})}

Init ==
  /\ skA \in SkVals /\ skB \in SkVals
  /\ kA \in KVals /\ kB \in KVals
  /\ phi \in PhiVals
  /\ tA \in [0..2 -> TVals]
  /\ m \in MVals /\ r \in RVals
  /\ dev \in Deviations
  /\ md \in (IF dev.who = None THEN {[i \in 1..2 |-> 0]} ELSE [1..2 -> MaskDiffs])
  /\ phase = "round2R"
  /\ out = [i \in {"A", "B"} |-> "run"]

\* round2R.Finalize: the Receiver verifies under ITS public key before it sends and returns the signature
Round2R ==
  /\ phase = "round2R"
  /\ IF Valid(PubOf("B")) \/ ~VerifyFinal THEN phase' = "round2S" /\ out' = [out EXCEPT !["B"] = "sig"]
                          ELSE phase' = "done" /\ out' = [out EXCEPT !["B"] = "abort"]
  /\ UNCHANGED <<skA, skB, kA, kB, phi, tA, m, r, dev, md>>

\* round2S.VerifyMessage: the Sender verifies under ITS public key
Round2S ==
  /\ phase = "round2S"
  /\ phase' = "done"
  /\ out' = [out EXCEPT !["A"] = IF Valid(PubOf("A")) THEN "sig" ELSE "abort"]
  /\ UNCHANGED <<skA, skB, kA, kB, phi, tA, m, r, dev, md>>

Next == Round2R \/ Round2S
Spec == Init /\ [][Next]_vars

----------------------------------------------------------------------------
Honest == {"A", "B"} \ {dev.who}
Deviates == dev.who # None

TypeOK == /\ out \in [{"A", "B"} -> {"run", "sig", "abort"}]
          /\ phase \in {"round2R", "round2S", "done"}

\* C01 at the design level: the honest computation gives a valid signature for every choice of randomness
NonDegenerate == Fadd(m, Fmul(r, P)) # 0      \* otherwise s = 0 (probability 1/Q)
HonestCompletes == (phase = "done" /\ ~Deviates /\ NonDegenerate) => (out["A"] = "sig" /\ out["B"] = "sig" /\ Valid(P))
\* the consistency checks hold in an honest session (the masks cancel) ...
ChecksHold == ~Deviates => (Gamma1A = Gamma1B /\ Gamma2A = Gamma2B)
\* ... the second one fails whenever the key shares the two sides multiplied with do not add up to the key
KeyCheckSound == (dev.kind = "share") => (Gamma1A = Gamma1B /\ Gamma2A # Gamma2B)
\* a broken correlation in a multiplication is caught by the check that covers it
OtCheckSound == (dev.kind = "ot") => (IF dev.mul \in {0, 3} THEN Gamma1A # Gamma1B ELSE Gamma2A # Gamma2B)
\* what the checks are for: if both pass (and the checks themselves are computed with the right public key) the
\* assembled signature is valid - whatever the deviation was (degenerate key / digest excluded)
ChecksImplyValid ==
  (dev.kind # "public" /\ Gamma1A = Gamma1B /\ Gamma2A = Gamma2B /\ P # 0 /\ Fadd(m, Fmul(r, P)) # 0) => Valid(P)
\* C03: whatever one side does, the other never returns an invalid signature (under the key fixed at key generation)
OutputValid == \A i \in Honest : out[i] = "sig" => Valid(P)
\* the Sender returns what the Receiver returned
Agreement == (out["A"] = "sig") => (out["B"] = "sig")

Catalogue == {[rule |-> d.kind, who |-> d.who, mul |-> d.mul] : d \in {x \in Deviations : x.who # None}}
ASSUME PrintT(<<"CAT", ToJson(Catalogue)>>)
=============================================================================
