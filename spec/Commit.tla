------------------------------- MODULE Commit -------------------------------
(***************************************************************************)
(* C19 - commitments of pkg/hash (commit.go: Commit, Decommit, Validate).  *)
(*                                                                         *)
(*   Commit(h, items)        = (c, d),  d <- 32 random bytes,              *)
(*                             c = H(state(h) || Frame(items...) || Frame("Decommitment", d)) *)
(*   Decommit(h, c, d, items') accepts iff  |c| = 64, c # 0^64, |d| = 32, d # 0^32 and       *)
(*                             c = H(state(h) || Frame(items'...) || Frame("Decommitment", d)) *)
(* with the framing of Framing.tla.  The hash H is abstracted as INJECTIVE *)
(* on the absorbed bytes: a digest is represented by its preimage (field   *)
(* pre) plus a tampering mode (mod) applied to the 64 output bytes.        *)
(*                                                                         *)
(* WHAT TLC DECIDES: for every base tuple within the bound, every context, *)
(* every decommitment used to create the commitment (honest random-looking *)
(* ones and adversarial ones: all zero, wrong length, single non-zero byte *)
(* first/last) and every perturbation of the opening (tuple reordered, one *)
(* item changed / retyped / dropped / added, every adversarial relative of *)
(* Framing.tla, other / truncated / extended / zero decommitment,          *)
(* truncated / extended / zero / empty / bit-flipped commitment, other     *)
(* context) the verdict of the transcribed Decommit rule is computed and   *)
(* the invariants                                                          *)
(*   Binding  : accept => same (domain,data) sequence incl. context, same  *)
(*              decommitment, untampered commitment, both well-formed      *)
(*   Complete : the exact tuple with its own valid decommitment opens      *)
(* hold.  Binding relies on the injectivity of the framing: with a wrong   *)
(* Variant (negative control) TLC must reject it.                          *)
(* WHAT ONLY THE CONFORMANCE RUN DECIDES: that the real Commit / Decommit  *)
(* / Validate give the verdict computed here for each printed CASE and     *)
(* that the real commitment is byte-exactly blake3(pre).  Collision        *)
(* resistance of BLAKE3 and unpredictability of crypto/rand are assumed.   *)
(***************************************************************************)
EXTENDS Integers, Sequences, FiniteSets, TLC, Json

CONSTANTS
    Variant, Alphabet, MaxItems, MaxData,
    SecBytes,     \* 32: length of a decommitment
    FullBelow,    \* the decommitment / commitment / context / cross groups are enumerated for bases of < FullBelow items
    EmitCases     \* print CASE lines

VARIABLES base, phase, cs

F == INSTANCE Framing WITH seq <- base, PairBelow <- 0, EmitBelow <- 0

DomDecommitment == <<68,101,99,111,109,109,105,116,109,101,110,116>>     \* "Decommitment"

\* ---- decommitments: [len, fill]
Fills == {"A", "B", "zero", "hi", "lo"}
DBytes(d) == [i \in 1..d.len |-> CASE d.fill = "A"    -> 65
                                   [] d.fill = "B"    -> 66
                                   [] d.fill = "zero" -> 0
                                   [] d.fill = "hi"   -> IF i = 1 THEN 128 ELSE 0
                                   [] d.fill = "lo"   -> IF i = d.len THEN 1 ELSE 0]
D(len, fill) == [len |-> len, fill |-> fill]
Lens  == {0, 1, SecBytes - 1, SecBytes, SecBytes + 1, 2 * SecBytes}
HonestD == D(SecBytes, "A")                                  \* what crypto/rand produced (any non-zero 32 bytes)
\* decommitments an adversary may have used to CREATE a commitment (it computes the hash itself)
CreateDs == {HonestD, D(SecBytes, "zero"), D(SecBytes, "hi"), D(SecBytes, "lo"),
             D(SecBytes - 1, "A"), D(SecBytes + 1, "A"), D(0, "A"), D(2 * SecBytes, "A"), D(1, "A")}
\* decommitments tried when OPENING
OpenDs(d0) == {d0, D(SecBytes, "B"), D(SecBytes, "zero"), D(SecBytes, "hi"), D(SecBytes, "lo")}
              \cup {D(l, d0.fill) : l \in Lens}

ValidD(d) == d.len = SecBytes /\ \E i \in 1..d.len : DBytes(d)[i] # 0
DecItem(d) == F!Wd(DomDecommitment, DBytes(d))

\* ---- commitments: preimage + tampering of the 64 digest bytes
CMods == {"none", "trunc", "ext", "zero", "empty", "flip", "flipfirst"}
ValidC(c) == c.mod \in {"none", "flip", "flipfirst"}         \* 64 bytes, not all zero (a digest is never 0^64: assumption)

Pre(ctx, items, d) == F!Encode(ctx \o items \o <<DecItem(d)>>)

\* the transcribed decision of Decommit
Accept(c, ctx, items, d) == /\ ValidC(c)
                            /\ ValidD(d)
                            /\ c.mod = "none"
                            /\ c.pre = Pre(ctx, items, d)

\* ---- cases
Ctx1 == <<F!Mk("id", <<68>>)>>                                \* a context already absorbed by the hash state
Ctx2 == <<F!Mk("bytes", <<68>>)>>

OtherSym(x) == CHOOSE y \in Alphabet : y # x
ChangeByte(s) == IF s = <<>> THEN {} ELSE
    {[rel |-> "change-byte", b |-> F!Repl(s, i, <<F!WithD(s[i], IF s[i].d = <<>> THEN <<OtherSym(0)>>
                                                  ELSE Append(F!Front(s[i].d), OtherSym(F!Last(s[i].d))))>>)] : i \in 1..Len(s)}
DropAdd(s) ==
    {[rel |-> "drop", b |-> F!Repl(s, i, <<>>)] : i \in 1..Len(s)}
    \cup {[rel |-> "add-last", b |-> Append(s, it)] : it \in {F!Mk("bytes", <<68>>), F!Mk("id", <<68>>)}}
    \cup {[rel |-> "add-first", b |-> <<it>> \o s] : it \in {F!Mk("bytes", <<68>>)}}
    \cup {[rel |-> "duplicate", b |-> s \o s] : x \in {1}}
ItemPerts(s) == {[rel |-> "same", b |-> s]}
                \cup {[rel |-> p.rel, b |-> p.b] : p \in {q \in F!Adv(s) : q.a = s}}
                \cup {q \in ChangeByte(s) \cup DropAdd(s) : F!WFSeq(q.b)}

Case(grp, ctx0, d0, ctx1, ip, d1, cmod) ==
    [grp |-> grp, ctx0 |-> ctx0, d0 |-> d0, ctx1 |-> ctx1, irel |-> ip.rel, items1 |-> ip.b, d1 |-> d1, cmod |-> cmod]
Same(s) == [rel |-> "same", b |-> s]

ItemCases(s) ==
    \* the opened tuple is perturbed
    {Case("items", ctx, HonestD, ctx, ip, HonestD, "none") : ctx \in {<<>>, Ctx1}, ip \in ItemPerts(s)}
OtherCases(s) ==
    \* the commitment was created with d0 (possibly adversarial), it is opened with d1
    UNION {{Case("decommitment", <<>>, d0, <<>>, Same(s), d1, "none") : d1 \in OpenDs(d0)} : d0 \in CreateDs}
    \* the commitment bytes are tampered
    \cup {Case("commitment", <<>>, d0, <<>>, Same(s), d0, m) : d0 \in {HonestD, D(SecBytes, "zero")}, m \in CMods}
    \* the context differs / an item moves between context and tuple
    \cup {Case("context", c0, HonestD, c1, Same(s), HonestD, "none") : c0 \in {<<>>, Ctx1, Ctx2}, c1 \in {<<>>, Ctx1, Ctx2}}
    \cup {Case("context-move", Ctx1, HonestD, <<>>, [rel |-> "ctx-into-tuple", b |-> Ctx1 \o s], HonestD, "none") : x \in {1}}
    \cup {Case("context-move", <<>>, HonestD, Ctx1, [rel |-> "tuple-into-ctx", b |-> Tail(s)], HonestD, "none") : x \in {y \in {1} : s # <<>> /\ s[1] = Ctx1[1]}}
    \* several things at once
    \cup {Case("cross", <<>>, HonestD, <<>>, ip, d1, m) :
              ip \in {q \in ItemPerts(s) : q.rel \in {"permute", "drop", "merge", "same"}},
              d1 \in {HonestD, D(SecBytes, "B"), D(SecBytes, "zero")}, m \in {"none", "flip", "zero"}}
Cases(s) == ItemCases(s) \cup (IF Len(s) < FullBelow THEN OtherCases(s) ELSE {})

Commitment(k, s) == [pre |-> Pre(k.ctx0, s, k.d0), mod |-> k.cmod]
Verdict(k, s)    == Accept(Commitment(k, s), k.ctx1, k.items1, k.d1)

NoCase == Case("none", <<>>, HonestD, <<>>, Same(<<>>), HonestD, "none")

Init == base = <<>> /\ phase = "build" /\ cs = NoCase
Build == /\ phase = "build" /\ Len(base) < MaxItems
         /\ \E it \in F!Items : base' = Append(base, it)
         /\ UNCHANGED <<phase, cs>>
Pick  == /\ phase = "build"
         /\ \E k \in Cases(base) : cs' = k
         /\ phase' = "case" /\ UNCHANGED base
Next == Build \/ Pick
Spec == Init /\ [][Next]_<<base, phase, cs>>

TypeOK == phase \in {"build", "case"} /\ Len(base) <= MaxItems

Binding == phase = "case" =>
    (Verdict(cs, base) =>
        /\ F!SemSeq(cs.ctx1 \o cs.items1) = F!SemSeq(cs.ctx0 \o base)
        /\ cs.d1 = cs.d0
        /\ cs.cmod = "none"
        /\ ValidD(cs.d1))
Complete == phase = "case" =>
    ((cs.ctx1 = cs.ctx0 /\ cs.items1 = base /\ cs.d1 = cs.d0 /\ cs.cmod = "none" /\ ValidD(cs.d0)) => Verdict(cs, base))
\* refusals that do not depend on the hash at all
Refusals == phase = "case" =>
    /\ (cs.cmod \in {"trunc", "ext", "zero", "empty"} => ~Verdict(cs, base))
    /\ (cs.d1.len # SecBytes \/ cs.d1.fill = "zero" => ~Verdict(cs, base))

JItem(it) == [ty |-> it.ty, dom |-> it.dom, d |-> it.d]
JSeq(s)   == [i \in 1..Len(s) |-> JItem(s[i])]
Emit == (phase = "case" /\ EmitCases) =>
    PrintT(<<"CASE", ToJson([grp |-> cs.grp, irel |-> cs.irel, ctx0 |-> JSeq(cs.ctx0), items0 |-> JSeq(base), d0 |-> cs.d0,
                             ctx1 |-> JSeq(cs.ctx1), items1 |-> JSeq(cs.items1), d1 |-> cs.d1, cmod |-> cs.cmod,
                             pre |-> Pre(cs.ctx0, base, cs.d0),
                             validC |-> ValidC(Commitment(cs, base)), validD1 |-> ValidD(cs.d1), validD0 |-> ValidD(cs.d0),
                             accept |-> Verdict(cs, base)])>>)
=============================================================================
