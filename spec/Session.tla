------------------------------ MODULE Session ------------------------------
(***************************************************************************)
(* How a session tag (SSID) is derived from the session parameters         *)
(* (internal/round/helper.go:NewSession, pkg/party/idslice.go:WriteTo,      *)
(* pkg/hash/hash.go:WriteAny): the exact byte string that is hashed.       *)
(* Bytes are integers, strings are sequences of character codes.  The hash *)
(* is assumed injective, so "different parameters give different tags" is  *)
(* injectivity of Encode, which TLC checks over ALL parameter tuples built *)
(* from an identifier alphabet chosen so that equal concatenations and     *)
(* shared prefixes occur ({a,bc} vs {ab,c}).  IdLen = FALSE is the         *)
(* encoding before the fix (ids written without their length): TLC must    *)
(* reject it.  Every tuple is printed with its bytes; the real SSID must   *)
(* be blake3 of exactly these bytes.                                       *)
(***************************************************************************)
EXTENDS Integers, Sequences, FiniteSets, TLC, Json

CONSTANTS IdLen,      \* TRUE: every id is preceded by its 8-byte length (the code since the fix)
          MaxParties, \* participant sets have 2..MaxParties members
          Emit

\* character codes
A == 97  B == 98  C == 99
Str(name) == CASE name = "a" -> <<A>> [] name = "b" -> <<B>> [] name = "c" -> <<C>>
               [] name = "ab" -> <<A, B>> [] name = "bc" -> <<B, C>> [] name = "abc" -> <<A, B, C>>
Names == {"a", "b", "c", "ab", "bc", "abc"}

\* domain strings and protocol ids as opaque single "super characters" (their own bytes never vary)
Dom(d) == CASE d = "Session ID" -> <<1001>> [] d = "Protocol ID" -> <<1002>> [] d = "Group Name" -> <<1003>>
            [] d = "IDSlice" -> <<1004>> [] d = "Threshold" -> <<1005>> [] d = "Aux" -> <<1006>>
Protos == {"example/xor", "frost/keygen-threshold", "frost/keygen-threshold-taproot"}
ProtoBytes(p) == CASE p = "example/xor" -> <<2001>> [] p = "frost/keygen-threshold" -> <<2002>>
                   [] p = "frost/keygen-threshold-taproot" -> <<2002, 2003>>       \* one is a prefix of the other
GroupBytes == <<3001>>

Len64(n) == <<0, 0, 0, 0, 0, 0, 0, n>>
U32(n) == <<0, 0, 0, n>>
Frame(dom, data) == <<40>> \o Len64(Len(dom)) \o dom \o Len64(Len(data)) \o data \o <<41>>

\* sorted sequence of a set of names (lexicographic on the character codes, as Go sorts strings)
Less(x, y) == LET sx == Str(x)  sy == Str(y)
                  n == IF Len(sx) < Len(sy) THEN Len(sx) ELSE Len(sy)
                  diff == {k \in 1..n : sx[k] # sy[k]}
              IN IF diff = {} THEN Len(sx) < Len(sy)
                 ELSE LET k == CHOOSE m \in diff : \A j \in diff : m <= j IN sx[k] < sy[k]
RECURSIVE SortedSeq(_)
SortedSeq(S) == IF S = {} THEN <<>>
                ELSE LET m == CHOOSE x \in S : \A y \in S \ {x} : Less(x, y) IN <<m>> \o SortedSeq(S \ {m})

RECURSIVE Concat(_)
Concat(ss) == IF ss = <<>> THEN <<>> ELSE Head(ss) \o Concat(Tail(ss))
IdBytes(name) == IF IdLen THEN Len64(Len(Str(name))) \o Str(name) ELSE Str(name)
IDSliceData(ids) == Len64(Len(ids)) \o Concat([k \in 1..Len(ids) |-> IdBytes(ids[k])])

\* a parameter tuple
Sids == {"nil", "empty", "a", "ab"}
SidBytes(s) == CASE s = "empty" -> <<>> [] s = "a" -> <<A>> [] s = "ab" -> <<A, B>> [] OTHER -> <<>>
PartySets == {S \in SUBSET Names : Cardinality(S) \in 2..MaxParties}
Tuples == [sid : Sids, proto : Protos, group : BOOLEAN, ids : PartySets, thr : 0..2, aux : {"none", "m1", "m2"}]

Encode(t) ==
  <<67, 77, 80>>                                              \* "CMP-BLAKE" (prefix, fixed)
  \o (IF t.sid = "nil" THEN <<>> ELSE Frame(Dom("Session ID"), SidBytes(t.sid)))
  \o Frame(Dom("Protocol ID"), ProtoBytes(t.proto))
  \o (IF t.group THEN Frame(Dom("Group Name"), GroupBytes) ELSE <<>>)
  \o Frame(Dom("IDSlice"), IDSliceData(SortedSeq(t.ids)))
  \o Frame(Dom("Threshold"), U32(t.thr))
  \o (IF t.aux = "none" THEN <<>> ELSE Frame(Dom("Aux"), IF t.aux = "m1" THEN <<A>> ELSE <<B>>))

\* C09: different session parameters always give different session tags
TagInjective == Cardinality({Encode(t) : t \in Tuples}) = Cardinality(Tuples)
\* the classic ambiguity, stated on its own
NoConcatAmbiguity ==
  \A S1, S2 \in PartySets : S1 # S2 => IDSliceData(SortedSeq(S1)) # IDSliceData(SortedSeq(S2))

VARIABLE done
Init == done = FALSE
Next == /\ ~done /\ done' = TRUE
        /\ Emit => \A t \in Tuples : (t.aux = "none") =>
              PrintT(<<"TAG", ToJson([sid |-> t.sid, proto |-> t.proto, group |-> t.group, ids |-> SortedSeq(t.ids), thr |-> t.thr,
                                      idslice |-> IDSliceData(SortedSeq(t.ids))])>>)
Inv == TagInjective /\ NoConcatAmbiguity

\* The "Aux" item of a CMP session that works on existing key material is the configuration: threshold, participants, RID
\* and, per party, the public ECDSA share, the ElGamal key, the Paillier key and the Pedersen parameters
\* (protocols/cmp/config/config.go:WriteTo).  The model treats the item as one opaque byte string (m1 # m2 give different
\* tags: TagInjective); that the real byte string depends on each of these fields is checked on the code: two configurations
\* that differ in exactly one listed field must give different real tags (cmd/ssiddrv, auxSensitivity).
AuxFields == {"rid", "ecdsa", "elgamal", "paillier", "pedersen"}
ASSUME PrintT(<<"AUXF", ToJson(AuxFields)>>)
=============================================================================
