------------------------------ MODULE PresignAlg ------------------------------
(***************************************************************************)
(* The algebra of CMP presigning and its identifiable-abort rounds         *)
(* (protocols/cmp/presign: presign2..presign7, abort1, abort2, sign1,      *)
(* sign2 and pkg/ecdsa/presignature.go), over the field Z_Q for a small    *)
(* prime Q.  A curve point a*G is represented by its exponent a; Paillier  *)
(* ciphertexts and zero-knowledge proofs are not represented: what they    *)
(* ENFORCE is (a value covered by a passing proof cannot be chosen freely  *)
(* by the cheater), what they leave free is what the cheater may alter:    *)
(*   - the delta share it broadcasts in round 4 (free scalar)              *)
(*   - the chi share it commits to in round 4 (ElGamal commitment; the S   *)
(*     share of round 7 is bound to it by the elog proof)                  *)
(*   - the k / chi share inside its stored presignature (online signing)   *)
(* The four deviations of the library's TestRoundFail are instances:       *)
(*   "delta": delta' = delta + off        "gamma": delta' = delta - k_c     *)
(*   "chi"  : chi'   = chi + k_c          "x-chi": chi'   = chi - k_c       *)
(*                                                                         *)
(* Each party i holds additive shares k[i], g[i] (gamma), x[i].  For every *)
(* ordered pair (j,l) party j runs MtA towards l with mask bD[j,l] (delta) *)
(* and bC[j,l] (chi): l decrypts  AD(l,j) = g[j]*k[l] - bD[j,l].           *)
(*                                                                         *)
(* SwapIndex = TRUE models the identification rounds AS CODED: the         *)
(* Nth-root proofs that open the sender's alpha shares are verified        *)
(* against DeltaCiphertext[from][id] / ChiCiphertext[from][id], i.e. the   *)
(* ciphertext the sender PRODUCED for id, instead of [id][from], the one   *)
(* it RECEIVED and opened: the check fails for every sender, honest or     *)
(* not, and the handler names the sender of the first identification       *)
(* broadcast it processes.  SwapIndex = FALSE is the protocol as designed. *)
(***************************************************************************)
EXTENDS Integers, FiniteSets, TLC, Json

CONSTANTS P,          \* signers (strings)
          Q,          \* a small prime: the group order
          Msgs,       \* message digests, subset of 1..Q-1
          BetaVals,   \* values the MtA masks range over
          Offsets,    \* offsets of the "delta" deviation, subset of 1..Q-1
          Kinds,      \* deviations explored: subset of {"delta","gamma","chi","x-chi","sig-k","sig-chi"}
          Online,     \* TRUE: presign, then sign with the stored presignature (sign1/sign2); FALSE: stop at the presignature
          SwapIndex

Zq == 0 .. Q - 1
Mod(a) == a % Q
Inv(a) == CHOOSE b \in 1 .. Q - 1 : (a * b) % Q = 1
Pairs == {pr \in P \X P : pr[1] # pr[2]}
None == "none"

RECURSIVE SumOver(_, _)
SumOver(S, f) == IF S = {} THEN 0 ELSE LET e == CHOOSE e \in S : TRUE IN f[e] + SumOver(S \ {e}, f)
Sum(f) == Mod(SumOver(DOMAIN f, f))

VARIABLES k, g, x,        \* secret additive shares
          bD, bC,         \* MtA masks, indexed by <<sender, receiver>>
          m,              \* digest to sign
          dev,            \* [who, kind, off]: the deviation (who = None: everybody honest)
          phase,          \* "r4" -> "r7" -> ("abort1" | "r8") -> ("abort2" | "presig") -> ("online" -> "sig") | done
          pubDelta,       \* round 4: broadcast delta shares
          comChi,         \* round 4: committed chi shares (S_j = comChi[j] * R is forced by the elog proof)
          out             \* per party: [st, stage, culp]
vars == <<k, g, x, bD, bC, m, dev, phase, pubDelta, comChi, out>>

Honest == P \ {dev.who}

\* ---- honest computation ---------------------------------------------------------------------------------------
AD(l, j) == Mod(g[j] * k[l] - bD[<<j, l>>])          \* what l decrypts from j's delta MtA   (alpha_{l,j})
AC(l, j) == Mod(x[j] * k[l] - bC[<<j, l>>])          \* what l decrypts from j's chi MtA     (alpha^_{l,j})
DeltaOf(i) == Mod(g[i] * k[i] + SumOver(P \ {i}, [j \in P \ {i} |-> AD(i, j) + bD[<<i, j>>]]))
ChiOf(i) == Mod(x[i] * k[i] + SumOver(P \ {i}, [j \in P \ {i} |-> AC(i, j) + bC[<<i, j>>]]))
K == Sum(k)
G == Sum(g)
X == Sum(x)
\* nonce point R = delta^-1 * Gamma = k^-1 * G  (exponent), r = its "x coordinate" (any fixed map Zq* -> Zq*)
Delta == Sum(pubDelta)
Rexp == Mod(Inv(Delta) * G)
XCoord(p) == p
Rx == XCoord(Rexp)

\* what the deviating party publishes instead of the honest value
DeltaSent(i) == IF i # dev.who THEN DeltaOf(i)
                ELSE CASE dev.kind = "delta" -> Mod(DeltaOf(i) + dev.off)
                       [] dev.kind = "gamma" -> Mod(DeltaOf(i) - k[i])
                       [] OTHER -> DeltaOf(i)
ChiSent(i) == IF i # dev.who THEN ChiOf(i)
              ELSE CASE dev.kind = "chi" -> Mod(ChiOf(i) + k[i])
                     [] dev.kind = "x-chi" -> Mod(ChiOf(i) - k[i])
                     [] OTHER -> ChiOf(i)

\* events of negligible probability in the real group that are frequent in Z_Q and would make an honest value
\* look "nil" (the code refuses zero scalars and identity points); they are excluded from the initial states
NonDegenerate ==
  /\ K # 0 /\ G # 0 /\ X # 0
  /\ \A i \in P : k[i] # 0 /\ g[i] # 0 /\ DeltaOf(i) # 0 /\ ChiOf(i) # 0
  /\ Mod(K * G) # 0

Deviations ==
  {[who |-> None, kind |-> None, off |-> 0]} \cup
  {[who |-> c, kind |-> kd, off |-> o] : c \in P, kd \in Kinds \ {"delta"}, o \in {0}} \cup
  {[who |-> c, kind |-> "delta", off |-> o] : c \in P, o \in (IF "delta" \in Kinds THEN Offsets ELSE {})}

Init ==
  /\ k \in [P -> Zq] /\ g \in [P -> Zq] /\ x \in [P -> Zq]
  /\ bD \in [Pairs -> BetaVals] /\ bC \in [Pairs -> BetaVals]
  /\ m \in Msgs
  /\ dev \in Deviations
  /\ NonDegenerate
  /\ phase = "r4"
  /\ pubDelta = [i \in P |-> 0] /\ comChi = [i \in P |-> 0]
  /\ out = [i \in P |-> [st |-> "run", stage |-> None, culp |-> {}]]

Abort(i, stage, culp) == [st |-> "abort", stage |-> stage, culp |-> culp]

\* presign3.Finalize: everybody broadcasts its delta share and commits to its chi share;
\* presign4.StoreBroadcastMessage refuses a zero delta share (ErrNilFields, naming its sender)
Round4 ==
  /\ phase = "r4"
  /\ pubDelta' = [i \in P |-> DeltaSent(i)]
  /\ comChi' = [i \in P |-> ChiSent(i)]
  /\ LET zero == {j \in P : DeltaSent(j) = 0}
     IN IF zero = {} THEN phase' = "r7" /\ UNCHANGED out
        ELSE /\ phase' = "done"
             /\ out' = [i \in P |-> IF i \in zero THEN out[i] ELSE Abort(i, "r4", {CHOOSE j \in zero : TRUE})]
  /\ UNCHANGED <<k, g, x, bD, bC, m, dev>>

\* presign6.Finalize: sum of the Delta_j = k_j * Gamma (bound to K_j and Gamma by the elog proofs) against delta * G
Round7 ==
  /\ phase = "r7"
  /\ phase' = IF Mod(K * G) = Delta THEN "r8" ELSE "abort1"
  /\ UNCHANGED <<k, g, x, bD, bC, m, dev, pubDelta, comChi, out>>

\* abort1.Finalize as written: delta_j recomputed from the opened k, gamma and alpha shares
Recomputed1(j) ==
  Mod(k[j] * g[j] + SumOver(P \ {j}, [l \in P \ {j} |-> AD(j, l) + k[l] * g[j] - AD(l, j)]))
Culprits1(i) == {j \in P \ {i} : Recomputed1(j) # pubDelta[j]}

\* abort2.Finalize as written, in the exponent: M_j = YHat_j + k_j X_j + sum(alpha^_{j,l} G + k_l X_j - alpha^_{l,j} G)
\* compared with the committed chi share (ElGamalChi_j.M = chi_j G + YHat_j)
Recomputed2(j) ==
  Mod(k[j] * x[j] + SumOver(P \ {j}, [l \in P \ {j} |-> AC(j, l) + k[l] * x[j] - AC(l, j)]))
Culprits2(i) == {j \in P \ {i} : Recomputed2(j) # comChi[j]}

\* With the swapped index the first identification broadcast an observer processes fails its proof check and the
\* handler aborts naming that sender (StoreBroadcastMessage error); which one is first is up to the schedule.
ProofsStage(s) == CASE s = "abort1" -> "abort1-proofs" [] s = "abort2" -> "abort2-proofs" [] OTHER -> s
Identify(stage, Culp(_)) ==
  IF SwapIndex
  THEN \E first \in [P -> P] :
         /\ \A i \in P : first[i] # i
         /\ out' = [i \in P |-> Abort(i, ProofsStage(stage), {first[i]})]
  ELSE out' = [i \in P |-> Abort(i, stage, Culp(i))]

Abort1 ==
  /\ phase = "abort1"
  /\ Identify("abort1", Culprits1)
  /\ phase' = "done"
  /\ UNCHANGED <<k, g, x, bD, bC, m, dev, pubDelta, comChi>>

\* presign7.Finalize: sum of S_j = chi_j * R against the public key X
Round8 ==
  /\ phase = "r8"
  /\ IF \E j \in P : comChi[j] = 0          \* presign7.StoreBroadcastMessage refuses an identity S share, naming its sender
     THEN LET zero == {j \in P : comChi[j] = 0}
          IN phase' = "done" /\ out' = [i \in P |-> IF i \in zero THEN out[i] ELSE Abort(i, "r7nil", {CHOOSE j \in zero : TRUE})]
     ELSE IF Mod(Sum(comChi) * Rexp) = X
     THEN IF Online THEN phase' = "online" /\ UNCHANGED out
          ELSE phase' = "done" /\ out' = [i \in P |-> [st |-> "presig", stage |-> None, culp |-> {}]]
     ELSE phase' = "abort2" /\ UNCHANGED out
  /\ UNCHANGED <<k, g, x, bD, bC, m, dev, pubDelta, comChi>>

Abort2 ==
  /\ phase = "abort2"
  /\ Identify("abort2", Culprits2)
  /\ phase' = "done"
  /\ UNCHANGED <<k, g, x, bD, bC, m, dev, pubDelta, comChi>>

\* sign1 / sign2 with the stored presignature (KShare, ChiShare, R, RBar_j = delta^-1 Delta_j, S_j)
KStored(i) == IF i = dev.who /\ dev.kind = "sig-k" THEN Mod(k[i] + 1) ELSE k[i]
ChiStored(i) == IF i = dev.who /\ dev.kind = "sig-chi" THEN Mod(comChi[i] + 1) ELSE comChi[i]
Sigma(i) == Mod(KStored(i) * m + Rx * ChiStored(i))
SigS == Sum([i \in P |-> Sigma(i)])
\* ecdsa verify:  s^-1 (m G + r X) = R
SigValid(s) == s # 0 /\ Rx # 0 /\ Mod(Inv(s) * (m + Rx * X)) = Rexp
RBar(j) == Mod(Inv(Delta) * k[j] * G)
ShareOK(j) == Mod(Sigma(j) * Rexp) = Mod(m * RBar(j) + Rx * comChi[j] * Rexp)

OnlineSign ==
  /\ phase = "online"
  \* an honest zero share, or m + r x = 0 (the honest signature itself is zero): negligible in the real group
  /\ phase' = IF (\E i \in Honest : Sigma(i) = 0) \/ Mod(m + Rx * X) = 0 THEN "void" ELSE "done"
  /\ LET zero == {j \in P : Sigma(j) = 0}
     IN IF zero # {}
        THEN out' = [i \in P |-> IF i \in zero THEN out[i] ELSE Abort(i, "r8sig", {CHOOSE j \in zero : TRUE})]
        ELSE IF SigValid(SigS)
             THEN out' = [i \in P |-> [st |-> "sig", stage |-> None, culp |-> {}]]
             ELSE out' = [i \in P |-> Abort(i, "sigma", {j \in P : ~ShareOK(j)})]
  /\ UNCHANGED <<k, g, x, bD, bC, m, dev, pubDelta, comChi>>

Next == Round4 \/ Round7 \/ Abort1 \/ Round8 \/ Abort2 \/ OnlineSign

Spec == Init /\ [][Next]_vars

----------------------------------------------------------------------------
TypeOK == phase \in {"r4", "r7", "abort1", "r8", "abort2", "online", "done", "void"}
Deviates == dev.who # None
\* completeness: without a deviation nobody aborts, the presignature is produced and the signature verifies
HonestCompletes ==
  (~Deviates /\ phase = "done") => \A i \in P : out[i].st = (IF Online THEN "sig" ELSE "presig")
\* C01 at the design level: a signature that is output verifies
OutputValid == \A i \in P : out[i].st = "sig" => SigValid(SigS)
\* detection: with an inconsistent contribution no honest signer completes
Detected ==
  (Deviates /\ phase = "done" /\ (dev.kind \in {"sig-k", "sig-chi"} => Online)) => \A i \in Honest : out[i].st = "abort"
\* C04: every honest signer that aborts names exactly the deviating party
BlameExact ==
  phase # "void" => \A i \in Honest : out[i].st = "abort" => (Deviates /\ out[i].culp = {dev.who})
\* where the deviation is caught
StageOf(kd) == CASE kd \in {"delta", "gamma"} -> "abort1" [] kd \in {"chi", "x-chi"} -> "abort2" [] OTHER -> "sigma"
StageAsPredicted ==
  \A i \in Honest : (out[i].st = "abort" /\ out[i].stage \notin {"r4", "r7nil", "r8sig"}) =>
        out[i].stage = (IF SwapIndex THEN ProofsStage(StageOf(dev.kind)) ELSE StageOf(dev.kind))
\* the identification formulas are identities on honest values: nobody honest is ever off
FormulasExact ==
  \A j \in P : /\ Recomputed1(j) = DeltaOf(j)
               /\ Recomputed2(j) = ChiOf(j)

\* the deviation catalogue handed to the real protocol (bin/c04.py): kind, position, predicted stage
Catalogue == {[rule |-> d.kind, byz |-> d.who, stage |-> StageOf(d.kind), coded |-> ProofsStage(StageOf(d.kind))] :
                 d \in {e \in Deviations : e.who # None}}
ASSUME PrintT(<<"CAT", ToJson(Catalogue)>>)
=============================================================================
