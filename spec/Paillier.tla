------------------------------ MODULE Paillier ------------------------------
(***************************************************************************)
(* C12 - Paillier encryption is exact on its full domain.                  *)
(*                                                                         *)
(* EXACT textbook Paillier over N = P*Q for tiny primes (constants P, Q    *)
(* with gcd(N, phi(N)) = 1), written over the integers only: no CRT, no    *)
(* signed exponents, no library shortcuts.                                 *)
(*                                                                         *)
(* What TLC decides (on the tiny instance, exhaustively):                  *)
(*  - Dec(Enc(m, r)) = m for EVERY m in [-(N-1)/2, (N-1)/2] (endpoints     *)
(*    included) and EVERY unit r of Z_N                  (LawEncDec)       *)
(*  - the recovered randomness is r and re-encrypts to the same ciphertext *)
(*                                                       (LawEncDec)       *)
(*  - Enc is a bijection  Range x Units(N) -> Units(N^2); Validate accepts *)
(*    exactly the units below N^2                        (ASSUME, LawVal)  *)
(*  - Add / scalar Mul decrypt to the integer sum / product whenever it is *)
(*    in range, and to its symmetric residue otherwise   (LawAdd, LawMul)  *)
(*  - the closed form (1+N)^m = 1 + m*N (mod N^2)        (ASSUME)          *)
(*  - the symbolic boundary lattice (operands "half", "-half", "half+1",   *)
(*    2^(bits-2), half div d, candidates N^2-1, N^2, p, q*N ...) and the   *)
(*    class the specification assigns to every case      (kind "lat")      *)
(* and it PRINTS every table (Emit), one JSON row per state.               *)
(*                                                                         *)
(* What only the conformance run decides: that the Go package              *)
(* (EncWithNonce, Enc, Dec, DecWithRandomness, Add, Mul, Validate-         *)
(* Ciphertexts, with CRT-accelerated and plain moduli) computes these very *)
(* tables on the tiny keys, and on real 2048-bit keys falls into the class *)
(* the lattice predicts, with the value supplied by an independent         *)
(* math/big implementation in the driver. Classes of lattice cases are     *)
(* N-independent by construction; the check verifies that all tiny         *)
(* instances print the same classes before using them at real size.        *)
(*                                                                         *)
(* Negative control: Variant = "nosym" makes Dec return the residue in     *)
(* 0..N-1 (sign handling dropped); "halfopen" shifts the accepted range by *)
(* one. TLC must reject both (LawEncDec / LawRange).                       *)
(***************************************************************************)
EXTENDS Integers, Sequences, FiniteSets, TLC, Json

CONSTANTS P, Q,          \* tiny primes, gcd(P*Q, (P-1)*(Q-1)) = 1
          Variant,       \* "textbook" | "nosym" | "halfopen"
          Tables         \* subset of {"enc","add","mul","val","lat"} to enumerate

VARIABLE row

----------------------------------------------------------------------------
(* integer helpers *)

RECURSIVE Gcd(_, _)
Gcd(a, b) == IF b = 0 THEN a ELSE Gcd(b, a % b)

RECURSIVE ModExp(_, _, _)
ModExp(b, e, n) ==
    IF e = 0 THEN 1 % n
    ELSE LET h == ModExp(b, e \div 2, n)
             s == (h * h) % n
         IN  IF e % 2 = 1 THEN (s * (b % n)) % n ELSE s

RECURSIVE Pow2(_)
Pow2(k) == IF k = 0 THEN 1 ELSE 2 * Pow2(k - 1)

RECURSIVE BitLen(_)
BitLen(x) == IF x = 0 THEN 0 ELSE 1 + BitLen(x \div 2)

\* extended Euclid: <<g, x>> with a*x = g (mod n)
RECURSIVE EG(_, _, _, _)
EG(r0, r1, s0, s1) == IF r1 = 0 THEN <<r0, s0>> ELSE EG(r1, r0 % r1, s1, s0 - (r0 \div r1) * s1)
InvMod(a, n) == EG(a % n, n, 1, 0)[2] % n

Units(n) == {x \in 1..(n - 1) : Gcd(x, n) = 1}

----------------------------------------------------------------------------
(* key-parametrised textbook Paillier (used by MtA.tla for the second key) *)

HalfOf(n) == (n - 1) \div 2
SymOf(n, x) == LET y == x % n IN IF y > HalfOf(n) THEN y - n ELSE y
EncOf(n, m, r) == (ModExp(1 + n, m % n, n * n) * ModExp(r, n, n * n)) % (n * n)
DecOf(p, q, c) ==
    LET n == p * q
        phi == (p - 1) * (q - 1)
        u == ModExp(c, phi, n * n)
    IN  SymOf(n, ((u - 1) \div n) * InvMod(phi, n))
ValidOf(n, c) == c >= 1 /\ c < n * n /\ Gcd(c, n * n) = 1

----------------------------------------------------------------------------
(* the fixed key *)

N == P * Q
N2 == N * N
Phi == (P - 1) * (Q - 1)
Half == (N - 1) \div 2
Bits == BitLen(N)
Range == (-Half)..Half
UnitsN == Units(N)
PhiInv == InvMod(Phi, N)
NInvPhi == InvMod(N, Phi)

ASSUME KeyOK == /\ P > 2 /\ Q > 2 /\ P # Q
                /\ Gcd(N, Phi) = 1
                /\ (PhiInv * Phi) % N = 1
                /\ (NInvPhi * N) % Phi = 1

\* accepted plaintext range (negative control "halfopen" shifts it by one)
InRange(m) == IF Variant = "halfopen" THEN m >= -Half + 1 /\ m <= Half + 1
              ELSE m >= -Half /\ m <= Half

Sym(x) == SymOf(N, x)

Enc(m, r) == (ModExp(1 + N, m % N, N2) * ModExp(r, N, N2)) % N2

Valid(c) == c >= 1 /\ c < N2 /\ Gcd(c, N2) = 1

DecRaw(c) == (((ModExp(c, Phi, N2) - 1) \div N) * PhiInv) % N
Dec(c) == IF Variant = "nosym" THEN DecRaw(c) ELSE Sym(DecRaw(c))

\* randomness: c = (1+N)^m r^N, so c = r^N (mod N) and r = (c mod N)^(N^-1 mod phi)
Rand(c) == ModExp(c % N, NInvPhi, N)

Inv2(c) == ModExp(c, N * Phi - 1, N2)            \* inverse modulo N^2 (group order N*phi)
Add(c1, c2) == (c1 * c2) % N2
Mul(c, k) == IF k >= 0 THEN ModExp(c, k, N2) ELSE ModExp(Inv2(c), -k, N2)

\* closed form of (1+N)^m and bijectivity of Enc onto the units of Z_{N^2}
ASSUME ClosedForm == \A m \in 0..(N - 1) : ModExp(1 + N, m, N2) = (1 + m * N) % N2
EncImage == {Enc(m, r) : m \in Range, r \in UnitsN}
ASSUME Bijection ==
    /\ Cardinality(EncImage) = N * Phi
    /\ EncImage = {c \in 0..(N2 + N) : Valid(c)}

----------------------------------------------------------------------------
(* tables: every state is one row *)

\* nonces used where the full unit group would make the table quadratic
RSmall == {r \in {1, 2, N - 1, N - 2} : Gcd(r, N) = 1}
RPairs == {<<1, 1>>, <<2, N - 1>>, <<N - 1, N - 2>>, <<N - 2, 2>>} \cap (UnitsN \X UnitsN)
KMax == N + 2
OutM == ((-Half - 3)..(-Half - 1)) \cup ((Half + 1)..(Half + 3)) \cup {N, -N, N2, -N2}

----------------------------------------------------------------------------
(* symbolic boundary lattice (used on real 2048-bit keys) *)

\* plaintext / scalar terms: <<"lin", a, b>> = a*half + b ; <<"pow", s, j>> = s*2^(bits-j) ;
\* <<"div", d, b>> = half div d + b (d > 0) ; <<"ndiv", d, b>> = -(half div d + b)
TermVal(t) ==
    CASE t[1] = "lin" -> t[2] * Half + t[3]
      [] t[1] = "pow" -> t[2] * Pow2(Bits - t[3])
      [] t[1] = "div" -> (Half \div t[2]) + t[3]
      [] t[1] = "ndiv" -> -((Half \div t[2]) + t[3])

LinTerms == {<<"lin", a, b>> : a \in {-1, 0, 1}, b \in -2..2}
PowTerms == {<<"pow", s, j>> : s \in {-1, 1}, j \in 1..3}
DivTerms == {<<k, d, b>> : k \in {"div", "ndiv"}, d \in {2, 3}, b \in {0, 1}}
MTerms == LinTerms \cup PowTerms \cup DivTerms
\* scalars for Mul may be any integer: add multiples of N and of half
KTerms == MTerms \cup {<<"lin", a, b>> : a \in {-2, 2}, b \in -1..3}

MIn == {t \in MTerms : InRange(TermVal(t))}

\* ciphertext candidates
CandNames == {"0", "1", "2", "N-1", "N", "N+1", "P", "Q", "2P", "2Q", "P^2", "Q^2", "P*N", "Q*N",
              "N^2-N", "N^2-P", "N^2-Q", "N^2-2", "N^2-1", "N^2", "N^2+1", "N^2+2", "N^2+P", "N^2+N",
              "2N^2-1", "2N^2+1"}
CandVal(s) ==
    CASE s = "0" -> 0 [] s = "1" -> 1 [] s = "2" -> 2 [] s = "N-1" -> N - 1 [] s = "N" -> N
      [] s = "N+1" -> N + 1 [] s = "P" -> P [] s = "Q" -> Q [] s = "2P" -> 2 * P [] s = "2Q" -> 2 * Q
      [] s = "P^2" -> P * P [] s = "Q^2" -> Q * Q [] s = "P*N" -> P * N [] s = "Q*N" -> Q * N
      [] s = "N^2-N" -> N2 - N [] s = "N^2-P" -> N2 - P [] s = "N^2-Q" -> N2 - Q [] s = "N^2-2" -> N2 - 2
      [] s = "N^2-1" -> N2 - 1 [] s = "N^2" -> N2 [] s = "N^2+1" -> N2 + 1 [] s = "N^2+2" -> N2 + 2
      [] s = "N^2+P" -> N2 + P [] s = "N^2+N" -> N2 + N [] s = "2N^2-1" -> 2 * N2 - 1
      [] s = "2N^2+1" -> 2 * N2 + 1
\* Validity stated without reduction so that it is meaningful for candidates >= N^2 too
CandValid(s) == LET c == CandVal(s) IN c >= 1 /\ c < N2 /\ Gcd(c, N) = 1

LatEnc == {<<"enc", t, t>> : t \in MTerms}
LatAdd == {<<"add", t1, t2>> : t1 \in MIn, t2 \in MIn}
LatMul == {<<"mul", t, k>> : t \in MIn, k \in KTerms}
LatVal == {<<"val", <<"cand", s, 0>>, <<"cand", s, 0>>>> : s \in CandNames}

LatClass(c) ==
    CASE c[1] = "enc" -> IF InRange(TermVal(c[2])) THEN "ok" ELSE "refused"
      [] c[1] = "add" -> IF InRange(TermVal(c[2]) + TermVal(c[3])) THEN "exact" ELSE "wraps"
      [] c[1] = "mul" -> IF InRange(TermVal(c[2]) * TermVal(c[3])) THEN "exact" ELSE "wraps"
      [] c[1] = "val" -> IF CandValid(c[2][2]) THEN "accept" ELSE "reject"

\* the expected plaintext on the tiny instance (the driver's math/big oracle supplies it at real size)
LatExpect(c) ==
    CASE c[1] = "enc" -> IF InRange(TermVal(c[2])) THEN TermVal(c[2]) ELSE 0
      [] c[1] = "add" -> Sym(TermVal(c[2]) + TermVal(c[3]))
      [] c[1] = "mul" -> Sym(TermVal(c[2]) * TermVal(c[3]))
      [] c[1] = "val" -> CandVal(c[2][2])

----------------------------------------------------------------------------
(* rows *)

Row(k, a, b) == [kind |-> k, a |-> a, b |-> b]

EncRows == {Row("enc", m, r) : m \in Range, r \in UnitsN}
RefRows == {Row("ref", m, r) : m \in OutM, r \in RSmall}
AddRows == {Row("add", m1, i) : m1 \in Range, i \in 1..4}
MulRows == {Row("mul", m, r) : m \in Range, r \in RSmall}
ValRows == {Row("val", i, 0) : i \in 0..(N + 1)}        \* block i covers i*N .. i*N + N - 1  (0 .. N^2 + 2N - 1)
LatRows == {Row("lat", 0, 0)}

RowSet ==
    (IF "enc" \in Tables THEN EncRows \cup RefRows ELSE {}) \cup
    (IF "add" \in Tables THEN AddRows ELSE {}) \cup
    (IF "mul" \in Tables THEN MulRows ELSE {}) \cup
    (IF "val" \in Tables THEN ValRows ELSE {}) \cup
    (IF "lat" \in Tables THEN LatRows ELSE {})

Init == row \in RowSet
Next == UNCHANGED row

RPairSeq == <<<<1, 1>>, <<2, N - 1>>, <<N - 1, N - 2>>, <<N - 2, 2>>>>
RP(i) == LET p == RPairSeq[i] IN IF p \in UnitsN \X UnitsN THEN p ELSE <<1, 1>>

SeqOver(lo, hi, F(_)) == [i \in 1..(hi - lo + 1) |-> F(lo + i - 1)]

----------------------------------------------------------------------------
(* laws, evaluated on every row *)

LawEncDec ==
    row.kind = "enc" =>
        LET c == Enc(row.a, row.b)
        IN  /\ InRange(row.a)
            /\ Valid(c)
            /\ Dec(c) = row.a
            /\ Rand(c) = row.b
            /\ Enc(Dec(c), Rand(c)) = c

LawRange ==
    /\ row.kind = "ref" => ~InRange(row.a)
    /\ row.kind = "enc" => InRange(row.a)
    /\ ~InRange(Half + 1) /\ ~InRange(-Half - 1) /\ InRange(Half) /\ InRange(-Half)

LawAdd ==
    row.kind = "add" =>
        LET rp == RP(row.b)
            c1 == Enc(row.a, rp[1])
        IN  \A m2 \in Range :
              LET c == Add(c1, Enc(m2, rp[2]))
              IN  /\ Valid(c)
                  /\ Dec(c) = Sym(row.a + m2)
                  /\ (InRange(row.a + m2) => Dec(c) = row.a + m2)
                  /\ (~InRange(row.a + m2) => Dec(c) # row.a + m2)
                  /\ Rand(c) = (rp[1] * rp[2]) % N

LawMul ==
    row.kind = "mul" =>
        LET c1 == Enc(row.a, row.b)
        IN  \A k \in (-KMax)..KMax :
              LET c == Mul(c1, k)
              IN  /\ Valid(c)
                  /\ Dec(c) = Sym(k * row.a)
                  /\ (InRange(k * row.a) => Dec(c) = k * row.a)
                  /\ (k < 0 => Add(c, Mul(c1, -k)) = 1)

LawVal ==
    row.kind = "val" =>
        \A c \in (row.a * N)..(row.a * N + N - 1) :
            /\ Valid(c) <=> (c < N2 /\ c % P # 0 /\ c % Q # 0)
            /\ Valid(c) => Enc(Dec(c), Rand(c)) = c
            /\ c >= N2 => ~Valid(c)

LawLat ==
    row.kind = "lat" =>
        /\ \A c \in LatAdd \cup LatMul :
              LET cc == IF c[1] = "add" THEN Add(Enc(TermVal(c[2]), 2), Enc(TermVal(c[3]), N - 1))
                        ELSE Mul(Enc(TermVal(c[2]), 2), TermVal(c[3]))
              IN  /\ Dec(cc) = LatExpect(c)
                  /\ (LatClass(c) = "exact") <=>
                       (Dec(cc) = (IF c[1] = "add" THEN TermVal(c[2]) + TermVal(c[3]) ELSE TermVal(c[2]) * TermVal(c[3])))
        /\ \A c \in LatVal : (LatClass(c) = "accept") <=> (CandVal(c[2][2]) \in EncImage)
        \* the lattice hits both sides of every boundary
        /\ \E c \in LatEnc : LatClass(c) = "refused" /\ TermVal(c[2]) = Half + 1
        /\ \E c \in LatEnc : LatClass(c) = "refused" /\ TermVal(c[2]) = -Half - 1
        /\ \E c \in LatEnc : LatClass(c) = "ok" /\ TermVal(c[2]) = Half
        /\ \E c \in LatEnc : LatClass(c) = "ok" /\ TermVal(c[2]) = -Half
        /\ \E c \in LatAdd : LatClass(c) = "wraps" /\ TermVal(c[2]) + TermVal(c[3]) = Half + 1
        /\ \E c \in LatAdd : LatClass(c) = "exact" /\ TermVal(c[2]) + TermVal(c[3]) = -Half

----------------------------------------------------------------------------
(* printing: one JSON line per row *)

EncOut(m, r) == LET c == Enc(m, r) IN [kind |-> "enc", m |-> m, r |-> r, c |-> c, dec |-> Dec(c), rand |-> Rand(c)]
RefOut(m, r) == [kind |-> "ref", m |-> m, r |-> r, class |-> IF InRange(m) THEN "ok" ELSE "refused"]
AddOut(m1, i) ==
    LET rp == RP(i)
        c1 == Enc(m1, rp[1])
        C(m2) == Add(c1, Enc(m2, rp[2]))
        D(m2) == Dec(C(m2))
        E(m2) == IF InRange(m1 + m2) THEN 1 ELSE 0
    IN  [kind |-> "add", m1 |-> m1, r1 |-> rp[1], r2 |-> rp[2], lo |-> -Half,
         cs |-> SeqOver(-Half, Half, C), ds |-> SeqOver(-Half, Half, D), exact |-> SeqOver(-Half, Half, E)]
MulOut(m, r) ==
    LET c1 == Enc(m, r)
        C(k) == Mul(c1, k)
        D(k) == Dec(C(k))
        E(k) == IF InRange(k * m) THEN 1 ELSE 0
    IN  [kind |-> "mul", m |-> m, r |-> r, lo |-> -KMax,
         cs |-> SeqOver(-KMax, KMax, C), ds |-> SeqOver(-KMax, KMax, D), exact |-> SeqOver(-KMax, KMax, E)]
ValOut(i) ==
    LET V(c) == IF Valid(c) THEN 1 ELSE 0
        D(c) == IF Valid(c) THEN Dec(c) ELSE 0
        R(c) == IF Valid(c) THEN Rand(c) ELSE 0
    IN  [kind |-> "val", lo |-> i * N, valid |-> SeqOver(i * N, i * N + N - 1, V),
         ds |-> SeqOver(i * N, i * N + N - 1, D), rs |-> SeqOver(i * N, i * N + N - 1, R)]

TermJ(t) == [t |-> t[1], a |-> IF t[1] = "cand" THEN 0 ELSE t[2], b |-> IF t[1] = "cand" THEN 0 ELSE t[3],
             name |-> IF t[1] = "cand" THEN t[2] ELSE "", tiny |-> IF t[1] = "cand" THEN CandVal(t[2]) ELSE TermVal(t)]
LatOut(c) == [kind |-> "lat", op |-> c[1], x |-> TermJ(c[2]), y |-> TermJ(c[3]), class |-> LatClass(c), expect |-> LatExpect(c)]

Emit ==
    /\ row.kind = "enc" => PrintT(<<"ROW", ToJson(EncOut(row.a, row.b))>>)
    /\ row.kind = "ref" => PrintT(<<"ROW", ToJson(RefOut(row.a, row.b))>>)
    /\ row.kind = "add" => PrintT(<<"ROW", ToJson(AddOut(row.a, row.b))>>)
    /\ row.kind = "mul" => PrintT(<<"ROW", ToJson(MulOut(row.a, row.b))>>)
    /\ row.kind = "val" => PrintT(<<"ROW", ToJson(ValOut(row.a))>>)
    /\ row.kind = "lat" =>
          /\ \A c \in LatEnc : PrintT(<<"LAT", ToJson(LatOut(c))>>)
          /\ \A c \in LatAdd : PrintT(<<"LAT", ToJson(LatOut(c))>>)
          /\ \A c \in LatMul : PrintT(<<"LAT", ToJson(LatOut(c))>>)
          /\ \A c \in LatVal : PrintT(<<"LAT", ToJson(LatOut(c))>>)
=============================================================================
