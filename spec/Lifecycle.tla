----------------------------- MODULE Lifecycle -----------------------------
(***************************************************************************)
(* Lockset layer of the handler API (C17): which public methods may run    *)
(* concurrently without a data race.  The table below (LifecycleData) is   *)
(* EXTRACTED from the source of the working tree: for every public method   *)
(* of MultiHandler / TwoPartyHandler whether its body takes the handler    *)
(* mutex and which handler fields it (and the unexported methods it calls) *)
(* reads and writes.  Two threads each run one method: lock (if the method *)
(* locks), access, unlock.  TLC explores every interleaving and reports a  *)
(* state in which both threads are inside their access section on a common *)
(* field, at least one writing, without mutual exclusion.  The pairs the   *)
(* model calls race free are then run against a live session under Go's    *)
(* race detector; the pairs it calls racy are predictions to be confirmed  *)
(* there (a model verdict alone is never a violation).                     *)
(***************************************************************************)
EXTENDS Integers, FiniteSets, TLC, Json, LifecycleData
\* LifecycleData defines: Handler (name), Methods (set), Locked (function), Reads, Writes (functions to sets of fields)

VARIABLES pc, m, lock
vars == <<pc, m, lock>>
Threads == {1, 2}

Init == /\ m \in [Threads -> Methods]
        /\ pc = [t \in Threads |-> "start"]
        /\ lock = 0

Acquire(t) == /\ pc[t] = "start" /\ Locked[m[t]] /\ lock = 0
              /\ lock' = t /\ pc' = [pc EXCEPT ![t] = "access"] /\ UNCHANGED m
Enter(t)   == /\ pc[t] = "start" /\ ~Locked[m[t]]
              /\ pc' = [pc EXCEPT ![t] = "access"] /\ UNCHANGED <<m, lock>>
Leave(t)   == /\ pc[t] = "access"
              /\ lock' = IF lock = t THEN 0 ELSE lock
              /\ pc' = [pc EXCEPT ![t] = "done"] /\ UNCHANGED m
Next == \E t \in Threads : Acquire(t) \/ Enter(t) \/ Leave(t)

Conflict(a, b) == (Writes[a] \cap (Reads[b] \cup Writes[b])) \cup (Writes[b] \cap (Reads[a] \cup Writes[a]))
Racing == pc[1] = "access" /\ pc[2] = "access" /\ Conflict(m[1], m[2]) # {}
NoRace == ~Racing

\* the pairs the model predicts to be racy / race free (printed once, from the initial states)
RacyPairs == {<<a, b>> \in Methods \X Methods : Conflict(a, b) # {} /\ ~(Locked[a] /\ Locked[b])}
Emit == (pc[1] = "start" /\ pc[2] = "start") =>
           PrintT(<<"PAIR", ToJson([handler |-> Handler, a |-> m[1], b |-> m[2], racy |-> (<<m[1], m[2]>> \in RacyPairs),
                                    fields |-> Conflict(m[1], m[2])])>>)
\* consistency of the two formulations: a racing state is reachable exactly for the racy pairs
Agreement == Racing => <<m[1], m[2]>> \in RacyPairs
=============================================================================
