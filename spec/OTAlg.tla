------------------------------- MODULE OTAlg -------------------------------
(***************************************************************************)
(* C13 - the defining RELATIONS of the oblivious-transfer stack of          *)
(* /repo/internal/ot as exact small-parameter algebra.                      *)
(*                                                                          *)
(* Every operator below is a transcription of the INDEXING and of the       *)
(* FORMULAS of the Go code, parameterised by the sizes that are constants   *)
(* in the code:                                                             *)
(*    W       bits per byte                (8 in the code)                  *)
(*    KAPPA   params.OTParam               (128)                            *)
(*    BATCH   batch size of a transfer     (any multiple of 8)              *)
(*    Q       order of the scalar field    (secp256k1 order)                *)
(*    NPOWB   bytes of a marshalled scalar (32), NNOISE noise elements of   *)
(*            the gadget (416)                                              *)
(*                                                                          *)
(*  bits.go        bitAt            -> BitAt                                *)
(*  correlated.go  transposeBits    -> Transpose                            *)
(*                 CorreOTReceive   -> CotU, Transpose(T0)                  *)
(*                 CorreOTSend      -> CotQ                                 *)
(*  extended.go    accumulate/shl1  -> Accumulate/Shl1 (word by word)       *)
(*                 ExtendedOTSend/Receive -> MonoLaw (X, T, qq, V0/V1/VC)   *)
(*  multiply.go    makeGadget       -> GadgetPowIter, GadgetExp             *)
(*                 encode           -> Encode                               *)
(*  additive.go + multiply.go Round1/Round2 -> mode "share"                 *)
(*                                                                          *)
(* WHAT TLC DECIDES (exhaustively, inside the stated small bounds; one run  *)
(* per MODE):                                                               *)
(*  "transpose"  transposeBits is an involution and moves bit (i of column  *)
(*               j) to bit (j of row i), for ALL bit matrices at            *)
(*               KAPPA x BATCH = 4 x 2 (quick) and 4 x 4 (thorough), W = 2, *)
(*               i.e. two bytes per vector, and for all matrices with <= 2  *)
(*               ones (and their complements) at 4 x 4 and 8 x 8 (W = 4).   *)
(*  "cot"        q_j = t_j XOR c_j*Delta for every batch index j, for ALL   *)
(*               Delta, ALL choice vectors, T0/T1 over basis matrices.      *)
(*  "clmul"      the word-by-word shift-and-xor loop of accumulate equals   *)
(*               the carry-less product of the two vectors read as          *)
(*               polynomials with bit i (in bitAt order) = x^i, for ALL     *)
(*               pairs of KAPPA-bit vectors.                                *)
(*  "mono"       the consistency check of the extended OT accepts every     *)
(*               honest transcript, V_choice[j] = V_{c_j}[j], and changing  *)
(*               X or T by any non-zero amount makes it fail when Delta /= 0*)
(*               (the product is NOT reduced, so it has no zero divisors).  *)
(*  "gadget"     sum_i gadget_i * bitAt(i, encode(beta)) = beta (mod Q) for *)
(*               ALL beta, ALL noise vectors, ALL gamma; the doubling loop  *)
(*               of makeGadget equals the closed-form exponent map.         *)
(*  "share"      with the formulas of additive.go / multiply.go over Z_Q:    *)
(*               recv_i + pad_i = c_i*alpha (both components), the          *)
(*               receiver's integrity check accepts, shareA + shareB =      *)
(*               alpha*beta, for ALL alpha, beta in Z_Q (alpha^ over Z_Q in  *)
(*               the thorough tier, {0, 1, Q-1} in quick), ALL gamma,        *)
(*               several pad/noise/chi families; an altered combined pad is *)
(*               masked when c_i = 0 and, when c_i = 1, is accepted only on *)
(*               the 1/Q fraction of challenges with delta.chi = 0.         *)
(*  "tables"     evaluates BitPos and GadgetExp at the REAL sizes (W = 8,   *)
(*               KAPPA = 128, NPOWB = 32), checks they are bijections, and  *)
(*               prints them; the Go oracle does all its bit addressing and *)
(*               its gadget decoding through these printed tables, so the   *)
(*               bit order the replay enforces on the real code is the one  *)
(*               this module is checked with.                               *)
(*                                                                          *)
(* WHAT TLC DOES NOT DECIDE.  This is small-parameter DESIGN checking: it   *)
(* shows that the indexing scheme and the formulas, as transcribed, satisfy *)
(* the relations; it does not show that the Go code computes them.  That,   *)
(* and everything depending on hash functions, curve arithmetic and the     *)
(* real modulus, is decided only by the real-size replay of cmd/otdrv       *)
(* (relations re-computed with math/big and independent bit manipulation).  *)
(* Variant /= "code" selects deliberately wrong transcriptions (negative    *)
(* controls) that TLC must reject.                                          *)
(***************************************************************************)
EXTENDS Integers, Sequences, FiniteSets, Functions, Bitwise, Json, TLC

CONSTANTS W, KAPPA, BATCH, Q, NPOWB, NNOISE, MODE, Variant, Full

VARIABLE c

----------------------------------------------------------------------------
(* bits.go *)
Bit(x, k)      == (x \div 2^k) % 2
BitPos(i)      == <<i \div W, i % W>>                 \* (byte, bit inside the byte, LSB = 0)
BitAt(i, data) == IF Variant = "msb-bitat"
                  THEN Bit(data[i \div W], (W - 1) - (i % W))
                  ELSE Bit(data[BitPos(i)[1]], BitPos(i)[2])
ByteVec(nbits) == [0..(nbits \div W) - 1 -> 0..(2^W - 1)]
XorVec(a, b)   == [k \in DOMAIN a |-> a[k] ^^ b[k]]
ZeroVec(nbits) == [k \in 0..(nbits \div W) - 1 |-> 0]
XorAll(f)      == FoldFunction(LAMBDA x, y : x ^^ y, 0, f)
PolyOf(v, n)   == SumFunction([i \in 0..n-1 |-> BitAt(i, v) * 2^i])   \* bit i of the vector = coefficient of x^i

----------------------------------------------------------------------------
(* correlated.go: transposeBits(l, M): M has kap columns of l bits; result has l rows of kap bits
     MT[i][j>>3] |= bitAt(i, M[j]) << (j & 7)                                                     *)
Transpose(l, kap, M) ==
  [i \in 0..l-1 |->
     [b \in 0..(kap \div W) - 1 |->
        SumFunction([k \in 0..W-1 |->
           BitAt(i, M[b*W + k]) * (IF Variant = "msb-write" THEN 2^((W-1) - k) ELSE 2^k)])]]

\* TLC evaluates [x \in S |-> e] lazily and re-evaluates e at every application; v @@ <<>> yields the same function,
\* tabulated once.  EagerV / EagerM are identities on values (only evaluation cost changes).
EagerV(v) == v @@ <<>>
EagerM(M) == [i \in DOMAIN M |-> EagerV(M[i])] @@ <<>>

Pos(kap, l) == (0..kap-1) \X (0..l-1)
MatOf(kap, l, S) == [i \in 0..kap-1 |-> [b \in 0..(l \div W) - 1 |->
                       SumFunction([k \in 0..W-1 |-> IF <<i, b*W + k>> \in S THEN 2^k ELSE 0])]]
\* choosing subsets of size <= n without building the power set
Small1(kap, l) == {{}} \cup {{p} : p \in Pos(kap, l)}
Small2(kap, l) == Small1(kap, l) \cup {{p, r} : p \in Pos(kap, l), r \in Pos(kap, l)}
Mats1(kap, l)  == {MatOf(kap, l, S) : S \in Small1(kap, l)} \cup {MatOf(kap, l, Pos(kap, l))}
Mats2(kap, l)  == {MatOf(kap, l, S) : S \in Small2(kap, l)}
                  \cup {MatOf(kap, l, Pos(kap, l) \ S) : S \in Small2(kap, l)}
AllMats(kap, l) == [0..kap-1 -> ByteVec(l)]

TransposeLaw(M) ==
  LET MT == EagerM(Transpose(BATCH, KAPPA, M))
  IN /\ \A i \in 0..BATCH-1, j \in 0..KAPPA-1 : Bit(MT[i][BitPos(j)[1]], BitPos(j)[2]) = Bit(M[j][BitPos(i)[1]], BitPos(i)[2])
     /\ Transpose(KAPPA, BATCH, MT) = M

(* CorreOTReceive / CorreOTSend on PRG outputs t0, t1 (one l-bit column per i < KAPPA) *)
CotU(t0, t1, ch) == [i \in 0..KAPPA-1 |-> XorVec(XorVec(t0[i], t1[i]), ch)]
CotQ(delta, t0, t1, u) ==
  [i \in 0..KAPPA-1 |->
     LET kd   == IF BitAt(i, delta) = 1 THEN t1[i] ELSE t0[i]          \* K_Delta[i], the pad the sender chose
         mask == IF BitAt(i, delta) = 1 THEN 2^W - 1 ELSE 0            \* -bitAt(i, Delta)
     IN [j \in DOMAIN kd |-> kd[j] ^^ (mask & u[i][j])]]
ScaleVec(bit, v) == [k \in DOMAIN v |-> IF bit = 1 THEN v[k] ELSE 0]

CotLaw(delta, ch, t0, t1) ==
  LET u  == EagerM(CotU(t0, t1, ch))
      qr == EagerM(Transpose(BATCH, KAPPA, EagerM(CotQ(delta, t0, t1, u))))
      tr == EagerM(Transpose(BATCH, KAPPA, t0))
  IN \A j \in 0..BATCH-1 : qr[j] = XorVec(tr[j], ScaleVec(BitAt(j, ch), delta))

----------------------------------------------------------------------------
(* extended.go: accumulate with NW words of WB bits (2 words of 64 bits in the code) *)
NW == 2
WB == KAPPA \div NW
LoadWord(v, wi) == SumFunction([k \in 0..(WB \div W) - 1 |-> v[wi * (WB \div W) + k] * 2^(W*k)])   \* binary.LittleEndian
Shl1(s) == [i \in 0..2*NW-1 |-> IF i = 0 THEN (s[0] * 2) % 2^WB
                                 ELSE ((s[i] * 2) % 2^WB) + (s[i-1] \div 2^(WB-1))]
AccStep(s, i, a, b) ==
  [m \in 0..2*NW-1 |-> s[m] ^^ XorAll([j \in 0..NW-1 |->
                                  IF (m - j) \in 0..NW-1 THEN Bit(a[j], i) * b[m-j] ELSE 0])]
RECURSIVE AccLoop(_, _, _, _)
AccLoop(s, i, a, b) == LET s1 == EagerV(AccStep(s, i, a, b))
                       IN IF i = 0 THEN s1 ELSE AccLoop(EagerV(Shl1(s1)), i - 1, a, b)
Accumulate(va, vb) ==
  LET a == EagerV([j \in 0..NW-1 |-> LoadWord(va, j)])
      b == EagerV([j \in 0..NW-1 |-> LoadWord(vb, j)])
      s == AccLoop(EagerV([m \in 0..2*NW-1 |-> 0]), WB - 1, a, b)
  IN SumFunction([m \in 0..2*NW-1 |-> s[m] * 2^(WB*m)])
Clmul(x, y, n) == XorAll([i \in 0..n-1 |-> Bit(x, i) * y * 2^i])      \* textbook product in GF(2)[x]

ClmulLaw(va, vb) == Accumulate(va, vb) = Clmul(PolyOf(va, KAPPA), PolyOf(vb, KAPPA), KAPPA)

(* ExtendedOTSend / ExtendedOTReceive *)
ChiFam(s) == [j \in 0..BATCH-1 |-> [k \in 0..(KAPPA \div W) - 1 |-> (s * (j + 1) * 7 + 3 * k + j) % 2^W]]
MonoLaw(delta, ch, t0, s) ==
  LET chi == EagerM(ChiFam(s))
      u   == EagerM(CotU(t0, t0, ch))                                 \* T1 cancels (CotLaw); take T1 = T0
      qr  == EagerM(Transpose(BATCH, KAPPA, EagerM(CotQ(delta, t0, t0, u))))
      tr  == EagerM(Transpose(BATCH, KAPPA, t0))
      X   == EagerV([k \in 0..(KAPPA \div W) - 1 |-> XorAll([j \in 0..BATCH-1 |-> IF BitAt(j, ch) = 1 THEN chi[j][k] ELSE 0])])
      T   == XorAll([j \in 0..BATCH-1 |-> Accumulate(tr[j], chi[j])])
      qq  == XorAll([j \in 0..BATCH-1 |-> Accumulate(qr[j], chi[j])]) ^^ Accumulate(X, delta)
      V0  == [j \in 0..BATCH-1 |-> <<j, qr[j]>>]                \* H(ctr, q_j): H abstracted to an injective tuple
      V1  == [j \in 0..BATCH-1 |-> <<j, XorVec(qr[j], delta)>>]
      VC  == [j \in 0..BATCH-1 |-> <<j, tr[j]>>]
      dP  == PolyOf(delta, KAPPA)
  IN /\ qq = T                                                                   \* honest transcript accepted
     /\ \A j \in 0..BATCH-1 : VC[j] = IF BitAt(j, ch) = 1 THEN V1[j] ELSE V0[j]  \* outputs match the choice
     /\ (dP /= 0) => \A j \in 0..BATCH-1 : V0[j] /= V1[j]
     /\ (dP /= 0) => \A e \in 1..(2^KAPPA - 1) : Clmul(e, dP, KAPPA) /= 0        \* altered X is rejected
     /\ \A e \in 1..(2^KAPPA - 1) : (qq ^^ e) /= qq                               \* altered T is rejected

----------------------------------------------------------------------------
(* multiply.go: makeGadget, encode *)
NPOW == W * NPOWB                       \* scalarBytes(group): bits of a marshalled scalar
L    == NPOW + NNOISE                   \* len(gadget)
GadgetExp(idx) == IF Variant = "le-gadget" THEN idx
                  ELSE W * ((NPOWB - 1) - (idx \div W)) + (idx % W)
\* the doubling loop: for i := NPOWB-1 .. 0 { for j := 0 .. W-1 { out[(i<<3)|j] = acc; acc += acc } }
RECURSIVE GadgetLoop(_, _, _)
GadgetLoop(out, n, acc) ==
  IF n = NPOW THEN out
  ELSE LET i == (NPOWB - 1) - (n \div W)
           j == n % W
       IN GadgetLoop([out EXCEPT ![i*W + j] = acc], n + 1, (acc + acc) % Q)
GadgetPowIter == GadgetLoop([idx \in 0..NPOW-1 |-> 0], 0, 1 % Q)
Gadget(noise) == [idx \in 0..L-1 |-> IF idx < NPOW THEN (2^GadgetExp(idx)) % Q ELSE noise[idx - NPOW]]

BigEndian(x) == [b \in 0..NPOWB-1 |-> (x \div 2^(W * ((NPOWB - 1) - b))) % 2^W]      \* Scalar.MarshalBinary
Mod(x) == ((x % Q) + Q) % Q
Encode(beta, noise, gamma) ==
  LET acc == Mod(beta - SumFunction([i \in 0..NNOISE-1 |-> BitAt(i, gamma) * noise[i]]))
      be  == BigEndian(acc)
  IN [b \in 0..(L \div W) - 1 |-> IF b < NPOWB THEN be[b] ELSE gamma[b - NPOWB]]
Decode(g, data) == Mod(SumFunction([idx \in 0..L-1 |-> g[idx] * BitAt(idx, data)]))

GadgetLaw(beta, noise, gamma) ==
  /\ Variant = "code" => \A idx \in 0..NPOW-1 : GadgetPowIter[idx] = (2^GadgetExp(idx)) % Q
  /\ Decode(Gadget(noise), Encode(beta, noise, gamma)) = beta

(* additive.go Round1/Round2 and multiply.go Round1/Round2 over Z_Q *)
NoiseFam(s) == [i \in 0..NNOISE-1 |-> (s * (i + 2) + i * i + 1) % Q]
PadFam(s)   == [i \in 0..L-1 |-> <<(s * (i + 1) + 3) % Q, (s + 5 * i) % Q>>]        \* result[i] from V0
OthFam(s)   == [i \in 0..L-1 |-> <<(2 * s + i * i) % Q, (s * s + i + 1) % Q>>]      \* pads from V1
ChiSet      == {<<0, 0>>, <<1, 0>>, <<0, 1>>, <<1, 1>>, <<2, 3>>, <<Q-1, Q-1>>}

ShareLaw(alpha, ahat, beta, gamma, ns, ps, chi) ==
  LET noise == EagerV(NoiseFam(ns))
      g     == EagerV(Gadget(noise))
      data  == EagerV(Encode(beta, noise, gamma))
      ch    == EagerV([i \in 0..L-1 |-> BitAt(i, data)])
      pad   == EagerV(PadFam(ps))
      oth   == EagerV(OthFam(ps))
      al    == <<alpha, ahat>>
      comb  == EagerM([i \in 0..L-1 |-> [k \in 1..2 |-> Mod(oth[i][k] - pad[i][k] + al[k])]])         \* sender: CombinedPads
      vch   == EagerV([i \in 0..L-1 |-> IF ch[i] = 1 THEN oth[i] ELSE pad[i]])                       \* extended OT output (MonoLaw)
      recv  == EagerM([i \in 0..L-1 |-> [k \in 1..2 |-> Mod((0 - vch[i][k]) + ch[i] * comb[i][k])]]) \* receiver: -v + (mask & comb)
      uchk  == Mod(alpha * chi[1] + ahat * chi[2])
      rchk  == EagerV([i \in 0..L-1 |-> Mod(pad[i][1] * chi[1] + pad[i][2] * chi[2])])
      shA   == Mod(SumFunction([i \in 0..L-1 |-> pad[i][1] * g[i]]))
      shB   == Mod(SumFunction([i \in 0..L-1 |-> recv[i][1] * g[i]]))
  IN /\ \A i \in 0..L-1, k \in 1..2 : Mod(recv[i][k] + pad[i][k]) = Mod(ch[i] * al[k])        \* additive OT relation
     /\ \A i \in 0..L-1 : Mod(recv[i][1] * chi[1] + recv[i][2] * chi[2]) = Mod(ch[i] * uchk - rchk[i])   \* check accepts
     /\ Mod(shA + shB) = Mod(alpha * beta)                                                    \* the product
     \* one altered combined pad (index ti, amounts d): masked if c = 0; if c = 1 accepted only when d.chi = 0
     /\ \A ti \in {0, NPOW - 1, L - 1}, d \in {<<1, 0>>, <<0, 1>>, <<Q-1, 2>>} :
          LET recvT == [k \in 1..2 |-> Mod((0 - vch[ti][k]) + ch[ti] * Mod(comb[ti][k] + d[k]))]
              acc   == Mod(recvT[1] * chi[1] + recvT[2] * chi[2]) = Mod(ch[ti] * uchk - rchk[ti])
              shBT  == Mod(shB - recv[ti][1] * g[ti] + recvT[1] * g[ti])
          IN /\ ch[ti] = 0 => (recvT = recv[ti] /\ acc)
             /\ ch[ti] = 1 => (acc <=> Mod(d[1] * chi[1] + d[2] * chi[2]) = 0)
             /\ (acc /\ Mod(d[1] * chi[1] + d[2] * chi[2]) /= 0) => Mod(shA + shBT) = Mod(alpha * beta)

\* the integrity check misses a given non-zero alteration for exactly Q of the Q^2 challenges
SoundnessCount ==
  \A d \in ((0..Q-1) \X (0..Q-1)) \ {<<0, 0>>} :
     Cardinality({x \in (0..Q-1) \X (0..Q-1) : Mod(d[1] * x[1] + d[2] * x[2]) = 0}) = Q

----------------------------------------------------------------------------
(* tables at the real sizes, consumed by the Go oracle *)
NBITS == 1024
TablesOK(x) ==       \* (an operator with a parameter, so that TLC does not evaluate - and print - it at start-up in other modes)
  /\ x = 0
  /\ Cardinality({BitPos(i) : i \in 0..NBITS-1}) = NBITS
  /\ \A i \in 0..NBITS-1 : BitPos(i)[1] * W + BitPos(i)[2] = i /\ BitPos(i)[2] \in 0..W-1
  /\ {GadgetExp(idx) : idx \in 0..NPOW-1} = 0..NPOW-1
  /\ PrintT(<<"BITPOS", ToJson([i \in 1..NBITS |-> BitPos(i - 1)])>>)
  /\ PrintT(<<"GADGETEXP", ToJson([i \in 1..NPOW |-> GadgetExp(i - 1)])>>)
  /\ PrintT(<<"SIZES", ToJson([w |-> W, kappa |-> KAPPA, npow |-> NPOW, nnoise |-> NNOISE, len |-> L])>>)

----------------------------------------------------------------------------
Cases ==
  CASE MODE = "transpose" -> IF Full THEN AllMats(KAPPA, BATCH) ELSE Mats2(KAPPA, BATCH)
    [] MODE = "cot"       -> [delta : ByteVec(KAPPA), ch : ByteVec(BATCH),
                              t0 : Mats1(KAPPA, BATCH), t1 : IF Full THEN Mats1(KAPPA, BATCH) ELSE {MatOf(KAPPA, BATCH, {}), MatOf(KAPPA, BATCH, Pos(KAPPA, BATCH)), MatOf(KAPPA, BATCH, {<<0, 0>>, <<KAPPA-1, BATCH-1>>})}]
    [] MODE = "clmul"     -> [a : ByteVec(KAPPA), b : ByteVec(KAPPA)]
    [] MODE = "mono"      -> [delta : ByteVec(KAPPA), ch : ByteVec(BATCH),
                              t0 : IF Full THEN Mats1(KAPPA, BATCH) ELSE {MatOf(KAPPA, BATCH, {}), MatOf(KAPPA, BATCH, Pos(KAPPA, BATCH)), MatOf(KAPPA, BATCH, {<<0, BATCH-1>>, <<KAPPA-1, 0>>})},
                              s : IF Full THEN 1..2 ELSE {1}]
    [] MODE = "gadget"    -> [beta : 0..Q-1, noise : [0..NNOISE-1 -> 0..Q-1], gamma : ByteVec(NNOISE)]
    [] MODE = "share"     -> [alpha : 0..Q-1, ahat : IF Full THEN 0..Q-1 ELSE {0, 1, Q-1}, beta : 0..Q-1,
                              gamma : ByteVec(NNOISE), ns : 1..2, ps : 1..2, chi : ChiSet]
    [] MODE = "tables"    -> {0}

Init == c \in Cases
Next == UNCHANGED c

Law ==
  CASE MODE = "transpose" -> TransposeLaw(c)
    [] MODE = "cot"       -> CotLaw(c.delta, c.ch, c.t0, c.t1)
    [] MODE = "clmul"     -> ClmulLaw(c.a, c.b)
    [] MODE = "mono"      -> MonoLaw(c.delta, c.ch, c.t0, c.s)
    [] MODE = "gadget"    -> GadgetLaw(c.beta, c.noise, c.gamma)
    [] MODE = "share"     -> ShareLaw(c.alpha, c.ahat, c.beta, c.gamma, c.ns, c.ps, c.chi)
    [] MODE = "tables"    -> TablesOK(c)

ASSUME W \in 1..8 /\ KAPPA % (NW * W) = 0 /\ BATCH % W = 0 /\ NNOISE % W = 0
ASSUME MODE \in {"gadget", "share"} => (2^(W * NPOWB) > Q /\ SoundnessCount)
=============================================================================
