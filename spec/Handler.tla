------------------------------- MODULE Handler -------------------------------
(***************************************************************************)
(* The multi-party round handler of multi-party-sig (pkg/protocol/         *)
(* handler.go), the network between handlers, and an adversary.            *)
(*                                                                         *)
(* One action per critical section of the code: Accept holds the handler   *)
(* mutex from entry to return, so Accept - including the recursion of      *)
(* finalize() through any number of rounds - is ONE atomic step here.      *)
(* Cryptography is abstracted by payload variants:                         *)
(*   "h"    the bytes an honest instance of the sender produced            *)
(*   "e1","e2"  two individually valid payloads of an equivocating sender  *)
(*   "bad"  decodes but fails the round's verification                     *)
(*   "junk" does not decode                                                *)
(*   "sly"  passes per-message verification, detected by the protocol's    *)
(*          own Finalize (round.Abort with the sender as culprit)          *)
(* A message carries the echo field bv (abstract hash = the function       *)
(* sender -> stored variant of the previous broadcast round) and the view  *)
(* (what its content was computed from).  Content of a view-dependent      *)
(* round verifies for sure when sender and receiver views agree, and       *)
(* otherwise may or may not verify (flip) - real proofs depend on some but *)
(* not all of the differing data.                                          *)
(***************************************************************************)
EXTENDS Integers, Sequences, FiniteSets, TLC

CONSTANTS P,          \* all parties (strings)
          Honest,     \* honest subset
          R,          \* final round number
          ShapeB,     \* rounds (2..R) expecting a broadcast from everybody
          ShapeM,     \* rounds (2..R) expecting a p2p message from everybody else
          ViewDep,    \* rounds whose content verification depends on the receiver's view
          Variants,   \* payload variants the adversary may use
          MaxInject,  \* number of Byzantine sends
          MaxDup,     \* number of duplicated deliveries
          MaxForeign, \* number of foreign / stale / malformed-header injections
          EchoFirst,  \* TRUE: echo field compared before content is verified (code since the fix)
          EchoCheck,  \* FALSE removes the echo comparison altogether (negative control: NoSplit must then fail)
          KindFlip,   \* TRUE: the adversary may also send the kind (broadcast / p2p) a round does not expect
          StopAllowed,\* TRUE: users may call Stop
          ProtoAborts \* TRUE: a round's own Finalize may abort with culprits it computes (round.Abort)

None == "none"
NoVH == [j \in P |-> None]
Byz == P \ Honest
Rounds == 2..R

\* Nondeterminism of one Accept call that stands for real cryptography:
\*   view  - does view-dependent content verify although sender and receiver views differ?
\*   mut   - does a message altered in some field ("mut") still pass the round's verification?
\*   proto - does the protocol's own Finalize of round proto.r abort, naming proto.c ?
Flags == [view : BOOLEAN,
          mut  : IF "mut" \in Variants THEN BOOLEAN ELSE {TRUE},
          proto: IF ProtoAborts THEN [on : BOOLEAN, r : 2..R, c : SUBSET P] ELSE {[on |-> FALSE, r |-> 2, c |-> {}]}]
NoFlags == [view |-> FALSE, mut |-> TRUE, proto |-> [on |-> FALSE, r |-> 2, c |-> {}]]

\* header classes a foreign / malformed message may have; "ok" is a well-formed header of this session
HdrClasses == {"wrongSSID", "wrongProto", "nilData"}

NoMsg == [from |-> None, to |-> None, rd |-> 0, b |-> FALSE, var |-> None, bv |-> NoVH, view |-> <<>>, cls |-> "ok"]

VARIABLES rnd,   \* rnd[i]  current round number of honest i
          st,    \* "new" | "run" | "done" | "err"
          ek,    \* error kind: "detected" | "echo" | "notified" | "proto" | "stopped"
          culp,  \* culprits named in the error
          bq, mq,\* stored broadcast / p2p message per round and sender (first wins)
          vh,    \* vh[i][r]: abstract hash of the round-r broadcasts as stored by i
          net,   \* deliverable <<message, recipient>> pairs
          inj, dup, frn  \* adversary budgets used
vars == <<rnd, st, ek, culp, bq, mq, vh, net, inj, dup, frn>>
pvars == <<rnd, st, ek, culp, bq, mq, vh>>

----------------------------------------------------------------------------
\* local state of one party as a record, so that finalize() can recurse
Loc(i) == [rnd |-> rnd[i], st |-> st[i], ek |-> ek[i], culp |-> culp[i],
           bq |-> bq[i], mq |-> mq[i], vh |-> vh[i], outm |-> {}]

\* the sender's view of all broadcast rounds before r, as a sequence <<vh[2], ..., vh[r-1]>>
ViewUpTo(v, r) == [k \in 1..(r-2) |-> v[k+1]]

BvFor(s, r) == IF (r-1) \in ShapeB THEN s.vh[r-1] ELSE NoVH

Hdr(from, to, r, b, var, bv, view) ==
  [from |-> from, to |-> to, rd |-> r, b |-> b, var |-> var, bv |-> bv, view |-> view, cls |-> "ok"]

\* messages party i emits for round r when it finalizes round r-1 in local state s
HonestMsgs(i, s, r) ==
  LET bv   == BvFor(s, r)
      view == ViewUpTo(s.vh, r)
      B == IF r \in ShapeB
           THEN {[m |-> Hdr(i, "all", r, TRUE, "h", bv, view), rc |-> j] : j \in P \ {i}}
           ELSE {}
      M == IF r \in ShapeM
           THEN {[m |-> Hdr(i, j, r, FALSE, "h", bv, view), rc |-> j] : j \in P \ {i}}
           ELSE {}
  IN B \cup M

OwnBcast(i, s, r) == Hdr(i, "all", r, TRUE, "h", BvFor(s, r), ViewUpTo(s.vh, r))

\* handler.go:receivedAll - "stored", not "verified"
ReceivedAll(i, s) ==
  LET r == s.rnd IN
  IF r = 1 THEN TRUE
  ELSE /\ (r \in ShapeB => \A j \in P : s.bq[r][j] # NoMsg)
       /\ (r \in ShapeM => \A j \in P \ {i} : s.mq[r][j] # NoMsg)

\* broadcastHashes[r] is computed once, when all broadcasts of round r are stored
WithVH(s) ==
  LET r == s.rnd IN
  IF r \in ShapeB /\ s.vh[r] = NoVH
  THEN [s EXCEPT !.vh[r] = [j \in P |-> s.bq[r][j].var]]
  ELSE s

\* handler.go:checkBroadcastHash - every stored message of the current round
EchoOK(s) ==
  LET r == s.rnd IN
  IF r = 1 \/ (r-1) \notin ShapeB \/ ~EchoCheck THEN TRUE
  ELSE /\ \A j \in P : s.mq[r][j] # NoMsg => s.mq[r][j].bv = s.vh[r-1]
       /\ \A j \in P : s.bq[r][j] # NoMsg => s.bq[r][j].bv = s.vh[r-1]

AbortS(s, kind, c) == [s EXCEPT !.st = "err", !.ek = kind, !.culp = c]

\* does the content of m verify at a receiver in local state s (current round = m.rd)?
ContentOK(s, m, flip) ==
  CASE m.var = "junk" -> FALSE
    [] m.var = "bad"  -> FALSE
    [] m.var = "mut"  -> flip.mut
    [] OTHER -> IF m.rd \in ViewDep /\ m.view # ViewUpTo(s.vh, m.rd) THEN flip.view ELSE TRUE

\* A message whose kind the round does not expect is still stored (newQueue makes slots for every round and
\* both kinds). Verified on arrival it fails: a broadcast for a round without broadcast is refused by
\* getRoundMessage, a p2p message for a round without p2p is decoded into a nil content.
KindOK(m) == IF m.b THEN m.rd \in ShapeB ELSE m.rd \in ShapeM
MsgOK(s, m, flip) == KindOK(m) /\ ContentOK(s, m, flip)

\* verdict when message m (already stored in s, m.rd = s.rnd) is verified on arrival
\* (verifyBroadcastMessage pulls the sender's stored p2p message; verifyMessage waits for the broadcast)
ArrivalVerdict(s, m, flip) ==
  LET r == m.rd
      j == m.from
  IN IF m.b
     THEN IF ~MsgOK(s, m, flip) THEN "fail"
          ELSE IF r \in ShapeM /\ s.mq[r][j] # NoMsg /\ ~MsgOK(s, s.mq[r][j], flip) THEN "fail"
          ELSE "ok"
     ELSE IF r \in ShapeB /\ s.bq[r][j] = NoMsg THEN "ok"          \* deferred until the broadcast arrives
          ELSE IF ~MsgOK(s, m, flip) THEN "fail"
          ELSE "ok"

\* verdict for sender j when round s.rnd is entered with messages already queued
EntryVerdict(s, j, flip) ==
  LET r == s.rnd
      b == s.bq[r][j]
      m == s.mq[r][j]
  IN IF r \in ShapeB
     THEN IF b = NoMsg THEN "ok"
          ELSE IF ~MsgOK(s, b, flip) THEN "fail"
          ELSE IF r \in ShapeM /\ m # NoMsg /\ ~MsgOK(s, m, flip) THEN "fail"
          ELSE "ok"
     ELSE IF m # NoMsg /\ ~MsgOK(s, m, flip) THEN "fail" ELSE "ok"

\* on entering a round: (since the fix) echo check of everything queued, then verify queued messages
ProcessQueued(i, s, flip) ==
  LET others == P \ {i}
      failing == {j \in others : EntryVerdict(s, j, flip) = "fail"}
  IN IF EchoFirst /\ ~EchoOK(s) THEN AbortS(s, "echo", {})
     ELSE IF failing = {} THEN s
     ELSE \* Go map iteration order decides which failing sender is met first: resolved adversarially
          LET hf == failing \cap Honest
              c == IF hf # {} THEN CHOOSE j \in hf : TRUE ELSE CHOOSE j \in failing : TRUE
          IN AbortS(s, "detected", {c})

\* senders whose stored message of the current round is exposed by the protocol's own Finalize
Sly(s) == LET r == s.rnd IN
  IF r = 1 THEN {}
  ELSE {j \in P : (r \in ShapeB /\ s.bq[r][j].var = "sly") \/ (r \in ShapeM /\ s.mq[r][j].var = "sly")}

RECURSIVE Fin(_, _, _)
\* handler.go:finalize, including its recursion
Fin(i, s, flip) ==
  IF s.st # "run" \/ ~ReceivedAll(i, s) THEN s
  ELSE LET s1 == WithVH(s) IN
       IF ~EchoOK(s1) THEN AbortS(s1, "echo", {})
       ELSE IF Sly(s1) # {} THEN AbortS(s1, "proto", Sly(s1))      \* round.Abort returned by Finalize
       ELSE IF flip.proto.on /\ flip.proto.r = s1.rnd THEN AbortS(s1, "proto", flip.proto.c)
       ELSE IF s1.rnd = R THEN [s1 EXCEPT !.st = "done"]
       ELSE LET r2 == s1.rnd + 1
                s2 == [s1 EXCEPT !.rnd = r2,
                                 !.outm = s1.outm \cup HonestMsgs(i, s1, r2),
                                 !.bq[r2][i] = IF r2 \in ShapeB THEN OwnBcast(i, s1, r2) ELSE NoMsg]
                s3 == ProcessQueued(i, s2, flip)
            IN Fin(i, s3, flip)

Commit(i, s) ==
  /\ rnd' = [rnd EXCEPT ![i] = s.rnd]
  /\ st' = [st EXCEPT ![i] = s.st]
  /\ ek' = [ek EXCEPT ![i] = s.ek]
  /\ culp' = [culp EXCEPT ![i] = s.culp]
  /\ bq' = [bq EXCEPT ![i] = s.bq]
  /\ mq' = [mq EXCEPT ![i] = s.mq]
  /\ vh' = [vh EXCEPT ![i] = s.vh]

\* abort(): best-effort notice to everybody (round 0)
NoticeMsg(i) == Hdr(i, "all", 0, FALSE, "h", NoVH, <<>>)
Notice(i) == {[m |-> NoticeMsg(i), rc |-> j] : j \in Honest \ {i}}

EmptyQ == [r \in Rounds |-> [j \in P |-> NoMsg]]

Init ==
  /\ rnd = [i \in Honest |-> 1]
  /\ st = [i \in Honest |-> "new"]
  /\ ek = [i \in Honest |-> None]
  /\ culp = [i \in Honest |-> {}]
  /\ bq = [i \in Honest |-> EmptyQ]
  /\ mq = [i \in Honest |-> EmptyQ]
  /\ vh = [i \in Honest |-> [r \in Rounds |-> NoVH]]
  /\ net = {}
  /\ inj = 0 /\ dup = 0 /\ frn = 0

\* NewMultiHandler: finalize round 1 at once
StartResult(i) == Fin(i, [Loc(i) EXCEPT !.st = "run"], NoFlags)

Start(i) ==
  /\ st[i] = "new"
  /\ LET s == StartResult(i)
     IN /\ Commit(i, s)
        /\ net' = net \cup {x \in s.outm : x.rc \in Honest}
  /\ UNCHANGED <<inj, dup, frn>>

\* handler.go:CanAccept
CanAcceptP(i, m) ==
  /\ m.cls = "ok"
  /\ m.to \in {"all", i} /\ m.from # i /\ m.from \in P
  /\ m.rd <= R
  /\ ~(m.rd < rnd[i] /\ m.rd > 0)

\* handler.go:duplicate - there is no queue for round 1; otherwise the first message of a slot wins
Duplicate(i, m) ==
  IF m.rd = 0 THEN FALSE
  ELSE IF m.rd = 1 THEN TRUE
  ELSE IF m.b THEN bq[i][m.rd][m.from] # NoMsg ELSE mq[i][m.rd][m.from] # NoMsg

Ignored(i, m) == st[i] # "run" \/ ~CanAcceptP(i, m) \/ Duplicate(i, m)

\* local state after handler.Accept(m), given it is not ignored
AcceptResult(i, m, flip) ==
  IF m.rd = 0 THEN AbortS(Loc(i), "notified", {m.from})
  ELSE LET s0 == Loc(i)
           s1 == IF m.b THEN [s0 EXCEPT !.bq[m.rd][m.from] = m] ELSE [s0 EXCEPT !.mq[m.rd][m.from] = m]
       IN IF m.rd # s1.rnd THEN s1                                   \* queued for a later round
          ELSE IF EchoFirst /\ ~EchoOK(s1) THEN AbortS(s1, "echo", {})
          ELSE IF ArrivalVerdict(s1, m, flip) = "fail" THEN AbortS(s1, "detected", {m.from})
          ELSE Fin(i, s1, flip)

\* what goes on the wire as a consequence: next-round messages, or the abort notice
WireOf(i, s) == {y \in s.outm : y.rc \in Honest} \cup (IF s.st = "err" THEN Notice(i) ELSE {})

Accept(i, x, keep, flip) ==
  LET m == x.m IN
  /\ x \in net /\ x.rc = i
  /\ st[i] # "new"
  /\ IF Ignored(i, m)
     THEN /\ UNCHANGED pvars
          /\ net' = IF keep THEN net ELSE net \ {x}
     ELSE LET s == AcceptResult(i, m, flip)
          IN /\ Commit(i, s)
             /\ net' = (IF keep THEN net ELSE net \ {x}) \cup WireOf(i, s)
  /\ dup' = IF keep THEN dup + 1 ELSE dup
  /\ UNCHANGED <<inj, frn>>

\* user calls Stop on a running session
Stop(i) ==
  /\ StopAllowed /\ st[i] = "run"
  /\ Commit(i, AbortS(Loc(i), "stopped", {i}))
  /\ net' = net \cup Notice(i)
  /\ UNCHANGED <<inj, dup, frn>>

\* the adversary: any expected-kind message from a Byzantine sender, carrying the echo field and view of
\* some honest party `mim` it mimics, or a round-0 abort notice
ByzSend(k, j, r, b, var, mim) ==
  /\ inj < MaxInject
  /\ k \in Byz /\ j \in Honest /\ r \in Rounds
  /\ (KindFlip \/ ((b => r \in ShapeB) /\ (~b => r \in ShapeM)))
  /\ mim \in Honest
  /\ (r > 2 /\ (r-1) \in ShapeB) => vh[mim][r-1] # NoVH
  /\ net' = net \cup {[m |-> Hdr(k, IF b THEN "all" ELSE j, r, b, var,
                              IF (r-1) \in ShapeB THEN vh[mim][r-1] ELSE NoVH,
                              ViewUpTo(vh[mim], r)), rc |-> j]}
  /\ inj' = inj + 1
  /\ UNCHANGED <<pvars, dup, frn>>

ByzNotice(k, j) ==
  /\ inj < MaxInject /\ k \in Byz /\ j \in Honest
  /\ net' = net \cup {[m |-> NoticeMsg(k), rc |-> j]}
  /\ inj' = inj + 1
  /\ UNCHANGED <<pvars, dup, frn>>

\* foreign / stale / malformed-header traffic: a copy of a message on the wire with one header property changed,
\* or re-addressed to another party, or replayed after its round has passed
Foreign(x, j, cls) ==
  /\ frn < MaxForeign
  /\ x \in net /\ j \in Honest
  /\ cls \in HdrClasses \cup {"readdress", "toobig", "fromself"}
  /\ LET m == x.m
         m2 == CASE cls \in HdrClasses -> [m EXCEPT !.cls = cls]
                 [] cls = "readdress" -> m                        \* delivered to j although addressed to x.rc
                 [] cls = "toobig"    -> [m EXCEPT !.rd = R + 1]
                 [] cls = "fromself"  -> [m EXCEPT !.from = j]
     IN /\ (cls = "readdress" => (j # x.rc /\ m.to # "all"))
        /\ net' = net \cup {[m |-> m2, rc |-> j]}
  /\ frn' = frn + 1
  /\ UNCHANGED <<pvars, inj, dup>>

Next ==
  \/ \E i \in Honest : Start(i) \/ Stop(i)
  \/ \E i \in Honest, x \in net, flip \in Flags :
        \/ Accept(i, x, FALSE, flip)
        \/ (dup < MaxDup /\ Accept(i, x, TRUE, flip))
  \/ \E k \in Byz, j \in Honest, r \in Rounds, b \in BOOLEAN, var \in Variants, mim \in Honest : ByzSend(k, j, r, b, var, mim)
  \/ \E k \in Byz, j \in Honest : ByzNotice(k, j)
  \/ \E x \in net, j \in Honest, cls \in HdrClasses \cup {"readdress", "toobig", "fromself"} : Foreign(x, j, cls)

Spec == Init /\ [][Next]_vars /\ WF_vars(Next)

----------------------------------------------------------------------------
\* properties

TypeOK ==
  /\ \A i \in Honest : rnd[i] \in 1..R /\ st[i] \in {"new", "run", "done", "err"}
  /\ \A i \in Honest : culp[i] \subseteq P

\* C04: a self-detected error names only parties that really sent a violating message
BlameSound == \A i \in Honest : (st[i] = "err" /\ ek[i] \in {"detected", "proto"}) => culp[i] \subseteq Byz
\* C04: an echo mismatch names nobody
EchoNamesNobody == \A i \in Honest : (st[i] = "err" /\ ek[i] = "echo") => culp[i] = {}
\* C04: a relayed abort names its origin and nothing more
NoticeBlame == \A i \in Honest : (st[i] = "err" /\ ek[i] = "notified") => Cardinality(culp[i]) = 1
\* C06: honest parties that complete hold identical views of every non-final broadcast round
NoSplit == \A i, j \in Honest : (st[i] = "done" /\ st[j] = "done") =>
              \A r \in ShapeB \ {R} : \A k \in P : bq[i][r][k].var = bq[j][r][k].var
\* C03 (handler part): a party never completes on content that fails verification
NoBadAccepted == \A i \in Honest : st[i] = "done" =>
              \A r \in Rounds, k \in P : bq[i][r][k].var \notin {"bad", "junk", "sly"} /\ mq[i][r][k].var \notin {"bad", "junk", "sly"}
\* C07: with everybody honest nobody aborts, and the system never gets stuck before everybody is done
AllHonest == Byz = {} /\ ~StopAllowed
HonestNeverAborts == AllHonest => \A i \in Honest : st[i] # "err"
AllDone == \A i \in Honest : st[i] = "done"
NoDeadlock == (AllHonest /\ ~AllDone) => ENABLED Next
Completes == AllHonest => <>AllDone
\* C09/C07: ignored messages (foreign, stale, duplicate, after the end) change nothing
Isolation == [][\A i \in Honest, x \in net :
                  (x.rc = i /\ Ignored(i, x.m) /\ net' \subseteq net /\ net' = net \ {x})
                      => (rnd'[i] = rnd[i] /\ st'[i] = st[i] /\ bq'[i] = bq[i] /\ mq'[i] = mq[i])]_vars
\* C17 (as far as this module goes): terminal states are stable
Terminal(i) == st[i] \in {"done", "err"}
ResultStable == [][\A i \in Honest : Terminal(i) =>
                     (st'[i] = st[i] /\ ek'[i] = ek[i] /\ culp'[i] = culp[i] /\ rnd'[i] = rnd[i])]_vars

\* state view for exhaustive runs: budgets are part of the state, nothing to hide here
=============================================================================
