------------------------------ MODULE FrostAlg ------------------------------
(***************************************************************************)
(* The algebra of FROST signing (protocols/frost/sign: round1, round2,     *)
(* round3) over GF(Q), a curve point a*G represented by its exponent a.    *)
(*                                                                         *)
(*   round 1   signer i draws nonces d_i, e_i and publishes D_i, E_i       *)
(*   round 2   rho_l = H(M, all D, all E, l)         binding factors       *)
(*             R_l = D_l + rho_l E_l,  R = sum R_l    nonce point           *)
(*             Taproot: if R has odd Y everybody negates d, e and the R_l  *)
(*             c = H(R, Y, M)                          challenge            *)
(*             z_i = d_i + rho_i e_i + lambda_i s_i c  published            *)
(*   round 3   every z_l is checked:  z_l G = R_l + c lambda_l Y_l         *)
(*             signature (R, z = sum z_l), verified before it is returned  *)
(*                                                                         *)
(* The hashes are not modelled: rho_l and c range over ALL non-zero field  *)
(* elements, so what TLC proves holds whatever the hash returns.  The      *)
(* parity of a point's Y coordinate is the abstract predicate Odd of       *)
(* KeyLife.tla (exactly one of p, -p is odd for p # 0).  Shares are a      *)
(* Shamir sharing of the key (module Shamir); the group key Y is "even"    *)
(* in the Taproot variant, as key generation leaves it.                    *)
(*                                                                         *)
(* One signer may deviate in what the proofs-free protocol leaves free:    *)
(*   "z"     publishes z_i + off                                            *)
(*   "nonce" answers with other nonces than the ones it committed to       *)
(*           (d_i + off in place of d_i)                                    *)
(*   "share" answers with another share than its public share (s_i + off)  *)
(*   "noneg" Taproot: does not negate its nonces when R is odd             *)
(* TLC checks: an all-honest session yields a valid signature (both        *)
(* variants, every signer subset above the threshold); with a deviation    *)
(* no honest signer outputs a signature unless it is valid, and the        *)
(* per-share check of every honest signer singles out exactly the          *)
(* deviating signer (C04) - or nobody, when the deviation happens to be    *)
(* the identity (noneg with an even R).                                    *)
(*                                                                         *)
(* Binding: the module prints the deviation catalogue; bin/c04.py runs     *)
(* each case on the real protocol with a state-level cheater (a proxy      *)
(* session that alters the cheater's round objects) and compares the       *)
(* outcome at every honest signer (culprits, completion).                  *)
(***************************************************************************)
EXTENDS Shamir, TLC, Json

CONSTANTS XS,        \* the points of all key holders
          T,         \* threshold: more than T signers are needed
          Taproot,   \* BOOLEAN
          Kinds,     \* deviations explored
          Polys,     \* polynomials (sequences c0, c1, ..) the key may have been dealt with
          DVals, EVals, RhoVals, CVals, Offs   \* the values nonces, binding factors, challenge and offsets range over

Odd(k) == k > (Q - 1) \div 2
None == 0      \* no deviating signer (0 is not a party point)

VARIABLES poly, S, d, e, rho, c, dev, phase, out
vars == <<poly, S, d, e, rho, c, dev, phase, out>>

Share(i) == Eval(poly, i)
Key == poly[1]
Lam(i) == Lagrange(S, i)

\* nonce points as committed
Rl(l) == Fadd(d[l], Fmul(rho[l], e[l]))
Rsum == SumF(S, [l \in S |-> Rl(l)])
Flip == Taproot /\ Odd(Rsum)
\* what everybody uses after round 2
RlEff(l) == IF Flip THEN Fneg(Rl(l)) ELSE Rl(l)
REff == IF Flip THEN Fneg(Rsum) ELSE Rsum

\* the response of signer i (honest computation, with the deviation applied for dev.who)
ZHonest(i) ==
  LET di == IF Flip THEN Fneg(d[i]) ELSE d[i]
      ei == IF Flip THEN Fneg(e[i]) ELSE e[i]
  IN Fadd(Fadd(di, Fmul(rho[i], ei)), Fmul(Fmul(Lam(i), Share(i)), c))
Z(i) ==
  IF i # dev.who THEN ZHonest(i)
  ELSE CASE dev.kind = "z" -> Fadd(ZHonest(i), dev.off)
         [] dev.kind = "nonce" ->
              LET di == IF Flip THEN Fneg(Fadd(d[i], dev.off)) ELSE Fadd(d[i], dev.off)
                  ei == IF Flip THEN Fneg(e[i]) ELSE e[i]
              IN Fadd(Fadd(di, Fmul(rho[i], ei)), Fmul(Fmul(Lam(i), Share(i)), c))
         [] dev.kind = "share" ->
              LET di == IF Flip THEN Fneg(d[i]) ELSE d[i]
                  ei == IF Flip THEN Fneg(e[i]) ELSE e[i]
              IN Fadd(Fadd(di, Fmul(rho[i], ei)), Fmul(Fmul(Lam(i), Fadd(Share(i), dev.off)), c))
         [] dev.kind = "noneg" ->
              Fadd(Fadd(d[i], Fmul(rho[i], e[i])), Fmul(Fmul(Lam(i), Share(i)), c))
         [] OTHER -> ZHonest(i)

\* round3.StoreBroadcastMessage: z_l G = R_l + c lambda_l Y_l
ShareOK(l) == Z(l) = Fadd(RlEff(l), Fmul(c, Fmul(Lam(l), Share(l))))
\* Schnorr verification of (R, z):  z G = R + c Y
SigZ == SumF(S, [l \in S |-> Z(l)])
SigValid == SigZ = Fadd(REff, Fmul(c, Key))

Deviations ==
  {[who |-> None, kind |-> "none", off |-> 0]} \cup
  {[who |-> w, kind |-> k, off |-> o] : w \in XS, k \in Kinds \ {"noneg"}, o \in Offs} \cup
  (IF "noneg" \in Kinds /\ Taproot THEN {[who |-> w, kind |-> "noneg", off |-> 0] : w \in XS} ELSE {})

Init ==
  /\ poly \in Polys
  /\ (Taproot => ~Odd(poly[1]))
  /\ S \in {s \in SUBSET XS : Cardinality(s) > T}
  /\ d \in [XS -> DVals] /\ e \in [XS -> EVals]
  /\ rho \in [XS -> RhoVals]
  /\ c \in CVals
  /\ dev \in Deviations /\ (dev.who # None => dev.who \in S)
  /\ phase = "round3"
  /\ out = [i \in XS |-> [st |-> "run", culp |-> {}]]

\* every signer processes the responses of the others (its own is not checked), then assembles and verifies
Round3 ==
  /\ phase = "round3"
  /\ phase' = "done"
  /\ out' = [i \in XS |->
       IF i \notin S THEN out[i]
       ELSE LET bad == {l \in S \ {i} : ~ShareOK(l)} IN
            IF bad # {} THEN [st |-> "abort", culp |-> {CHOOSE l \in bad : TRUE}]   \* the first failing response ends the session
            ELSE IF SigValid THEN [st |-> "sig", culp |-> {}]
            ELSE [st |-> "abort", culp |-> {}]]                                     \* "generated signature failed to verify"
  /\ UNCHANGED <<poly, S, d, e, rho, c, dev>>

Next == Round3
Spec == Init /\ [][Next]_vars

----------------------------------------------------------------------------
Honest == S \ {dev.who}
Deviates == dev.who # None
\* the deviation changes the response at all (noneg with an even R, or an offset that cancels, does not)
Effective == Deviates /\ Z(dev.who) # ZHonest(dev.who)

\* C01 at the design level
HonestCompletes == (phase = "done" /\ ~Deviates) => \A i \in S : out[i].st = "sig"
OutputValid == \A i \in S : out[i].st = "sig" => SigValid
\* C03: an effective deviation never lets an honest signer output anything
Detected == (phase = "done" /\ Effective) => \A i \in Honest : out[i].st = "abort"
\* C04: whoever aborts on a response names exactly the deviating signer; an honest signer is never named
BlameExact == phase = "done" => \A i \in Honest : out[i].culp \subseteq {dev.who} \ {None}
BlameComplete == (phase = "done" /\ Effective) => \A i \in Honest : out[i].culp = {dev.who}
\* an ineffective deviation is harmless
Harmless == (phase = "done" /\ Deviates /\ ~Effective) => \A i \in Honest : out[i].st = "sig"

Catalogue == {[rule |-> k, taproot |-> Taproot] : k \in Kinds}
ASSUME PrintT(<<"CAT", ToJson(Catalogue)>>)

\* polynomial sets for the configurations
PolysT1 == {<<3, 2>>, <<2, 5>>, <<1, 1>>}
PolysT2 == {<<3, 2, 4>>, <<1, 6, 5>>}
=============================================================================
