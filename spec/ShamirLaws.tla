----------------------------- MODULE ShamirLaws -----------------------------
(***************************************************************************)
(* The design facts behind C01 / C02 / C08 / C14, checked EXHAUSTIVELY in  *)
(* GF(Q): every identifier set XS of size n, every threshold 0 <= t < n,   *)
(* every sharing polynomial of degree exactly t (+Slack, to show the laws  *)
(* are not vacuous: Slack = 1 or -1 must make TLC reject), every subset.   *)
(* Each initial state is one configuration; there are no steps.            *)
(***************************************************************************)
EXTENDS Shamir, TLC

CONSTANTS NMax,     \* largest party count
          Slack     \* 0: dealt degree = threshold (the design); +1 / -1: the two classic wrong designs
SlackMinus1 == 0 - 1    \* a configuration file cannot hold a negative number: Slack <- SlackMinus1

VARIABLES XS, t, poly
vars == <<XS, t, poly>>

Points == 1..(Q-1)
Share(p, x) == Eval(p, x)
Key(p) == p[1]

Init ==
  /\ XS \in {S \in SUBSET Points : Cardinality(S) \in 1..NMax}
  /\ t \in 0..(Cardinality(XS) - 1)
  /\ t + Slack >= 0
  /\ poly \in {p \in PolysUpTo(t + Slack) : p[t + Slack + 1] # 0 \/ t + Slack = 0}
Next == UNCHANGED vars

Subsets(k) == {S \in SUBSET XS : Cardinality(S) = k}
Shares == [x \in XS |-> Share(poly, x)]
NewShares(z) == [x \in XS |-> Fadd(Share(poly, x), Share(z, x))]     \* after a refresh with zero-constant polynomial z

\* C02: any t+1 shares combine to the key; the "table" (the same values in the exponent) interpolates to it
AnyTplus1Reconstructs == \A S \in Subsets(t + 1) : Interp0(S, Shares) = Key(poly)
\* C01: the Lagrange-scaled additive shares of ANY signer set larger than t sum to the key (not only prefixes)
SignShareSum == \A S \in SUBSET XS : Cardinality(S) > t => Interp0(S, Shares) = Key(poly)
\* C02: degree exactly t - t shares leave every key possible (there are exactly Q polynomials through them)
TSharesHideKey ==
  t >= 1 => \A S \in Subsets(t) :
     Cardinality({p \in PolysUpTo(t) : \A x \in S : Share(p, x) = Share(poly, x)}) = Q
\* ... and no t shares interpolate to the key: p - q_S = a_t * prod(x - x_i) does not vanish at 0 when the leading coefficient
\* a_t is non-zero (the law that a dealt degree of t-1 breaks; judge.ConsistentSharing checks it on the real shares)
DegreeExactlyT == t >= 1 => \A S \in Subsets(t) : Interp0(S, Shares) # Key(poly)
\* C08: a refresh keeps the key and the consistency, and mixing epochs can miss the key
RefreshKeepsKey == \A z \in ZeroConst(t) : \A S \in Subsets(t + 1) : Interp0(S, NewShares(z)) = Key(poly)
MixedEpochsMiss ==
  \A z \in ZeroConst(t) : (\E k \in 1..(t+1) : z[k] # 0) =>
     \E S \in Subsets(t + 1), M \in SUBSET XS :
        Interp0(S, [x \in XS |-> IF x \in M THEN NewShares(z)[x] ELSE Shares[x]]) # Key(poly)
\* C14: adding the same adjustment to every share moves the key by exactly that adjustment
DeriveShiftsKey == \A a \in F : \A S \in Subsets(t + 1) : Interp0(S, [x \in XS |-> Fadd(Shares[x], a)]) = Fadd(Key(poly), a)
\* C14 / Taproot: negating every share negates the key (even-Y renormalisation)
NegateConsistent == \A S \in Subsets(t + 1) : Interp0(S, [x \in XS |-> Fneg(Shares[x])]) = Fneg(Key(poly))
=============================================================================
