------------------------------- MODULE Nonce -------------------------------
(***************************************************************************************************)
(* C11 - signing nonces never repeat across contexts, even if the RNG fails.                       *)
(*                                                                                                 *)
(* The module transcribes the two nonce derivations of the library over an ABSTRACT INJECTIVE hash *)
(* (a hash value is the record of its inputs; two hash values are equal iff all inputs are equal): *)
(*                                                                                                 *)
(*  FROST  (protocols/frost/sign/round1.go : Finalize)                                             *)
(*      hk      = KDF(s_i)                                   blake3.DeriveKey(ctx-string, s_i)     *)
(*      digest  = H_hk( SessionHash || M || a )              a = 32 bytes from crypto/rand         *)
(*      d_i,e_i = first / second scalar read from digest ;   published: D_i = d_i G, E_i = e_i G   *)
(*      SessionHash = round.NewSession's running hash =                                            *)
(*          [ ("Session ID", sid)  -- block absent when sid = nil ]                                *)
(*          ("Protocol ID", "frost/sign-threshold" | "frost/sign-threshold-taproot")               *)
(*          ("Group Name", secp256k1) (IDSlice, signer set) (Threshold, t)                         *)
(*  BIP-340 (pkg/taproot/signature.go : Sign)                                                      *)
(*      a   = 32 bytes from the reader argument, or the value of a process-wide atomic counter     *)
(*            (incremented on every such call) when the reader argument is nil                     *)
(*      k   = H_nonce( d XOR H_aux(a) || P || m ) ;          published: R = k G (first 32 sig bytes)*)
(*                                                                                                 *)
(* Behaviours are sequences of MaxLen signing attempts, each in a context chosen from the full     *)
(* lattice of contexts, under one of three random sources: "constant" (every call returns the same *)
(* bytes), "repeating" (period 2 in the number of calls) and "honest" (a fresh value every call).  *)
(*                                                                                                 *)
(* WHAT TLC DECIDES (on the model): for every sequence of attempts it enumerates, invariant Agree  *)
(* states that two published nonces are equal IF AND ONLY IF they are the same output position of  *)
(* two attempts with identical context that were fed identical entropy (NoReuse is the "only if"   *)
(* half, the property proper; the "if" half shows the statement is not vacuous and is what lets    *)
(* the conformance run prove that the substituted RNG is the only entropy).  HonestFresh: under    *)
(* the honest source all published nonces are pairwise distinct.  The constant Wrong selects the   *)
(* classic broken derivations (message / context / share / randomness dropped from the hash, the   *)
(* counter not incremented); TLC must REJECT each of them (negative controls, see bin/c11.py       *)
(* `controls()`; not part of the registered check path).                                           *)
(*                                                                                                 *)
(* WHAT ONLY THE CONFORMANCE RUN DECIDES: that the real code hashes what this model says it        *)
(* hashes.  Every terminal behaviour is printed (ROW) with, for every published nonce, its         *)
(* equality class in the model; cmd/noncedrv replays the same attempts on the real handler /       *)
(* taproot.SecretKey.Sign with crypto/rand.Reader replaced by the prescribed source and requires   *)
(* the equality pattern of the real commitments to be exactly the printed one.  Injectivity of     *)
(* blake3 / SHA-256 / scalar multiplication (collision resistance) is assumed, not modelled.       *)
(***************************************************************************************************)
EXTENDS Integers, Sequences, FiniteSets, TLC, Json, SequencesExt

CONSTANTS
    Kind,       \* "frost" | "bip340"
    Msgs,       \* set of message labels (strings)
    Sets,       \* FROST: set of signer-set labels (strings)
    Sids,       \* FROST: set of session-id labels (strings); "nil" is the absent session id
    Variants,   \* FROST: subset of {"plain", "taproot"}
    Shares,     \* FROST: set of share labels (strings)
    Keys,       \* BIP-340: set of secret-key labels (strings)
    RandArgs,   \* BIP-340: subset of {"reader", "nil"}  (the rand argument of Sign)
    Modes,      \* subset of {"constant", "repeating", "honest"}
    MaxLen,     \* attempts per behaviour (2: pairs, 3: triples)
    Mono,       \* TRUE: enumerate only sequences with non-decreasing context index (pairs up to symmetry)
    Wrong,      \* "none" | "nomsg" | "noctx" | "noshare" | "norand" | "noctr"
    Emit        \* TRUE: print every terminal behaviour

VARIABLES
    mode,       \* the random source of this behaviour
    hist,       \* sequence of attempts: [ctx, rnd, nonces]
    calls,      \* number of calls made to the random source so far
    ctr         \* value of the process-wide atomic counter (BIP-340, rand = nil)

vars == <<mode, hist, calls, ctr>>

----------------------------------------------------------------------------------------------------
(* contexts *)

FrostCtx == [msg : Msgs, set : Sets, sid : Sids, variant : Variants, share : Shares]
BipCtx   == [key : Keys, msg : Msgs, randarg : RandArgs]
CtxSet   == IF Kind = "frost" THEN FrostCtx ELSE BipCtx
CtxSeq   == SetToSeq(CtxSet)
Idx(c)   == CHOOSE i \in 1..Len(CtxSeq) : CtxSeq[i] = c

----------------------------------------------------------------------------------------------------
(* the random source: the value returned by the n-th call (n = 0, 1, ...) *)

Rng(m, n) == CASE m = "constant"  -> 0
               [] m = "repeating" -> n % 2
               [] m = "honest"    -> n

(* counter values live in a range disjoint from reader values: an encoded counter (8 big-endian bytes
   followed by 24 zero bytes) is never what the substituted readers return *)
CtrBase == 1000000

----------------------------------------------------------------------------------------------------
(* the derivations, over an injective hash (hash value = record of inputs) *)

ProtocolID(v) == IF v = "taproot" THEN "frost/sign-threshold-taproot" ELSE "frost/sign-threshold"

SessionHash(c) ==
    LET sidBlock == IF c.sid = "nil" THEN <<>> ELSE << <<"Session ID", c.sid>> >>
    IN  sidBlock \o << <<"Protocol ID", ProtocolID(c.variant)>>, <<"Group Name", "secp256k1">>,
                       <<"IDSlice", c.set>>, <<"Threshold", "t">> >>

KDF(share) == <<"Derive hash Key", share>>

FrostDigest(c, a) ==
    [ key  |-> IF Wrong = "noshare" THEN <<"Derive hash Key", "-">> ELSE KDF(c.share),
      sess |-> IF Wrong = "noctx" THEN <<>> ELSE SessionHash(c),
      msg  |-> IF Wrong = "nomsg" THEN "-" ELSE c.msg,
      a    |-> IF Wrong = "norand" THEN 0 ELSE a ]

(* d_i and e_i are consecutive reads from the same extendable output *)
FrostNonces(c, a) == << [digest |-> FrostDigest(c, a), out |-> 0], [digest |-> FrostDigest(c, a), out |-> 1] >>

BipNonces(c, a) ==
    << [ t |-> <<IF Wrong = "noshare" THEN "-" ELSE c.key, IF Wrong = "norand" THEN 0 ELSE a>>,   \* d XOR H_aux(a)
         P |-> IF Wrong = "noshare" THEN "-" ELSE c.key,
         m |-> IF Wrong = "nomsg" THEN "-" ELSE c.msg ] >>

----------------------------------------------------------------------------------------------------
(* behaviours *)

Init == /\ mode \in Modes
        /\ hist = <<>>
        /\ calls = 0
        /\ ctr = 0

UsesReader(c) == Kind = "frost" \/ c.randarg = "reader"

Attempt(c) ==
    /\ Len(hist) < MaxLen
    /\ IF Mono /\ Len(hist) > 0 THEN Idx(c) >= Idx(hist[Len(hist)].ctx) ELSE TRUE
    /\ LET newctr == IF UsesReader(c) THEN ctr ELSE (IF Wrong = "noctr" THEN 1 ELSE ctr + 1)
           a      == IF UsesReader(c) THEN Rng(mode, calls) ELSE CtrBase + newctr
           ns     == IF Kind = "frost" THEN FrostNonces(c, a) ELSE BipNonces(c, a)
       IN  /\ hist' = Append(hist, [ctx |-> c, rnd |-> a, nonces |-> ns])
           /\ calls' = IF UsesReader(c) THEN calls + 1 ELSE calls
           /\ ctr' = newctr
    /\ UNCHANGED mode

Next == \E c \in CtxSet : Attempt(c)

Spec == Init /\ [][Next]_vars

----------------------------------------------------------------------------------------------------
(* the property *)

Pos == {<<i, p>> : i \in 1..Len(hist), p \in 1..(IF Kind = "frost" THEN 2 ELSE 1)}
N(x) == hist[x[1]].nonces[x[2]]

(* what the property allows: the same output position of two attempts in the same context fed the same entropy *)
MayEqual(x, y) == /\ x[2] = y[2]
                  /\ hist[x[1]].ctx = hist[y[1]].ctx
                  /\ hist[x[1]].rnd = hist[y[1]].rnd

NoReuse == \A x \in Pos : \A y \in Pos : (x # y /\ N(x) = N(y)) => MayEqual(x, y)

Agree == \A x \in Pos : \A y \in Pos : (N(x) = N(y)) <=> MayEqual(x, y)

HonestFresh == mode = "honest" => \A x \in Pos : \A y \in Pos : x # y => N(x) # N(y)

TypeOK == /\ mode \in Modes
          /\ Len(hist) <= MaxLen
          /\ calls \in 0..MaxLen
          /\ ctr \in 0..MaxLen

----------------------------------------------------------------------------------------------------
(* export: every terminal behaviour with the model's equality classes of the published nonces.
   Nonces are flattened attempt by attempt; the class of a nonce is the flat index of its first occurrence. *)

PerAtt == IF Kind = "frost" THEN 2 ELSE 1
Flat   == [k \in 1..(Len(hist) * PerAtt) |-> hist[((k - 1) \div PerAtt) + 1].nonces[((k - 1) % PerAtt) + 1]]
Class(k) == CHOOSE m \in 1..k : /\ Flat[m] = Flat[k]
                                /\ \A l \in 1..(m - 1) : Flat[l] # Flat[k]

Row == [ kind  |-> Kind,
         mode  |-> mode,
         att   |-> [i \in 1..Len(hist) |-> hist[i].ctx],
         rnd   |-> [i \in 1..Len(hist) |-> hist[i].rnd],
         calls |-> calls,
         cls   |-> [k \in 1..(Len(hist) * PerAtt) |-> Class(k)] ]

EmitRow == (Emit /\ Len(hist) = MaxLen) => PrintT(<<"ROW", ToJson(Row)>>)

=============================================================================
