------------------------------ MODULE ZkCases ------------------------------
(***************************************************************************)
(* C10 - ZK proofs are complete on their domain and bound to statement and *)
(* context.                                                                *)
(*                                                                         *)
(* HONEST STATEMENT OF TLC'S ROLE.  This is the thinnest use of model      *)
(* checking in the framework.  Soundness / completeness of the 15 sigma    *)
(* protocols is number theory and is NOT model checked.  What this module  *)
(* contains is                                                             *)
(*  (1) a TRANSCRIBED STRUCTURE of every proof system of /repo/pkg/zk      *)
(*      (operator Struct): public fields, witness fields with their        *)
(*      documented symbolic range, commitment fields, response fields,     *)
(*      which response is range-checked against which bound, the ORDERED   *)
(*      list of values that enter the Fiat-Shamir challenge, the kind of   *)
(*      challenge that is drawn, and which verification equation mentions  *)
(*      which field;                                                       *)
(*  (2) an ABSTRACT verifier over that structure (operator Verdict): a     *)
(*      proof is accepted iff every range-checked response is in range,    *)
(*      the recomputed challenge is the prover's one (no hashed value and  *)
(*      no context item changed) and every equation still relates the      *)
(*      values it was made for;                                            *)
(*  (3) the generic flow Prove -> Perturb -> Verify as a small state       *)
(*      machine whose reachable states are exactly the case lattice        *)
(*      system x witness lattice point x perturbation.                     *)
(* TLC DECIDES: (a) design facts on the transcription - NoUnboundField     *)
(* (every public and commitment field is covered by the challenge or by an *)
(* equation), AllHashed, RespInEq, RelInEq, WellFormed; (b) on the         *)
(* abstract verifier, for every enumerated case, BindingSound (accept only *)
(* for the unperturbed in-range proof, for an honest proof under other     *)
(* auxiliary parameters, or - context only - for the trivial statements    *)
(* whose response does not depend on the challenge) and CompleteOnDomain;  *)
(* (c) it ENUMERATES the                                                   *)
(* lattice and prints one CASE line per case with the expected verdict and *)
(* the mechanisms that are expected to reject.                             *)
(* ONLY THE CONFORMANCE RUN DECIDES (cmd/zkdrv on the real packages, fixed *)
(* keys of pkg/zk/default.go): that the real Verify returns the expected   *)
(* verdict for each case, that the real challenge is the hash of exactly   *)
(* the transcribed list (kind "fs": the challenge is re-derived from the   *)
(* list and plugged into an independently implemented verification         *)
(* equation), and that Verify never panics.  Statements that hold only     *)
(* with overwhelming probability ("a perturbed proof does not verify") are *)
(* asserted on the real code only; here they are definitions.              *)
(*                                                                         *)
(* Negative control: Variant = "control" adds a fictitious system "ctl"    *)
(* with a public field that is neither hashed nor in an equation; TLC must *)
(* report NoUnboundField (and BindingSound) violated.                      *)
(***************************************************************************)
EXTENDS Integers, Sequences, FiniteSets, TLC, Json

CONSTANTS Tier,      \* "quick": star-shaped witness lattice, perturbations at the base point
                     \* "thorough": full product lattice, perturbations at base + two diagonal points
          Variant,   \* "asCoded" | "control"
          OnlySys    \* "" = all systems, else a single system name

Range(s) == {s[i] : i \in DOMAIN s}

F(x) == [w |-> x, covers |-> {x}]
W(n, r, rsp, b, h) == [name |-> n, range |-> r, resp |-> rsp, bound |-> b, huge |-> h]
E(n, fs) == [name |-> n, fields |-> fs]

\* symbolic bounds (bits): a response checked with IsInIntervalLEps must satisfy |z| < 2^768, etc.
LEps == 768                 \* l + eps
LPrimeEps == 1792           \* l' + eps
LEpsPlus1RootN == 1793      \* 1 + l + eps + |N|/2

(***************************************************************************)
(* The transcription.  Field names are Go paths: "pub." = field of Public  *)
(* (for sch: the arguments public, gen), "com."/"rsp." = field of Proof    *)
(* (commitment part / response part).  `fs` is in hashing order.           *)
(***************************************************************************)
Struct(s) ==
  CASE s = "sch" ->
    [ pub |-> <<"pub.Public", "pub.Gen">>, rel |-> {"pub.Public", "pub.Gen"},
      wit |-> <<W("X", "scalarNZ", "-", 0, FALSE)>>,
      com |-> <<"com.C.C">>, rsp |-> <<"rsp.Z.Z">>,
      fs  |-> <<F("com.C.C"), F("pub.Public"), F("pub.Gen")>>, chal |-> "scalar",
      eqs |-> {E("grp", {"rsp.Z.Z", "pub.Gen", "pub.Public", "com.C.C"})} ]
  [] s = "mod" ->
    [ pub |-> <<"pub.N">>, rel |-> {"pub.N"},
      wit |-> <<W("PQ", "key", "-", 0, FALSE)>>,
      com |-> <<"com.W">>,
      rsp |-> <<"rsp.Responses[0].A", "rsp.Responses[0].B", "rsp.Responses[0].X", "rsp.Responses[0].Z",
                "rsp.Responses[79].A", "rsp.Responses[79].B", "rsp.Responses[79].X", "rsp.Responses[79].Z">>,
      fs  |-> <<F("pub.N"), F("com.W")>>, chal |-> "modN80",
      eqs |-> {E("nthroot0", {"pub.N", "rsp.Responses[0].Z"}),
               E("fourth0", {"pub.N", "com.W", "rsp.Responses[0].A", "rsp.Responses[0].B", "rsp.Responses[0].X"}),
               E("nthroot79", {"pub.N", "rsp.Responses[79].Z"}),
               E("fourth79", {"pub.N", "com.W", "rsp.Responses[79].A", "rsp.Responses[79].B", "rsp.Responses[79].X"})} ]
  [] s = "prm" ->
    [ pub |-> <<"pub.Aux">>, rel |-> {"pub.Aux"},
      wit |-> <<W("Lambda", "key", "-", 0, FALSE)>>,
      com |-> <<"com.As[0]", "com.As[79]">>, rsp |-> <<"rsp.Zs[0]", "rsp.Zs[79]">>,
      fs  |-> <<F("pub.Aux"), [w |-> "com.As[*]", covers |-> {"com.As[0]", "com.As[79]"}]>>, chal |-> "bits80",
      eqs |-> {E("exp0", {"pub.Aux", "com.As[0]", "rsp.Zs[0]"}), E("exp79", {"pub.Aux", "com.As[79]", "rsp.Zs[79]"})} ]
  [] s = "fac" ->
    [ pub |-> <<"pub.N", "pub.Aux">>, rel |-> {"pub.N"},
      wit |-> <<W("P", "rootN", "rsp.Z1", LEpsPlus1RootN, FALSE), W("Q", "rootN", "rsp.Z2", LEpsPlus1RootN, FALSE)>>,
      com |-> <<"com.Comm.P", "com.Comm.Q", "com.Comm.A", "com.Comm.B", "com.Comm.T">>,
      rsp |-> <<"rsp.Sigma", "rsp.Z1", "rsp.Z2", "rsp.W1", "rsp.W2", "rsp.V">>,
      fs  |-> <<F("pub.N"), F("pub.Aux"), F("com.Comm.P"), F("com.Comm.Q"), F("com.Comm.A"), F("com.Comm.B"), F("com.Comm.T")>>,
      chal |-> "intL",
      eqs |-> {E("ped1", {"pub.Aux", "rsp.Z1", "rsp.W1", "com.Comm.A", "com.Comm.P"}),
               E("ped2", {"pub.Aux", "rsp.Z2", "rsp.W2", "com.Comm.B", "com.Comm.Q"}),
               E("prod", {"pub.Aux", "pub.N", "rsp.Sigma", "com.Comm.Q", "rsp.Z1", "rsp.V", "com.Comm.T"})} ]
  [] s = "enc" ->
    [ pub |-> <<"pub.K", "pub.Prover", "pub.Aux">>, rel |-> {"pub.K", "pub.Prover"},
      wit |-> <<W("K", "L", "rsp.Z1", LEps, FALSE)>>,
      com |-> <<"com.S", "com.A", "com.C">>, rsp |-> <<"rsp.Z1", "rsp.Z2", "rsp.Z3">>,
      fs  |-> <<F("pub.Aux"), F("pub.Prover"), F("pub.K"), F("com.S"), F("com.A"), F("com.C")>>, chal |-> "intScalar",
      eqs |-> {E("ped", {"pub.Aux", "rsp.Z1", "rsp.Z3", "com.C", "com.S"}),
               E("pai", {"pub.Prover", "rsp.Z1", "rsp.Z2", "pub.K", "com.A"})} ]
  [] s = "encelg" ->
    [ pub |-> <<"pub.C", "pub.A", "pub.B", "pub.X", "pub.Prover", "pub.Aux">>,
      rel |-> {"pub.C", "pub.A", "pub.B", "pub.X", "pub.Prover"},
      wit |-> <<W("X", "L", "rsp.Z1", LEps, FALSE), W("A", "scalar", "-", 0, FALSE), W("B", "scalar", "-", 0, FALSE)>>,
      com |-> <<"com.S", "com.D", "com.Y", "com.Z", "com.T">>, rsp |-> <<"rsp.Z1", "rsp.W", "rsp.Z2", "rsp.Z3">>,
      fs  |-> <<F("pub.Aux"), F("pub.Prover"), F("pub.C"), F("pub.A"), F("pub.B"), F("pub.X"),
                F("com.S"), F("com.D"), F("com.Y"), F("com.Z"), F("com.T")>>, chal |-> "intScalar",
      eqs |-> {E("pai", {"pub.Prover", "rsp.Z1", "rsp.Z2", "pub.C", "com.D"}),
               E("grpY", {"rsp.Z1", "rsp.W", "pub.A", "pub.X", "com.Y"}),
               E("grpZ", {"rsp.W", "pub.B", "com.Z"}),
               E("ped", {"pub.Aux", "rsp.Z1", "rsp.Z3", "com.T", "com.S"})} ]
  [] s = "affg" ->
    [ pub |-> <<"pub.Kv", "pub.Dv", "pub.Fp", "pub.Xp", "pub.Prover", "pub.Verifier", "pub.Aux">>,
      rel |-> {"pub.Kv", "pub.Dv", "pub.Fp", "pub.Xp", "pub.Prover", "pub.Verifier"},
      wit |-> <<W("X", "L", "rsp.Z1", LEps, FALSE), W("Y", "LPrime", "rsp.Z2", LPrimeEps, FALSE)>>,
      com |-> <<"com.A", "com.Bx", "com.By", "com.E", "com.S", "com.F", "com.T">>,
      rsp |-> <<"rsp.Z1", "rsp.Z2", "rsp.Z3", "rsp.Z4", "rsp.W", "rsp.Wy">>,
      fs  |-> <<F("pub.Aux"), F("pub.Prover"), F("pub.Verifier"), F("pub.Kv"), F("pub.Dv"), F("pub.Fp"), F("pub.Xp"),
                F("com.A"), F("com.Bx"), F("com.By"), F("com.E"), F("com.S"), F("com.F"), F("com.T")>>, chal |-> "intScalar",
      eqs |-> {E("ped1", {"pub.Aux", "rsp.Z1", "rsp.Z3", "com.E", "com.S"}),
               E("ped2", {"pub.Aux", "rsp.Z2", "rsp.Z4", "com.F", "com.T"}),
               E("paiV", {"pub.Verifier", "pub.Kv", "rsp.Z1", "rsp.Z2", "rsp.W", "pub.Dv", "com.A"}),
               E("grp", {"rsp.Z1", "pub.Xp", "com.Bx"}),
               E("paiP", {"pub.Prover", "rsp.Z2", "rsp.Wy", "pub.Fp", "com.By"})} ]
  [] s = "affp" ->
    [ pub |-> <<"pub.Kv", "pub.Dv", "pub.Fp", "pub.Xp", "pub.Prover", "pub.Verifier", "pub.Aux">>,
      rel |-> {"pub.Kv", "pub.Dv", "pub.Fp", "pub.Xp", "pub.Prover", "pub.Verifier"},
      wit |-> <<W("X", "L", "rsp.Z1", LEps, FALSE), W("Y", "LPrime", "rsp.Z2", LPrimeEps, FALSE)>>,
      com |-> <<"com.A", "com.Bx", "com.By", "com.E", "com.S", "com.F", "com.T">>,
      rsp |-> <<"rsp.Z1", "rsp.Z2", "rsp.Z3", "rsp.Z4", "rsp.W", "rsp.Wx", "rsp.Wy">>,
      fs  |-> <<F("pub.Aux"), F("pub.Prover"), F("pub.Verifier"), F("pub.Kv"), F("pub.Dv"), F("pub.Fp"), F("pub.Xp"),
                F("com.A"), F("com.Bx"), F("com.By"), F("com.E"), F("com.S"), F("com.F"), F("com.T")>>, chal |-> "intScalar",
      eqs |-> {E("paiV", {"pub.Verifier", "pub.Kv", "rsp.Z1", "rsp.Z2", "rsp.W", "pub.Dv", "com.A"}),
               E("paiX", {"pub.Prover", "rsp.Z1", "rsp.Wx", "pub.Xp", "com.Bx"}),
               E("paiY", {"pub.Prover", "rsp.Z2", "rsp.Wy", "pub.Fp", "com.By"}),
               E("ped1", {"pub.Aux", "rsp.Z1", "rsp.Z3", "com.E", "com.S"}),
               E("ped2", {"pub.Aux", "rsp.Z2", "rsp.Z4", "com.F", "com.T"})} ]
  [] s = "logstar" ->
    [ pub |-> <<"pub.C", "pub.X", "pub.G", "pub.Prover", "pub.Aux">>,
      rel |-> {"pub.C", "pub.X", "pub.G", "pub.Prover"},
      wit |-> <<W("X", "L", "rsp.Z1", LEps, FALSE)>>,
      com |-> <<"com.S", "com.A", "com.Y", "com.D">>, rsp |-> <<"rsp.Z1", "rsp.Z2", "rsp.Z3">>,
      fs  |-> <<F("pub.Aux"), F("pub.Prover"), F("pub.C"), F("pub.X"), F("pub.G"),
                F("com.S"), F("com.A"), F("com.Y"), F("com.D")>>, chal |-> "intScalar",
      eqs |-> {E("ped", {"pub.Aux", "rsp.Z1", "rsp.Z3", "com.D", "com.S"}),
               E("pai", {"pub.Prover", "rsp.Z1", "rsp.Z2", "pub.C", "com.A"}),
               E("grp", {"rsp.Z1", "pub.G", "pub.X", "com.Y"})} ]
  [] s = "elog" ->
    [ pub |-> <<"pub.E.L", "pub.E.M", "pub.ElGamalPublic", "pub.Base", "pub.Y">>,
      rel |-> {"pub.E.L", "pub.E.M", "pub.ElGamalPublic", "pub.Base", "pub.Y"},
      wit |-> <<W("Y", "scalar", "-", 0, FALSE), W("Lambda", "scalar", "-", 0, FALSE)>>,
      com |-> <<"com.A", "com.N", "com.B">>, rsp |-> <<"rsp.Z", "rsp.U">>,
      fs  |-> <<[w |-> "pub.E", covers |-> {"pub.E.L", "pub.E.M"}], F("pub.ElGamalPublic"), F("pub.Y"), F("pub.Base"),
                F("com.A"), F("com.N"), F("com.B")>>, chal |-> "scalar",
      eqs |-> {E("grpL", {"rsp.Z", "pub.E.L", "com.A"}),
               E("grpM", {"rsp.U", "rsp.Z", "pub.ElGamalPublic", "pub.E.M", "com.N"}),
               E("grpY", {"rsp.U", "pub.Base", "pub.Y", "com.B"})} ]
  [] s = "log" ->
    [ pub |-> <<"pub.H", "pub.X", "pub.Y">>, rel |-> {"pub.H", "pub.X", "pub.Y"},
      wit |-> <<W("A", "scalar", "-", 0, FALSE), W("B", "scalarNZ", "-", 0, FALSE)>>,
      com |-> <<"com.A", "com.B", "com.C">>, rsp |-> <<"rsp.Z1", "rsp.Z2">>,
      fs  |-> <<F("pub.H"), F("pub.X"), F("pub.Y"), F("com.A"), F("com.B"), F("com.C")>>, chal |-> "scalar",
      eqs |-> {E("grpX", {"rsp.Z1", "pub.X", "com.A"}),
               E("grpY", {"rsp.Z1", "pub.H", "pub.Y", "com.B"}),
               E("grpH", {"rsp.Z2", "pub.H", "com.C"})} ]
  [] s = "nth" ->
    [ pub |-> <<"pub.N", "pub.R">>, rel |-> {"pub.N", "pub.R"},
      wit |-> <<W("Rho", "unitN", "-", 0, FALSE)>>,
      com |-> <<"com.A">>, rsp |-> <<"rsp.Z">>,
      fs  |-> <<F("pub.N"), F("pub.R"), F("com.A")>>, chal |-> "intL",
      eqs |-> {E("nth", {"pub.N", "rsp.Z", "pub.R", "com.A"})} ]
  [] s = "dec" ->
    \* as in the paper, the verifier of dec performs NO range check
    [ pub |-> <<"pub.C", "pub.X", "pub.Prover", "pub.Aux">>, rel |-> {"pub.C", "pub.X", "pub.Prover"},
      wit |-> <<W("Y", "L", "-", 0, TRUE)>>,
      com |-> <<"com.S", "com.T", "com.A", "com.Gamma">>, rsp |-> <<"rsp.Z1", "rsp.Z2", "rsp.W">>,
      fs  |-> <<F("pub.Aux"), F("pub.Prover"), F("pub.C"), F("pub.X"),
                F("com.S"), F("com.T"), F("com.A"), F("com.Gamma")>>, chal |-> "intScalar",
      eqs |-> {E("ped", {"pub.Aux", "rsp.Z1", "rsp.Z2", "com.T", "com.S"}),
               E("pai", {"pub.Prover", "rsp.Z1", "rsp.W", "pub.C", "com.A"}),
               E("modq", {"rsp.Z1", "pub.X", "com.Gamma"})} ]
  [] s = "mul" ->
    \* as in the paper, the verifier of mul performs NO range check
    [ pub |-> <<"pub.X", "pub.Y", "pub.C", "pub.Prover">>, rel |-> {"pub.X", "pub.Y", "pub.C", "pub.Prover"},
      wit |-> <<W("X", "L", "-", 0, TRUE)>>,
      com |-> <<"com.A", "com.B">>, rsp |-> <<"rsp.Z", "rsp.U", "rsp.V">>,
      fs  |-> <<F("pub.Prover"), F("pub.X"), F("pub.Y"), F("pub.C"), F("com.A"), F("com.B")>>, chal |-> "intScalar",
      eqs |-> {E("paiC", {"pub.Prover", "pub.Y", "rsp.Z", "rsp.U", "pub.C", "com.A"}),
               E("paiX", {"pub.Prover", "rsp.Z", "rsp.V", "pub.X", "com.B"})} ]
  [] s = "mulstar" ->
    [ pub |-> <<"pub.C", "pub.D", "pub.X", "pub.Verifier", "pub.Aux">>,
      rel |-> {"pub.C", "pub.D", "pub.X", "pub.Verifier"},
      wit |-> <<W("X", "L", "rsp.Z1", LEps, FALSE)>>,
      com |-> <<"com.A", "com.Bx", "com.E", "com.S">>, rsp |-> <<"rsp.Z1", "rsp.Z2", "rsp.W">>,
      fs  |-> <<F("pub.Aux"), F("pub.Verifier"), F("pub.C"), F("pub.D"), F("pub.X"),
                F("com.A"), F("com.Bx"), F("com.E"), F("com.S")>>, chal |-> "intScalar",
      eqs |-> {E("ped", {"pub.Aux", "rsp.Z1", "rsp.Z2", "com.E", "com.S"}),
               E("pai", {"pub.Verifier", "pub.C", "rsp.Z1", "rsp.W", "pub.D", "com.A"}),
               E("grp", {"rsp.Z1", "pub.X", "com.Bx"})} ]
  [] s = "ctl" ->
    \* negative control: pub.Forgotten is neither hashed nor mentioned by an equation
    [ pub |-> <<"pub.X", "pub.Forgotten">>, rel |-> {"pub.X"},
      wit |-> <<W("X", "scalar", "-", 0, FALSE)>>,
      com |-> <<"com.A">>, rsp |-> <<"rsp.Z">>,
      fs  |-> <<F("pub.X"), F("com.A")>>, chal |-> "scalar",
      eqs |-> {E("grp", {"rsp.Z", "pub.X", "com.A"})} ]

RealSystems == {"sch", "mod", "prm", "fac", "enc", "encelg", "affg", "affp", "logstar", "elog", "log", "nth",
                "dec", "mul", "mulstar"}
Systems == IF OnlySys # "" THEN {OnlySys} ELSE RealSystems \cup (IF Variant = "control" THEN {"ctl"} ELSE {})

(***************************************************************************)
(* Design facts on the transcription                                       *)
(***************************************************************************)
Pub(s) == Range(Struct(s).pub)
Com(s) == Range(Struct(s).com)
Rsp(s) == Range(Struct(s).rsp)
FsCovered(s) == UNION {Struct(s).fs[i].covers : i \in DOMAIN Struct(s).fs}
EqCovered(s) == UNION {e.fields : e \in Struct(s).eqs}
RangeChecked(s) == {Struct(s).wit[i].resp : i \in DOMAIN Struct(s).wit} \ {"-"}

NoUnboundField == \A s \in Systems : \A f \in Pub(s) \cup Com(s) : f \in FsCovered(s) \/ f \in EqCovered(s)
AllHashed      == \A s \in Systems \ {"ctl"} : Pub(s) \cup Com(s) \subseteq FsCovered(s)
RespInEq       == \A s \in Systems : Rsp(s) \subseteq EqCovered(s)
RelInEq        == \A s \in Systems : Struct(s).rel \subseteq EqCovered(s)
WellFormed     == \A s \in Systems :
                    /\ FsCovered(s) \subseteq Pub(s) \cup Com(s)          \* responses are never hashed
                    /\ EqCovered(s) \subseteq Pub(s) \cup Com(s) \cup Rsp(s)
                    /\ Struct(s).rel \subseteq Pub(s)
                    /\ RangeChecked(s) \subseteq Rsp(s)
                    /\ Pub(s) \cap Com(s) = {} /\ Com(s) \cap Rsp(s) = {}
                    /\ Struct(s).chal \in {"scalar", "intScalar", "intL", "modN80", "bits80"}

(***************************************************************************)
(* The witness lattice                                                     *)
(***************************************************************************)
IntPts == {"zero", "p1", "m1", "pmax", "mmax", "pmax1", "mmax1", "rand"}  \* 0, +-1, +-2^l, +-(2^l - 1), random
InPts(r) == CASE r \in {"L", "LPrime"} -> IntPts
              [] r = "scalar"   -> {"zero", "p1", "m1", "rand"}             \* 0, 1, q-1, random
              [] r = "scalarNZ" -> {"p1", "m1", "rand"}
              [] r = "unitN"    -> {"p1", "m1", "two", "rand"}              \* 1, N-1, 2, random unit
              [] OTHER          -> {"key"}                                  \* the fixed factorisations
BasePt(r) == IF r \in {"key", "rootN"} THEN "key" ELSE "rand"
OorPts(w) == IF w.resp = "-" THEN {} ELSE IF w.range = "rootN" THEN {"oorp"} ELSE {"oorp", "oorm"}  \* +-2^(bound+1)
HugePts(w) == IF w.huge THEN {"huge"} ELSE {}                               \* 2^1800: z leaves the Paillier plaintext space
DiagPt(r, which) == IF which \in InPts(r) THEN which
                    ELSE IF r \in {"key", "rootN"} THEN "key"
                    ELSE IF which = "zero" THEN "p1"
                    ELSE IF r = "unitN" THEN "two" ELSE "m1"
\* Points at which the response does not depend on the challenge at all (z = alpha + e*0, z = alpha * 1^e).  A system
\* whose witnesses are ALL at such a point proves a trivial statement (identity points, R = 1) and its proof is the
\* same whatever the challenge: it is context-free by the nature of sigma protocols, not by a defect of the code.
\* Integer witnesses are never degenerate here: the nonce response r*rho^e still depends on e.
DegPts(r) == CASE r \in {"scalar", "scalarNZ"} -> {"zero"} [] r = "unitN" -> {"p1"} [] OTHER -> {}

Wit(s) == Struct(s).wit
Asgs(s) == {a \in [DOMAIN Wit(s) -> IntPts \cup {"two", "key"}] : \A i \in DOMAIN a : a[i] \in InPts(Wit(s)[i].range)}
BaseAsg(s) == [i \in DOMAIN Wit(s) |-> BasePt(Wit(s)[i].range)]
Star(s) == {a \in Asgs(s) : Cardinality({i \in DOMAIN a : a[i] # BaseAsg(s)[i]}) <= 1}
Diag(s, which) == [i \in DOMAIN Wit(s) |-> DiagPt(Wit(s)[i].range, which)]
InRangeAsgs(s) == IF Tier = "quick" THEN Star(s) ELSE Asgs(s)
OutAsgs(s) == UNION {{[BaseAsg(s) EXCEPT ![i] = p] : p \in OorPts(Wit(s)[i]) \cup HugePts(Wit(s)[i])} : i \in DOMAIN Wit(s)}
PertAsgs(s) == {BaseAsg(s)} \cup (IF Tier = "quick" THEN {} ELSE {Diag(s, "zero"), Diag(s, "pmax")})
AllAsgs(s) == InRangeAsgs(s) \cup OutAsgs(s) \cup PertAsgs(s)

InRange(s, a) == \A i \in DOMAIN a : a[i] \in InPts(Wit(s)[i].range)
Degenerate(s, a) == \A i \in DOMAIN a : a[i] \in DegPts(Wit(s)[i].range)

(***************************************************************************)
(* Perturbations                                                           *)
(***************************************************************************)
P(k, f, g) == [kind |-> k, field |-> f, arg |-> g]
NoPert == P("none", "-", "-")
Perts(s, a) ==
  {NoPert} \cup
  (IF a \in PertAsgs(s) /\ InRange(s, a) THEN
        {P("pub", f, "-") : f \in Pub(s)}                        \* public input <- the one of another valid statement
   \cup {P("ctx", c, "-") : c \in {"party", "session", "extra"}} \* other prover id / other session / one more transcript item
   \cup {P("com", f, "-") : f \in Com(s)}                        \* commitment <- the one of another valid proof
   \cup {P("rsp", f, "-") : f \in Rsp(s)}                        \* response <- the one of another valid proof
   \cup {P("oors", f, g) : f \in RangeChecked(s), g \in {"p", "m"}}  \* response <- +-2^bound, set directly
   \* a commitment / response that is a residue modulo a public modulus M (N or N^2 of one of the keys in the statement)
   \* <- the same value plus M: the same residue, so every verification equation still holds; only the validity check
   \* "0 < x < M" of the verifier stands against it (for a value of any other kind the case does not apply)
   \cup {P("modshift", f, g) : f \in Com(s) \cup Rsp(s), g \in {"n", "n2"}}
   ELSE {}) \cup
  (IF a = BaseAsg(s) THEN
        {P("pubpre", f, "-") : f \in Pub(s)}   \* a cheating prover: the statement is altered BEFORE proving with the true witness
   \cup {P("fs", "-", "-")}                    \* conformance of the real challenge with the transcribed hash list
   ELSE {})

(***************************************************************************)
(* The abstract verifier                                                   *)
(***************************************************************************)
Mechanisms(s, a, p) ==
  LET S == Struct(s)
      post == IF p.kind \in {"pub", "com", "rsp", "oors"} THEN {p.field} ELSE {}
      falsified == IF p.kind = "pubpre" /\ p.field \in S.rel THEN {p.field} ELSE {}
      rangeBad == (\E i \in DOMAIN S.wit : a[i] \in OorPts(S.wit[i])) \/ p.kind = "oors"
      chalBad == (p.kind = "ctx" \/ post \cap FsCovered(s) # {}) /\ ~Degenerate(s, a)
  IN  (IF rangeBad THEN {"range"} ELSE {}) \cup (IF chalBad THEN {"challenge"} ELSE {})
      \cup (IF p.kind = "modshift" THEN {"validity"} ELSE {})
      \cup {e.name : e \in {e \in S.eqs : e.fields \cap (post \cup falsified) # {}}}

Verdict(s, a, p) ==
  IF p.kind = "fs" THEN "match"
  ELSE IF \E i \in DOMAIN a : a[i] = "huge" THEN "any"      \* must not panic; the verdict itself is not prescribed
  ELSE IF Mechanisms(s, a, p) = {} THEN "accept" ELSE "reject"

(***************************************************************************)
(* Prove -> Perturb -> Verify                                              *)
(***************************************************************************)
VARIABLES phase, sys, wit, pert, verdict
vars == <<phase, sys, wit, pert, verdict>>

Init == phase = "idle" /\ sys = "-" /\ wit = <<>> /\ pert = NoPert /\ verdict = "-"

Prove == /\ phase = "idle"
         /\ \E s \in Systems : \E a \in AllAsgs(s) : sys' = s /\ wit' = a
         /\ phase' = "proved" /\ UNCHANGED <<pert, verdict>>

Perturb == /\ phase = "proved"
           /\ \E p \in Perts(sys, wit) : pert' = p
           /\ phase' = "perturbed" /\ UNCHANGED <<sys, wit, verdict>>

Verify == /\ phase = "perturbed"
          /\ verdict' = Verdict(sys, wit, pert)
          /\ phase' = "verified" /\ UNCHANGED <<sys, wit, pert>>

Next == Prove \/ Perturb \/ Verify
Spec == Init /\ [][Next]_vars

(***************************************************************************)
(* The property on the abstract verifier                                   *)
(***************************************************************************)
BindingSound ==
  (phase = "verified" /\ verdict = "accept") =>
      /\ InRange(sys, wit)
      /\ \/ pert.kind = "none"
         \/ pert.kind = "pubpre" /\ pert.field \notin Struct(sys).rel   \* an honest proof under other auxiliary parameters
         \/ pert.kind = "ctx" /\ Degenerate(sys, wit)                   \* trivial statement: the proof is context-free

CompleteOnDomain ==
  (phase = "verified" /\ pert.kind = "none" /\ InRange(sys, wit)) => verdict = "accept"

OutOfRangeRejected ==
  (phase = "verified" /\ (\E i \in DOMAIN wit : wit[i] \in {"oorp", "oorm"})) => verdict = "reject"

(***************************************************************************)
(* Export                                                                  *)
(***************************************************************************)
Row == [sys |-> sys,
        wit |-> [i \in DOMAIN wit |-> [name |-> Wit(sys)[i].name, range |-> Wit(sys)[i].range, point |-> wit[i],
                                        bound |-> Wit(sys)[i].bound]],
        kind |-> pert.kind, field |-> pert.field, arg |-> pert.arg,
        bound |-> IF pert.kind = "oors"
                  THEN (CHOOSE w \in Range(Wit(sys)) : w.resp = pert.field).bound ELSE 0,
        expect |-> verdict, by |-> Mechanisms(sys, wit, pert)]

EmitCase == IF phase = "verified" THEN PrintT(<<"CASE", ToJson(Row)>>) ELSE TRUE

StructRow(s) == [sys |-> s, pub |-> Struct(s).pub, rel |-> Struct(s).rel, com |-> Struct(s).com, rsp |-> Struct(s).rsp,
                 fs |-> [i \in DOMAIN Struct(s).fs |-> Struct(s).fs[i].w], chal |-> Struct(s).chal,
                 eqs |-> Struct(s).eqs]
EmitStruct == IF phase = "idle" THEN \A s \in Systems : PrintT(<<"STRUCT", ToJson(StructRow(s))>>) ELSE TRUE
=============================================================================
