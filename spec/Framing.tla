------------------------------- MODULE Framing -------------------------------
(***************************************************************************)
(* C19 - transcript framing of pkg/hash (hash.go, WriteAny).               *)
(*                                                                         *)
(* The transcript hash absorbs                                             *)
(*    "CMP-BLAKE" || Frame(item_1) || Frame(item_2) || ...                 *)
(*    Frame(dom,data) = "(" || u64be(|dom|) || dom || u64be(|data|) || data || ")" *)
(* where every supported Go type is first reduced to a pair (domain tag,   *)
(* data bytes): []byte -> ("[]byte", b); *big.Int -> ("big.Int", GobEncode *)
(* = version/sign byte 0x02 (0x03 if negative) || magnitude); a            *)
(* WriterToWithDomain -> (Domain(), bytes written by WriteTo); a           *)
(* BinaryMarshaler -> (reflect type name, MarshalBinary()).                *)
(*                                                                         *)
(* Bytes are integers 0..255, byte strings are sequences of them.          *)
(*                                                                         *)
(* WHAT TLC DECIDES (on the model, exhaustively within the bound):         *)
(*  - RoundTrip: a deterministic parser is a LEFT INVERSE of Encode on     *)
(*    every item sequence reachable within the bound and on every          *)
(*    adversarial relative of it, hence Encode is injective on (domain,    *)
(*    data) sequences there;                                               *)
(*  - AllPairs: directly, |Encode[S]| = |S| for the set S of all sequences *)
(*    of fewer than PairBelow items (does not rely on the parser);              *)
(*  - Injective: for every base sequence and every named adversarial       *)
(*    relation (byte shifted between adjacent items, between domain tag    *)
(*    and data, items merged / split, type swapped with equal bytes,       *)
(*    permuted, the classic splice that embeds the separator bytes into    *)
(*    the data, the length-in-domain shift, nesting vs. flat, added empty  *)
(*    item) the two sequences encode differently unless they are the same  *)
(*    (domain,data) sequence;                                              *)
(*  - with Variant # "full" (negative controls: "nolen", "datalen",        *)
(*    "domlen", "nodomain") TLC must REJECT Injective.                     *)
(* WHAT ONLY THE CONFORMANCE RUN DECIDES: that the Go code frames exactly  *)
(* like Encode.  TLC prints (items, exact framed bytes) vectors (VEC) and  *)
(* adversarial pairs (PAIR); cmd/framedrv feeds the same typed values to   *)
(* the real hash.New().WriteAny and compares Sum() with blake3(bytes).     *)
(* That BLAKE3 itself is collision resistant is an assumption.             *)
(***************************************************************************)
EXTENDS Integers, Sequences, FiniteSets, TLC, Json

CONSTANTS
    Variant,    \* "full" (the code) or a deliberately wrong framing (negative control)
    Alphabet,   \* data byte values used to build items
    MaxItems,   \* bound on the number of items of a base sequence
    MaxData,    \* bound on the data length of a base item
    PairBelow,  \* AllPairs is evaluated over all sequences of < PairBelow items (0: skip)
    EmitBelow   \* VEC/PAIR lines are printed for base sequences of < EmitBelow items (0: none)

VARIABLE seq

LW == 8                                   \* width of a length prefix (uint64 big endian)
LP == 40                                  \* "("
RP == 41                                  \* ")"
PREFIX   == <<67,77,80,45,66,76,65,75,69>>                       \* "CMP-BLAKE"
DomBytes == <<91,93,98,121,116,101>>                             \* "[]byte"
DomBig   == <<98,105,103,46,73,110,116>>                         \* "big.Int"
DomID    == <<73,68>>                                            \* "ID"            (party.ID)
DomNat   == <<42,115,97,102,101,114,105,116,104,46,78,97,116>>   \* "*saferith.Nat" (BinaryMarshaler, reflect name)
WDomains == { <<73>>, <<73,68,68>> }                             \* "I", "IDD": hash.BytesWithDomain; "I" < "ID" < "IDD"

FixedTypes == {"bytes", "big", "id", "nat"}
TypeDom(t) == CASE t = "bytes" -> DomBytes [] t = "big" -> DomBig [] t = "id" -> DomID [] t = "nat" -> DomNat

\* domain tags of the remaining real types (used by the driver for the rich-type run; printed as DOMAINS)
RichDomains == [
    bytes      |-> DomBytes, big |-> DomBig, id |-> DomID, nat |-> DomNat,
    int        |-> <<42,115,97,102,101,114,105,116,104,46,73,110,116>>,                                 \* "*saferith.Int"
    modulus    |-> <<42,115,97,102,101,114,105,116,104,46,77,111,100,117,108,117,115>>,                 \* "*saferith.Modulus"
    scalar     |-> <<42,99,117,114,118,101,46,83,101,99,112,50,53,54,107,49,83,99,97,108,97,114>>,      \* "*curve.Secp256k1Scalar"
    point      |-> <<42,99,117,114,118,101,46,83,101,99,112,50,53,54,107,49,80,111,105,110,116>>,       \* "*curve.Secp256k1Point"
    idslice    |-> <<73,68,83,108,105,99,101>>,                                                        \* "IDSlice"
    rid        |-> <<82,73,68>>,                                                                       \* "RID"
    threshold  |-> <<84,104,114,101,115,104,111,108,100>>,                                             \* "Threshold"
    round      |-> <<82,111,117,110,100,32,78,117,109,98,101,114>>,                                    \* "Round Number"
    ciphertext |-> <<80,97,105,108,108,105,101,114,32,67,105,112,104,101,114,116,101,120,116>>,        \* "Paillier Ciphertext"
    exponent   |-> <<69,120,112,111,110,101,110,116>>,                                                 \* "Exponent"
    commitment |-> <<67,111,109,109,105,116,109,101,110,116>>,                                         \* "Commitment"
    decommitment |-> <<68,101,99,111,109,109,105,116,109,101,110,116>>,                                \* "Decommitment"
    \* composite writers: several components written one after the other under one tag
    elgamal    |-> <<69,108,71,97,109,97,108,32,67,105,112,104,101,114,116,101,120,116>>,   \* "ElGamal Ciphertext"
    schcommit  |-> <<83,99,104,110,111,114,114,32,67,111,109,109,105,116,109,101,110,116>>,   \* "Schnorr Commitment"
    paillierpk |-> <<80,97,105,108,108,105,101,114,32,80,117,98,108,105,99,75,101,121>>,   \* "Paillier PublicKey"
    pedersen   |-> <<80,101,100,101,114,115,101,110,32,80,97,114,97,109,101,116,101,114,115>>,   \* "Pedersen Parameters"
    sigmsg     |-> <<83,105,103,110,97,116,117,114,101,32,77,101,115,115,97,103,101>>,   \* "Signature Message"
    sigmsgnil  |-> <<69,109,112,116,121,32,77,101,115,115,97,103,101>>,   \* "Empty Message"
    cmppublic  |-> <<80,117,98,108,105,99,32,68,97,116,97>> ]   \* "Public Data"

ASSUME Variant \in {"full", "nolen", "datalen", "domlen", "nodomain"}
ASSUME \A a, b \in DOMAIN RichDomains : a # b => RichDomains[a] # RichDomains[b]   \* per-type tags are distinct

-----------------------------------------------------------------------------
\* items

Mk(t, d)    == [ty |-> t, dom |-> TypeDom(t), d |-> d]
Wd(dom, d)  == [ty |-> "wd", dom |-> dom, d |-> d]

\* the bytes a value hands to the framing: GobEncode of a non-negative big.Int prepends the version/sign byte 2
DataOf(it)  == IF it.ty = "big" THEN <<2>> \o it.d ELSE it.d
Sem(it)     == <<it.dom, DataOf(it)>>
SemSeq(s)   == [i \in 1..Len(s) |-> Sem(s[i])]

\* values the real types can represent / accept: big.Int magnitudes have no leading zero, party.ID is non-empty
WF(it)      == /\ (it.ty = "big" => (it.d = <<>> \/ it.d[1] # 0))
               /\ (it.ty = "id"  => it.d # <<>>)
WFSeq(s)    == \A i \in 1..Len(s) : WF(s[i])

RECURSIVE SeqsUpTo(_, _)
SeqsUpTo(S, n) == IF n = 0 THEN {<<>>} ELSE
                  LET R == SeqsUpTo(S, n - 1) IN R \cup {Append(r, x) : r \in {q \in R : Len(q) = n - 1}, x \in S}

Data  == SeqsUpTo(Alphabet, MaxData)
Items == {it \in {Mk(t, d) : t \in FixedTypes, d \in Data} \cup {Wd(w, d) : w \in WDomains, d \in Data} : WF(it)}

-----------------------------------------------------------------------------
\* framing

Len64(n) == <<0, 0, 0, 0, 0, 0, n \div 256, n % 256>>      \* every length in the model is < 65536

FrameHead(dom, data) ==      \* bytes of a frame before the data
    CASE Variant = "full"     -> <<LP>> \o Len64(Len(dom)) \o dom \o Len64(Len(data))
      [] Variant = "nolen"    -> <<LP>> \o dom
      [] Variant = "datalen"  -> <<LP>> \o dom \o Len64(Len(data))
      [] Variant = "domlen"   -> <<LP>> \o Len64(Len(dom)) \o dom
      [] Variant = "nodomain" -> <<LP>> \o Len64(Len(data))
FrameTail == <<RP>>          \* bytes of a frame after the data
Frame(dom, data) == FrameHead(dom, data) \o data \o FrameTail

RECURSIVE Cat(_)
Cat(ss) == IF ss = <<>> THEN <<>> ELSE Head(ss) \o Cat(Tail(ss))

Body(s)   == Cat([i \in 1..Len(s) |-> Frame(s[i].dom, DataOf(s[i]))])
Encode(s) == PREFIX \o Body(s)

-----------------------------------------------------------------------------
\* a parser for the "full" framing: a left inverse of Encode

Num(x) == IF \E i \in 1..(LW - 2) : x[i] # 0 THEN -1 ELSE x[LW - 1] * 256 + x[LW]
Fail   == [ok |-> FALSE, items |-> <<>>]

RECURSIVE ParseFrames(_)
ParseFrames(b) ==
    IF b = <<>> THEN [ok |-> TRUE, items |-> <<>>]
    ELSE IF Len(b) < 2 + 2 * LW \/ b[1] # LP THEN Fail
    ELSE LET n == Num(SubSeq(b, 2, 1 + LW)) IN
         IF n < 0 \/ Len(b) < 2 + 2 * LW + n THEN Fail
         ELSE LET dom == SubSeq(b, 2 + LW, 1 + LW + n)
                  m   == Num(SubSeq(b, 2 + LW + n, 1 + 2 * LW + n)) IN
              IF m < 0 \/ Len(b) < 2 + 2 * LW + n + m THEN Fail
              ELSE LET data == SubSeq(b, 2 + 2 * LW + n, 1 + 2 * LW + n + m) IN
                   IF b[2 + 2 * LW + n + m] # RP THEN Fail
                   ELSE LET rest == ParseFrames(SubSeq(b, 3 + 2 * LW + n + m, Len(b))) IN
                        IF rest.ok THEN [ok |-> TRUE, items |-> <<<<dom, data>>>> \o rest.items] ELSE Fail

Parse(b) == IF Len(b) < Len(PREFIX) \/ SubSeq(b, 1, Len(PREFIX)) # PREFIX THEN Fail
            ELSE ParseFrames(SubSeq(b, Len(PREFIX) + 1, Len(b)))

-----------------------------------------------------------------------------
\* adversarial relations: sets of records [rel, a, b] derived from a base sequence s

Repl(s, i, new)  == SubSeq(s, 1, i - 1) \o new \o SubSeq(s, i + 1, Len(s))          \* item i replaced by the items new
Repl2(s, i, new) == SubSeq(s, 1, i - 1) \o new \o SubSeq(s, i + 2, Len(s))          \* items i, i+1 replaced
WithD(it, d)     == [it EXCEPT !.d = d]
Front(d)         == SubSeq(d, 1, Len(d) - 1)
Last(d)          == d[Len(d)]
P(rel, a, b)     == [rel |-> rel, a |-> a, b |-> b]

\* one byte moves across the boundary of two adjacent items
RShift(s) ==
    {P("shift-right", s, Repl2(s, i, <<WithD(s[i], Front(s[i].d)), WithD(s[i+1], <<Last(s[i].d)>> \o s[i+1].d)>>)) :
        i \in {j \in 1..(Len(s) - 1) : s[j].d # <<>>}}
    \cup
    {P("shift-left", s, Repl2(s, i, <<WithD(s[i], Append(s[i].d, Head(s[i+1].d))), WithD(s[i+1], Tail(s[i+1].d))>>)) :
        i \in {j \in 1..(Len(s) - 1) : s[j+1].d # <<>>}}

\* one byte moves across the boundary of the domain tag and the data of one item (the result is a BytesWithDomain)
RDomShift(s) ==
    {P("dom-takes-byte", s, Repl(s, i, <<Wd(Append(s[i].dom, Head(DataOf(s[i]))), Tail(DataOf(s[i])))>>)) :
        i \in {j \in 1..Len(s) : DataOf(s[j]) # <<>>}}
    \cup
    {P("data-takes-byte", s, Repl(s, i, <<Wd(Front(s[i].dom), <<Last(s[i].dom)>> \o DataOf(s[i]))>>)) :
        i \in {j \in 1..Len(s) : s[j].dom # <<>>}}

\* two adjacent items become one (type of the first) / one item becomes two of its type
RMerge(s) == {P("merge", s, Repl2(s, i, <<WithD(s[i], s[i].d \o s[i+1].d)>>)) : i \in 1..(Len(s) - 1)}
RSplit(s) == UNION {{P("split", s, Repl(s, i, <<WithD(s[i], SubSeq(s[i].d, 1, k)), WithD(s[i], SubSeq(s[i].d, k + 1, Len(s[i].d)))>>)) :
                        k \in 0..Len(s[i].d)} : i \in 1..Len(s)}

\* another type carrying the same bytes: the same model data, or the same framed data
RSwap(s) ==
    UNION {{P("type-swap", s, Repl(s, i, <<Mk(t, s[i].d)>>)) : t \in FixedTypes \ {s[i].ty}} : i \in 1..Len(s)}
    \cup UNION {{P("type-swap", s, Repl(s, i, <<Wd(w, s[i].d)>>)) : w \in WDomains \ {s[i].dom}} : i \in 1..Len(s)}
    \cup {P("type-swap-framed", s, Repl(s, i, <<Mk("bytes", DataOf(s[i]))>>)) : i \in {j \in 1..Len(s) : s[j].ty # "bytes"}}
    \cup {P("type-swap-framed", s, Repl(s, i, <<Mk("nat", DataOf(s[i]))>>)) : i \in {j \in 1..Len(s) : s[j].ty # "nat"}}

RPerm(s) == UNION {{P("permute", s, [k \in 1..Len(s) |-> IF k = i THEN s[j] ELSE IF k = j THEN s[i] ELSE s[k]]) :
                j \in (i + 1)..Len(s)} : i \in 1..Len(s)}

\* the classic injection: one item whose data embeds the bytes that separate two adjacent items
RSplice(s) ==
    {P("splice", s, Repl2(s, i, <<Wd(s[i].dom, DataOf(s[i]) \o FrameTail \o FrameHead(s[i+1].dom, DataOf(s[i+1])) \o DataOf(s[i+1]))>>)) :
        i \in 1..(Len(s) - 1)}

\* the length of the data is smuggled into the domain tag
RLenShift(s) ==
    {P("len-in-domain",
       Repl(s, i, <<Wd(s[i].dom, Len64(Len(DataOf(s[i]))) \o DataOf(s[i]))>>),
       Repl(s, i, <<Wd(s[i].dom \o Len64(LW + Len(DataOf(s[i]))), DataOf(s[i]))>>)) : i \in 1..Len(s)}

\* a writer whose data is the framing of the whole sequence vs. the flat sequence; an added empty item
RNest(s)  == IF s = <<>> THEN {} ELSE {P("nest", s, <<Wd(<<73>>, Body(s))>>), P("nest-after-first", s, <<s[1], Wd(<<73>>, Body(Tail(s)))>>)}
REmpty(s) == {P("add-empty", s, SubSeq(s, 1, i) \o <<Mk("bytes", <<>>)>> \o SubSeq(s, i + 1, Len(s))) : i \in 0..Len(s)}

Adv(s) == {p \in RShift(s) \cup RDomShift(s) \cup RMerge(s) \cup RSplit(s) \cup RSwap(s) \cup RPerm(s)
                  \cup RSplice(s) \cup RLenShift(s) \cup RNest(s) \cup REmpty(s) : WFSeq(p.a) /\ WFSeq(p.b)}

-----------------------------------------------------------------------------
\* behaviour: build a base sequence item by item

Init == seq = <<>>
Next == /\ Len(seq) < MaxItems
        /\ \E it \in Items : seq' = Append(seq, it)
Spec == Init /\ [][Next]_seq

TypeOK == seq \in Seq(Items) /\ Len(seq) <= MaxItems

\* the property on the model
Injective == \A p \in Adv(seq) : SemSeq(p.a) # SemSeq(p.b) => Encode(p.a) # Encode(p.b)
Functional == \A p \in Adv(seq) : SemSeq(p.a) = SemSeq(p.b) => Encode(p.a) = Encode(p.b)

RoundTripOf(s) == Parse(Encode(s)) = [ok |-> TRUE, items |-> SemSeq(s)]
RoundTrip == Variant = "full" => /\ RoundTripOf(seq)
                                 /\ \A p \in Adv(seq) : RoundTripOf(p.a) /\ RoundTripOf(p.b)

\* the parser refuses every strict prefix of an encoding that is not itself an encoding boundary (frames are self-delimiting)
RECURSIVE Boundaries(_)
Boundaries(s) == IF s = <<>> THEN {Len(PREFIX)} ELSE Boundaries(Front(s)) \cup {Len(Encode(s))}
PrefixRefused == Variant = "full" =>
    LET e == Encode(seq) IN \A k \in 0..(Len(e) - 1) : Parse(SubSeq(e, 1, k)).ok <=> k \in Boundaries(seq)

AllSeqs(n) == SeqsUpTo(Items, n)
AllPairs == (seq = <<>> /\ PairBelow > 0) =>
    LET S == AllSeqs(PairBelow - 1) IN Cardinality({Encode(s) : s \in S}) = Cardinality({SemSeq(s) : s \in S})

-----------------------------------------------------------------------------
\* emission of byte-exact vectors for the conformance run

JItem(it) == [ty |-> it.ty, dom |-> it.dom, d |-> it.d]
JSeq(s)   == [i \in 1..Len(s) |-> JItem(s[i])]
Emit == IF Len(seq) >= EmitBelow THEN TRUE
        ELSE /\ PrintT(<<"VEC", ToJson([items |-> JSeq(seq), bytes |-> Encode(seq)])>>)
             /\ \A p \in Adv(seq) :
                    PrintT(<<"PAIR", ToJson([rel |-> p.rel, a |-> JSeq(p.a), b |-> JSeq(p.b),
                                            same |-> (SemSeq(p.a) = SemSeq(p.b)),
                                            ea |-> Encode(p.a), eb |-> Encode(p.b)])>>)
EmitDomains == seq = <<>> => PrintT(<<"DOMAINS", ToJson(RichDomains)>>)
=============================================================================
