CONSTANTS
  P = {"a", "b", "c"}
  Honest = {"a"}
  F = "a"
  R = 3
  ShapeB = {2, 3}
  ShapeM = {3}
  ViewDep = {3}
  Variants = {"h"}
  MaxInject = 0
  MaxDup = 0
  MaxForeign = 0
  EchoFirst = TRUE
  KindFlip = FALSE
  StopAllowed = FALSE
  Emit = TRUE
SPECIFICATION LSpec
INVARIANTS LNeverAborts LDoneWhenAll LNoEarlyDone EmitHist
PROPERTIES LProgress
CHECK_DEADLOCK FALSE
