------------------------------- MODULE Shamir -------------------------------
(***************************************************************************)
(* Exact threshold-sharing arithmetic over the prime field GF(Q), with the *)
(* group modelled as (Z_Q, +) and generator 1 (so "s*G" is s itself and a  *)
(* public share IS the share - every linear relation the protocols rely   *)
(* on is preserved).  Party identifiers are distinct non-zero field points.*)
(* Lagrange coefficients are computed as the library does                  *)
(* (pkg/math/polynomial/lagrange.go): l_j = prod_{i#j} x_i / (x_i - x_j).  *)
(***************************************************************************)
EXTENDS Integers, Sequences, FiniteSets

CONSTANT Q          \* a small prime

F == 0..(Q-1)
Fadd(a, b) == (a + b) % Q
Fsub(a, b) == (a - b + Q) % Q
Fmul(a, b) == (a * b) % Q
Fneg(a) == (Q - a) % Q
Finv(a) == CHOOSE x \in 1..(Q-1) : (a * x) % Q = 1

RECURSIVE Pow(_, _)
Pow(x, k) == IF k = 0 THEN 1 ELSE Fmul(x, Pow(x, k - 1))

\* a polynomial is a sequence of coefficients <<c0, c1, ..., ct>>
RECURSIVE EvalFrom(_, _, _)
EvalFrom(p, x, k) == IF k > Len(p) THEN 0 ELSE Fadd(Fmul(p[k], Pow(x, k - 1)), EvalFrom(p, x, k + 1))
Eval(p, x) == EvalFrom(p, x, 1)

\* sums / products of a function g over a finite subset S of its domain
RECURSIVE SumF(_, _)
SumF(S, g) == IF S = {} THEN 0 ELSE LET x == CHOOSE y \in S : TRUE IN Fadd(g[x], SumF(S \ {x}, g))
RECURSIVE ProdF(_, _)
ProdF(S, g) == IF S = {} THEN 1 ELSE LET x == CHOOSE y \in S : TRUE IN Fmul(g[x], ProdF(S \ {x}, g))

\* Lagrange coefficient at 0 for point xj among the points XS
Lagrange(XS, xj) ==
  LET O == XS \ {xj}
  IN Fmul(ProdF(O, [x \in O |-> x]), Finv(ProdF(O, [x \in O |-> Fsub(x, xj)])))

\* interpolation at 0 of the values val[x], x \in XS
Interp0(XS, val) == SumF(XS, [x \in XS |-> Fmul(Lagrange(XS, x), val[x])])

\* all polynomials of degree at most t (t+1 coefficients) / exactly the zero-constant ones
PolysUpTo(t) == [1..(t+1) -> F]
ZeroConst(t) == {p \in PolysUpTo(t) : p[1] = 0}
=============================================================================
