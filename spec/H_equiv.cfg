CONSTANTS
  P = {"a", "b", "c"}
  Honest = {"a", "b"}
  R = 3
  ShapeB = {2, 3}
  ShapeM = {}
  ViewDep = {3}
  Variants = {"h", "e1", "e2"}
  MaxInject = 4
  MaxDup = 0
  MaxForeign = 0
  EchoFirst = TRUE
  KindFlip = FALSE
  StopAllowed = FALSE
INIT Init
NEXT Next
INVARIANTS TypeOK BlameSound EchoNamesNobody NoticeBlame NoSplit NoBadAccepted
PROPERTIES ResultStable
CHECK_DEADLOCK FALSE
