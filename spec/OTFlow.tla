------------------------------- MODULE OTFlow -------------------------------
(***************************************************************************)
(* C13 - the message flows of /repo/internal/ot as a state machine with an  *)
(* adversary that alters ONE field of ONE message of ONE run, and the       *)
(* outcome every run must have.  TLC explores every case of the lattice     *)
(*   layer x scalar pair x choice pattern x (runs n over one setup, with    *)
(*   distinct nonces) x tampered run tr x (message, field, index class,     *)
(*   alteration kind)                                                       *)
(* checks the invariants below on the model and PRINTS each case with the   *)
(* outcome the model derives for each of its runs; cmd/otdrv replays every  *)
(* printed case on the real code at real size.                              *)
(*                                                                          *)
(* Flows (names as in the code):                                            *)
(*  "mul"   multiply.go / additive.go / extended.go                         *)
(*      M1 = MultiplyReceiver.Round1()           R -> S                     *)
(*           fields  Msg.Msg.CorreMsg.U[i] (i < 128, []byte), Msg.Msg.X     *)
(*                   ([16]byte), Msg.Msg.T ([4]uint64)                      *)
(*           checked by MultiplySender.Round1: length of every U[i]         *)
(*           (CorreOTSend), then the GF(2)[x] consistency check             *)
(*           (ExtendedOTSend)                                               *)
(*      M2 = MultiplySender.Round1(M1)           S -> R                     *)
(*           fields  Msg.CombinedPads[i][0..1] ([]byte), the list           *)
(*                   CombinedPads itself, RCheck[i], the list RCheck, UCheck*)
(*           checked by MultiplyReceiver.Round2: pads are masked by the     *)
(*           choice bit and decoded (AdditiveOTReceiver.Round2), then the   *)
(*           integrity check per index                                      *)
(*              result_i . chi = c_i * UCheck - RCheck_i                    *)
(*           and share = sum result_i[0] * gadget_i                         *)
(*  "rot"   random.go, driven directly;  "setup": the same flow inside      *)
(*          CorreOTSetup at one batch index (roles named after the random   *)
(*          OT: S holds b, R holds the choice bit)                          *)
(*      M0 = (B, BProof.C, BProof.Z)  S -> R   ("setup" only) Schnorr proof *)
(*      A  = ABytes                   R -> S                                *)
(*      Ch = Challenge                S -> R                                *)
(*      Rs = Response                 R -> S   checked by S.Round2          *)
(*      De = (Decommit0, Decommit1)   S -> R   checked by R.Round3          *)
(*  "cot" "eot" "aot": no checks of their own between the parties beyond    *)
(*          the ones above; enumerated for the relation runs.               *)
(*                                                                          *)
(* WHAT TLC DECIDES.                                                        *)
(*  - mul: field values are abstracted to tags (ok / alt = any value other  *)
(*    than the honest one / short / long).  From the transcribed checks TLC *)
(*    derives the outcome of every case and proves NoWrong: whenever both   *)
(*    sides finish, every pad that enters the receiver's share is the       *)
(*    honest one (so shareA + shareB = alpha*beta by OTAlg!ShareLaw) - i.e. *)
(*    every alteration that could change the product is covered by a check  *)
(*    that fires, and alterations the choice bit masks are harmless.        *)
(*    Variant = "nocheck" (integrity check removed) must be REJECTED.       *)
(*  - rot: values are sets of hash atoms with XOR = symmetric difference,   *)
(*    which is exact for the challenge/response algebra; TLC decides the    *)
(*    equalities of random.go for every alteration (including swapping the  *)
(*    two decommitments and altering the challenge when the choice is 0).   *)
(*  - a tampered run never disturbs the later runs on the same setup;       *)
(*    nonces of the runs over one setup are pairwise distinct.              *)
(* ASSUMED (overwhelming probability, asserted on the real code only): an   *)
(* altered value differs from every honest value and hashes are injective   *)
(* on the values met; the consistency check rejects altered (U, X, T); the  *)
(* integrity check rejects an effective alteration (exact miss rate 1/Q:    *)
(* OTAlg!SoundnessCount); the Schnorr proof of M0 is sound.                 *)
(* NOT DECIDED HERE: that the Go code implements these checks - the replay  *)
(* decides it: a run that ends without error on both sides with a wrong     *)
(* product / wrong pad, or a panic, is a violation of the property; an      *)
(* outcome that is allowed by the property but differs from the one derived *)
(* here means the model does not describe the code (reported, inconclusive).*)
(***************************************************************************)
EXTENDS Integers, Sequences, FiniteSets, Json, TLC

CONSTANTS Layers,        \* subset of {"rot", "setup", "cot", "eot", "aot", "mul"}
          Points,        \* names of scalar-lattice points (honest runs: Points \X Points)
          TamperPairs,   \* set of <<a, b>>: scalar pairs for the tampered multiplications
          Patterns,      \* names of choice-vector patterns for the lower layers
          MaxRuns,       \* runs over one setup: 1..MaxRuns
          Variant        \* "code" | "nocheck" (negative control: the receiver's integrity check removed)

VARIABLES cs,      \* the case (constant along a behaviour)
          run,     \* current run over the setup, 1..cs.n
          pc,      \* step inside the run
          msg,     \* message in flight (tags or atom sets)
          st,      \* what the parties remember inside the run
          out,     \* outcome of the finished runs, a sequence over {"ok","wrong","errS","errR"}
          nonces   \* nonces used so far on this setup

vars == <<cs, run, pc, msg, st, out, nonces>>

----------------------------------------------------------------------------
(* the adversary's menu *)
Slots == {"p0", "p1", "n0", "n1"}      \* representative gadget indices: power part / noise part, choice bit 0 / 1
SlotChoice(s) == IF s \in {"p1", "n1"} THEN 1 ELSE 0
Cols  == {"d0", "d1"}                  \* a column i of U with Delta_i = 0 / 1

Tm(m, f, idx, comp, kind) == [m |-> m, f |-> f, idx |-> idx, comp |-> comp, kind |-> kind]
NoT == Tm("none", "none", "none", 0, "none")

VarKinds == {"flip", "zero", "copyidx", "copyrun", "trunc", "ext"}     \* []byte fields
FixKinds == {"flip", "zero", "copyrun"}                                \* fixed-size fields / scalars

MulTampers ==
       {Tm("M1", "U", i, 0, k) : i \in Cols, k \in VarKinds}
  \cup {Tm("M1", f, "none", 0, k) : f \in {"X", "T"}, k \in FixKinds}
  \cup {Tm("M1", "ALL", "none", 0, "copyrun")}
  \cup {Tm("M2", "pad", s, cp, k) : s \in Slots, cp \in {1, 2}, k \in VarKinds}
  \cup {Tm("M2", "padlist", "none", 0, k) : k \in {"trunc", "ext"}}
  \cup {Tm("M2", "rcheck", s, 0, k) : s \in Slots, k \in FixKinds \cup {"copyidx"}}
  \cup {Tm("M2", "rlist", "none", 0, k) : k \in {"trunc", "ext"}}
  \cup {Tm("M2", "ucheck", "none", 0, k) : k \in FixKinds}
  \cup {Tm("M2", "ALL", "none", 0, "copyrun")}

RotTampers ==
       {Tm("A", "ABytes", "none", 0, k) : k \in {"flip", "flipx", "zero", "copyrun", "trunc", "ext"}}
  \cup {Tm("Ch", "Challenge", "none", 0, k) : k \in FixKinds}
  \cup {Tm("Rs", "Response", "none", 0, k) : k \in FixKinds}
  \cup {Tm("De", "Decommit", "none", cp, k) : cp \in {1, 2}, k \in FixKinds}
  \cup {Tm("De", "Decommit", "none", 0, "swap")}
SetupTampers == RotTampers \cup {Tm("M0", f, "none", 0, k) : f \in {"B", "ProofC", "ProofZ"}, k \in FixKinds}

TagOf(kind) == CASE kind = "trunc" -> "short" [] kind = "ext" -> "long" [] OTHER -> "alt"

----------------------------------------------------------------------------
(* the case lattice *)
Case(layer, a, b, pat, ch, n, tr, t) ==
  [layer |-> layer, a |-> a, b |-> b, pat |-> pat, ch |-> ch, n |-> n, tr |-> tr, t |-> t]

RunPairs == {<<n, tr>> \in (1..MaxRuns) \X (1..MaxRuns) : tr <= n}

CasesOf(layer) ==
  CASE layer = "mul" ->
            {Case("mul", a, b, "none", 0, n, 0, NoT) : a \in Points, b \in Points, n \in 1..MaxRuns}
       \cup {Case("mul", p[1], p[2], "none", 0, r[1], r[2], t) : p \in TamperPairs, r \in RunPairs, t \in MulTampers}
    [] layer = "aot" ->
            {Case("aot", a, b, pat, 0, n, 0, NoT) : a \in Points, b \in Points, pat \in Patterns, n \in {1, MaxRuns}}
    [] layer \in {"cot", "eot"} ->
            {Case(layer, "none", "none", pat, 0, n, 0, NoT) : pat \in Patterns, n \in 1..MaxRuns}
    [] layer = "rot" ->
            {Case("rot", "none", "none", "none", ch, n, 0, NoT) : ch \in {0, 1}, n \in 1..MaxRuns}
       \cup {Case("rot", "none", "none", "none", ch, r[1], r[2], t) : ch \in {0, 1}, r \in RunPairs, t \in RotTampers}
    [] layer = "setup" ->
            {Case("setup", "none", "none", "none", 0, 1, 0, NoT)}
       \cup {Case("setup", "none", "none", "none", ch, 1, 1, t) : ch \in {0, 1}, t \in SetupTampers}

\* presets for TamperPairs (bind with TamperPairs <- TPQuick etc. in the cfg)
TPQuick == {<<"zero", "zero">>, <<"one", "qm1">>, <<"qm1", "qm1">>, <<"half", "two">>, <<"rand", "rand">>}
TPMid   == TPQuick \cup {<<"zero", "rand">>, <<"rand", "zero">>, <<"qm2", "one">>, <<"two", "half">>, <<"qm1", "zero">>}
TPAll   == Points \X Points

AllCases == UNION {CasesOf(l) : l \in Layers}

----------------------------------------------------------------------------
(* helpers *)
SymDiff(x, y) == (x \ y) \cup (y \ x)
Tampered(m) == cs.tr = run /\ cs.t.m = m
NoMsg == [none |-> TRUE]
NoSt  == [none |-> TRUE]

Finish(o) ==            \* the run ends with outcome o; go to the next run over the same setup or stop
  /\ out' = Append(out, o)
  /\ msg' = NoMsg /\ st' = NoSt
  /\ IF run < cs.n THEN run' = run + 1 /\ pc' = "start" ELSE run' = run /\ pc' = "done"
  /\ UNCHANGED <<cs, nonces>>

Goto(p, m, s) == pc' = p /\ msg' = m /\ st' = s /\ UNCHANGED <<cs, run, out, nonces>>

Start ==                \* a fresh nonce for every run (hash.WriteAny(nonce) before cloning the context hash)
  /\ pc = "start"
  /\ nonces' = nonces \cup {run}
  /\ pc' = (CASE cs.layer = "mul" -> "mulR1" [] cs.layer = "rot" -> "rotR1" [] cs.layer = "setup" -> "rotM0" [] OTHER -> "rel")
  /\ UNCHANGED <<cs, run, msg, st, out>>

Rel == pc = "rel" /\ Finish("ok")        \* relation-only layers: nothing to decide here, OTAlg states the relation

----------------------------------------------------------------------------
(* multiplication: Receiver.Round1 -> Sender.Round1 -> Receiver.Round2 *)
HonestM1 == [U |-> [i \in Cols |-> "ok"], X |-> "ok", T |-> "ok"]
HonestM2 == [pad |-> [s \in Slots |-> <<"ok", "ok">>], padlist |-> "ok",
             rcheck |-> [s \in Slots |-> "ok"], rlist |-> "ok", ucheck |-> "ok"]

AlterM1(m, t) ==
  CASE t.f = "U"   -> [m EXCEPT !.U[t.idx] = TagOf(t.kind)]
    [] t.f = "X"   -> [m EXCEPT !.X = "alt"]
    [] t.f = "T"   -> [m EXCEPT !.T = "alt"]
    [] t.f = "ALL" -> [U |-> [i \in Cols |-> "alt"], X |-> "alt", T |-> "alt"]
AlterM2(m, t) ==
  CASE t.f = "pad"     -> [m EXCEPT !.pad[t.idx][t.comp] = TagOf(t.kind)]
    [] t.f = "padlist" -> [m EXCEPT !.padlist = TagOf(t.kind)]
    [] t.f = "rcheck"  -> [m EXCEPT !.rcheck[t.idx] = "alt"]
    [] t.f = "rlist"   -> [m EXCEPT !.rlist = TagOf(t.kind)]
    [] t.f = "ucheck"  -> [m EXCEPT !.ucheck = "alt"]
    [] t.f = "ALL"     -> [pad |-> [s \in Slots |-> <<"alt", "alt">>], padlist |-> "ok",
                           rcheck |-> [s \in Slots |-> "alt"], rlist |-> "ok", ucheck |-> "alt"]

MulR1 == pc = "mulR1" /\ Goto("mulA1", HonestM1, NoSt)
MulA1 == pc = "mulA1" /\ Goto("mulS1", IF Tampered("M1") THEN AlterM1(msg, cs.t) ELSE msg, NoSt)

\* MultiplySender.Round1 = AdditiveOTSender.Round1 = ExtendedOTSend = CorreOTSend + consistency check
SenderLenOK(m)  == \A i \in Cols : m.U[i] \notin {"short", "long"}          \* len(msg.U[i]) != batchSizeBytes
SenderMonoOK(m) == (\A i \in Cols : m.U[i] = "ok") /\ m.X = "ok" /\ m.T = "ok"
MulS1 ==
  /\ pc = "mulS1"
  /\ IF ~SenderLenOK(msg) \/ ~SenderMonoOK(msg)
     THEN Finish("errS")
     ELSE Goto("mulA2", HonestM2, NoSt)
MulA2 == pc = "mulA2" /\ Goto("mulR2", IF Tampered("M2") THEN AlterM2(msg, cs.t) ELSE msg, NoSt)

\* MultiplyReceiver.Round2 = AdditiveOTReceiver.Round2 (mask, decode) + integrity check + share
Missing(m)  == m.padlist \in {"short", "long"} \/ m.rlist \in {"short", "long"}   \* a list that does not have exactly one entry per batch index is refused
BadLen(m)   == \E s \in Slots, k \in {1, 2} : m.pad[s][k] \in {"short", "long"}     \* Scalar.UnmarshalBinary
Eff(m, s, k) == IF SlotChoice(s) = 0 THEN "ok" ELSE m.pad[s][k]                    \* pad &= -choice
Chk(m, s)   == \/ Variant = "nocheck"
               \/ /\ Eff(m, s, 1) = "ok" /\ Eff(m, s, 2) = "ok"
                  /\ m.rcheck[s] = "ok"
                  /\ (SlotChoice(s) = 0 \/ m.ucheck = "ok")
ShareOK(m)  == \A s \in Slots : Eff(m, s, 1) = "ok"            \* share uses result[i][0] only
MulR2 ==
  /\ pc = "mulR2"
  /\ IF Missing(msg) \/ BadLen(msg) THEN Finish("errR")
     ELSE IF \E s \in Slots : ~Chk(msg, s) THEN Finish("errR")
     ELSE IF ShareOK(msg) THEN Finish("ok") ELSE Finish("wrong")

----------------------------------------------------------------------------
(* random OT (Chou-Orlandi style with challenge / response); values are sets of atoms, XOR = SymDiff *)
AlterSet(x, kind, tag) == CASE kind = "flip" -> SymDiff(x, {"bit:" \o tag})
                            [] kind = "zero" -> {}
                            [] OTHER         -> {"other:" \o tag}               \* copyrun: the value of another run

RotM0 ==    \* setup only: RandomOTSetupSend -> RandomOTSetupReceive (Schnorr proof of B)
  /\ pc = "rotM0"
  /\ IF Tampered("M0") THEN Finish("errR") ELSE Goto("rotR1", NoMsg, NoSt)

RotR1 ==    \* Receiver.Round1: A = a*G + c*B, pad = H(a*B)
  /\ pc = "rotR1" /\ Goto("rotA1", [A |-> "ok"], [padR |-> "P"])
RotA1 ==
  /\ pc = "rotA1"
  /\ Goto("rotS1", IF Tampered("A")
                   THEN [A |-> IF cs.t.kind \in {"zero", "trunc", "ext"} THEN "bad" ELSE "alt"]
                   ELSE msg, st)
RotS1 ==    \* Sender.Round1: rand0 = H(b*A), rand1 = H(b*(A-B)), challenge = HH(rand0) xor HH(rand1)
  /\ pc = "rotS1"
  /\ IF msg.A = "bad" THEN Finish("errS")
     ELSE LET r == IF msg.A = "ok"
                   THEN (IF cs.ch = 0 THEN <<"P", "O">> ELSE <<"O", "P">>)     \* rand_choice is the receiver's pad
                   ELSE <<"X0", "X1">>                                          \* unrelated to the receiver's pad
          IN Goto("rotA2", [chal |-> {"hh:" \o r[1], "hh:" \o r[2]}], [padR |-> st.padR, r |-> r])
RotA2 ==
  /\ pc = "rotA2"
  /\ Goto("rotR2", IF Tampered("Ch") THEN [chal |-> AlterSet(msg.chal, cs.t.kind, "chal")] ELSE msg, st)
RotR2 ==    \* Receiver.Round2: response = HH(pad) xor (c * challenge)
  /\ pc = "rotR2"
  /\ Goto("rotA3", [resp |-> SymDiff({"hh:" \o st.padR}, IF cs.ch = 1 THEN msg.chal ELSE {})],
          [padR |-> st.padR, r |-> st.r, got |-> msg.chal])
RotA3 ==
  /\ pc = "rotA3"
  /\ Goto("rotS2", IF Tampered("Rs") THEN [resp |-> AlterSet(msg.resp, cs.t.kind, "resp")] ELSE msg, st)
RotS2 ==    \* Sender.Round2: response must equal HH(rand0); then the sender is done and decommits
  /\ pc = "rotS2"
  /\ IF msg.resp /= {"hh:" \o st.r[1]} THEN Finish("errS")
     ELSE Goto("rotA4", [d |-> <<"h:" \o st.r[1], "h:" \o st.r[2]>>], st)
RotA4 ==
  /\ pc = "rotA4"
  /\ Goto("rotR3",
          IF ~Tampered("De") THEN msg
          ELSE IF cs.t.kind = "swap" THEN [d |-> <<msg.d[2], msg.d[1]>>]
          ELSE [d |-> [msg.d EXCEPT ![cs.t.comp] = "h:Z"]], st)
RotR3 ==    \* Receiver.Round3: H(d0) xor H(d1) = received challenge, and H(d_choice) = HH(pad)
  /\ pc = "rotR3"
  /\ LET hd(x) == "h" \o x                      \* "h:" \o r  |->  "hh:" \o r
         actual == SymDiff({hd(msg.d[1])}, {hd(msg.d[2])})
     IN IF actual /= st.got THEN Finish("errR")
        ELSE IF hd(msg.d[cs.ch + 1]) /= "hh:" \o st.padR THEN Finish("errR")
        ELSE IF st.r[cs.ch + 1] = st.padR THEN Finish("ok") ELSE Finish("wrong")

----------------------------------------------------------------------------
Init ==
  /\ cs \in AllCases
  /\ run = 1 /\ pc = "start" /\ msg = NoMsg /\ st = NoSt /\ out = <<>> /\ nonces = {}

Next == \/ Start \/ Rel
        \/ MulR1 \/ MulA1 \/ MulS1 \/ MulA2 \/ MulR2
        \/ RotM0 \/ RotR1 \/ RotA1 \/ RotS1 \/ RotA2 \/ RotR2 \/ RotA3 \/ RotS2 \/ RotA4 \/ RotR3

Spec == Init /\ [][Next]_vars /\ WF_vars(Next)

----------------------------------------------------------------------------
(* the property on the model *)
Outcomes == {"ok", "errS", "errR"}
NoWrong  == \A k \in 1..Len(out) : out[k] \in Outcomes          \* never: both sides finish with a wrong product / pad
HonestOK == \A k \in 1..Len(out) : (k /= cs.tr) => out[k] = "ok"   \* untampered runs (before and AFTER the tampered one) succeed
NoncesDistinct == Cardinality(nonces) = (IF pc = "start" THEN run - 1 ELSE run)
Terminates == <>(pc = "done")

\* the checking side of the altered message raises the error (when there is an error)
CheckingSide ==
  (pc = "done" /\ cs.tr > 0) =>
     LET o == out[cs.tr] IN
     CASE cs.t.m \in {"M1", "A", "Rs"} -> o \in {"errS"}
       [] cs.t.m \in {"M2", "M0", "De"} -> o \in {"errR", "ok"}
       [] cs.t.m = "Ch" -> o = (IF cs.ch = 1 THEN "errS" ELSE "errR")
       [] OTHER -> FALSE

Emit == (pc = "done") =>
          PrintT(<<"CASE", ToJson([layer |-> cs.layer, a |-> cs.a, b |-> cs.b, pat |-> cs.pat, ch |-> cs.ch,
                                   n |-> cs.n, tr |-> cs.tr, m |-> cs.t.m, f |-> cs.t.f, idx |-> cs.t.idx,
                                   comp |-> cs.t.comp, kind |-> cs.t.kind, expect |-> out])>>)
=============================================================================
