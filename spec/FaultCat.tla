------------------------------ MODULE FaultCat ------------------------------
(***************************************************************************)
(* The catalogue of single-party deviations that C03 / C04 / C05 quantify  *)
(* over: protocol message slot x field of the decoded content x alteration *)
(* x header malformation x deviating party x recipients of the altered     *)
(* copy, and for C06 the equivocation scenarios: broadcast round x         *)
(* equivocator x assignment of honest parties to the two payloads.         *)
(* The message structure (FaultCatData) is DISCOVERED from the real        *)
(* protocol by decoding the messages of an honest run, so a new field is   *)
(* covered without editing anything.  TLC enumerates the catalogue, checks *)
(* that it is complete and duplicate-free, attaches to every case the      *)
(* reaction Handler.tla allows at the recipient, and prints it; the        *)
(* harness executes every printed case on the real protocol.               *)
(***************************************************************************)
EXTENDS Integers, Sequences, FiniteSets, TLC, Json, FaultCatData
\* FaultCatData defines: Proto, Parties (sequence of names), R, ShapeB, ShapeM,
\*                       Slots == sequence of [round, b, kinds] with kinds the sequence of leaf kinds

\* a byte string that starts with a plausible 4-byte count (the library's hand-written encodings): besides the byte-string
\* alterations, the count is set to 2^32 - 1, 2^31 and, for every element size k, to floor(2^32 / k) + 1 - the smallest
\* count whose product with k overflows 32 bits
WrapFactors == (2 .. 72) \cup {96, 128, 256}
\* "giant": half a megabyte where a few dozen bytes are expected (time and memory must stay bounded)
BytesAlts == {"zero", "ones", "flipfirst", "fliplast", "trunc", "extend", "empty", "donor", "random", "null", "absent", "giant"}
AltsOf(kind) ==
  CASE kind = "bytes" -> BytesAlts
    [] kind = "lpbytes" -> BytesAlts \cup {"lenmax", "lenhalf"} \cup {"lenwrap" \o ToString(k) : k \in WrapFactors}
    [] kind = "uint"  -> {"zero", "one", "inc", "max", "null", "absent"}
    [] kind = "int"   -> {"zero", "one", "inc", "max", "null", "absent"}
    [] kind = "bigint" -> {"zero", "one", "inc", "negate", "huge", "giant", "donor", "random", "null", "absent"}
    [] kind = "bool"  -> {"negate", "null"}
    [] kind = "map"   -> {"null", "absent", "emptymap"}
    [] kind = "array" -> {"droplast", "duplast", "emptyarr", "null", "absent", "huge"}
    [] kind = "text"  -> {"emptytext", "null"}
    [] OTHER -> {}

HeaderClasses == {"wrongTo", "emptyTo", "fromSelf", "unknownFrom", "round0", "roundPast", "roundBig", "wrongSSID", "emptySSID",
                  "wrongProto", "nilData", "emptyData", "flipBroadcast", "junkData", "truncData", "nilBV", "wrongBV"}

\* what Handler.tla lets the recipient do with such a message (C05: never anything else)
Reaction(h) ==
  CASE h \in {"wrongTo", "fromSelf", "unknownFrom", "roundBig", "wrongSSID", "emptySSID", "wrongProto", "nilData"} -> "ignored"
    [] h = "roundPast" -> "ignored"
    [] h = "round0"    -> "abort-notified"
    [] h \in {"emptyData", "junkData", "truncData"} -> "store-or-abort-detected"
    [] h \in {"nilBV", "wrongBV"} -> "store-or-abort-echo"
    [] h \in {"emptyTo", "flipBroadcast"} -> "store-or-abort-detected"
    [] OTHER -> "store-or-abort-detected"

PSet == {Parties[k] : k \in DOMAIN Parties}
SlotIdx == DOMAIN Slots

Recipients(c) == {"all"} \cup (PSet \ {c})

FaultCasesAt(s, l, c) ==
  {[kind |-> "fault", round |-> Slots[s].round, b |-> Slots[s].b, leaf |-> l - 1, alt |-> a, hdr |-> "", byz |-> c, to |-> t,
    react |-> "store-or-abort-detected-or-finish-correct"] : a \in AltsOf(Slots[s].kinds[l]), t \in Recipients(c)}
FaultCases ==
  UNION {UNION {UNION {FaultCasesAt(s, l, c) : c \in PSet} : l \in DOMAIN Slots[s].kinds} : s \in SlotIdx}

HeaderCasesAt(s, c) ==
  {[kind |-> "fault", round |-> Slots[s].round, b |-> Slots[s].b, leaf |-> 0, alt |-> "", hdr |-> h, byz |-> c, to |-> t,
    react |-> Reaction(h)] : h \in HeaderClasses, t \in (PSet \ {c})}
HeaderCases == UNION {UNION {HeaderCasesAt(s, c) : c \in PSet} : s \in SlotIdx}

\* equivocation: every non-final broadcast round, every equivocator, every assignment of the honest parties
Assignments(c) == [PSet \ {c} -> {"A", "B"}]
EquivCasesAt(r, c) == {[kind |-> "equiv", round |-> r, byz |-> c, groups |-> g] : g \in Assignments(c)}
EquivCases == UNION {UNION {EquivCasesAt(r, c) : c \in PSet} : r \in (ShapeB \ {R})}

\* design facts about the catalogue
Complete ==
  /\ \A s \in SlotIdx : \A l \in DOMAIN Slots[s].kinds : \A c \in PSet :
        AltsOf(Slots[s].kinds[l]) # {} => \E x \in FaultCases : x.round = Slots[s].round /\ x.b = Slots[s].b /\ x.leaf = l - 1 /\ x.byz = c
  /\ \A s \in SlotIdx, h \in HeaderClasses, c \in PSet : \E x \in HeaderCases : x.round = Slots[s].round /\ x.hdr = h /\ x.byz = c
  /\ \A r \in ShapeB \ {R}, c \in PSet : Cardinality({x \in EquivCases : x.round = r /\ x.byz = c}) = 2 ^ (Cardinality(PSet) - 1)
ASSUME Complete

VARIABLE done
Init == done = FALSE
Next == /\ ~done /\ done' = TRUE
        /\ PrintT(<<"FAULTS", ToJson([n |-> Cardinality(FaultCases), h |-> Cardinality(HeaderCases), e |-> Cardinality(EquivCases)])>>)
        /\ \A x \in HeaderCases : PrintT(<<"HDR", ToJson(x)>>)
        /\ \A x \in EquivCases : PrintT(<<"EQV", ToJson(x)>>)
        /\ \A x \in FaultCases : PrintT(<<"FLT", ToJson(x)>>)
=============================================================================
