---------------------------- MODULE HandlerTrace ----------------------------
(***************************************************************************)
(* Trace validation: is every recorded execution of the REAL handlers a    *)
(* behaviour of Handler.tla?  The harness logs one event per API call on   *)
(* an honest party (Start / Accept / Stop) with the abstract message and   *)
(* the API-observable projection after the call.  Queues, stored slots and *)
(* view hashes are NOT logged: TLC recomputes them with the actions of     *)
(* Handler.tla and every invariant of Handler.tla is evaluated in every    *)
(* state of the real execution.  Many traces are concatenated; a "Reset"   *)
(* event starts the next one.                                              *)
(***************************************************************************)
EXTENDS Handler, Json, TLCExt

CONSTANT TraceFile
TraceLog == ndJsonDeserialize(TraceFile)

VARIABLES l,     \* position in TraceLog
          wrong  \* set once a party finished with a result the independent oracle judged wrong (C03)
tvars == <<vars, l, wrong>>

Ev == TraceLog[l]
IsEvent(e) == /\ l <= Len(TraceLog) /\ TraceLog[l].ev = e /\ l' = l + 1
              /\ wrong' = (wrong \/ (TraceLog[l].post.st = "done" /\ TraceLog[l].res = "wrong"))

SeqToSet(s) == {s[k] : k \in DOMAIN s}

\* the abstract message of an event, completed to the record shape of Handler.tla
MsgOf(m) == [from |-> m.from, to |-> m.to, rd |-> m.rd, b |-> m.b, var |-> m.var,
             bv |-> m.bv, view |-> m.view, cls |-> m.cls]

\* header tuples the model says were emitted by a call ending in local state s
EmModel(i, s) == {<<y.m.rd, y.m.b, y.rc, y.m.bv>> : y \in s.outm}
NoticeModel(i, s) == IF s.st = "err" THEN {<<0, FALSE, j, NoVH>> : j \in P \ {i}} ELSE {}
EmLogged(e) == {<<e.em[k].rd, e.em[k].b, e.em[k].rc, e.em[k].bv>> : k \in DOMAIN e.em}

\* the logged projection must be what the model computes
ProjOK(i, s, e) ==
  /\ s.rnd = e.post.rnd
  /\ s.st = e.post.st
  /\ (s.st = "err" => (s.ek = e.post.ek /\ s.culp = SeqToSet(e.post.culp)))
  /\ EmModel(i, s) \subseteq EmLogged(e)
  /\ EmLogged(e) \subseteq EmModel(i, s) \cup NoticeModel(i, s)      \* the abort notice is best effort

\* CanAccept as implemented: after the output / abort round the handler holds a round numbered 0
CurNum(i) == IF st[i] = "done" \/ (st[i] = "err" /\ ek[i] = "proto") THEN 0 ELSE rnd[i]
CanAcceptReal(i, m) ==
  /\ m.cls = "ok"
  /\ m.to \in {"all", i} /\ m.from # i /\ m.from \in P
  /\ m.rd <= R
  /\ ~(m.rd < CurNum(i) /\ m.rd > 0)

\* the flags compatible with what was logged: the protocol-level abort and its culprits are observable, so TLC
\* only has to infer the two verification booleans (this keeps validation linear in the trace length)
TraceFlags(e) ==
  IF e.post.st = "err" /\ e.post.ek = "proto"
  THEN {f \in Flags : f.proto.on /\ f.proto.c = SeqToSet(e.post.culp)}
  ELSE {f \in Flags : ~f.proto.on /\ f.proto.r = 2 /\ f.proto.c = {}}

TraceInit == Init /\ l = 1 /\ wrong = FALSE

TraceStart ==
  /\ IsEvent("Start")
  /\ LET e == Ev  i == e.i IN
     /\ i \in Honest /\ st[i] = "new"
     /\ LET s == StartResult(i) IN Commit(i, s) /\ ProjOK(i, s, e)
  /\ UNCHANGED <<net, inj, dup, frn>>

TraceAccept ==
  /\ IsEvent("Accept")
  /\ LET e == Ev  i == e.i  m == MsgOf(e.m) IN
     /\ i \in Honest /\ st[i] # "new"
     /\ e.can = CanAcceptReal(i, m)
     /\ IF st[i] # "run" \/ ~CanAcceptReal(i, m) \/ Duplicate(i, m)
        THEN e.ign /\ UNCHANGED pvars
        ELSE /\ ~e.ign
             /\ \E flip \in TraceFlags(e) : LET s == AcceptResult(i, m, flip) IN Commit(i, s) /\ ProjOK(i, s, e)
  /\ UNCHANGED <<net, inj, dup, frn>>

TraceStop ==
  /\ IsEvent("Stop")
  /\ LET e == Ev  i == e.i IN
     /\ i \in Honest /\ st[i] # "new"
     /\ IF st[i] = "run"
        THEN LET s == AbortS(Loc(i), "stopped", {i}) IN ~e.ign /\ Commit(i, s) /\ ProjOK(i, s, e)
        ELSE e.ign /\ UNCHANGED pvars
  /\ UNCHANGED <<net, inj, dup, frn>>

TraceReset ==
  /\ IsEvent("Reset")
  /\ rnd' = [i \in Honest |-> 1]
  /\ st' = [i \in Honest |-> "new"]
  /\ ek' = [i \in Honest |-> None]
  /\ culp' = [i \in Honest |-> {}]
  /\ bq' = [i \in Honest |-> EmptyQ]
  /\ mq' = [i \in Honest |-> EmptyQ]
  /\ vh' = [i \in Honest |-> [r \in Rounds |-> NoVH]]
  /\ UNCHANGED <<net, inj, dup, frn>>

TraceNext == TraceStart \/ TraceAccept \/ TraceStop \/ TraceReset

TraceSpec == TraceInit /\ [][TraceNext]_tvars

\* acceptance: every line was consumed (one BFS level per line, plus the initial state)
TraceAccepted ==
  LET d == TLCGet("stats").diameter IN
  IF d - 1 = Len(TraceLog) THEN TRUE
  ELSE Print(<<"TRACE-REJECTED at line", d, "of", Len(TraceLog)>>, FALSE)

\* C03 on real executions: no honest party ever finishes with a result the independent oracle rejects
WrongNeverAccepted == ~wrong

\* C07 on real executions: in an all-honest trace nobody is in an error state
TraceHonestNeverAborts == (Byz = {}) => \A i \in Honest : st[i] # "err" \/ ek[i] = "stopped" \/ ek[i] = "notified"
=============================================================================
