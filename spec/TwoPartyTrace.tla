--------------------------- MODULE TwoPartyTrace ---------------------------
(* Trace validation of real Doerner sessions (TwoPartyHandler) against TwoParty.tla; same event format
   and acceptance as HandlerTrace.tla. *)
EXTENDS TwoParty, Json, TLCExt

CONSTANT TraceFile
TraceLog == ndJsonDeserialize(TraceFile)

VARIABLES l, wrong
tvars == <<vars, l, wrong>>

IsEvent(e) == /\ l <= Len(TraceLog) /\ TraceLog[l].ev = e /\ l' = l + 1
              /\ wrong' = (wrong \/ (TraceLog[l].post.st = "done" /\ TraceLog[l].res = "wrong"))
Ev == TraceLog[l]
MsgOf(m) == [from |-> m.from, to |-> m.to, rd |-> m.rd, var |-> m.var, cls |-> m.cls]

EmModel(i, s) == {<<y.m.rd, y.rc>> : y \in s.outm}
NoticeModel(i, s) == IF s.st = "err" THEN {<<0, Peer(i)>>} ELSE {}
EmLogged(e) == {<<e.em[k].rd, e.em[k].rc>> : k \in DOMAIN e.em}

ProjOK(i, s, e) ==
  /\ s.st = e.post.st
  /\ (s.st = "run" => s.rnd = e.post.cur)
  /\ (s.st = "err" => s.ek = e.post.ek)
  /\ EmModel(i, s) \subseteq EmLogged(e)
  /\ EmLogged(e) \subseteq EmModel(i, s) \cup NoticeModel(i, s)

TraceFlags(e) == IF e.post.st = "err" /\ e.post.ek = "proto" THEN {f \in Flags : f.proto} ELSE {f \in Flags : ~f.proto /\ f.pr = 1}

TraceInit == Init /\ l = 1 /\ wrong = FALSE

TraceStart ==
  /\ IsEvent("Start")
  /\ LET e == Ev  i == e.i IN
     /\ i \in Honest /\ st[i] = "new"
     /\ LET s == StartResult(i) IN Commit(i, s) /\ ProjOK(i, s, e)
  /\ UNCHANGED <<net, inj, dup>>

TraceAccept ==
  /\ IsEvent("Accept")
  /\ LET e == Ev  i == e.i  m == MsgOf(e.m) IN
     /\ i \in Honest /\ st[i] # "new"
     /\ e.can = CanAcceptP(i, m)
     /\ IF Ignored(i, m) THEN e.ign /\ UNCHANGED pvars
        ELSE \E f \in TraceFlags(e) : LET s == AcceptResult(i, m, f) IN
                /\ Commit(i, s) /\ ProjOK(i, s, e)
                /\ (e.ign => (s.st = st[i] /\ s.rnd = rnd[i] /\ s.outm = {}))
  /\ UNCHANGED <<net, inj, dup>>

TraceStop ==
  /\ IsEvent("Stop")
  /\ LET e == Ev  i == e.i IN
     /\ i \in Honest /\ st[i] # "new"
     /\ IF st[i] = "run" THEN LET s == AbortS(Loc(i), "stopped") IN ~e.ign /\ Commit(i, s) /\ ProjOK(i, s, e)
        ELSE e.ign /\ UNCHANGED pvars
  /\ UNCHANGED <<net, inj, dup>>

TraceReset ==
  /\ IsEvent("Reset")
  /\ rnd' = [i \in Honest |-> 1] /\ st' = [i \in Honest |-> "new"] /\ ek' = [i \in Honest |-> None]
  /\ slot' = [i \in Honest |-> EmptySlots]
  /\ UNCHANGED <<net, inj, dup>>

TraceNext == TraceStart \/ TraceAccept \/ TraceStop \/ TraceReset
TraceSpec == TraceInit /\ [][TraceNext]_tvars

TraceAccepted ==
  LET d == TLCGet("stats").diameter IN
  IF d - 1 = Len(TraceLog) THEN TRUE ELSE Print(<<"TRACE-REJECTED at line", d, "of", Len(TraceLog)>>, FALSE)
WrongNeverAccepted == ~wrong
TraceHonestNeverAborts == (Byz = {}) => \A i \in Honest : st[i] # "err" \/ ek[i] \in {"stopped", "notified"}
=============================================================================
