----------------------------- MODULE StartParams -----------------------------
(***************************************************************************)
(* C20 - invalid session parameters are refused at start.                  *)
(*                                                                         *)
(* The 17 start functions of the library, each with its PARAMETER RECORD   *)
(* (threshold, identifier list, own identifier, message, key material,     *)
(* presignature), the VALIDITY PREDICATE the statement implies and a       *)
(* LATTICE of alternative values around the boundaries.  The universe is   *)
(* small and concrete: shareholders a,b,c holding a degree-T (T = 1)       *)
(* sharing, own identifier a, outsider z.                                  *)
(*                                                                         *)
(* The state machine is: choose a start function, choose a parameter tuple *)
(* that differs from the nominal (all valid) tuple in AT MOST TWO          *)
(* coordinates, call start.  TLC therefore enumerates every single         *)
(* alternative value and every pair.                                       *)
(*                                                                         *)
(* What TLC decides (on the model alone):                                  *)
(*  - the expected outcome of every case: "error" iff a clause of the      *)
(*    validity predicate fails, "accept" iff none fails, "either" for the  *)
(*    two situations on which the statement is silent (a field of the key  *)
(*    material that the protocol at hand never uses is missing; a session  *)
(*    of a single party);                                                  *)
(*  - that the predicate is total and consistent: the nominal tuple is     *)
(*    accepted (NominalAccepted), a second change never turns a refusal    *)
(*    into an acceptance (Monotone), the outcome agrees with an            *)
(*    independent labelling of the lattice values taken from the wording   *)
(*    of the statement (Labelling), every clause is exercised by some      *)
(*    single change of every start function it applies to (ClauseCovered), *)
(*    unsorted but otherwise valid identifier lists are valid              *)
(*    (UnsortedIsValid).                                                   *)
(*  - Variant = "nosubset" / "nomsg" / "thr_le_n" are deliberately wrong   *)
(*    predicates (negative controls): TLC must reject them (ClauseCovered  *)
(*    or Labelling fails).                                                 *)
(*                                                                         *)
(* What only the conformance run decides: that the REAL start function,    *)
(* called through NewMultiHandler / NewTwoPartyHandler on the concrete     *)
(* value of every printed case, returns an error exactly when the spec     *)
(* says "error", never panics, and - when it accepts something it should   *)
(* not - what then happens to honest peers in a simulated session.         *)
(*                                                                         *)
(* TLC integers are 32 bit: MAXU stands for 2^32-1 and MAXU+1 for 2^32;    *)
(* the driver substitutes the real numbers.                                *)
(***************************************************************************)
EXTENDS Integers, Sequences, FiniteSets, TLC, Json

CONSTANTS MAXU,      \* stand-in for math.MaxUint32 (any number far above the party counts)
          Variant,   \* "asstated" | "nosubset" | "nomsg" | "thr_le_n"  (the last three are negative controls)
          Only       \* "all" or the name of one start function

ASSUME MAXU > 10

SH == {"a", "b", "c"}     \* the shareholders of the existing key material
T == 1                    \* degree of the existing sharing
Me == "a"                 \* the party under test (owner of the key material)

Funcs == {"cmp.Keygen", "cmp.Refresh", "cmp.Sign", "cmp.Presign", "cmp.PresignOnline",
          "frost.Keygen", "frost.KeygenTaproot", "frost.Refresh", "frost.RefreshTaproot", "frost.Sign", "frost.SignTaproot",
          "doerner.Keygen", "doerner.RefreshReceiver", "doerner.RefreshSender", "doerner.SignReceiver", "doerner.SignSender",
          "example.StartXOR"}

ASSUME Only = "all" \/ Only \in Funcs

Kind(f) ==
  CASE f \in {"cmp.Keygen", "frost.Keygen", "frost.KeygenTaproot"} -> "KG"
    [] f = "example.StartXOR" -> "XOR"
    [] f = "cmp.Refresh" -> "CREF"
    [] f \in {"frost.Refresh", "frost.RefreshTaproot"} -> "FREF"
    [] f \in {"cmp.Sign", "frost.Sign", "frost.SignTaproot"} -> "SIGN"
    [] f = "cmp.Presign" -> "PRES"
    [] f = "cmp.PresignOnline" -> "ONL"
    [] f = "doerner.Keygen" -> "DKG"
    [] f \in {"doerner.RefreshReceiver", "doerner.RefreshSender"} -> "DREF"
    [] f \in {"doerner.SignReceiver", "doerner.SignSender"} -> "DSIGN"

Family(f) == IF f \in {"cmp.Keygen", "cmp.Refresh", "cmp.Sign", "cmp.Presign", "cmp.PresignOnline"} THEN "cmp"
             ELSE IF Kind(f) \in {"DKG", "DREF", "DSIGN"} THEN "doerner"
             ELSE IF f = "example.StartXOR" THEN "xor" ELSE "frost"

\* the coordinates a caller of f controls, in a fixed order
CoordSeq(k) ==
  CASE k = "KG" -> <<"thr", "ids", "self">>
    [] k = "XOR" -> <<"ids", "self">>
    [] k = "CREF" -> <<"thr", "key">>
    [] k = "FREF" -> <<"thr", "ids", "key">>
    [] k = "SIGN" -> <<"thr", "ids", "msg", "key">>
    [] k = "PRES" -> <<"thr", "ids", "key">>
    [] k = "ONL" -> <<"thr", "msg", "key", "pre">>
    [] k = "DKG" -> <<"ids">>
    [] k = "DREF" -> <<"ids", "key">>
    [] k = "DSIGN" -> <<"ids", "msg", "key">>

Range(s) == {s[i] : i \in DOMAIN s}
Coords(k) == Range(CoordSeq(k))

\* ------------------------------------------------------------------------
\* the nominal tuple: every coordinate valid.  Coordinates a start function does not have keep
\* the value the function fixes itself (XOR: threshold 0; Doerner: threshold 1, two parties).
Nominal(f) ==
  LET k == Kind(f) IN
  [thr  |-> IF k = "XOR" THEN 0 ELSE 1,
   ids  |-> IF k \in {"DKG", "DREF", "DSIGN"} THEN <<"a", "b">> ELSE <<"a", "b", "c">>,
   self |-> Me,
   msg  |-> IF "msg" \in Coords(k) THEN "ok" ELSE "na",
   key  |-> IF "key" \in Coords(k) THEN "ok" ELSE "na",
   pre  |-> IF "pre" \in Coords(k) THEN "ok" ELSE "na"]

\* ------------------------------------------------------------------------
\* the lattice of alternative values.  For the two-party protocols ids = <<own id, other id>>.
NomN == 3
ThrAlts == {-1, 0, NomN - 1, NomN, MAXU, MAXU + 1}       \* T itself is the nominal value

IdsAlts(k) ==
  CASE k \in {"KG", "XOR"} ->
         {<<"c", "a", "b">>, <<"a", "b", "b">>, <<"a", "a", "b", "c">>, <<>>, <<"b", "c">>, <<"a">>}
    [] k = "FREF" ->
         {<<"c", "a", "b">>, <<"a", "b", "c", "c">>, <<"a", "a", "b", "c">>, <<>>, <<"a", "b", "c", "z">>, <<"b", "c">>, <<"a">>}
    [] k \in {"SIGN", "PRES"} ->
         {<<"c", "a", "b">>, <<"a", "b">>, <<"c", "a">>, <<"a", "b", "b">>, <<"a", "a", "b">>, <<>>,
          <<"a", "b", "z">>, <<"a", "z">>, <<"b", "c">>, <<"a">>}
    [] k \in {"DKG", "DREF", "DSIGN"} -> {<<"b", "a">>, <<"a", "a">>}
    [] OTHER -> {}

KeyAlts(f) ==
  \* "nilentry": the table has an entry for a peer, but the entry is nil
  CASE Family(f) = "cmp" -> {"nil", "noshare", "nopaillier", "emptypub", "noown", "nilentry"}
    [] Family(f) = "frost" -> {"nil", "noshare", "nopub", "emptypub", "noown", "nilentry"}
    [] Family(f) = "doerner" -> {"nil", "noshare", "nopub", "nosetup"}
    [] OTHER -> {}

\* presignatures: "minimal" is a good one for signers {a,b}; the others are absent, malformed, or
\* well formed for a signer set that the key material does not allow
PreAlts == {"minimal", "nil", "zero", "ridentity", "smissing", "sidentity", "rbaridentity", "zeroid", "shortid",
            "kzero", "chizero", "noself", "foreign", "toosmall"}
PreSigners(p) == CASE p = "minimal" -> {"a", "b"} [] p = "noself" -> {"b", "c"} [] p = "foreign" -> {"a", "b", "z"}
                   [] p = "toosmall" -> {"a"} [] OTHER -> {"a", "b", "c"}
PreWellFormed(p) == p \in {"ok", "minimal", "noself", "foreign", "toosmall"}

Alts(f, c) ==
  CASE c = "thr" -> ThrAlts
    [] c = "ids" -> IdsAlts(Kind(f))
    [] c = "self" -> {"z"}
    [] c = "msg" -> {"nil", "empty"}
    [] c = "key" -> KeyAlts(f)
    [] c = "pre" -> PreAlts

\* ------------------------------------------------------------------------
\* the validity predicate, clause by clause.  Each clause that fails contributes its name.
HasIds(k) == k \notin {"CREF", "ONL"}
HasShareholders(k) == k \in {"FREF", "SIGN", "PRES"}

\* the party list the session would run with
Parties(f, t) ==
  LET k == Kind(f) IN
  IF k = "CREF" THEN (IF t.key = "emptypub" THEN {} ELSE IF t.key = "noown" THEN SH \ {Me} ELSE SH)
  ELSE IF k = "ONL" THEN (IF t.pre \in {"nil", "zero"} THEN {} ELSE PreSigners(t.pre))
  ELSE Range(t.ids)

Count(f, t) == IF HasIds(Kind(f)) THEN Len(t.ids) ELSE Cardinality(Parties(f, t))

SelfOf(f, t) == IF Kind(f) \in {"DKG", "DREF", "DSIGN"} THEN (IF Len(t.ids) > 0 THEN t.ids[1] ELSE Me) ELSE t.self

\* key-material fields a protocol never reads: the statement does not say whether their absence must be refused
Unneeded(f, key) ==
  \/ f = "cmp.Refresh" /\ key = "nopaillier"                         \* refresh generates a new Paillier key
  \/ f = "cmp.PresignOnline" /\ key \in {"noshare", "nopaillier"}    \* the online phase only uses the presignature shares
  \/ f \in {"frost.Sign", "frost.SignTaproot"} /\ key = "noown"      \* a signer never verifies its own share
  \/ f \in {"doerner.RefreshReceiver", "doerner.RefreshSender"} /\ key = "nosetup"   \* refresh redoes the OT setup

ThrBoundOK(thr, n) == IF Variant = "thr_le_n" THEN thr <= n ELSE thr <= n - 1

Hard(f, t) ==
  LET k == Kind(f)
      n == Count(f, t)
      P == Parties(f, t)
      keyGone == t.key \in {"nil"}
      preGone == t.pre \in {"nil", "zero"}
  IN
     (IF t.thr < 0 THEN {"thr-negative"} ELSE {})
  \cup (IF t.thr > MAXU THEN {"thr-overflow"} ELSE {})
  \cup (IF n = 0 /\ ~(k = "ONL" /\ preGone) /\ ~(k = "CREF" /\ keyGone) THEN {"ids-empty"} ELSE {})
  \cup (IF n > 0 /\ ~ThrBoundOK(t.thr, n) THEN {"thr-not-below-n"} ELSE {})
  \cup (IF HasIds(k) /\ Cardinality(Range(t.ids)) # Len(t.ids) THEN {"ids-duplicate"} ELSE {})
  \cup (IF n > 0 /\ SelfOf(f, t) \notin P THEN {"self-missing"} ELSE {})
  \cup (IF Variant # "nosubset" /\ (HasShareholders(k) \/ k = "ONL") /\ ~(P \subseteq SH) THEN {"ids-foreign"} ELSE {})
  \cup (IF Variant # "nomsg" /\ t.msg \in {"nil", "empty"} THEN {"msg-empty"} ELSE {})
  \cup (IF t.key = "nil" THEN {"key-nil"} ELSE {})
  \cup (IF t.key \notin {"ok", "na", "nil"} /\ ~Unneeded(f, t.key) THEN {"key-truncated"} ELSE {})
  \cup (IF t.pre = "nil" THEN {"pre-nil"} ELSE {})
  \cup (IF t.pre \notin {"ok", "na", "nil"} /\ ~PreWellFormed(t.pre) THEN {"pre-invalid"} ELSE {})

Soft(f, t) ==
     (IF Count(f, t) = 1 THEN {"single-party"} ELSE {})
  \cup (IF t.key \notin {"ok", "na", "nil"} /\ Unneeded(f, t.key) THEN {"key-field-unused"} ELSE {})

Expected(f, t) == IF Hard(f, t) # {} THEN "error" ELSE IF Soft(f, t) # {} THEN "either" ELSE "accept"

\* ------------------------------------------------------------------------
\* independent labelling of the single lattice values, straight from the wording of the statement
\* ("threshold negative or not smaller than the number of parties, duplicate or missing own identifier, signer set too
\* small or containing non-shareholders, empty message, absent or invalid key material or presignature")
StatementBad(f, c, v) ==
  LET k == Kind(f) IN
  CASE c = "thr" -> v \in {-1, NomN, MAXU, MAXU + 1}
    [] c = "ids" -> v \in {<<"a", "b", "b">>, <<"a", "a", "b">>, <<"a", "a", "b", "c">>, <<"a", "b", "c", "c">>, <<"a", "a">>,  \* duplicated
                           <<>>, <<"b", "c">>,                                                                       \* empty, own id missing
                           <<"a", "b", "z">>, <<"a", "z">>, <<"a", "b", "c", "z">>}                                  \* non-shareholder
                     \/ (v = <<"a">> /\ k # "XOR")                                                                \* too small for threshold 1
    [] c = "self" -> v = "z"
    [] c = "msg" -> TRUE
    [] c = "key" -> TRUE
    [] c = "pre" -> v # "minimal"

\* ------------------------------------------------------------------------
\* cases
Subst(t, c, v) == [t EXCEPT ![c] = v]

Singles(f) == UNION {{[tup |-> Subst(Nominal(f), c, v), ch |-> <<c>>] : v \in Alts(f, c)} : c \in Coords(Kind(f))}

Pairs(f) ==
  LET cs == CoordSeq(Kind(f)) IN
  UNION {UNION {{[tup |-> Subst(Subst(Nominal(f), cs[i], v), cs[j], w), ch |-> <<cs[i], cs[j]>>]
                  : v \in Alts(f, cs[i]), w \in Alts(f, cs[j])}
                : j \in (i + 1)..Len(cs)} : i \in 1..Len(cs)}

Cases(f) == {[tup |-> Nominal(f), ch |-> <<>>]} \cup Singles(f) \cup Pairs(f)

Chosen == IF Only = "all" THEN Funcs ELSE {Only}

VARIABLES pc, fn, cse, outcome
vars == <<pc, fn, cse, outcome>>

Init == pc = "idle" /\ fn = "none" /\ cse = [tup |-> Nominal("example.StartXOR"), ch |-> <<>>] /\ outcome = "none"

Choose == /\ pc = "idle"
          /\ \E f \in Chosen : \E c \in Cases(f) : fn' = f /\ cse' = c
          /\ pc' = "chosen" /\ UNCHANGED outcome

CallStart == /\ pc = "chosen"
             /\ outcome' = Expected(fn, cse.tup)
             /\ pc' = "called" /\ UNCHANGED <<fn, cse>>

Next == Choose \/ CallStart
Spec == Init /\ [][Next]_vars

\* ------------------------------------------------------------------------
\* invariants
TypeOK == /\ pc \in {"idle", "chosen", "called"}
          /\ outcome \in {"none", "error", "accept", "either"}
          /\ (pc = "called") = (outcome # "none")

NominalAccepted == pc = "idle" => \A f \in Chosen : Expected(f, Nominal(f)) = "accept"

Rank(o) == CASE o = "accept" -> 0 [] o = "either" -> 1 [] o = "error" -> 2

\* a second change never weakens the verdict of either change alone, except for the one interaction
\* the statement itself defines: an alternative threshold is judged against the alternative party count
Monotone ==
  pc = "called" /\ Len(cse.ch) = 2 =>
     LET nom == Nominal(fn)
         s1 == Subst(nom, cse.ch[1], cse.tup[cse.ch[1]])
         s2 == Subst(nom, cse.ch[2], cse.tup[cse.ch[2]])
         Interplay(s) == "thr" \in Range(cse.ch) /\ Hard(fn, s) = {"thr-not-below-n"}
     IN /\ Interplay(s1) \/ Rank(outcome) >= Rank(Expected(fn, s1))
        /\ Interplay(s2) \/ Rank(outcome) >= Rank(Expected(fn, s2))

Labelling ==
  pc = "called" /\ Len(cse.ch) = 1 =>
     LET c == cse.ch[1] IN
     IF StatementBad(fn, c, cse.tup[c]) THEN outcome # "accept" ELSE outcome # "error"

UnsortedIsValid ==
  pc = "called" /\ cse.ch = <<"ids">> /\ cse.tup.ids \in {<<"c", "a", "b">>, <<"c", "a">>, <<"b", "a">>} => outcome = "accept"

ClausesOf(f) ==
  LET k == Kind(f) IN
     (IF "thr" \in Coords(k) THEN {"thr-negative", "thr-overflow", "thr-not-below-n"} ELSE {})
  \cup (IF "ids" \in Coords(k) THEN {"ids-duplicate"} ELSE {})
  \cup (IF k \notin {"DKG", "DREF", "DSIGN"} THEN {"self-missing"} ELSE {})
  \cup (IF k \notin {"DKG", "DREF", "DSIGN", "ONL"} THEN {"ids-empty"} ELSE {})
  \cup (IF HasShareholders(k) \/ k = "ONL" THEN {"ids-foreign"} ELSE {})
  \cup (IF "msg" \in Coords(k) THEN {"msg-empty"} ELSE {})
  \cup (IF "key" \in Coords(k) THEN {"key-nil", "key-truncated"} ELSE {})
  \cup (IF "pre" \in Coords(k) THEN {"pre-nil", "pre-invalid"} ELSE {})

ClauseCovered ==
  pc = "idle" => \A f \in Chosen : \A cl \in ClausesOf(f) : \E s \in Singles(f) : cl \in Hard(f, s.tup)

\* every case is printed once (TLC evaluates an invariant once per distinct state)
Emit ==
  IF pc = "called"
  THEN PrintT(<<"CASE", ToJson([f |-> fn, thr |-> cse.tup.thr, ids |-> cse.tup.ids, self |-> SelfOf(fn, cse.tup), msg |-> cse.tup.msg,
                                 key |-> cse.tup.key, pre |-> cse.tup.pre, ch |-> cse.ch, exp |-> outcome,
                                 why |-> Hard(fn, cse.tup) \cup Soft(fn, cse.tup)])>>)
  ELSE TRUE
=============================================================================
