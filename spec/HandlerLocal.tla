---------------------------- MODULE HandlerLocal ----------------------------
(***************************************************************************)
(* Projection of Handler.tla on ONE handler (the focus party F) with the   *)
(* other, honest, parties replaced by an environment that makes a message  *)
(* available as soon as causality permits: a round-r message of a peer can *)
(* only exist once F has emitted its own round r-1 messages, i.e. once F   *)
(* has entered round r-1.  Handlers are independent objects, so the        *)
(* behaviour of one party depends only on its own delivery order; with the *)
(* history as a state variable TLC enumerates EVERY causal delivery order, *)
(* with duplicates, stale re-deliveries and foreign messages inserted at   *)
(* every position.  Each terminal history is printed as JSON and replayed  *)
(* on the real handler.                                                    *)
(***************************************************************************)
EXTENDS Handler, Json

CONSTANTS F,          \* the focus party
          Emit,       \* TRUE: print every terminal history (for replay)
          BadFrom, BadRd, BadB   \* the slot <<sender, round, broadcast?>> whose message fails verification ("none": no such slot)

VARIABLES hist, got
lvars == <<vars, hist, got>>

Others == P \ {F}
AllH == [k \in P |-> "h"]
HonestBv(r) == IF (r-1) \in ShapeB THEN AllH ELSE NoVH
HonestView(r) == [k \in 1..(r-2) |-> IF (k+1) \in ShapeB THEN AllH ELSE NoVH]

\* the slots F expects: <<sender, round, broadcast?>>
Slots == {<<j, r, TRUE>> : j \in Others, r \in ShapeB} \cup {<<j, r, FALSE>> : j \in Others, r \in ShapeM}

\* Bad mode: one peer's message of one slot does not verify (every other message is honest).  Every causal delivery order
\* is enumerated again; the focus party must end with an error that names exactly that peer - whether the message is met
\* on arrival or, having arrived early, when its round is entered - and the enumeration stops there (what happens after
\* the end is the subject of the lifecycle checks).
BadMode == BadFrom # "none"
IsBad(sl) == BadMode /\ sl = <<BadFrom, BadRd, BadB>>
MsgFor(sl) == Hdr(sl[1], IF sl[3] THEN "all" ELSE F, sl[2], sl[3], IF IsBad(sl) THEN "bad" ELSE "h", HonestBv(sl[2]), HonestView(sl[2]))
Live == BadMode => st[F] = "run"

LInit == Init /\ hist = <<>> /\ got = {}

LStart ==
  /\ st[F] = "new"
  /\ Commit(F, StartResult(F))
  /\ UNCHANGED <<net, inj, dup, frn, hist, got>>

Step(m) == IF Ignored(F, m) THEN UNCHANGED pvars ELSE Commit(F, AcceptResult(F, m, NoFlags))

Item(sl, kind) == [from |-> sl[1], rd |-> sl[2], b |-> sl[3], kind |-> kind]

\* first delivery of an expected message, as early as causality allows
Deliver(sl) ==
  /\ st[F] # "new" /\ sl \in Slots \ got /\ Live
  /\ sl[2] <= rnd[F] + 1
  /\ Step(MsgFor(sl))
  /\ got' = got \cup {sl}
  /\ hist' = Append(hist, Item(sl, "new"))
  /\ UNCHANGED <<net, inj, dup, frn>>

\* a copy of a message delivered before: a duplicate, or - if its round has passed - a stale message
Again(sl) ==
  /\ dup < MaxDup /\ sl \in got /\ Live
  /\ Step(MsgFor(sl))
  /\ dup' = dup + 1
  /\ hist' = Append(hist, Item(sl, "dup"))
  /\ UNCHANGED <<net, inj, frn, got>>

\* a message of another session / protocol, or for another recipient, shaped like an expected one
ForeignKinds == {"wrongSSID", "wrongProto", "readdress"}
Alien(sl, cls) ==
  /\ frn < MaxForeign /\ st[F] # "new" /\ sl \in Slots /\ cls \in ForeignKinds /\ Live
  /\ (cls = "readdress" => ~sl[3])
  /\ LET m0 == MsgFor(sl)
         m == IF cls = "readdress" THEN [m0 EXCEPT !.to = CHOOSE k \in Others : k # sl[1]] ELSE [m0 EXCEPT !.cls = cls]
     IN Step(m)
  /\ frn' = frn + 1
  /\ hist' = Append(hist, Item(sl, cls))
  /\ UNCHANGED <<net, inj, dup, got>>

LNext ==
  \/ LStart
  \/ \E sl \in Slots : Deliver(sl) \/ Again(sl)
  \/ \E sl \in Slots, cls \in ForeignKinds : Alien(sl, cls)

LSpec == LInit /\ [][LNext]_lvars /\ WF_lvars(LNext)

AllDelivered == got = Slots
\* C07 for one party: it never aborts, foreign / duplicate / stale deliveries never change anything,
\* and once everything was delivered it is done
LNeverAborts == st[F] # "err"
LDoneWhenAll == AllDelivered => st[F] = "done"
LNoEarlyDone == st[F] = "done" => AllDelivered
LProgress == <>(st[F] = "done")

\* bad mode: the party never completes, and its error names the sender of the failing message, nobody else
LBadNeverDone == BadMode => st[F] # "done"
LBadBlamed == (BadMode /\ st[F] = "err") => (ek[F] = "detected" /\ culp[F] = {BadFrom})
LBadEnds == BadMode => <>(st[F] = "err")

\* export: one JSON line per complete history (budgets need not be used up)
EmitHist == (Emit /\ ~BadMode /\ AllDelivered) => PrintT(<<"HIST", ToJson(hist)>>)
EmitBad == (Emit /\ BadMode /\ st[F] = "err") =>
   PrintT(<<"HISTB", ToJson([items |-> hist, post |-> [st |-> st[F], ek |-> ek[F], culp |-> culp[F], rnd |-> rnd[F]]])>>)
=============================================================================
