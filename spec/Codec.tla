------------------------------- MODULE Codec -------------------------------
(***************************************************************************)
(* C15 - stored key material round-trips; malformed material is refused.   *)
(*                                                                         *)
(* The module describes the eight result types of the library as lists of  *)
(* fields with a KIND (non-zero scalar, point, x-only key, party table,    *)
(* threshold, own id, fixed-size byte string, OT setup, prime, modulus,    *)
(* Pedersen parameter, message header field ...), the VALIDITY RULES of    *)
(* the statement (RulesOf), and a lattice of single-field and whole-object *)
(* corruptions of an encoding.  Every corruption is given its meaning on   *)
(* an abstract object (threshold value, table size, own entry present,     *)
(* duplicate, agreeing tables, rules broken by the leaf value itself) and  *)
(* the module COMPUTES from it, for every (type, field, corruption, n, t), *)
(* what a restore must do:                                                 *)
(*   "reject" - the bytes are not an encoding of any value of that kind    *)
(*              (a decoder that is sloppy here would break rule `risk`);   *)
(*   "error"  - the bytes decode field by field, but the object they       *)
(*              describe breaks the rules `rules`: restore must fail (or   *)
(*              repair it);                                                *)
(*   "valid"  - the bytes describe another valid object: restore may       *)
(*              accept (the object must then satisfy every rule) or fail.  *)
(*                                                                         *)
(* What TLC decides (on the model alone):                                  *)
(*   - the expected class of every case, with the threshold / table-size   *)
(*     arithmetic done for each (n, t)  (e.g. dropping a party is harmless *)
(*     iff t <= n-2; threshold n-1 is the largest valid one);              *)
(*   - LatticeSound: a case is "valid" only if no rule is broken;          *)
(*   - RuleCovered: every rule declared for a type is broken by at least   *)
(*     one case of that type, and no case breaks an undeclared rule;       *)
(*   - FieldCovered: every field has a rejecting and (where its kind       *)
(*     admits another valid value) an accepting case;                      *)
(*   - AcceptedIsValid for the reference decoder Decoder = "validating"    *)
(*     (accepts iff representable and no rule broken).  With Decoder =     *)
(*     "structural" (accepts whatever decodes field by field - what a      *)
(*     plain cbor.Unmarshal into a struct does) TLC must REJECT the        *)
(*     invariant: the negative control.                                    *)
(* What only the conformance run (cmd/codecdrv) decides: that the REAL     *)
(* decoders, fed the real corrupted encodings of real key material, never  *)
(* panic, never return nil for an object that breaks a rule (judged by     *)
(* independent predicates over math/big), never return a silently empty    *)
(* object, and restore the uncorrupted encoding to an equal object.  One   *)
(* rule cannot be seen on a restored object - a Go map cannot hold a party *)
(* twice - so for "duplicate-party" (list tables) the expected class of    *)
(* this module is binding: accepting such an encoding is the violation.    *)
(***************************************************************************)
EXTENDS Integers, Sequences, FiniteSets, TLC, Json

CONSTANTS Ns,        \* numbers of parties
          Ts,        \* thresholds (pairs with 0 <= t < n are used)
          Decoder,   \* "validating" | "structural"
          EmitCases

Types == <<"cmp.Config", "frost.Config", "frost.TaprootConfig", "doerner.ConfigReceiver", "doerner.ConfigSender",
           "ecdsa.PreSignature", "ecdsa.Signature", "protocol.Message">>
TypeSet == {Types[i] : i \in DOMAIN Types}

AllRules == {"zero-secret", "identity-point", "malformed-public-key", "bad-prime", "bad-modulus", "bad-pedersen",
             "inconsistent-threshold", "own-entry-missing", "duplicate-party", "missing-party", "wrong-size-bytes",
             "missing-setup", "empty-object"}

\* the validity rules the statement names, per type
RulesOf(ty) ==
  CASE ty = "cmp.Config" -> {"zero-secret", "identity-point", "bad-prime", "bad-modulus", "bad-pedersen", "inconsistent-threshold",
                             "own-entry-missing", "duplicate-party", "wrong-size-bytes", "empty-object"}
    [] ty = "frost.Config" -> {"zero-secret", "identity-point", "inconsistent-threshold", "own-entry-missing", "wrong-size-bytes", "empty-object"}
    [] ty = "frost.TaprootConfig" -> {"zero-secret", "identity-point", "malformed-public-key", "inconsistent-threshold", "own-entry-missing",
                                      "wrong-size-bytes", "empty-object"}
    [] ty \in {"doerner.ConfigReceiver", "doerner.ConfigSender"} -> {"zero-secret", "identity-point", "wrong-size-bytes", "missing-setup", "empty-object"}
    [] ty = "ecdsa.PreSignature" -> {"zero-secret", "identity-point", "missing-party", "wrong-size-bytes", "empty-object"}
    [] ty = "ecdsa.Signature" -> {"zero-secret", "identity-point", "empty-object"}
    [] ty = "protocol.Message" -> {"empty-object"}

HasThreshold(ty) == ty \in {"cmp.Config", "frost.Config", "frost.TaprootConfig"}
HasOwn(ty) == HasThreshold(ty)

F(name, kind) == [name |-> name, kind |-> kind]

Fields(ty) ==
  CASE ty = "cmp.Config" ->
         << F("ID", "ownid"), F("Threshold", "threshold"), F("ECDSA", "nzscalar"), F("ElGamal", "nzscalar"),
            F("P", "prime"), F("Q", "prime"), F("RID", "bytes32"), F("ChainKey", "bytes32"), F("Public", "listtable"),
            F("Public/other/ID", "entryid"), F("Public/other/ECDSA", "point"), F("Public/other/ElGamal", "point"),
            F("Public/other/N", "modulus"), F("Public/other/S", "pedersen"), F("Public/other/T", "pedersen"),
            F("Public/own/ID", "ownentryid"), F("Public/own/ECDSA", "derived"), F("Public/own/ElGamal", "derived"),
            F("Public/own/N", "derived"), F("Public/own/S", "pedersen"), F("Public/own/T", "pedersen") >>
    [] ty = "frost.Config" ->
         << F("ID", "ownid"), F("Threshold", "threshold"), F("PrivateShare", "nzscalar"), F("PublicKey", "point"),
            F("ChainKey", "bytes32"), F("VerificationShares", "maptable"),
            F("VerificationShares/other", "entrypoint"), F("VerificationShares/own", "entrypoint") >>
    [] ty = "frost.TaprootConfig" ->
         << F("ID", "ownid"), F("Threshold", "threshold"), F("PrivateShare", "nzscalar"), F("PublicKey", "xonly"),
            F("ChainKey", "bytes32"), F("VerificationShares", "maptable"),
            F("VerificationShares/other", "entrypoint"), F("VerificationShares/own", "entrypoint") >>
    [] ty \in {"doerner.ConfigReceiver", "doerner.ConfigSender"} ->
         << F("Setup", "setup"), F("SecretShare", "nzscalar"), F("Public", "point"), F("ChainKey", "bytes32") >>
    [] ty = "ecdsa.PreSignature" ->
         << F("ID", "bytes32"), F("R", "point"), F("RBar", "pairtable"), F("S", "pairtable"),
            F("RBar/other", "entrypoint"), F("S/other", "entrypoint"), F("KShare", "nzscalar"), F("ChiShare", "nzscalar") >>
    [] ty = "ecdsa.Signature" -> << F("R", "point"), F("S", "nzscalar") >>
    [] ty = "protocol.Message" ->
         << F("SSID", "mbytes"), F("From", "mtext"), F("To", "mtext"), F("Protocol", "mtext"), F("RoundNumber", "muint"),
            F("Data", "mbytes"), F("Broadcast", "mbool"), F("BroadcastVerification", "mbytes") >>

\* (n, t) the type is instantiated with: Doerner is two-party, a presignature is taken among two signers,
\* signatures and messages do not depend on it
Params(ty) ==
  IF HasThreshold(ty) THEN {p \in [n : Ns, t : Ts] : p.t < p.n}
  ELSE {[n |-> 2, t |-> 1]}

----------------------------------------------------------------------------
\* leaf corruptions: name, whether the bytes are representable as a value of the kind, the rules the decoded leaf
\* breaks, and the rule a sloppy primitive decoder would break when it accepts unrepresentable bytes
L(c, unrep, bad, risk) == [c |-> c, unrep |-> unrep, bad |-> bad, risk |-> risk]

LeafCorr(kind) ==
  CASE kind = "nzscalar" ->
         { L("absent", FALSE, {"zero-secret"}, {}), L("null", FALSE, {"zero-secret"}, {}), L("zero", FALSE, {"zero-secret"}, {}),
           L("empty", TRUE, {}, {"zero-secret"}), L("lenminus", TRUE, {}, {}), L("lenplus", TRUE, {}, {}),
           L("order", TRUE, {}, {"zero-secret"}), L("overflow", TRUE, {}, {}), L("wrongtype", TRUE, {}, {}),
           L("swap", FALSE, {}, {}), L("random", FALSE, {}, {}) }
    [] kind = "point" ->
         { L("absent", FALSE, {"identity-point"}, {}), L("null", FALSE, {"identity-point"}, {}),
           L("identity", TRUE, {}, {"identity-point"}), L("zero", TRUE, {}, {"identity-point"}), L("empty", TRUE, {}, {"identity-point"}),
           L("lenminus", TRUE, {}, {}), L("lenplus", TRUE, {}, {}), L("offcurve", TRUE, {}, {}), L("badprefix", TRUE, {}, {}),
           L("xoverflow", TRUE, {}, {}), L("wrongtype", TRUE, {}, {}),
           L("negate", FALSE, {}, {}), L("swap", FALSE, {}, {}) }
    [] kind = "entrypoint" ->
         { L("null", FALSE, {"identity-point"}, {}),
           L("identity", TRUE, {}, {"identity-point"}), L("zero", TRUE, {}, {"identity-point"}), L("empty", TRUE, {}, {"identity-point"}),
           L("lenminus", TRUE, {}, {}), L("lenplus", TRUE, {}, {}), L("offcurve", TRUE, {}, {}), L("badprefix", TRUE, {}, {}),
           L("wrongtype", TRUE, {}, {}), L("negate", FALSE, {}, {}), L("swap", FALSE, {}, {}) }
    [] kind = "xonly" ->   \* a plain byte string in Go: everything decodes, the rules must catch it
         { L("absent", FALSE, {"malformed-public-key"}, {}), L("null", FALSE, {"malformed-public-key"}, {}),
           L("empty", FALSE, {"malformed-public-key"}, {}), L("zero", FALSE, {"malformed-public-key"}, {}),
           L("lenminus", FALSE, {"malformed-public-key"}, {}), L("lenplus", FALSE, {"malformed-public-key"}, {}),
           L("offcurve", FALSE, {"malformed-public-key"}, {}), L("xoverflow", FALSE, {"malformed-public-key"}, {}),
           L("wrongtype", TRUE, {}, {}), L("swap", FALSE, {}, {}) }
    [] kind = "bytes32" ->
         { L("absent", FALSE, {"wrong-size-bytes"}, {}), L("null", FALSE, {"wrong-size-bytes"}, {}), L("empty", FALSE, {"wrong-size-bytes"}, {}),
           L("lenminus", FALSE, {"wrong-size-bytes"}, {}), L("lenplus", FALSE, {"wrong-size-bytes"}, {}),
           L("wrongtype", TRUE, {}, {}), L("zero", FALSE, {}, {}), L("swap", FALSE, {}, {}), L("random", FALSE, {}, {}) }
    [] kind = "setup" ->   \* fixed-size arrays of secret OT keys
         { L("absent", FALSE, {"missing-setup"}, {}), L("null", FALSE, {"missing-setup"}, {}),
           L("zero", FALSE, {"zero-secret"}, {}),
           L("empty", TRUE, {}, {"zero-secret"}), L("lenminus", TRUE, {}, {"zero-secret"}), L("lenplus", TRUE, {}, {}),
           L("half", TRUE, {}, {"zero-secret"}), L("wrongtype", TRUE, {}, {}), L("swap", FALSE, {}, {}), L("random", FALSE, {}, {}) }
    [] kind = "prime" ->
         { L("absent", FALSE, {"bad-prime"}, {}), L("null", FALSE, {"bad-prime"}, {}), L("empty", FALSE, {"bad-prime"}, {}),
           L("small", FALSE, {"bad-prime"}, {}), L("smallpadded", FALSE, {"bad-prime"}, {}),   \* padded: the same tiny value in full-width bytes
           L("short", FALSE, {"bad-prime"}, {}), L("long", FALSE, {"bad-prime"}, {}),
           L("even", FALSE, {"bad-prime"}, {}), L("notblum", FALSE, {"bad-prime"}, {}), L("composite", FALSE, {"bad-prime"}, {}),
           L("notsafe", FALSE, {"bad-prime"}, {}), L("halfprime", FALSE, {"bad-prime"}, {}),
           L("wrongtype", TRUE, {}, {}), L("swap", FALSE, {}, {}) }
    [] kind = "modulus" ->
         { L("absent", FALSE, {"bad-modulus"}, {}), L("null", FALSE, {"bad-modulus"}, {}), L("empty", FALSE, {"bad-modulus"}, {}),
           L("even", FALSE, {"bad-modulus"}, {}), L("short", FALSE, {"bad-modulus"}, {}), L("long", FALSE, {"bad-modulus"}, {}),
           L("small", FALSE, {"bad-modulus"}, {}), L("smallpadded", FALSE, {"bad-modulus"}, {}), L("wrongtype", TRUE, {}, {}) }
    [] kind = "pedersen" ->
         { L("absent", FALSE, {"bad-pedersen"}, {}), L("null", FALSE, {"bad-pedersen"}, {}), L("zero", FALSE, {"bad-pedersen"}, {}),
           L("equal", FALSE, {"bad-pedersen"}, {}), L("modulus", FALSE, {"bad-pedersen"}, {}), L("toolarge", FALSE, {"bad-pedersen"}, {}),
           L("wrongtype", TRUE, {}, {}), L("one", FALSE, {}, {}), L("swap", FALSE, {}, {}), L("random", FALSE, {}, {}) }
    [] kind = "derived" ->   \* redundant copies the decoder may ignore or recompute
         { L("absent", FALSE, {}, {}), L("null", FALSE, {}, {}), L("empty", FALSE, {}, {}), L("zero", FALSE, {}, {}),
           L("lenminus", FALSE, {}, {}), L("random", FALSE, {}, {}), L("wrongtype", TRUE, {}, {}) }
    [] kind = "mbytes" ->
         { L("absent", FALSE, {}, {}), L("null", FALSE, {}, {}), L("empty", FALSE, {}, {}), L("zero", FALSE, {}, {}),
           L("lenminus", FALSE, {}, {}), L("lenplus", FALSE, {}, {}), L("random", FALSE, {}, {}), L("wrongtype", TRUE, {}, {}) }
    [] kind = "mtext" ->
         { L("absent", FALSE, {}, {}), L("null", FALSE, {}, {}), L("empty", FALSE, {}, {}), L("swap", FALSE, {}, {}),
           L("invalidutf8", TRUE, {}, {}), L("wrongtype", TRUE, {}, {}) }
    [] kind = "muint" ->
         { L("absent", FALSE, {}, {}), L("null", FALSE, {}, {}), L("zero", FALSE, {}, {}), L("inc", FALSE, {}, {}),
           L("max16", FALSE, {}, {}), L("over16", TRUE, {}, {}), L("negative", TRUE, {}, {}), L("wrongtype", TRUE, {}, {}) }
    [] kind = "mbool" ->
         { L("absent", FALSE, {}, {}), L("null", FALSE, {}, {}), L("negate", FALSE, {}, {}), L("wrongtype", TRUE, {}, {}) }
    [] OTHER -> {}

\* structural corruptions (their meaning depends on n and t)
StructCorr(kind) ==
  CASE kind = "threshold"  -> {"absent", "null", "zero", "neg", "eqn", "nminus1", "huge", "wrongtype"}
    [] kind = "ownid"      -> {"absent", "null", "empty", "unknown", "other", "wrongtype"}
    [] kind = "maptable"   -> {"absent", "null", "emptymap", "dropown", "dropother", "extra", "dupkey", "innertrunc", "wrongtype"}
    [] kind = "pairtable"  -> {"absent", "null", "emptymap", "dropother", "extra", "dupkey", "innertrunc", "wrongtype"}
    [] kind = "listtable"  -> {"absent", "null", "emptylist", "dropown", "dropother", "extra", "dupown", "dupother", "entrynotmap", "wrongtype"}
    [] kind = "entryid"    -> {"absent", "unknown", "dupother", "dupown"}
    [] kind = "ownentryid" -> {"absent", "unknown", "dupother"}
    [] OTHER -> {}

\* whole-object corruptions
\* ("emptymapjunk": an empty map followed by garbage - a decoder that stops after the first item sees an empty object)
WholeCorr == {"emptybytes", "trunc1q", "trunc2q", "trunc3q", "trunclast", "randombytes", "emptymap", "emptymapjunk", "trailing", "nullvalue"}

----------------------------------------------------------------------------
\* the abstract object
Obj0(p) == [thr |-> p.t, size |-> p.n, own |-> TRUE, dup |-> FALSE, agree |-> TRUE, empty |-> FALSE, bad |-> {}]

\* effect of a structural corruption: [unrep, obj]
E(unrep, obj) == [unrep |-> unrep, obj |-> obj]
Struct(kind, c, p) ==
  LET o == Obj0(p)
      thr == CASE c \in {"absent", "null", "zero"} -> 0
               [] c = "neg" -> 0 - 1
               [] c = "eqn" -> p.n
               [] c = "nminus1" -> p.n - 1
               [] OTHER -> 2147483647
      tab == CASE c \in {"absent", "null", "emptymap", "emptylist"} -> [o EXCEPT !.size = 0, !.own = FALSE]
               [] c = "dropown"   -> [o EXCEPT !.size = p.n - 1, !.own = FALSE]
               [] c = "dropother" -> [o EXCEPT !.size = p.n - 1]
               [] c = "extra"     -> [o EXCEPT !.size = p.n + 1]
               [] c \in {"dupown", "dupother"} -> [o EXCEPT !.size = p.n + 1, !.dup = TRUE]
               [] OTHER -> o    \* dupkey: a Go map cannot hold the duplicate - the object is unaffected, or the decoder refuses
      pair == CASE c \in {"absent", "null", "emptymap"} -> [o EXCEPT !.size = 0, !.agree = FALSE]
                [] c = "dropother" -> [o EXCEPT !.size = p.n - 1, !.agree = FALSE]
                [] c = "extra"     -> [o EXCEPT !.size = p.n + 1, !.agree = FALSE]
                [] OTHER -> o
      \* the id inside another party's entry of a list table: a renamed party is nothing the rules can see
      eid == IF c \in {"dupother", "dupown"} THEN [o EXCEPT !.dup = TRUE] ELSE o
      \* the id inside the own entry
      oid == IF c = "dupother" THEN [o EXCEPT !.own = FALSE, !.dup = TRUE] ELSE [o EXCEPT !.own = FALSE]
  IN
  CASE c \in {"wrongtype", "innertrunc", "entrynotmap"} -> E(TRUE, o)
    [] kind = "threshold"  -> E(FALSE, [o EXCEPT !.thr = thr])
    [] kind = "ownid"      -> E(FALSE, [o EXCEPT !.own = (c = "other")])
    [] kind \in {"maptable", "listtable"} -> E(FALSE, tab)
    [] kind = "pairtable"  -> E(FALSE, pair)
    [] kind = "entryid"    -> E(FALSE, eid)
    [] kind = "ownentryid" -> E(FALSE, oid)

Broken(ty, o) ==
  o.bad
  \cup (IF HasThreshold(ty) /\ (o.thr < 0 \/ o.thr > o.size - 1) THEN {"inconsistent-threshold"} ELSE {})
  \cup (IF HasOwn(ty) /\ ~o.own THEN {"own-entry-missing"} ELSE {})
  \cup (IF o.dup THEN {"duplicate-party"} ELSE {})
  \cup (IF ~o.agree THEN {"missing-party"} ELSE {})
  \cup (IF o.empty THEN {"empty-object"} ELSE {})

Class(unrep, rules) == IF unrep THEN "reject" ELSE IF rules # {} THEN "error" ELSE "valid"

MkCase(ty, fname, kind, c, p, unrep, rules, risk) ==
  [ty |-> ty, field |-> fname, kind |-> kind, c |-> c, n |-> p.n, t |-> p.t,
   expect |-> Class(unrep, rules), rules |-> rules, risk |-> risk]

\* a no-op is not a corruption
Noop(kind, c, p) ==
  \/ kind = "threshold" /\ c \in {"zero"} /\ p.t = 0
  \/ kind = "threshold" /\ c = "nminus1" /\ p.t = p.n - 1
  \/ kind \in {"maptable", "listtable", "pairtable"} /\ c \in {"dropother", "dupother"} /\ p.n < 2
  \/ kind = "entryid" /\ c = "dupother" /\ p.n < 3      \* needs a third member to collide with
  \/ kind = "ownid" /\ c = "other" /\ p.n < 2

FieldCases(ty) ==
  UNION { UNION {
     { MkCase(ty, Fields(ty)[i].name, Fields(ty)[i].kind, l.c, p, l.unrep, Broken(ty, [Obj0(p) EXCEPT !.bad = l.bad]), l.risk)
         : l \in LeafCorr(Fields(ty)[i].kind) }
     \cup
     { MkCase(ty, Fields(ty)[i].name, Fields(ty)[i].kind, c, p, Struct(Fields(ty)[i].kind, c, p).unrep,
              Broken(ty, Struct(Fields(ty)[i].kind, c, p).obj), {})
         : c \in {x \in StructCorr(Fields(ty)[i].kind) : ~Noop(Fields(ty)[i].kind, x, p)} }
     : i \in DOMAIN Fields(ty) } : p \in Params(ty) }

\* whole-object corruptions; "othertype" feeds a valid encoding of every other type
WholeCases(ty) ==
  LET p == CHOOSE q \in Params(ty) : \A r \in Params(ty) : (q.n < r.n) \/ (q.n = r.n /\ q.t <= r.t) IN
  { MkCase(ty, "*", "whole", c, p,
           c \in {"emptybytes", "trunc1q", "trunc2q", "trunc3q", "trunclast", "randombytes"},
           IF c \in {"emptymap", "emptymapjunk", "nullvalue"} THEN {"empty-object"} ELSE {}, {"empty-object"}) : c \in WholeCorr }
  \cup
  { MkCase(ty, other, "whole", "othertype", p, FALSE, {"empty-object"}, {}) : other \in TypeSet \ {ty} }

Cases == UNION {FieldCases(ty) \cup WholeCases(ty) : ty \in TypeSet}

----------------------------------------------------------------------------
\* design facts
LatticeSound == \A x \in Cases : (x.expect = "valid") => x.rules = {}
RuleCovered ==
  /\ \A ty \in TypeSet : \A r \in RulesOf(ty) : \E x \in Cases : x.ty = ty /\ x.expect = "error" /\ r \in x.rules
  /\ \A x \in Cases : x.rules \subseteq RulesOf(x.ty) /\ x.risk \subseteq RulesOf(x.ty)
KindHasOther(kind) == kind \in {"nzscalar", "point", "entrypoint", "xonly", "bytes32", "setup", "prime", "pedersen", "threshold",
                                "ownid", "maptable", "listtable", "entryid"}
FieldCovered ==
  \A ty \in TypeSet : \A i \in DOMAIN Fields(ty) :
     /\ \E x \in Cases : x.ty = ty /\ x.field = Fields(ty)[i].name /\ x.expect \in {"reject", "error"}
     /\ KindHasOther(Fields(ty)[i].kind) => \E x \in Cases : x.ty = ty /\ x.field = Fields(ty)[i].name /\ x.expect = "valid"
\* boundary arithmetic of the threshold rule, stated independently of Struct
ThresholdBoundary ==
  \A x \in Cases : (x.kind = "threshold" /\ x.c \in {"nminus1", "zero"}) => x.expect = "valid"
DropBoundary ==
  \A x \in Cases : (x.kind \in {"maptable", "listtable"} /\ x.c = "dropother") => (x.expect = "valid" <=> x.t <= x.n - 2)
ASSUME LatticeSound /\ RuleCovered /\ FieldCovered /\ ThresholdBoundary /\ DropBoundary

----------------------------------------------------------------------------
\* the reference decoders on the lattice
None == [ty |-> "none", field |-> "", kind |-> "", c |-> "", n |-> 0, t |-> 0, expect |-> "", rules |-> {}, risk |-> {}]
VARIABLE cur
Init == cur = None
Next == cur = None /\ \E x \in Cases : cur' = x

Accepts(x) == IF Decoder = "validating" THEN x.expect = "valid" ELSE x.expect # "reject"
AcceptedIsValid == (cur # None /\ Accepts(cur)) => cur.rules = {}
RejectedIsInformed == (cur # None /\ ~Accepts(cur)) => (cur.expect = "reject" \/ cur.rules # {})

Emit == (EmitCases /\ cur # None) => PrintT(<<"CASE", ToJson(cur)>>)
=============================================================================
