------------------------------ MODULE TwoParty ------------------------------
(***************************************************************************)
(* The two-party handler (pkg/protocol/twoparty.go) used by the Doerner    *)
(* protocols: strict ping-pong.  Differences from the multi-party handler, *)
(* all modelled as coded: one slot per round (`messages[rd] = msg`, the    *)
(* LAST message for a round wins), no rejection of past rounds, no         *)
(* duplicate filter, no broadcast and no echo, errors carry no culprits;   *)
(* `advance()` loops while the current round needs no message or its       *)
(* message is stored.  A message is numbered by the round in which its     *)
(* RECIPIENT consumes it: the first mover needs no message in round 1 and  *)
(* emits message r when it finalizes round r; the other party needs        *)
(* message r in every round r and emits message r+1 (nothing in the final  *)
(* round) - as observed on the Doerner protocols.  Payload variants as in Handler.tla: "h" honest, "mut" an altered *)
(* real message (whether it verifies is left to the real code), "junk"     *)
(* undecodable.                                                            *)
(***************************************************************************)
EXTENDS Integers, Sequences, FiniteSets, TLC

CONSTANTS P,         \* the two parties (strings)
          Honest,    \* honest subset
          R,         \* final round number
          First,     \* the party that moves first (its round 1 needs no message; Doerner: the receiver "Bob")
          Variants, MaxInject, MaxDup, StopAllowed

None == "none"
Peer(i) == CHOOSE j \in P : j # i
Byz == P \ Honest
NoMsg == [from |-> None, to |-> None, rd |-> 0, var |-> None, cls |-> "ok"]

VARIABLES rnd, st, ek, slot, net, inj, dup
vars == <<rnd, st, ek, slot, net, inj, dup>>
pvars == <<rnd, st, ek, slot>>

Loc(i) == [rnd |-> rnd[i], st |-> st[i], ek |-> ek[i], slot |-> slot[i], outm |-> {}]
Msg(from, to, rd, var) == [from |-> from, to |-> to, rd |-> rd, var |-> var, cls |-> "ok"]
AbortS(s, kind) == [s EXCEPT !.st = "err", !.ek = kind]

ContentOK(m, f) == CASE m.var = "junk" -> FALSE [] m.var = "bad" -> FALSE [] m.var = "mut" -> f.mut [] OTHER -> TRUE
Flags == [mut : IF "mut" \in Variants THEN BOOLEAN ELSE {TRUE}, proto : BOOLEAN, pr : 1..R]
NoFlags == [mut |-> TRUE, proto |-> FALSE, pr |-> 1]

NeedsMsg(i, r) == r > 1 \/ i # First
EmitNo(i, r) == IF i = First THEN r ELSE (IF r < R THEN r + 1 ELSE 0)

RECURSIVE Advance(_, _, _)
\* twoparty.go:advance
Advance(i, s, f) ==
  IF s.st # "run" THEN s
  ELSE IF NeedsMsg(i, s.rnd) /\ s.slot[s.rnd] = NoMsg THEN s                \* canAdvance() is false
  ELSE IF NeedsMsg(i, s.rnd) /\ ~ContentOK(s.slot[s.rnd], f) THEN AbortS(s, "detected")
  ELSE IF f.proto /\ f.pr = s.rnd THEN AbortS(s, "proto")                   \* Finalize returned an error / round.Abort
  ELSE LET out == IF EmitNo(i, s.rnd) = 0 THEN {} ELSE {[m |-> Msg(i, Peer(i), EmitNo(i, s.rnd), "h"), rc |-> Peer(i)]}
       IN IF s.rnd = R THEN [s EXCEPT !.st = "done", !.outm = s.outm \cup out]
          ELSE Advance(i, [s EXCEPT !.rnd = s.rnd + 1, !.outm = s.outm \cup out], f)

Commit(i, s) ==
  /\ rnd' = [rnd EXCEPT ![i] = s.rnd]
  /\ st' = [st EXCEPT ![i] = s.st]
  /\ ek' = [ek EXCEPT ![i] = s.ek]
  /\ slot' = [slot EXCEPT ![i] = s.slot]

Notice(i) == {[m |-> Msg(i, "all", 0, "h"), rc |-> Peer(i)]}
EmptySlots == [r \in 1..R |-> NoMsg]

Init ==
  /\ rnd = [i \in Honest |-> 1]
  /\ st = [i \in Honest |-> "new"]
  /\ ek = [i \in Honest |-> None]
  /\ slot = [i \in Honest |-> EmptySlots]
  /\ net = {} /\ inj = 0 /\ dup = 0

StartResult(i) == Advance(i, [Loc(i) EXCEPT !.st = "run"], NoFlags)      \* a no-op unless round 1 needs no message
Start(i) ==
  /\ st[i] = "new"
  /\ LET s == StartResult(i) IN Commit(i, s) /\ net' = net \cup {x \in s.outm : x.rc \in Honest}
  /\ UNCHANGED <<inj, dup>>

\* twoparty.go:canAccept - note: no lower bound on the round number
CanAcceptP(i, m) ==
  /\ m.cls = "ok"
  /\ m.to \in {"all", i} /\ m.from # i /\ m.from \in P
  /\ m.rd <= R
  /\ m.rd >= 0
Ignored(i, m) == st[i] # "run" \/ ~CanAcceptP(i, m)

AcceptResult(i, m, f) ==
  IF m.rd = 0 THEN AbortS(Loc(i), "notified")
  ELSE Advance(i, [Loc(i) EXCEPT !.slot[m.rd] = m], f)

WireOf(i, s) == {y \in s.outm : y.rc \in Honest} \cup (IF s.st = "err" THEN {y \in Notice(i) : y.rc \in Honest} ELSE {})

Accept(i, x, keep, f) ==
  LET m == x.m IN
  /\ x \in net /\ x.rc = i /\ st[i] # "new"
  /\ IF Ignored(i, m)
     THEN UNCHANGED pvars /\ net' = IF keep THEN net ELSE net \ {x}
     ELSE LET s == AcceptResult(i, m, f) IN Commit(i, s) /\ net' = (IF keep THEN net ELSE net \ {x}) \cup WireOf(i, s)
  /\ dup' = IF keep THEN dup + 1 ELSE dup
  /\ UNCHANGED inj

Stop(i) ==
  /\ StopAllowed /\ st[i] = "run"
  /\ Commit(i, AbortS(Loc(i), "stopped"))
  /\ net' = net \cup {y \in Notice(i) : y.rc \in Honest}
  /\ UNCHANGED <<inj, dup>>

ByzSend(k, j, r, var) ==
  /\ inj < MaxInject /\ k \in Byz /\ j \in Honest /\ r \in 0..R
  /\ net' = net \cup {[m |-> Msg(k, j, r, var), rc |-> j]}
  /\ inj' = inj + 1
  /\ UNCHANGED <<pvars, dup>>

Next ==
  \/ \E i \in Honest : Start(i) \/ Stop(i)
  \/ \E i \in Honest, x \in net, f \in {g \in Flags : ~g.proto} :
        Accept(i, x, FALSE, f) \/ (dup < MaxDup /\ Accept(i, x, TRUE, f))
  \/ \E k \in Byz, j \in Honest, r \in 0..R, var \in Variants : ByzSend(k, j, r, var)

Spec == Init /\ [][Next]_vars /\ WF_vars(Next)

----------------------------------------------------------------------------
TypeOK == \A i \in Honest : rnd[i] \in 1..R /\ st[i] \in {"new", "run", "done", "err"}
AllHonest == Byz = {} /\ ~StopAllowed
\* C07: with both parties honest nobody aborts and both finish, whatever is duplicated or re-delivered late
HonestNeverAborts == AllHonest => \A i \in Honest : st[i] # "err"
AllDone == \A i \in Honest : st[i] = "done"
NoDeadlock == (AllHonest /\ ~AllDone) => ENABLED Next
Completes == AllHonest => <>AllDone
\* C03 (handler part): a party never completes on content that fails verification
NoBadAccepted == \A i \in Honest : st[i] = "done" => \A r \in 1..R : slot[i][r].var \notin {"bad", "junk"}
\* C17: terminal states are stable
ResultStable == [][\A i \in Honest : st[i] \in {"done", "err"} => (st'[i] = st[i] /\ ek'[i] = ek[i] /\ rnd'[i] = rnd[i])]_vars
=============================================================================
