------------------------------ MODULE SigVerify ------------------------------
(***************************************************************************************************)
(* C16 - stand-alone signature primitives conform to their standards.                              *)
(*                                                                                                 *)
(* The subject is a family of pure functions, so this module is a TRANSCRIBED CASE ANALYSIS, not a *)
(* model of a reactive system.  Every routine named by the property is written as the DECISION     *)
(* PROCEDURE its standard prescribes - an ordered list of checks followed by output decisions -    *)
(* over ABSTRACT VALUE CLASSES of one input (e.g. "s >= n", "x >= p", "parity byte flipped",       *)
(* "s built with the un-negated nonce", "R' = infinity").  One behaviour = one input: Init picks   *)
(* the routine and a tuple of classes, every step evaluates the next check of the standard, the    *)
(* first failing check fixes the verdict and the reason.                                           *)
(*                                                                                                 *)
(*   bipverify    BIP-340 Verify(pk, m, sig)                    -> taproot.PublicKey.Verify        *)
(*   ecdsaverify  decode R (33 bytes), decode s (32 bytes), ECDSA verification on the FULL nonce   *)
(*                point  s^-1(e*G + r*X) = R                    -> Point/Scalar.UnmarshalBinary,   *)
(*                                                                 ecdsa.Signature.Verify          *)
(*   liftx        BIP-340 lift_x                                -> curve.Secp256k1.LiftX           *)
(*   public       BIP-340 public key generation                 -> taproot.SecretKey.Public        *)
(*   sign         BIP-340 default signing (negation rules)      -> taproot.SecretKey.Sign          *)
(*   ethexport    low-s normalisation + recovery id             -> ecdsa.Signature.SigEthereum     *)
(*                                                                                                 *)
(* WHAT TLC DECIDES (on the model alone):                                                          *)
(*  - it enumerates EVERY path through every decision procedure within the class lattice (all      *)
(*    combinations with at most MaxPert fields off their conforming class) and prints one CASE per *)
(*    path with the verdict, the reason and the output decisions the standard prescribes;          *)
(*  - AcceptIffConforming: the ordered checks accept exactly the inputs that are conforming in the *)
(*    SEMANTIC sense (Conforming is stated independently of the order of checks; it knows, e.g.,   *)
(*    that flipping the parity byte of R AND negating s is again a valid ECDSA signature, and that *)
(*    a change of the hash beyond its leftmost 256 bits is immaterial);                            *)
(*  - SinglePerturbationRejected: every single-field perturbation of a valid input is rejected;    *)
(*  - FirstFailure: the reason is the first failing check in the standard's order;                 *)
(*  - EthExportSound: the recovery id is the parity of the nonce point for which (r, s') verifies, *)
(*    and s' is low;                                                                               *)
(*  - negative controls: with Skip = <a check> (a verifier that omits that check) or               *)
(*    Variant = "xonly" (textbook ECDSA that compares only x-coordinates) TLC must REJECT          *)
(*    AcceptIffConforming.                                                                         *)
(* The mathematical facts about which class combination leads to which computed point R' are       *)
(* AXIOMS of this module (operator Comp / EquationHolds); they hold exactly or with overwhelming   *)
(* probability and are re-checked for every concrete input by the independent oracle.              *)
(*                                                                                                 *)
(* WHAT ONLY THE CONFORMANCE RUN DECIDES: that the real Go routines give, for a concrete input     *)
(* constructed to lie in the classes of a case (independent secp256k1 over math/big), the verdict  *)
(* / stage / output this module prescribes; byte-exact equality with the BIP-340 reference signer  *)
(* and the published BIP-340 vectors; public-key recovery from the Ethereum export.                *)
(***************************************************************************************************)
EXTENDS Integers, Sequences, FiniteSets, TLC, Json

CONSTANTS Procs,     \* subset of AllProcs
          MaxPert,   \* at most this many fields outside their conforming classes
          Skip,      \* negative control: a check name the (wrong) verifier omits; "none" = the standard
          Variant,   \* "std" | "xonly" (negative control for ecdsaverify)
          Emit       \* print the cases

VARIABLES proc, inp, comp, pc, trail, verdict
vars == <<proc, inp, comp, pc, trail, verdict>>

AllProcs == {"bipverify", "ecdsaverify", "liftx", "public", "sign", "ethexport"}

(***************************************************************************************************)
(* Class lattice: for every routine, its fields, the classes of each field, and the conforming     *)
(* ("good") classes, i.e. those a valid input may take.                                            *)
(***************************************************************************************************)
InputsOf(p) ==
  CASE p = "bipverify" ->
         [ sigLen : {"len64", "len0", "len32", "len63", "len65", "len96"},
           pkLen  : {"len32", "len0", "len31", "len33", "len31crafted"},
           pk     : {"genuine", "otherKey", "noRoot", "geP"},
           r      : {"genuine", "other", "geP"},           \* other: < p but not x(R) (0, 1, n-1, n, p-1, ...)
           s      : {"valid", "nonceFlipped", "forInf", "other", "geN"},
           msg    : {"same", "changed"} ]
    [] p = "ecdsaverify" ->
         [ rLen    : {"len33", "len0", "len32", "len34", "len65"},
           rPrefix : {"canon", "flipped", "noncanon"},
           rPar    : {"even", "odd"},
           rX      : {"genuine", "geN", "isN", "otherPoint", "noRoot", "geP", "smallXPlusP"},
           sLen    : {"len32", "len0", "len31", "len33"},
           s       : {"valid", "zero", "negated", "other", "geN", "validPlusN"},
           hash    : {"same", "changedTail", "changedHead", "forInf"},   \* forInf: e = -r*d, so that e*G + r*X = infinity whatever s is
           pub     : {"genuine", "other"} ]
    [] p = "liftx" ->
         [ x : {"evenSrc", "oddSrc", "noRoot", "geP"} ]
    [] p = "public" ->
         [ skLen : {"len32", "len0", "len31", "len33"},
           sk    : {"valid", "zero", "geN"},
           pPar  : {"evenP", "oddP"} ]
    [] p = "sign" ->
         [ skLen : {"len32", "len0", "len31", "len33"},
           sk    : {"valid", "zero", "geN"},
           pPar  : {"evenP", "oddP"},
           rPar  : {"evenR", "oddR", "anyR"},
           rnd   : {"aux32", "nil", "failing", "short"} ]
    [] p = "ethexport" ->
         [ rPar : {"even", "odd"},
           s    : {"low", "one", "halfN", "halfNp1", "high", "nm1"} ]

Good(p) ==
  CASE p = "bipverify" ->
         [ sigLen |-> {"len64"}, pkLen |-> {"len32"}, pk |-> {"genuine"}, r |-> {"genuine"}, s |-> {"valid"}, msg |-> {"same"} ]
    [] p = "ecdsaverify" ->
         [ rLen |-> {"len33"}, rPrefix |-> {"canon"}, rPar |-> {"even", "odd"}, rX |-> {"genuine", "geN"},
           sLen |-> {"len32"}, s |-> {"valid"}, hash |-> {"same", "changedTail"}, pub |-> {"genuine"} ]
    [] p = "liftx"  -> [ x |-> {"evenSrc", "oddSrc"} ]
    [] p = "public" -> [ skLen |-> {"len32"}, sk |-> {"valid"}, pPar |-> {"evenP", "oddP"} ]
    [] p = "sign"   -> [ skLen |-> {"len32"}, sk |-> {"valid"}, pPar |-> {"evenP", "oddP"},
                         rPar |-> {"evenR", "oddR", "anyR"}, rnd |-> {"aux32", "nil"} ]
    [] p = "ethexport" -> [ rPar |-> {"even", "odd"}, s |-> {"low", "one", "halfN", "halfNp1", "high", "nm1"} ]

Fields(p) == DOMAIN Good(p)
AllInputs(p) == InputsOf(p)
Pert(p, i) == Cardinality({ f \in Fields(p) : i[f] \notin Good(p)[f] })

(* Combinations that can be constructed / make sense. *)
Feasible(p, i) ==
  CASE p = "bipverify" ->
         /\ (i.s \in {"nonceFlipped", "forInf"} => i.pk \in {"genuine", "otherKey"})   \* needs the secret of the key used
         /\ (i.pkLen = "len31crafted" => i.pk = "genuine")
    [] p = "sign" -> (i.rPar = "anyR") <=> (i.rnd # "aux32")                        \* nonce parity is only controllable through aux
    [] p = "ecdsaverify" -> (i.hash = "forInf" => (i.rX = "genuine" /\ i.pub = "genuine"))   \* needs the secret of the key and the r that is sent
    [] OTHER -> TRUE

(***************************************************************************************************)
(* The standards' ordered checks.                                                                  *)
(***************************************************************************************************)
Checks(p) ==
  CASE p = "bipverify"   -> <<"sigLen", "pkLen", "liftPk", "rRange", "sRange", "Rinf", "Reven", "Rx">>
    [] p = "ecdsaverify" -> <<"rLen", "rPrefix", "rRange", "rCurve", "sLen", "sRange", "rZero", "sZero", "equation">>
    [] p = "liftx"       -> <<"range", "root">>
    [] p = "public"      -> <<"skLen", "skRange">>
    [] p = "sign"        -> <<"skLen", "skRange", "rand">>
    [] p = "ethexport"   -> <<>>

Stage(p, why) ==
  IF p # "ecdsaverify" THEN "call"
  ELSE IF why \in {"rLen", "rPrefix", "rRange", "rCurve"} THEN "decodeR"
  ELSE IF why \in {"sLen", "sRange"} THEN "decodeS"
  ELSE "verify"

(* BIP-340: the checks that precede the computation of R' = s*G - e*P. *)
BipPre == {"sigLen", "pkLen", "liftPk", "rRange", "sRange"}
BipPreFails(i, c) ==
  CASE c = "sigLen" -> i.sigLen # "len64"
    [] c = "pkLen"  -> i.pkLen # "len32"
    [] c = "liftPk" -> i.pk \in {"noRoot", "geP"}
    [] c = "rRange" -> i.r = "geP"
    [] c = "sRange" -> i.s = "geN"

(* AXIOM (BIP-340 algebra).  Which point R' = s*G - e*P the verifier computes, per class tuple:      *)
(*   forInf       s = e*d                      => R' = infinity (whatever r is); "infZeroR": r is    *)
(*                                                moreover the value (0 or 1) a careless implementation *)
(*                                                reports as x(infinity), with has_even_y(inf) = true   *)
(*                                                (BIP-340 test vectors 9 and 10)                       *)
(*   nonceFlipped s = -k + e*d, k*G = R even   => R' = -R: odd Y, x(R') = x(R)                       *)
(*   everything genuine                        => R' = R:  even Y, x(R') = r                         *)
(*   anything else (r, pk, m or s perturbed)   => R' is an unrelated point: x(R') # r, either parity *)
(* forInf / nonceFlipped are built with respect to the final (r, pk, m); the rest are perturbations  *)
(* of a valid signature.                                                                             *)
Comp(p, i) ==
  IF p # "bipverify" THEN {"na"}
  ELSE IF \E c \in BipPre : BipPreFails(i, c) THEN {"na"}
  ELSE IF i.s = "forInf" THEN (IF i.r = "other" THEN {"inf", "infZeroR"} ELSE {"inf"})
  ELSE IF i.s = "nonceFlipped" THEN (IF i.r = "genuine" THEN {"oddMatch"} ELSE {"oddOther"})
  ELSE IF i.s = "valid" /\ i.r = "genuine" /\ i.pk = "genuine" /\ i.msg = "same" THEN {"evenMatch"}
  ELSE {"oddOther", "evenOther"}

(* AXIOM (ECDSA algebra): s^-1(e*G + r*X) = R for the decoded R, s.  Holds for an untouched signature, and also    *)
(* for (-R, -s): flipping the parity byte and negating s cancel.  e only depends on the leftmost 256 bits of hash. *)
(* Two classes are valid signatures in a NON-CANONICAL ENCODING: "validPlusN" is s + n for a valid s < 2^256 - n, and      *)
(* "smallXPlusP" is x + p for a nonce point with x < 2^256 - p (the key is solved for); a decoder that reduces instead of   *)
(* rejecting would make them verify, so the equation "holds" for them - the range checks are what must reject them.         *)
EquationHolds(i) ==
  /\ i.rX \in {"genuine", "geN", "smallXPlusP"} /\ i.hash \in {"same", "changedTail"} /\ i.pub = "genuine"
  /\ \/ i.rPrefix = "canon" /\ i.s \in {"valid", "validPlusN"}
     \/ i.rPrefix = "flipped" /\ i.s = "negated"
  (* with a non-canonical prefix no standard decoding exists; irrelevant here because rPrefix is checked before *)

(* Textbook r/s verification (negative control): only x(R) enters, so the parity byte is immaterial. *)
EquationHoldsXOnly(i) ==
  /\ i.rX \in {"genuine", "geN", "smallXPlusP"} /\ i.hash \in {"same", "changedTail"} /\ i.pub = "genuine"
  /\ i.s \in {"valid", "validPlusN"}

Fails(p, i, cm, c) ==
  IF c = Skip THEN FALSE
  ELSE
  CASE p = "bipverify" /\ c \in BipPre -> BipPreFails(i, c)
    [] p = "bipverify" /\ c = "Rinf"   -> cm \in {"inf", "infZeroR"}
    [] p = "bipverify" /\ c = "Reven"  -> cm \in {"oddMatch", "oddOther"}
    [] p = "bipverify" /\ c = "Rx"     -> cm \in {"oddOther", "evenOther", "inf"}   \* NOT infZeroR: there x(inf) "equals" r
    [] p = "ecdsaverify" /\ c = "rLen"    -> i.rLen # "len33"
    [] p = "ecdsaverify" /\ c = "rPrefix" -> i.rPrefix = "noncanon"
    [] p = "ecdsaverify" /\ c = "rRange"  -> i.rX \in {"geP", "smallXPlusP"}
    [] p = "ecdsaverify" /\ c = "rCurve"  -> i.rX = "noRoot"
    [] p = "ecdsaverify" /\ c = "sLen"    -> i.sLen # "len32"
    [] p = "ecdsaverify" /\ c = "sRange"  -> i.s \in {"geN", "validPlusN"}
    [] p = "ecdsaverify" /\ c = "rZero"   -> i.rX = "isN"         \* x(R) = n is on the curve: r = x mod n = 0
    [] p = "ecdsaverify" /\ c = "sZero"   -> i.s = "zero"
    [] p = "ecdsaverify" /\ c = "equation" -> IF Variant = "xonly" THEN ~EquationHoldsXOnly(i) ELSE ~EquationHolds(i)
    [] p = "liftx" /\ c = "range" -> i.x = "geP"
    [] p = "liftx" /\ c = "root"  -> i.x = "noRoot"
    [] p \in {"public", "sign"} /\ c = "skLen"   -> i.skLen # "len32"
    [] p \in {"public", "sign"} /\ c = "skRange" -> i.sk \in {"zero", "geN"}
    [] p = "sign" /\ c = "rand" -> i.rnd \in {"failing", "short"}

(***************************************************************************************************)
(* Output decisions on acceptance.                                                                 *)
(***************************************************************************************************)
NoOut == [ none |-> "na" ]
Flip(par) == IF par = "even" THEN "odd" ELSE "even"
IsHigh(s) == s \in {"halfNp1", "high", "nm1"}               \* s > floor(n/2)

Outputs(p, i) ==
  CASE p = "liftx"  -> [ y |-> "even", point |-> IF i.x = "evenSrc" THEN "src" ELSE "negSrc" ]
    [] p = "public" -> [ form |-> "xonly32", lifts |-> IF i.pPar = "evenP" THEN "P" ELSE "negP" ]
    [] p = "sign"   -> [ negD |-> IF i.pPar = "oddP" THEN "yes" ELSE "no",
                         negK |-> IF i.rPar = "oddR" THEN "yes" ELSE IF i.rPar = "evenR" THEN "no" ELSE "unknown",
                         mode |-> IF i.rnd = "aux32" THEN "exact" ELSE "validOnly" ]
    [] p = "ethexport" ->                          \* as the code does it: v := prefix - 2; if s is high: s := n - s, v := v xor 1
         LET v0 == IF i.rPar = "even" THEN 0 ELSE 1
             v  == IF IsHigh(i.s) THEN 1 - v0 ELSE v0
         IN [ sAction |-> IF IsHigh(i.s) THEN "negate" ELSE "keep", v |-> IF v = 0 THEN "0" ELSE "1", len |-> "65" ]
    [] OTHER -> NoOut

(***************************************************************************************************)
(* The machine: one behaviour per input.                                                           *)
(***************************************************************************************************)
NoVerdict == [ acc |-> "pending", why |-> "none", stage |-> "none", out |-> NoOut ]

Init ==
  /\ proc \in Procs
  /\ inp \in { i \in AllInputs(proc) : Pert(proc, i) <= MaxPert /\ Feasible(proc, i) }
  /\ comp \in Comp(proc, inp)
  /\ pc = 1
  /\ trail = <<>>
  /\ verdict = NoVerdict

Step ==
  /\ verdict.acc = "pending"
  /\ IF pc > Len(Checks(proc))
       THEN /\ verdict' = [ acc |-> "accept", why |-> "ok", stage |-> Stage(proc, "ok"), out |-> Outputs(proc, inp) ]
            /\ UNCHANGED <<pc, trail>>
       ELSE LET c == Checks(proc)[pc] IN
            /\ trail' = Append(trail, c)
            /\ IF Fails(proc, inp, comp, c)
                 THEN /\ verdict' = [ acc |-> "reject", why |-> c, stage |-> Stage(proc, c), out |-> NoOut ]
                      /\ pc' = pc
                 ELSE /\ pc' = pc + 1
                      /\ UNCHANGED verdict
  /\ UNCHANGED <<proc, inp, comp>>

Next == Step
Spec == Init /\ [][Next]_vars

Done == verdict.acc # "pending"

(***************************************************************************************************)
(* Properties of the model.                                                                        *)
(***************************************************************************************************)
TypeOK ==
  /\ proc \in AllProcs
  /\ pc \in 1..(Len(Checks(proc)) + 1)
  /\ verdict.acc \in {"pending", "accept", "reject"}

(* Semantic conformance, stated without reference to the order of checks. *)
Conforming(p, i, cm) ==
  CASE p = "bipverify" ->
         /\ i.sigLen = "len64" /\ i.pkLen = "len32" /\ i.pk \notin {"noRoot", "geP"} /\ i.r # "geP" /\ i.s # "geN"
         /\ cm = "evenMatch"
    [] p = "ecdsaverify" ->
         /\ i.rLen = "len33" /\ i.rPrefix # "noncanon" /\ i.rX \notin {"geP", "smallXPlusP", "noRoot", "isN"}
         /\ i.sLen = "len32" /\ i.s \notin {"geN", "validPlusN", "zero"}
         /\ EquationHolds(i)
    [] OTHER -> Pert(p, i) = 0

AcceptIffConforming == Done => ((verdict.acc = "accept") <=> Conforming(proc, inp, comp))

(* the double flip (-R, -s) is the only accepted input that is not field-by-field the original *)
SinglePerturbationRejected == (Done /\ Pert(proc, inp) = 1) => verdict.acc = "reject"
UntouchedAccepted == (Done /\ Pert(proc, inp) = 0) => verdict.acc = "accept"

FirstFailure ==
  Done /\ verdict.acc = "reject" =>
     /\ trail = SubSeq(Checks(proc), 1, Len(trail))
     /\ verdict.why = trail[Len(trail)]
     /\ \A k \in 1..(Len(trail) - 1) : ~Fails(proc, inp, comp, trail[k])
     /\ Fails(proc, inp, comp, verdict.why)

(* Ethereum export: (r, s', v) must be low-s and v must be the parity of the nonce point for which (r, s') *)
(* satisfies the ECDSA equation: R itself when s is kept, -R when s is negated.                            *)
EthExportSound ==
  (Done /\ proc = "ethexport") =>
     LET o == verdict.out
         pointPar == IF o.sAction = "negate" THEN Flip(inp.rPar) ELSE inp.rPar
     IN /\ verdict.acc = "accept"
        /\ (o.sAction = "negate") <=> IsHigh(inp.s)
        /\ o.v = (IF pointPar = "even" THEN "0" ELSE "1")

CaseRecord == [ proc |-> proc, inp |-> inp, comp |-> comp, acc |-> verdict.acc, why |-> verdict.why,
                stage |-> verdict.stage, out |-> verdict.out, pert |-> Pert(proc, inp), trail |-> trail ]

EmitCase == IF Done /\ Emit THEN PrintT(<<"CASE", ToJson(CaseRecord)>>) ELSE TRUE
=============================================================================
