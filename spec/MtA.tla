-------------------------------- MODULE MtA --------------------------------
(***************************************************************************)
(* C12 - the multiplicative-to-additive conversion built on Paillier.      *)
(*                                                                         *)
(* Receiver key N = P*Q (module Paillier), sender key SN = SP*SQ.          *)
(*   receiver:  K = Enc_N(b; rk)                                           *)
(*   sender:    D = (a (.) K) (+) Enc_N(-beta; s),  F = Enc_SN(-beta; sr)  *)
(*   receiver:  alpha = Dec_N(D)                                           *)
(*                                                                         *)
(* What TLC decides on the tiny keys, for EVERY a, b in the symmetric      *)
(* range (plus a few a outside it) and every beta in BetaSet:              *)
(*  - alpha = SymMod_N(a*b - beta)                          (LawMta)       *)
(*  - alpha + beta = a*b OVER THE INTEGERS exactly when a*b - beta is in   *)
(*    range; otherwise alpha + beta differs from a*b by a non-zero         *)
(*    multiple of N                                         (LawMta)       *)
(*  - Dec_SN(F) = -beta                                     (LawMta)       *)
(*  - the scaled-down size argument used at real size: scalars bounded by  *)
(*    SA in absolute value and |beta| <= SB with SA*SA + SB <= half always *)
(*    give the exact class, and the bound is tight          (LawBound)     *)
(* and it prints the table (one row per (a, beta), a vector over b).       *)
(*                                                                         *)
(* What only the conformance run decides: (i) the real paillier package,   *)
(* composed exactly as internal/mta.newMta composes it                     *)
(* (Enc(-beta;s).Add(K.Clone().Mul(a))), reproduces every entry of the     *)
(* table on the tiny keys (newMta itself is unexported and draws beta from *)
(* +-2^1280, so it cannot run on a tiny key); (ii) mta.ProveAffG /         *)
(* mta.ProveAffP on real 2048-bit keys for the scalar lattice printed      *)
(* below (kind "mlat"): the receiver's decryption (library and independent *)
(* math/big) satisfies alpha + beta = a*b over the integers, F decrypts to *)
(* -beta under the sender's key, beta is in +-2^l', the proof verifies.    *)
(***************************************************************************)
EXTENDS Paillier

CONSTANTS SP, SQ,        \* sender's tiny key
          BetaMode       \* "all" | "lattice"

SN == SP * SQ
SHalf == HalfOf(SN)

ASSUME SenderKeyOK == SP > 2 /\ SQ > 2 /\ SP # SQ /\ Gcd(SN, (SP - 1) * (SQ - 1)) = 1

Min(x, y) == IF x < y THEN x ELSE y
Abs(x) == IF x < 0 THEN -x ELSE x
BH == Min(Half, SHalf)                 \* beta must be encryptable under both keys
BetaSet == IF BetaMode = "all" THEN (-BH)..BH
           ELSE {-BH, -BH + 1, -2, -1, 0, 1, 2, BH - 1, BH}
AScal == Range \cup {Half + 1, -Half - 1, N - 1, N, N + 1, -N - 1}

RECURSIVE SortedSeq(_)
SortedSeq(S) == IF S = {} THEN <<>>
                ELSE LET m == CHOOSE x \in S : \A y \in S : x <= y IN <<m>> \o SortedSeq(S \ {m})
UnitSeq == SortedSeq(UnitsN)
SUnitSeq == SortedSeq(Units(SN))
Pick(seq, i) == seq[(i % Len(seq)) + 1]
\* nonces vary with the row so that the table is not tied to one randomiser
NonceK(a, beta) == Pick(UnitSeq, 3 * (a + N + 1) + (beta + N))
NonceS(a, beta) == Pick(UnitSeq, 5 * (beta + N) + (a + N + 1) + 1)
NonceF(a, beta) == Pick(SUnitSeq, 7 * (beta + N) + 2 * (a + N + 1))

MtaD(a, K, beta, s) == Add(Enc(-beta, s), Mul(K, a))

MInit == row \in {Row("mta", a, beta) : a \in AScal, beta \in BetaSet} \cup {Row("mlat", 0, 0)}
MNext == UNCHANGED row

LawMta ==
    row.kind = "mta" =>
        LET a == row.a
            beta == row.b
            F == EncOf(SN, -beta, NonceF(a, beta))
        IN  /\ ValidOf(SN, F)
            /\ DecOf(SP, SQ, F) = -beta
            /\ \A b \in Range :
                 LET K == Enc(b, NonceK(a, beta))
                     D == MtaD(a, K, beta, NonceS(a, beta))
                     alpha == Dec(D)
                 IN  /\ Valid(D)
                     /\ alpha = Sym(a * b - beta)
                     /\ (InRange(a * b - beta) => alpha + beta = a * b)
                     /\ (~InRange(a * b - beta) => /\ alpha + beta # a * b
                                                   /\ (alpha + beta - a * b) % N = 0)

\* scaled-down version of "q*q + 2^l' < (N-1)/2": SA = largest scalar magnitude, SB = largest |beta|
RECURSIVE ISqrt(_, _)
ISqrt(x, g) == IF (g + 1) * (g + 1) > x THEN g ELSE ISqrt(x, g + 1)
SA == ISqrt(Half \div 2, 0)
SB == Half - SA * SA
ScalNames == <<"0", "1", "2", "q-1", "q-2", "rnd">>
ScalTiny(s) == CASE s = "0" -> 0 [] s = "1" -> 1 [] s = "2" -> 2 [] s = "q-1" -> SA [] s = "q-2" -> SA - 1
                 [] s = "rnd" -> SA \div 2 + 1
MLat == {<<k, ScalNames[i], ScalNames[j]>> : k \in {"affg", "affp"}, i \in 1..Len(ScalNames), j \in 1..Len(ScalNames)}

LawBound ==
    row.kind = "mlat" =>
        /\ SA >= 2 /\ SB >= 1 /\ SA * SA + SB <= Half
        /\ \A a \in (-SA)..SA, b \in (-SA)..SA, beta \in (-SB)..SB : InRange(a * b - beta)
        /\ \E a \in (-SA)..SA, b \in (-SA)..SA : ~InRange(a * b - (-SB - 1))          \* the bound is tight
        /\ \A c \in MLat : \A beta \in {-SB, -1, 0, 1, SB} :
              LET a == ScalTiny(c[2])
                  b == ScalTiny(c[3])
                  D == MtaD(a, Enc(b, 2), beta, N - 1)
              IN  Dec(D) + beta = a * b

MtaOut(a, beta) ==
    LET rk == NonceK(a, beta)
        s == NonceS(a, beta)
        sr == NonceF(a, beta)
        D(b) == MtaD(a, Enc(b, rk), beta, s)
        A(b) == Dec(D(b))
        E(b) == IF InRange(a * b - beta) THEN 1 ELSE 0
    IN  [kind |-> "mta", a |-> a, beta |-> beta, rk |-> rk, s |-> s, sr |-> sr, lo |-> -Half,
         f |-> EncOf(SN, -beta, sr),
         ds |-> SeqOver(-Half, Half, D), alphas |-> SeqOver(-Half, Half, A), exact |-> SeqOver(-Half, Half, E)]

MEmit ==
    /\ row.kind = "mta" => PrintT(<<"ROW", ToJson(MtaOut(row.a, row.b))>>)
    /\ row.kind = "mlat" => \A c \in MLat :
          PrintT(<<"MLAT", ToJson([kind |-> "mlat", proof |-> c[1], a |-> c[2], b |-> c[3], class |-> "exact"])>>)
=============================================================================
