// Package toy is a small deterministic round protocol with a configurable shape, built on the
// library's real internal/round package and driven through the real protocol.MultiHandler.
// It exists so that *every* delivery order of a small session can be replayed on the real handler
// in milliseconds. Content of every round after the first depends on the sender's view of all
// earlier broadcasts, so - like the real protocols - verification fails at a receiver whose view differs.
package toy

import (
	"bytes"
	"crypto/rand"
	"crypto/sha256"
	"errors"
	"fmt"
	"sort"

	"github.com/taurusgroup/multi-party-sig/internal/round"
	"github.com/taurusgroup/multi-party-sig/pkg/party"
	"github.com/taurusgroup/multi-party-sig/pkg/protocol"
)

// Shape says for rounds 2..R whether a broadcast and/or a p2p message is expected.
type Shape struct {
	B []bool // index r-2
	M []bool
}

func (s Shape) R() int { return len(s.B) + 1 }

// ParseShape parses e.g. "b,bm,m" (one item per round starting with round 2).
func ParseShape(str string) (Shape, error) {
	var s Shape
	cur := ""
	flush := func() error {
		b, m := false, false
		for _, c := range cur {
			switch c {
			case 'b':
				b = true
			case 'm':
				m = true
			default:
				return fmt.Errorf("bad shape %q", str)
			}
		}
		if !b && !m {
			return fmt.Errorf("empty round in shape %q", str)
		}
		s.B = append(s.B, b)
		s.M = append(s.M, m)
		cur = ""
		return nil
	}
	for _, c := range str {
		if c == ',' {
			if err := flush(); err != nil {
				return s, err
			}
			continue
		}
		cur += string(c)
	}
	if err := flush(); err != nil {
		return s, err
	}
	return s, nil
}

// Result of the toy protocol: a digest over everything the party stored.
type Result struct {
	Digest []byte
}

type state struct {
	*round.Helper
	shape Shape
	nonce []byte
	// nonces[j] as learnt in round 2
	nonces map[party.ID][]byte
	// bvals[r][j], mvals[r][j]: stored values
	bvals map[int]map[party.ID][]byte
	mvals map[int]map[party.ID][]byte
}

// Content is the wire format of both message kinds.
type Content struct {
	round.NormalBroadcastContent
	R     round.Number
	Nonce []byte
	V     []byte
	// Salt is fresh randomness in every broadcast; any value is valid, so a party can send two different,
	// individually valid broadcasts in any round (what an equivocator does)
	Salt []byte
}

func (c *Content) RoundNumber() round.Number { return c.R }

type plain struct {
	*state
	n int
}

type bcast struct {
	*plain
}

func h(parts ...[]byte) []byte {
	hh := sha256.New()
	for _, p := range parts {
		var l [4]byte
		l[0], l[1], l[2], l[3] = byte(len(p)>>24), byte(len(p)>>16), byte(len(p)>>8), byte(len(p))
		hh.Write(l[:])
		hh.Write(p)
	}
	return hh.Sum(nil)
}

// pubView is the digest of all broadcast values of rounds < r as this party stored them.
func (s *state) pubView(r int) []byte {
	var acc [][]byte
	for q := 2; q < r; q++ {
		if !s.shape.B[q-2] {
			continue
		}
		for _, id := range s.PartyIDs() {
			acc = append(acc, []byte{byte(q)}, []byte(id), s.bvals[q][id])
		}
	}
	return h(acc...)
}

// value of a message. Like in the real protocols (e.g. CMP sign round 2), a p2p message of a round that
// also has a broadcast is bound to the sender's broadcast of the same round, so it can only be verified
// once that broadcast has been stored.
func (s *state) value(kind string, from, to party.ID, r int, nonce []byte) []byte {
	var own []byte
	if kind == "m" && s.shape.B[r-2] {
		own = s.bvals[r][from]
		if own == nil {
			return nil
		}
	}
	return h([]byte(kind), []byte(from), []byte(to), []byte{byte(r)}, nonce, s.pubView(r), own)
}

func (p *plain) Number() round.Number { return round.Number(p.n) }

func (p *plain) MessageContent() round.Content {
	if p.n >= 2 && p.shape.M[p.n-2] {
		return &Content{}
	}
	return nil
}

func (p *plain) check(kind string, msg round.Message) ([]byte, error) {
	c, ok := msg.Content.(*Content)
	if !ok || c == nil {
		return nil, round.ErrInvalidContent
	}
	if int(c.R) != p.n {
		return nil, errors.New("toy: wrong round in content")
	}
	nonce := p.nonces[msg.From]
	if p.n == 2 {
		if len(c.Nonce) != 16 {
			return nil, errors.New("toy: bad nonce")
		}
		if nonce != nil && !bytes.Equal(nonce, c.Nonce) {
			return nil, errors.New("toy: nonce differs between broadcast and message")
		}
		nonce = c.Nonce
	} else if nonce == nil {
		return nil, errors.New("toy: unknown nonce")
	}
	to := msg.To
	if kind == "b" {
		to = ""
	}
	if want := p.value(kind, msg.From, to, p.n, nonce); want == nil {
		return nil, errors.New("toy: the sender's broadcast of this round is not stored yet")
	} else if !bytes.Equal(c.V, want) {
		return nil, errors.New("toy: value does not verify")
	}
	return nonce, nil
}

func (p *plain) VerifyMessage(msg round.Message) error {
	if p.n < 2 {
		return nil
	}
	if msg.To != p.SelfID() {
		return errors.New("toy: message for somebody else")
	}
	_, err := p.check("m", msg)
	return err
}

func (p *plain) StoreMessage(msg round.Message) error {
	if p.n < 2 {
		return nil
	}
	c := msg.Content.(*Content)
	if p.n == 2 {
		p.nonces[msg.From] = c.Nonce
	}
	p.mvals[p.n][msg.From] = c.V
	return nil
}

func (b *bcast) BroadcastContent() round.BroadcastContent { return &Content{} }

func (b *bcast) StoreBroadcastMessage(msg round.Message) error {
	nonce, err := b.check("b", msg)
	if err != nil {
		return err
	}
	c := msg.Content.(*Content)
	if b.n == 2 {
		b.nonces[msg.From] = nonce
	}
	if len(c.Salt) != 8 {
		return errors.New("toy: bad salt")
	}
	b.bvals[b.n][msg.From] = append(append([]byte(nil), c.V...), c.Salt...)
	return nil
}

func (s *state) mk(n int) round.Session {
	p := &plain{state: s, n: n}
	if n >= 2 && s.shape.B[n-2] {
		return &bcast{plain: p}
	}
	return p
}

func (p *plain) Finalize(out chan<- *round.Message) (round.Session, error) {
	if p.n == 1 {
		p.nonce = make([]byte, 16)
		if _, err := rand.Read(p.nonce); err != nil {
			return nil, err
		}
		p.nonces[p.SelfID()] = p.nonce
	}
	if p.n == p.shape.R() {
		// result: digest over everything stored
		var acc [][]byte
		for r := 2; r <= p.shape.R(); r++ {
			for _, id := range p.PartyIDs() {
				acc = append(acc, []byte{byte(r)}, []byte(id), p.bvals[r][id], p.mvals[r][id])
			}
		}
		ids := make([]string, 0)
		for id := range p.nonces {
			ids = append(ids, string(id))
		}
		sort.Strings(ids)
		for _, id := range ids {
			acc = append(acc, []byte(id), p.nonces[party.ID(id)])
		}
		return p.ResultRound(&Result{Digest: h(acc...)}), nil
	}
	nx := p.n + 1
	self := p.SelfID()
	var nonce []byte
	if nx == 2 {
		nonce = p.nonce
	}
	if p.shape.B[nx-2] {
		v := p.value("b", self, "", nx, p.nonce)
		salt := make([]byte, 8)
		if _, err := rand.Read(salt); err != nil {
			return nil, err
		}
		p.bvals[nx][self] = append(append([]byte(nil), v...), salt...)
		if err := p.BroadcastMessage(out, &Content{R: round.Number(nx), Nonce: nonce, V: v, Salt: salt}); err != nil {
			return nil, err
		}
	}
	if p.shape.M[nx-2] {
		for _, j := range p.OtherPartyIDs() {
			v := p.value("m", self, j, nx, p.nonce)
			if err := p.SendMessage(out, &Content{R: round.Number(nx), Nonce: nonce, V: v}, j); err != nil {
				return nil, err
			}
		}
	}
	return p.mk(nx), nil
}

// ProtocolID of the toy protocol.
const ProtocolID = "verif/toy"

// Start returns a StartFunc for the toy protocol.
func Start(self party.ID, ids []party.ID, shape Shape) protocol.StartFunc {
	return func(sessionID []byte) (round.Session, error) {
		info := round.Info{
			ProtocolID:       ProtocolID,
			FinalRoundNumber: round.Number(shape.R()),
			SelfID:           self,
			PartyIDs:         ids,
		}
		helper, err := round.NewSession(info, sessionID, nil)
		if err != nil {
			return nil, err
		}
		s := &state{Helper: helper, shape: shape, nonces: map[party.ID][]byte{},
			bvals: map[int]map[party.ID][]byte{}, mvals: map[int]map[party.ID][]byte{}}
		for r := 2; r <= shape.R(); r++ {
			s.bvals[r] = map[party.ID][]byte{}
			s.mvals[r] = map[party.ID][]byte{}
		}
		return s.mk(1), nil
	}
}
