// Package oracle holds INDEPENDENT reference implementations (math/big + standard library, plus blake3 for the
// transcript hash) of the mathematics the library under test implements: secp256k1 group law, ECDSA verification and
// recovery, BIP-340 (Schnorr/taproot) signing and verification, BIP-32 public derivation, Lagrange interpolation,
// the library's framed transcript hash and its plain-Schnorr (FROST) challenge.
//
// It must never import any package of github.com/taurusgroup/multi-party-sig: its whole value is that it does not
// share code with the library.  Nothing here is constant time; it is a test oracle.
package oracle

import (
	"bytes"
	"crypto/hmac"
	"crypto/sha256"
	"crypto/sha512"
	"encoding/binary"
	"errors"
	"io"
	"math/big"

	"github.com/zeebo/blake3"
)

// secp256k1 domain parameters (SEC 2, section 2.4.1).
var (
	P, _  = new(big.Int).SetString("FFFFFFFFFFFFFFFFFFFFFFFFFFFFFFFFFFFFFFFFFFFFFFFFFFFFFFFEFFFFFC2F", 16)
	N, _  = new(big.Int).SetString("FFFFFFFFFFFFFFFFFFFFFFFFFFFFFFFEBAAEDCE6AF48A03BBFD25E8CD0364141", 16)
	Gx, _ = new(big.Int).SetString("79BE667EF9DCBBAC55A06295CE870B07029BFCDB2DCE28D959F2815B16F81798", 16)
	Gy, _ = new(big.Int).SetString("483ADA7726A3C4655DA4FBFC0E1108A8FD17B448A68554199C47D08FFB10D4B8", 16)

	seven    = big.NewInt(7)
	sqrtExp  = new(big.Int).Rsh(new(big.Int).Add(P, big.NewInt(1)), 2) // (p+1)/4, p = 3 mod 4
	halfN    = new(big.Int).Rsh(N, 1)
	bigZero  = big.NewInt(0)
	bigOne   = big.NewInt(1)
	bigTwo   = big.NewInt(2)
	bigThree = big.NewInt(3)
)

// HalfN returns floor(N/2): s is "low" iff s <= HalfN().
func HalfN() *big.Int { return new(big.Int).Set(halfN) }

// Pt is an affine point; Inf = identity (X, Y are then ignored).
type Pt struct {
	X, Y *big.Int
	Inf  bool
}

// Infinity is the identity element.
func Infinity() Pt { return Pt{X: new(big.Int), Y: new(big.Int), Inf: true} }

// G is the generator.
func G() Pt { return Pt{X: new(big.Int).Set(Gx), Y: new(big.Int).Set(Gy)} }

func modP(x *big.Int) *big.Int { return x.Mod(x, P) }

// Add is the affine group law (chord and tangent).
func Add(a, b Pt) Pt {
	if a.Inf {
		return cp(b)
	}
	if b.Inf {
		return cp(a)
	}
	var lam *big.Int
	if a.X.Cmp(b.X) == 0 {
		if a.Y.Cmp(b.Y) != 0 || a.Y.Sign() == 0 {
			return Infinity() // a = -b
		}
		// tangent: 3x^2 / 2y
		num := new(big.Int).Mul(a.X, a.X)
		num.Mul(num, bigThree)
		den := new(big.Int).Mul(a.Y, bigTwo)
		den.ModInverse(modP(den), P)
		lam = modP(num.Mul(num, den))
	} else {
		num := new(big.Int).Sub(b.Y, a.Y)
		den := new(big.Int).Sub(b.X, a.X)
		den.ModInverse(modP(den), P)
		lam = modP(num.Mul(modP(num), den))
	}
	x3 := new(big.Int).Mul(lam, lam)
	x3.Sub(x3, a.X)
	x3.Sub(x3, b.X)
	modP(x3)
	y3 := new(big.Int).Sub(a.X, x3)
	y3.Mul(y3, lam)
	y3.Sub(y3, a.Y)
	modP(y3)
	return Pt{X: x3, Y: y3}
}

func cp(a Pt) Pt {
	if a.Inf {
		return Infinity()
	}
	return Pt{X: new(big.Int).Set(a.X), Y: new(big.Int).Set(a.Y)}
}

// Neg returns -a.
func Neg(a Pt) Pt {
	if a.Inf {
		return Infinity()
	}
	y := new(big.Int).Sub(P, a.Y)
	modP(y)
	return Pt{X: new(big.Int).Set(a.X), Y: y}
}

// Sub returns a-b.
func Sub(a, b Pt) Pt { return Add(a, Neg(b)) }

// Mul returns k*p with k reduced mod N (double-and-add, most significant bit first).
func Mul(k *big.Int, p Pt) Pt {
	kk := new(big.Int).Mod(k, N)
	acc := Infinity()
	for i := kk.BitLen() - 1; i >= 0; i-- {
		acc = Add(acc, acc)
		if kk.Bit(i) == 1 {
			acc = Add(acc, p)
		}
	}
	return acc
}

// BaseMul returns k*G.
func BaseMul(k *big.Int) Pt { return Mul(k, G()) }

// Equal compares two points.
func Equal(a, b Pt) bool {
	if a.Inf || b.Inf {
		return a.Inf && b.Inf
	}
	return a.X.Cmp(b.X) == 0 && a.Y.Cmp(b.Y) == 0
}

// OnCurve reports whether p is the identity or satisfies y^2 = x^3 + 7 with reduced coordinates.
func OnCurve(p Pt) bool {
	if p.Inf {
		return true
	}
	if p.X.Sign() < 0 || p.Y.Sign() < 0 || p.X.Cmp(P) >= 0 || p.Y.Cmp(P) >= 0 {
		return false
	}
	l := new(big.Int).Mul(p.Y, p.Y)
	modP(l)
	return l.Cmp(rhs(p.X)) == 0
}

func rhs(x *big.Int) *big.Int {
	r := new(big.Int).Mul(x, x)
	r.Mul(r, x)
	r.Add(r, seven)
	return modP(r)
}

// sqrtP returns a square root of c mod P if there is one.
func sqrtP(c *big.Int) (*big.Int, bool) {
	y := new(big.Int).Exp(c, sqrtExp, P)
	chk := new(big.Int).Mul(y, y)
	modP(chk)
	if chk.Cmp(new(big.Int).Mod(c, P)) != 0 {
		return nil, false
	}
	return y, true
}

// LiftX is BIP-340 lift_x: the point with that x and even y; false if x >= P or x^3+7 is not a square.
func LiftX(x *big.Int) (Pt, bool) {
	if x.Sign() < 0 || x.Cmp(P) >= 0 {
		return Pt{}, false
	}
	y, ok := sqrtP(rhs(x))
	if !ok {
		return Pt{}, false
	}
	if y.Bit(0) == 1 {
		y.Sub(P, y)
	}
	return Pt{X: new(big.Int).Set(x), Y: y}, true
}

// ParseCompressed parses SEC1 compressed encoding 02/03 || x (33 bytes).
// Rejected: wrong length, prefix other than 02/03, x >= P, x not the abscissa of a curve point.
func ParseCompressed(b []byte) (Pt, error) {
	if len(b) != 33 {
		return Pt{}, errors.New("oracle: compressed point must be 33 bytes")
	}
	if b[0] != 2 && b[0] != 3 {
		return Pt{}, errors.New("oracle: bad prefix")
	}
	x := new(big.Int).SetBytes(b[1:])
	p, ok := LiftX(x)
	if !ok {
		if x.Cmp(P) >= 0 {
			return Pt{}, errors.New("oracle: x out of range")
		}
		return Pt{}, errors.New("oracle: x not on curve")
	}
	if b[0] == 3 {
		p = Neg(p)
	}
	return p, nil
}

// Compressed is the SEC1 compressed encoding.  The identity has no SEC1 33-byte encoding; we return 33 zero bytes
// for it (a documented convention of this oracle only; ParseCompressed rejects it).
func (p Pt) Compressed() []byte {
	out := make([]byte, 33)
	if p.Inf {
		return out
	}
	out[0] = 2 + byte(p.Y.Bit(0))
	p.X.FillBytes(out[1:])
	return out
}

// XBytes is the 32-byte big-endian abscissa (32 zero bytes for the identity).
func (p Pt) XBytes() []byte {
	out := make([]byte, 32)
	if !p.Inf {
		p.X.FillBytes(out)
	}
	return out
}

// EvenY reports whether the point is finite with even y.
func (p Pt) EvenY() bool { return !p.Inf && p.Y.Bit(0) == 0 }

// Bytes32 serialises 0 <= x < 2^256 big endian on 32 bytes.
func Bytes32(x *big.Int) []byte {
	out := make([]byte, 32)
	x.FillBytes(out)
	return out
}

// ------------------------------------------------------------------------------------------------------------
// ECDSA

// HashToScalar is the ECDSA "e": the leftmost min(256, 8*len(hash)) bits of hash as an integer, reduced mod N.
func HashToScalar(hash []byte) *big.Int {
	if len(hash) > 32 {
		hash = hash[:32]
	}
	e := new(big.Int).SetBytes(hash)
	return e.Mod(e, N)
}

func inRange1N(x *big.Int) bool { return x != nil && x.Sign() > 0 && x.Cmp(N) < 0 }

// ecdsaPoint returns s^-1 (e*G + r*pub).
func ecdsaPoint(pub Pt, hash []byte, r, s *big.Int) Pt {
	e := HashToScalar(hash)
	w := new(big.Int).ModInverse(s, N)
	u1 := new(big.Int).Mul(e, w)
	u1.Mod(u1, N)
	u2 := new(big.Int).Mul(r, w)
	u2.Mod(u2, N)
	return Add(BaseMul(u1), Mul(u2, pub))
}

// ECDSAVerifyRS is textbook ECDSA verification (SEC1 4.1.4).
func ECDSAVerifyRS(pub Pt, hash []byte, r, s *big.Int) bool {
	if !inRange1N(r) || !inRange1N(s) || pub.Inf || !OnCurve(pub) {
		return false
	}
	R := ecdsaPoint(pub, hash, r, s)
	if R.Inf {
		return false
	}
	return new(big.Int).Mod(R.X, N).Cmp(r) == 0
}

// ECDSAVerifyPoint checks the same equation but demands the full nonce point: with r = R.x mod N,
// s^-1 (e*G + r*pub) == R.  Rejects r == 0, s == 0 (mod N), identity R or pub.
func ECDSAVerifyPoint(pub Pt, hash []byte, R Pt, s *big.Int) bool {
	if R.Inf || pub.Inf || s == nil {
		return false
	}
	r := new(big.Int).Mod(R.X, N)
	sm := new(big.Int).Mod(s, N)
	if r.Sign() == 0 || sm.Sign() == 0 {
		return false
	}
	return Equal(ecdsaPoint(pub, hash, r, sm), R)
}

// ECDSARecover is standard public key recovery (SEC1 4.1.6) restricted to Ethereum's v in {0,1}:
// the nonce point is the point with abscissa r (no +N overflow) and y parity recid; Q = r^-1 (s*R - e*G).
func ECDSARecover(hash []byte, r, s *big.Int, recid byte) (Pt, bool) {
	if !inRange1N(r) || !inRange1N(s) || recid > 1 {
		return Pt{}, false
	}
	R, ok := LiftX(r)
	if !ok {
		return Pt{}, false
	}
	if recid == 1 {
		R = Neg(R)
	}
	e := HashToScalar(hash)
	rinv := new(big.Int).ModInverse(r, N)
	Q := Mul(rinv, Sub(Mul(s, R), BaseMul(e)))
	if Q.Inf {
		return Pt{}, false
	}
	return Q, true
}

// ------------------------------------------------------------------------------------------------------------
// BIP-340

// TaggedHash is SHA256(SHA256(tag) || SHA256(tag) || parts...).
func TaggedHash(tag string, parts ...[]byte) []byte {
	th := sha256.Sum256([]byte(tag))
	h := sha256.New()
	h.Write(th[:])
	h.Write(th[:])
	for _, p := range parts {
		h.Write(p)
	}
	return h.Sum(nil)
}

// BIP340Verify is exactly the verification algorithm of BIP-340 (messages of any length).
func BIP340Verify(pubx32 []byte, msg []byte, sig64 []byte) bool {
	if len(pubx32) != 32 || len(sig64) != 64 {
		return false
	}
	Pk, ok := LiftX(new(big.Int).SetBytes(pubx32))
	if !ok {
		return false
	}
	r := new(big.Int).SetBytes(sig64[:32])
	if r.Cmp(P) >= 0 {
		return false
	}
	s := new(big.Int).SetBytes(sig64[32:])
	if s.Cmp(N) >= 0 {
		return false
	}
	e := new(big.Int).SetBytes(TaggedHash("BIP0340/challenge", sig64[:32], pubx32, msg))
	e.Mod(e, N)
	R := Sub(BaseMul(s), Mul(e, Pk))
	if R.Inf {
		return false
	}
	if !R.EvenY() {
		return false
	}
	return R.X.Cmp(r) == 0
}

// BIP340Why classifies why BIP-340 verification rejects (or "accept"); the classes are the paths of the algorithm,
// in its order of evaluation.
func BIP340Why(pubx32 []byte, msg []byte, sig64 []byte) string {
	if len(sig64) != 64 {
		return "sig-length"
	}
	if len(pubx32) != 32 {
		return "pk-length"
	}
	Pk, ok := LiftX(new(big.Int).SetBytes(pubx32))
	if !ok {
		return "pk-lift"
	}
	r := new(big.Int).SetBytes(sig64[:32])
	if r.Cmp(P) >= 0 {
		return "r-range"
	}
	s := new(big.Int).SetBytes(sig64[32:])
	if s.Cmp(N) >= 0 {
		return "s-range"
	}
	e := new(big.Int).SetBytes(TaggedHash("BIP0340/challenge", sig64[:32], pubx32, msg))
	e.Mod(e, N)
	R := Sub(BaseMul(s), Mul(e, Pk))
	if R.Inf {
		return "R-infinite"
	}
	if !R.EvenY() {
		return "R-odd"
	}
	if R.X.Cmp(r) != 0 {
		return "R-x"
	}
	return "accept"
}

// BIP340PubKey is BIP-340 public key generation: bytes(x(d*G)); error for d = 0 or d >= N.
func BIP340PubKey(seckey32 []byte) ([]byte, error) {
	if len(seckey32) != 32 {
		return nil, errors.New("oracle: secret key must be 32 bytes")
	}
	d := new(big.Int).SetBytes(seckey32)
	if d.Sign() == 0 || d.Cmp(N) >= 0 {
		return nil, errors.New("oracle: secret key out of range")
	}
	return BaseMul(d).XBytes(), nil
}

// bip340Nonce is BIP-340 default signing up to the nonce: returns d (negated if P has odd y), P's x bytes,
// and k0 = int(hash_nonce(t || bytes(P) || m)) mod N, where t = bytes(d) xor hash_aux(aux).
func bip340Nonce(seckey32, msg, aux32 []byte) (d *big.Int, px []byte, k0 *big.Int, err error) {
	if len(seckey32) != 32 {
		return nil, nil, nil, errors.New("oracle: secret key must be 32 bytes")
	}
	if len(aux32) != 32 {
		return nil, nil, nil, errors.New("oracle: aux must be 32 bytes")
	}
	d0 := new(big.Int).SetBytes(seckey32)
	if d0.Sign() == 0 || d0.Cmp(N) >= 0 {
		return nil, nil, nil, errors.New("oracle: secret key out of range")
	}
	Pk := BaseMul(d0)
	d = d0
	if !Pk.EvenY() {
		d = new(big.Int).Sub(N, d0)
	}
	t := Bytes32(d)
	ah := TaggedHash("BIP0340/aux", aux32)
	for i := range t {
		t[i] ^= ah[i]
	}
	px = Pk.XBytes()
	k0 = new(big.Int).SetBytes(TaggedHash("BIP0340/nonce", t, px, msg))
	k0.Mod(k0, N)
	if k0.Sign() == 0 {
		return nil, nil, nil, errors.New("oracle: zero nonce")
	}
	return d, px, k0, nil
}

// BIP340Sign is the BIP-340 reference ("default") signing algorithm.
func BIP340Sign(seckey32, msg, aux32 []byte) ([]byte, error) {
	d, px, k0, err := bip340Nonce(seckey32, msg, aux32)
	if err != nil {
		return nil, err
	}
	return BIP340SignWithNonce(d, px, k0, msg)
}

// BIP340SignTrace is BIP340Sign that also reports the two parity decisions of the algorithm: whether d was negated
// (P = d*G has odd y) and whether the nonce was negated (R = k'*G has odd y).
func BIP340SignTrace(seckey32, msg, aux32 []byte) (sig []byte, negD, negK bool, err error) {
	d, px, k0, err := bip340Nonce(seckey32, msg, aux32)
	if err != nil {
		return nil, false, false, err
	}
	negD = d.Cmp(new(big.Int).SetBytes(seckey32)) != 0
	negK = !BaseMul(k0).EvenY()
	sig, err = BIP340SignWithNonce(d, px, k0, msg)
	return sig, negD, negK, err
}

// BIP340SignWithNonce finishes BIP-340 signing for an already parity-adjusted secret d, the key's x bytes and a raw
// nonce k0 (the parity rule for R is applied here).  Used to build signatures whose R'/k have a chosen parity.
func BIP340SignWithNonce(d *big.Int, px []byte, k0 *big.Int, msg []byte) ([]byte, error) {
	R := BaseMul(k0)
	if R.Inf {
		return nil, errors.New("oracle: zero nonce")
	}
	k := k0
	if !R.EvenY() {
		k = new(big.Int).Sub(N, k0)
	}
	rx := R.XBytes()
	e := new(big.Int).SetBytes(TaggedHash("BIP0340/challenge", rx, px, msg))
	e.Mod(e, N)
	s := new(big.Int).Mul(e, d)
	s.Add(s, k)
	s.Mod(s, N)
	sig := append(append([]byte{}, rx...), Bytes32(s)...)
	if !BIP340Verify(px, msg, sig) {
		return nil, errors.New("oracle: produced signature does not verify")
	}
	return sig, nil
}

// ------------------------------------------------------------------------------------------------------------
// BIP-32 (public, non-hardened)

// BIP32CKDpub: I = HMAC-SHA512(chain, serP(parent) || ser32(index)); il = parse256(I[:32]); child = il*G + parent;
// childChain = I[32:].  Errors per BIP-32: hardened index, il >= N, child at infinity.  (il == 0 is additionally
// reported as an error: the library rejects it and BIP-32's "il >= n" wording leaves it out only because its
// probability is 2^-256 - callers that care can look at il.)
func BIP32CKDpub(parent Pt, chain []byte, index uint32) (child Pt, childChain []byte, il *big.Int, err error) {
	if index >= 1<<31 {
		return Pt{}, nil, nil, errors.New("oracle: hardened index")
	}
	if parent.Inf {
		return Pt{}, nil, nil, errors.New("oracle: parent at infinity")
	}
	m := hmac.New(sha512.New, chain)
	m.Write(parent.Compressed())
	var ib [4]byte
	binary.BigEndian.PutUint32(ib[:], index)
	m.Write(ib[:])
	I := m.Sum(nil)
	il = new(big.Int).SetBytes(I[:32])
	if il.Cmp(N) >= 0 {
		return Pt{}, nil, il, errors.New("oracle: il >= n")
	}
	if il.Sign() == 0 {
		return Pt{}, nil, il, errors.New("oracle: il == 0")
	}
	child = Add(BaseMul(il), parent)
	if child.Inf {
		return Pt{}, nil, il, errors.New("oracle: child at infinity")
	}
	return child, I[32:], il, nil
}

// ------------------------------------------------------------------------------------------------------------
// Lagrange interpolation mod N

// Lagrange returns l_j(0) = prod_{i != j} x_i / (x_i - x_j) mod N.
func Lagrange(xs []*big.Int, j int) *big.Int {
	num, den := big.NewInt(1), big.NewInt(1)
	for i, x := range xs {
		if i == j {
			continue
		}
		num.Mul(num, x)
		num.Mod(num, N)
		d := new(big.Int).Sub(x, xs[j])
		d.Mod(d, N)
		den.Mul(den, d)
		den.Mod(den, N)
	}
	den.ModInverse(den, N)
	num.Mul(num, den)
	return num.Mod(num, N)
}

// InterpolateAt0 returns sum_j l_j(0) * ys[j] mod N.
func InterpolateAt0(xs, ys []*big.Int) *big.Int {
	acc := new(big.Int)
	for j := range xs {
		t := new(big.Int).Mul(Lagrange(xs, j), ys[j])
		acc.Add(acc, t)
		acc.Mod(acc, N)
	}
	return acc
}

// InterpolatePointsAt0 returns sum_j l_j(0) * pts[j].
func InterpolatePointsAt0(xs []*big.Int, pts []Pt) Pt {
	acc := Infinity()
	for j := range xs {
		acc = Add(acc, Mul(Lagrange(xs, j), pts[j]))
	}
	return acc
}

// IDScalar maps a party id to big-endian-integer(bytes(id)) mod N.
func IDScalar(id string) *big.Int {
	x := new(big.Int).SetBytes([]byte(id))
	return x.Mod(x, N)
}

// ------------------------------------------------------------------------------------------------------------
// The library's transcript hash

const transcriptPrefix = "CMP-BLAKE"

// Domains the library's hash.WriteAny uses for common values.
const (
	DomainBytes   = "[]byte"
	DomainPoint   = "*curve.Secp256k1Point"  // points only implement BinaryMarshaler: domain = reflect type string
	DomainScalar  = "*curve.Secp256k1Scalar" // idem
	DomainMsgHash = "messageHash"
	DomainID      = "ID"
)

// Transcript reproduces hash.Hash: blake3 over "CMP-BLAKE" followed by framed items.
type Transcript struct{ h *blake3.Hasher }

// NewTranscript returns the state of hash.New().
func NewTranscript() *Transcript {
	t := &Transcript{h: blake3.New()}
	_, _ = t.h.Write([]byte(transcriptPrefix))
	return t
}

func frame(domain string, data []byte) []byte {
	var b bytes.Buffer
	var sz [8]byte
	b.WriteByte('(')
	binary.BigEndian.PutUint64(sz[:], uint64(len(domain)))
	b.Write(sz[:])
	b.WriteString(domain)
	binary.BigEndian.PutUint64(sz[:], uint64(len(data)))
	b.Write(sz[:])
	b.Write(data)
	b.WriteByte(')')
	return b.Bytes()
}

// Write absorbs one framed item "(" || u64be(len(domain)) || domain || u64be(len(data)) || data || ")".
func (t *Transcript) Write(domain string, data []byte) { _, _ = t.h.Write(frame(domain, data)) }

// WritePoint absorbs a curve point the way hash.WriteAny does.
func (t *Transcript) WritePoint(p Pt) { t.Write(DomainPoint, p.Compressed()) }

// Clone copies the state.
func (t *Transcript) Clone() *Transcript { return &Transcript{h: t.h.Clone()} }

// Sum returns the first 64 bytes of the XOF output.
func (t *Transcript) Sum() []byte {
	out := make([]byte, 64)
	if _, err := io.ReadFull(t.h.Digest(), out); err != nil {
		panic(err)
	}
	return out
}

// Reader returns the XOF reader of the current state.
func (t *Transcript) Reader() io.Reader { return t.h.Digest() }

// FrameBytes is the exact byte string fed to blake3 for a sequence of (domain, data) items, prefix included.
func FrameBytes(items [][2][]byte) []byte {
	out := []byte(transcriptPrefix)
	for _, it := range items {
		out = append(out, frame(string(it[0]), it[1])...)
	}
	return out
}

// RawBlake3XOF hashes raw bytes with plain blake3 and returns n bytes of XOF output (to check FrameBytes).
func RawBlake3XOF(data []byte, n int) []byte {
	h := blake3.New()
	_, _ = h.Write(data)
	out := make([]byte, n)
	if _, err := io.ReadFull(h.Digest(), out); err != nil {
		panic(err)
	}
	return out
}

// ------------------------------------------------------------------------------------------------------------
// The library's plain Schnorr signature (FROST without taproot)

// SampleScalar reproduces sample.Scalar for secp256k1: 32 XOF bytes, big endian, reduced mod N.
func SampleScalar(r io.Reader) *big.Int {
	buf := make([]byte, 32)
	if _, err := io.ReadFull(r, buf); err != nil {
		panic(err)
	}
	x := new(big.Int).SetBytes(buf)
	return x.Mod(x, N)
}

// FrostChallenge is c = sample.Scalar(H(R, pub, messageHash(msg)).Digest()).
func FrostChallenge(R, pub Pt, msg []byte) *big.Int {
	t := NewTranscript()
	t.WritePoint(R)
	t.WritePoint(pub)
	t.Write(DomainMsgHash, msg)
	return SampleScalar(t.Reader())
}

// SchnorrVerify checks z*G == R + c*pub.
func SchnorrVerify(pub Pt, msg []byte, R Pt, z *big.Int) bool {
	c := FrostChallenge(R, pub, msg)
	return Equal(BaseMul(z), Add(R, Mul(c, pub)))
}
