//go:build verif

package oracle_test

import (
	"bytes"
	"encoding/hex"
	"io"
	"math/big"
	mrand "math/rand"
	"strings"
	"testing"

	"github.com/cronokirby/saferith"
	"github.com/taurusgroup/multi-party-sig/internal/bip32"
	"github.com/taurusgroup/multi-party-sig/pkg/ecdsa"
	"github.com/taurusgroup/multi-party-sig/pkg/hash"
	"github.com/taurusgroup/multi-party-sig/pkg/math/curve"
	"github.com/taurusgroup/multi-party-sig/pkg/math/polynomial"
	"github.com/taurusgroup/multi-party-sig/pkg/math/sample"
	"github.com/taurusgroup/multi-party-sig/pkg/party"
	"github.com/taurusgroup/multi-party-sig/pkg/taproot"
	"github.com/taurusgroup/multi-party-sig/protocols/frost"
	"github.com/taurusgroup/multi-party-sig/verifharness/oracle"
	"github.com/taurusgroup/multi-party-sig/verifharness/protos"
	"github.com/taurusgroup/multi-party-sig/verifharness/sim"
)

var grp = curve.Secp256k1{}

func libScalar(x *big.Int) curve.Scalar {
	return grp.NewScalar().SetNat(new(saferith.Nat).SetBig(new(big.Int).Mod(x, oracle.N), 256))
}

func scalarBig(s curve.Scalar) *big.Int {
	b, _ := s.MarshalBinary()
	return new(big.Int).SetBytes(b)
}

func libPoint(t *testing.T, p oracle.Pt) curve.Point {
	q := grp.NewPoint()
	if p.Inf {
		return q
	}
	if err := q.UnmarshalBinary(p.Compressed()); err != nil {
		t.Fatalf("library rejects oracle point: %v", err)
	}
	return q
}

func samePoint(t *testing.T, what string, lib curve.Point, o oracle.Pt) {
	t.Helper()
	if lib.IsIdentity() != o.Inf {
		t.Fatalf("%s: identity mismatch lib=%v oracle=%v", what, lib.IsIdentity(), o.Inf)
	}
	if o.Inf {
		return
	}
	b, _ := lib.MarshalBinary()
	if !bytes.Equal(b, o.Compressed()) {
		t.Fatalf("%s: lib=%x oracle=%x", what, b, o.Compressed())
	}
}

func randScalar(r *mrand.Rand) *big.Int {
	b := make([]byte, 40)
	r.Read(b)
	x := new(big.Int).SetBytes(b)
	return x.Mod(x, oracle.N)
}

func TestGroupLaw(t *testing.T) {
	r := mrand.New(mrand.NewSource(1))
	if !oracle.OnCurve(oracle.G()) {
		t.Fatal("G not on curve")
	}
	if !oracle.Mul(oracle.N, oracle.G()).Inf || !oracle.BaseMul(new(big.Int)).Inf {
		t.Fatal("N*G != identity")
	}
	nm1 := new(big.Int).Sub(oracle.N, big.NewInt(1))
	if !oracle.Equal(oracle.BaseMul(nm1), oracle.Neg(oracle.G())) {
		t.Fatal("(N-1)G != -G")
	}
	for i := 0; i < 60; i++ {
		a, b := randScalar(r), randScalar(r)
		if i < 8 {
			a = big.NewInt(int64(i))
		}
		A, B := oracle.BaseMul(a), oracle.BaseMul(b)
		la, lb := libScalar(a).ActOnBase(), libScalar(b).ActOnBase()
		samePoint(t, "aG", la, A)
		samePoint(t, "aG+bG", la.Add(lb), oracle.Add(A, B))
		samePoint(t, "aG-bG", la.Sub(lb), oracle.Sub(A, B))
		samePoint(t, "aG+aG", la.Add(la), oracle.Add(A, A))
		samePoint(t, "aG-aG", la.Sub(la), oracle.Add(A, oracle.Neg(A)))
		samePoint(t, "-aG", la.Negate(), oracle.Neg(A))
		samePoint(t, "b*(aG)", libScalar(b).Act(la), oracle.Mul(b, A))
		if !oracle.OnCurve(A) || !oracle.OnCurve(oracle.Add(A, B)) {
			t.Fatal("result not on curve")
		}
		ab := new(big.Int).Mul(a, b)
		if !oracle.Equal(oracle.Mul(b, A), oracle.BaseMul(ab)) {
			t.Fatal("b(aG) != (ab)G")
		}
		if A.Inf {
			continue
		}
		// round trip + XScalar + HasEvenY
		pp, err := oracle.ParseCompressed(A.Compressed())
		if err != nil || !oracle.Equal(pp, A) {
			t.Fatalf("parse(compress) %v", err)
		}
		lp := la.(*curve.Secp256k1Point)
		if lp.HasEvenY() != A.EvenY() || !bytes.Equal(lp.XBytes(), A.XBytes()) {
			t.Fatal("parity / XBytes mismatch")
		}
		if scalarBig(la.XScalar()).Cmp(new(big.Int).Mod(A.X, oracle.N)) != 0 {
			t.Fatal("XScalar mismatch")
		}
		// LiftX
		lifted, ok := oracle.LiftX(A.X)
		ll, lerr := grp.LiftX(A.XBytes())
		if !ok || lerr != nil || !lifted.EvenY() {
			t.Fatal("lift of a valid x failed")
		}
		samePoint(t, "liftx", ll, lifted)
	}
}

func TestParseCompressedRejections(t *testing.T) {
	r := mrand.New(mrand.NewSource(2))
	agree := func(b []byte) {
		t.Helper()
		_, oerr := oracle.ParseCompressed(b)
		lerr := grp.NewPoint().UnmarshalBinary(b)
		// the library accepts any prefix byte (treats != 3 as even); the oracle is strict.  Compare only 02/03.
		if len(b) == 33 && b[0] != 2 && b[0] != 3 {
			if oerr == nil {
				t.Fatalf("oracle accepted prefix %x", b[0])
			}
			return
		}
		if (oerr == nil) != (lerr == nil) {
			t.Fatalf("parse %x: oracle err=%v lib err=%v", b, oerr, lerr)
		}
	}
	nOn, nOff := 0, 0
	for i := 0; i < 200; i++ {
		b := make([]byte, 33)
		r.Read(b)
		b[0] = 2 + byte(i&1)
		if _, err := oracle.ParseCompressed(b); err == nil {
			nOn++
		} else {
			nOff++
		}
		agree(b)
	}
	if nOn < 50 || nOff < 50 {
		t.Fatalf("suspicious on/off curve split %d/%d", nOn, nOff)
	}
	for _, x := range []*big.Int{oracle.P, new(big.Int).Add(oracle.P, big.NewInt(1)), new(big.Int).Sub(oracle.P, big.NewInt(1)),
		new(big.Int).Sub(new(big.Int).Lsh(big.NewInt(1), 256), big.NewInt(1)), big.NewInt(0), big.NewInt(1), big.NewInt(5)} {
		for _, pre := range []byte{2, 3, 0, 4, 5} {
			b := append([]byte{pre}, oracle.Bytes32(x)...)
			agree(b)
		}
		_, ok := oracle.LiftX(x)
		_, lerr := grp.LiftX(oracle.Bytes32(x))
		if ok != (lerr == nil) {
			t.Fatalf("LiftX(%x) oracle=%v lib=%v", x, ok, lerr)
		}
	}
	agree(make([]byte, 32))
	agree(make([]byte, 34))
	// P+1 = x of a curve point? x=1 is on the curve: make sure x = P+1 is rejected (no reduction)
	if _, ok := oracle.LiftX(big.NewInt(1)); !ok {
		t.Fatal("x=1 should lift")
	}
	if _, ok := oracle.LiftX(new(big.Int).Add(oracle.P, big.NewInt(1))); ok {
		t.Fatal("x=P+1 must not lift")
	}
}

func TestHashToScalar(t *testing.T) {
	r := mrand.New(mrand.NewSource(3))
	for _, l := range []int{0, 1, 5, 31, 32, 33, 48, 64, 100} {
		for i := 0; i < 5; i++ {
			h := make([]byte, l)
			r.Read(h)
			if i == 0 {
				for j := range h {
					h[j] = 0xff
				}
			}
			if scalarBig(curve.FromHash(grp, h)).Cmp(oracle.HashToScalar(h)) != 0 {
				t.Fatalf("FromHash mismatch len %d", l)
			}
		}
	}
}

func TestECDSA(t *testing.T) {
	r := mrand.New(mrand.NewSource(4))
	for i := 0; i < 40; i++ {
		x := randScalar(r)
		k := randScalar(r)
		if x.Sign() == 0 || k.Sign() == 0 {
			continue
		}
		h := make([]byte, []int{0, 1, 20, 32, 33, 64}[i%6])
		r.Read(h)
		X := oracle.BaseMul(x)
		R := oracle.BaseMul(k)
		rr := new(big.Int).Mod(R.X, oracle.N)
		s := new(big.Int).Mul(rr, x)
		s.Add(s, oracle.HashToScalar(h))
		s.Mul(s, new(big.Int).ModInverse(k, oracle.N))
		s.Mod(s, oracle.N)
		if !oracle.ECDSAVerifyRS(X, h, rr, s) || !oracle.ECDSAVerifyPoint(X, h, R, s) {
			t.Fatal("oracle rejects own signature")
		}
		lsig := ecdsa.Signature{R: libPoint(t, R), S: libScalar(s)}
		if !lsig.Verify(libPoint(t, X), h) {
			t.Fatal("library rejects oracle signature")
		}
		// -R: r/s verification still accepts, point verification must not
		if !oracle.ECDSAVerifyRS(X, h, rr, s) || oracle.ECDSAVerifyPoint(X, h, oracle.Neg(R), s) {
			t.Fatal("negated R")
		}
		if (ecdsa.Signature{R: libPoint(t, oracle.Neg(R)), S: libScalar(s)}).Verify(libPoint(t, X), h) {
			t.Fatal("library accepts negated R")
		}
		// (R, -s) is not valid for the full point, (−R, −s) is
		ns := new(big.Int).Sub(oracle.N, s)
		if oracle.ECDSAVerifyPoint(X, h, R, ns) || !oracle.ECDSAVerifyPoint(X, h, oracle.Neg(R), ns) {
			t.Fatal("malleability classification")
		}
		for _, bad := range []*big.Int{big.NewInt(0), oracle.N, new(big.Int).Add(s, big.NewInt(1))} {
			if oracle.ECDSAVerifyRS(X, h, rr, bad) {
				t.Fatal("accepted bad s")
			}
			lb := ecdsa.Signature{R: libPoint(t, R), S: libScalar(bad)}.Verify(libPoint(t, X), h)
			if lb != oracle.ECDSAVerifyPoint(X, h, R, bad) {
				t.Fatal("lib/oracle differ on bad s")
			}
		}
		if oracle.ECDSAVerifyRS(X, h, big.NewInt(0), s) || oracle.ECDSAVerifyRS(X, h, oracle.N, s) {
			t.Fatal("accepted bad r")
		}
		// recovery
		recid := byte(R.Y.Bit(0))
		Q, ok := oracle.ECDSARecover(h, rr, s, recid)
		if !ok || !oracle.Equal(Q, X) {
			t.Fatal("recover != pub")
		}
		Q2, ok2 := oracle.ECDSARecover(h, rr, s, recid^1)
		if ok2 && oracle.Equal(Q2, X) {
			t.Fatal("wrong recid recovers pub")
		}
		Q3, ok3 := oracle.ECDSARecover(h, rr, ns, recid^1)
		if !ok3 || !oracle.Equal(Q3, X) {
			t.Fatal("low-s flipped recovery")
		}
		// library SigEthereum agrees with oracle recovery
		eth, err := lsig.SigEthereum()
		if err != nil || len(eth) != 65 {
			t.Fatalf("SigEthereum: %v len %d", err, len(eth))
		}
		Q4, ok4 := oracle.ECDSARecover(h, new(big.Int).SetBytes(eth[:32]), new(big.Int).SetBytes(eth[32:64]), eth[64])
		if !ok4 || !oracle.Equal(Q4, X) {
			t.Fatal("SigEthereum does not recover to the key")
		}
	}
}

// Known-answer recovery test: Ethereum's well-known ecrecover example is not available offline; use RFC 6979-free
// self-consistency above plus this fixed vector (private key 1, k = 2, h = 32 zero bytes) computed by hand with the oracle equations.
func TestECDSAFixed(t *testing.T) {
	h := make([]byte, 32)
	x, k := big.NewInt(1), big.NewInt(2)
	R := oracle.BaseMul(k)
	wantRx, _ := new(big.Int).SetString("C6047F9441ED7D6D3045406E95C07CD85C778E4B8CEF3CA7ABAC09B95C709EE5", 16) // 2G.x (well known)
	if R.X.Cmp(wantRx) != 0 {
		t.Fatalf("2G.x = %X", R.X)
	}
	threeGx, _ := new(big.Int).SetString("F9308A019258C31049344F85F89D5229B531C845836F99B08601F113BCE036F9", 16)
	if oracle.BaseMul(big.NewInt(3)).X.Cmp(threeGx) != 0 {
		t.Fatal("3G.x")
	}
	s := new(big.Int).Mul(R.X, x)
	s.Mul(s, new(big.Int).ModInverse(k, oracle.N))
	s.Mod(s, oracle.N)
	if !oracle.ECDSAVerifyRS(oracle.G(), h, new(big.Int).Mod(R.X, oracle.N), s) {
		t.Fatal("fixed vector")
	}
}

type bipVec struct {
	sk, pk, aux, msg, sig string
	ok                    bool
	why                   string // expected oracle.BIP340Why classes (| separated), "" = any rejection
}

// Official vectors 0..14 of bip-0340/test-vectors.csv (embedded from memory; the signing vectors are self-validating because the
// independent signer must reproduce the signature byte for byte, and the failure vectors are checked to fail for the documented reason).
var bipVecs = []bipVec{
	{"0000000000000000000000000000000000000000000000000000000000000003", "F9308A019258C31049344F85F89D5229B531C845836F99B08601F113BCE036F9", "0000000000000000000000000000000000000000000000000000000000000000", "0000000000000000000000000000000000000000000000000000000000000000", "E907831F80848D1069A5371B402410364BDF1C5F8307B0084C55F1CE2DCA821525F66A4A85EA8B71E482A74F382D2CE5EBEEE8FDB2172F477DF4900D310536C0", true, "accept"},
	{"B7E151628AED2A6ABF7158809CF4F3C762E7160F38B4DA56A784D9045190CFEF", "DFF1D77F2A671C5F36183726DB2341BE58FEAE1DA2DECED843240F7B502BA659", "0000000000000000000000000000000000000000000000000000000000000001", "243F6A8885A308D313198A2E03707344A4093822299F31D0082EFA98EC4E6C89", "6896BD60EEAE296DB48A229FF71DFE071BDE413E6D43F917DC8DCF8C78DE33418906D11AC976ABCCB20B091292BFF4EA897EFCB639EA871CFA95F6DE339E4B0A", true, "accept"},
	{"C90FDAA22168C234C4C6628B80DC1CD129024E088A67CC74020BBEA63B14E5C9", "DD308AFEC5777E13121FA72B9CC1B7CC0139715309B086C960E18FD969774EB8", "C87AA53824B4D7AE2EB035A2B5BBBCCC080E76CDC6D1692C4B0B62D798E6D906", "7E2D58D8B3BCDF1ABADEC7829054F90DDA9805AAB56C77333024B9D0A508B75C", "5831AAEED7B44BB74E5EAB94BA9D4294C49BCF2A60728D8B4C200F50DD313C1BAB745879A5AD954A72C45A91C3A51D3C7ADEA98D82F8481E0E1E03674A6F3FB7", true, "accept"},
	{"0B432B2677937381AEF05BB02A66ECD012773062CF3FA2549E44F58ED2401710", "25D1DFF95105F5253C4022F628A996AD3A0D95FBF21D468A1B33F8C160D8F517", "FFFFFFFFFFFFFFFFFFFFFFFFFFFFFFFFFFFFFFFFFFFFFFFFFFFFFFFFFFFFFFFF", "FFFFFFFFFFFFFFFFFFFFFFFFFFFFFFFFFFFFFFFFFFFFFFFFFFFFFFFFFFFFFFFF", "7EB0509757E246F19449885651611CB965ECC1A187DD51B64FDA1EDC9637D5EC97582B9CB13DB3933705B32BA982AF5AF25FD78881EBB32771FC5922EFC66EA3", true, "accept"},
	{"", "D69C3509BB99E412E68B0FE8544E72837DFA30746D8BE2AA65975F29D22DC7B9", "", "4DF3C3F68FCC83B27E9D42C90431A72499F17875C81A599B566C9889B9696703", "00000000000000000000003B78CE563F89A0ED9414F5AA28AD0D96D6795F9C6376AFB1548AF603B3EB45C9F8207DEE1060CB71C04E80F593060B07D28308D7F4", true, "accept"},
	{"", "EEFDEA4CDB677750A420FEE807EACF21EB9898AE79B9768766E4FAA04A2D4A34", "", "243F6A8885A308D313198A2E03707344A4093822299F31D0082EFA98EC4E6C89", "6CFF5C3BA86C69EA4B7376F31A9BCB4F74C1976089B2D9963DA2E5543E17776969E89B4C5564D00349106B8497785DD7D1D713A8AE82B32FA79D5F7FC407D39B", false, "pk-lift"},
	{"", "DFF1D77F2A671C5F36183726DB2341BE58FEAE1DA2DECED843240F7B502BA659", "", "243F6A8885A308D313198A2E03707344A4093822299F31D0082EFA98EC4E6C89", "FFF97BD5755EEEA420453A14355235D382F6472F8568A18B2F057A14602975563CC27944640AC607CD107AE10923D9EF7A73C643E166BE5EBEAFA34B1AC553E2", false, "R-odd"},
	{"", "DFF1D77F2A671C5F36183726DB2341BE58FEAE1DA2DECED843240F7B502BA659", "", "243F6A8885A308D313198A2E03707344A4093822299F31D0082EFA98EC4E6C89", "1FA62E331EDBC21C394792D2AB1100A7B432B013DF3F6FF4F99FCB33E0E1515F28890B3EDB6E7189B630448B515CE4F8622A954CFE545735AAEA5134FCCDB2BD", false, "R-odd|R-x"},
	{"", "DFF1D77F2A671C5F36183726DB2341BE58FEAE1DA2DECED843240F7B502BA659", "", "243F6A8885A308D313198A2E03707344A4093822299F31D0082EFA98EC4E6C89", "6CFF5C3BA86C69EA4B7376F31A9BCB4F74C1976089B2D9963DA2E5543E177769961764B3AA9B2FFCB6EF947B6887A226E8D7C93E00C5ED0C1834FF0D0C2E6DA6", false, "R-odd|R-x"},
	{"", "DFF1D77F2A671C5F36183726DB2341BE58FEAE1DA2DECED843240F7B502BA659", "", "243F6A8885A308D313198A2E03707344A4093822299F31D0082EFA98EC4E6C89", "0000000000000000000000000000000000000000000000000000000000000000123DDA8328AF9C23A94C1FEECFD123BA4FB73476F0D594DCB65C6425BD186051", false, "R-infinite"},
	{"", "DFF1D77F2A671C5F36183726DB2341BE58FEAE1DA2DECED843240F7B502BA659", "", "243F6A8885A308D313198A2E03707344A4093822299F31D0082EFA98EC4E6C89", "00000000000000000000000000000000000000000000000000000000000000017615FBAF5AE28864013C099742DEADB4DBA87F11AC6754F93780D5A1837CF197", false, "R-infinite"},
	{"", "DFF1D77F2A671C5F36183726DB2341BE58FEAE1DA2DECED843240F7B502BA659", "", "243F6A8885A308D313198A2E03707344A4093822299F31D0082EFA98EC4E6C89", "4A298DACAE57395A15D0795DDBFD1DCB564DA82B0F269BC70A74F8220429BA1D69E89B4C5564D00349106B8497785DD7D1D713A8AE82B32FA79D5F7FC407D39B", false, "R-odd|R-x"},
	{"", "DFF1D77F2A671C5F36183726DB2341BE58FEAE1DA2DECED843240F7B502BA659", "", "243F6A8885A308D313198A2E03707344A4093822299F31D0082EFA98EC4E6C89", "FFFFFFFFFFFFFFFFFFFFFFFFFFFFFFFFFFFFFFFFFFFFFFFFFFFFFFFEFFFFFC2F69E89B4C5564D00349106B8497785DD7D1D713A8AE82B32FA79D5F7FC407D39B", false, "r-range"},
	{"", "DFF1D77F2A671C5F36183726DB2341BE58FEAE1DA2DECED843240F7B502BA659", "", "243F6A8885A308D313198A2E03707344A4093822299F31D0082EFA98EC4E6C89", "6CFF5C3BA86C69EA4B7376F31A9BCB4F74C1976089B2D9963DA2E5543E177769FFFFFFFFFFFFFFFFFFFFFFFFFFFFFFFEBAAEDCE6AF48A03BBFD25E8CD0364141", false, "s-range"},
	{"", "FFFFFFFFFFFFFFFFFFFFFFFFFFFFFFFFFFFFFFFFFFFFFFFFFFFFFFFEFFFFFC30", "", "243F6A8885A308D313198A2E03707344A4093822299F31D0082EFA98EC4E6C89", "6CFF5C3BA86C69EA4B7376F31A9BCB4F74C1976089B2D9963DA2E5543E17776969E89B4C5564D00349106B8497785DD7D1D713A8AE82B32FA79D5F7FC407D39B", false, "pk-lift"},
}

func unhex(s string) []byte {
	b, err := hex.DecodeString(s)
	if err != nil {
		panic(err)
	}
	return b
}

func TestBIP340Vectors(t *testing.T) {
	for i, v := range bipVecs {
		pk, msg, sig := unhex(v.pk), unhex(v.msg), unhex(v.sig)
		if got := oracle.BIP340Verify(pk, msg, sig); got != v.ok {
			t.Errorf("vector %d: oracle verify = %v, want %v", i, got, v.ok)
		}
		why := oracle.BIP340Why(pk, msg, sig)
		if !strings.Contains("|"+v.why+"|", "|"+why+"|") {
			t.Errorf("vector %d: oracle reason %q, want %q", i, why, v.why)
		}
		if got := taproot.PublicKey(pk).Verify(taproot.Signature(sig), msg); got != v.ok {
			t.Errorf("vector %d: library verify = %v, want %v", i, got, v.ok)
		}
		if v.sk == "" {
			continue
		}
		sk, aux := unhex(v.sk), unhex(v.aux)
		opk, err := oracle.BIP340PubKey(sk)
		if err != nil || !bytes.Equal(opk, pk) {
			t.Errorf("vector %d: oracle pubkey %x", i, opk)
		}
		osig, err := oracle.BIP340Sign(sk, msg, aux)
		if err != nil || !bytes.Equal(osig, sig) {
			t.Errorf("vector %d: oracle sign = %x (%v)", i, osig, err)
		}
		lpk, err := taproot.SecretKey(sk).Public()
		if err != nil || !bytes.Equal(lpk, pk) {
			t.Errorf("vector %d: library pubkey %x", i, lpk)
		}
		lsig, err := taproot.SecretKey(sk).Sign(bytes.NewReader(aux), msg)
		if err != nil || !bytes.Equal(lsig, sig) {
			t.Errorf("vector %d: library sign = %x (%v)", i, lsig, err)
		}
	}
}

func TestBIP340Random(t *testing.T) {
	r := mrand.New(mrand.NewSource(5))
	for i := 0; i < 40; i++ {
		sk := oracle.Bytes32(randScalar(r))
		aux := make([]byte, 32)
		r.Read(aux)
		msg := make([]byte, []int{0, 1, 31, 32, 33, 64, 100}[i%7])
		r.Read(msg)
		osig, err := oracle.BIP340Sign(sk, msg, aux)
		if err != nil {
			t.Fatal(err)
		}
		lsig, err := taproot.SecretKey(sk).Sign(bytes.NewReader(aux), msg)
		if err != nil || !bytes.Equal(lsig, osig) {
			t.Fatalf("sign mismatch msglen %d: %x vs %x (%v)", len(msg), lsig, osig, err)
		}
		pk, _ := oracle.BIP340PubKey(sk)
		if !taproot.PublicKey(pk).Verify(lsig, msg) || !oracle.BIP340Verify(pk, msg, osig) {
			t.Fatal("verify")
		}
		for j := 0; j < 64; j += 7 {
			bad := append([]byte{}, osig...)
			bad[j] ^= 1 << uint(j%8)
			if taproot.PublicKey(pk).Verify(bad, msg) != oracle.BIP340Verify(pk, msg, bad) {
				t.Fatal("verify disagreement on perturbed signature")
			}
		}
		if !bytes.Equal(taproot.TaggedHash("BIP0340/x", sk, msg), oracle.TaggedHash("BIP0340/x", sk, msg)) {
			t.Fatal("TaggedHash")
		}
	}
}

func TestBIP32(t *testing.T) {
	r := mrand.New(mrand.NewSource(6))
	for i := 0; i < 30; i++ {
		parent := oracle.BaseMul(new(big.Int).Add(randScalar(r), big.NewInt(1)))
		chain := make([]byte, 32)
		r.Read(chain)
		idx := r.Uint32() >> 1
		child, cc, il, err := oracle.BIP32CKDpub(parent, chain, idx)
		lp := libPoint(t, parent).(*curve.Secp256k1Point)
		ls, lcc, lerr := bip32.DeriveScalar(lp, chain, idx)
		if (err == nil) != (lerr == nil) {
			t.Fatalf("error mismatch %v / %v", err, lerr)
		}
		if err != nil {
			continue
		}
		if scalarBig(ls).Cmp(il) != 0 || !bytes.Equal(cc, lcc) {
			t.Fatal("bip32 scalar / chain mismatch")
		}
		samePoint(t, "child", ls.ActOnBase().Add(lp), child)
	}
	if _, _, _, err := oracle.BIP32CKDpub(oracle.G(), make([]byte, 32), 1<<31); err == nil {
		t.Fatal("hardened index accepted")
	}
	// BIP-32 test vector 1, chain m -> m/0' is hardened; use public derivation of vector 2: m -> m/0
	// master: pub 03cbcaa9c98c877a26977d00825c956a238e8dddfbd322cce4f74b0b5bd6ace4a7, chain 60499f801b896d83179a4374aeb7822aaeaceaa0db1f85ee3e904c4defbd9689
	// child m/0: pub 02fc9e5af0ac8d9b3cecfe2a888e2117ba3d089d8585886c9c826b6b22a98d12ea, chain f0909affaa7ee7abe5dd4e100598d4dc53cd709d5a5c2cac40e7412f232f7c9c
	parent, err := oracle.ParseCompressed(unhex("03cbcaa9c98c877a26977d00825c956a238e8dddfbd322cce4f74b0b5bd6ace4a7"))
	if err != nil {
		t.Fatal(err)
	}
	child, cc, _, err := oracle.BIP32CKDpub(parent, unhex("60499f801b896d83179a4374aeb7822aaeaceaa0db1f85ee3e904c4defbd9689"), 0)
	if err != nil {
		t.Fatal(err)
	}
	if hex.EncodeToString(child.Compressed()) != "02fc9e5af0ac8d9b3cecfe2a888e2117ba3d089d8585886c9c826b6b22a98d12ea" ||
		hex.EncodeToString(cc) != "f0909affaa7ee7abe5dd4e100598d4dc53cd709d5a5c2cac40e7412f232f7c9c" {
		t.Logf("BIP-32 vector 2 m/0 (from memory) not reproduced: child=%x chain=%x", child.Compressed(), cc)
		t.Fail()
	}
}

func TestLagrange(t *testing.T) {
	r := mrand.New(mrand.NewSource(7))
	sets := [][]party.ID{{"a", "b"}, {"a", "b", "c"}, {"alice", "bob", "carol", "dave"}, {"p1", "p2", "p3", "p4", "p5"},
		{party.ID(strings.Repeat("z", 32)), party.ID(strings.Repeat("y", 33)), "x"}}
	for _, ids := range sets {
		lib := polynomial.Lagrange(grp, ids)
		xs := make([]*big.Int, len(ids))
		for i, id := range ids {
			xs[i] = oracle.IDScalar(string(id))
			if scalarBig(id.Scalar(grp)).Cmp(xs[i]) != 0 {
				t.Fatalf("IDScalar(%q)", id)
			}
		}
		for j, id := range ids {
			if scalarBig(lib[id]).Cmp(oracle.Lagrange(xs, j)) != 0 {
				t.Fatalf("lagrange %v / %s", ids, id)
			}
		}
		// interpolate a random polynomial of degree len-1
		coef := make([]*big.Int, len(ids))
		for i := range coef {
			coef[i] = randScalar(r)
		}
		ys := make([]*big.Int, len(ids))
		pts := make([]oracle.Pt, len(ids))
		for i, x := range xs {
			y := new(big.Int)
			for d := len(coef) - 1; d >= 0; d-- {
				y.Mul(y, x)
				y.Add(y, coef[d])
				y.Mod(y, oracle.N)
			}
			ys[i] = y
			pts[i] = oracle.BaseMul(y)
		}
		if oracle.InterpolateAt0(xs, ys).Cmp(coef[0]) != 0 {
			t.Fatal("InterpolateAt0")
		}
		if !oracle.Equal(oracle.InterpolatePointsAt0(xs, pts), oracle.BaseMul(coef[0])) {
			t.Fatal("InterpolatePointsAt0")
		}
	}
}

type dom struct {
	d string
	b []byte
}

func (x dom) WriteTo(w io.Writer) (int64, error) { n, err := w.Write(x.b); return int64(n), err }
func (x dom) Domain() string                     { return x.d }

func TestTranscript(t *testing.T) {
	r := mrand.New(mrand.NewSource(8))
	for i := 0; i < 20; i++ {
		lh := hash.New()
		ot := oracle.NewTranscript()
		var items [][2][]byte
		for j := 0; j <= i%5; j++ {
			b := make([]byte, r.Intn(70))
			r.Read(b)
			switch j % 4 {
			case 0:
				_ = lh.WriteAny(b)
				ot.Write(oracle.DomainBytes, b)
				items = append(items, [2][]byte{[]byte(oracle.DomainBytes), b})
			case 1:
				d := dom{d: "dom" + strings.Repeat("x", j), b: b}
				_ = lh.WriteAny(d)
				ot.Write(d.d, b)
				items = append(items, [2][]byte{[]byte(d.d), b})
			case 2:
				p := oracle.BaseMul(new(big.Int).Add(randScalar(r), big.NewInt(1)))
				_ = lh.WriteAny(libPoint(t, p))
				ot.WritePoint(p)
				items = append(items, [2][]byte{[]byte(oracle.DomainPoint), p.Compressed()})
			case 3:
				s := randScalar(r)
				_ = lh.WriteAny(libScalar(s))
				ot.Write(oracle.DomainScalar, oracle.Bytes32(s))
				items = append(items, [2][]byte{[]byte(oracle.DomainScalar), oracle.Bytes32(s)})
			}
		}
		if !bytes.Equal(lh.Sum(), ot.Sum()) || !bytes.Equal(lh.Clone().Sum(), ot.Clone().Sum()) {
			t.Fatalf("transcript mismatch at %d", i)
		}
		// XOF beyond 64 bytes, and FrameBytes fed to a plain blake3 via a one-item transcript trick: compare readers
		lb, ob := make([]byte, 200), make([]byte, 200)
		io.ReadFull(lh.Digest(), lb)
		io.ReadFull(ot.Reader(), ob)
		if !bytes.Equal(lb, ob) || !bytes.Equal(lb[:64], lh.Sum()) {
			t.Fatal("XOF mismatch")
		}
		fb := oracle.FrameBytes(items)
		if !bytes.HasPrefix(fb, []byte("CMP-BLAKE")) {
			t.Fatal("prefix")
		}
		if !bytes.Equal(oracle.RawBlake3XOF(fb, 64), lh.Sum()) {
			t.Fatal("FrameBytes does not hash to the library's Sum")
		}
		// sample.Scalar
		if scalarBig(sample.Scalar(lh.Digest(), grp)).Cmp(oracle.SampleScalar(ot.Reader())) != 0 {
			t.Fatal("SampleScalar")
		}
	}
}

func TestFrostSchnorr(t *testing.T) {
	ids := []party.ID{"a", "b", "c"}
	kg, err := protos.Run(protos.FrostKeygen(ids, 1, false, nil), protos.RunOpts{Seed: "oracle-test", Sched: sim.NewRng(1)})
	if err != nil || !kg.AllDone() {
		t.Fatalf("keygen: %v", err)
	}
	for _, msg := range [][]byte{[]byte("hello"), {0}, bytes.Repeat([]byte{7}, 100)} {
		sg, err := protos.Run(protos.FrostSign(kg.Results, []party.ID{"a", "c"}, msg, nil), protos.RunOpts{Seed: "oracle-test", Sched: sim.NewRng(2)})
		if err != nil || !sg.AllDone() {
			t.Fatalf("sign: %v", err)
		}
		sig := sg.Results["a"].(frost.Signature)
		pub := kg.Results["a"].(*frost.Config).PublicKey
		if !sig.Verify(pub, msg) {
			t.Fatal("library rejects its own signature")
		}
		z := scalarBig(protos.Field(sig, "z").(curve.Scalar))
		rb, _ := sig.R.MarshalBinary()
		pb, _ := pub.MarshalBinary()
		R, err1 := oracle.ParseCompressed(rb)
		Pk, err2 := oracle.ParseCompressed(pb)
		if err1 != nil || err2 != nil {
			t.Fatal(err1, err2)
		}
		if !oracle.SchnorrVerify(Pk, msg, R, z) {
			t.Fatal("oracle rejects the library's FROST signature")
		}
		if oracle.SchnorrVerify(Pk, append([]byte{1}, msg...), R, z) || oracle.SchnorrVerify(Pk, msg, R, new(big.Int).Add(z, big.NewInt(1))) ||
			oracle.SchnorrVerify(Pk, msg, oracle.Neg(R), z) {
			t.Fatal("oracle accepts a perturbed FROST signature")
		}
		// shares interpolate to the public key
		xs := []*big.Int{}
		pts := []oracle.Pt{}
		for _, id := range ids {
			c := kg.Results[id].(*frost.Config)
			xs = append(xs, oracle.IDScalar(string(id)))
			pts = append(pts, oracle.BaseMul(scalarBig(c.PrivateShare)))
		}
		if !oracle.Equal(oracle.InterpolatePointsAt0(xs, pts), Pk) || !oracle.Equal(oracle.InterpolatePointsAt0(xs[:2], pts[:2]), Pk) {
			t.Fatal("shares do not interpolate to the public key")
		}
	}
}
