// Package sim is a deterministic, single-scheduler multi-party simulator over the *real*
// protocol handlers of multi-party-sig. It never implements protocol logic itself: it only
// carries protocol.Message values between real handlers in an order chosen by the caller,
// records what happened and exposes the API-observable projection of every party.
package sim

import (
	"bytes"
	crand "crypto/rand"
	"crypto/sha256"
	"encoding/binary"
	"errors"
	"fmt"
	"io"
	"runtime/debug"
	"sort"
	"sync"
	"syscall"
	"time"

	"github.com/taurusgroup/multi-party-sig/pkg/party"
	"github.com/taurusgroup/multi-party-sig/pkg/protocol"
)

// DetReader is a deterministic byte stream (SHA-256 in counter mode over a label).
type DetReader struct {
	key [32]byte
	ctr uint64
	buf []byte
	mu  sync.Mutex
}

// NewDetReader makes a stream for the given label.
func NewDetReader(label string) *DetReader {
	return &DetReader{key: sha256.Sum256([]byte(label))}
}

func (d *DetReader) Read(p []byte) (int, error) {
	d.mu.Lock()
	defer d.mu.Unlock()
	n := 0
	for n < len(p) {
		if len(d.buf) == 0 {
			var c [8]byte
			binary.BigEndian.PutUint64(c[:], d.ctr)
			d.ctr++
			h := sha256.Sum256(append(d.key[:], c[:]...))
			d.buf = h[:]
		}
		k := copy(p[n:], d.buf)
		d.buf = d.buf[k:]
		n += k
	}
	return n, nil
}

// ConstReader returns the same byte forever (a failed RNG).
type ConstReader byte

func (c ConstReader) Read(p []byte) (int, error) {
	for i := range p {
		p[i] = byte(c)
	}
	return len(p), nil
}

var randMu sync.Mutex

// WithRand runs f with crypto/rand.Reader replaced by r (nil keeps the system source).
func WithRand(r io.Reader, f func()) {
	if r == nil {
		f()
		return
	}
	randMu.Lock()
	old := crand.Reader
	crand.Reader = r
	defer func() { crand.Reader = old; randMu.Unlock() }()
	f()
}

// CallTimeout bounds a single API call; exceeding it is reported as a hang - provided the process really spent that
// time computing.  On an overloaded machine (other checks running next to this one) a call can be starved of CPU for
// minutes: the first complete thorough pass that shared the machine with two others reported an honest CMP message as a
// 120 s "hang".  So after CallTimeout of wall time the call is given up only once the process has used MinCPU of processor
// time since the call began (a runaway computation gets there at once), or after CallDeadline of wall time whatever the
// processor time (a deadlock).
var CallTimeout = 120 * time.Second
var MinCPU = 90 * time.Second
var CallDeadline = 900 * time.Second

func cpuTime() time.Duration {
	var ru syscall.Rusage
	if err := syscall.Getrusage(syscall.RUSAGE_SELF, &ru); err != nil {
		return 0
	}
	return time.Duration(ru.Utime.Nano() + ru.Stime.Nano())
}

// Outcome of one call into a party.
type Outcome struct {
	Emitted []*protocol.Message
	Panic   string // non-empty if the call panicked
	Hang    bool
	Closed  bool // the outgoing channel was observed closed during/after this call
	Elapsed time.Duration
}

// Party is one real handler plus its observation state.
type Party struct {
	ID      party.ID
	H       protocol.Handler
	Rand    io.Reader
	out     <-chan *protocol.Message
	Closed  bool
	Closes  int
	Emitted []*protocol.Message
	Dead    bool // panicked or hung: never called again
	Hung    bool // a call never returned: it still holds the handler's lock, no API call may follow (not even Result)
}

// NewParty constructs the handler with the party's random stream installed.
// mk is called under WithRand and inside recover.
func NewParty(id party.ID, rnd io.Reader, mk func() (protocol.Handler, error)) (p *Party, err error, panicked string) {
	p = &Party{ID: id, Rand: rnd}
	func() {
		defer func() {
			if r := recover(); r != nil {
				panicked = fmt.Sprintf("%v\n%s", r, debug.Stack())
			}
		}()
		WithRand(rnd, func() {
			var h protocol.Handler
			h, err = mk()
			if err == nil && h != nil && !isNilHandler(h) {
				p.H = h
			} else if err == nil {
				err = errors.New("nil handler")
			}
		})
	}()
	if p.H != nil {
		p.out = p.H.Listen()
	}
	return
}

func isNilHandler(h protocol.Handler) bool {
	switch v := h.(type) {
	case *protocol.MultiHandler:
		return v == nil
	case *protocol.TwoPartyHandler:
		return v == nil
	}
	return false
}

// Drain collects whatever is in the outgoing channel without blocking.
func (p *Party) Drain() (msgs []*protocol.Message) {
	for p.out != nil {
		select {
		case m, ok := <-p.out:
			if !ok {
				p.Closed = true
				p.Closes++
				p.out = nil
				return
			}
			msgs = append(msgs, m)
			p.Emitted = append(p.Emitted, m)
		default:
			return
		}
	}
	return
}

// Call runs f (an API call on the party's handler) on its own goroutine while draining
// the outgoing channel, so that a handler that emits more than the channel capacity does not
// block. Randomness is the party's stream.
func (p *Party) Call(f func()) Outcome {
	var oc Outcome
	start := time.Now()
	done := make(chan string, 1)
	go func() {
		defer func() {
			if r := recover(); r != nil {
				done <- fmt.Sprintf("%v\n%s", r, debug.Stack())
				return
			}
			done <- ""
		}()
		WithRand(p.Rand, f)
	}()
	timer := time.NewTimer(CallTimeout)
	defer timer.Stop()
	cpu0 := cpuTime()
	for {
		out := p.out
		select {
		case m, ok := <-out: // nil channel blocks forever: fine
			if !ok {
				p.Closed = true
				p.Closes++
				p.out = nil
				continue
			}
			oc.Emitted = append(oc.Emitted, m)
			p.Emitted = append(p.Emitted, m)
		case pv := <-done:
			oc.Panic = pv
			oc.Emitted = append(oc.Emitted, p.Drain()...)
			oc.Closed = p.Closed
			oc.Elapsed = time.Since(start)
			if pv != "" {
				p.Dead = true
			}
			return oc
		case <-timer.C:
			if time.Since(start) < CallDeadline && cpuTime()-cpu0 < MinCPU && CallTimeout >= 60*time.Second {
				timer.Reset(5 * time.Second) // starved, not stuck: look again
				continue
			}
			oc.Hang = true
			oc.Closed = p.Closed
			oc.Elapsed = time.Since(start)
			p.Dead = true
			p.Hung = true
			return oc
		}
	}
}

// Accept delivers a message.
func (p *Party) Accept(m *protocol.Message) Outcome {
	return p.Call(func() { p.H.Accept(m) })
}

// Status is the API-observable terminal state.
type Status struct {
	St       string // "run" | "done" | "err"
	Result   interface{}
	Err      error
	Culprits []party.ID
	HasCulp  bool // the error is a protocol.Error
}

// Status reads Result().
func (p *Party) Status() Status {
	var s Status
	if p.Hung {
		return Status{St: "hung"}
	}
	res, err := p.H.Result()
	switch {
	case err == nil:
		s.St, s.Result = "done", res
	case err.Error() == "protocol: not finished":
		s.St = "run"
	default:
		s.St, s.Err = "err", err
		var pe protocol.Error
		if errors.As(err, &pe) {
			s.HasCulp = true
			s.Culprits = append([]party.ID(nil), pe.Culprits...)
			sort.Slice(s.Culprits, func(i, j int) bool { return s.Culprits[i] < s.Culprits[j] })
		}
	}
	return s
}

// Delivery is a message in flight to one recipient.
type Delivery struct {
	Seq int
	Msg *protocol.Message
	To  party.ID
	Tag string // free label (e.g. variant "h", "e1", "dup", "stale")
}

// Net is the set of deliveries in flight.
type Net struct {
	Pending []*Delivery
	seq     int
	IDs     []party.ID
}

// Post fans a message out to every party it is for.
func (n *Net) Post(m *protocol.Message, tag string) []*Delivery {
	var ds []*Delivery
	for _, id := range n.IDs {
		if m.IsFor(id) {
			d := &Delivery{Seq: n.seq, Msg: m, To: id, Tag: tag}
			n.seq++
			n.Pending = append(n.Pending, d)
			ds = append(ds, d)
		}
	}
	return ds
}

// PostTo adds one delivery regardless of the header.
func (n *Net) PostTo(m *protocol.Message, to party.ID, tag string) *Delivery {
	d := &Delivery{Seq: n.seq, Msg: m, To: to, Tag: tag}
	n.seq++
	n.Pending = append(n.Pending, d)
	return d
}

// Take removes and returns the i-th pending delivery.
func (n *Net) Take(i int) *Delivery {
	d := n.Pending[i]
	n.Pending = append(n.Pending[:i:i], n.Pending[i+1:]...)
	return d
}

// CloneMsg deep-copies a message.
func CloneMsg(m *protocol.Message) *protocol.Message {
	c := *m
	c.SSID = append([]byte(nil), m.SSID...)
	c.Data = append([]byte(nil), m.Data...)
	if m.BroadcastVerification != nil {
		c.BroadcastVerification = append([]byte(nil), m.BroadcastVerification...)
	}
	if m.SSID == nil {
		c.SSID = nil
	}
	if m.Data == nil {
		c.Data = nil
	}
	return &c
}

// SameMsg compares two messages field by field.
func SameMsg(a, b *protocol.Message) bool {
	return a.From == b.From && a.To == b.To && a.Protocol == b.Protocol && a.RoundNumber == b.RoundNumber &&
		a.Broadcast == b.Broadcast && bytes.Equal(a.SSID, b.SSID) && bytes.Equal(a.Data, b.Data) &&
		bytes.Equal(a.BroadcastVerification, b.BroadcastVerification)
}

// Rng is a small deterministic PRNG for schedules (splitmix64).
type Rng struct{ s uint64 }

func NewRng(seed uint64) *Rng { return &Rng{s: seed*0x9E3779B97F4A7C15 + 0x1234567} }
func (r *Rng) Next() uint64 {
	r.s += 0x9E3779B97F4A7C15
	z := r.s
	z = (z ^ (z >> 30)) * 0xBF58476D1CE4E5B9
	z = (z ^ (z >> 27)) * 0x94D049BB133111EB
	return z ^ (z >> 31)
}
func (r *Rng) Intn(n int) int {
	if n <= 0 {
		return 0
	}
	return int(r.Next() % uint64(n))
}
func (r *Rng) Bytes(n int) []byte {
	b := make([]byte, n)
	for i := range b {
		b[i] = byte(r.Next())
	}
	return b
}
