package sim

import (
	"encoding/hex"
	"fmt"
	"sort"
	"strings"

	"github.com/taurusgroup/multi-party-sig/pkg/party"
	"github.com/taurusgroup/multi-party-sig/pkg/protocol"
)

// VH is an abstract view hash: sender -> variant stored.
type VH map[string]string

// AMsg is the abstract message of Handler.tla.
type AMsg struct {
	From string `json:"from"`
	To   string `json:"to"`
	Rd   int    `json:"rd"`
	B    bool   `json:"b"`
	Var  string `json:"var"`
	Bv   VH     `json:"bv"`
	View []VH   `json:"view"`
	Cls  string `json:"cls"`
}

// Post is the API-observable projection after a call.
type Post struct {
	Rnd  int      `json:"rnd"`
	St   string   `json:"st"`
	Ek   string   `json:"ek"`
	Culp []string `json:"culp"`
	Cur  int      `json:"cur"` // number of the round object the handler currently holds (0 after output/abort round)
}

// Em is one emitted message header.
type Em struct {
	Rd int    `json:"rd"`
	B  bool   `json:"b"`
	Rc string `json:"rc"`
	Bv VH     `json:"bv"`
}

// Event is one line of a recorded trace.
type Event struct {
	Ev    string `json:"ev"`
	I     string `json:"i"`
	M     *AMsg  `json:"m,omitempty"`
	Can   bool   `json:"can"`
	Ign   bool   `json:"ign"`
	Post  Post   `json:"post"`
	Em    []Em   `json:"em"`
	Trace int    `json:"trace"`
	Note  string `json:"note,omitempty"`
	Res   string `json:"res"` // verdict of the independent oracle on the result once the party is done: none | correct | wrong
}

// snapshotter is implemented by handlers built with the verif tag.
type snapshotter interface {
	VerifSnapshot() protocol.VerifSnapshot
}

// Engine drives one session of real MultiHandlers and keeps the abstract bookkeeping
// (which variant each party stored in which slot) needed to express real messages in
// the vocabulary of Handler.tla.
type Engine struct {
	IDs     []party.ID
	Honest  map[party.ID]bool
	Parties map[party.ID]*Party // honest parties + any extra real instances (keyed by instance name)
	Net     *Net
	R       int
	ShapeB  map[int]bool
	ShapeM  map[int]bool
	// stored[inst][r][b][sender] = variant label of the stored message
	stored map[party.ID]map[int]map[bool]map[party.ID]string
	// hashTab: real broadcast hash (hex) -> abstract vh; hashOrigin remembers which instance / round taught it
	hashTab    map[string]VH
	hashOrigin map[string]string
	// varOf: label of a concrete message pointer
	varOf map[*protocol.Message]string
	// viewOf: abstract view (vh per round 2..rd-1) the message content was computed from
	viewOf map[*protocol.Message][]VH
	Events []Event
	Trace  int
	// Anomalies are harness-level observations that no spec action explains (panic, hang, double close)
	Anomalies []string
	// OnEmit lets a driver intercept messages an instance emitted (return false to drop the default fan-out)
	OnEmit func(inst party.ID, m *protocol.Message) bool
	Log    bool
	// LabelEmit, when set, labels every message an instance emits (before any bookkeeping)
	LabelEmit func(inst party.ID, m *protocol.Message) string
	// Judge, when set, classifies the result of a party that just finished ("correct" / "wrong")
	Judge func(inst party.ID, result interface{}) string
	// Alias maps real party ids to the names used in traces (identity when nil)
	Alias map[party.ID]string
}

// Nm is the trace name of a party id.
func (e *Engine) Nm(id party.ID) string {
	if id == "" {
		return "all"
	}
	if e.Alias != nil {
		if a, ok := e.Alias[id]; ok {
			return a
		}
		return "?" + string(id)
	}
	return string(id)
}

// NewEngine creates an engine for the given sorted ids.
func NewEngine(ids []party.ID, honest []party.ID, R int) *Engine {
	e := &Engine{IDs: ids, Honest: map[party.ID]bool{}, Parties: map[party.ID]*Party{}, Net: &Net{IDs: ids}, R: R,
		ShapeB: map[int]bool{}, ShapeM: map[int]bool{},
		stored:  map[party.ID]map[int]map[bool]map[party.ID]string{},
		hashTab: map[string]VH{}, hashOrigin: map[string]string{}, varOf: map[*protocol.Message]string{}, viewOf: map[*protocol.Message][]VH{}, Log: true}
	for _, h := range honest {
		e.Honest[h] = true
	}
	return e
}

func (e *Engine) noVH() VH {
	v := VH{}
	for _, id := range e.IDs {
		v[e.Nm(id)] = "none"
	}
	return v
}

func (e *Engine) slot(inst party.ID, r int, b bool) map[party.ID]string {
	if e.stored[inst] == nil {
		e.stored[inst] = map[int]map[bool]map[party.ID]string{}
	}
	if e.stored[inst][r] == nil {
		e.stored[inst][r] = map[bool]map[party.ID]string{}
	}
	if e.stored[inst][r][b] == nil {
		e.stored[inst][r][b] = map[party.ID]string{}
	}
	return e.stored[inst][r][b]
}

// SetVar labels a concrete message.
func (e *Engine) SetVar(m *protocol.Message, v string) { e.varOf[m] = v }

// VarOf returns the label of a message ("h" by default).
func (e *Engine) VarOf(m *protocol.Message) string {
	if v, ok := e.varOf[m]; ok {
		return v
	}
	return "h"
}

// InheritLabels copies the abstract view of src to dst (dst is a mutated / re-headed copy of src).
func (e *Engine) InheritLabels(dst, src *protocol.Message) {
	if v, ok := e.viewOf[src]; ok {
		e.viewOf[dst] = v
	}
	if v, ok := e.varOf[src]; ok {
		e.varOf[dst] = v
	}
}

// absVH is the abstract view hash of instance inst for round r (all senders, as stored), or noVH.
func (e *Engine) absVH(inst party.ID, r int) VH {
	v := VH{}
	sl := e.slot(inst, r, true)
	for _, id := range e.IDs {
		l, ok := sl[id]
		if !ok {
			return e.noVH()
		}
		v[e.Nm(id)] = l
	}
	return v
}

// learnHashes records the correspondence real hash -> abstract vh from a snapshot.
func (e *Engine) learnHashes(inst party.ID, p *Party) {
	sn, ok := p.H.(snapshotter)
	if !ok || p.Hung {
		return
	}
	s := sn.VerifSnapshot()
	for r, hsh := range s.BroadcastHashes {
		key := hex.EncodeToString(hsh)
		abs := e.absVH(inst, r)
		if old, ok := e.hashTab[key]; ok {
			if fmt.Sprint(old) != fmt.Sprint(abs) {
				e.Anomalies = append(e.Anomalies, fmt.Sprintf("hash-collision: the same real echo hash stands for two different abstract views %v / %v (round %d, %s)", old, abs, r, inst))
			}
			continue
		}
		e.hashTab[key] = abs
		e.hashOrigin[key] = fmt.Sprintf("%s/%d", inst, r)
	}
}

// Relabel changes the variant label of a message an instance emitted earlier (used when a driver learns only
// after the call that this emission is the point where two universes of an equivocator diverge).
func (e *Engine) Relabel(inst party.ID, m *protocol.Message, label string) {
	e.varOf[m] = label
	if m.Broadcast {
		r := int(m.RoundNumber)
		e.slot(inst, r, true)[m.From] = label
		for k, o := range e.hashOrigin {
			if o == fmt.Sprintf("%s/%d", inst, r) {
				delete(e.hashTab, k)
				delete(e.hashOrigin, k)
			}
		}
		if p := e.Parties[inst]; p != nil {
			e.learnHashes(inst, p)
		}
	}
	// views of later messages of this instance computed from the old label
	for mm, view := range e.viewOf {
		if e.Parties[inst] != nil && mm.From == m.From && int(mm.RoundNumber) > int(m.RoundNumber) {
			_ = view
		}
	}
}

// AbsBv translates real BroadcastVerification bytes.
func (e *Engine) AbsBv(bv []byte) VH {
	if bv == nil {
		return e.noVH()
	}
	if v, ok := e.hashTab[hex.EncodeToString(bv)]; ok {
		return v
	}
	u := VH{}
	for _, id := range e.IDs {
		u[e.Nm(id)] = "unknown"
	}
	return u
}

// Abstract expresses a concrete message in the spec's vocabulary.
func (e *Engine) Abstract(m *protocol.Message, cls string) *AMsg {
	a := &AMsg{From: e.Nm(m.From), To: e.Nm(m.To), Rd: int(m.RoundNumber), B: m.Broadcast, Var: e.VarOf(m),
		Bv: e.AbsBv(m.BroadcastVerification), View: e.viewOf[m], Cls: cls}
	if a.View == nil {
		a.View = []VH{}
	}
	return a
}

// PostOf reads the observable state of an instance.
func (e *Engine) PostOf(inst party.ID) Post { return e.post(inst, e.Parties[inst]) }

func (e *Engine) post(inst party.ID, p *Party) Post {
	st := p.Status()
	po := Post{St: st.St, Ek: "none", Culp: []string{}}
	if sn, ok := p.H.(snapshotter); ok && !p.Hung {
		s := sn.VerifSnapshot()
		po.Cur = s.Round
		for _, r := range s.Rounds {
			if r > po.Rnd {
				po.Rnd = r
			}
		}
		if len(s.Rounds) == 0 {
			po.Rnd = s.Round // two-party handler: only the current round is known
		}
	}
	if st.St == "err" {
		po.Ek = ClassifyErr(st.Err, p.ID, st.Culprits)
		for _, c := range st.Culprits {
			po.Culp = append(po.Culp, e.Nm(c))
		}
	}
	return po
}

// ClassifyErr maps a real terminal error to the error kinds of Handler.tla.
func ClassifyErr(err error, self party.ID, culprits []party.ID) string {
	t := err.Error()
	switch {
	case strings.Contains(t, "aborted by other party"): // first: the notice quotes the peer's own error text
		return "notified"
	case strings.Contains(t, "broadcast verification failed"):
		return "echo"
	case strings.Contains(t, "aborted by user"):
		return "stopped"
	}
	if len(culprits) == 1 && culprits[0] == self {
		return "self"
	}
	// errors raised by the handler while decoding / verifying a message carry these prefixes
	if i := strings.Index(t, ": "); i >= 0 && strings.HasPrefix(t, "culprits: ") {
		t = t[strings.Index(t, "]: ")+3:]
	}
	if strings.HasPrefix(t, "round ") || strings.HasPrefix(t, "failed to unmarshal") || strings.HasPrefix(t, "got broadcast message") ||
		strings.HasPrefix(t, "panic while processing message") {
		return "detected"
	}
	return "proto"
}

func (e *Engine) res(inst party.ID, p *Party) string {
	st := p.Status()
	if st.St != "done" || e.Judge == nil {
		return "none"
	}
	return e.Judge(inst, st.Result)
}

func (e *Engine) emitted(inst party.ID, msgs []*protocol.Message) []Em {
	ems := []Em{}
	for _, m := range msgs {
		for _, id := range e.IDs {
			if m.IsFor(id) {
				ems = append(ems, Em{Rd: int(m.RoundNumber), B: m.Broadcast, Rc: e.Nm(id), Bv: e.AbsBv(m.BroadcastVerification)})
			}
		}
	}
	sort.Slice(ems, func(i, j int) bool {
		a, b := ems[i], ems[j]
		if a.Rd != b.Rd {
			return a.Rd < b.Rd
		}
		if a.B != b.B {
			return a.B
		}
		return a.Rc < b.Rc
	})
	return ems
}

// afterCall does the bookkeeping common to Start and Accept: own broadcasts are stored by the handler,
// views of emitted messages are recorded, hashes learnt, messages fanned out.
func (e *Engine) afterCall(inst party.ID, p *Party, oc Outcome) {
	self := p.ID
	if e.LabelEmit != nil {
		for _, m := range oc.Emitted {
			if l := e.LabelEmit(inst, m); l != "" {
				e.varOf[m] = l
			}
		}
	}
	// own broadcasts are stored in the handler's own queue
	for _, m := range oc.Emitted {
		if m.RoundNumber == 0 {
			continue
		}
		e.noteShape(m)
		if m.Broadcast {
			sl := e.slot(inst, int(m.RoundNumber), true)
			if _, ok := sl[self]; !ok {
				sl[self] = e.VarOf(m)
			}
		}
	}
	e.learnHashes(inst, p)
	for _, m := range oc.Emitted {
		if m.RoundNumber == 0 {
			continue
		}
		var view []VH
		for r := 2; r < int(m.RoundNumber); r++ {
			view = append(view, e.absVH(inst, r))
		}
		if view == nil {
			view = []VH{}
		}
		e.viewOf[m] = view
	}
	if oc.Panic != "" {
		e.Anomalies = append(e.Anomalies, fmt.Sprintf("panic in %s: %s", inst, firstLine(oc.Panic)))
	}
	if oc.Hang {
		e.Anomalies = append(e.Anomalies, fmt.Sprintf("hang in %s", inst))
	}
	if p.Closes > 1 {
		e.Anomalies = append(e.Anomalies, fmt.Sprintf("double close in %s", inst))
	}
	for _, m := range oc.Emitted {
		if e.OnEmit != nil && !e.OnEmit(inst, m) {
			continue
		}
		e.Net.Post(m, e.VarOf(m))
	}
}

func firstLine(s string) string {
	if i := strings.IndexByte(s, '\n'); i >= 0 {
		return s[:i]
	}
	return s
}

func (e *Engine) noteShape(m *protocol.Message) {
	if m.Broadcast {
		e.ShapeB[int(m.RoundNumber)] = true
	} else {
		e.ShapeM[int(m.RoundNumber)] = true
	}
}

// AddParty registers a constructed party under an instance name and logs the Start event if it is honest.
func (e *Engine) AddParty(inst party.ID, p *Party) {
	e.Parties[inst] = p
	oc := Outcome{Emitted: p.Drain()}
	e.afterCall(inst, p, oc)
	if e.Honest[inst] && e.Log {
		e.Events = append(e.Events, Event{Ev: "Start", I: e.Nm(inst), Post: e.post(inst, p), Em: e.emitted(inst, oc.Emitted), Trace: e.Trace, Res: e.res(inst, p)})
	}
}

func sameSnap(a, b protocol.VerifSnapshot) bool {
	return fmt.Sprint(a) == fmt.Sprint(b)
}

// Deliver hands message m to instance inst (probing CanAccept first) and logs the event.
// cls describes the header class ("ok" unless the driver altered the header).
func (e *Engine) Deliver(inst party.ID, m *protocol.Message, cls string) Outcome {
	p := e.Parties[inst]
	if p == nil || p.Dead {
		return Outcome{}
	}
	var can bool
	var before, after protocol.VerifSnapshot
	sn, hasSnap := p.H.(snapshotter)
	if hasSnap {
		before = sn.VerifSnapshot()
	}
	stBefore := p.Status()
	// messages travel through their binary encoding, as on a real network (labels stay attached to the original)
	wire := OverTheWire(m)
	probe := p.Call(func() { can = p.H.CanAccept(wire) })
	if probe.Panic != "" || probe.Hang {
		e.afterCall(inst, p, probe)
		if e.Honest[inst] && e.Log {
			e.Events = append(e.Events, Event{Ev: "Crash", I: e.Nm(inst), M: e.Abstract(m, cls), Trace: e.Trace, Note: firstLine(probe.Panic), Res: "none", Em: []Em{}, Post: Post{Culp: []string{}}})
		}
		return probe
	}
	am := e.Abstract(m, cls) // before the call: the view tables may change afterwards
	oc := p.Accept(wire)
	if oc.Panic != "" || oc.Hang {
		e.afterCall(inst, p, oc)
		if e.Honest[inst] && e.Log {
			e.Events = append(e.Events, Event{Ev: "Crash", I: e.Nm(inst), M: am, Trace: e.Trace, Note: firstLine(oc.Panic), Res: "none", Em: []Em{}, Post: Post{Culp: []string{}}})
		}
		return oc
	}
	if hasSnap {
		after = sn.VerifSnapshot()
	}
	stAfter := p.Status()
	ign := len(oc.Emitted) == 0 && len(probe.Emitted) == 0 && stBefore.St == stAfter.St && (!hasSnap || sameSnap(before, after))
	// bookkeeping: did the handler store the message?
	if !ign && m.RoundNumber > 0 && hasSnap {
		r := int(m.RoundNumber)
		var was, is []party.ID
		if m.Broadcast {
			was, is = before.StoredB[r], after.StoredB[r]
		} else {
			was, is = before.StoredM[r], after.StoredM[r]
		}
		if !containsID(was, m.From) && containsID(is, m.From) {
			e.slot(inst, r, m.Broadcast)[m.From] = e.VarOf(m)
		}
	}
	oc.Emitted = append(probe.Emitted, oc.Emitted...)
	e.afterCall(inst, p, oc)
	if e.Honest[inst] && e.Log {
		e.Events = append(e.Events, Event{Ev: "Accept", I: e.Nm(inst), M: am, Can: can, Ign: ign,
			Post: e.post(inst, p), Em: e.emitted(inst, oc.Emitted), Trace: e.Trace, Res: e.res(inst, p)})
	}
	return oc
}

// StopParty calls Stop and logs the event.
func (e *Engine) StopParty(inst party.ID) Outcome {
	p := e.Parties[inst]
	if p == nil || p.Dead {
		return Outcome{}
	}
	stBefore := p.Status()
	oc := p.Call(func() { p.H.Stop() })
	e.afterCall(inst, p, oc)
	if oc.Panic != "" || oc.Hang {
		if e.Honest[inst] && e.Log {
			e.Events = append(e.Events, Event{Ev: "Crash", I: e.Nm(inst), Trace: e.Trace, Note: "Stop: " + firstLine(oc.Panic)})
		}
		return oc
	}
	stAfter := p.Status()
	if e.Honest[inst] && e.Log {
		e.Events = append(e.Events, Event{Ev: "Stop", I: e.Nm(inst), Ign: stBefore.St == stAfter.St && len(oc.Emitted) == 0,
			Post: e.post(inst, p), Em: e.emitted(inst, oc.Emitted), Trace: e.Trace, Res: "none"})
	}
	return oc
}

func containsID(l []party.ID, id party.ID) bool {
	for _, x := range l {
		if x == id {
			return true
		}
	}
	return false
}

// HonestIDs returns the honest parties in order.
func (e *Engine) HonestIDs() []party.ID {
	var out []party.ID
	for _, id := range e.IDs {
		if e.Honest[id] {
			out = append(out, id)
		}
	}
	return out
}

// StoredLabels renders which variant of every sender's round-r broadcast the instance stored.
func (e *Engine) StoredLabels(inst party.ID, r int) string {
	s := ""
	sl := e.slot(inst, r, true)
	for _, id := range e.IDs {
		s += string(id) + "=" + sl[id] + " "
	}
	return s
}

// HasStored reports whether the instance already stored a message in that slot.
func (e *Engine) HasStored(inst party.ID, r int, b bool, from party.ID) bool {
	_, ok := e.slot(inst, r, b)[from]
	return ok
}

// OverTheWire encodes and decodes a message with the library's own codec; a message that cannot make the trip
// is delivered as it is.
func OverTheWire(m *protocol.Message) *protocol.Message {
	if m == nil {
		return nil
	}
	b, err := m.MarshalBinary()
	if err != nil {
		return m
	}
	var out protocol.Message
	if err := out.UnmarshalBinary(b); err != nil {
		return m
	}
	// the codec does not distinguish nil from empty byte strings; keep what the sender had
	if m.Data == nil {
		out.Data = nil
	}
	if m.SSID == nil {
		out.SSID = nil
	}
	return &out
}
