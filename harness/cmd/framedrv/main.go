// framedrv - conformance driver of property C19 (transcript framing and commitments of pkg/hash).
//
//	framedrv vectors -in vectors.json -out res.json
//	    byte-exact vectors and adversarial pairs printed by Framing.tla are fed, as real typed Go values, to the
//	    real hash.New().WriteAny; Sum() must equal blake3(bytes of the specification) and two sequences may have the
//	    same digest only if the specification says they are the same (domain, data) sequence.
//	framedrv rich -domains domains.json -seed S -out res.json
//	    the adversarial relations of Framing.tla instantiated with the rich real types (saferith, curve, party,
//	    paillier, polynomial, types, round, nested writers); any two DIFFERENT sequences must hash differently and
//	    every item must be framed as Frame(domain table of the spec, bytes the value writes).
//	framedrv commit -in cases.jsonl -seed S -out res.json
//	    every case enumerated by Commit.tla is replayed on the real Commit / Decommit / Validate.
//
// The oracle is independent of the library: the framed bytes come from the specification (vectors, commit) or from
// the re-implementation of Frame below (rich), the digest from github.com/zeebo/blake3 directly.
package main

import (
	"bufio"
	"bytes"
	crand "crypto/rand"
	"encoding/binary"
	"encoding/hex"
	"encoding/json"
	"flag"
	"fmt"
	"io"
	"math/big"
	mrand "math/rand"
	"os"
	"reflect"
	"sort"
	"strings"

	"github.com/cronokirby/saferith"
	"github.com/fxamacker/cbor/v2"
	"github.com/taurusgroup/multi-party-sig/internal/elgamal"
	"github.com/taurusgroup/multi-party-sig/internal/round"
	"github.com/taurusgroup/multi-party-sig/internal/types"
	"github.com/taurusgroup/multi-party-sig/pkg/hash"
	"github.com/taurusgroup/multi-party-sig/pkg/math/arith"
	"github.com/taurusgroup/multi-party-sig/pkg/math/curve"
	"github.com/taurusgroup/multi-party-sig/pkg/math/polynomial"
	"github.com/taurusgroup/multi-party-sig/pkg/paillier"
	"github.com/taurusgroup/multi-party-sig/pkg/party"
	"github.com/taurusgroup/multi-party-sig/pkg/pedersen"
	zksch "github.com/taurusgroup/multi-party-sig/pkg/zk/sch"
	"github.com/taurusgroup/multi-party-sig/protocols/cmp/config"
	"github.com/taurusgroup/multi-party-sig/verifharness/oracle"
	"github.com/zeebo/blake3"
)

// ---------------------------------------------------------------------------------------------------------------
// independent oracle

func xof64(b []byte) []byte {
	h := blake3.New()
	_, _ = h.Write(b)
	out := make([]byte, 64)
	_, _ = io.ReadFull(h.Digest(), out)
	return out
}

// frame re-implements Frame(dom, data) of Framing.tla (Variant "full").
func frame(dom string, data []byte) []byte {
	var l [8]byte
	out := []byte{'('}
	binary.BigEndian.PutUint64(l[:], uint64(len(dom)))
	out = append(out, l[:]...)
	out = append(out, dom...)
	binary.BigEndian.PutUint64(l[:], uint64(len(data)))
	out = append(out, l[:]...)
	out = append(out, data...)
	return append(out, ')')
}

const prefix = "CMP-BLAKE"

// ---------------------------------------------------------------------------------------------------------------
// result bookkeeping

type failure struct {
	Site   string      `json:"site"`
	Class  string      `json:"class"`
	What   string      `json:"what"`
	Detail interface{} `json:"detail,omitempty"`
}

type result struct {
	Mode        string                   `json:"mode"`
	Evaluations int                      `json:"evaluations"`
	Confirmed   int                      `json:"confirmed"`
	Counts      map[string]int           `json:"counts"`
	Failures    []failure                `json:"failures"`
	NFailures   int                      `json:"n_failures"`
	Errors      []string                 `json:"errors"`
	Samples     []map[string]interface{} `json:"samples"`
}

func newResult(mode string) *result {
	return &result{Mode: mode, Counts: map[string]int{}, Failures: []failure{}, Errors: []string{}, Samples: []map[string]interface{}{}}
}

func (r *result) fail(site, class, what string, detail interface{}) {
	r.NFailures++
	r.Counts["fail:"+site+":"+class]++
	if len(r.Failures) < 200 {
		r.Failures = append(r.Failures, failure{site, class, what, detail})
	}
}

func (r *result) errorf(f string, a ...interface{}) {
	if len(r.Errors) < 50 {
		r.Errors = append(r.Errors, fmt.Sprintf(f, a...))
	}
}

func (r *result) sample(m map[string]interface{}) {
	if len(r.Samples) < 6 {
		r.Samples = append(r.Samples, m)
	}
}

func (r *result) write(path string) {
	b, _ := json.MarshalIndent(r, "", " ")
	if err := os.WriteFile(path, b, 0o644); err != nil {
		fmt.Fprintln(os.Stderr, err)
		os.Exit(3)
	}
}

func hx(b []byte) string { return hex.EncodeToString(b) }
func unhx(s string) []byte {
	b, err := hex.DecodeString(s)
	if err != nil {
		panic(err)
	}
	if b == nil {
		b = []byte{}
	}
	return b
}

// ---------------------------------------------------------------------------------------------------------------
// model items -> real values

type jItem struct {
	Ty  string `json:"ty"`
	Dom string `json:"dom"` // hex
	D   string `json:"d"`   // hex
}

// realValue maps an item of Framing.tla to the real Go type whose written bytes are literally the model's data.
func realValue(it jItem) interface{} {
	d := unhx(it.D)
	switch it.Ty {
	case "bytes":
		return d
	case "big":
		return new(big.Int).SetBytes(d) // GobEncode = 0x02 || d   (d has no leading zero byte in the model)
	case "id":
		return party.ID(string(d))
	case "nat":
		return new(saferith.Nat).SetBytes(d) // MarshalBinary = d (announced length 8*len(d))
	case "wd":
		return hash.BytesWithDomain{TheDomain: string(unhx(it.Dom)), Bytes: d}
	}
	panic("unknown model type " + it.Ty)
}

func realValues(items []jItem) []interface{} {
	vs := make([]interface{}, len(items))
	for i, it := range items {
		vs[i] = realValue(it)
	}
	return vs
}

func describe(items []jItem) string {
	var sb strings.Builder
	for i, it := range items {
		if i > 0 {
			sb.WriteString(" ")
		}
		if it.Ty == "wd" {
			fmt.Fprintf(&sb, "wd[%q](%s)", string(unhx(it.Dom)), it.D)
		} else {
			fmt.Fprintf(&sb, "%s(%s)", it.Ty, it.D)
		}
	}
	return "<" + sb.String() + ">"
}

// digests of one sequence through the different entry points of the real hash
func realDigests(vs []interface{}) (map[string][]byte, error) {
	out := map[string][]byte{}
	h := hash.New()
	for _, v := range vs {
		if err := h.WriteAny(v); err != nil {
			return nil, err
		}
	}
	out["WriteAny"] = h.Sum()
	h2 := hash.New()
	if err := h2.WriteAny(vs...); err != nil {
		return nil, err
	}
	out["WriteAny-variadic"] = h2.Sum()
	out["Fork"] = hash.New().Fork(vs...).Sum()
	// Clone half way: the clone continues, the original must stay where it was
	k := len(vs) / 2
	h3 := hash.New()
	_ = h3.WriteAny(vs[:k]...)
	before := h3.Sum()
	c := h3.Clone()
	_ = c.WriteAny(vs[k:]...)
	out["Clone"] = c.Sum()
	if !bytes.Equal(before, h3.Sum()) {
		out["Clone"] = append([]byte("original changed by clone: "), h3.Sum()...)
	}
	all := true
	ws := make([]hash.WriterToWithDomain, 0, len(vs))
	for _, v := range vs {
		w, ok := v.(hash.WriterToWithDomain)
		if !ok {
			all = false
			break
		}
		ws = append(ws, w)
	}
	if all {
		out["New(initial)"] = hash.New(ws...).Sum()
	}
	return out, nil
}

// ---------------------------------------------------------------------------------------------------------------
// mode vectors

type jVec struct {
	Items []jItem `json:"items"`
	Bytes string  `json:"bytes"` // hex; "" when the vector only takes part in pairs (derived under a wrong variant)
}
type jPair struct {
	Rel     string `json:"rel"`
	Variant string `json:"variant"`
	A       int    `json:"a"`
	B       int    `json:"b"`
	Same    bool   `json:"same"`
}
type vecFile struct {
	Vectors []jVec  `json:"vectors"`
	Pairs   []jPair `json:"pairs"`
}

func modeVectors(in, out string) {
	res := newResult("vectors")
	var vf vecFile
	raw, err := os.ReadFile(in)
	if err != nil {
		panic(err)
	}
	if err := json.Unmarshal(raw, &vf); err != nil {
		panic(err)
	}
	dig := make([][]byte, len(vf.Vectors))
	seen := map[string]int{} // real digest -> first vector with it
	for i, v := range vf.Vectors {
		vs := realValues(v.Items)
		ds, err := realDigests(vs)
		if err != nil {
			res.errorf("vector %d %s: WriteAny refused a well-formed value: %v", i, describe(v.Items), err)
			continue
		}
		dig[i] = ds["WriteAny"]
		res.Evaluations++
		ok := true
		if v.Bytes != "" {
			spec := unhx(v.Bytes)
			want := xof64(spec)
			for _, r := range []string{"WriteAny", "WriteAny-variadic", "Fork", "Clone", "New(initial)"} {
				if d, have := ds[r]; have && !bytes.Equal(d, want) {
					ok = false
					res.fail("WriteAny", "framing-mismatch",
						fmt.Sprintf("real digest via %s of %s differs from blake3 over the specified framing", r, describe(v.Items)),
						map[string]interface{}{"route": r, "items": v.Items, "spec_bytes": v.Bytes, "want": hx(want), "got": hx(ds[r])})
					break
				}
			}
			res.Counts["vectors_byte_exact"]++
			if ok {
				res.sample(map[string]interface{}{"kind": "byte-exact vector", "items": describe(v.Items), "spec_bytes": v.Bytes, "digest": hx(want)[:32] + "..."})
			}
		} else {
			// no specified bytes: all entry points must at least agree
			for r, d := range ds {
				if !bytes.Equal(d, dig[i]) {
					ok = false
					res.fail("WriteAny", "framing-mismatch", fmt.Sprintf("entry point %s disagrees with WriteAny on %s", r, describe(v.Items)), nil)
				}
			}
		}
		// global: no two vectors with different specified bytes share a real digest
		if j, dup := seen[string(dig[i])]; dup {
			if v.Bytes != "" && vf.Vectors[j].Bytes != "" && v.Bytes != vf.Vectors[j].Bytes {
				ok = false
				res.fail("WriteAny", "collision", fmt.Sprintf("different sequences %s and %s have the same real digest", describe(vf.Vectors[j].Items), describe(v.Items)),
					map[string]interface{}{"a": vf.Vectors[j].Items, "b": v.Items, "digest": hx(dig[i])})
			}
		} else {
			seen[string(dig[i])] = i
		}
		if ok {
			res.Confirmed++
		}
	}
	for _, p := range vf.Pairs {
		da, db := dig[p.A], dig[p.B]
		if da == nil || db == nil {
			continue
		}
		res.Evaluations++
		res.Counts["pairs:"+p.Rel]++
		eq := bytes.Equal(da, db)
		switch {
		case eq && !p.Same:
			res.fail("WriteAny", "collision",
				fmt.Sprintf("relation %s (derived for framing %s): %s and %s are different sequences with the same real digest", p.Rel, p.Variant, describe(vf.Vectors[p.A].Items), describe(vf.Vectors[p.B].Items)),
				map[string]interface{}{"rel": p.Rel, "variant": p.Variant, "a": vf.Vectors[p.A].Items, "b": vf.Vectors[p.B].Items, "digest": hx(da)})
		case !eq && p.Same:
			res.fail("WriteAny", "framing-mismatch",
				fmt.Sprintf("relation %s: %s and %s are the same (domain,data) sequence but hash differently", p.Rel, describe(vf.Vectors[p.A].Items), describe(vf.Vectors[p.B].Items)),
				map[string]interface{}{"rel": p.Rel, "a": vf.Vectors[p.A].Items, "b": vf.Vectors[p.B].Items})
		default:
			res.Confirmed++
			if !p.Same && len(res.Samples) < 6 && res.Counts["sampled:"+p.Rel] == 0 {
				res.Counts["sampled:"+p.Rel]++
				res.sample(map[string]interface{}{"kind": "adversarial pair, digests differ", "rel": p.Rel, "a": describe(vf.Vectors[p.A].Items), "b": describe(vf.Vectors[p.B].Items)})
			}
		}
	}
	res.write(out)
}

// ---------------------------------------------------------------------------------------------------------------
// mode rich

// rv is one real value with an identity that does not come from the library.
type rv struct {
	kind string      // key of the domain table of the specification
	id   string      // independent identity of the value within its kind
	val  interface{} // the real value
	wdom string      // for kind "wd": its domain
	own  []byte      // composite writers: the bytes the specification says the value hands to the framing (stated here, not asked of the value)
}

func (v rv) ident() string {
	if v.kind == "wd" {
		return fmt.Sprintf("wd[%d:%s]%s", len(v.wdom), v.wdom, v.id)
	}
	return v.kind + ":" + v.id
}

type rseq struct {
	rel   string
	items []rv
}

func (s rseq) ident() string {
	parts := make([]string, len(s.items))
	for i, it := range s.items {
		parts[i] = it.ident()
	}
	return strings.Join(parts, " | ")
}

var group = curve.Secp256k1{}

func nb(b []byte) []byte { // non-nil copy
	out := make([]byte, len(b))
	copy(out, b)
	return out
}

func rBytes(b []byte) rv { return rv{kind: "bytes", id: hx(b), val: nb(b)} }
func rBig(b []byte, neg bool) rv {
	x := new(big.Int).SetBytes(b)
	m := new(big.Int).SetBytes(b)
	s := "+"
	if neg && m.Sign() != 0 {
		x.Neg(x)
		s = "-"
	}
	return rv{kind: "big", id: s + m.Text(16), val: x}
}
func rNat(b []byte) rv { return rv{kind: "nat", id: hx(b), val: new(saferith.Nat).SetBytes(b)} }
func rInt(b []byte, neg bool) rv {
	x := new(saferith.Int).SetBytes(b)
	s := "+"
	if neg {
		x.Neg(1)
		s = "-"
	}
	return rv{kind: "int", id: s + hx(b), val: x}
}
func rMod(b []byte) rv { // b without leading zero byte, non-empty
	m := new(big.Int).SetBytes(b)
	return rv{kind: "modulus", id: m.Text(16), val: saferith.ModulusFromBytes(b)}
}
func scalarOf(b []byte) curve.Scalar { // b: 32 bytes below the group order
	return group.NewScalar().SetNat(new(saferith.Nat).SetBytes(b))
}
func rScalar(b []byte) rv { return rv{kind: "scalar", id: hx(b), val: scalarOf(b)} }
func rPoint(b []byte) rv  { return rv{kind: "point", id: hx(b) + "*G", val: scalarOf(b).ActOnBase()} }
func rID(s string) rv     { return rv{kind: "id", id: hx([]byte(s)), val: party.ID(s)} }
func rIDSlice(ids ...string) rv {
	sl := make(party.IDSlice, len(ids))
	parts := make([]string, len(ids))
	for i, s := range ids {
		sl[i] = party.ID(s)
		parts[i] = fmt.Sprintf("%d:%s", len(s), hx([]byte(s)))
	}
	return rv{kind: "idslice", id: strings.Join(parts, ","), val: sl}
}
func rRID(b []byte) rv          { return rv{kind: "rid", id: hx(b), val: types.RID(nb(b))} }
func rThreshold(t uint32) rv    { return rv{kind: "threshold", id: fmt.Sprint(t), val: types.ThresholdWrapper(t)} }
func rRound(n uint16) rv        { return rv{kind: "round", id: fmt.Sprint(n), val: round.Number(n)} }
func rCommitment(b []byte) rv   { return rv{kind: "commitment", id: hx(b), val: hash.Commitment(nb(b))} }
func rDecommitment(b []byte) rv { return rv{kind: "decommitment", id: hx(b), val: hash.Decommitment(nb(b))} }
func rWd(dom string, b []byte) rv {
	return rv{kind: "wd", id: hx(b), wdom: dom, val: hash.BytesWithDomain{TheDomain: dom, Bytes: nb(b)}}
}
func rCiphertext(b []byte) rv { // the value of b as a number below 2^4096
	ct := new(paillier.Ciphertext)
	if err := ct.UnmarshalBinary(b); err != nil {
		panic(err)
	}
	return rv{kind: "ciphertext", id: new(big.Int).SetBytes(b).Text(16), val: ct}
}

// ---- composite writers: a value made of several components, written as their concatenation under one domain tag.
// The bytes are restated from the components with independent encoders (compressed points from the math/big oracle,
// fixed-width / minimal big-endian numbers).
func cpt(b []byte) []byte { return oracle.BaseMul(new(big.Int).SetBytes(b)).Compressed() }
func pad(b []byte, n int) []byte {
	out := make([]byte, n)
	copy(out[n-len(b):], b)
	return out
}
func minimal(b []byte) []byte { return new(big.Int).SetBytes(b).Bytes() }
func rElGamal(l, m []byte) rv {
	return rv{kind: "elgamal", id: hx(l) + "*G," + hx(m) + "*G", val: &elgamal.Ciphertext{L: scalarOf(l).ActOnBase(), M: scalarOf(m).ActOnBase()},
		own: append(cpt(l), cpt(m)...)}
}
func rSchCommit(c []byte) rv {
	return rv{kind: "schcommit", id: hx(c) + "*G", val: &zksch.Commitment{C: scalarOf(c).ActOnBase()}, own: cpt(c)}
}
func rPaillierPK(n []byte) rv { // n: odd, no leading zero
	return rv{kind: "paillierpk", id: hx(n), val: paillier.NewPublicKey(saferith.ModulusFromBytes(n)), own: minimal(n)}
}
func pedersenOf(n, s_, t []byte) *pedersen.Parameters {
	return pedersen.New(arith.ModulusFromN(saferith.ModulusFromBytes(n)), new(saferith.Nat).SetBytes(s_), new(saferith.Nat).SetBytes(t))
}
func pedersenBytes(n, s_, t []byte) []byte {
	return append(append(pad(minimal(n), 256), pad(minimal(s_), 256)...), pad(minimal(t), 256)...)
}
func rPedersen(n, s_, t []byte) rv {
	return rv{kind: "pedersen", id: hx(n) + "," + hx(s_) + "," + hx(t), val: pedersenOf(n, s_, t), own: pedersenBytes(n, s_, t)}
}
func rSigMsg(b []byte) rv {
	if b == nil {
		return rv{kind: "sigmsgnil", id: "nil", val: types.SigningMessage(nil), own: []byte{}}
	}
	return rv{kind: "sigmsg", id: hx(b), val: types.SigningMessage(b), own: nb(b)}
}
func rCmpPublic(x, y, n, pn, ps, pt []byte) rv {
	own := append(append(cpt(x), cpt(y)...), minimal(n)...)
	own = append(own, pedersenBytes(pn, ps, pt)...)
	return rv{kind: "cmppublic", id: strings.Join([]string{hx(x), hx(y), hx(n), hx(pn), hx(ps), hx(pt)}, ","),
		val: &config.Public{ECDSA: scalarOf(x).ActOnBase(), ElGamal: scalarOf(y).ActOnBase(), Paillier: paillier.NewPublicKey(saferith.ModulusFromBytes(n)),
			Pedersen: pedersenOf(pn, ps, pt)}, own: own}
}

type rawExp struct {
	IsConstant   bool
	Coefficients []curve.Point
}

// rExponent builds F(X) with coefficients [s_i]G from the wire format of the library (4 byte count || cbor).
func rExponent(isConstant bool, scalars ...[]byte) rv {
	pts := make([]curve.Point, len(scalars))
	ids := make([]string, len(scalars))
	for i, s := range scalars {
		pts[i] = scalarOf(s).ActOnBase()
		ids[i] = hx(s)
	}
	data, err := cbor.Marshal(rawExp{IsConstant: isConstant, Coefficients: pts})
	if err != nil {
		panic(err)
	}
	wire := make([]byte, 4+len(data))
	binary.BigEndian.PutUint32(wire, uint32(len(pts)))
	copy(wire[4:], data)
	e := polynomial.EmptyExponent(group)
	if err := e.UnmarshalBinary(wire); err != nil {
		panic(err)
	}
	return rv{kind: "exponent", id: fmt.Sprintf("const=%v[%s]", isConstant, strings.Join(ids, ",")), val: e}
}

// ownBytes: the bytes the value itself hands to the framing (this is what the type writes, not how it is framed).
func ownBytes(v rv) ([]byte, error) {
	if v.own != nil {
		return v.own, nil
	}
	switch t := v.val.(type) {
	case []byte:
		return t, nil
	case *big.Int:
		// GobEncode re-stated: version 1 <<1 | sign, then the magnitude
		b := byte(2)
		if t.Sign() < 0 {
			b = 3
		}
		return append([]byte{b}, t.Bytes()...), nil
	case hash.WriterToWithDomain:
		var buf bytes.Buffer
		_, err := t.WriteTo(&buf)
		return buf.Bytes(), err
	case interface{ MarshalBinary() ([]byte, error) }:
		return t.MarshalBinary()
	}
	return nil, fmt.Errorf("no bytes for %T", v.val)
}

func modeRich(domainsPath string, seed int64, out string) {
	res := newResult("rich")
	// domain table of the specification (RichDomains of Framing.tla)
	domains := map[string]string{}
	{
		raw, err := os.ReadFile(domainsPath)
		if err != nil {
			panic(err)
		}
		var t map[string][]int
		if err := json.Unmarshal(raw, &t); err != nil {
			panic(err)
		}
		for k, v := range t {
			b := make([]byte, len(v))
			for i, x := range v {
				b[i] = byte(x)
			}
			domains[k] = string(b)
		}
	}
	rng := mrand.New(mrand.NewSource(seed*7919 + 19))
	rnd := func(n int) []byte {
		b := make([]byte, n)
		rng.Read(b)
		return b
	}
	rnd32 := func() []byte { // a valid scalar encoding, odd, no leading zero
		b := rnd(32)
		b[0] = 1 + b[0]%0xF0
		b[31] |= 1
		return b
	}
	var seqs []rseq
	add := func(rel string, items ...rv) { seqs = append(seqs, rseq{rel, items}) }

	// constructors of variable-length kinds from arbitrary non-empty bytes
	varKinds := map[string]func([]byte) rv{
		"bytes": rBytes, "nat": rNat, "rid": rRID, "commitment": rCommitment, "decommitment": rDecommitment,
		"id":   func(b []byte) rv { return rID(string(b)) },
		"wdX":  func(b []byte) rv { return rWd("X", b) },
		"wdXY": func(b []byte) rv { return rWd("XY", b) },
		"int":  func(b []byte) rv { return rInt(b, false) },
	}
	vk := make([]string, 0, len(varKinds))
	for k := range varKinds {
		vk = append(vk, k)
	}
	sort.Strings(vk)

	for round_ := 0; round_ < 4; round_++ {
		a, b := rnd(3+rng.Intn(6)), rnd(3+rng.Intn(6))
		a[0], b[0] = 1+a[0]%200, 1+b[0]%200 // no leading zeros: the same bytes are also used as numbers
		// 1. shifted boundary / merged / split between adjacent items of every pair of variable-length kinds
		for _, k1 := range vk {
			for _, k2 := range vk {
				f, g := varKinds[k1], varKinds[k2]
				ab := append(nb(a), b...)
				add("base", f(a), g(b))
				add("shift-right", f(a[:len(a)-1]), g(append([]byte{a[len(a)-1]}, b...)))
				add("shift-left", f(append(nb(a), b[0])), g(b[1:]))
				add("permute", g(b), f(a))
				if k1 == k2 {
					add("merge", f(ab))
					add("split", f(a[:1]), f(a[1:]), g(b))
				}
			}
		}
		// 2. domain tag / data boundary
		for _, d := range []string{"X", "XY", "I", "RI", "IDSlic", "Threshol", "big.In", "[]byt", "*saferith.Na"} {
			add("domshift-base", rWd(d, a))
			add("dom-takes-byte", rWd(d+string(a[:1]), a[1:]))
			add("data-takes-byte", rWd(d[:len(d)-1], append([]byte{d[len(d)-1]}, a...)))
		}
		add("dom-takes-byte", rID("D"+string(a)), rWd("I", append([]byte("D"), a...)), rWd("IDD", a))
		add("dom-takes-byte", rRID(a), rWd("RI", append([]byte("D"), a...)))
		// 3. equal bytes, swapped types: a 32 byte string that is a valid scalar, an odd modulus, a number
		x := rnd32()
		same := []rv{rBytes(x), rBig(x, false), rBig(x, true), rNat(x), rInt(x, false), rInt(x, true), rMod(x), rScalar(x), rPoint(x),
			rID(string(x)), rIDSlice(string(x)), rRID(x), rCommitment(x), rDecommitment(x), rWd("X", x), rWd("", x), rCiphertext(x), rExponent(false, x), rExponent(true, x)}
		for _, v := range same {
			add("type-swap", v)
			add("type-swap", rBytes(a), v)
			add("type-swap", v, rRound(3))
		}
		// equal FRAMED bytes under another type
		for _, v := range same {
			ob, err := ownBytes(v)
			if err != nil {
				res.errorf("ownBytes(%s): %v", v.ident(), err)
				continue
			}
			for _, w := range []rv{rBytes(ob), rNat(ob), rRID(ob), rWd("X", ob), rID(string(ob))} {
				if w.kind != v.kind {
					add("type-swap-framed", w)
				}
			}
			if len(ob) > 1 && ob[0] != 0 {
				add("type-swap-framed", rBig(ob, false), rMod(append(nb(ob[:len(ob)-1]), ob[len(ob)-1]|1)))
			}
		}
		// 4. numbers: sign, zero, fixed width encodings
		add("sign", rBig(nil, false))
		add("sign", rBytes(nil))
		add("sign", rBytes([]byte{2}))
		add("sign", rNat(nil))
		add("sign", rInt(nil, false))
		add("sign", rInt(nil, true))
		add("sign", rNat([]byte{0}))
		add("sign", rNat([]byte{0, 0}))
		for _, t := range []uint32{0, 1, 2, 255, 256, 65535, 65536, rng.Uint32()} {
			var be4 [4]byte
			var be8 [8]byte
			binary.BigEndian.PutUint32(be4[:], t)
			binary.BigEndian.PutUint64(be8[:], uint64(uint16(t)))
			add("fixed-width", rThreshold(t))
			add("fixed-width", rRound(uint16(t)))
			add("fixed-width", rBytes(be4[:]))
			add("fixed-width", rBytes(be8[:]))
			add("fixed-width", rThreshold(t), rRound(uint16(t)))
			add("fixed-width", rRound(uint16(t)), rThreshold(t))
			add("fixed-width", rThreshold(t>>16), rThreshold(t&0xffff))
		}
		// 5. identifiers: an IDSlice against its members as separate items, against the concatenation, permuted
		p, q, r := "p"+hx(rnd(1)), "q"+hx(rnd(2)), "r"+hx(rnd(1))
		add("idslice", rIDSlice(p, q, r))
		add("idslice", rIDSlice(p, q), rID(r))
		add("idslice", rID(p), rID(q), rID(r))
		add("idslice", rIDSlice(p), rIDSlice(q), rIDSlice(r))
		add("idslice", rIDSlice(p, q), rIDSlice(r))
		add("idslice", rIDSlice(p), rIDSlice(q, r))
		add("idslice", rIDSlice(q, p, r))
		add("idslice", rIDSlice(r, q, p))
		add("idslice", rIDSlice(p, q))
		add("idslice", rIDSlice())
		add("idslice", rIDSlice(), rIDSlice())
		add("idslice", rID(p+q+r))
		// the boundary between two ids inside one IDSlice (known issue of the code base, belongs to C09)
		add("idslice-boundary", rIDSlice(p, q, r), rBytes(a))
		add("idslice-boundary", rIDSlice(p+q[:1], q[1:], r), rBytes(a))
		add("idslice-boundary", rIDSlice(p, q+r[:1], r[1:]), rBytes(a))
		add("idslice-boundary", rIDSlice(p+q, r), rBytes(a))
		add("idslice-boundary", rIDSlice("a", "bc"))
		add("idslice-boundary", rIDSlice("ab", "c"))
		// identifiers are arbitrary bytes: they may contain what looks like a length word.  If the per-identifier prefix
		// were a constant (the count, a previous length, zero) these pairs would be written identically.
		for k := uint64(0); k <= 4; k++ {
			var wb [8]byte
			binary.BigEndian.PutUint64(wb[:], k)
			w := string(wb[:])
			add("idslice-boundary", rIDSlice("x"+w+"y", "z"))
			add("idslice-boundary", rIDSlice("x", "y"+w+"z"))
			add("idslice-boundary", rIDSlice("x"+w+"y", "z", "zz"))
			add("idslice-boundary", rIDSlice("x", "y"+w+"z", "zz"))
			add("idslice-boundary", rIDSlice("w", "x"+w+"y", "z"))
			add("idslice-boundary", rIDSlice("w", "x", "y"+w+"z"))
		}
		// 6. polynomials in the exponent: order of coefficients, split / merged, constant flag, against points
		s1, s2, s3 := rnd32(), rnd32(), rnd32()
		add("exponent", rExponent(false, s1, s2, s3))
		add("exponent", rExponent(false, s3, s2, s1))
		add("exponent", rExponent(false, s2, s1, s3))
		add("exponent", rExponent(true, s1, s2, s3))
		add("exponent", rExponent(false, s1, s2), rExponent(false, s3))
		add("exponent", rExponent(false, s1), rExponent(false, s2, s3))
		add("exponent", rExponent(false, s1, s2))
		add("exponent", rExponent(false, s1, s2), rPoint(s3))
		add("exponent", rPoint(s1), rPoint(s2), rPoint(s3))
		add("exponent", rPoint(s3), rPoint(s2), rPoint(s1))
		add("exponent", rPoint(s1), rScalar(s1))
		add("exponent", rScalar(s1), rPoint(s1))
		add("exponent", rScalar(s1), rScalar(s2))
		add("exponent", rScalar(s2), rScalar(s1))
		// 7. ciphertexts: full width values, neighbours, against the same number as a Nat / big.Int
		c1 := rnd(512)
		c2 := nb(c1)
		c2[511] ^= 1
		c3 := nb(c1)
		c3[0] ^= 0x80
		add("ciphertext", rCiphertext(c1))
		add("ciphertext", rCiphertext(c2))
		add("ciphertext", rCiphertext(c3))
		add("ciphertext", rCiphertext(c1), rCiphertext(c2))
		add("ciphertext", rCiphertext(c2), rCiphertext(c1))
		add("ciphertext", rNat(c1))
		add("ciphertext", rBytes(c1))
		add("ciphertext", rCiphertext(c1[:256]), rCiphertext(c1[256:]))
		add("ciphertext", rWd("Paillier Ciphertex", append([]byte("t"), c1...)))
		// 8. nested writers against the flat sequence, the splice of the separator bytes, the length in the domain
		inner := []rv{rID(p), rBig(x, false), rBytes(a)}
		var body []byte
		for _, it := range inner {
			ob, _ := ownBytes(it)
			body = append(body, frame(domains[it.kind], ob)...)
		}
		add("nest", inner...)
		add("nest", rWd("N", body))
		add("nest", rBytes(body))
		add("nest", inner[0], rWd("N", body[len(frame(domains["id"], []byte(p))):]))
		add("nest", rWd("N", append([]byte(prefix), body...)))
		fa := frame("X", a)
		fb := frame("XY", b)
		add("splice", rWd("X", a), rWd("XY", b))
		add("splice", rWd("X", append(append(nb(a), fa[len(fa)-1:]...), append(fb[:len(fb)-1-len(b)], b...)...)))
		add("splice", rWd("X", append(append(nb(a), ')', '('), append([]byte("XY"), b...)...)))
		add("splice", rWd("X", append(nb(a), b...)))
		// 10. composite writers: every component must reach the digest, in its place (a component written twice, left
		//     out, or two of them swapped gives colliding or misframed digests); against the components as separate items
		{
			l, m, m2 := rnd32(), rnd32(), rnd32()
			add("composite", rElGamal(l, m))
			add("composite", rElGamal(l, m2))
			add("composite", rElGamal(m2, m))
			add("composite", rElGamal(m, l))
			add("composite", rElGamal(l, l))
			add("composite", rElGamal(m, m))
			add("composite", rPoint(l), rPoint(m))
			add("composite", rBytes(append(cpt(l), cpt(m)...)))
			add("composite", rSchCommit(l))
			add("composite", rSchCommit(m))
			add("composite", rSchCommit(l), rSchCommit(m))
			add("composite", rPoint(l))
			odd := func(n int) []byte { b := rnd(n); b[0] |= 0x80; b[n-1] |= 1; return b }
			n1, n2 := odd(256), odd(256)
			s1, t1, t2 := rnd(255), rnd(255), rnd(200)
			add("composite", rPaillierPK(n1))
			add("composite", rPaillierPK(n2))
			add("composite", rNat(n1))
			add("composite", rMod(n1))
			add("composite", rPedersen(n1, s1, t1))
			add("composite", rPedersen(n1, t1, s1))
			add("composite", rPedersen(n2, s1, t1))
			add("composite", rPedersen(n1, s1, t2))
			add("composite", rPedersen(n1, t2, t2))
			add("composite", rPedersen(n1, s1, s1))
			add("composite", rPaillierPK(n1), rNat(pad(s1, 256)), rNat(pad(t1, 256)))
			add("composite", rSigMsg(a))
			add("composite", rSigMsg(nil))
			add("composite", rSigMsg([]byte{}))
			add("composite", rBytes(a))
			add("composite", rSigMsg(a[:1]), rSigMsg(a[1:]))
			add("composite", rCmpPublic(l, m, n1, n2, s1, t1))
			add("composite", rCmpPublic(m, l, n1, n2, s1, t1))
			add("composite", rCmpPublic(l, m, n2, n1, s1, t1))
			add("composite", rCmpPublic(l, m, n1, n2, t1, s1))
			add("composite", rCmpPublic(l, l, n1, n2, s1, t1))
			add("composite", rCmpPublic(l, m, n1, n1, s1, t1))
			add("composite", rCmpPublic(l, m2, n1, n2, s1, t1))
			add("composite", rCmpPublic(l, m, n1, n2, s1, t2))
			add("composite", rPoint(l), rPoint(m), rPaillierPK(n1), rPedersen(n2, s1, t1))
		}
		// 9. long items: every byte of the 64 bit length prefix that a realistic input can reach
		for _, n := range []int{255, 256, 257, 300, 65535, 65536, 65536 + 256 + 3} {
			long := rnd(n)
			long[0] |= 1
			add("long", rBytes(long))
			add("long", rBytes(long[:n-256+1]))
			add("long", rBytes(long[:1]), rBytes(long[1:]))
			add("long", rNat(long))
			add("long", rWd(string(long[:n/2]), long[n/2:]))
			add("long", rWd(string(long[:n/2+1]), long[n/2+1:]))
		}
		var l8 [8]byte
		binary.BigEndian.PutUint64(l8[:], uint64(len(a)))
		la := append(nb(l8[:]), a...)
		binary.BigEndian.PutUint64(l8[:], uint64(len(la)))
		add("len-in-domain", rWd("X", la))
		add("len-in-domain", rWd("X"+string(l8[:]), a))
	}

	// ---- evaluate on the real hash
	byDigest := map[string]int{}
	byIdent := map[string]int{}
	distinct := 0
	for i, s := range seqs {
		id := s.ident()
		if _, dup := byIdent[id]; dup {
			continue // the same sequence generated twice
		}
		byIdent[id] = i
		h := hash.New()
		var spec []byte
		spec = append(spec, prefix...)
		bad := false
		for _, it := range s.items {
			if err := h.WriteAny(it.val); err != nil {
				res.errorf("WriteAny(%s) refused: %v", it.ident(), err)
				bad = true
				break
			}
			ob, err := ownBytes(it)
			if err != nil {
				res.errorf("ownBytes(%s): %v", it.ident(), err)
				bad = true
				break
			}
			dom := it.wdom
			if it.kind != "wd" {
				var ok bool
				if dom, ok = domains[it.kind]; !ok {
					panic("no domain for kind " + it.kind)
				}
			}
			spec = append(spec, frame(dom, ob)...)
		}
		if bad {
			continue
		}
		distinct++
		res.Evaluations++
		res.Counts["rich:"+s.rel]++
		got := h.Sum()
		ok := true
		if want := xof64(spec); !bytes.Equal(got, want) {
			ok = false
			kinds := []string{}
			for _, it := range s.items {
				kinds = append(kinds, it.kind+"="+reflect.TypeOf(it.val).String())
			}
			res.fail("WriteAny", "framing-mismatch",
				fmt.Sprintf("rich sequence <%s> is not framed as Frame(domain table of the specification, bytes of the value)", strings.Join(kinds, ", ")),
				map[string]interface{}{"kinds": kinds, "sequence": id, "spec_bytes": hx(spec), "want": hx(want), "got": hx(got)})
		}
		if j, dup := byDigest[string(got)]; dup {
			ok = false
			o := seqs[j]
			site, class := "WriteAny", "collision"
			if idsliceBoundaryOnly(o, s) {
				site, class = "IDSlice.WriteTo", "id-boundary"
			}
			what := "different sequences with the same real digest"
			if site == "IDSlice.WriteTo" {
				what = "party.IDSlice.WriteTo writes the ids without per-id length (issue tracked under C09): two different id lists with the same real digest"
			}
			res.fail(site, class, fmt.Sprintf("%s: <%s> and <%s>", what, o.ident(), id),
				map[string]interface{}{"a": o.ident(), "b": id, "rel_a": o.rel, "rel_b": s.rel, "digest": hx(got)})
		} else {
			byDigest[string(got)] = i
		}
		if ok {
			res.Confirmed++
			if res.Counts["sampled:"+s.rel] == 0 {
				res.Counts["sampled:"+s.rel]++
				res.sample(map[string]interface{}{"kind": "rich sequence, digest unique and byte-exact", "rel": s.rel, "sequence": id})
			}
		}
	}
	res.Counts["distinct_sequences"] = distinct
	res.write(out)
}

// idsliceBoundaryOnly: the two sequences differ only in how the concatenated ids of an IDSlice are cut.
func idsliceBoundaryOnly(a, b rseq) bool {
	if len(a.items) != len(b.items) {
		return false
	}
	diff := false
	for i := range a.items {
		x, y := a.items[i], b.items[i]
		if x.ident() == y.ident() {
			continue
		}
		if x.kind != "idslice" || y.kind != "idslice" {
			return false
		}
		sx, sy := x.val.(party.IDSlice), y.val.(party.IDSlice)
		if len(sx) != len(sy) {
			return false
		}
		cx, cy := "", ""
		for k := range sx {
			cx += string(sx[k])
			cy += string(sy[k])
		}
		if cx != cy {
			return false
		}
		diff = true
	}
	return diff
}

// ---------------------------------------------------------------------------------------------------------------
// mode commit

type jD struct {
	Len  int    `json:"len"`
	Fill string `json:"fill"`
}

func (d jD) bytes() []byte {
	b := make([]byte, d.Len)
	for i := range b {
		switch d.Fill {
		case "A":
			b[i] = 65
		case "B":
			b[i] = 66
		case "hi":
			if i == 0 {
				b[i] = 128
			}
		case "lo":
			if i == d.Len-1 {
				b[i] = 1
			}
		case "zero":
		default:
			panic("fill " + d.Fill)
		}
	}
	return b
}

type jCase struct {
	Grp     string  `json:"grp"`
	Irel    string  `json:"irel"`
	Ctx0    []jItem `json:"ctx0"`
	Items0  []jItem `json:"items0"`
	D0      jD      `json:"d0"`
	Ctx1    []jItem `json:"ctx1"`
	Items1  []jItem `json:"items1"`
	D1      jD      `json:"d1"`
	Cmod    string  `json:"cmod"`
	Pre     string  `json:"pre"`
	ValidC  bool    `json:"validC"`
	ValidD1 bool    `json:"validD1"`
	ValidD0 bool    `json:"validD0"`
	Accept  bool    `json:"accept"`
}

type constReader byte

func (c constReader) Read(p []byte) (int, error) {
	for i := range p {
		p[i] = byte(c)
	}
	return len(p), nil
}

func tamper(c []byte, mod string) []byte {
	out := nb(c)
	switch mod {
	case "none":
	case "trunc":
		out = out[:len(out)-1]
	case "ext":
		out = append(out, 0)
	case "zero":
		out = make([]byte, len(c))
	case "empty":
		out = []byte{}
	case "flip":
		out[len(out)-1] ^= 1
	case "flipfirst":
		out[0] ^= 0x80
	default:
		panic("cmod " + mod)
	}
	return out
}

func (k jCase) brief() map[string]interface{} {
	return map[string]interface{}{"grp": k.Grp, "irel": k.Irel, "ctx0": describe(k.Ctx0), "items0": describe(k.Items0), "d0": k.D0,
		"ctx1": describe(k.Ctx1), "items1": describe(k.Items1), "d1": k.D1, "cmod": k.Cmod, "spec_accept": k.Accept}
}

func modeCommit(in string, seed int64, out string) {
	res := newResult("commit")
	f, err := os.Open(in)
	if err != nil {
		panic(err)
	}
	defer f.Close()
	sc := bufio.NewScanner(f)
	sc.Buffer(make([]byte, 1<<20), 1<<26)
	realReader := crand.Reader
	defer func() { crand.Reader = realReader }()
	honest := jD{32, "A"}
	n := 0
	for sc.Scan() {
		line := bytes.TrimSpace(sc.Bytes())
		if len(line) == 0 {
			continue
		}
		var k jCase
		if err := json.Unmarshal(line, &k); err != nil {
			panic(err)
		}
		n++
		pre := unhx(k.Pre)
		items0, items1 := realValues(k.Items0), realValues(k.Items1)
		var c0 []byte
		var h0 *hash.Hash
		ok := true
		if k.D0 == honest {
			// the real Commit, with crypto/rand pinned to the pattern the specification calls "A"
			h0 = hash.New()
			if err := h0.WriteAny(realValues(k.Ctx0)...); err != nil {
				res.errorf("context refused: %v", err)
				continue
			}
			before := h0.Sum()
			crand.Reader = constReader(65)
			c, d, err := h0.Commit(items0...)
			crand.Reader = realReader
			if err != nil {
				res.errorf("Commit refused %s: %v", describe(k.Items0), err)
				continue
			}
			res.Counts["real_commits"]++
			if !bytes.Equal(d, honest.bytes()) {
				ok = false
				res.fail("Commit", "decommitment-source", "the decommitment is not 32 bytes read from crypto/rand", map[string]interface{}{"d": hx(d)})
			}
			if want := xof64(pre); !bytes.Equal(c, want) {
				ok = false
				res.fail("Commit", "framing-mismatch", fmt.Sprintf("commitment to %s differs from blake3 over the specified framing of (context, tuple, decommitment)", describe(k.Items0)),
					map[string]interface{}{"case": k.brief(), "spec_bytes": k.Pre, "want": hx(want), "got": hx(c)})
			}
			if c.Validate() != nil || d.Validate() != nil {
				ok = false
				res.fail("Commit", "own-output-invalid", "Commit returned a commitment / decommitment that Validate refuses", k.brief())
			}
			if !bytes.Equal(before, h0.Sum()) {
				ok = false
				res.fail("Commit", "state-changed", "Commit changed the state of the hash it was called on", k.brief())
			}
			c0 = c
		} else {
			// an adversary computes the commitment itself, with a decommitment of its choice
			c0 = xof64(pre)
		}
		c1 := hash.Commitment(tamper(c0, k.Cmod))
		d1 := hash.Decommitment(k.D1.bytes())
		h1 := hash.New()
		if err := h1.WriteAny(realValues(k.Ctx1)...); err != nil {
			res.errorf("context refused: %v", err)
			continue
		}
		got := h1.Decommit(c1, d1, items1...)
		res.Evaluations++
		res.Counts["cases:"+k.Grp]++
		if got != k.Accept {
			ok = false
			class, what := "accepts-wrong-opening", "Decommit ACCEPTS an opening the specification refuses"
			if !got {
				class, what = "rejects-right-opening", "Decommit REFUSES the opening the specification accepts"
			}
			res.fail("Decommit", class, fmt.Sprintf("%s (group %s, tuple %s, decommitment %v->%v, commitment %s)", what, k.Grp, k.Irel, k.D0, k.D1, k.Cmod), k.brief())
		}
		// the same hash object, as the protocols use it (Commit must not have consumed it)
		if h0 != nil && reflect.DeepEqual(k.Ctx0, k.Ctx1) {
			if got2 := h0.Decommit(c1, d1, items1...); got2 != k.Accept {
				ok = false
				res.fail("Decommit", "same-hash-object", "Decommit on the hash object used for Commit disagrees with the specification", k.brief())
			}
		}
		if v := c1.Validate() == nil; v != k.ValidC {
			ok = false
			res.fail("Commitment.Validate", "verdict", fmt.Sprintf("Commitment.Validate says valid=%v for a %s commitment of %d bytes, the specification says %v", v, k.Cmod, len(c1), k.ValidC), k.brief())
		}
		if v := d1.Validate() == nil; v != k.ValidD1 {
			ok = false
			res.fail("Decommitment.Validate", "verdict", fmt.Sprintf("Decommitment.Validate says valid=%v for %v, the specification says %v", v, k.D1, k.ValidD1), k.brief())
		}
		if ok {
			res.Confirmed++
			if res.Counts["sampled:"+k.Grp] < 1 && (k.Grp != "items" || k.Irel != "same") {
				res.Counts["sampled:"+k.Grp]++
				s := k.brief()
				s["kind"] = "commitment case"
				s["real_accept"] = got
				res.sample(s)
			}
		}
	}
	if err := sc.Err(); err != nil {
		panic(err)
	}
	// freshness: with the real crypto/rand two commitments to the same tuple are unrelated, each opens only with its own d
	rng := mrand.New(mrand.NewSource(seed*104729 + 3))
	for i := 0; i < 64; i++ {
		b := make([]byte, 1+rng.Intn(40))
		rng.Read(b)
		tuple := []interface{}{b, party.ID(fmt.Sprintf("p%d", i)), big.NewInt(rng.Int63())}
		h := hash.New()
		ca, da, e1 := h.Commit(tuple...)
		cb, db, e2 := h.Commit(tuple...)
		res.Evaluations++
		switch {
		case e1 != nil || e2 != nil:
			res.errorf("Commit: %v %v", e1, e2)
		case bytes.Equal(da, db) || bytes.Equal(ca, cb):
			res.fail("Commit", "not-fresh", "two commitments to the same tuple share the decommitment or the commitment", map[string]interface{}{"d1": hx(da), "d2": hx(db)})
		case !h.Decommit(ca, da, tuple...) || !h.Decommit(cb, db, tuple...):
			res.fail("Decommit", "rejects-right-opening", "a fresh commitment does not open with its own decommitment", nil)
		case h.Decommit(ca, db, tuple...) || h.Decommit(cb, da, tuple...):
			res.fail("Decommit", "accepts-wrong-opening", "a commitment opens with the decommitment of another commitment", nil)
		default:
			res.Confirmed++
			res.Counts["fresh"]++
		}
	}
	res.Counts["cases"] = n
	res.write(out)
}

func main() {
	if len(os.Args) < 2 {
		fmt.Fprintln(os.Stderr, "usage: framedrv vectors|rich|commit ...")
		os.Exit(3)
	}
	fs := flag.NewFlagSet(os.Args[1], flag.ExitOnError)
	in := fs.String("in", "", "input file")
	out := fs.String("out", "", "result file")
	domains := fs.String("domains", "", "domain table printed by Framing.tla")
	seed := fs.Int64("seed", 0, "seed")
	_ = fs.Parse(os.Args[2:])
	switch os.Args[1] {
	case "vectors":
		modeVectors(*in, *out)
	case "rich":
		modeRich(*domains, *seed, *out)
	case "commit":
		modeCommit(*in, *seed, *out)
	default:
		fmt.Fprintln(os.Stderr, "unknown mode")
		os.Exit(3)
	}
}
