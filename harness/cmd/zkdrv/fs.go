package main

// Conformance of the REAL Fiat-Shamir challenge with the list transcribed in ZkCases.tla (case kind "fs").
//
// The package-private challenge() cannot be called, so it is observed through an honest proof: the harness derives the
// challenge itself - context hash, then the transcribed values in the transcribed order, then its own decoding of the
// digest stream - and plugs it into ONE verification equation re-implemented here over math/big (or plain curve
// operations).  The equation holds for the honest proof with the prover's challenge e; it holds with the harness'
// challenge e' only if e' = e (up to negligible probability).  If it does not, the harness looks for the single
// omission / substitution in the list that explains the real challenge and names the unbound field.

import (
	"fmt"
	"io"
	"math/big"
	"reflect"
	"strings"

	"github.com/taurusgroup/multi-party-sig/pkg/math/curve"
	"github.com/taurusgroup/multi-party-sig/pkg/pedersen"
)

type challenge struct {
	e      *big.Int     // intScalar, intL
	scalar curve.Scalar // scalar
	ys     []*big.Int   // modN80
	bits   []bool       // bits80
}

// signed integer of `bits` bits as sample.sampleNeg decodes it: one byte for the sign, then the magnitude.
func drawSigned(r io.Reader, bits int) (*big.Int, error) {
	buf := make([]byte, bits/8+1)
	if _, err := io.ReadFull(r, buf); err != nil {
		return nil, err
	}
	v := new(big.Int).SetBytes(buf[1:])
	if buf[0]&1 == 1 {
		v.Neg(v)
	}
	return v, nil
}

func expSigned(base, e, mod *big.Int) *big.Int {
	if e.Sign() >= 0 {
		return new(big.Int).Exp(base, e, mod)
	}
	inv := new(big.Int).ModInverse(base, mod)
	if inv == nil {
		return big.NewInt(0)
	}
	return new(big.Int).Exp(inv, new(big.Int).Neg(e), mod)
}

// s^a t^b = S * T^e (mod N)   (textbook Pedersen check, as pedersen.Parameters.Verify(a, b, e, S, T))
func pedersenEq(aux *pedersen.Parameters, a, b interface{ Big() *big.Int }, e *big.Int, S, T interface{ Big() *big.Int }) bool {
	n := aux.N().Big()
	lhs := expSigned(aux.S().Big(), a.Big(), n)
	lhs.Mul(lhs, expSigned(aux.T().Big(), b.Big(), n)).Mod(lhs, n)
	rhs := expSigned(T.Big(), e, n)
	rhs.Mul(rhs, S.Big()).Mod(rhs, n)
	return lhs.Cmp(rhs) == 0
}

// (1+N)^z * v^N = K^e * A (mod N^2)
func paillierEq(n, z, v, e, K, A *big.Int) bool {
	n2 := new(big.Int).Mul(n, n)
	lhs := expSigned(new(big.Int).Add(n, big.NewInt(1)), z, n2)
	lhs.Mul(lhs, new(big.Int).Exp(v, n, n2)).Mod(lhs, n2)
	rhs := expSigned(K, e, n2)
	rhs.Mul(rhs, A).Mod(rhs, n2)
	return lhs.Cmp(rhs) == 0
}

// fsValues resolves one entry of the transcribed list to the Go values that are hashed.
func fsValues(in *inst, entry string) ([]interface{}, error) {
	root, rel, err := rootOf(in, entry)
	if err != nil {
		return nil, err
	}
	if strings.HasSuffix(rel, "[*]") { // every element, one WriteAny each
		v, err := getPath(root, strings.TrimSuffix(rel, "[*]"))
		if err != nil {
			return nil, err
		}
		var out []interface{}
		for i := 0; i < v.Len(); i++ {
			out = append(out, v.Index(i).Interface())
		}
		return out, nil
	}
	v, err := getPath(root, rel)
	if err != nil {
		return nil, err
	}
	if (v.Kind() == reflect.Ptr || v.Kind() == reflect.Interface) && v.IsNil() {
		return nil, fmt.Errorf("%s is nil", entry)
	}
	return []interface{}{v.Interface()}, nil
}

func (e *engine) deriveChallenge(in *inst, list []string) (*challenge, error) {
	h := ctxHash("own")
	for _, entry := range list {
		vals, err := fsValues(in, entry)
		if err != nil {
			return nil, err
		}
		for _, v := range vals {
			if err := h.WriteAny(v); err != nil {
				return nil, fmt.Errorf("hashing %s: %v", entry, err)
			}
		}
	}
	d := h.Digest()
	ch := &challenge{}
	var err error
	switch e.st.Chal {
	case "intScalar": // sample.IntervalScalar: +-2^|q|
		ch.e, err = drawSigned(d, group.ScalarBits())
	case "intL": // sample.IntervalL: +-2^256
		ch.e, err = drawSigned(d, 256)
	case "scalar": // sample.Scalar: SafeScalarBytes bytes reduced mod q
		buf := make([]byte, group.SafeScalarBytes())
		if _, err = io.ReadFull(d, buf); err == nil {
			v := new(big.Int).SetBytes(buf)
			v.Mod(v, group.Order().Big())
			ch.scalar = group.NewScalar().SetNat(sNat(v))
		}
	case "modN80": // 80 elements of Z_N by rejection sampling on |N| bits
		root, _, _ := rootOf(in, "pub.N")
		nv, gerr := getPath(root, "N")
		if gerr != nil {
			return nil, gerr
		}
		n := nv.Interface().(interface{ Big() *big.Int }).Big()
		buf := make([]byte, (n.BitLen()+7)/8)
		for len(ch.ys) < 80 {
			if _, err = io.ReadFull(d, buf); err != nil {
				break
			}
			v := new(big.Int).SetBytes(buf)
			if v.Cmp(n) < 0 {
				ch.ys = append(ch.ys, v)
			}
		}
	case "bits80": // 80 bytes, low bit of each
		buf := make([]byte, 80)
		if _, err = io.ReadFull(d, buf); err == nil {
			for _, b := range buf {
				ch.bits = append(ch.bits, b&1 == 1)
			}
		}
	default:
		err = fmt.Errorf("unknown challenge kind %q", e.st.Chal)
	}
	return ch, err
}

func (e *engine) fsHolds(in *inst, list []string) (ok bool, err error) {
	defer func() {
		if r := recover(); r != nil {
			ok, err = false, fmt.Errorf("panic: %v", r)
		}
	}()
	ch, err := e.deriveChallenge(in, list)
	if err != nil {
		return false, err
	}
	return e.sys.fsEq(in.pub, in.proof, ch)
}

func (e *engine) runFs(c Case, a *inst) {
	tag := fmt.Sprintf("#%d %s fs", c.ID, c.Sys)
	list := e.st.Fs
	ok, err := e.fsHolds(a, list)
	if err != nil {
		e.res.Inconclusive = append(e.res.Inconclusive, tag+": cannot re-derive the challenge from the transcribed list: "+err.Error())
		return
	}
	// self-check of the harness: the independent equation must FAIL with a challenge derived from another context
	e.res.Evaluations++
	e.res.Reached++
	e.res.Fs["list"] = list
	e.res.Fs["kind"] = e.st.Chal
	e.res.Fs["match"] = ok
	if ok {
		// sensitivity control: dropping any single entry must break the match (else the equation does not pin e)
		insensitive := []string{}
		for i := range list {
			alt := append(append([]string{}, list[:i]...), list[i+1:]...)
			if ok2, _ := e.fsHolds(a, alt); ok2 {
				insensitive = append(insensitive, list[i])
			}
		}
		if len(insensitive) > 0 {
			e.res.Inconclusive = append(e.res.Inconclusive, tag+": harness equation insensitive to "+strings.Join(insensitive, ","))
		}
		e.res.ByVerdict["fs/match"]++
		return
	}
	e.res.ByVerdict["fs/mismatch"]++
	// explain: one entry omitted, or one entry replaced by another one ("X[*]" entries are expanded to their elements)
	var expanded []string
	for _, entry := range list {
		if strings.HasSuffix(entry, "[*]") {
			if vals, verr := fsValues(a, entry); verr == nil {
				for i := range vals {
					expanded = append(expanded, fmt.Sprintf("%s[%d]", strings.TrimSuffix(entry, "[*]"), i))
				}
				continue
			}
		}
		expanded = append(expanded, entry)
	}
	list = expanded
	for i := range list {
		alt := append(append([]string{}, list[:i]...), list[i+1:]...)
		if ok2, _ := e.fsHolds(a, alt); ok2 {
			c.Field = list[i]
			e.fail(c, "fs", "omitted", fmt.Sprintf("the real challenge is the hash of the transcribed list WITHOUT %s: this value is not bound by the Fiat-Shamir challenge", list[i]))
			return
		}
	}
	for i := range list {
		for j := range list {
			if i == j {
				continue
			}
			alt := append([]string{}, list...)
			alt[i] = list[j]
			if ok2, _ := e.fsHolds(a, alt); ok2 {
				c.Field = list[i]
				e.fail(c, "fs", "replaced", fmt.Sprintf("the real challenge hashes %s in the place of %s: %s is not bound by the Fiat-Shamir challenge", list[j], list[i], list[i]))
				return
			}
		}
	}
	if ok2, _ := e.fsHolds(a, nil); ok2 {
		c.Field = "*"
		e.fail(c, "fs", "empty", "the real challenge does not depend on any public or commitment value")
		return
	}
	e.res.Inconclusive = append(e.res.Inconclusive, tag+": the real challenge is not the hash of the transcribed list, and no single omission/substitution explains it (transcription out of date?)")
}
