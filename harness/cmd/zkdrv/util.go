package main

import (
	crand "crypto/rand"
	"crypto/sha256"
	"encoding/binary"
	"encoding/hex"
	"fmt"
	"math/big"
	"reflect"
	"strconv"
	"strings"
	"sync"

	"github.com/cronokirby/saferith"
	"github.com/taurusgroup/multi-party-sig/internal/elgamal"
	"github.com/taurusgroup/multi-party-sig/pkg/hash"
	"github.com/taurusgroup/multi-party-sig/pkg/math/curve"
	"github.com/taurusgroup/multi-party-sig/pkg/math/sample"
	"github.com/taurusgroup/multi-party-sig/pkg/paillier"
	"github.com/taurusgroup/multi-party-sig/pkg/party"
	"github.com/taurusgroup/multi-party-sig/pkg/pedersen"
)

// ---------------------------------------------------------------------------------------------
// deterministic randomness: crypto/rand.Reader is a blake3 XOF keyed by (seed, system, label)

type detReader struct {
	mu  sync.Mutex
	key [32]byte
	ctr uint64
	buf []byte
}

// SHA-256 in counter mode over the key (stdlib only).
func (d *detReader) Read(p []byte) (int, error) {
	d.mu.Lock()
	defer d.mu.Unlock()
	for len(d.buf) < len(p) {
		var blk [40]byte
		copy(blk[:32], d.key[:])
		binary.BigEndian.PutUint64(blk[32:], d.ctr)
		d.ctr++
		s := sha256.Sum256(blk[:])
		d.buf = append(d.buf, s[:]...)
	}
	copy(p, d.buf[:len(p)])
	d.buf = d.buf[len(p):]
	return len(p), nil
}

var theRand = &detReader{}

func installRand() {
	reseed(0, "", "boot")
	crand.Reader = theRand
}

func reseed(seed int64, sys, label string) {
	theRand.mu.Lock()
	theRand.key = sha256.Sum256([]byte(fmt.Sprintf("verif-C10|%d|%s|%s", seed, sys, label)))
	theRand.ctr = 0
	theRand.buf = nil
	theRand.mu.Unlock()
}

// ---------------------------------------------------------------------------------------------
// prover context (what the protocols do with HashForID: session data, then the prover's id)

func ctxHash(kind string) *hash.Hash {
	sid, id := "verif-session-1", party.ID("alice")
	switch kind {
	case "party":
		id = party.ID("bob")
	case "session":
		sid = "verif-session-2"
	}
	h := hash.New()
	_ = h.WriteAny(&hash.BytesWithDomain{TheDomain: "verif SSID", Bytes: []byte(sid)})
	_ = h.WriteAny(id)
	if kind == "extra" {
		_ = h.WriteAny(&hash.BytesWithDomain{TheDomain: "verif extra", Bytes: []byte("one more transcript item")})
	}
	return h
}

// ---------------------------------------------------------------------------------------------
// witness lattice

var group = curve.Secp256k1{}

func pow2(bits int) *big.Int { return new(big.Int).Lsh(big.NewInt(1), uint(bits)) }

func sInt(b *big.Int) *saferith.Int { return new(saferith.Int).SetBig(b, b.BitLen()+1) }
func sNat(b *big.Int) *saferith.Nat { return new(saferith.Nat).SetBig(b, b.BitLen()+1) }

func pow2Int(bits int, neg bool) *saferith.Int {
	b := pow2(bits)
	if neg {
		b.Neg(b)
	}
	return sInt(b)
}

// latInt returns the lattice point of an integer witness with documented range +-2^l (l = 256) or +-2^l' (l' = 1280).
func latInt(w WitPoint) (*saferith.Int, error) {
	ell := 256
	if w.Range == "LPrime" {
		ell = 1280
	} else if w.Range != "L" {
		return nil, fmt.Errorf("witness %s: not an integer range %q", w.Name, w.Range)
	}
	var b *big.Int
	switch w.Point {
	case "zero":
		b = big.NewInt(0)
	case "p1":
		b = big.NewInt(1)
	case "m1":
		b = big.NewInt(-1)
	case "pmax":
		b = pow2(ell)
	case "mmax":
		b = new(big.Int).Neg(pow2(ell))
	case "pmax1":
		b = new(big.Int).Sub(pow2(ell), big.NewInt(1))
	case "mmax1":
		b = new(big.Int).Neg(new(big.Int).Sub(pow2(ell), big.NewInt(1)))
	case "rand":
		if ell == 256 {
			return sample.IntervalL(crand.Reader), nil
		}
		return sample.IntervalLPrime(crand.Reader), nil
	case "oorp": // smallest power of two for which the response is out of range whatever the (non-zero) challenge
		b = pow2(w.Bound + 1)
	case "oorm":
		b = new(big.Int).Neg(pow2(w.Bound + 1))
	case "huge": // still a Paillier plaintext, but e*x + alpha is not
		b = pow2(1800)
	default:
		return nil, fmt.Errorf("witness %s: unknown lattice point %q", w.Name, w.Point)
	}
	return sInt(b), nil
}

func latScalar(w WitPoint) (curve.Scalar, error) {
	one := group.NewScalar().SetNat(new(saferith.Nat).SetUint64(1))
	switch w.Point {
	case "zero":
		if w.Range == "scalarNZ" {
			return nil, fmt.Errorf("zero not in range")
		}
		return group.NewScalar(), nil
	case "p1":
		return one, nil
	case "m1":
		return one.Negate(), nil
	case "rand":
		return sample.Scalar(crand.Reader, group), nil
	}
	return nil, fmt.Errorf("witness %s: unknown scalar lattice point %q", w.Name, w.Point)
}

func latUnit(w WitPoint, n *saferith.Modulus) (*saferith.Nat, error) {
	switch w.Point {
	case "p1":
		return new(saferith.Nat).SetUint64(1), nil
	case "two":
		return new(saferith.Nat).SetUint64(2), nil
	case "m1":
		return sNat(new(big.Int).Sub(n.Big(), big.NewInt(1))), nil
	case "rand":
		return sample.UnitModN(crand.Reader, n), nil
	}
	return nil, fmt.Errorf("witness %s: unknown unit lattice point %q", w.Name, w.Point)
}

// ---------------------------------------------------------------------------------------------
// reflection: paths such as "K", "Comm.P", "E.L", "As[79]", "Responses[0].X" below a pointer to a struct

type seg struct {
	name string
	idx  int // -1: none
}

func parsePath(path string) ([]seg, error) {
	var out []seg
	for _, p := range strings.Split(path, ".") {
		s := seg{name: p, idx: -1}
		if i := strings.Index(p, "["); i >= 0 {
			if !strings.HasSuffix(p, "]") {
				return nil, fmt.Errorf("bad path segment %q", p)
			}
			n, err := strconv.Atoi(p[i+1 : len(p)-1])
			if err != nil {
				return nil, fmt.Errorf("bad index in %q", p)
			}
			s.name, s.idx = p[:i], n
		}
		out = append(out, s)
	}
	return out, nil
}

// walk descends along path. With clone=true every pointer on the way is replaced by a pointer to a shallow copy, so
// that the (addressable) root can be modified without touching the object it was copied from.
func walk(cur reflect.Value, path string, clone bool) (reflect.Value, error) {
	segs, err := parsePath(path)
	if err != nil {
		return reflect.Value{}, err
	}
	deref := func(v reflect.Value) (reflect.Value, error) {
		for v.Kind() == reflect.Ptr || v.Kind() == reflect.Interface {
			if v.IsNil() {
				return v, fmt.Errorf("nil pointer on path %q", path)
			}
			if v.Kind() == reflect.Interface {
				return v, fmt.Errorf("cannot descend through interface on path %q", path)
			}
			if clone {
				n := reflect.New(v.Type().Elem())
				n.Elem().Set(v.Elem())
				v.Set(n)
			}
			v = v.Elem()
		}
		return v, nil
	}
	for k, s := range segs {
		if cur, err = deref(cur); err != nil {
			return cur, err
		}
		if cur.Kind() != reflect.Struct {
			return cur, fmt.Errorf("%q: %s is not a struct", path, cur.Type())
		}
		sf, ok := cur.Type().FieldByName(s.name)
		if !ok {
			return cur, fmt.Errorf("no field %q in %s", s.name, cur.Type())
		}
		for j, ix := range sf.Index {
			cur = cur.Field(ix)
			if j < len(sf.Index)-1 {
				if cur, err = deref(cur); err != nil {
					return cur, err
				}
			}
		}
		if s.idx >= 0 {
			if cur.Kind() == reflect.Slice && clone {
				n := reflect.MakeSlice(cur.Type(), cur.Len(), cur.Len())
				reflect.Copy(n, cur)
				cur.Set(n)
			}
			if cur.Kind() != reflect.Array && cur.Kind() != reflect.Slice {
				return cur, fmt.Errorf("%q: %s is not indexable", path, cur.Type())
			}
			if s.idx >= cur.Len() {
				return cur, fmt.Errorf("%q: index out of range (len %d)", path, cur.Len())
			}
			cur = cur.Index(s.idx)
		}
		_ = k
	}
	return cur, nil
}

func getPath(root interface{}, path string) (reflect.Value, error) {
	rv := reflect.ValueOf(root)
	if rv.Kind() != reflect.Ptr || rv.IsNil() {
		return reflect.Value{}, fmt.Errorf("root is not a pointer")
	}
	return walk(rv.Elem(), path, false)
}

// cloneSet returns a copy of *root in which the field at path is val; *root is left untouched.
func cloneSet(root interface{}, path string, val reflect.Value) (interface{}, error) {
	rv := reflect.ValueOf(root)
	if rv.Kind() != reflect.Ptr || rv.IsNil() {
		return nil, fmt.Errorf("root is not a pointer")
	}
	cp := reflect.New(rv.Elem().Type())
	cp.Elem().Set(rv.Elem())
	f, err := walk(cp.Elem(), path, true)
	if err != nil {
		return nil, err
	}
	if !f.CanSet() {
		return nil, fmt.Errorf("field %q cannot be set", path)
	}
	if !val.Type().AssignableTo(f.Type()) {
		return nil, fmt.Errorf("field %q has type %s, cannot hold %s", path, f.Type(), val.Type())
	}
	f.Set(val)
	return cp.Interface(), nil
}

// render gives a canonical text for the values that occur in statements and proofs (to detect no-op substitutions).
func render(v reflect.Value) string {
	if !v.IsValid() {
		return "invalid"
	}
	if (v.Kind() == reflect.Ptr || v.Kind() == reflect.Interface) && v.IsNil() {
		return "nil"
	}
	switch x := v.Interface().(type) {
	case bool:
		return fmt.Sprint(x)
	case *big.Int:
		return x.Text(16)
	case *saferith.Nat:
		return x.Big().Text(16)
	case *saferith.Int:
		return x.Big().Text(16)
	case *saferith.Modulus:
		return x.Big().Text(16)
	case *paillier.Ciphertext:
		return "ct:" + x.Nat().Big().Text(16)
	case *paillier.PublicKey:
		return "pk:" + x.N().Big().Text(16)
	case *pedersen.Parameters:
		return "ped:" + x.N().Big().Text(16) + "/" + x.S().Big().Text(16) + "/" + x.T().Big().Text(16)
	case *elgamal.Ciphertext:
		return "eg:" + render(reflect.ValueOf(x.L)) + "/" + render(reflect.ValueOf(x.M))
	case curve.Point:
		b, _ := x.MarshalBinary()
		if x.IsIdentity() {
			return "pt:identity"
		}
		return "pt:" + hex.EncodeToString(b)
	case curve.Scalar:
		b, _ := x.MarshalBinary()
		return "sc:" + hex.EncodeToString(b)
	}
	return fmt.Sprintf("%#v", v.Interface())
}
