package main

// One adapter per proof system: how an honest statement is built for a given witness lattice point (as the package's
// own *_test.go does, with the fixed keys of pkg/zk/default.go), and how NewProof / Verify are called.
//
// Two key sets so that EVERY public field differs between instance A (role 0) and instance B (role 1):
//
//	role 0: prover = zk.ProverPaillierSecret,   verifier = zk.VerifierPaillierSecret, aux = zk.Pedersen (over the verifier's N)
//	role 1: prover = zk.VerifierPaillierSecret, verifier = zk.ProverPaillierSecret,   aux = Pedersen generated over the (new) verifier's N

import (
	crand "crypto/rand"
	"fmt"
	"math/big"

	"github.com/cronokirby/saferith"
	"github.com/taurusgroup/multi-party-sig/internal/elgamal"
	"github.com/taurusgroup/multi-party-sig/pkg/hash"
	"github.com/taurusgroup/multi-party-sig/pkg/math/curve"
	"github.com/taurusgroup/multi-party-sig/pkg/math/sample"
	"github.com/taurusgroup/multi-party-sig/pkg/paillier"
	"github.com/taurusgroup/multi-party-sig/pkg/pedersen"
	"github.com/taurusgroup/multi-party-sig/pkg/zk"
	zkaffg "github.com/taurusgroup/multi-party-sig/pkg/zk/affg"
	zkaffp "github.com/taurusgroup/multi-party-sig/pkg/zk/affp"
	zkdec "github.com/taurusgroup/multi-party-sig/pkg/zk/dec"
	zkelog "github.com/taurusgroup/multi-party-sig/pkg/zk/elog"
	zkenc "github.com/taurusgroup/multi-party-sig/pkg/zk/enc"
	zkencelg "github.com/taurusgroup/multi-party-sig/pkg/zk/encelg"
	zkfac "github.com/taurusgroup/multi-party-sig/pkg/zk/fac"
	zklog "github.com/taurusgroup/multi-party-sig/pkg/zk/log"
	zklogstar "github.com/taurusgroup/multi-party-sig/pkg/zk/logstar"
	zkmod "github.com/taurusgroup/multi-party-sig/pkg/zk/mod"
	zkmul "github.com/taurusgroup/multi-party-sig/pkg/zk/mul"
	zkmulstar "github.com/taurusgroup/multi-party-sig/pkg/zk/mulstar"
	zknth "github.com/taurusgroup/multi-party-sig/pkg/zk/nth"
	zkprm "github.com/taurusgroup/multi-party-sig/pkg/zk/prm"
	zksch "github.com/taurusgroup/multi-party-sig/pkg/zk/sch"
)

type adapter struct {
	name   string
	build  func(role int, w map[string]WitPoint) (pub, priv interface{}, err error)
	prove  func(h *hash.Hash, pub, priv interface{}) interface{}
	verify func(h *hash.Hash, pub, proof interface{}) bool
	// fsEq evaluates ONE verification equation, re-implemented over math/big / plain curve operations, with the
	// challenge ch derived by the harness from the transcribed Fiat-Shamir list.
	fsEq func(pub, proof interface{}, ch *challenge) (bool, error)
}

type keys struct {
	prover, verifier *paillier.SecretKey
	aux              *pedersen.Parameters
	auxLambda        *saferith.Nat // nil when unknown (zk.Pedersen)
}

// getKeys must be called after reseed(): the generated Pedersen parameters come from the deterministic stream.
func getKeys(role int, ownAux bool) keys {
	if role == 0 {
		k := keys{prover: zk.ProverPaillierSecret, verifier: zk.VerifierPaillierSecret, aux: zk.Pedersen}
		if ownAux {
			k.aux, k.auxLambda = zk.VerifierPaillierSecret.GeneratePedersen()
		}
		return k
	}
	k := keys{prover: zk.VerifierPaillierSecret, verifier: zk.ProverPaillierSecret}
	k.aux, k.auxLambda = zk.ProverPaillierSecret.GeneratePedersen()
	return k
}

func randPoint() curve.Point { return sample.Scalar(crand.Reader, group).ActOnBase() }

func scalarOfInt(x *saferith.Int) curve.Scalar { return group.NewScalar().SetNat(x.Mod(group.Order())) }

// schPublic gathers the two public arguments of zksch (public point, generator) so that they can be handled like
// the Public struct of the other systems.
type schPublic struct {
	Public curve.Point
	Gen    curve.Point
}

var adapters = map[string]*adapter{}

func reg(a *adapter) { adapters[a.name] = a }

func init() {
	// ------------------------------------------------------------------ sch
	reg(&adapter{name: "sch",
		build: func(role int, w map[string]WitPoint) (interface{}, interface{}, error) {
			x, err := latScalar(w["X"])
			if err != nil {
				return nil, nil, err
			}
			gen := randPoint()
			return &schPublic{Public: x.Act(gen), Gen: gen}, x, nil
		},
		prove: func(h *hash.Hash, pub, priv interface{}) interface{} {
			p := pub.(*schPublic)
			return zksch.NewProof(h, p.Public, priv.(curve.Scalar), p.Gen)
		},
		verify: func(h *hash.Hash, pub, proof interface{}) bool {
			p := pub.(*schPublic)
			return proof.(*zksch.Proof).Verify(h, p.Public, p.Gen)
		},
		fsEq: func(pub, proof interface{}, ch *challenge) (bool, error) {
			p, pr := pub.(*schPublic), proof.(*zksch.Proof)
			return pr.Z.Z.Act(p.Gen).Equal(ch.scalar.Act(p.Public).Add(pr.C.C)), nil
		},
	})
	// ------------------------------------------------------------------ mod
	reg(&adapter{name: "mod",
		build: func(role int, w map[string]WitPoint) (interface{}, interface{}, error) {
			k := getKeys(role, false)
			sk := k.prover
			return &zkmod.Public{N: sk.PublicKey.N()}, zkmod.Private{P: sk.P(), Q: sk.Q(), Phi: sk.Phi()}, nil
		},
		prove: func(h *hash.Hash, pub, priv interface{}) interface{} {
			return zkmod.NewProof(h, priv.(zkmod.Private), *pub.(*zkmod.Public), nil)
		},
		verify: func(h *hash.Hash, pub, proof interface{}) bool {
			return proof.(*zkmod.Proof).Verify(*pub.(*zkmod.Public), h, nil)
		},
		fsEq: func(pub, proof interface{}, ch *challenge) (bool, error) {
			n := pub.(*zkmod.Public).N.Big()
			pr := proof.(*zkmod.Proof)
			for i := range pr.Responses {
				if new(big.Int).Exp(pr.Responses[i].Z, n, n).Cmp(ch.ys[i]) != 0 { // z^N = y_i (mod N)
					return false, nil
				}
			}
			return true, nil
		},
	})
	// ------------------------------------------------------------------ prm
	reg(&adapter{name: "prm",
		build: func(role int, w map[string]WitPoint) (interface{}, interface{}, error) {
			k := getKeys(role, true)
			sk := k.verifier // aux lives over the verifier's modulus
			return &zkprm.Public{Aux: k.aux}, zkprm.Private{Lambda: k.auxLambda, Phi: sk.Phi(), P: sk.P(), Q: sk.Q()}, nil
		},
		prove: func(h *hash.Hash, pub, priv interface{}) interface{} {
			return zkprm.NewProof(priv.(zkprm.Private), h, *pub.(*zkprm.Public), nil)
		},
		verify: func(h *hash.Hash, pub, proof interface{}) bool {
			return proof.(*zkprm.Proof).Verify(*pub.(*zkprm.Public), h, nil)
		},
		fsEq: func(pub, proof interface{}, ch *challenge) (bool, error) {
			aux := pub.(*zkprm.Public).Aux
			n, s, t := aux.N().Big(), aux.S().Big(), aux.T().Big()
			pr := proof.(*zkprm.Proof)
			for i := range pr.As {
				lhs := new(big.Int).Exp(t, pr.Zs[i], n) // t^z = A * s^e (mod N)
				rhs := new(big.Int).Set(pr.As[i])
				if ch.bits[i] {
					rhs.Mul(rhs, s).Mod(rhs, n)
				}
				if lhs.Cmp(rhs) != 0 {
					return false, nil
				}
			}
			return true, nil
		},
	})
	// ------------------------------------------------------------------ fac
	reg(&adapter{name: "fac",
		build: func(role int, w map[string]WitPoint) (interface{}, interface{}, error) {
			k := getKeys(role, false)
			p, q := k.prover.P(), k.prover.Q()
			// out of range: a factorisation 3 * (2045-bit odd number); the equations hold for any integer factorisation
			skew := func() *saferith.Nat {
				b := make([]byte, 256)
				_, _ = crand.Read(b)
				v := new(big.Int).SetBytes(b)
				v.Mod(v, pow2(2044))
				v.SetBit(v, 2044, 1)
				v.SetBit(v, 0, 1)
				return sNat(v)
			}
			three := new(saferith.Nat).SetUint64(3)
			switch {
			case w["P"].Point == "oorp" && w["Q"].Point == "key":
				p, q = skew(), three
			case w["Q"].Point == "oorp" && w["P"].Point == "key":
				p, q = three, skew()
			case w["P"].Point == "key" && w["Q"].Point == "key":
			default:
				return nil, nil, fmt.Errorf("fac: unsupported lattice point")
			}
			n := saferith.ModulusFromNat(new(saferith.Nat).Mul(p, q, -1))
			return &zkfac.Public{N: n, Aux: k.aux}, zkfac.Private{P: p, Q: q}, nil
		},
		prove: func(h *hash.Hash, pub, priv interface{}) interface{} {
			return zkfac.NewProof(priv.(zkfac.Private), h, *pub.(*zkfac.Public))
		},
		verify: func(h *hash.Hash, pub, proof interface{}) bool {
			return proof.(*zkfac.Proof).Verify(*pub.(*zkfac.Public), h)
		},
		fsEq: func(pub, proof interface{}, ch *challenge) (bool, error) {
			p, pr := pub.(*zkfac.Public), proof.(*zkfac.Proof)
			return pedersenEq(p.Aux, pr.Z1, pr.W1, ch.e, pr.Comm.A, pr.Comm.P), nil
		},
	})
	// ------------------------------------------------------------------ enc
	reg(&adapter{name: "enc",
		build: func(role int, w map[string]WitPoint) (interface{}, interface{}, error) {
			k := getKeys(role, false)
			x, err := latInt(w["K"])
			if err != nil {
				return nil, nil, err
			}
			K, rho := k.prover.PublicKey.Enc(x)
			return &zkenc.Public{K: K, Prover: k.prover.PublicKey, Aux: k.aux}, zkenc.Private{K: x, Rho: rho}, nil
		},
		prove: func(h *hash.Hash, pub, priv interface{}) interface{} {
			return zkenc.NewProof(group, h, *pub.(*zkenc.Public), priv.(zkenc.Private))
		},
		verify: func(h *hash.Hash, pub, proof interface{}) bool {
			return proof.(*zkenc.Proof).Verify(group, h, *pub.(*zkenc.Public))
		},
		fsEq: func(pub, proof interface{}, ch *challenge) (bool, error) {
			p, pr := pub.(*zkenc.Public), proof.(*zkenc.Proof)
			return pedersenEq(p.Aux, pr.Z1, pr.Z3, ch.e, pr.C, pr.S), nil
		},
	})
	// ------------------------------------------------------------------ encelg
	reg(&adapter{name: "encelg",
		build: func(role int, w map[string]WitPoint) (interface{}, interface{}, error) {
			k := getKeys(role, false)
			x, err := latInt(w["X"])
			if err != nil {
				return nil, nil, err
			}
			a, err := latScalar(w["A"])
			if err != nil {
				return nil, nil, err
			}
			b, err := latScalar(w["B"])
			if err != nil {
				return nil, nil, err
			}
			abx := group.NewScalar().Set(a).Mul(b).Add(scalarOfInt(x))
			C, rho := k.prover.PublicKey.Enc(x)
			return &zkencelg.Public{C: C, A: a.ActOnBase(), B: b.ActOnBase(), X: abx.ActOnBase(), Prover: k.prover.PublicKey, Aux: k.aux},
				zkencelg.Private{X: x, Rho: rho, A: a, B: b}, nil
		},
		prove: func(h *hash.Hash, pub, priv interface{}) interface{} {
			return zkencelg.NewProof(group, h, *pub.(*zkencelg.Public), priv.(zkencelg.Private))
		},
		verify: func(h *hash.Hash, pub, proof interface{}) bool {
			return proof.(*zkencelg.Proof).Verify(h, *pub.(*zkencelg.Public))
		},
		fsEq: func(pub, proof interface{}, ch *challenge) (bool, error) {
			p, pr := pub.(*zkencelg.Public), proof.(*zkencelg.Proof)
			return pedersenEq(p.Aux, pr.Z1, pr.Z3, ch.e, pr.T, pr.S), nil
		},
	})
	// ------------------------------------------------------------------ affg
	reg(&adapter{name: "affg",
		build: func(role int, w map[string]WitPoint) (interface{}, interface{}, error) {
			k := getKeys(role, false)
			x, err := latInt(w["X"])
			if err != nil {
				return nil, nil, err
			}
			y, err := latInt(w["Y"])
			if err != nil {
				return nil, nil, err
			}
			vpk, ppk := k.verifier.PublicKey, k.prover.PublicKey
			C, _ := vpk.Enc(new(saferith.Int).SetUint64(uint64(12 + role)))
			Y, rhoY := ppk.Enc(y)
			tmp := C.Clone().Mul(vpk, x)
			D, rho := vpk.Enc(y)
			D.Add(vpk, tmp)
			return &zkaffg.Public{Kv: C, Dv: D, Fp: Y, Xp: scalarOfInt(x).ActOnBase(), Prover: ppk, Verifier: vpk, Aux: k.aux},
				zkaffg.Private{X: x, Y: y, S: rho, R: rhoY}, nil
		},
		prove: func(h *hash.Hash, pub, priv interface{}) interface{} {
			return zkaffg.NewProof(group, h, *pub.(*zkaffg.Public), priv.(zkaffg.Private))
		},
		verify: func(h *hash.Hash, pub, proof interface{}) bool {
			return proof.(*zkaffg.Proof).Verify(h, *pub.(*zkaffg.Public))
		},
		fsEq: func(pub, proof interface{}, ch *challenge) (bool, error) {
			p, pr := pub.(*zkaffg.Public), proof.(*zkaffg.Proof)
			return pedersenEq(p.Aux, pr.Z1, pr.Z3, ch.e, pr.E, pr.S), nil
		},
	})
	// ------------------------------------------------------------------ affp
	reg(&adapter{name: "affp",
		build: func(role int, w map[string]WitPoint) (interface{}, interface{}, error) {
			k := getKeys(role, false)
			x, err := latInt(w["X"])
			if err != nil {
				return nil, nil, err
			}
			y, err := latInt(w["Y"])
			if err != nil {
				return nil, nil, err
			}
			vpk, ppk := k.verifier.PublicKey, k.prover.PublicKey
			C, _ := vpk.Enc(new(saferith.Int).SetUint64(uint64(12 + role)))
			X, rhoX := ppk.Enc(x)
			Y, rhoY := ppk.Enc(y)
			tmp := C.Clone().Mul(vpk, x)
			D, rho := vpk.Enc(y)
			D.Add(vpk, tmp)
			return &zkaffp.Public{Kv: C, Dv: D, Fp: Y, Xp: X, Prover: ppk, Verifier: vpk, Aux: k.aux},
				zkaffp.Private{X: x, Y: y, S: rho, Rx: rhoX, R: rhoY}, nil
		},
		prove: func(h *hash.Hash, pub, priv interface{}) interface{} {
			return zkaffp.NewProof(group, h, *pub.(*zkaffp.Public), priv.(zkaffp.Private))
		},
		verify: func(h *hash.Hash, pub, proof interface{}) bool {
			return proof.(*zkaffp.Proof).Verify(group, h, *pub.(*zkaffp.Public))
		},
		fsEq: func(pub, proof interface{}, ch *challenge) (bool, error) {
			p, pr := pub.(*zkaffp.Public), proof.(*zkaffp.Proof)
			return pedersenEq(p.Aux, pr.Z1, pr.Z3, ch.e, pr.E, pr.S), nil
		},
	})
	// ------------------------------------------------------------------ logstar
	reg(&adapter{name: "logstar",
		build: func(role int, w map[string]WitPoint) (interface{}, interface{}, error) {
			k := getKeys(role, false)
			x, err := latInt(w["X"])
			if err != nil {
				return nil, nil, err
			}
			G := randPoint()
			C, rho := k.prover.PublicKey.Enc(x)
			return &zklogstar.Public{C: C, X: scalarOfInt(x).Act(G), G: G, Prover: k.prover.PublicKey, Aux: k.aux},
				zklogstar.Private{X: x, Rho: rho}, nil
		},
		prove: func(h *hash.Hash, pub, priv interface{}) interface{} {
			return zklogstar.NewProof(group, h, *pub.(*zklogstar.Public), priv.(zklogstar.Private))
		},
		verify: func(h *hash.Hash, pub, proof interface{}) bool {
			return proof.(*zklogstar.Proof).Verify(h, *pub.(*zklogstar.Public))
		},
		fsEq: func(pub, proof interface{}, ch *challenge) (bool, error) {
			p, pr := pub.(*zklogstar.Public), proof.(*zklogstar.Proof)
			return pedersenEq(p.Aux, pr.Z1, pr.Z3, ch.e, pr.D, pr.S), nil
		},
	})
	// ------------------------------------------------------------------ elog
	reg(&adapter{name: "elog",
		build: func(role int, w map[string]WitPoint) (interface{}, interface{}, error) {
			y, err := latScalar(w["Y"])
			if err != nil {
				return nil, nil, err
			}
			lambda, err := latScalar(w["Lambda"])
			if err != nil {
				return nil, nil, err
			}
			H, X := randPoint(), randPoint()
			E := &elgamal.Ciphertext{L: lambda.ActOnBase(), M: y.ActOnBase().Add(lambda.Act(X))}
			return &zkelog.Public{E: E, ElGamalPublic: X, Base: H, Y: y.Act(H)}, zkelog.Private{Y: y, Lambda: lambda}, nil
		},
		prove: func(h *hash.Hash, pub, priv interface{}) interface{} {
			return zkelog.NewProof(group, h, *pub.(*zkelog.Public), priv.(zkelog.Private))
		},
		verify: func(h *hash.Hash, pub, proof interface{}) bool {
			return proof.(*zkelog.Proof).Verify(h, *pub.(*zkelog.Public))
		},
		fsEq: func(pub, proof interface{}, ch *challenge) (bool, error) {
			p, pr := pub.(*zkelog.Public), proof.(*zkelog.Proof)
			// u*H = B + e*Y  and  z*G = A + e*L
			ok1 := pr.U.Act(p.Base).Equal(ch.scalar.Act(p.Y).Add(pr.B))
			ok2 := pr.Z.ActOnBase().Equal(ch.scalar.Act(p.E.L).Add(pr.A))
			return ok1 && ok2, nil
		},
	})
	// ------------------------------------------------------------------ log
	reg(&adapter{name: "log",
		build: func(role int, w map[string]WitPoint) (interface{}, interface{}, error) {
			a, err := latScalar(w["A"])
			if err != nil {
				return nil, nil, err
			}
			b, err := latScalar(w["B"])
			if err != nil {
				return nil, nil, err
			}
			H := b.ActOnBase()
			return &zklog.Public{H: H, X: a.ActOnBase(), Y: a.Act(H)}, zklog.Private{A: a, B: b}, nil
		},
		prove: func(h *hash.Hash, pub, priv interface{}) interface{} {
			return zklog.NewProof(group, h, *pub.(*zklog.Public), priv.(zklog.Private))
		},
		verify: func(h *hash.Hash, pub, proof interface{}) bool {
			return proof.(*zklog.Proof).Verify(h, *pub.(*zklog.Public))
		},
		fsEq: func(pub, proof interface{}, ch *challenge) (bool, error) {
			p, pr := pub.(*zklog.Public), proof.(*zklog.Proof)
			return pr.Z2.ActOnBase().Equal(ch.scalar.Act(p.H).Add(pr.C)), nil // z2*G = C + e*H
		},
	})
	// ------------------------------------------------------------------ nth
	reg(&adapter{name: "nth",
		build: func(role int, w map[string]WitPoint) (interface{}, interface{}, error) {
			k := getKeys(role, false)
			pk := k.verifier.PublicKey
			rho, err := latUnit(w["Rho"], pk.N())
			if err != nil {
				return nil, nil, err
			}
			r := pk.ModulusSquared().Exp(rho, pk.N().Nat())
			return &zknth.Public{N: pk, R: r}, zknth.Private{Rho: rho}, nil
		},
		prove: func(h *hash.Hash, pub, priv interface{}) interface{} {
			return zknth.NewProof(h, *pub.(*zknth.Public), priv.(zknth.Private))
		},
		verify: func(h *hash.Hash, pub, proof interface{}) bool {
			return proof.(*zknth.Proof).Verify(h, *pub.(*zknth.Public))
		},
		fsEq: func(pub, proof interface{}, ch *challenge) (bool, error) {
			p, pr := pub.(*zknth.Public), proof.(*zknth.Proof)
			n := p.N.N().Big()
			n2 := new(big.Int).Mul(n, n)
			lhs := new(big.Int).Exp(pr.Z.Big(), n, n2) // z^N = A * R^e (mod N^2)
			rhs := expSigned(p.R.Big(), ch.e, n2)
			rhs.Mul(rhs, pr.A.Big()).Mod(rhs, n2)
			return lhs.Cmp(rhs) == 0, nil
		},
	})
	// ------------------------------------------------------------------ dec
	reg(&adapter{name: "dec",
		build: func(role int, w map[string]WitPoint) (interface{}, interface{}, error) {
			k := getKeys(role, false)
			y, err := latInt(w["Y"])
			if err != nil {
				return nil, nil, err
			}
			C, rho := k.prover.PublicKey.Enc(y)
			return &zkdec.Public{C: C, X: scalarOfInt(y), Prover: k.prover.PublicKey, Aux: k.aux}, zkdec.Private{Y: y, Rho: rho}, nil
		},
		prove: func(h *hash.Hash, pub, priv interface{}) interface{} {
			return zkdec.NewProof(group, h, *pub.(*zkdec.Public), priv.(zkdec.Private))
		},
		verify: func(h *hash.Hash, pub, proof interface{}) bool {
			return proof.(*zkdec.Proof).Verify(h, *pub.(*zkdec.Public))
		},
		fsEq: func(pub, proof interface{}, ch *challenge) (bool, error) {
			p, pr := pub.(*zkdec.Public), proof.(*zkdec.Proof)
			return pedersenEq(p.Aux, pr.Z1, pr.Z2, ch.e, pr.T, pr.S), nil
		},
	})
	// ------------------------------------------------------------------ mul
	reg(&adapter{name: "mul",
		build: func(role int, w map[string]WitPoint) (interface{}, interface{}, error) {
			k := getKeys(role, false)
			pk := k.prover.PublicKey
			x, err := latInt(w["X"])
			if err != nil {
				return nil, nil, err
			}
			X, rhoX := pk.Enc(x)
			Y, _ := pk.Enc(sample.IntervalL(crand.Reader))
			C := Y.Clone().Mul(pk, x)
			rho := C.Randomize(pk, nil)
			return &zkmul.Public{X: X, Y: Y, C: C, Prover: pk}, zkmul.Private{X: x, Rho: rho, RhoX: rhoX}, nil
		},
		prove: func(h *hash.Hash, pub, priv interface{}) interface{} {
			return zkmul.NewProof(group, h, *pub.(*zkmul.Public), priv.(zkmul.Private))
		},
		verify: func(h *hash.Hash, pub, proof interface{}) bool {
			return proof.(*zkmul.Proof).Verify(group, h, *pub.(*zkmul.Public))
		},
		fsEq: func(pub, proof interface{}, ch *challenge) (bool, error) {
			p, pr := pub.(*zkmul.Public), proof.(*zkmul.Proof)
			return paillierEq(p.Prover.N().Big(), pr.Z.Big(), pr.V.Big(), ch.e, p.X.Nat().Big(), pr.B.Nat().Big()), nil
		},
	})
	// ------------------------------------------------------------------ mulstar
	reg(&adapter{name: "mulstar",
		build: func(role int, w map[string]WitPoint) (interface{}, interface{}, error) {
			k := getKeys(role, false)
			vpk := k.verifier.PublicKey
			x, err := latInt(w["X"])
			if err != nil {
				return nil, nil, err
			}
			C, _ := vpk.Enc(new(saferith.Int).SetUint64(uint64(12 + role)))
			D := C.Clone().Mul(vpk, x)
			rho := sample.UnitModN(crand.Reader, vpk.N())
			D.Randomize(vpk, rho)
			return &zkmulstar.Public{C: C, D: D, X: scalarOfInt(x).ActOnBase(), Verifier: vpk, Aux: k.aux}, zkmulstar.Private{X: x, Rho: rho}, nil
		},
		prove: func(h *hash.Hash, pub, priv interface{}) interface{} {
			return zkmulstar.NewProof(group, h, *pub.(*zkmulstar.Public), priv.(zkmulstar.Private))
		},
		verify: func(h *hash.Hash, pub, proof interface{}) bool {
			return proof.(*zkmulstar.Proof).Verify(group, h, *pub.(*zkmulstar.Public))
		},
		fsEq: func(pub, proof interface{}, ch *challenge) (bool, error) {
			p, pr := pub.(*zkmulstar.Public), proof.(*zkmulstar.Proof)
			return pedersenEq(p.Aux, pr.Z1, pr.Z2, ch.e, pr.E, pr.S), nil
		},
	})
}
