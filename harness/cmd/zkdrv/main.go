// Command zkdrv replays the case lattice enumerated by spec/ZkCases.tla on the real proof systems of
// /repo/pkg/zk (property C10).  One process handles one system (crypto/rand.Reader is replaced by a
// deterministic stream that is re-keyed per instance / per case, so every proof is a function of
// (seed, system, label) whatever the order of the cases).
//
//	zkdrv -in cases_enc.json -out result_enc.json -seed 0
package main

import (
	"encoding/json"
	"flag"
	"fmt"
	"github.com/cronokirby/saferith"
	"github.com/taurusgroup/multi-party-sig/pkg/paillier"
	"github.com/taurusgroup/multi-party-sig/pkg/pedersen"
	"math/big"
	"os"
	"reflect"
	"sort"
	"strings"
	"time"

	"github.com/taurusgroup/multi-party-sig/pkg/hash"
)

// ---- input (written by bin/c10.py from what TLC printed)

type WitPoint struct {
	Name  string `json:"name"`
	Range string `json:"range"`
	Point string `json:"point"`
	Bound int    `json:"bound"`
}

type Case struct {
	ID     int        `json:"id"`
	Sys    string     `json:"sys"`
	Wit    []WitPoint `json:"wit"`
	Kind   string     `json:"kind"`
	Field  string     `json:"field"`
	Arg    string     `json:"arg"`
	Bound  int        `json:"bound"`
	Expect string     `json:"expect"`
	By     []string   `json:"by"`
}

type Eq struct {
	Name   string   `json:"name"`
	Fields []string `json:"fields"`
}

type Struct struct {
	Sys  string   `json:"sys"`
	Pub  []string `json:"pub"`
	Rel  []string `json:"rel"`
	Com  []string `json:"com"`
	Rsp  []string `json:"rsp"`
	Fs   []string `json:"fs"`
	Chal string   `json:"chal"`
	Eqs  []Eq     `json:"eqs"`
}

type Input struct {
	System string `json:"system"`
	Struct Struct `json:"struct"`
	Cases  []Case `json:"cases"`
}

// ---- output

type Failure struct {
	Case   Case   `json:"case"`
	Class  string `json:"class"` // completeness | binding | panic | fs
	Got    string `json:"got"`
	Detail string `json:"detail"`
}

type Result struct {
	System       string                   `json:"system"`
	Evaluations  int                      `json:"evaluations"` // cases whose outcome was compared with the expected verdict
	Reached      int                      `json:"reached"`     // distinct cases that reached Verify on the real code
	Trivial      []string                 `json:"trivial"`     // substitutions that were no-ops (equal values), not evaluated
	Refused      []string                 `json:"refused"`     // cases where the (cheating) prover itself panicked, not evaluated
	Failures     []Failure                `json:"failures"`
	Inconclusive []string                 `json:"inconclusive"` // table out of date etc.
	Samples      []map[string]interface{} `json:"samples"`
	Fs           map[string]interface{}   `json:"fs"`
	ByVerdict    map[string]int           `json:"by_verdict"`
	WallMs       int64                    `json:"wall_ms"`
	ProofsMade   int                      `json:"proofs_made"`
}

// ---- engine

type inst struct {
	pub   interface{} // pointer to the Public struct
	priv  interface{}
	proof interface{} // pointer to the Proof struct
}

type engine struct {
	seed   int64
	sys    *adapter
	st     Struct
	cacheA map[string]*inst
	b      *inst
	res    *Result
}

func witKey(w []WitPoint) string {
	parts := make([]string, len(w))
	for i, x := range w {
		parts[i] = x.Name + "=" + x.Point
	}
	return strings.Join(parts, ",")
}

func witMap(w []WitPoint) map[string]WitPoint {
	m := map[string]WitPoint{}
	for _, x := range w {
		m[x.Name] = x
	}
	return m
}

type outcome struct {
	verdict string // accept | reject | panic
	msg     string
}

func (e *engine) safeProve(label string, ctx *hash.Hash, pub, priv interface{}) (proof interface{}, perr string) {
	defer func() {
		if r := recover(); r != nil {
			proof, perr = nil, fmt.Sprint(r)
		}
	}()
	reseed(e.seed, e.sys.name, "prove|"+label)
	p := e.sys.prove(ctx, pub, priv)
	e.res.ProofsMade++
	if p == nil || reflect.ValueOf(p).IsNil() {
		return nil, "prover returned nil"
	}
	return p, ""
}

func (e *engine) safeVerify(ctx *hash.Hash, pub, proof interface{}) (o outcome) {
	defer func() {
		if r := recover(); r != nil {
			o = outcome{"panic", fmt.Sprint(r)}
		}
	}()
	if e.sys.verify(ctx, pub, proof) {
		return outcome{"accept", ""}
	}
	return outcome{"reject", ""}
}

// instance builds (and caches) an honest statement + proof for the given witness lattice point.
func (e *engine) instance(role int, w []WitPoint) (*inst, string) {
	key := fmt.Sprintf("%d|%s", role, witKey(w))
	if role == 0 {
		if in, ok := e.cacheA[key]; ok {
			return in, ""
		}
	}
	var in *inst
	var berr string
	func() {
		defer func() {
			if r := recover(); r != nil {
				berr = fmt.Sprint(r)
			}
		}()
		reseed(e.seed, e.sys.name, "build|"+key)
		pub, priv, err := e.sys.build(role, witMap(w))
		if err != nil {
			berr = err.Error()
			return
		}
		in = &inst{pub: pub, priv: priv}
	}()
	if berr != "" {
		return nil, "build: " + berr
	}
	proof, perr := e.safeProve(key, ctxHash("own"), in.pub, in.priv)
	if perr != "" {
		return nil, "prove: " + perr
	}
	in.proof = proof
	if role == 0 {
		e.cacheA[key] = in
	}
	return in, ""
}

func baseWit(w []WitPoint) []WitPoint {
	out := make([]WitPoint, len(w))
	for i, x := range w {
		x.Point = "rand"
		if x.Range == "key" || x.Range == "rootN" {
			x.Point = "key"
		}
		out[i] = x
	}
	return out
}

func (e *engine) other(w []WitPoint) (*inst, string) {
	if e.b != nil {
		return e.b, ""
	}
	b, err := e.instance(1, baseWit(w))
	if err != "" {
		return nil, err
	}
	e.b = b
	return b, ""
}

func rootOf(in *inst, path string) (interface{}, string, error) {
	switch {
	case strings.HasPrefix(path, "pub."):
		return in.pub, path[4:], nil
	case strings.HasPrefix(path, "com."), strings.HasPrefix(path, "rsp."):
		return in.proof, path[4:], nil
	}
	return nil, "", fmt.Errorf("bad field name %q", path)
}

func inRange(w []WitPoint) bool {
	for _, x := range w {
		switch x.Point {
		case "oorp", "oorm", "huge":
			return false
		}
	}
	return true
}

func (e *engine) fail(c Case, class, got, detail string) {
	e.res.Failures = append(e.res.Failures, Failure{Case: c, Class: class, Got: got, Detail: detail})
}

func (e *engine) runCase(c Case) {
	tag := fmt.Sprintf("#%d %s[%s] %s %s %s", c.ID, c.Sys, witKey(c.Wit), c.Kind, c.Field, c.Arg)
	a, err := e.instance(0, c.Wit)
	if err != "" {
		if inRange(c.Wit) {
			// an honest prover with an in-range witness must be able to prove
			e.res.Evaluations++
			e.fail(c, "completeness", "no-proof", "honest prover failed on an in-range witness: "+err)
		} else {
			e.res.Refused = append(e.res.Refused, tag+": "+err)
		}
		return
	}
	pub, proof := a.pub, a.proof
	ctx := "own"
	note := ""
	switch c.Kind {
	case "none":
	case "fs":
		e.runFs(c, a)
		return
	case "ctx":
		ctx = c.Field
	case "pub", "pubpre", "com", "rsp":
		b, berr := e.other(c.Wit)
		if berr != "" {
			e.res.Inconclusive = append(e.res.Inconclusive, tag+": cannot build the second instance: "+berr)
			return
		}
		ra, rel, perr := rootOf(a, c.Field)
		rb, _, _ := rootOf(b, c.Field)
		if perr != nil {
			e.res.Inconclusive = append(e.res.Inconclusive, tag+": "+perr.Error())
			return
		}
		vb, gerr := getPath(rb, rel)
		va, gerr2 := getPath(ra, rel)
		if gerr != nil || gerr2 != nil {
			e.res.Inconclusive = append(e.res.Inconclusive, fmt.Sprintf("%s: structure table out of date: %v %v", tag, gerr, gerr2))
			return
		}
		var nv reflect.Value
		if va.Kind() == reflect.Bool {
			nv = reflect.ValueOf(!va.Bool()) // a bit taken from another proof may coincide: flip it instead
			note = "flipped"
		} else {
			nv = vb
			if render(va) == render(vb) {
				e.res.Trivial = append(e.res.Trivial, tag)
				return
			}
		}
		cp, serr := cloneSet(ra, rel, nv)
		if serr != nil {
			e.res.Inconclusive = append(e.res.Inconclusive, tag+": "+serr.Error())
			return
		}
		switch c.Kind {
		case "pub":
			pub = cp
		case "pubpre":
			pub = cp
			p2, perr2 := e.safeProve(fmt.Sprintf("case%d|%s", c.ID, c.Field), ctxHash("own"), pub, a.priv)
			if perr2 != "" {
				e.res.Refused = append(e.res.Refused, tag+": "+perr2)
				return
			}
			proof = p2
		default:
			proof = cp
		}
	case "oors":
		ra, rel, perr := rootOf(a, c.Field)
		if perr != nil {
			e.res.Inconclusive = append(e.res.Inconclusive, tag+": "+perr.Error())
			return
		}
		v := pow2Int(c.Bound, c.Arg == "m")
		cp, serr := cloneSet(ra, rel, reflect.ValueOf(v))
		if serr != nil {
			e.res.Inconclusive = append(e.res.Inconclusive, tag+": structure table out of date: "+serr.Error())
			return
		}
		proof = cp
	case "modshift":
		ra, rel, perr := rootOf(a, c.Field)
		if perr != nil {
			e.res.Inconclusive = append(e.res.Inconclusive, tag+": "+perr.Error())
			return
		}
		va, gerr := getPath(ra, rel)
		if gerr != nil {
			e.res.Inconclusive = append(e.res.Inconclusive, tag+": structure table out of date: "+gerr.Error())
			return
		}
		cur := residueOf(va)
		if cur == nil {
			e.res.Trivial = append(e.res.Trivial, tag+": not a residue")
			return
		}
		// the modulus the value lives in: the smallest N (arg n) or N^2 (arg n2) of the statement's keys that exceeds it
		var M *big.Int
		for _, n := range moduliOf(reflect.ValueOf(a.pub), 0) {
			m := new(big.Int).Set(n)
			if c.Arg == "n2" {
				m.Mul(m, m)
			}
			if m.Cmp(cur) > 0 && (M == nil || m.Cmp(M) < 0) {
				M = m
			}
		}
		if M == nil {
			e.res.Trivial = append(e.res.Trivial, tag+": no modulus of the statement exceeds the value")
			return
		}
		nv, ok := residueLike(va, new(big.Int).Add(cur, M))
		if !ok {
			e.res.Trivial = append(e.res.Trivial, tag+": not a residue")
			return
		}
		cp, serr := cloneSet(ra, rel, nv)
		if serr != nil {
			e.res.Inconclusive = append(e.res.Inconclusive, tag+": "+serr.Error())
			return
		}
		proof = cp
	default:
		e.res.Inconclusive = append(e.res.Inconclusive, tag+": unknown perturbation kind")
		return
	}

	o := e.safeVerify(ctxHash(ctx), pub, proof)
	e.res.Evaluations++
	e.res.Reached++
	e.res.ByVerdict[c.Kind+"/"+o.verdict]++
	if len(e.res.Samples) < 4 && (c.Kind == "pubpre" || c.Kind == "rsp" || (c.Kind == "none" && !inRange(c.Wit)) || c.Kind == "com") && c.ID%3 == 0 {
		e.res.Samples = append(e.res.Samples, map[string]interface{}{"case": tag, "expected": c.Expect, "real_verify": o.verdict, "rejecting_mechanisms_per_spec": c.By, "note": note})
	}
	switch {
	case o.verdict == "panic":
		e.fail(c, "panic", "panic", "Verify panicked: "+o.msg)
	case c.Expect == "any":
	case c.Expect == "accept" && o.verdict != "accept":
		e.fail(c, "completeness", o.verdict, "an honestly generated proof does not verify")
	case c.Expect == "reject" && o.verdict != "reject":
		e.fail(c, "binding", o.verdict, "a proof that must be rejected ("+strings.Join(c.By, ",")+") verifies")
	}
}

func main() {
	in := flag.String("in", "", "case file")
	out := flag.String("out", "", "result file")
	seed := flag.Int64("seed", 0, "seed")
	flag.Parse()
	raw, err := os.ReadFile(*in)
	if err != nil {
		fmt.Fprintln(os.Stderr, err)
		os.Exit(2)
	}
	var inp Input
	if err := json.Unmarshal(raw, &inp); err != nil {
		fmt.Fprintln(os.Stderr, err)
		os.Exit(2)
	}
	ad, ok := adapters[inp.System]
	if !ok {
		fmt.Fprintln(os.Stderr, "unknown system", inp.System)
		os.Exit(2)
	}
	installRand()
	t0 := time.Now()
	res := &Result{System: inp.System, ByVerdict: map[string]int{}, Fs: map[string]interface{}{}}
	e := &engine{seed: *seed, sys: ad, st: inp.Struct, cacheA: map[string]*inst{}, res: res}
	// every field named by the table must exist in the Go types (else: table out of date)
	sort.SliceStable(inp.Cases, func(i, j int) bool { return inp.Cases[i].ID < inp.Cases[j].ID })
	for _, c := range inp.Cases {
		e.runCase(c)
	}
	res.WallMs = time.Since(t0).Milliseconds()
	buf, _ := json.MarshalIndent(res, "", " ")
	if err := os.WriteFile(*out, buf, 0o644); err != nil {
		fmt.Fprintln(os.Stderr, err)
		os.Exit(2)
	}
}

// residueOf returns the value of a field that holds a non-negative big number (*saferith.Nat, *big.Int), else nil.
func residueOf(v reflect.Value) *big.Int {
	if !v.IsValid() || (v.Kind() == reflect.Ptr && v.IsNil()) {
		return nil
	}
	switch x := v.Interface().(type) {
	case *saferith.Nat:
		return x.Big()
	case *big.Int:
		if x.Sign() < 0 {
			return nil
		}
		return new(big.Int).Set(x)
	}
	return nil
}

func residueLike(v reflect.Value, val *big.Int) (reflect.Value, bool) {
	switch v.Interface().(type) {
	case *saferith.Nat:
		return reflect.ValueOf(new(saferith.Nat).SetBig(val, val.BitLen())), true
	case *big.Int:
		return reflect.ValueOf(val), true
	}
	return reflect.Value{}, false
}

// moduliOf collects the moduli reachable from a public statement: Paillier keys, Pedersen parameters, plain moduli.
func moduliOf(v reflect.Value, depth int) []*big.Int {
	var out []*big.Int
	if !v.IsValid() || depth > 4 {
		return out
	}
	if v.CanInterface() {
		switch x := v.Interface().(type) {
		case *paillier.PublicKey:
			if x != nil {
				out = append(out, x.N().Big())
			}
			return out
		case *pedersen.Parameters:
			if x != nil {
				out = append(out, x.N().Big())
			}
			return out
		case *saferith.Modulus:
			if x != nil {
				out = append(out, x.Big())
			}
			return out
		}
	}
	switch v.Kind() {
	case reflect.Ptr, reflect.Interface:
		if !v.IsNil() {
			out = append(out, moduliOf(v.Elem(), depth+1)...)
		}
	case reflect.Struct:
		for i := 0; i < v.NumField(); i++ {
			if v.Type().Field(i).IsExported() {
				out = append(out, moduliOf(v.Field(i), depth+1)...)
			}
		}
	}
	return out
}
