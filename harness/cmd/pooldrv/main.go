// pooldrv replays behaviours of Pool.tla on the REAL worker pool: the verif yield hooks park every goroutine
// at the labels of the specification and the driver releases them in the order TLC chose (gated replay).
// After every step the labels of the real goroutines are compared with the model's; at the end the property
// predicates are evaluated on the real pool (calls returned, results exact, all workers available again).
package main

import (
	"bufio"
	"encoding/json"
	"flag"
	"fmt"
	"os"
	"runtime"
	"strconv"
	"strings"
	"sync"
	"sync/atomic"
	"time"

	"github.com/taurusgroup/multi-party-sig/pkg/pool"
)

type callSpec struct {
	Kind string `json:"kind"`
	K    int    `json:"k"`
}

type step struct {
	A   string            `json:"a"`
	W   string            `json:"w"`
	Cpc string            `json:"cpc"`
	Wpc map[string]string `json:"wpc"`
}

type arrival struct {
	gid   uint64
	point string
}

func gid() uint64 {
	var buf [64]byte
	n := runtime.Stack(buf[:], false)
	f := strings.Fields(string(buf[:n]))
	id, _ := strconv.ParseUint(f[1], 10, 64)
	return id
}

type gate struct {
	mu      sync.Mutex
	free    atomic.Bool
	arrive  chan arrival
	rel     map[uint64]chan struct{}
	outcome map[uint64]bool // search: next f() result is a hit
	last    map[uint64]string
}

func newGate() *gate {
	return &gate{arrive: make(chan arrival, 1024), rel: map[uint64]chan struct{}{}, outcome: map[uint64]bool{}, last: map[uint64]string{}}
}

func (g *gate) yield(point string) {
	id := gid()
	g.mu.Lock()
	g.last[id] = point
	if g.free.Load() {
		g.mu.Unlock()
		return
	}
	ch, ok := g.rel[id]
	if !ok {
		ch = make(chan struct{}, 1)
		g.rel[id] = ch
	}
	g.mu.Unlock()
	g.arrive <- arrival{id, point}
	<-ch
}

func (g *gate) release(id uint64) {
	g.mu.Lock()
	ch := g.rel[id]
	g.mu.Unlock()
	if ch != nil {
		ch <- struct{}{}
	}
}

func (g *gate) setFree() {
	g.mu.Lock()
	g.free.Store(true)
	chans := []chan struct{}{}
	for _, ch := range g.rel {
		chans = append(chans, ch)
	}
	g.mu.Unlock()
	for _, ch := range chans {
		select {
		case ch <- struct{}{}:
		default:
		}
	}
}

var stepTimeout = 2 * time.Second

type failure struct {
	Case   string `json:"case"`
	What   string `json:"what"`
	Detail string `json:"detail"`
	Step   int    `json:"step"`
}

// replay runs one behaviour. Returns (what, detail) of a failure or "".
func replay(workers []string, calls []callSpec, steps []step) (string, string, int) {
	g := newGate()
	pool.VerifYield = g.yield
	baseline := runtime.NumGoroutine()
	defer func() {
		// goroutines of this replay must be gone (or parked forever) before the next replay installs its gate
		for i := 0; i < 20000 && runtime.NumGoroutine() > baseline; i++ {
			time.Sleep(50 * time.Microsecond)
		}
		pool.VerifYield = nil
	}()
	p := pool.NewPool(len(workers))
	name := map[uint64]string{}
	id := map[string]uint64{}
	label := map[string]string{}
	wait := func(n int) ([]arrival, bool) {
		var as []arrival
		t := time.NewTimer(stepTimeout)
		defer t.Stop()
		for len(as) < n {
			select {
			case a := <-g.arrive:
				as = append(as, a)
			case <-t.C:
				return as, false
			}
		}
		return as, true
	}
	as, ok := wait(len(workers))
	if !ok {
		return "harness", "workers did not reach their first yield", 0
	}
	for i, a := range as {
		name[a.gid] = workers[i]
		id[workers[i]] = a.gid
		label[workers[i]] = a.point
	}
	callIdx := 0
	type callRes struct {
		res []interface{}
	}
	var doneCh chan callRes
	var callerID uint64
	startCall := func() (string, string) {
		c := calls[callIdx]
		doneCh = make(chan callRes, 1)
		ci := callIdx
		go func() {
			var r []interface{}
			if c.Kind == "par" {
				r = p.Parallelize(c.K, func(i int) interface{} { return i*1000 + ci })
			} else {
				r = p.Search(c.K, func() interface{} {
					if g.free.Load() {
						return "hit"
					}
					me := gid()
					g.mu.Lock()
					hit := g.outcome[me]
					g.mu.Unlock()
					if hit {
						return "hit"
					}
					return nil
				})
			}
			doneCh <- callRes{r}
		}()
		as, ok := wait(1)
		if !ok {
			return "harness", "caller did not reach its first yield"
		}
		callerID = as[0].gid
		name[callerID] = "caller"
		label["caller"] = as[0].point
		return "", ""
	}
	checkResults := func(r []interface{}) (string, string) {
		c := calls[callIdx]
		if len(r) != c.K {
			return "results", fmt.Sprintf("call %d (%s %d) returned %d results", callIdx, c.Kind, c.K, len(r))
		}
		for i, v := range r {
			if c.Kind == "par" {
				if v != interface{}(i*1000+callIdx) {
					return "results", fmt.Sprintf("Parallelize slot %d holds %v, want %d", i, v, i*1000+callIdx)
				}
			} else if v == nil {
				return "results", fmt.Sprintf("Search returned a nil entry at %d", i)
			}
		}
		return "", ""
	}
	finish := func(stepNo int, what, detail string) (string, string, int) {
		// free run: does the call in progress return, and are all workers available again?
		g.setFree()
		if callIdx < len(calls) && doneCh != nil {
			select {
			case r := <-doneCh:
				if w, d := checkResults(r.res); w != "" && what == "" {
					what, detail = w, d
				}
				callIdx++
			case <-time.After(stepTimeout):
				return "call-never-returns", fmt.Sprintf("call %d did not return although every goroutine was released (%s %s)", callIdx, what, detail), stepNo
			}
		}
		// remaining calls, ungated
		for ; callIdx < len(calls); callIdx++ {
			c := calls[callIdx]
			ch := make(chan []interface{}, 1)
			ci := callIdx
			go func() {
				if c.Kind == "par" {
					ch <- p.Parallelize(c.K, func(i int) interface{} { return i*1000 + ci })
				} else {
					ch <- p.Search(c.K, func() interface{} { return "hit" })
				}
			}()
			select {
			case r := <-ch:
				if w, d := checkResults(r); w != "" && what == "" {
					what, detail = w, d
				}
			case <-time.After(stepTimeout):
				return "call-never-returns", fmt.Sprintf("call %d did not return in free run", callIdx), stepNo
			}
		}
		// probe: W tasks that must all be running at the same time
		n := len(workers)
		var started int32
		all := make(chan struct{})
		ch := make(chan struct{}, 1)
		go func() {
			p.Parallelize(n, func(i int) interface{} {
				if atomic.AddInt32(&started, 1) == int32(n) {
					close(all)
				}
				select {
				case <-all:
				case <-time.After(stepTimeout):
				}
				return i
			})
			ch <- struct{}{}
		}()
		select {
		case <-all:
		case <-time.After(stepTimeout):
			return "lost-worker", fmt.Sprintf("only %d of %d workers took a task after the calls returned (%s %s)", atomic.LoadInt32(&started), n, what, detail), stepNo
		}
		select {
		case <-ch:
		case <-time.After(2 * stepTimeout):
			return "call-never-returns", "probe call did not return", stepNo
		}
		p.TearDown()
		return what, detail, stepNo
	}
	if len(calls) == 0 {
		return finish(0, "", "")
	}
	if w, d := startCall(); w != "" {
		return finish(0, w, d)
	}
	for n, st := range steps {
		var need []string
		switch st.A {
		case "SendCmd", "RecvNotify":
			need = []string{"caller", st.W}
		case "CReturn", "CLoad":
			need = []string{"caller"}
		default:
			need = []string{st.W}
			g.mu.Lock()
			g.outcome[id[st.W]] = st.A == "WSHit"
			g.mu.Unlock()
		}
		if st.A == "CReturn" {
			g.release(callerID)
			select {
			case r := <-doneCh:
				if w, d := checkResults(r.res); w != "" {
					callIdx++
					doneCh = nil
					return finish(n, w, d)
				}
			case <-time.After(stepTimeout):
				return finish(n, "divergence", fmt.Sprintf("step %d CReturn: the real caller did not return (it is at %q)", n, label["caller"]))
			}
			callIdx++
			doneCh = nil
			delete(label, "caller")
			if callIdx < len(calls) {
				if w, d := startCall(); w != "" {
					return finish(n, w, d)
				}
			}
		} else {
			for _, who := range need {
				if who == "caller" {
					g.release(callerID)
				} else {
					g.release(id[who])
				}
			}
			as, ok := wait(len(need))
			for _, a := range as {
				label[name[a.gid]] = a.point
			}
			if !ok {
				return finish(n, "divergence", fmt.Sprintf("step %d %s(%s): a real goroutine did not reach its next yield point; labels now %v, model expects caller=%s workers=%v", n, st.A, st.W, label, st.Cpc, st.Wpc))
			}
		}
		// compare labels with the model
		want := st.Cpc
		have := label["caller"]
		if want == "c_done" {
			want = ""
		}
		if have != want {
			return finish(n, "divergence", fmt.Sprintf("step %d %s(%s): caller is at %q, model says %q", n, st.A, st.W, have, st.Cpc))
		}
		for w, l := range st.Wpc {
			if label[w] != l {
				return finish(n, "divergence", fmt.Sprintf("step %d %s(%s): worker %s is at %q, model says %q", n, st.A, st.W, w, label[w], l))
			}
		}
	}
	return finish(len(steps), "", "")
}

// flakyReader fails every `every`-th read.
type flakyReader struct {
	mu    sync.Mutex
	n     int
	every int
}

func (f *flakyReader) Read(p []byte) (int, error) {
	f.mu.Lock()
	defer f.mu.Unlock()
	f.n++
	if f.n%f.every == 0 {
		return 0, fmt.Errorf("transient read error")
	}
	for i := range p {
		p[i] = byte(f.n)
	}
	return len(p), nil
}

// goid: the number of the running goroutine (from the header line of its stack trace).
func goid() string {
	var b [64]byte
	n := runtime.Stack(b[:], false)
	f := strings.Fields(string(b[:n]))
	if len(f) >= 2 {
		return f[1]
	}
	return "?"
}

// nilPoolOnCaller: with a nil pool every task runs on the calling goroutine, one after the other in index order.
func nilPoolOnCaller() []failure {
	var fails []failure
	var p *pool.Pool
	var mu sync.Mutex
	for _, k := range []int{0, 1, 2, 3, 8} {
		me := goid()
		var order []int
		var where []string
		active, overlap := int32(0), false
		p.Parallelize(k, func(i int) interface{} {
			if atomic.AddInt32(&active, 1) > 1 {
				overlap = true
			}
			mu.Lock() // (only a library that does NOT stay on the calling goroutine makes this lock necessary)
			where = append(where, goid())
			order = append(order, i)
			mu.Unlock()
			time.Sleep(200 * time.Microsecond)
			atomic.AddInt32(&active, -1)
			return i
		})
		for j, g := range where {
			if g != me {
				fails = append(fails, failure{Case: fmt.Sprintf("nil pool Parallelize(%d)", k), What: "not-on-caller", Detail: fmt.Sprintf("task %d ran on goroutine %s, the caller is goroutine %s", order[j], g, me)})
				break
			}
		}
		if overlap {
			fails = append(fails, failure{Case: fmt.Sprintf("nil pool Parallelize(%d)", k), What: "not-on-caller", Detail: "two tasks ran at the same time"})
		}
		for j := range order {
			if order[j] != j {
				fails = append(fails, failure{Case: fmt.Sprintf("nil pool Parallelize(%d)", k), What: "not-on-caller", Detail: fmt.Sprintf("tasks ran in the order %v", order)})
				break
			}
		}
		where = nil
		var cnt int32
		p.Search(k, func() interface{} {
			mu.Lock()
			where = append(where, goid())
			mu.Unlock()
			if atomic.AddInt32(&cnt, 1)%2 == 0 {
				return nil
			}
			return 1
		})
		for _, g := range where {
			if g != me {
				fails = append(fails, failure{Case: fmt.Sprintf("nil pool Search(%d)", k), What: "not-on-caller", Detail: fmt.Sprintf("a candidate was tried on goroutine %s, the caller is goroutine %s", g, me)})
				break
			}
		}
	}
	return fails
}

func stress(seed int64, calls int) []failure {
	var fails []failure
	fails = append(fails, nilPoolOnCaller()...)
	// 0 workers = the nil pool: the same calls on the calling goroutine must give the same results
	for _, w := range []int{0, 1, 2, 3, 4, 16} {
		var p *pool.Pool
		if w > 0 {
			p = pool.NewPool(w)
		}
		before := runtime.NumGoroutine()
		doneCh := make(chan string, 1)
		go func() {
			defer func() {
				if r := recover(); r != nil {
					doneCh <- fmt.Sprintf("a call on %d workers panicked: %v", w, r)
				}
			}()
			for c := 0; c < calls; c++ {
				k := (c*7 + int(seed)) % 9
				if c%9 == 5 {
					// a search whose candidates are drawn through the pool's LockedReader from a source that fails now and
					// then (as sample.Paillier draws them): a failed draw is an unsuccessful candidate, nothing more
					k = 1 + (c/9+int(seed))%3
					lr := pool.NewLockedReader(&flakyReader{every: 3})
					r := p.Search(k, func() interface{} {
						var b [8]byte
						if _, err := lr.Read(b[:]); err != nil {
							return nil
						}
						return 1
					})
					if len(r) != k {
						doneCh <- "wrong length"
						return
					}
					continue
				}
				if c%3 == 2 {
					k = (c/3 + int(seed)) % 5 // every count 0..4, whatever the seed
					var n int32
					r := p.Search(k, func() interface{} {
						if atomic.AddInt32(&n, 1)%3 == 0 {
							return nil
						}
						return 1
					})
					for _, v := range r {
						if v == nil {
							doneCh <- fmt.Sprintf("Search(%d) on %d workers returned a nil entry at call %d", k, w, c)
							return
						}
					}
					if len(r) != k {
						doneCh <- "wrong length"
						return
					}
				} else {
					r := p.Parallelize(k, func(i int) interface{} { return i + c })
					for i, v := range r {
						if v != interface{}(i+c) {
							doneCh <- fmt.Sprintf("Parallelize(%d) on %d workers: slot %d = %v at call %d", k, w, i, v, c)
							return
						}
					}
				}
			}
			doneCh <- ""
		}()
		select {
		case msg := <-doneCh:
			if msg != "" {
				fails = append(fails, failure{Case: fmt.Sprintf("stress workers=%d", w), What: "results", Detail: msg})
			}
		case <-time.After(30 * time.Second):
			fails = append(fails, failure{Case: fmt.Sprintf("stress workers=%d", w), What: "call-never-returns", Detail: fmt.Sprintf("%d consecutive instantaneous calls did not finish in 30 s (deadlock / lost workers)", calls)})
			return fails
		}
		_ = before
		p.TearDown()
	}
	return fails
}

func main() {
	hist := flag.String("hist", "", "file with one behaviour per line")
	workers := flag.String("workers", "w1,w2", "worker names")
	callsJ := flag.String("calls", "[]", "calls as JSON")
	out := flag.String("out", "", "summary output")
	stressN := flag.Int("stress", 0, "run the ungated stress with this many calls per pool size")
	seed := flag.Int64("seed", 0, "seed")
	flag.Parse()
	var fails []failure
	evals := 0
	steps := 0
	var samples []json.RawMessage
	if *stressN > 0 {
		fails = append(fails, stress(*seed, *stressN)...)
		evals += *stressN * 5
	}
	if *hist != "" {
		var calls []callSpec
		if err := json.Unmarshal([]byte(*callsJ), &calls); err != nil {
			fmt.Fprintln(os.Stderr, "bad calls", err)
			os.Exit(2)
		}
		ws := strings.Split(*workers, ",")
		f, err := os.Open(*hist)
		if err != nil {
			fmt.Fprintln(os.Stderr, err)
			os.Exit(2)
		}
		sc := bufio.NewScanner(f)
		sc.Buffer(make([]byte, 1<<20), 1<<26)
		for sc.Scan() {
			line := strings.TrimSpace(sc.Text())
			if line == "" {
				continue
			}
			var st []step
			if err := json.Unmarshal([]byte(line), &st); err != nil {
				fmt.Fprintln(os.Stderr, "bad history", err)
				os.Exit(2)
			}
			evals++
			steps += len(st)
			if len(samples) < 2 {
				short := st
				if len(short) > 8 {
					short = short[:8]
				}
				b, _ := json.Marshal(short)
				samples = append(samples, b)
			}
			what, detail, at := replay(ws, calls, st)
			if what != "" {
				fails = append(fails, failure{Case: line, What: what, Detail: detail, Step: at})
				if len(fails) >= 3 {
					break // every failing replay costs several timeouts; three witnesses are enough
				}
			}
		}
	}
	res := map[string]interface{}{"evaluations": evals, "steps": steps, "failures": fails, "samples": samples}
	b, _ := json.MarshalIndent(res, "", " ")
	if *out != "" {
		os.WriteFile(*out, b, 0o644)
	} else {
		fmt.Println(string(b))
	}
}
