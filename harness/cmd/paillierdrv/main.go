// paillierdrv - conformance driver for property C12 (Paillier and MtA exact on their full domain).
//
// Modes:
//
//	tiny     every row of the tables printed by Paillier.tla / MtA.tla for a tiny key is recomputed with the REAL
//	         paillier package (NewSecretKeyFromPrimes(tiny), both factor orders, CRT-accelerated and plain public keys)
//	         and compared entry by entry; an independent math/big Paillier is compared with the table as well
//	         (a disagreement there is a harness problem, not a verdict on the code).
//	lattice  the symbolic boundary lattice printed by Paillier.tla is instantiated on real 2048-bit keys; the
//	         specification supplies the class (ok/refused, exact/wraps, accept/reject), the math/big oracle the value.
//	mta      mta.ProveAffG / mta.ProveAffP on real keys over the scalar lattice printed by MtA.tla.
//
// The oracle (type okey) is textbook Paillier over math/big with lambda = lcm(p-1, q-1); it shares no code with /repo.
package main

import (
	"bufio"
	"crypto/rand"
	"crypto/sha256"
	"encoding/binary"
	"encoding/json"
	"flag"
	"fmt"
	"io"
	"math/big"
	"os"
	"runtime"
	"sort"
	"strings"
	"sync"
	"time"

	"github.com/cronokirby/saferith"
	"github.com/taurusgroup/multi-party-sig/internal/mta"
	"github.com/taurusgroup/multi-party-sig/pkg/hash"
	"github.com/taurusgroup/multi-party-sig/pkg/math/curve"
	"github.com/taurusgroup/multi-party-sig/pkg/paillier"
	"github.com/taurusgroup/multi-party-sig/pkg/pedersen"
	zkaffg "github.com/taurusgroup/multi-party-sig/pkg/zk/affg"
	zkaffp "github.com/taurusgroup/multi-party-sig/pkg/zk/affp"
)

// ------------------------------------------------------------------------------------------------
// deterministic randomness

type drbg struct {
	mu   sync.Mutex
	key  [32]byte
	ctr  uint64
	pend []byte
}

func newDRBG(label string) *drbg {
	return &drbg{key: sha256.Sum256([]byte(label))}
}

func (d *drbg) Read(p []byte) (int, error) {
	d.mu.Lock()
	defer d.mu.Unlock()
	n := 0
	for n < len(p) {
		if len(d.pend) == 0 {
			var b [40]byte
			copy(b[:], d.key[:])
			binary.BigEndian.PutUint64(b[32:], d.ctr)
			d.ctr++
			h := sha256.Sum256(b[:])
			d.pend = h[:]
		}
		c := copy(p[n:], d.pend)
		d.pend = d.pend[c:]
		n += c
	}
	return n, nil
}

func (d *drbg) below(n *big.Int) *big.Int {
	buf := make([]byte, (n.BitLen()+7)/8+8)
	_, _ = d.Read(buf)
	return new(big.Int).Mod(new(big.Int).SetBytes(buf), n)
}

func (d *drbg) unit(n *big.Int) *big.Int {
	for {
		x := d.below(n)
		if x.Sign() > 0 && new(big.Int).GCD(nil, nil, x, n).Cmp(one) == 0 {
			return x
		}
	}
}

var (
	zero = big.NewInt(0)
	one  = big.NewInt(1)
	two  = big.NewInt(2)
)

func bi(x int64) *big.Int { return big.NewInt(x) }

// ------------------------------------------------------------------------------------------------
// the independent oracle: textbook Paillier over math/big

type okey struct {
	p, q, n, n2, half, lam, mu, ninv *big.Int
	bits                             int
}

func newOKey(p, q *big.Int) (*okey, error) {
	k := &okey{p: p, q: q}
	k.n = new(big.Int).Mul(p, q)
	k.n2 = new(big.Int).Mul(k.n, k.n)
	k.half = new(big.Int).Rsh(new(big.Int).Sub(k.n, one), 1)
	p1 := new(big.Int).Sub(p, one)
	q1 := new(big.Int).Sub(q, one)
	g := new(big.Int).GCD(nil, nil, p1, q1)
	k.lam = new(big.Int).Div(new(big.Int).Mul(p1, q1), g)
	k.mu = new(big.Int).ModInverse(k.lam, k.n)
	k.ninv = new(big.Int).ModInverse(k.n, k.lam)
	if k.mu == nil || k.ninv == nil {
		return nil, fmt.Errorf("gcd(N, lambda) != 1 for p=%v q=%v", p, q)
	}
	k.bits = k.n.BitLen()
	return k, nil
}

func (k *okey) sym(x *big.Int) *big.Int {
	y := new(big.Int).Mod(x, k.n)
	if y.Cmp(k.half) > 0 {
		y.Sub(y, k.n)
	}
	return y
}

func (k *okey) inRange(m *big.Int) bool { return new(big.Int).Abs(m).Cmp(k.half) <= 0 }

// enc = (1 + m*N) * r^N mod N^2  (closed form of (1+N)^m, established by the specification's ClosedForm assumption
// and re-checked against big.Exp once per key in selfCheck).
func (k *okey) enc(m, r *big.Int) *big.Int {
	a := new(big.Int).Mod(m, k.n)
	a.Mul(a, k.n).Add(a, one).Mod(a, k.n2)
	b := new(big.Int).Exp(r, k.n, k.n2)
	return a.Mul(a, b).Mod(a, k.n2)
}

func (k *okey) dec(c *big.Int) *big.Int {
	u := new(big.Int).Exp(c, k.lam, k.n2)
	u.Sub(u, one).Div(u, k.n)
	u.Mul(u, k.mu)
	return k.sym(u)
}

func (k *okey) rnd(c *big.Int) *big.Int {
	return new(big.Int).Exp(new(big.Int).Mod(c, k.n), k.ninv, k.n)
}

func (k *okey) valid(c *big.Int) bool {
	return c.Sign() > 0 && c.Cmp(k.n2) < 0 && new(big.Int).GCD(nil, nil, c, k.n).Cmp(one) == 0
}

func (k *okey) add(c1, c2 *big.Int) *big.Int {
	return new(big.Int).Mod(new(big.Int).Mul(c1, c2), k.n2)
}

func (k *okey) mul(c, e *big.Int) *big.Int {
	if e.Sign() >= 0 {
		return new(big.Int).Exp(c, e, k.n2)
	}
	inv := new(big.Int).ModInverse(c, k.n2)
	return new(big.Int).Exp(inv, new(big.Int).Neg(e), k.n2)
}

func (k *okey) selfCheck() error {
	m := new(big.Int).Sub(k.half, bi(3))
	e1 := new(big.Int).Exp(new(big.Int).Add(k.n, one), new(big.Int).Mod(new(big.Int).Neg(m), k.n), k.n2)
	e2 := k.enc(new(big.Int).Neg(m), one)
	if e1.Cmp(e2) != 0 {
		return fmt.Errorf("oracle closed form of (1+N)^m is wrong")
	}
	c := k.enc(new(big.Int).Neg(m), two)
	if k.dec(c).Cmp(new(big.Int).Neg(m)) != 0 || k.rnd(c).Cmp(two) != 0 {
		return fmt.Errorf("oracle does not round-trip")
	}
	return nil
}

// ------------------------------------------------------------------------------------------------
// adapter to the real package

type lkey struct {
	name string
	sk   *paillier.SecretKey
	pks  map[string]*paillier.PublicKey // "crt" (from the secret key, CRT accelerated), "plain" (from N only)
	o    *okey
}

var variants = []string{"crt", "plain"}

func natOf(b *big.Int) *saferith.Nat {
	return new(saferith.Nat).SetBig(b, b.BitLen())
}

func intOf(b *big.Int) *saferith.Int {
	return new(saferith.Int).SetBig(b, b.BitLen())
}

func newLKey(name string, p, q *big.Int) (*lkey, error) {
	o, err := newOKey(p, q)
	if err != nil {
		return nil, err
	}
	k := &lkey{name: name, o: o, pks: map[string]*paillier.PublicKey{}}
	var perr interface{}
	func() {
		defer func() { perr = recover() }()
		k.sk = paillier.NewSecretKeyFromPrimes(natOf(p), natOf(q))
		k.pks["crt"] = k.sk.PublicKey
		k.pks["plain"] = paillier.NewPublicKey(saferith.ModulusFromNat(natOf(o.n)))
	}()
	if perr != nil {
		return nil, fmt.Errorf("NewSecretKeyFromPrimes(%v, %v) panicked: %v", p, q, perr)
	}
	return k, nil
}

func ctOf(c *big.Int) *paillier.Ciphertext {
	ct := new(paillier.Ciphertext)
	_ = ct.UnmarshalBinary(c.Bytes())
	return ct
}

func ctBig(ct *paillier.Ciphertext) *big.Int { return ct.Nat().Big() }

func try(f func()) (msg string, panicked bool) {
	defer func() {
		if r := recover(); r != nil {
			panicked = true
			msg = fmt.Sprint(r)
		}
	}()
	f()
	return
}

// libEnc: EncWithNonce; refused = it panicked (the documented way the package refuses a plaintext).
func libEnc(pk *paillier.PublicKey, m, r *big.Int) (c *big.Int, refused bool, msg string) {
	msg, refused = try(func() { c = ctBig(pk.EncWithNonce(intOf(m), natOf(r))) })
	return
}

func libDec(sk *paillier.SecretKey, c *big.Int) (m *big.Int, err error) {
	msg, p := try(func() {
		var mi *saferith.Int
		mi, err = sk.Dec(ctOf(c))
		if err == nil {
			m = mi.Big()
		}
	})
	if p {
		return nil, fmt.Errorf("PANIC: %s", msg)
	}
	return
}

func libDecR(sk *paillier.SecretKey, c *big.Int) (m, r *big.Int, err error) {
	msg, p := try(func() {
		var mi *saferith.Int
		var ri *saferith.Nat
		mi, ri, err = sk.DecWithRandomness(ctOf(c))
		if err == nil {
			m, r = mi.Big(), ri.Big()
		}
	})
	if p {
		return nil, nil, fmt.Errorf("PANIC: %s", msg)
	}
	return
}

func libAdd(pk *paillier.PublicKey, c1, c2 *big.Int) (c *big.Int, msg string, p bool) {
	msg, p = try(func() { c = ctBig(ctOf(c1).Add(pk, ctOf(c2))) })
	return
}

func libMul(pk *paillier.PublicKey, c1, k *big.Int) (c *big.Int, msg string, p bool) {
	msg, p = try(func() { c = ctBig(ctOf(c1).Mul(pk, intOf(k))) })
	return
}

func libValid(pk *paillier.PublicKey, c *big.Int) (ok bool, msg string, p bool) {
	msg, p = try(func() { ok = pk.ValidateCiphertexts(ctOf(c)) })
	return
}

// ------------------------------------------------------------------------------------------------
// result collection

type failure struct {
	Op     string                 `json:"op"`
	Class  string                 `json:"class"`
	Key    string                 `json:"key"`
	Detail map[string]interface{} `json:"detail"`
}

type result struct {
	mu              sync.Mutex
	Mode            string         `json:"mode"`
	Evaluations     int            `json:"evaluations"`
	Confirmed       int            `json:"confirmed"`
	Cases           int            `json:"cases"`
	CasesConfirmed  int            `json:"cases_confirmed"`
	Failures        []failure      `json:"failures"`
	FailureCount    int            `json:"failure_count"`
	OracleMismatch  []failure      `json:"oracle_mismatch"`
	ClassDisagree   []failure      `json:"class_disagree"`
	ByOp            map[string]int `json:"by_op"`
	Oddities        map[string]int `json:"oddities"`
	Samples         []interface{}  `json:"samples"`
	Notes           []string       `json:"notes"`
	Keys            []string       `json:"keys"`
	WallS           float64        `json:"wall_s"`
	perClassFailure map[string]int
}

func newResult(mode string) *result {
	return &result{Mode: mode, ByOp: map[string]int{}, Oddities: map[string]int{}, perClassFailure: map[string]int{}, Failures: []failure{},
		OracleMismatch: []failure{}, ClassDisagree: []failure{}, Samples: []interface{}{}, Notes: []string{}}
}

type D = map[string]interface{}

// check records one comparison of the real code against the expectation.
func (r *result) check(ok bool, op, class, key string, detail func() D) bool {
	r.mu.Lock()
	defer r.mu.Unlock()
	r.Evaluations++
	r.ByOp[op]++
	if ok {
		r.Confirmed++
		return true
	}
	r.FailureCount++
	t := op + "/" + class
	r.perClassFailure[t]++
	if r.perClassFailure[t] <= 5 {
		r.Failures = append(r.Failures, failure{Op: op, Class: class, Key: key, Detail: detail()})
	}
	return false
}

func (r *result) oracle(ok bool, op, key string, detail func() D) {
	if ok {
		return
	}
	r.mu.Lock()
	defer r.mu.Unlock()
	if len(r.OracleMismatch) < 20 {
		r.OracleMismatch = append(r.OracleMismatch, failure{Op: op, Class: "oracle-vs-spec", Key: key, Detail: detail()})
	}
}

func (r *result) caseDone(ok bool) {
	r.mu.Lock()
	r.Cases++
	if ok {
		r.CasesConfirmed++
	}
	r.mu.Unlock()
}

func (r *result) sample(s interface{}, limit int) {
	r.mu.Lock()
	if len(r.Samples) < limit {
		r.Samples = append(r.Samples, s)
	}
	r.mu.Unlock()
}

func (r *result) count(what string) {
	r.mu.Lock()
	r.Oddities[what]++
	r.mu.Unlock()
}

func (r *result) note(f string, a ...interface{}) {
	r.mu.Lock()
	r.Notes = append(r.Notes, fmt.Sprintf(f, a...))
	r.mu.Unlock()
}

func s(b *big.Int) string {
	if b == nil {
		return "nil"
	}
	t := b.String()
	if len(t) > 70 {
		return "0x" + b.Text(16)
	}
	return t
}

// short form for samples
func sh(b *big.Int) string {
	if b == nil {
		return "nil"
	}
	t := b.Text(16)
	if len(t) > 24 {
		return fmt.Sprintf("0x%s...(%d bits, sign %d)", strings.TrimPrefix(t, "-")[:16], b.BitLen(), b.Sign())
	}
	return b.String()
}

func eq(a, b *big.Int) bool { return a != nil && b != nil && a.Cmp(b) == 0 }

// ------------------------------------------------------------------------------------------------
// tiny mode

type tinyHeader struct {
	P, Q, SP, SQ int64
}

type tinyRow struct {
	Kind   string  `json:"kind"`
	M      int64   `json:"m"`
	R      int64   `json:"r"`
	C      int64   `json:"c"`
	Dec    int64   `json:"dec"`
	Rand   int64   `json:"rand"`
	Class  string  `json:"class"`
	M1     int64   `json:"m1"`
	R1     int64   `json:"r1"`
	R2     int64   `json:"r2"`
	Lo     int64   `json:"lo"`
	Cs     []int64 `json:"cs"`
	Ds     []int64 `json:"ds"`
	Rs     []int64 `json:"rs"`
	Exact  []int64 `json:"exact"`
	Valid  []int64 `json:"valid"`
	A      int64   `json:"a"`
	Beta   int64   `json:"beta"`
	Rk     int64   `json:"rk"`
	S      int64   `json:"s"`
	Sr     int64   `json:"sr"`
	F      int64   `json:"f"`
	Alphas []int64 `json:"alphas"`
}

func readLines(path string, each func(line []byte) error) error {
	f, err := os.Open(path)
	if err != nil {
		return err
	}
	defer f.Close()
	sc := bufio.NewScanner(f)
	sc.Buffer(make([]byte, 1<<20), 1<<28)
	for sc.Scan() {
		b := sc.Bytes()
		if len(strings.TrimSpace(string(b))) == 0 {
			continue
		}
		if err := each(append([]byte(nil), b...)); err != nil {
			return err
		}
	}
	return sc.Err()
}

func runTiny(files []string, seed int64, res *result) error {
	for _, path := range files {
		var hdr *tinyHeader
		var rows []tinyRow
		err := readLines(path, func(line []byte) error {
			if hdr == nil {
				hdr = &tinyHeader{}
				return json.Unmarshal(line, hdr)
			}
			var r tinyRow
			if err := json.Unmarshal(line, &r); err != nil {
				return err
			}
			rows = append(rows, r)
			return nil
		})
		if err != nil {
			return fmt.Errorf("%s: %v", path, err)
		}
		if hdr == nil || hdr.P == 0 {
			return fmt.Errorf("%s: no header", path)
		}
		// both factor orders: the CRT code treats p and q asymmetrically
		for _, ord := range [][2]int64{{hdr.P, hdr.Q}, {hdr.Q, hdr.P}} {
			name := fmt.Sprintf("tiny %dx%d", ord[0], ord[1])
			k, err := newLKey(name, bi(ord[0]), bi(ord[1]))
			if err != nil {
				return err
			}
			var sender *lkey
			if hdr.SP != 0 {
				if sender, err = newLKey(fmt.Sprintf("tiny-sender %dx%d", hdr.SP, hdr.SQ), bi(hdr.SP), bi(hdr.SQ)); err != nil {
					return err
				}
			}
			res.Keys = append(res.Keys, name)
			rand.Reader = newDRBG(fmt.Sprintf("tiny/%d/%s", seed, name))
			tinyKey(k, sender, rows, res)
		}
	}
	return nil
}

func tinyKey(k *lkey, sender *lkey, rows []tinyRow, res *result) {
	o := k.o
	// the specification's Enc table, for lookups (Randomize, Enc with a library-chosen nonce)
	encTab := map[[2]int64]int64{}
	for _, r := range rows {
		if r.Kind == "enc" {
			encTab[[2]int64{r.M, r.R}] = r.C
		}
	}
	n := o.n.Int64()
	// Enc with a nonce chosen by the library (drawn from the seeded rand.Reader): sequential, once per plaintext and variant.
	// The returned nonce is a unit but NOT necessarily reduced below N (sample.UnitModN draws whole bytes); the ciphertext
	// must be the table entry for (m, nonce mod N).
	encSeen := map[int64]bool{}
	for i := range rows {
		r := &rows[i]
		if r.Kind != "enc" || encSeen[r.M] {
			continue
		}
		encSeen[r.M] = true
		for _, v := range variants {
			var ct *paillier.Ciphertext
			var nonce *saferith.Nat
			msg, p := try(func() { ct, nonce = k.pks[v].Enc(intOf(bi(r.M))) })
			res.check(!p, "Enc", "refused-in-range", k.name, func() D { return D{"variant": v, "m": r.M, "panic": msg} })
			if !p {
				nb := nonce.Big()
				if nb.Cmp(o.n) >= 0 {
					res.count("Enc returned a nonce >= N (not reduced; harmless: same ciphertext as nonce mod N)")
				}
				want, have := encTab[[2]int64{r.M, new(big.Int).Mod(nb, o.n).Int64()}]
				res.check(have && eq(ctBig(ct), bi(want)), "Enc", "value", k.name, func() D {
					return D{"variant": v, "m": r.M, "nonce": s(nb), "nonce_is_unit": have, "want": want, "got": s(ctBig(ct))}
				})
			}
		}
	}
	var jobs []func()
	for i := range rows {
		r := &rows[i]
		jobs = append(jobs, func() { tinyRowCheck(k, sender, r, encTab, n, res) })
	}
	parallel(jobs)
}

func tinyRowCheck(k *lkey, sender *lkey, r *tinyRow, encTab map[[2]int64]int64, n int64, res *result) {
	o := k.o
	{
		okCase := true
		ck := func(ok bool, op, class string, d func() D) {
			if !res.check(ok, op, class, k.name, d) {
				okCase = false
			}
		}
		switch r.Kind {
		case "enc":
			m, rr, c := bi(r.M), bi(r.R), bi(r.C)
			res.oracle(eq(o.enc(m, rr), c) && eq(o.dec(c), bi(r.Dec)) && eq(o.rnd(c), bi(r.Rand)) && o.valid(c), "enc", k.name,
				func() D { return D{"m": r.M, "r": r.R, "table_c": r.C, "oracle_c": s(o.enc(m, rr))} })
			for _, v := range variants {
				got, refused, msg := libEnc(k.pks[v], m, rr)
				ck(!refused, "EncWithNonce", "refused-in-range", func() D { return D{"variant": v, "m": r.M, "r": r.R, "panic": msg} })
				if !refused {
					ck(eq(got, c), "EncWithNonce", "value", func() D { return D{"variant": v, "m": r.M, "r": r.R, "want": r.C, "got": s(got)} })
				}
				okv, msg, p := libValid(k.pks[v], c)
				ck(!p && okv, "ValidateCiphertexts", "rejects-valid", func() D { return D{"variant": v, "c": r.C, "panic": msg} })
				// Randomize: c * s^N = Enc(m, r*s)
				for _, sn := range []int64{2, n - 1} {
					want, have := encTab[[2]int64{r.M, (r.R * sn) % n}]
					if !have {
						continue
					}
					ct := ctOf(c)
					msg, p := try(func() { ct.Randomize(k.pks[v], natOf(bi(sn))) })
					ck(!p && eq(ctBig(ct), bi(want)), "Randomize", "value", func() D {
						return D{"variant": v, "m": r.M, "r": r.R, "nonce": sn, "want": want, "got": s(ctBig(ct)), "panic": msg}
					})
				}
			}
			// Clone yields an independent value (the specification's operations are functions of values): operating on the
			// clone - Add, Mul, Randomize all work in place - must leave the original ciphertext as it was
			for _, v := range variants {
				orig := ctOf(c)
				other := ctOf(c)
				msg, p := try(func() {
					orig.Clone().Add(k.pks[v], other)
					orig.Clone().Mul(k.pks[v], intOf(bi(2)))
					orig.Clone().Randomize(k.pks[v], natOf(bi(2)))
				})
				ck(!p && eq(ctBig(orig), c) && eq(ctBig(other), c), "Clone", "aliases-original", func() D {
					return D{"variant": v, "c": r.C, "after": s(ctBig(orig)), "operand_after": s(ctBig(other)), "panic": msg}
				})
			}
			d, err := libDec(k.sk, c)
			ck(err == nil, "Dec", "error-on-valid", func() D { return D{"c": r.C, "err": fmt.Sprint(err)} })
			if err == nil {
				ck(eq(d, bi(r.Dec)), "Dec", "value", func() D { return D{"c": r.C, "m": r.M, "r": r.R, "want": r.Dec, "got": s(d)} })
			}
			d2, r2, err := libDecR(k.sk, c)
			ck(err == nil, "DecWithRandomness", "error-on-valid", func() D { return D{"c": r.C, "err": fmt.Sprint(err)} })
			if err == nil {
				ck(eq(d2, bi(r.Dec)) && eq(r2, bi(r.Rand)), "DecWithRandomness", "value", func() D {
					return D{"c": r.C, "want_m": r.Dec, "want_r": r.Rand, "got_m": s(d2), "got_r": s(r2)}
				})
				back, refused, msg := libEnc(k.pks["crt"], d2, r2)
				ck(!refused && eq(back, c), "DecWithRandomness", "does-not-reencrypt", func() D {
					return D{"c": r.C, "got_m": s(d2), "got_r": s(r2), "reenc": s(back), "panic": msg}
				})
			}
			res.sample(D{"kind": "tiny enc row confirmed", "key": k.name, "m": r.M, "r": r.R, "c": r.C}, 1)
		case "ref":
			m, rr := bi(r.M), bi(r.R)
			res.oracle(!o.inRange(m) && r.Class == "refused", "ref", k.name, func() D { return D{"m": r.M} })
			for _, v := range variants {
				got, refused, _ := libEnc(k.pks[v], m, rr)
				ck(refused, "EncWithNonce", "accepts-out-of-range", func() D { return D{"variant": v, "m": r.M, "r": r.R, "returned": s(got)} })
				if r.R == 1 {
					var ct *paillier.Ciphertext
					_, p := try(func() { ct, _ = k.pks[v].Enc(intOf(m)) })
					ck(p, "Enc", "accepts-out-of-range", func() D { return D{"variant": v, "m": r.M, "returned": s(ctBig(ct))} })
				}
			}
		case "add":
			c1 := o.enc(bi(r.M1), bi(r.R1))
			for j := range r.Cs {
				m2 := r.Lo + int64(j)
				c2 := o.enc(bi(m2), bi(r.R2))
				want := bi(r.Cs[j])
				res.oracle(eq(o.add(c1, c2), want) && eq(o.dec(want), bi(r.Ds[j])) && (o.inRange(bi(r.M1+m2)) == (r.Exact[j] == 1)), "add", k.name,
					func() D { return D{"m1": r.M1, "m2": m2, "table": r.Cs[j], "oracle": s(o.add(c1, c2))} })
				for _, v := range variants {
					got, msg, p := libAdd(k.pks[v], c1, c2)
					ck(!p && eq(got, want), "Add", "value", func() D {
						return D{"variant": v, "m1": r.M1, "r1": r.R1, "m2": m2, "r2": r.R2, "want": r.Cs[j], "got": s(got), "panic": msg}
					})
				}
				d, err := libDec(k.sk, want)
				ck(err == nil && eq(d, bi(r.Ds[j])), "Dec", "after-add", func() D {
					return D{"m1": r.M1, "m2": m2, "c": r.Cs[j], "want": r.Ds[j], "got": s(d), "err": fmt.Sprint(err)}
				})
				if r.Exact[j] == 1 {
					ck(err == nil && eq(d, bi(r.M1+m2)), "Add", "integer-sum", func() D { return D{"m1": r.M1, "m2": m2, "got": s(d)} })
				}
			}
		case "mul":
			c1 := o.enc(bi(r.M), bi(r.R))
			for j := range r.Cs {
				kk := r.Lo + int64(j)
				want := bi(r.Cs[j])
				res.oracle(eq(o.mul(c1, bi(kk)), want) && eq(o.dec(want), bi(r.Ds[j])) && (o.inRange(bi(r.M*kk)) == (r.Exact[j] == 1)), "mul", k.name,
					func() D { return D{"m": r.M, "k": kk, "table": r.Cs[j], "oracle": s(o.mul(c1, bi(kk)))} })
				for _, v := range variants {
					got, msg, p := libMul(k.pks[v], c1, bi(kk))
					ck(!p && eq(got, want), "Mul", "value", func() D {
						return D{"variant": v, "m": r.M, "r": r.R, "k": kk, "want": r.Cs[j], "got": s(got), "panic": msg}
					})
				}
				d, err := libDec(k.sk, want)
				ck(err == nil && eq(d, bi(r.Ds[j])), "Dec", "after-mul", func() D {
					return D{"m": r.M, "k": kk, "c": r.Cs[j], "want": r.Ds[j], "got": s(d), "err": fmt.Sprint(err)}
				})
				if r.Exact[j] == 1 {
					ck(err == nil && eq(d, bi(r.M*kk)), "Mul", "integer-product", func() D { return D{"m": r.M, "k": kk, "got": s(d)} })
				}
			}
		case "val":
			for j := range r.Valid {
				c := bi(r.Lo + int64(j))
				want := r.Valid[j] == 1
				res.oracle(o.valid(c) == want, "val", k.name, func() D { return D{"c": s(c), "table": want} })
				for _, v := range variants {
					got, msg, p := libValid(k.pks[v], c)
					cls := "accepts-invalid"
					if want {
						cls = "rejects-valid"
					}
					ck(!p && got == want, "ValidateCiphertexts", cls, func() D { return D{"variant": v, "c": s(c), "want": want, "got": got, "panic": msg} })
				}
				d, err := libDec(k.sk, c)
				if want {
					ck(err == nil && eq(d, bi(r.Ds[j])), "Dec", "value", func() D { return D{"c": s(c), "want": r.Ds[j], "got": s(d), "err": fmt.Sprint(err)} })
					_, rr, err := libDecR(k.sk, c)
					ck(err == nil && eq(rr, bi(r.Rs[j])), "DecWithRandomness", "value", func() D { return D{"c": s(c), "want_r": r.Rs[j], "got_r": s(rr), "err": fmt.Sprint(err)} })
				} else {
					ck(err != nil && !strings.HasPrefix(fmt.Sprint(err), "PANIC"), "Dec", "accepts-invalid", func() D { return D{"c": s(c), "got": s(d), "err": fmt.Sprint(err)} })
					_, _, err := libDecR(k.sk, c)
					ck(err != nil && !strings.HasPrefix(fmt.Sprint(err), "PANIC"), "DecWithRandomness", "accepts-invalid", func() D { return D{"c": s(c), "err": fmt.Sprint(err)} })
				}
			}
		case "mta":
			// composed exactly as internal/mta.newMta composes it: D = Enc(-beta; s).Add(K.Clone().Mul(a))
			a, beta := bi(r.A), bi(r.Beta)
			nb := new(big.Int).Neg(beta)
			for _, v := range variants {
				pk := k.pks[v]
				for j := range r.Ds {
					b := r.Lo + int64(j)
					var dBig *big.Int
					msg, p := try(func() {
						K := pk.EncWithNonce(intOf(bi(b)), natOf(bi(r.Rk)))
						Dct := pk.EncWithNonce(intOf(nb), natOf(bi(r.S)))
						tmp := K.Clone().Mul(pk, intOf(a))
						Dct.Add(pk, tmp)
						dBig = ctBig(Dct)
					})
					if v == "crt" {
						od := o.add(o.enc(nb, bi(r.S)), o.mul(o.enc(bi(b), bi(r.Rk)), a))
						res.oracle(eq(od, bi(r.Ds[j])) && eq(o.dec(od), bi(r.Alphas[j])), "mta", k.name, func() D { return D{"a": r.A, "b": b, "beta": r.Beta, "oracle": s(od), "table": r.Ds[j]} })
					}
					ck(!p && eq(dBig, bi(r.Ds[j])), "MtA", "D-value", func() D {
						return D{"variant": v, "a": r.A, "b": b, "beta": r.Beta, "rk": r.Rk, "s": r.S, "want": r.Ds[j], "got": s(dBig), "panic": msg}
					})
					if v != "crt" || p {
						continue
					}
					alpha, err := libDec(k.sk, dBig)
					ck(err == nil && eq(alpha, bi(r.Alphas[j])), "MtA", "alpha-value", func() D {
						return D{"a": r.A, "b": b, "beta": r.Beta, "want": r.Alphas[j], "got": s(alpha), "err": fmt.Sprint(err)}
					})
					if err == nil {
						sum := new(big.Int).Add(alpha, beta)
						exactGot := sum.Cmp(bi(r.A*b)) == 0
						ck(exactGot == (r.Exact[j] == 1), "MtA", "alpha+beta-vs-ab", func() D {
							return D{"a": r.A, "b": b, "beta": r.Beta, "alpha": s(alpha), "spec_exact": r.Exact[j]}
						})
					}
				}
			}
			if sender != nil {
				fgot, refused, msg := libEnc(sender.pks["crt"], nb, bi(r.Sr))
				ck(!refused && eq(fgot, bi(r.F)), "MtA", "F-value", func() D { return D{"beta": r.Beta, "sr": r.Sr, "want": r.F, "got": s(fgot), "panic": msg} })
				fd, err := libDec(sender.sk, bi(r.F))
				ck(err == nil && eq(fd, nb), "MtA", "F-decrypt", func() D { return D{"beta": r.Beta, "got": s(fd), "err": fmt.Sprint(err)} })
			}
			res.sample(D{"kind": "tiny MtA row confirmed", "key": k.name, "a": r.A, "beta": r.Beta, "b_from": r.Lo, "alphas": r.Alphas}, 3)
		default:
			return
		}
		res.caseDone(okCase)
	}
}

// ------------------------------------------------------------------------------------------------
// lattice mode (real keys)

type term struct {
	T    string `json:"t"`
	A    int64  `json:"a"`
	B    int64  `json:"b"`
	Name string `json:"name"`
	Tiny int64  `json:"tiny"`
}

func (t term) String() string {
	switch t.T {
	case "lin":
		switch {
		case t.A == 0:
			return fmt.Sprint(t.B)
		case t.B == 0:
			return fmt.Sprintf("%d*half", t.A)
		default:
			return fmt.Sprintf("%d*half%+d", t.A, t.B)
		}
	case "pow":
		return fmt.Sprintf("%d*2^(bits-%d)", t.A, t.B)
	case "div":
		return fmt.Sprintf("half/%d%+d", t.A, t.B)
	case "ndiv":
		return fmt.Sprintf("-(half/%d%+d)", t.A, t.B)
	}
	return t.Name
}

type latCase struct {
	Op        string `json:"op"`
	X         term   `json:"x"`
	Y         term   `json:"y"`
	Class     string `json:"class"`
	Unanimous bool   `json:"unanimous"`
}

func termVal(t term, o *okey) (*big.Int, error) {
	switch t.T {
	case "lin":
		v := new(big.Int).Mul(bi(t.A), o.half)
		return v.Add(v, bi(t.B)), nil
	case "pow":
		v := new(big.Int).Lsh(one, uint(o.bits-int(t.B)))
		return v.Mul(v, bi(t.A)), nil
	case "div":
		v := new(big.Int).Div(o.half, bi(t.A))
		return v.Add(v, bi(t.B)), nil
	case "ndiv":
		v := new(big.Int).Div(o.half, bi(t.A))
		return v.Add(v, bi(t.B)).Neg(v), nil
	case "cand":
		n, n2, p, q := o.n, o.n2, o.p, o.q
		sub := func(a, b *big.Int) *big.Int { return new(big.Int).Sub(a, b) }
		add := func(a, b *big.Int) *big.Int { return new(big.Int).Add(a, b) }
		mul := func(a, b *big.Int) *big.Int { return new(big.Int).Mul(a, b) }
		switch t.Name {
		case "0":
			return bi(0), nil
		case "1":
			return bi(1), nil
		case "2":
			return bi(2), nil
		case "N-1":
			return sub(n, one), nil
		case "N":
			return n, nil
		case "N+1":
			return add(n, one), nil
		case "P":
			return p, nil
		case "Q":
			return q, nil
		case "2P":
			return mul(two, p), nil
		case "2Q":
			return mul(two, q), nil
		case "P^2":
			return mul(p, p), nil
		case "Q^2":
			return mul(q, q), nil
		case "P*N":
			return mul(p, n), nil
		case "Q*N":
			return mul(q, n), nil
		case "N^2-N":
			return sub(n2, n), nil
		case "N^2-P":
			return sub(n2, p), nil
		case "N^2-Q":
			return sub(n2, q), nil
		case "N^2-2":
			return sub(n2, two), nil
		case "N^2-1":
			return sub(n2, one), nil
		case "N^2":
			return n2, nil
		case "N^2+1":
			return add(n2, one), nil
		case "N^2+2":
			return add(n2, two), nil
		case "N^2+P":
			return add(n2, p), nil
		case "N^2+N":
			return add(n2, n), nil
		case "2N^2-1":
			return sub(mul(two, n2), one), nil
		case "2N^2+1":
			return add(mul(two, n2), one), nil
		}
	}
	return nil, fmt.Errorf("unknown term %+v", t)
}

func loadPrimes(path string) ([]*big.Int, error) {
	raw, err := os.ReadFile(path)
	if err != nil {
		return nil, err
	}
	var hexes []string
	if err := json.Unmarshal(raw, &hexes); err != nil {
		return nil, err
	}
	var out []*big.Int
	for _, h := range hexes {
		b, ok := new(big.Int).SetString(h, 16)
		if !ok {
			return nil, fmt.Errorf("bad prime")
		}
		out = append(out, b)
	}
	if len(out) < 4 {
		return nil, fmt.Errorf("need at least 4 primes")
	}
	return out, nil
}

// realKey i: fixture primes (2i, 2i+1) rotated by the seed.
func realKey(primes []*big.Int, i int, seed int64) (*lkey, error) {
	np := len(primes) / 2
	j := (i + int(seed%int64(np)) + np) % np
	k, err := newLKey(fmt.Sprintf("real#%d", j), primes[2*j], primes[2*j+1])
	if err != nil {
		return nil, err
	}
	if err := k.o.selfCheck(); err != nil {
		return nil, err
	}
	return k, nil
}

func parallel(jobs []func()) {
	w := runtime.NumCPU()
	ch := make(chan func())
	var wg sync.WaitGroup
	for i := 0; i < w; i++ {
		wg.Add(1)
		go func() {
			defer wg.Done()
			for j := range ch {
				j()
			}
		}()
	}
	for _, j := range jobs {
		ch <- j
	}
	close(ch)
	wg.Wait()
}

func runLattice(casesPath, primesPath string, nkeys int, seed int64, frac int, res *result) error {
	var cases []latCase
	if err := readLines(casesPath, func(line []byte) error {
		var c latCase
		if err := json.Unmarshal(line, &c); err != nil {
			return err
		}
		cases = append(cases, c)
		return nil
	}); err != nil {
		return err
	}
	primes, err := loadPrimes(primesPath)
	if err != nil {
		return err
	}
	var jobs []func()
	var seqs []func()
	for ki := 0; ki < nkeys; ki++ {
		k, err := realKey(primes, ki, seed)
		if err != nil {
			return err
		}
		res.Keys = append(res.Keys, k.name)
		j, sq := latticeKey(k, cases, seed, ki, frac, res)
		jobs = append(jobs, j...)
		seqs = append(seqs, sq)
	}
	// the calls that draw from rand.Reader (Enc with a library-chosen nonce) run in ONE goroutine, key after key, so the
	// stream each key sees is fixed by the seed; everything else is deterministic and runs on all cores next to it
	var wg sync.WaitGroup
	wg.Add(1)
	go func() {
		defer wg.Done()
		for _, sq := range seqs {
			sq()
		}
	}()
	parallel(jobs)
	wg.Wait()
	return nil
}

func latticeKey(k *lkey, cases []latCase, seed int64, ki int, frac int, res *result) ([]func(), func()) {
	o := k.o
	dr := newDRBG(fmt.Sprintf("lattice/%d/%s", seed, k.name))

	// ValidateN on the modulus and its neighbours: accepted iff 2048 bits and odd
	{
		type vn struct {
			name string
			n    *big.Int
		}
		p2047 := new(big.Int).Lsh(one, 2047)
		p2048 := new(big.Int).Lsh(one, 2048)
		for _, c := range []vn{{"N", o.n}, {"N>>1|1", new(big.Int).Or(new(big.Int).Rsh(o.n, 1), one)}, {"N+1", new(big.Int).Add(o.n, one)},
			{"2^2047+1", new(big.Int).Add(p2047, one)}, {"2^2047-1", new(big.Int).Sub(p2047, one)},
			{"2^2048+1", new(big.Int).Add(p2048, one)}, {"2^2048-1", new(big.Int).Sub(p2048, one)}} {
			want := c.n.BitLen() == 2048 && c.n.Bit(0) == 1
			var err error
			msg, p := try(func() { err = paillier.ValidateN(saferith.ModulusFromNat(natOf(c.n))) })
			res.check(!p && (err == nil) == want, "ValidateN", "class", k.name, func() D {
				return D{"n": c.name, "bits": c.n.BitLen(), "want_accept": want, "err": fmt.Sprint(err), "panic": msg}
			})
		}
		err := paillier.ValidateN(nil)
		res.check(err != nil, "ValidateN", "nil-accepted", k.name, func() D { return D{} })
	}

	// one oracle ciphertext per in-range plaintext term, with its own random nonce
	type encd struct {
		m, r, c *big.Int
	}
	var mu sync.Mutex
	encs := map[string]*encd{}
	nonceFor := map[string]*big.Int{}
	for _, c := range cases {
		if c.Op == "add" || c.Op == "mul" {
			for _, t := range []term{c.X, c.Y} {
				if _, ok := nonceFor[t.String()]; !ok {
					nonceFor[t.String()] = dr.unit(o.n)
				}
			}
		}
	}
	rndNonce := dr.unit(o.n)
	getEnc := func(t term) *encd {
		key := t.String()
		mu.Lock()
		e := encs[key]
		mu.Unlock()
		if e != nil {
			return e
		}
		m, _ := termVal(t, o)
		r := nonceFor[key]
		e = &encd{m: m, r: r, c: o.enc(m, r)}
		mu.Lock()
		encs[key] = e
		mu.Unlock()
		return e
	}

	var jobs []func()
	var seq []func() // library calls that draw from rand.Reader stay sequential (deterministic)
	for ci := range cases {
		c := cases[ci]
		// sub-sampling of the quadratic parts in the quick tier: keep every case whose class was decided unanimously
		// on a boundary (all enc / val cases) and a deterministic 1/frac of the add / mul pairs per key
		if frac > 1 && (c.Op == "add" || c.Op == "mul") && (ci+ki)%frac != 0 {
			continue
		}
		x, err := termVal(c.X, o)
		if err != nil {
			res.note("skipped case: %v", err)
			continue
		}
		y, err := termVal(c.Y, o)
		if err != nil {
			res.note("skipped case: %v", err)
			continue
		}
		desc := func() D {
			return D{"op": c.Op, "x": c.X.String(), "y": c.Y.String(), "spec_class": c.Class, "bits_x": x.BitLen(), "bits_y": y.BitLen()}
		}
		classOK := func(oracleClass string) bool {
			if oracleClass == c.Class {
				return true
			}
			res.mu.Lock()
			if len(res.ClassDisagree) < 50 {
				res.ClassDisagree = append(res.ClassDisagree, failure{Op: c.Op, Class: "spec=" + c.Class + " real=" + oracleClass, Key: k.name, Detail: desc()})
			}
			res.mu.Unlock()
			return false
		}
		switch c.Op {
		case "enc":
			oc := "refused"
			if o.inRange(x) {
				oc = "ok"
			}
			if !c.Unanimous || !classOK(oc) {
				continue
			}
			nonces := map[string]*big.Int{"1": one, "rnd": rndNonce}
			if c.X.T == "lin" && c.X.B == 0 || c.X.T == "pow" {
				nonces["2"] = two
				nonces["N-1"] = new(big.Int).Sub(o.n, one)
			}
			names := make([]string, 0, len(nonces))
			for nn := range nonces {
				names = append(names, nn)
			}
			sort.Strings(names)
			for _, nn := range names {
				nn, r := nn, nonces[nn]
				for _, v := range variants {
					v := v
					jobs = append(jobs, func() {
						okCase := true
						ck := func(ok bool, op, class string, d func() D) {
							if !res.check(ok, op, class, k.name, d) {
								okCase = false
							}
						}
						got, refused, msg := libEnc(k.pks[v], x, r)
						if c.Class == "refused" {
							ck(refused, "EncWithNonce", "accepts-out-of-range", func() D { d := desc(); d["variant"] = v; d["nonce"] = nn; d["returned"] = s(got); return d })
							res.caseDone(okCase)
							return
						}
						ck(!refused, "EncWithNonce", "refused-in-range", func() D { d := desc(); d["variant"] = v; d["nonce"] = nn; d["panic"] = msg; return d })
						if refused {
							res.caseDone(false)
							return
						}
						want := o.enc(x, r)
						ck(eq(got, want), "EncWithNonce", "value", func() D { d := desc(); d["variant"] = v; d["nonce"] = nn; d["want"] = s(want); d["got"] = s(got); return d })
						if v == "crt" {
							m2, r2, err := libDecR(k.sk, want)
							ck(err == nil && eq(m2, x), "Dec", "value", func() D { d := desc(); d["nonce"] = nn; d["got"] = s(m2); d["err"] = fmt.Sprint(err); return d })
							ck(err == nil && eq(r2, r), "DecWithRandomness", "value", func() D { d := desc(); d["nonce"] = nn; d["got_r"] = s(r2); d["err"] = fmt.Sprint(err); return d })
							if err == nil {
								back, refused, _ := libEnc(k.pks["plain"], m2, r2)
								ck(!refused && eq(back, want), "DecWithRandomness", "does-not-reencrypt", func() D { d := desc(); d["nonce"] = nn; return d })
							}
						}
						res.caseDone(okCase)
					})
				}
			}
			// Enc with a library-chosen nonce (sequential, see runLattice): boundary and power-of-two operands only
			if c.X.T == "div" || c.X.T == "ndiv" {
				continue
			}
			seq = append(seq, func() {
				for _, v := range variants {
					var ct *paillier.Ciphertext
					var nonce *saferith.Nat
					msg, p := try(func() { ct, nonce = k.pks[v].Enc(intOf(x)) })
					if c.Class == "refused" {
						res.caseDone(res.check(p, "Enc", "accepts-out-of-range", k.name, func() D { d := desc(); d["variant"] = v; return d }))
						continue
					}
					ok := res.check(!p, "Enc", "refused-in-range", k.name, func() D { d := desc(); d["variant"] = v; d["panic"] = msg; return d })
					if ok {
						nb := nonce.Big()
						unit := nb.Sign() > 0 && new(big.Int).GCD(nil, nil, nb, o.n).Cmp(one) == 0
						if nb.Cmp(o.n) >= 0 {
							res.count("Enc returned a nonce >= N (not reduced; harmless: same ciphertext as nonce mod N)")
						}
						ok = res.check(unit && eq(ctBig(ct), o.enc(x, nb)), "Enc", "value", k.name, func() D { d := desc(); d["variant"] = v; d["nonce_unit"] = unit; return d })
					}
					res.caseDone(ok)
				}
			})
		case "add", "mul":
			var exactVal *big.Int
			if c.Op == "add" {
				exactVal = new(big.Int).Add(x, y)
			} else {
				exactVal = new(big.Int).Mul(x, y)
			}
			oc := "wraps"
			if o.inRange(exactVal) {
				oc = "exact"
			}
			if !o.inRange(x) || (c.Op == "add" && !o.inRange(y)) {
				continue // operand not encryptable on this key (class of the operand is instance dependent)
			}
			classChecked := c.Unanimous && classOK(oc)
			jobs = append(jobs, func() {
				okCase := true
				ck := func(ok bool, op, class string, d func() D) {
					if !res.check(ok, op, class, k.name, d) {
						okCase = false
					}
				}
				e1 := getEnc(c.X)
				var want *big.Int
				opName := "Add"
				if c.Op == "add" {
					e2 := getEnc(c.Y)
					want = o.add(e1.c, e2.c)
					for _, v := range variants {
						got, msg, p := libAdd(k.pks[v], e1.c, e2.c)
						ck(!p && eq(got, want), "Add", "value", func() D { d := desc(); d["variant"] = v; d["panic"] = msg; return d })
					}
				} else {
					opName = "Mul"
					want = o.mul(e1.c, y)
					for _, v := range variants {
						got, msg, p := libMul(k.pks[v], e1.c, y)
						ck(!p && eq(got, want), "Mul", "value", func() D { d := desc(); d["variant"] = v; d["panic"] = msg; d["got"] = s(got); d["want"] = s(want); return d })
					}
				}
				wantM := o.sym(exactVal)
				if ci%8 == 0 { // self-consistency of the oracle (its own Dec of its own ciphertext), sampled: it costs a full exponentiation
					res.oracle(eq(o.dec(want), wantM), c.Op, k.name, desc)
				}
				d, err := libDec(k.sk, want)
				ck(err == nil && eq(d, wantM), "Dec", "after-"+c.Op, func() D { dd := desc(); dd["want"] = s(wantM); dd["got"] = s(d); dd["err"] = fmt.Sprint(err); return dd })
				if oc == "exact" {
					ck(err == nil && eq(d, exactVal), opName, "integer-result", func() D { dd := desc(); dd["want"] = s(exactVal); dd["got"] = s(d); return dd })
				} else {
					ck(err == nil && !eq(d, exactVal) && new(big.Int).Mod(new(big.Int).Sub(d, exactVal), o.n).Sign() == 0, opName, "wrap-result", func() D { dd := desc(); dd["got"] = s(d); return dd })
				}
				res.caseDone(okCase && classChecked)
				if okCase && classChecked && (oc == "wraps") {
					res.sample(D{"kind": "real-size lattice case confirmed", "key": k.name, "op": c.Op, "x": c.X.String(), "y": c.Y.String(), "class": oc, "decrypts_to": sh(d)}, 3)
				}
			})
		case "val":
			oc := "reject"
			if o.valid(x) {
				oc = "accept"
			}
			if !c.Unanimous || !classOK(oc) {
				continue
			}
			jobs = append(jobs, func() {
				okCase := true
				for _, v := range variants {
					got, msg, p := libValid(k.pks[v], x)
					cls := "accepts-invalid"
					if c.Class == "accept" {
						cls = "rejects-valid"
					}
					if !res.check(!p && got == (c.Class == "accept"), "ValidateCiphertexts", cls, k.name, func() D { d := desc(); d["variant"] = v; d["got"] = got; d["panic"] = msg; return d }) {
						okCase = false
					}
				}
				d, err := libDec(k.sk, x)
				if c.Class == "accept" {
					if !res.check(err == nil && eq(d, o.dec(x)), "Dec", "value", k.name, func() D { dd := desc(); dd["err"] = fmt.Sprint(err); return dd }) {
						okCase = false
					}
				} else {
					if !res.check(err != nil && !strings.HasPrefix(fmt.Sprint(err), "PANIC"), "Dec", "accepts-invalid", k.name, func() D { dd := desc(); dd["got"] = s(d); dd["err"] = fmt.Sprint(err); return dd }) {
						okCase = false
					}
				}
				res.caseDone(okCase)
			})
		}
	}
	return jobs, func() {
		rand.Reader = newDRBG(fmt.Sprintf("lattice-lib/%d/%s", seed, k.name))
		for _, f := range seq {
			f()
		}
	}
}

// ------------------------------------------------------------------------------------------------
// mta mode (real keys)

type mlatCase struct {
	Proof string `json:"proof"`
	A     string `json:"a"`
	B     string `json:"b"`
	Class string `json:"class"`
}

func scalarVal(name string, q *big.Int, dr *drbg) (*big.Int, error) {
	switch name {
	case "0":
		return bi(0), nil
	case "1":
		return bi(1), nil
	case "2":
		return bi(2), nil
	case "q-1":
		return new(big.Int).Sub(q, one), nil
	case "q-2":
		return new(big.Int).Sub(q, two), nil
	case "rnd":
		return dr.below(q), nil
	}
	return nil, fmt.Errorf("unknown scalar %q", name)
}

func runMta(casesPath, primesPath string, npairs int, seed int64, shard, shards int, small bool, res *result) error {
	var cases []mlatCase
	if err := readLines(casesPath, func(line []byte) error {
		var c mlatCase
		if err := json.Unmarshal(line, &c); err != nil {
			return err
		}
		cases = append(cases, c)
		return nil
	}); err != nil {
		return err
	}
	sort.SliceStable(cases, func(i, j int) bool {
		a, b := cases[i], cases[j]
		return a.Proof+"|"+a.A+"|"+a.B < b.Proof+"|"+b.A+"|"+b.B
	})
	primes, err := loadPrimes(primesPath)
	if err != nil {
		return err
	}
	group := curve.Secp256k1{}
	q := group.Order().Big()
	lPrime := new(big.Int).Lsh(one, 1280)
	idx := 0
	for pi := 0; pi < npairs; pi++ {
		snd, err := realKey(primes, 2*pi, seed)
		if err != nil {
			return err
		}
		rcv, err := realKey(primes, 2*pi+1, seed)
		if err != nil {
			return err
		}
		// both directions
		for dir, pr := range [][2]*lkey{{snd, rcv}, {rcv, snd}} {
			sender, receiver := pr[0], pr[1]
			pairName := sender.name + "->" + receiver.name
			if shard == 0 {
				res.Keys = append(res.Keys, pairName)
			}
			rand.Reader = newDRBG(fmt.Sprintf("ped/%d/%s", seed, pairName))
			var ped *pedersen.Parameters
			if msg, p := try(func() { ped, _ = receiver.sk.GeneratePedersen() }); p {
				return fmt.Errorf("GeneratePedersen panicked: %s", msg)
			}
			for ci, c := range cases {
				if small && dir == 1 && (c.A == "2" || c.A == "q-2" || c.B == "2" || c.B == "q-2") {
					continue // quick tier: the reverse direction uses the sub-lattice {0, 1, q-1, rnd}^2
				}
				idx++
				if idx%shards != shard {
					continue
				}
				label := fmt.Sprintf("mta/%d/%s/%d/%d", seed, pairName, dir, ci)
				dr := newDRBG(label)
				rand.Reader = newDRBG("lib/" + label)
				a, err := scalarVal(c.A, q, dr)
				if err != nil {
					return err
				}
				b, err := scalarVal(c.B, q, dr)
				if err != nil {
					return err
				}
				mtaCase(group, c, a, b, sender, receiver, ped, pairName, lPrime, res)
			}
		}
	}
	return nil
}

func mtaCase(group curve.Curve, c mlatCase, a, b *big.Int, sender, receiver *lkey, ped *pedersen.Parameters, pairName string, lPrime *big.Int, res *result) {
	op := "ProveAffG"
	if c.Proof == "affp" {
		op = "ProveAffP"
	}
	desc := func() D { return D{"proof": c.Proof, "a": c.A, "b": c.B, "a_val": s(a), "b_val": s(b), "pair": pairName} }
	okCase := true
	ck := func(ok bool, class string, d func() D) {
		if !res.check(ok, op, class, pairName, d) {
			okCase = false
		}
	}
	var (
		beta     *big.Int
		dBig     *big.Int
		fBig     *big.Int
		verified bool
	)
	msg, p := try(func() {
		aS := group.NewScalar().SetNat(natOf(a))
		bS := group.NewScalar().SetNat(natOf(b))
		ai := curve.MakeInt(aS)
		bj := curve.MakeInt(bS)
		K, _ := receiver.pks["plain"].Enc(bj)
		if c.Proof == "affg" {
			A := aS.ActOnBase()
			Beta, Dct, Fct, proof := mta.ProveAffG(group, hash.New(), ai, A, K, sender.sk, receiver.pks["plain"], ped)
			beta, dBig, fBig = Beta.Big(), ctBig(Dct), ctBig(Fct)
			verified = proof.Verify(hash.New(), zkaffg.Public{Kv: K, Dv: Dct, Fp: Fct, Xp: A,
				Prover: sender.pks["plain"], Verifier: receiver.pks["plain"], Aux: ped})
		} else {
			Actx, nonce := sender.sk.Enc(ai)
			Beta, Dct, Fct, proof := mta.ProveAffP(group, hash.New(), ai, Actx, nonce, K, sender.sk, receiver.pks["plain"], ped)
			beta, dBig, fBig = Beta.Big(), ctBig(Dct), ctBig(Fct)
			verified = proof.Verify(group, hash.New(), zkaffp.Public{Kv: K, Dv: Dct, Fp: Fct, Xp: Actx,
				Prover: sender.pks["plain"], Verifier: receiver.pks["plain"], Aux: ped})
		}
	})
	ck(!p, "panic", func() D { d := desc(); d["panic"] = msg; return d })
	if p {
		res.caseDone(false)
		return
	}
	ab := new(big.Int).Mul(a, b)
	// precondition of the exact class at real size: |a*b - beta| <= half (spec: LawBound)
	inRange := receiver.o.inRange(new(big.Int).Sub(ab, beta))
	ck(new(big.Int).Abs(beta).Cmp(lPrime) <= 0, "beta-out-of-interval", func() D { d := desc(); d["beta_bits"] = beta.BitLen(); return d })
	alphaLib, err := libDec(receiver.sk, dBig)
	alphaO := receiver.o.dec(dBig)
	ck(receiver.o.valid(dBig), "D-invalid", desc)
	ck(err == nil && eq(alphaLib, alphaO), "dec-disagrees-with-oracle", func() D { d := desc(); d["lib"] = s(alphaLib); d["oracle"] = s(alphaO); d["err"] = fmt.Sprint(err); return d })
	if inRange {
		sum := new(big.Int).Add(alphaO, beta)
		ck(eq(sum, ab), "alpha+beta!=a*b", func() D {
			d := desc()
			d["alpha"] = s(alphaO)
			d["beta"] = s(beta)
			d["ab"] = s(ab)
			return d
		})
		if err == nil {
			ck(eq(new(big.Int).Add(alphaLib, beta), ab), "alpha+beta!=a*b (library Dec)", desc)
		}
	} else {
		res.note("case %v: a*b - beta out of range, class not exact", desc())
		okCase = false
	}
	fd := sender.o.dec(fBig)
	ck(sender.o.valid(fBig) && eq(fd, new(big.Int).Neg(beta)), "F-is-not-Enc(-beta)", func() D { d := desc(); d["F_decrypts_to"] = s(fd); d["beta"] = s(beta); return d })
	ck(verified, "proof-rejected", desc)
	res.caseDone(okCase)
	res.sample(D{"kind": "real-size MtA case", "proof": c.Proof, "a": c.A, "b": c.B, "pair": pairName, "alpha_bits": alphaO.BitLen(),
		"beta_bits": beta.BitLen(), "alpha+beta==a*b over Z": eq(new(big.Int).Add(alphaO, beta), ab), "proof_verified": verified}, 2)
}

// ------------------------------------------------------------------------------------------------

func main() {
	mode := flag.String("mode", "", "tiny | lattice | mta")
	in := flag.String("in", "", "input file(s), comma separated")
	out := flag.String("out", "", "result file")
	primes := flag.String("primes", "/verif/fixtures/safeprimes.json", "fixture safe primes")
	keys := flag.Int("keys", 2, "number of real keys (lattice) / key pairs (mta)")
	seed := flag.Int64("seed", 0, "seed")
	frac := flag.Int("frac", 1, "lattice: evaluate 1/frac of the add and mul pairs per key")
	shard := flag.Int("shard", 0, "mta: shard index")
	shards := flag.Int("shards", 1, "mta: number of shards")
	small := flag.Bool("small", false, "mta: reverse direction of each pair restricted to {0,1,q-1,rnd}^2")
	flag.Parse()
	t0 := time.Now()
	res := newResult(*mode)
	var err error
	switch *mode {
	case "tiny":
		err = runTiny(strings.Split(*in, ","), *seed, res)
	case "lattice":
		err = runLattice(*in, *primes, *keys, *seed, *frac, res)
	case "mta":
		err = runMta(*in, *primes, *keys, *seed, *shard, *shards, *small, res)
	default:
		err = fmt.Errorf("unknown mode %q", *mode)
	}
	if err != nil {
		fmt.Fprintln(os.Stderr, "paillierdrv:", err)
		os.Exit(2)
	}
	res.WallS = time.Since(t0).Seconds()
	var w io.Writer = os.Stdout
	if *out != "" {
		f, err := os.Create(*out)
		if err != nil {
			fmt.Fprintln(os.Stderr, err)
			os.Exit(2)
		}
		defer f.Close()
		w = f
	}
	enc := json.NewEncoder(w)
	enc.SetIndent("", " ")
	if err := enc.Encode(res); err != nil {
		fmt.Fprintln(os.Stderr, err)
		os.Exit(2)
	}
}
