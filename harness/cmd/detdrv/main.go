// detdrv: is a party's output a function of its inputs and its random stream?  Runs every protocol twice with
// identical per-party streams and schedule and compares every emitted message byte for byte.
package main

import (
	"bytes"
	"crypto/sha256"
	"fmt"
	"os"

	"github.com/taurusgroup/multi-party-sig/pkg/party"
	"github.com/taurusgroup/multi-party-sig/verifharness/protos"
	"github.com/taurusgroup/multi-party-sig/verifharness/sim"
)

func transcript(mk func() *protos.Session, seed string) map[party.ID][][]byte {
	r, err := protos.Run(mk(), protos.RunOpts{Seed: seed, Sched: sim.NewRng(7)})
	if err != nil {
		fmt.Println("run failed:", err)
		os.Exit(2)
	}
	out := map[party.ID][][]byte{}
	for id, p := range r.Engine.Parties {
		for _, m := range p.Emitted {
			h := sha256.Sum256(append([]byte(fmt.Sprintf("%d|%v|%s|", m.RoundNumber, m.Broadcast, m.To)), m.Data...))
			out[id] = append(out[id], h[:])
		}
	}
	return out
}

func main() {
	protos.InstallPrimeSource("/verif/fixtures/safeprimes.json")
	ids := []party.ID{"a", "b", "c"}
	cfgs := protos.DealCmp(ids, 2, "x")
	bad := 0
	cases := map[string]func() *protos.Session{
		"cmp-presign": func() *protos.Session { return protos.CmpPresign(protos.CloneConfigs(cfgs), ids, []byte("sid")) },
		"cmp-sign":    func() *protos.Session { return protos.CmpSign(protos.CloneConfigs(cfgs), ids, []byte("hello"), []byte("sid")) },
	}
	for name, mk := range cases {
		for rep := 0; rep < 6; rep++ {
			a, b := transcript(mk, "s"), transcript(mk, "s")
			for id := range a {
				for i := range a[id] {
					if i >= len(b[id]) || !bytes.Equal(a[id][i], b[id][i]) {
						fmt.Printf("%s rep %d: party %s message #%d differs between two runs with identical inputs\n", name, rep, id, i)
						bad++
						break
					}
				}
			}
		}
	}
	fmt.Println("differences:", bad)
}
