package main

import (
	"fmt"

	"github.com/taurusgroup/multi-party-sig/pkg/party"
	"github.com/taurusgroup/multi-party-sig/protocols/doerner"
	"github.com/taurusgroup/multi-party-sig/verifharness/judge"
	"github.com/taurusgroup/multi-party-sig/verifharness/protos"
	"github.com/taurusgroup/multi-party-sig/verifharness/sim"
)

func views(res map[party.ID]interface{}) map[party.ID]*judge.KeyView {
	out := map[party.ID]*judge.KeyView{}
	for id, r := range res {
		v, err := judge.View(r)
		if err != nil {
			panic(err)
		}
		if v.ID == "" {
			v.ID = id
		}
		out[id] = v
	}
	return out
}

func main() {
	protos.InstallPrimeSource("/verif/fixtures/safeprimes.json")
	ids := []party.ID{"a", "b", "c", "d"}
	for _, tap := range []bool{false, true} {
		r, _ := protos.Run(protos.FrostKeygen(ids, 2, tap, nil), protos.RunOpts{Seed: "s", Sched: sim.NewRng(5)})
		vs := views(r.Results)
		fmt.Println("frost keygen problems:", judge.ConsistentSharing(vs, 0))
		s, _ := protos.Run(protos.FrostSign(r.Results, []party.ID{"a", "c", "d"}, []byte("hello"), nil), protos.RunOpts{Seed: "s"})
		ok, why := judge.SigValid(vs["a"].Group, vs["a"].GroupX, []byte("hello"), s.Results["a"])
		fmt.Println("sig", ok, why)
		ok, why = judge.SigValid(vs["a"].Group, vs["a"].GroupX, []byte("hellp"), s.Results["a"])
		fmt.Println("sig wrong msg", ok, why)
	}
	rd, _ := protos.Run(protos.DoernerKeygen("a", "b", nil), protos.RunOpts{Seed: "s"})
	vs := views(rd.Results)
	fmt.Println("doerner problems:", judge.ConsistentSharing(vs, 0))
	rs, _ := protos.Run(protos.DoernerSign("a", "b", rd.Results["a"].(*doerner.ConfigReceiver), rd.Results["b"].(*doerner.ConfigSender), []byte("hello"), nil), protos.RunOpts{Seed: "s"})
	fmt.Println(rs.Describe())
	ok, why := judge.SigValid(vs["a"].Group, nil, []byte("hello"), rs.Results["a"])
	fmt.Println("doerner sig", ok, why, fmt.Sprintf("%T %T", rs.Results["a"], rs.Results["b"]))
	cfgs := protos.DealCmp(ids[:3], 1, "x")
	fmt.Println("cmp dealt problems:", judge.ConsistentSharing(views(cfgs), 0))
	cs, _ := protos.Run(protos.CmpSign(cfgs, []party.ID{"a", "c"}, []byte("hello"), nil), protos.RunOpts{Seed: "s"})
	ok, why = judge.SigValid(views(cfgs)["a"].Group, nil, []byte("hello"), cs.Results["a"])
	fmt.Println("cmp sig", ok, why)
}
