package main

import (
	"fmt"

	"github.com/taurusgroup/multi-party-sig/pkg/party"
	"github.com/taurusgroup/multi-party-sig/verifharness/protos"
	"github.com/taurusgroup/multi-party-sig/verifharness/sim"
)

func main() {
	ids := []party.ID{"a", "b", "c"}
	r1, _ := protos.Run(protos.FrostKeygen(ids, 1, false, nil), protos.RunOpts{Seed: "s"})
	r2, _ := protos.Run(protos.FrostKeygen(ids, 1, false, nil), protos.RunOpts{Seed: "s", Sched: sim.NewRng(5)})
	a, b := protos.Canon(r1.Results["a"]), protos.Canon(r2.Results["a"])
	fmt.Println(a)
	fmt.Println(b)
}
