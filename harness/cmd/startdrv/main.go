// startdrv replays the cases enumerated by StartParams.tla (C20) on the real start functions of the library.
//
// Every case is a parameter tuple for one of the 17 start functions together with the outcome the specification
// expects ("error" | "accept" | "either").  The driver maps the abstract value classes to concrete Go values, builds
// the start function and hands it to protocol.NewMultiHandler / protocol.NewTwoPartyHandler inside recover():
//
//	panic                         -> failure class "panic"
//	accepted, expected "error"    -> failure class "accepted-invalid"; the session is then RUN with honest peers in
//	                                 the deterministic simulator to record what the bad start leads to
//	error, expected "accept"      -> failure class "rejected-valid"
//	accepted, expected "either"   -> the session is run; a crash or a stalled honest peer is failure class "crash-or-stall"
//
// A progress file names the case being worked on, so that a fatal runtime error (which recover() cannot catch, e.g.
// out of memory after an unchecked 2^32 threshold) can be attributed by the caller, who restarts the driver after it.
package main

import (
	"bufio"
	"encoding/json"
	"flag"
	"fmt"
	"os"
	"runtime"
	"sort"
	"strings"
	"syscall"
	"time"

	"github.com/taurusgroup/multi-party-sig/pkg/ecdsa"
	"github.com/taurusgroup/multi-party-sig/pkg/math/curve"
	"github.com/taurusgroup/multi-party-sig/pkg/math/polynomial"
	"github.com/taurusgroup/multi-party-sig/pkg/math/sample"
	"github.com/taurusgroup/multi-party-sig/pkg/party"
	"github.com/taurusgroup/multi-party-sig/pkg/protocol"
	"github.com/taurusgroup/multi-party-sig/protocols/cmp"
	cmpconfig "github.com/taurusgroup/multi-party-sig/protocols/cmp/config"
	"github.com/taurusgroup/multi-party-sig/protocols/doerner"
	"github.com/taurusgroup/multi-party-sig/protocols/example"
	"github.com/taurusgroup/multi-party-sig/protocols/frost"
	"github.com/taurusgroup/multi-party-sig/verifharness/protos"
	"github.com/taurusgroup/multi-party-sig/verifharness/sim"
)

func fatal(f string, a ...interface{}) {
	fmt.Fprintf(os.Stderr, "startdrv: "+f+"\n", a...)
	os.Exit(2)
}

// Case is one line printed by StartParams.tla (plus the id given by the caller).
type Case struct {
	ID   int      `json:"id"`
	F    string   `json:"f"`
	Thr  int64    `json:"thr"`
	Ids  []string `json:"ids"`
	Self string   `json:"self"`
	Msg  string   `json:"msg"`
	Key  string   `json:"key"`
	Pre  string   `json:"pre"`
	Ch   []string `json:"ch"`
	Exp  string   `json:"exp"`
	Why  []string `json:"why"`
}

// RunOut is what a simulated session led to.
type RunOut struct {
	Parties   map[string]string `json:"parties"`
	Anomalies []string          `json:"anomalies"`
	Then      string            `json:"then"` // peer-panic | self-panic | hang | peer-stall | completes | aborts | peers-refuse | alone
	Delivered int               `json:"delivered"`
}

// Result of one evaluation.
type Result struct {
	ID      int      `json:"id"`
	F       string   `json:"f"`
	Role    string   `json:"role,omitempty"`
	Param   string   `json:"param"`
	Singles []string `json:"singles"`
	Exp     string   `json:"exp"`
	Got     string   `json:"got"` // error | accept | panic
	Text    string   `json:"text,omitempty"`
	Run     *RunOut  `json:"run,omitempty"`
	RunSkip string   `json:"run_skipped,omitempty"`
	Class   string   `json:"class,omitempty"` // failure class, empty when the case conforms
	Ms      int64    `json:"ms"`
	Case    *Case    `json:"case,omitempty"`
}

var (
	maxu  int64
	group = protos.Group
	sid   []byte
	seedS string
)

const (
	self0   = party.ID("a")
	foreign = party.ID("z")
)

var shareholders = []party.ID{"a", "b", "c"}

// ---------------------------------------------------------------------------------------------
// labels (for the keys of findings)

func thrLabel(t int64) string {
	switch {
	case t == maxu:
		return "maxuint32"
	case t == maxu+1:
		return "2^32"
	case t == 3:
		return "n"
	case t == 2:
		return "n-1"
	}
	return fmt.Sprint(t)
}

func idsLabel(c *Case) string {
	ids := c.Ids
	two := strings.HasPrefix(c.F, "doerner.")
	if len(ids) == 0 {
		return "empty"
	}
	me := "a"
	if two {
		if ids[0] == ids[1] {
			return "other-equals-self"
		}
		if ids[0] == "b" {
			return "swapped"
		}
		return "nominal"
	}
	seen := map[string]int{}
	for _, i := range ids {
		seen[i]++
	}
	for k, v := range seen {
		if v > 1 {
			if k == me {
				return "dup-self"
			}
			return "dup-other"
		}
	}
	if seen["z"] > 0 {
		if len(ids) == 2 {
			return "foreign-replacing-shareholder"
		}
		return "foreign"
	}
	if seen[me] == 0 {
		return "self-missing"
	}
	if len(ids) == 1 {
		return "single"
	}
	srt := sort.StringsAreSorted(ids)
	switch {
	case len(ids) == 3 && srt:
		return "nominal"
	case len(ids) == 3:
		return "unsorted"
	case srt:
		return "minimal"
	}
	return "minimal-unsorted"
}

func coordLabel(c *Case, co string) string {
	switch co {
	case "thr":
		return "thr=" + thrLabel(c.Thr)
	case "ids":
		return "ids=" + idsLabel(c)
	case "self":
		return "self=not-in-ids"
	case "msg":
		return "msg=" + c.Msg
	case "key":
		return "key=" + c.Key
	case "pre":
		return "pre=" + c.Pre
	}
	return co
}

func paramLabel(c *Case) (string, []string) {
	if len(c.Ch) == 0 {
		return "nominal", nil
	}
	var s []string
	for _, co := range c.Ch {
		s = append(s, coordLabel(c, co))
	}
	return strings.Join(s, "+"), s
}

// ---------------------------------------------------------------------------------------------
// concrete parameters of one party

type params struct {
	thr    int
	ids    []party.ID
	self   party.ID
	msg    []byte
	key    string // class of this party's key material
	pre    string // class of this party's presignature
	preSet string // which dealt presignature family ("ok" | "minimal" | "noself" | "foreign" | "toosmall")
	role   string // doerner: "recv" | "send"
}

func concThr(t int64) int {
	switch {
	case t == maxu:
		return 1<<32 - 1
	case t == maxu+1:
		return 1 << 32
	}
	return int(t)
}

func concMsg(cls string) []byte {
	switch cls {
	case "nil":
		return nil
	case "empty":
		return []byte{}
	}
	r := sim.NewDetReader("msg/" + seedS)
	m := make([]byte, 32)
	_, _ = r.Read(m)
	return m
}

func pids(ss []string) []party.ID {
	out := make([]party.ID, len(ss))
	for i, s := range ss {
		out[i] = party.ID(s)
	}
	return out
}

// ---------------------------------------------------------------------------------------------
// materials (valid key material, built lazily)

type env struct {
	frostC   map[party.ID]*frost.Config
	frostT   map[party.ID]*frost.TaprootConfig
	cmpC     map[party.ID]*cmp.Config
	dRecv    map[string]*doerner.ConfigReceiver // by role of party a ("recv": a is receiver)
	dSend    map[string]*doerner.ConfigSender
	presigs  map[string]map[party.ID]*ecdsa.PreSignature
	cmpZ     *cmp.Config
	sessions int
}

func must(r *protos.RunResult, err error) *protos.RunResult {
	if err != nil {
		fatal("preparing key material: %v", err)
	}
	if !r.AllDone() {
		fatal("preparing key material: session did not complete: %s", r.Describe())
	}
	return r
}

func (e *env) frost(taproot bool) {
	if (taproot && e.frostT != nil) || (!taproot && e.frostC != nil) {
		return
	}
	r := must(protos.Run(protos.FrostKeygen(shareholders, 1, taproot, []byte("kg"+seedS)), protos.RunOpts{Seed: "kg/" + seedS, Log: false}))
	if taproot {
		e.frostT = map[party.ID]*frost.TaprootConfig{}
		for id, v := range r.Results {
			e.frostT[id] = v.(*frost.TaprootConfig)
		}
	} else {
		e.frostC = map[party.ID]*frost.Config{}
		for id, v := range r.Results {
			e.frostC[id] = v.(*frost.Config)
		}
	}
}

func (e *env) cmp() {
	if e.cmpC != nil {
		return
	}
	if err := protos.InstallPrimeSource("/verif/fixtures/safeprimes.json"); err != nil {
		fatal("prime source: %v", err)
	}
	e.cmpC = map[party.ID]*cmp.Config{}
	for id, v := range protos.DealCmp(shareholders, 1, "c20/"+seedS) {
		e.cmpC[id] = v.(*cmp.Config)
	}
}

// doernerCfg runs a Doerner keygen in which party a plays the given role.
func (e *env) doernerCfg(aRole string) {
	if e.dRecv == nil {
		e.dRecv = map[string]*doerner.ConfigReceiver{}
		e.dSend = map[string]*doerner.ConfigSender{}
	}
	if e.dRecv[aRole] != nil {
		return
	}
	recv, send := party.ID("a"), party.ID("b")
	if aRole == "send" {
		recv, send = "b", "a"
	}
	r := must(protos.Run(protos.DoernerKeygen(recv, send, []byte("dkg"+seedS)), protos.RunOpts{Seed: "dkg/" + aRole + seedS, Log: false}))
	e.dRecv[aRole] = r.Results[recv].(*doerner.ConfigReceiver)
	e.dSend[aRole] = r.Results[send].(*doerner.ConfigSender)
}

// secret reconstructs the dealt ECDSA secret from two shares (the harness is the dealer).
func (e *env) cmpSecret() curve.Scalar {
	e.cmp()
	dom := []party.ID{"a", "b"}
	l := polynomial.Lagrange(group, dom)
	x := group.NewScalar()
	for _, j := range dom {
		x.Add(group.NewScalar().Set(l[j]).Mul(e.cmpC[j].ECDSA))
	}
	return x
}

// dealPresig deals a presignature for the signer set: R = k^-1 G, additive shares of k and of chi = x k.
func (e *env) dealPresig(name string, signers []party.ID) map[party.ID]*ecdsa.PreSignature {
	if e.presigs == nil {
		e.presigs = map[string]map[party.ID]*ecdsa.PreSignature{}
	}
	if p, ok := e.presigs[name]; ok {
		return p
	}
	src := sim.NewDetReader("presig/" + name + "/" + seedS)
	x := e.cmpSecret()
	k := sample.Scalar(src, group)
	kinv := group.NewScalar().Set(k).Invert()
	R := kinv.ActOnBase()
	chi := group.NewScalar().Set(x).Mul(k)
	ks := map[party.ID]curve.Scalar{}
	cs := map[party.ID]curve.Scalar{}
	ksum, csum := group.NewScalar(), group.NewScalar()
	for i, j := range signers {
		if i == len(signers)-1 {
			ks[j] = group.NewScalar().Set(k).Sub(ksum)
			cs[j] = group.NewScalar().Set(chi).Sub(csum)
		} else {
			ks[j] = sample.Scalar(src, group)
			cs[j] = sample.Scalar(src, group)
			ksum.Add(ks[j])
			csum.Add(cs[j])
		}
	}
	id := make([]byte, 32)
	_, _ = src.Read(id)
	out := map[party.ID]*ecdsa.PreSignature{}
	for _, j := range signers {
		rbar := map[party.ID]curve.Point{}
		s := map[party.ID]curve.Point{}
		for _, l := range signers {
			rbar[l] = ks[l].Act(R)
			s[l] = cs[l].Act(R)
		}
		out[j] = &ecdsa.PreSignature{ID: append([]byte(nil), id...), R: R, RBar: party.NewPointMap(rbar), S: party.NewPointMap(s),
			KShare: ks[j], ChiShare: cs[j]}
	}
	e.presigs[name] = out
	return out
}

var preSets = map[string][]party.ID{"ok": {"a", "b", "c"}, "minimal": {"a", "b"}, "noself": {"b", "c"}, "foreign": {"a", "b", "z"}, "toosmall": {"a"}}

func preSetOf(cls string) string {
	if _, ok := preSets[cls]; ok {
		return cls
	}
	return "ok"
}

func copyPM(m *party.PointMap) map[party.ID]curve.Point {
	out := map[party.ID]curve.Point{}
	for k, v := range m.Points {
		out[k] = v
	}
	return out
}

// presigFor returns the presignature party id uses: class "ok" is its share of the dealt family.
func (e *env) presigFor(id party.ID, p params) *ecdsa.PreSignature {
	fam := e.dealPresig(p.preSet, preSets[p.preSet])
	base := fam[id]
	if base == nil { // the party is not a signer of that family (class noself): hand it somebody else's copy
		for _, j := range preSets[p.preSet] {
			base = fam[j]
			break
		}
	}
	c := *base
	switch p.pre {
	case "ok", "minimal", "noself", "foreign", "toosmall":
	case "nil":
		return nil
	case "zero":
		return &ecdsa.PreSignature{}
	case "ridentity":
		c.R = group.NewPoint()
	case "smissing":
		m := copyPM(base.S)
		delete(m, "b")
		c.S = party.NewPointMap(m)
	case "sidentity":
		m := copyPM(base.S)
		m["b"] = group.NewPoint()
		c.S = party.NewPointMap(m)
	case "rbaridentity":
		m := copyPM(base.RBar)
		m["b"] = group.NewPoint()
		c.RBar = party.NewPointMap(m)
	case "zeroid":
		c.ID = make([]byte, 32)
	case "shortid":
		c.ID = append([]byte(nil), base.ID[:16]...)
	case "kzero":
		c.KShare = group.NewScalar()
	case "chizero":
		c.ChiShare = group.NewScalar()
	default:
		fatal("unknown presignature class %q", p.pre)
	}
	return &c
}

func (e *env) cmpConfig(id party.ID, p params) *cmp.Config {
	e.cmp()
	if p.key == "nil" {
		return nil
	}
	var base *cmp.Config
	if id == foreign {
		// an outsider: b's material under another name, with itself added to its own public table
		if e.cmpZ == nil {
			z := *e.cmpC["b"]
			z.ID = foreign
			z.Public = map[party.ID]*cmpconfig.Public{}
			for k, v := range e.cmpC["b"].Public {
				z.Public[k] = v
			}
			z.Public[foreign] = e.cmpC["b"].Public["b"]
			e.cmpZ = &z
		}
		base = e.cmpZ
	} else {
		base = e.cmpC[id]
	}
	if base == nil {
		fatal("no cmp config for %s", id)
	}
	c := *base
	c.ECDSA = group.NewScalar().Set(base.ECDSA)
	c.Threshold = p.thr
	switch p.key {
	case "ok":
	case "noshare":
		c.ECDSA = nil
	case "nopaillier":
		c.Paillier = nil
	case "emptypub":
		c.Public = map[party.ID]*cmpconfig.Public{}
	case "noown":
		c.Public = map[party.ID]*cmpconfig.Public{}
		for k, v := range base.Public {
			if k != id {
				c.Public[k] = v
			}
		}
	case "nilentry":
		c.Public = map[party.ID]*cmpconfig.Public{}
		for k, v := range base.Public {
			c.Public[k] = v
			if k != id {
				c.Public[k] = nil
			}
		}
	default:
		fatal("unknown cmp key class %q", p.key)
	}
	return &c
}

func (e *env) frostConfig(id party.ID, p params) *frost.Config {
	e.frost(false)
	if p.key == "nil" {
		return nil
	}
	base := e.frostC[id]
	vs := map[party.ID]curve.Point{}
	if base == nil { // outsider
		base = e.frostC["b"]
		vs[id] = base.VerificationShares.Points["b"]
	}
	for k, v := range base.VerificationShares.Points {
		vs[k] = v
	}
	c := &frost.Config{ID: id, Threshold: p.thr, PrivateShare: group.NewScalar().Set(base.PrivateShare), PublicKey: base.PublicKey,
		ChainKey: append([]byte(nil), base.ChainKey...), VerificationShares: party.NewPointMap(vs)}
	switch p.key {
	case "ok":
	case "noshare":
		c.PrivateShare = nil
	case "nopub":
		c.PublicKey = nil
	case "emptypub":
		c.VerificationShares = party.NewPointMap(map[party.ID]curve.Point{})
	case "noown":
		delete(vs, id)
	case "nilentry":
		for k := range c.VerificationShares.Points {
			if k != id {
				c.VerificationShares.Points[k] = nil
			}
		}
	default:
		fatal("unknown frost key class %q", p.key)
	}
	return c
}

func (e *env) taprootConfig(id party.ID, p params) *frost.TaprootConfig {
	e.frost(true)
	if p.key == "nil" {
		return nil
	}
	base := e.frostT[id]
	var c *frost.TaprootConfig
	if base == nil {
		c = e.frostT["b"].Clone()
		c.VerificationShares[id] = c.VerificationShares["b"]
		c.ID = id
	} else {
		c = base.Clone()
	}
	c.Threshold = p.thr
	switch p.key {
	case "ok":
	case "noshare":
		c.PrivateShare = nil
	case "nopub":
		c.PublicKey = nil
	case "emptypub":
		c.VerificationShares = map[party.ID]*curve.Secp256k1Point{}
	case "noown":
		delete(c.VerificationShares, id)
	case "nilentry":
		for k := range c.VerificationShares {
			if k != id {
				c.VerificationShares[k] = nil
			}
		}
	default:
		fatal("unknown taproot key class %q", p.key)
	}
	return c
}

// aRoleOf tells which role party "a" (the owner of the tested key material) plays for a Doerner start function.
func aRoleOf(f, role string) string {
	switch f {
	case "doerner.RefreshSender", "doerner.SignSender":
		return "send"
	case "doerner.Keygen":
		return role
	}
	return "recv"
}

func (e *env) doernerRecv(aRole string, p params) *doerner.ConfigReceiver {
	e.doernerCfg(aRole)
	if p.key == "nil" {
		return nil
	}
	c := *e.dRecv[aRole]
	c.SecretShare = group.NewScalar().Set(c.SecretShare)
	switch p.key {
	case "ok":
	case "noshare":
		c.SecretShare = nil
	case "nopub":
		c.Public = nil
	case "nosetup":
		c.Setup = nil
	default:
		fatal("unknown doerner key class %q", p.key)
	}
	return &c
}

func (e *env) doernerSend(aRole string, p params) *doerner.ConfigSender {
	e.doernerCfg(aRole)
	if p.key == "nil" {
		return nil
	}
	c := *e.dSend[aRole]
	c.SecretShare = group.NewScalar().Set(c.SecretShare)
	switch p.key {
	case "ok":
	case "noshare":
		c.SecretShare = nil
	case "nopub":
		c.Public = nil
	case "nosetup":
		c.Setup = nil
	default:
		fatal("unknown doerner key class %q", p.key)
	}
	return &c
}

// ---------------------------------------------------------------------------------------------
// the 17 start functions

// maker returns a constructor of the real handler for one party.  Everything that touches the library (including the
// call of the exported start function itself, which dereferences its config in several protocols) happens inside the
// returned closure, i.e. inside the recover() of sim.NewParty.
func (e *env) maker(f string, p params) protos.Maker {
	multi := func(mk func() protocol.StartFunc) protos.Maker {
		return func() (protocol.Handler, error) {
			h, err := protocol.NewMultiHandler(mk(), sid)
			if err != nil {
				return nil, err
			}
			return h, nil
		}
	}
	two := func(leader bool, mk func() protocol.StartFunc) protos.Maker {
		return func() (protocol.Handler, error) {
			h, err := protocol.NewTwoPartyHandler(mk(), sid, leader)
			if err != nil {
				return nil, err
			}
			return h, nil
		}
	}
	other := func() party.ID {
		if len(p.ids) > 1 {
			return p.ids[1]
		}
		return ""
	}
	// key material is prepared here, outside the closure: the closure runs with crypto/rand replaced and must only call the library
	switch f {
	case "cmp.Keygen":
		e.cmp() // installs the prime source
		return multi(func() protocol.StartFunc { return cmp.Keygen(group, p.self, p.ids, p.thr, nil) })
	case "cmp.Refresh":
		cfg := e.cmpConfig(p.self, p)
		return multi(func() protocol.StartFunc { return cmp.Refresh(cfg, nil) })
	case "cmp.Sign":
		cfg := e.cmpConfig(p.self, p)
		return multi(func() protocol.StartFunc { return cmp.Sign(cfg, p.ids, p.msg, nil) })
	case "cmp.Presign":
		cfg := e.cmpConfig(p.self, p)
		return multi(func() protocol.StartFunc { return cmp.Presign(cfg, p.ids, nil) })
	case "cmp.PresignOnline":
		cfg, pre := e.cmpConfig(p.self, p), e.presigFor(p.self, p)
		return multi(func() protocol.StartFunc { return cmp.PresignOnline(cfg, pre, p.msg, nil) })
	case "frost.Keygen":
		return multi(func() protocol.StartFunc { return frost.Keygen(group, p.self, p.ids, p.thr) })
	case "frost.KeygenTaproot":
		return multi(func() protocol.StartFunc { return frost.KeygenTaproot(p.self, p.ids, p.thr) })
	case "frost.Refresh":
		cfg := e.frostConfig(p.self, p)
		return multi(func() protocol.StartFunc { return frost.Refresh(cfg, p.ids) })
	case "frost.RefreshTaproot":
		cfg := e.taprootConfig(p.self, p)
		return multi(func() protocol.StartFunc { return frost.RefreshTaproot(cfg, p.ids) })
	case "frost.Sign":
		cfg := e.frostConfig(p.self, p)
		return multi(func() protocol.StartFunc { return frost.Sign(cfg, p.ids, p.msg) })
	case "frost.SignTaproot":
		cfg := e.taprootConfig(p.self, p)
		return multi(func() protocol.StartFunc { return frost.SignTaproot(cfg, p.ids, p.msg) })
	case "example.StartXOR":
		return multi(func() protocol.StartFunc { return example.StartXOR(p.self, party.IDSlice(p.ids)) })
	case "doerner.Keygen":
		recv := p.role == "recv"
		return two(recv, func() protocol.StartFunc { return doerner.Keygen(group, recv, p.self, other(), nil) })
	case "doerner.RefreshReceiver":
		cfg := e.doernerRecv(p.role, p)
		return two(true, func() protocol.StartFunc { return doerner.RefreshReceiver(cfg, p.self, other(), nil) })
	case "doerner.RefreshSender":
		cfg := e.doernerSend(p.role, p)
		return two(false, func() protocol.StartFunc { return doerner.RefreshSender(cfg, p.self, other(), nil) })
	case "doerner.SignReceiver":
		cfg := e.doernerRecv(p.role, p)
		return two(true, func() protocol.StartFunc { return doerner.SignReceiver(cfg, p.self, other(), p.msg, nil) })
	case "doerner.SignSender":
		cfg := e.doernerSend(p.role, p)
		return two(true, func() protocol.StartFunc { return doerner.SignSender(cfg, p.self, other(), p.msg, nil) })
	}
	fatal("unknown start function %q", f)
	return nil
}

// counterpart is the start function the other Doerner party calls.
func counterpart(f string) string {
	switch f {
	case "doerner.RefreshReceiver":
		return "doerner.RefreshSender"
	case "doerner.RefreshSender":
		return "doerner.RefreshReceiver"
	case "doerner.SignReceiver":
		return "doerner.SignSender"
	case "doerner.SignSender":
		return "doerner.SignReceiver"
	}
	return f
}

func isDoerner(f string) bool { return strings.HasPrefix(f, "doerner.") }

// testedParams maps a case to the concrete parameters of the party under test.
func testedParams(c *Case, role string) params {
	p := params{thr: concThr(c.Thr), ids: pids(c.Ids), self: party.ID(c.Self), msg: concMsg(c.Msg), key: c.Key, pre: c.Pre,
		preSet: preSetOf(c.Pre), role: aRoleOf(c.F, role)}
	if p.key == "na" {
		p.key = "ok"
	}
	return p
}

// peerParams: an honest peer gets the same public session parameters and its own valid private material.
func peerParams(c *Case, t params, id party.ID) params {
	p := t
	p.self = id
	p.key = "ok"
	p.pre = t.preSet
	if isDoerner(c.F) {
		p.ids = []party.ID{id, t.self}
		if t.role == "recv" {
			p.role = "send"
		} else {
			p.role = "recv"
		}
		if c.F != "doerner.Keygen" {
			p.role = t.role // for refresh/sign the role field names the role of party a in the key generation that made the configs
		}
	}
	return p
}

func distinct(ids []party.ID) []party.ID {
	seen := map[party.ID]bool{}
	var out []party.ID
	for _, i := range ids {
		if !seen[i] {
			seen[i] = true
			out = append(out, i)
		}
	}
	sort.Slice(out, func(i, j int) bool { return out[i] < out[j] })
	return out
}

// sessionParties: the tested party and the peers the session would involve.
func sessionParties(c *Case, t params) []party.ID {
	var ids []party.ID
	switch c.F {
	case "cmp.Refresh":
		ids = append(ids, shareholders...)
	case "cmp.PresignOnline":
		ids = append(ids, preSets[t.preSet]...)
	default:
		ids = append(ids, t.ids...)
	}
	ids = append(ids, t.self)
	return distinct(ids)
}

func firstLine(s string) string {
	if i := strings.IndexByte(s, '\n'); i >= 0 {
		s = s[:i]
	}
	if len(s) > 300 {
		s = s[:300]
	}
	return s
}

// where the library under test is checked out (see vlib.REPO)
var repoDir = func() string {
	if d := os.Getenv("VERIF_REPO"); d != "" {
		return d
	}
	return "/repo"
}()

// panicSite extracts the first library frame of a recovered panic's stack.
func panicSite(s string) string {
	lines := strings.Split(s, "\n")
	for i := 1; i < len(lines); i++ {
		loc := strings.TrimSpace(lines[i])
		if !strings.HasPrefix(loc, repoDir+"/") {
			continue
		}
		if j := strings.Index(loc, " +0x"); j >= 0 {
			loc = loc[:j]
		}
		fn := strings.TrimSpace(lines[i-1])
		if j := strings.LastIndex(fn, "("); j >= 0 {
			fn = fn[:j]
		}
		if j := strings.LastIndex(fn, "/"); j >= 0 {
			fn = fn[j+1:]
		}
		return fn + " at " + strings.TrimPrefix(loc, repoDir+"/")
	}
	return ""
}

// runSession runs the session the accepted start belongs to, with honest peers, to quiescence.
func (e *env) runSession(c *Case, t params, schedSeed uint64) *RunOut {
	e.sessions++
	ids := sessionParties(c, t)
	eng := sim.NewEngine(ids, ids, 0)
	eng.Log = false
	out := &RunOut{Parties: map[string]string{}}
	built := map[party.ID]bool{}
	for _, id := range ids {
		var mk protos.Maker
		if id == t.self {
			mk = e.maker(c.F, t)
		} else {
			f := c.F
			if isDoerner(f) {
				f = counterpart(f)
			}
			mk = e.maker(f, peerParams(c, t, id))
		}
		p, err, pv := sim.NewParty(id, sim.NewDetReader(fmt.Sprintf("run/%s/%d/%s", seedS, c.ID, id)), mk)
		switch {
		case pv != "":
			out.Parties[string(id)] = "panic-at-start: " + firstLine(pv)
		case err != nil:
			out.Parties[string(id)] = "refused: " + firstLine(err.Error())
		default:
			built[id] = true
			eng.AddParty(id, p)
		}
	}
	rng := sim.NewRng(schedSeed)
	for len(eng.Net.Pending) > 0 {
		d := eng.Net.Take(rng.Intn(len(eng.Net.Pending)))
		eng.Deliver(d.To, d.Msg, "ok")
		out.Delivered++
		if out.Delivered > 20000 {
			out.Anomalies = append(out.Anomalies, "runaway session")
			break
		}
	}
	peers, peerRun, peerErr, peerDone := 0, 0, 0, 0
	for _, id := range ids {
		if !built[id] {
			continue
		}
		st := eng.Parties[id].Status()
		s := st.St
		if st.Err != nil {
			s += ": " + firstLine(st.Err.Error())
		}
		if eng.Parties[id].Dead {
			s = "dead (" + s + ")"
		}
		out.Parties[string(id)] = s
		if id != t.self {
			peers++
			switch st.St {
			case "run":
				peerRun++
			case "err":
				peerErr++
			default:
				peerDone++
			}
		}
	}
	out.Anomalies = append(out.Anomalies, eng.Anomalies...)
	selfPanic, peerPanic, hang := false, false, false
	for _, a := range out.Anomalies {
		switch {
		case strings.HasPrefix(a, "panic in "+string(t.self)+":"):
			selfPanic = true
		case strings.HasPrefix(a, "panic in "):
			peerPanic = true
		case strings.HasPrefix(a, "hang") || strings.HasPrefix(a, "runaway"):
			hang = true
		}
	}
	selfSt := "absent"
	if built[t.self] {
		selfSt = eng.Parties[t.self].Status().St
	}
	switch {
	case peerPanic:
		out.Then = "peer-panic"
	case selfPanic:
		out.Then = "self-panic"
	case hang:
		out.Then = "hang"
	case peerRun > 0:
		out.Then = "peer-stall"
	case len(ids) == 1:
		out.Then = "alone-" + selfSt
	case peers == 0:
		out.Then = "peers-refuse"
	case peerErr > 0 || selfSt == "err":
		out.Then = "aborts"
	case selfSt == "run":
		out.Then = "self-stall"
	default:
		out.Then = "completes"
	}
	return out
}

var severity = map[string]int{"peer-panic": 9, "self-panic": 8, "hang": 7, "peer-stall": 6, "self-stall": 5, "completes": 4, "aborts": 3, "peers-refuse": 2}

// runWorst runs the session under n delivery schedules (what a bad start leads to depends on the order in which
// messages arrive) and keeps the most severe outcome.
func (e *env) runWorst(c *Case, t params, schedSeed uint64, n int) *RunOut {
	var worst *RunOut
	for i := 0; i < n; i++ {
		o := e.runSession(c, t, schedSeed+uint64(i)*7919)
		if worst == nil || severity[o.Then] > severity[worst.Then] {
			worst = o
		}
		if severity[worst.Then] >= 9 {
			break
		}
	}
	return worst
}

func isCmp(f string) bool { return strings.HasPrefix(f, "cmp.") }

func main() {
	casesPath := flag.String("cases", "", "jsonl file of cases printed by StartParams.tla")
	start := flag.String("start", "", "only this start function")
	outPath := flag.String("out", "", "result json")
	seed := flag.Int64("seed", 0, "seed")
	maxuF := flag.Int64("maxu", 1000000, "model stand-in for MaxUint32")
	from := flag.Int("from", 0, "skip cases with an index below this (resume)")
	progress := flag.String("progress", "", "file receiving the index of the case being evaluated")
	runCap := flag.Int("runcap", 200, "maximum number of sessions run after an accepted invalid start")
	cmpRunCap := flag.Int("cmpruncap", 3, "the same for CMP start functions (their sessions take seconds)")
	eitherPairs := flag.Bool("eitherpairs", true, "also run the session for accepted pairs expected 'either'")
	memGB := flag.Int("memgb", 8, "address space limit in GiB (0: none)")
	caseTimeout := flag.Int("casetimeout", 150, "seconds after which a single case is declared hung")
	schedules := flag.Int("schedules", 3, "delivery schedules tried per session (the worst outcome is kept; CMP: 1)")
	startTimeout := flag.Int("starttimeout", 30, "seconds after which a handler construction is declared hung")
	callTimeout := flag.Int("calltimeout", 60, "seconds after which a call into a handler during a session is declared hung")
	verbose := flag.Bool("v", false, "print every result")
	flag.Parse()
	maxu = *maxuF
	sim.CallTimeout = time.Duration(*callTimeout) * time.Second
	seedS = fmt.Sprint(*seed)
	sid = []byte("c20-session-" + seedS)
	if *memGB > 0 {
		lim := uint64(*memGB) << 30
		_ = syscall.Setrlimit(syscall.RLIMIT_AS, &syscall.Rlimit{Cur: lim, Max: lim})
	}
	fh, err := os.Open(*casesPath)
	if err != nil {
		fatal("%v", err)
	}
	var cases []*Case
	sc := bufio.NewScanner(fh)
	sc.Buffer(make([]byte, 1<<20), 1<<20)
	for sc.Scan() {
		if len(strings.TrimSpace(sc.Text())) == 0 {
			continue
		}
		c := &Case{}
		if err := json.Unmarshal(sc.Bytes(), c); err != nil {
			fatal("bad case line: %v", err)
		}
		if *start == "" || c.F == *start {
			cases = append(cases, c)
		}
	}
	fh.Close()
	sort.SliceStable(cases, func(i, j int) bool { return len(cases[i].Ch) < len(cases[j].Ch) }) // singles before pairs

	e := &env{}
	var results []*Result
	accRuns := 0
	next := 0
	current := make(chan int, 1)
	go func() { // watchdog
		idx, since := -1, time.Now()
		for {
			select {
			case i := <-current:
				idx, since = i, time.Now()
			case <-time.After(time.Second):
				if idx >= 0 && time.Since(since) > time.Duration(*caseTimeout)*time.Second {
					fmt.Fprintf(os.Stderr, "startdrv: WATCHDOG case index %d exceeded %d s\n", idx, *caseTimeout)
					os.Exit(3)
				}
			}
		}
	}()
	flush := func(done bool) {
		if *outPath == "" {
			return
		}
		b, _ := json.Marshal(map[string]interface{}{"results": results, "done": done, "sessions": e.sessions, "cases": len(cases), "next": next})
		_ = os.WriteFile(*outPath+".tmp", b, 0o644)
		_ = os.Rename(*outPath+".tmp", *outPath)
	}
	for idx, c := range cases {
		if idx < *from {
			continue
		}
		if *progress != "" {
			_ = os.WriteFile(*progress, []byte(fmt.Sprintf("%d %d", idx, c.ID)), 0o644)
		}
		current <- idx
		roles := []string{""}
		if c.F == "doerner.Keygen" {
			roles = []string{"recv", "send"}
		}
		for _, role := range roles {
			t0 := time.Now()
			t := testedParams(c, role)
			r := &Result{ID: c.ID, F: c.F, Role: role, Exp: c.Exp}
			r.Param, r.Singles = paramLabel(c)
			// construction runs on its own goroutine: a constructor that never returns must not take the driver with it
			type built struct {
				err error
				pv  string
			}
			bch := make(chan built, 1)
			mk := e.maker(c.F, t)
			rnd := sim.NewDetReader(fmt.Sprintf("start/%s/%d", seedS, c.ID))
			go func() {
				_, err, pv := sim.NewParty(t.self, rnd, mk)
				bch <- built{err, pv}
			}()
			var err error
			var pv string
			hung := false
			select {
			case b := <-bch:
				err, pv = b.err, b.pv
			case <-time.After(time.Duration(*startTimeout) * time.Second):
				hung = true
			}
			if hung {
				// the stuck goroutine still holds the harness's random-source lock: record, and let the caller restart after this case
				buf := make([]byte, 1<<20)
				buf = buf[:runtime.Stack(buf, true)]
				r.Got, r.Class, r.Case = "hang", "hang", c
				r.Text = fmt.Sprintf("handler construction did not return within %d s", *startTimeout)
				for _, g := range strings.Split(string(buf), "\n\n") {
					if strings.Contains(g, "sim.NewParty") && strings.Contains(g, "pkg/protocol.New") {
						if st := panicSite(g); st != "" {
							r.Text += " [blocked in " + st + "]"
						}
					}
				}
				r.Ms = time.Since(t0).Milliseconds()
				results = append(results, r)
				if *verbose {
					b, _ := json.Marshal(r)
					fmt.Println(string(b))
				}
				next = idx + 1
				flush(false)
				fmt.Printf("startdrv: case index %d hung at construction; restart from %d\n", idx, next)
				os.Exit(4)
			}
			switch {
			case pv != "":
				r.Got, r.Text = "panic", firstLine(pv)
				if s := panicSite(pv); s != "" {
					r.Text += " [" + s + "]"
				}
			case err != nil:
				r.Got, r.Text = "error", firstLine(err.Error())
			default:
				r.Got = "accept"
			}
			wantRun := false
			switch {
			case r.Got == "panic":
				r.Class = "panic"
			case r.Got == "accept" && c.Exp == "error":
				r.Class = "accepted-invalid"
				limit := *runCap
				if isCmp(c.F) {
					limit = *cmpRunCap
				}
				if accRuns < limit {
					accRuns++
					wantRun = true
				} else {
					r.RunSkip = "budget"
				}
			case r.Got == "error" && c.Exp == "accept":
				r.Class = "rejected-valid"
			case r.Got == "accept" && c.Exp == "either":
				if len(c.Ch) <= 1 || *eitherPairs {
					wantRun = true
				} else {
					r.RunSkip = "either-pair"
				}
			}
			if wantRun {
				n := *schedules
				if isCmp(c.F) {
					n = 1
				}
				r.Run = e.runWorst(c, t, uint64(*seed)*1000003+uint64(c.ID), n)
				if c.Exp == "either" {
					switch r.Run.Then {
					case "peer-panic", "self-panic", "hang", "peer-stall":
						r.Class = "crash-or-stall"
					}
				}
			}
			r.Ms = time.Since(t0).Milliseconds()
			if r.Class != "" {
				r.Case = c
			}
			results = append(results, r)
			if *verbose {
				b, _ := json.Marshal(r)
				fmt.Println(string(b))
			}
			if r.Run != nil && r.Run.Then == "hang" { // same reason as above: the stuck call holds the random-source lock
				next = idx + 1
				flush(false)
				fmt.Printf("startdrv: case index %d hung during the session; restart from %d\n", idx, next)
				os.Exit(4)
			}
		}
		next = idx + 1
		flush(false)
	}
	current <- -1
	flush(true)
	nf := 0
	for _, r := range results {
		if r.Class != "" {
			nf++
		}
	}
	fmt.Printf("startdrv: %d cases, %d evaluations, %d non-conforming, %d sessions run\n", len(cases), len(results), nf, e.sessions)
}
