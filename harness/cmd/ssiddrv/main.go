// ssiddrv binds Session.tla to the code: for every parameter tuple TLC printed, the SSID of a real session must be
// blake3 over exactly the byte string the specification describes, and different tuples must give different SSIDs.
package main

import (
	"bufio"
	"encoding/binary"
	"encoding/hex"
	"encoding/json"
	"flag"
	"fmt"
	"github.com/cronokirby/saferith"
	"github.com/taurusgroup/multi-party-sig/pkg/pedersen"
	"github.com/taurusgroup/multi-party-sig/protocols/cmp"
	"os"
	"strings"

	"github.com/taurusgroup/multi-party-sig/internal/round"
	"github.com/taurusgroup/multi-party-sig/pkg/party"
	"github.com/taurusgroup/multi-party-sig/pkg/protocol"
	"github.com/taurusgroup/multi-party-sig/protocols/doerner"
	"github.com/taurusgroup/multi-party-sig/protocols/example"
	"github.com/taurusgroup/multi-party-sig/protocols/frost"
	"github.com/taurusgroup/multi-party-sig/verifharness/oracle"
	"github.com/taurusgroup/multi-party-sig/verifharness/protos"
	"github.com/taurusgroup/multi-party-sig/verifharness/sim"
)

type tag struct {
	Sid     string   `json:"sid"`
	Proto   string   `json:"proto"`
	Group   bool     `json:"group"`
	IDs     []string `json:"ids"`
	Thr     int      `json:"thr"`
	IDSlice []int    `json:"idslice"`
}

type failure struct {
	Case   string `json:"case"`
	What   string `json:"what"`
	Detail string `json:"detail"`
}

func sidBytes(s string) []byte {
	switch s {
	case "nil":
		return nil
	case "empty":
		return []byte{}
	}
	return []byte(s)
}

func firstSSID(mk protos.Maker, id party.ID) []byte {
	p, err, pv := sim.NewParty(id, sim.NewDetReader("ssid-table"), mk)
	if err != nil || pv != "" {
		return nil
	}
	for _, m := range p.Drain() {
		return m.SSID
	}
	// two-party followers emit nothing at construction: read the tag from the snapshot-free path by accepting nothing;
	// fall back to the handler's String-less API: not available -> nil
	return nil
}

// protocolTable starts every protocol of the library with participants {a, b} (threshold 1) and the same session id.
func protocolTable() map[string][]byte {
	out := map[string][]byte{}
	if err := protos.InstallPrimeSource("/verif/fixtures/safeprimes.json"); err != nil {
		return out
	}
	ids := []party.ID{"a", "b"}
	sid := []byte("one-sid")
	add := func(name string, s *protos.Session, who party.ID) {
		if ssid := firstSSID(s.Makers[who], who); ssid != nil {
			out[name] = ssid
		}
	}
	add("example/xor", protos.Xor(ids, sid), "a")
	add("frost.Keygen", protos.FrostKeygen(ids, 1, false, sid), "a")
	add("frost.KeygenTaproot", protos.FrostKeygen(ids, 1, true, sid), "a")
	if r, err := protos.Run(protos.FrostKeygen(ids, 1, false, nil), protos.RunOpts{Seed: "tbl"}); err == nil && r.AllDone() {
		add("frost.Refresh", protos.FrostRefresh(protos.CloneConfigs(r.Results), sid), "a")
		add("frost.Sign", protos.FrostSign(protos.CloneConfigs(r.Results), ids, []byte("m"), sid), "a")
	}
	if r, err := protos.Run(protos.FrostKeygen(ids, 1, true, nil), protos.RunOpts{Seed: "tbl"}); err == nil && r.AllDone() {
		add("frost.RefreshTaproot", protos.FrostRefresh(protos.CloneConfigs(r.Results), sid), "a")
		add("frost.SignTaproot", protos.FrostSign(protos.CloneConfigs(r.Results), ids, []byte("m"), sid), "a")
	}
	add("doerner.Keygen", protos.DoernerKeygen("a", "b", sid), "a")
	if r, err := protos.Run(protos.DoernerKeygen("a", "b", nil), protos.RunOpts{Seed: "tbl"}); err == nil && r.AllDone() {
		cr, cs := r.Results["a"].(*doerner.ConfigReceiver), r.Results["b"].(*doerner.ConfigSender)
		add("doerner.Refresh", protos.DoernerRefresh("a", "b", cr, cs, sid), "a")
		add("doerner.Sign", protos.DoernerSign("a", "b", cr, cs, []byte("m"), sid), "a")
	}
	cfgs := protos.DealCmp(ids, 1, "tbl")
	add("cmp.Keygen", protos.CmpKeygen(ids, 1, sid), "a")
	add("cmp.Refresh", protos.CmpRefresh(protos.CloneConfigs(cfgs), sid), "a")
	add("cmp.Sign", protos.CmpSign(protos.CloneConfigs(cfgs), ids, []byte("m"), sid), "a")
	add("cmp.Presign", protos.CmpPresign(protos.CloneConfigs(cfgs), ids, sid), "a")
	return out
}

// auxSensitivity: the key material is part of a CMP session's parameters (Session.tla: AuxFields).  Two configurations
// that differ in exactly ONE of the listed fields of one peer's public entry (or in the RID) must give different tags,
// for every start function that takes a configuration.  The alternative values are valid ones, taken from an
// independently dealt key.
func auxSensitivity(fields []string) (fails []failure, evals int) {
	ids := []party.ID{"a", "b"}
	sid := []byte("aux")
	base := protos.DealCmp(ids, 1, "aux-base")
	donor := protos.DealCmp(ids, 1, "aux-donor")
	starts := map[string]func(c map[party.ID]interface{}) *protos.Session{
		"cmp.Refresh": func(c map[party.ID]interface{}) *protos.Session { return protos.CmpRefresh(c, sid) },
		"cmp.Sign":    func(c map[party.ID]interface{}) *protos.Session { return protos.CmpSign(c, ids, []byte("m"), sid) },
		"cmp.Presign": func(c map[party.ID]interface{}) *protos.Session { return protos.CmpPresign(c, ids, sid) },
	}
	tagOf := func(name string, c map[party.ID]interface{}) []byte {
		return firstSSID(starts[name](c).Makers["a"], "a")
	}
	for name := range starts {
		ref := tagOf(name, protos.CloneConfigs(base))
		if ref == nil {
			fails = append(fails, failure{name, "start-fails", "the unmodified configuration does not start"})
			continue
		}
		for _, f := range fields {
			c := protos.CloneConfigs(base)
			ca := c["a"].(*cmp.Config)
			d := donor["a"].(*cmp.Config)
			switch f {
			case "rid":
				ca.RID = d.RID
			case "ecdsa":
				ca.Public["b"].ECDSA = d.Public["b"].ECDSA
			case "elgamal":
				ca.Public["b"].ElGamal = d.Public["b"].ElGamal
			case "paillier":
				// the Pedersen parameters live in the same modulus: both move together
				ca.Public["b"].Paillier = d.Public["b"].Paillier
				ca.Public["b"].Pedersen = d.Public["b"].Pedersen
			case "pedersen":
				pp := ca.Public["b"].Pedersen
				s2 := new(saferith.Nat).ModMul(pp.S(), pp.S(), pp.N())
				t2 := new(saferith.Nat).ModMul(pp.T(), pp.T(), pp.N())
				ca.Public["b"].Pedersen = pedersen.New(pp.NArith(), s2, t2)
			default:
				continue // threshold and participants are coordinates of the tag tuples above
			}
			evals++
			got := tagOf(name, c)
			if got == nil {
				continue // the start function refuses the altered configuration: no session, no tag
			}
			if hex.EncodeToString(got) == hex.EncodeToString(ref) {
				fails = append(fails, failure{name + " / " + f, "aux-field-not-in-tag",
					fmt.Sprintf("%s: two configurations that differ only in the field %q of a peer's public key material start sessions with the same tag", name, f)})
			}
		}
	}
	return
}

func main() {
	auxf := flag.String("auxfields", "", "comma-separated key material fields of Session.tla (AuxFields)")
	in := flag.String("tags", "", "TAG lines (JSON)")
	out := flag.String("out", "", "summary")
	flag.Parse()
	f, err := os.Open(*in)
	if err != nil {
		fmt.Fprintln(os.Stderr, err)
		os.Exit(2)
	}
	sc := bufio.NewScanner(f)
	sc.Buffer(make([]byte, 1<<20), 1<<26)
	var fails []failure
	evals, realized := 0, 0
	seen := map[string]string{}
	var samples []json.RawMessage
	for sc.Scan() {
		line := strings.TrimSpace(sc.Text())
		if line == "" {
			continue
		}
		var t tag
		if err := json.Unmarshal([]byte(line), &t); err != nil {
			fmt.Fprintln(os.Stderr, "bad tag", err)
			os.Exit(2)
		}
		evals++
		var ids []party.ID
		for _, s := range t.IDs {
			ids = append(ids, party.ID(s))
		}
		n := len(ids)
		var sf protocol.StartFunc
		switch t.Proto {
		case "example/xor":
			if t.Group || t.Thr != 0 {
				continue // the example protocol has no group and threshold 0
			}
			sf = example.StartXOR(ids[0], party.NewIDSlice(ids))
		case "frost/keygen-threshold":
			if !t.Group || t.Thr > n-1 {
				continue
			}
			sf = frost.Keygen(protos.Group, ids[0], ids, t.Thr)
		case "frost/keygen-threshold-taproot":
			if !t.Group || t.Thr > n-1 {
				continue
			}
			sf = frost.KeygenTaproot(ids[0], ids, t.Thr)
		default:
			continue
		}
		p, err, pv := sim.NewParty(ids[0], sim.NewDetReader("ssid"), func() (protocol.Handler, error) {
			h, err := protocol.NewMultiHandler(sf, sidBytes(t.Sid))
			if err != nil {
				return nil, err
			}
			return h, nil
		})
		if err != nil || pv != "" {
			fails = append(fails, failure{line, "start-fails", fmt.Sprint(err, pv)})
			continue
		}
		msgs := p.Drain()
		if len(msgs) == 0 {
			fails = append(fails, failure{line, "no-message", "the handler emitted nothing"})
			continue
		}
		real := msgs[0].SSID
		realized++
		if len(samples) < 3 {
			samples = append(samples, json.RawMessage(line))
		}
		// the bytes the specification describes
		tr := oracle.NewTranscript()
		if t.Sid != "nil" {
			tr.Write("Session ID", sidBytes(t.Sid))
		}
		tr.Write("Protocol ID", []byte(t.Proto))
		if t.Group {
			tr.Write("Group Name", []byte("secp256k1"))
		}
		data := make([]byte, len(t.IDSlice))
		for i, b := range t.IDSlice {
			data[i] = byte(b)
		}
		tr.Write("IDSlice", data)
		var thr [4]byte
		binary.BigEndian.PutUint32(thr[:], uint32(t.Thr))
		tr.Write("Threshold", thr[:])
		want := tr.Sum()
		if hex.EncodeToString(want) != hex.EncodeToString(real) {
			fails = append(fails, failure{line, "ssid-mismatch", "the real SSID is not the hash of the byte string Session.tla describes"})
		}
		key := hex.EncodeToString(real)
		canon := fmt.Sprintf("%s|%s|%v|%q|%d", t.Sid, t.Proto, t.Group, t.IDs, t.Thr)
		if prev, ok := seen[key]; ok && prev != canon {
			fails = append(fails, failure{line, "ssid-collision", "two different parameter tuples give the same real SSID: " + prev + " and " + canon})
		}
		seen[key] = canon
	}
	// the protocol dimension on ALL start functions: same participants and session id, every protocol must get its own tag
	table := protocolTable()
	byTag := map[string]string{}
	for name, ssid := range table {
		k := hex.EncodeToString(ssid)
		if other, ok := byTag[k]; ok {
			a, b := name, other
			if b < a {
				a, b = b, a
			}
			fails = append(fails, failure{a + " / " + b, "protocol-tag-collision", "two different protocols started with the same participants and session id share one session tag: " + a + " and " + b})
		}
		byTag[k] = name
	}
	evals += len(table)
	realized += len(table)
	// the per-party Fiat-Shamir context: different parties of one session never share a context, also for
	// identifiers that differ only by trailing NUL bytes, a shared prefix or case
	ctxIDs := []party.ID{"a", "a\x00", "a\x00\x00", "ab", "b", "a ", "A", "\x00a"}
	if helper, err := round.NewSession(round.Info{ProtocolID: "verif/ctx", FinalRoundNumber: 2, SelfID: "a", PartyIDs: ctxIDs, Threshold: 1, Group: protos.Group}, []byte("sid"), nil); err == nil {
		seenCtx := map[string]party.ID{}
		for _, id := range ctxIDs {
			k := hex.EncodeToString(helper.HashForID(id).Sum())
			if other, ok := seenCtx[k]; ok {
				fails = append(fails, failure{fmt.Sprintf("%q / %q", other, id), "party-context-collision", fmt.Sprintf("parties %q and %q of one session get the same Fiat-Shamir context: a proof made by one verifies for the other", other, id)})
			}
			seenCtx[k] = id
			evals++
			realized++
		}
	} else {
		fails = append(fails, failure{"ctx", "start-fails", err.Error()})
	}
	if *auxf != "" {
		af, n := auxSensitivity(strings.Split(*auxf, ","))
		fails = append(fails, af...)
		evals += n
		realized += n
	}
	res := map[string]interface{}{"evaluations": evals, "realized": realized, "failures": fails, "samples": samples, "protocols": len(table)}
	b, _ := json.MarshalIndent(res, "", " ")
	if *out != "" {
		os.WriteFile(*out, b, 0o644)
	} else {
		fmt.Println(string(b))
	}
}
