// racedrv (built with -race) runs pairs of handler API methods from two goroutines against a live real session,
// while a third goroutine drives the session, so that Go's race detector can observe unsynchronised access.
// It also checks lifecycle predicates under concurrency: no panic, channel closed exactly once, Result stable.
package main

import (
	"encoding/json"
	"flag"
	"fmt"
	"os"
	"strings"
	"sync"
	"time"

	"github.com/taurusgroup/multi-party-sig/pkg/party"
	"github.com/taurusgroup/multi-party-sig/pkg/pool"
	"github.com/taurusgroup/multi-party-sig/pkg/protocol"
	"github.com/taurusgroup/multi-party-sig/protocols/doerner"
	"github.com/taurusgroup/multi-party-sig/verifharness/protos"
)

type pairT struct {
	Handler string `json:"handler"`
	A       string `json:"a"`
	B       string `json:"b"`
}

func call(h protocol.Handler, method string, msgs []*protocol.Message, k int) {
	switch method {
	case "Accept":
		if len(msgs) > 0 {
			h.Accept(msgs[k%len(msgs)])
		}
	case "CanAccept":
		if len(msgs) > 0 {
			h.CanAccept(msgs[k%len(msgs)])
		}
	case "Listen":
		_ = h.Listen()
	case "Result":
		_, _ = h.Result()
	case "Stop":
		h.Stop()
	case "String":
		_ = fmt.Sprint(h)
	}
}

// run one pair against a fresh session; returns a problem description or "".
func runPair(p pairT, seed int) string {
	var sess *protos.Session
	ids := []party.ID{"a", "b", "c"}
	if p.Handler == "TwoPartyHandler" {
		sess = protos.DoernerKeygen("a", "b", []byte("race"))
		ids = []party.ID{"a", "b"}
	} else if seed%2 == 0 {
		sess = protos.FrostKeygen(ids, 1, false, []byte("race"))
	} else {
		sess = protos.Xor(ids, []byte("race"))
	}
	hs := map[party.ID]protocol.Handler{}
	for _, id := range ids {
		h, err := sess.Makers[id]()
		if err != nil {
			return "construct: " + err.Error()
		}
		hs[id] = h
	}
	focus := ids[0]
	var mu sync.Mutex
	var forFocus []*protocol.Message
	closes := map[party.ID]int{}
	var wg sync.WaitGroup
	stop := make(chan struct{})
	problem := ""
	note := func(s string) {
		mu.Lock()
		if problem == "" {
			problem = s
		}
		mu.Unlock()
	}
	guard := func(f func()) {
		defer func() {
			if r := recover(); r != nil {
				note(fmt.Sprintf("panic: %v", r))
			}
		}()
		f()
	}
	// network: every party's outgoing messages go to the inboxes of the others; one consumer per party calls Accept
	inbox := map[party.ID]chan *protocol.Message{}
	for _, id := range ids {
		inbox[id] = make(chan *protocol.Message, 4096)
	}
	for _, id := range ids {
		id := id
		wg.Add(2)
		go func() {
			defer wg.Done()
			ch := hs[id].Listen()
			for {
				select {
				case m, ok := <-ch:
					if !ok {
						mu.Lock()
						closes[id]++
						mu.Unlock()
						return
					}
					for _, to := range ids {
						if m.IsFor(to) {
							if to == focus {
								mu.Lock()
								forFocus = append(forFocus, m)
								mu.Unlock()
							}
							select {
							case inbox[to] <- m:
							default:
							}
						}
					}
				case <-stop:
					return
				}
			}
		}()
		go func() {
			defer wg.Done()
			for {
				select {
				case m := <-inbox[id]:
					guard(func() { hs[id].Accept(m) })
				case <-stop:
					return
				}
			}
		}()
	}
	// the two racing callers on the focus party
	for _, method := range []string{p.A, p.B} {
		method := method
		wg.Add(1)
		go func() {
			defer wg.Done()
			for k := 0; k < 300; k++ {
				select {
				case <-stop:
					return
				default:
				}
				mu.Lock()
				msgs := append([]*protocol.Message(nil), forFocus...)
				mu.Unlock()
				if method == "Stop" && k < 5 {
					time.Sleep(200 * time.Microsecond) // let the session make some progress first
				}
				guard(func() { call(hs[focus], method, msgs, k) })
			}
		}()
	}
	done := make(chan struct{})
	go func() { time.Sleep(500 * time.Millisecond); close(stop); close(done) }()
	<-done
	wg.Wait()
	// Result must be stable now
	r1, e1 := hs[focus].Result()
	r2, e2 := hs[focus].Result()
	if fmt.Sprint(e1) != fmt.Sprint(e2) || (r1 == nil) != (r2 == nil) {
		note("Result changed between two calls after the end")
	}
	if p.A == "Stop" || p.B == "Stop" {
		if e1 != nil && strings.Contains(e1.Error(), "not finished") {
			note("Stop was called but the session is still 'not finished'")
		}
	}
	return problem
}

// runSession drives a session with one Accept goroutine and one Listen goroutine per party (system randomness, no
// simulation lock), until every party has a result or an error, or the time is up.  Returns a problem or "".
func runSession(sess *protos.Session, limit time.Duration) string {
	hs := map[party.ID]protocol.Handler{}
	for _, id := range sess.IDs {
		h, err := sess.Makers[id]()
		if err != nil {
			return "construct: " + err.Error()
		}
		hs[id] = h
	}
	var wg sync.WaitGroup
	stop := make(chan struct{})
	var mu sync.Mutex
	problem := ""
	note := func(s string) {
		mu.Lock()
		if problem == "" {
			problem = s
		}
		mu.Unlock()
	}
	inbox := map[party.ID]chan *protocol.Message{}
	for _, id := range sess.IDs {
		inbox[id] = make(chan *protocol.Message, 4096)
	}
	for _, id := range sess.IDs {
		id := id
		wg.Add(2)
		go func() {
			defer wg.Done()
			for {
				select {
				case m, ok := <-hs[id].Listen():
					if !ok {
						return
					}
					for _, to := range sess.IDs {
						if m.IsFor(to) {
							inbox[to] <- m
						}
					}
				case <-stop:
					return
				}
			}
		}()
		go func() {
			defer wg.Done()
			defer func() {
				if r := recover(); r != nil {
					note(fmt.Sprintf("panic in Accept: %v", r))
				}
			}()
			for {
				select {
				case m := <-inbox[id]:
					hs[id].Accept(m)
				case <-stop:
					return
				}
			}
		}()
	}
	deadline := time.Now().Add(limit)
	for {
		all := true
		for _, id := range sess.IDs {
			if _, err := hs[id].Result(); err != nil && strings.Contains(err.Error(), "not finished") {
				all = false
			}
		}
		if all || time.Now().After(deadline) {
			break
		}
		time.Sleep(5 * time.Millisecond)
	}
	close(stop)
	wg.Wait()
	for _, id := range sess.IDs {
		if _, err := hs[id].Result(); err != nil {
			note(fmt.Sprintf("honest session: party %s ends with %v", id, err))
		}
	}
	return problem
}

// pooledSession: CMP signing among three signers, every handler with its own pool of workers - the concurrency is
// inside the handler (proofs for different peers are computed and verified on different goroutines that hash the
// same public values).
func pooledSession(primes string, seed int) string {
	protos.InstallPrimeSource(primes)
	ids := []party.ID{"a", "b", "c"}
	cfgs := protos.CloneConfigs(protos.DealCmp(ids, 2, fmt.Sprintf("race%d", seed))) // clones: no object is shared between two parties
	protos.Pool = pool.NewPool(4)
	defer func() { protos.Pool.TearDown(); protos.Pool = nil }()
	return runSession(protos.CmpSign(cfgs, ids, []byte("race message"), []byte("race")), 600*time.Second)
}

// sharedKeySessions: two signing sessions of the same parties run at the same time on the same Config objects.
func sharedKeySessions(seed int) string {
	if seed%3 == 2 {
		return sharedDoernerSessions(seed)
	}
	ids := []party.ID{"a", "b", "c"}
	kg, err := protos.Run(protos.FrostKeygen(ids, 1, seed%2 == 1, []byte("race-kg")), protos.RunOpts{Seed: fmt.Sprintf("race%d", seed)})
	if err != nil || !kg.AllDone() {
		return "" // not this check's business
	}
	var wg sync.WaitGroup
	out := make([]string, 2)
	for k := 0; k < 2; k++ {
		k := k
		wg.Add(1)
		go func() {
			defer wg.Done()
			out[k] = runSession(protos.FrostSign(kg.Results, ids, []byte(fmt.Sprintf("message %d", k)), []byte(fmt.Sprintf("race-s%d", k))), 60*time.Second)
		}()
	}
	wg.Wait()
	return strings.TrimSpace(out[0] + " " + out[1])
}

// sharedDoernerSessions: three two-party signing sessions at the same time on the same configurations (one OT setup,
// distinct session ids): everything the sessions share - the setup, package-level state - is only read.
func sharedDoernerSessions(seed int) string {
	kg, err := protos.Run(protos.DoernerKeygen("a", "b", []byte("race-kg")), protos.RunOpts{Seed: fmt.Sprintf("race-d%d", seed)})
	if err != nil || !kg.AllDone() {
		return ""
	}
	cr, ok1 := kg.Results["a"].(*doerner.ConfigReceiver)
	cs, ok2 := kg.Results["b"].(*doerner.ConfigSender)
	if !ok1 || !ok2 {
		return ""
	}
	var wg sync.WaitGroup
	out := make([]string, 3)
	for k := range out {
		k := k
		wg.Add(1)
		go func() {
			defer wg.Done()
			out[k] = runSession(protos.DoernerSign("a", "b", cr, cs, []byte(fmt.Sprintf("message %d", k)), []byte(fmt.Sprintf("race-s%d", k))), 60*time.Second)
		}()
	}
	wg.Wait()
	return strings.TrimSpace(strings.Join(out, " "))
}

// stopStorm races the calls that END a session against each other on many fresh handlers: two goroutines
// released by a barrier call Stop / Stop, or Stop / Accept(abort notice). The window between "is it over?"
// and "end it" is tiny, so one live session is not enough to hit it.
func stopStorm(handler string, n int) string {
	problem := ""
	var mu sync.Mutex
	note := func(s string) {
		mu.Lock()
		if problem == "" {
			problem = s
		}
		mu.Unlock()
	}
	for k := 0; k < n && problem == ""; k++ {
		var sess *protos.Session
		var focus, peer party.ID = "a", "b"
		if handler == "TwoPartyHandler" {
			sess = protos.DoernerKeygen("a", "b", []byte("storm"))
			if k%2 == 1 {
				focus, peer = "b", "a"
			}
		} else {
			sess = protos.Xor([]party.ID{"a", "b", "c"}, []byte("storm"))
		}
		h, err := sess.Makers[focus]()
		if err != nil {
			return "construct: " + err.Error()
		}
		hp, err := sess.Makers[peer]()
		if err != nil {
			return "construct: " + err.Error()
		}
		// an abort notice of the peer
		hp.Stop()
		var notice *protocol.Message
		for m := range hp.Listen() {
			if m.RoundNumber == 0 {
				notice = m
			}
		}
		go func() {
			for range h.Listen() {
			}
		}()
		start := make(chan struct{})
		var wg sync.WaitGroup
		for g := 0; g < 3; g++ {
			g := g
			wg.Add(1)
			go func() {
				defer wg.Done()
				defer func() {
					if r := recover(); r != nil {
						note(fmt.Sprintf("panic: %v", r))
					}
				}()
				<-start
				if g == 2 && notice != nil && k%3 == 0 {
					h.Accept(notice)
				} else {
					h.Stop()
				}
			}()
		}
		close(start)
		wg.Wait()
		if _, err := h.Result(); err == nil || strings.Contains(err.Error(), "not finished") {
			note("Stop was called but the session did not end with an error")
		}
	}
	return problem
}

func main() {
	in := flag.String("pairs", "", "JSON list of pairs")
	out := flag.String("out", "", "summary")
	seed := flag.Int("seed", 0, "seed")
	storm := flag.Int("storm", 1500, "fresh handlers per handler type for the Stop storm")
	pooled := flag.Int("pooled", 0, "CMP signing sessions with worker pools")
	shared := flag.Int("shared", 0, "pairs of concurrent signing sessions on shared key material")
	primes := flag.String("primes", "/verif/fixtures/safeprimes.json", "safe primes")
	flag.Parse()
	var pairs []pairT
	raw, err := os.ReadFile(*in)
	if err != nil || json.Unmarshal(raw, &pairs) != nil {
		fmt.Fprintln(os.Stderr, "racedrv: bad pairs file")
		os.Exit(2)
	}
	type res struct {
		Pair    pairT  `json:"pair"`
		Problem string `json:"problem"`
	}
	var results []res
	for i, p := range pairs {
		fmt.Fprintf(os.Stderr, "PAIR-BEGIN %s %s %s\n", p.Handler, p.A, p.B)
		results = append(results, res{p, runPair(p, *seed+i)})
		fmt.Fprintf(os.Stderr, "PAIR-END %s %s %s\n", p.Handler, p.A, p.B)
	}
	for _, hname := range []string{"MultiHandler", "TwoPartyHandler"} {
		p := pairT{Handler: hname, A: "Stop", B: "Stop/Accept(notice) storm"}
		fmt.Fprintf(os.Stderr, "PAIR-BEGIN %s %s %s\n", p.Handler, "Stop", "storm")
		results = append(results, res{p, stopStorm(hname, *storm)})
		fmt.Fprintf(os.Stderr, "PAIR-END %s %s %s\n", p.Handler, "Stop", "storm")
	}
	for k := 0; k < *shared; k++ {
		p := pairT{Handler: "MultiHandler", A: "session", B: "shared-config"}
		fmt.Fprintf(os.Stderr, "PAIR-BEGIN %s %s %s\n", p.Handler, p.A, p.B)
		results = append(results, res{p, sharedKeySessions(*seed + k)})
		fmt.Fprintf(os.Stderr, "PAIR-END %s %s %s\n", p.Handler, p.A, p.B)
	}
	for k := 0; k < *pooled; k++ {
		p := pairT{Handler: "MultiHandler", A: "session", B: "worker-pool"}
		fmt.Fprintf(os.Stderr, "PAIR-BEGIN %s %s %s\n", p.Handler, p.A, p.B)
		results = append(results, res{p, pooledSession(*primes, *seed+k)})
		fmt.Fprintf(os.Stderr, "PAIR-END %s %s %s\n", p.Handler, p.A, p.B)
	}
	b, _ := json.MarshalIndent(results, "", " ")
	os.WriteFile(*out, b, 0o644)
}
