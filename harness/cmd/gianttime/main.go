// gianttime: how long do the library's first touches of a peer-supplied big number take when it is half a megabyte long?
package main

import (
	"fmt"
	"time"

	"github.com/cronokirby/saferith"
	"github.com/taurusgroup/multi-party-sig/pkg/math/arith"
	"github.com/taurusgroup/multi-party-sig/pkg/paillier"
	"github.com/taurusgroup/multi-party-sig/pkg/zk"
)

func main() {
	b := make([]byte, 512<<10)
	for i := range b {
		b[i] = byte(0x51 + i%7)
	}
	pk := zk.ProverPaillierPublic
	t := time.Now()
	ct := &paillier.Ciphertext{}
	err := ct.UnmarshalBinary(b)
	fmt.Println("Ciphertext.UnmarshalBinary", time.Since(t), err)
	t = time.Now()
	ok := pk.ValidateCiphertexts(ct)
	fmt.Println("ValidateCiphertexts", time.Since(t), ok)
	n := new(saferith.Nat).SetBytes(b)
	t = time.Now()
	ok = arith.IsValidNatModN(pk.N(), n)
	fmt.Println("IsValidNatModN", time.Since(t), ok)
}
