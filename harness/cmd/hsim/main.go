// hsim drives real handlers: it replays delivery orders enumerated by TLC (HandlerLocal.tla) on a real
// handler, and records traces of randomly scheduled real sessions for validation against Handler.tla.
package main

import (
	"bufio"
	"encoding/json"
	"flag"
	"fmt"
	"github.com/taurusgroup/multi-party-sig/verifharness/fault"
	"os"
	"sort"
	"strconv"
	"strings"

	"github.com/taurusgroup/multi-party-sig/pkg/party"
	"github.com/taurusgroup/multi-party-sig/pkg/protocol"
	"github.com/taurusgroup/multi-party-sig/verifharness/protos"
	"github.com/taurusgroup/multi-party-sig/verifharness/sim"
	"github.com/taurusgroup/multi-party-sig/verifharness/toy"
)

func fatal(f string, a ...interface{}) {
	fmt.Fprintf(os.Stderr, "hsim: "+f+"\n", a...)
	os.Exit(2)
}

var names = []party.ID{"a", "b", "c", "d", "e", "f"}

// build constructs a session of the named protocol for n parties.
func build(proto string, n int, seed string, sid []byte) *protos.Session {
	ids := append([]party.ID(nil), names[:n]...)
	switch {
	case strings.HasPrefix(proto, "toy:"):
		sh, err := toy.ParseShape(proto[4:])
		if err != nil {
			fatal("%v", err)
		}
		return protos.Toy(ids, sh, sid)
	case proto == "xor":
		return protos.Xor(ids, sid)
	case proto == "frost-keygen":
		return protos.FrostKeygen(ids, (n-1)/2+((n-1)%2), false, sid)
	case proto == "taproot-keygen":
		return protos.FrostKeygen(ids, (n-1)/2+((n-1)%2), true, sid)
	case proto == "frost-sign" || proto == "taproot-sign":
		kg := protos.FrostKeygen(ids, n-1, proto == "taproot-sign", []byte("kg"))
		r, err := protos.Run(kg, protos.RunOpts{Seed: seed + "/kg"})
		if err != nil || !r.AllDone() {
			fatal("keygen for %s failed: %v %s", proto, err, r.Describe())
		}
		return protos.FrostSign(r.Results, ids, []byte("message to sign"), sid)
	case proto == "doerner-keygen":
		return protos.DoernerKeygen("a", "b", sid)
	case proto == "cmp-keygen":
		return protos.CmpKeygen(ids, n-1, sid)
	}
	fatal("unknown protocol %q", proto)
	return nil
}

type slotKey struct {
	From string
	Rd   int
	B    bool
}

type histItem struct {
	From string `json:"from"`
	Rd   int    `json:"rd"`
	B    bool   `json:"b"`
	Kind string `json:"kind"`
}

type failure struct {
	Case   string `json:"case"`
	What   string `json:"what"`
	Detail string `json:"detail"`
}

func canonMsgs(ms []*protocol.Message) []string {
	var out []string
	for _, m := range ms {
		out = append(out, protos.Canon(m))
	}
	sort.Strings(out)
	return out
}

// reference runs the session FIFO and returns, for the focus party, the messages delivered to it by slot,
// its emitted messages and its result.
func reference(s *protos.Session, seed string, focus party.ID) (map[slotKey]*protocol.Message, []string, string, *protos.RunResult) {
	r, err := protos.Run(s, protos.RunOpts{Seed: seed})
	if err != nil || !r.AllDone() {
		fatal("reference run failed: %v %s", err, r.Describe())
	}
	slots := map[slotKey]*protocol.Message{}
	for _, id := range s.IDs {
		if id == focus {
			continue
		}
		for _, m := range r.Engine.Parties[id].Emitted {
			if m.IsFor(focus) && m.RoundNumber > 0 {
				slots[slotKey{string(m.From), int(m.RoundNumber), m.Broadcast}] = m
			}
		}
	}
	return slots, canonMsgs(r.Engine.Parties[focus].Emitted), protos.Canon(r.Results[focus]), r
}

// commonResult: protocols whose parties all output the same value (the XOR of the contributions, a signature).
// The in-order run every other order is compared with must itself be right: its parties must agree.
func commonResult(proto string) bool {
	return proto == "xor" || strings.HasSuffix(proto, "-sign")
}

func referenceAgrees(proto string, r *protos.RunResult) string {
	if !commonResult(proto) {
		return ""
	}
	first, who := "", party.ID("")
	for id, res := range r.Results {
		c := protos.Canon(res)
		if first == "" {
			first, who = c, id
		} else if c != first {
			return fmt.Sprintf("the parties of the in-order run do not output the same value: %s and %s differ", who, id)
		}
	}
	return ""
}

func cmdOrders(args []string) {
	fs := flag.NewFlagSet("orders", flag.ExitOnError)
	proto := fs.String("proto", "toy:b,bm", "protocol")
	n := fs.Int("n", 3, "parties")
	focus := fs.String("focus", "a", "focus party")
	histFile := fs.String("hist", "", "file with one JSON history per line")
	out := fs.String("out", "", "summary output")
	seed := fs.String("seed", "0", "seed label")
	badSlot := fs.String("bad", "", "bad mode: from/round/broadcast of the slot whose message is made to fail verification; histories are HISTB records")
	fs.Parse(args)
	F := party.ID(*focus)
	var badKey *slotKey
	if *badSlot != "" {
		parts := strings.Split(*badSlot, "/")
		if len(parts) != 3 {
			fatal("bad slot %q", *badSlot)
		}
		rd, _ := strconv.Atoi(parts[1])
		badKey = &slotKey{parts[0], rd, parts[2] == "true"}
	}

	sess := build(*proto, *n, *seed, []byte("sid-A"))
	slots, refEm, refRes, refRun := reference(sess, *seed, F)
	other := build(*proto, *n, *seed, []byte("sid-B"))
	oslots, _, _, _ := reference(other, *seed, F)
	var fails []failure
	if why := referenceAgrees(*proto, refRun); why != "" {
		fails = append(fails, failure{Case: "in-order run", What: "reference-results-differ", Detail: why})
	}

	f, err := os.Open(*histFile)
	if err != nil {
		fatal("%v", err)
	}
	defer f.Close()
	sc := bufio.NewScanner(f)
	sc.Buffer(make([]byte, 1<<20), 1<<26)
	evals, nontrivial := 0, 0
	distinct := map[string]bool{}
	var samples []json.RawMessage
	for sc.Scan() {
		line := strings.TrimSpace(sc.Text())
		if line == "" {
			continue
		}
		var hist []histItem
		var post struct {
			St   string   `json:"st"`
			Ek   string   `json:"ek"`
			Culp []string `json:"culp"`
		}
		if badKey != nil {
			var rec struct {
				Items []histItem      `json:"items"`
				Post  json.RawMessage `json:"post"`
			}
			if err := json.Unmarshal([]byte(line), &rec); err != nil || json.Unmarshal(rec.Post, &post) != nil {
				fatal("bad history record %q: %v", line, err)
			}
			hist = rec.Items
		} else if err := json.Unmarshal([]byte(line), &hist); err != nil {
			fatal("bad history %q: %v", line, err)
		}
		evals++
		if !distinct[line] {
			distinct[line] = true
			if len(hist) > 1 {
				nontrivial++
			}
		}
		if len(samples) < 3 {
			samples = append(samples, json.RawMessage(line))
		}
		fail := func(what, detail string) {
			if len(fails) < 50 {
				fails = append(fails, failure{Case: line, What: what, Detail: detail})
			}
		}
		p, err, pv := sim.NewParty(F, sim.NewDetReader(*seed+"/"+string(F)), sess.Makers[F])
		if err != nil || pv != "" {
			fail("construct", fmt.Sprint(err, pv))
			continue
		}
		e := sim.NewEngine(sess.IDs, []party.ID{F}, 0)
		e.Log = false
		e.AddParty(F, p)
		bad := false
		for _, it := range hist {
			key := slotKey{it.From, it.Rd, it.B}
			m := slots[key]
			if m == nil {
				fatal("history names slot %v that the real protocol never produced (shape mismatch between spec cfg and protocol)", key)
			}
			stBefore := p.Status()
			var d *protocol.Message
			expectIgnored := false
			switch it.Kind {
			case "new", "dup":
				d = m
				if badKey != nil && key == *badKey {
					// the same message with its value altered: decodes, fails the protocol's verification
					d = sim.CloneMsg(m)
					leaves, err := fault.Leaves(m.Data)
					if err != nil {
						fatal("leaves: %v", err)
					}
					path := ""
					for _, l := range leaves {
						if l.Kind == "bytes" && strings.HasSuffix(l.Path, "/V") {
							path = l.Path
						}
					}
					if path == "" {
						fatal("bad mode needs a protocol whose content has a field V (toy)")
					}
					d.Data, err = fault.Mutate(m.Data, path, "flipfirst", nil, sim.NewRng(1))
					if err != nil {
						fatal("mutate: %v", err)
					}
				}
			case "wrongSSID":
				d = oslots[key]
				expectIgnored = true
			case "wrongProto":
				d = sim.CloneMsg(m)
				d.Protocol = d.Protocol + "-other"
				expectIgnored = true
			case "readdress":
				d = sim.CloneMsg(m)
				for _, id := range sess.IDs {
					if id != F && string(id) != it.From {
						d.To = id
					}
				}
				expectIgnored = true
			default:
				fatal("unknown kind %q", it.Kind)
			}
			can := false
			oc := p.Call(func() { can = p.H.CanAccept(d) })
			if oc.Panic != "" || oc.Hang {
				fail("crash", "CanAccept: "+oc.Panic)
				bad = true
				break
			}
			if expectIgnored && can {
				fail("foreign-accepted", fmt.Sprintf("CanAccept returned true for a %s message", it.Kind))
			}
			emBefore := len(p.Emitted)
			oc = e.Deliver(F, d, "ok")
			if oc.Panic != "" || oc.Hang {
				fail("crash", oc.Panic)
				bad = true
				break
			}
			if expectIgnored && (len(p.Emitted) != emBefore || p.Status().St != stBefore.St) {
				fail("foreign-changed-state", it.Kind)
			}
		}
		if bad {
			continue
		}
		st := p.Status()
		if badKey != nil {
			// the specification's final state of this order: an error naming the sender of the failing message
			var culp []string
			for _, c := range st.Culprits {
				culp = append(culp, string(c))
			}
			kind := ""
			if st.St == "err" {
				kind = sim.ClassifyErr(st.Err, F, st.Culprits)
			}
			if st.St != post.St || kind != post.Ek || strings.Join(culp, ",") != strings.Join(post.Culp, ",") {
				fail("end-state-differs", fmt.Sprintf("the handler ends %s/%s %v (%v); HandlerLocal.tla says %s/%s %v", st.St, kind, culp, st.Err, post.St, post.Ek, post.Culp))
			}
			p.Drain()
			if !p.Closed || p.Closes != 1 {
				fail("channel", fmt.Sprintf("after the error: closed=%v closes=%d", p.Closed, p.Closes))
			}
			continue
		}
		if st.St != "done" {
			fail("not-done", fmt.Sprintf("status %s err=%v", st.St, st.Err))
			continue
		}
		if c := protos.Canon(st.Result); c != refRes {
			fail("result-differs", "result of this order differs from the in-order run")
		}
		if got := canonMsgs(p.Emitted); strings.Join(got, "|") != strings.Join(refEm, "|") {
			fail("emitted-differs", fmt.Sprintf("%d vs %d messages", len(got), len(refEm)))
		}
		if !p.Closed || p.Closes != 1 {
			fail("channel", fmt.Sprintf("closed=%v closes=%d", p.Closed, p.Closes))
		}
	}
	res := map[string]interface{}{"proto": *proto, "n": *n, "evaluations": evals, "distinct_nontrivial": nontrivial,
		"failures": fails, "samples": samples}
	b, _ := json.MarshalIndent(res, "", " ")
	if *out != "" {
		os.WriteFile(*out, b, 0o644)
	} else {
		fmt.Println(string(b))
	}
}

func cmdTraces(args []string) {
	fs := flag.NewFlagSet("traces", flag.ExitOnError)
	proto := fs.String("proto", "toy:b,bm", "protocol")
	n := fs.Int("n", 3, "parties")
	runs := fs.Int("runs", 20, "number of schedules")
	seed := fs.Int("seed", 0, "seed")
	dup := fs.Int("dup", 15, "percent duplicated deliveries")
	out := fs.String("out", "traces.ndjson", "trace output")
	summary := fs.String("summary", "", "summary output")
	primes := fs.String("primes", "/verif/fixtures/safeprimes.json", "safe primes")
	fs.Parse(args)
	if strings.HasPrefix(*proto, "cmp") {
		if err := protos.InstallPrimeSource(*primes); err != nil {
			fatal("%v", err)
		}
	}
	label := fmt.Sprint("t", *seed)
	sess := build(*proto, *n, label, []byte("sid-A"))
	ref, err := protos.Run(sess, protos.RunOpts{Seed: label})
	if err != nil || !ref.AllDone() {
		fatal("reference run failed: %v %s", err, ref.Describe())
	}
	refRes := map[party.ID]string{}
	for id, r := range ref.Results {
		refRes[id] = protos.Canon(r)
	}
	refProblem := referenceAgrees(*proto, ref)
	w, err := os.Create(*out)
	if err != nil {
		fatal("%v", err)
	}
	defer w.Close()
	bw := bufio.NewWriter(w)
	defer bw.Flush()
	enc := json.NewEncoder(bw)
	var fails []failure
	if refProblem != "" {
		fails = append(fails, failure{Case: "in-order run", What: "reference-results-differ", Detail: refProblem})
	}
	lines := 0
	shapeB, shapeM := map[int]bool{}, map[int]bool{}
	R := 0
	var sample []sim.Event
	for k := 0; k < *runs; k++ {
		rng := sim.NewRng(uint64(*seed)*1000003 + uint64(k))
		r, err := protos.Run(sess, protos.RunOpts{Seed: label, Sched: rng, Log: true, DupProb: *dup})
		cs := fmt.Sprintf("%s n=%d seed=%d run=%d", *proto, *n, *seed, k)
		if err != nil {
			fails = append(fails, failure{Case: cs, What: "run-error", Detail: err.Error()})
			continue
		}
		for rd := range r.Engine.ShapeB {
			shapeB[rd] = true
			if rd > R {
				R = rd
			}
		}
		for rd := range r.Engine.ShapeM {
			shapeM[rd] = true
			if rd > R {
				R = rd
			}
		}
		if k > 0 {
			enc.Encode(sim.Event{Ev: "Reset", Trace: k, Em: []sim.Em{}, Post: sim.Post{Culp: []string{}}, Res: "none"})
			lines++
		}
		for _, ev := range r.Engine.Events {
			ev.Trace = k
			enc.Encode(ev)
			lines++
		}
		if k == 0 {
			sample = r.Engine.Events
			if len(sample) > 6 {
				sample = sample[:6]
			}
		}
		if !r.AllDone() {
			fails = append(fails, failure{Case: cs, What: "not-done", Detail: r.Describe()})
			continue
		}
		for id, res := range r.Results {
			if protos.Canon(res) != refRes[id] {
				fails = append(fails, failure{Case: cs, What: "result-differs", Detail: fmt.Sprintf("party %s: result differs from the in-order run with the same randomness", id)})
			}
		}
	}
	var sb, sm []int
	for r := range shapeB {
		sb = append(sb, r)
	}
	for r := range shapeM {
		sm = append(sm, r)
	}
	sort.Ints(sb)
	sort.Ints(sm)
	res := map[string]interface{}{"proto": *proto, "n": *n, "runs": *runs, "lines": lines, "R": R, "shapeB": sb, "shapeM": sm,
		"failures": fails, "parties": sess.IDs, "sample": sample}
	b, _ := json.MarshalIndent(res, "", " ")
	if *summary != "" {
		os.WriteFile(*summary, b, 0o644)
	} else {
		fmt.Println(string(b))
	}
}

func main() {
	if len(os.Args) < 2 {
		fatal("usage: hsim orders|traces ...")
	}
	switch os.Args[1] {
	case "orders":
		cmdOrders(os.Args[2:])
	case "traces":
		cmdTraces(os.Args[2:])
	default:
		fatal("unknown subcommand")
	}
}
