// noncedrv replays the signing-attempt sequences enumerated by TLC from spec/Nonce.tla on the real code
// (FROST sign round 1 through a real handler; taproot.SecretKey.Sign) with the random source replaced by
// the one the model prescribes, and compares the equality pattern of the PUBLISHED nonce commitments
// with the equality classes the model printed.
//
// The expected equality verdicts come from the specification, the actual ones from byte equality of what the
// library publishes.  In addition, for stand-alone BIP-340 signing with a reader argument the driver knows the
// auxiliary bytes it supplied and recomputes R with an independent transcription of BIP-340 "default signing"
// (crypto/sha256 + math/big + decred base-point multiplication): the published R must be byte-identical, which
// shows that the nonce depends on the SECRET key (equality tests alone cannot tell d from the public P).
package main

import (
	"bufio"
	crand "crypto/rand"
	"crypto/sha256"
	"encoding/hex"
	"encoding/json"
	"flag"
	"fmt"
	"io"
	"math/big"
	"os"
	"sort"
	"strings"

	secp "github.com/decred/dcrd/dcrec/secp256k1/v4"
	"github.com/fxamacker/cbor/v2"
	"github.com/taurusgroup/multi-party-sig/pkg/math/curve"
	"github.com/taurusgroup/multi-party-sig/pkg/party"
	"github.com/taurusgroup/multi-party-sig/pkg/protocol"
	"github.com/taurusgroup/multi-party-sig/pkg/taproot"
	"github.com/taurusgroup/multi-party-sig/protocols/frost"
	"github.com/taurusgroup/multi-party-sig/verifharness/protos"
	"github.com/taurusgroup/multi-party-sig/verifharness/sim"
)

func fatal(f string, a ...interface{}) {
	fmt.Fprintf(os.Stderr, "noncedrv: "+f+"\n", a...)
	os.Exit(2)
}

// ---------------------------------------------------------------------------------------------------
// input rows (printed by Nonce.tla) and output summary

type row struct {
	Lattice string              `json:"lattice"`
	Kind    string              `json:"kind"`
	Mode    string              `json:"mode"`
	Att     []map[string]string `json:"att"`
	Rnd     []int               `json:"rnd"`
	Calls   int                 `json:"calls"`
	Cls     []int               `json:"cls"`
}

type failure struct {
	Class    string              `json:"class"` // reuse | entropy | rng-accounting | error
	Lattice  string              `json:"lattice"`
	Kind     string              `json:"kind"`
	Mode     string              `json:"mode"`
	Differs  string              `json:"differs"` // context fields in which the two attempts differ ("none", "same-attempt")
	What     string              `json:"what"`
	Att      []map[string]string `json:"att"`
	I        int                 `json:"i"`
	J        int                 `json:"j"`
	Expected string              `json:"expected"`
	Real     []string            `json:"real_commitments"`
	Cls      []int               `json:"model_classes"`
}

type sample struct {
	Lattice  string              `json:"lattice"`
	Kind     string              `json:"kind"`
	Mode     string              `json:"mode"`
	Att      []map[string]string `json:"att"`
	Cls      []int               `json:"model_classes"`
	Real     []string            `json:"real_commitments"`
	Consumed int                 `json:"rng_bytes_consumed"`
}

type summary struct {
	Rows            int            `json:"rows"`
	Attempts        int            `json:"attempts"`
	Pairs           int            `json:"pairs"`           // pairs of attempts compared
	PairsConfirmed  int            `json:"pairs_confirmed"` // ... whose predicted equality pattern was observed
	NoncePairs      int            `json:"nonce_pairs"`     // pairs of individual commitments compared
	ExpEqual        int            `json:"expected_equal"`  // ... predicted equal
	ExpDifferent    int            `json:"expected_different"`
	ByMode          map[string]int `json:"pairs_by_mode"`
	ByDiffers       map[string]int `json:"pairs_by_differing_fields"`
	DistinctCtx     int            `json:"distinct_contexts"`
	Failures        []failure      `json:"failures"`
	FailuresByClass map[string]int `json:"failures_by_class"`
	Samples         []sample       `json:"samples"`
	Keygens         int            `json:"keygens"`
	OracleChecked   int            `json:"bip340_byte_exact_checked"`
}

// ---------------------------------------------------------------------------------------------------
// random sources

// counting wraps a source and counts the bytes handed out.
type counting struct {
	r    io.Reader
	n    int
	last []byte // bytes handed out since the last reset
}

func (c *counting) Read(p []byte) (int, error) {
	n, err := c.r.Read(p)
	c.n += n
	c.last = append(c.last, p[:n]...)
	return n, err
}

// period2 is a byte stream of period 64: 32 bytes of block X, 32 bytes of block Y, X, Y, ...
// Every derivation under test draws exactly 32 bytes per attempt, so the n-th draw is block n mod 2.
type period2 struct {
	blk [64]byte
	pos int
}

func (r *period2) Read(p []byte) (int, error) {
	for i := range p {
		p[i] = r.blk[r.pos%64]
		r.pos++
	}
	return len(p), nil
}

func newSource(mode string, seed int) *counting {
	switch mode {
	case "constant":
		b := byte(0x5a + seed%64)
		return &counting{r: sim.ConstReader(b)}
	case "repeating":
		r := &period2{}
		x := sha256.Sum256([]byte(fmt.Sprintf("c11/period2/x/%d", seed)))
		y := sha256.Sum256([]byte(fmt.Sprintf("c11/period2/y/%d", seed)))
		copy(r.blk[:32], x[:])
		copy(r.blk[32:], y[:])
		return &counting{r: r}
	case "honest":
		return &counting{r: sysRand}
	}
	fatal("unknown mode %q", mode)
	return nil
}

var sysRand = crand.Reader

// ---------------------------------------------------------------------------------------------------
// label -> real value

func splitIDs(label string) []party.ID {
	var ids []party.ID
	for _, s := range strings.Split(label, ",") {
		ids = append(ids, party.ID(s))
	}
	return ids
}

// msgFamily selects how the two abstract messages are made concrete; it is constant within one row.
var msgFamily = 0
var zeroSuffix = map[string]int{}

// msgBytes: the abstract messages of a row are made concrete in one of four families, all of which keep the two
// messages as similar as possible: 32-byte digests differing only in the last byte; 40-byte messages that agree on
// their first 32 bytes; a 2-byte message and the same message followed by a zero byte; 64-byte digests differing
// only in the last byte.
func msgBytes(label string, seed int) []byte {
	h := sha256.Sum256([]byte(fmt.Sprintf("c11/msg/%d", seed)))
	l := sha256.Sum256([]byte(label))
	switch msgFamily % 4 {
	case 1:
		m := append(append([]byte(nil), h[:]...), h[:8]...)
		m[35] = l[0]
		return m
	case 2:
		// the label's position among the labels seen so far decides the number of trailing zero bytes
		m := []byte{h[0] | 1, h[1] | 1}
		k, ok := zeroSuffix[label]
		if !ok {
			k = len(zeroSuffix)
			zeroSuffix[label] = k
		}
		for i := 0; i < k; i++ {
			m = append(m, 0)
		}
		return m
	case 3:
		m := append(append([]byte(nil), h[:]...), h[:]...)
		m[63] = l[0]
		return m
	}
	h[31] = l[0]
	return h[:]
}

func sidBytes(label string) []byte {
	if label == "nil" {
		return nil
	}
	return []byte("c11 session " + label)
}

func keyBytes(label string, seed int) taproot.SecretKey {
	for n := 0; ; n++ {
		h := sha256.Sum256([]byte(fmt.Sprintf("c11/key/%d/%s/%d", seed, label, n)))
		sk := taproot.SecretKey(h[:])
		if _, err := sk.Public(); err == nil {
			return sk
		}
	}
}

// world holds the key material of one lattice: keygen label -> party -> config.
type world struct {
	universe []party.ID
	kg       map[string]map[party.ID]*frost.Config
}

func buildWorld(lattice string, rows []*row, seed int, sum *summary) *world {
	w := &world{kg: map[string]map[party.ID]*frost.Config{}}
	uni := map[party.ID]bool{}
	kgs := map[string]bool{}
	for _, r := range rows {
		if r.Kind != "frost" {
			continue
		}
		for _, a := range r.Att {
			for _, id := range splitIDs(a["set"]) {
				uni[id] = true
			}
			sh := strings.SplitN(a["share"], ":", 2)
			if len(sh) != 2 {
				fatal("bad share label %q", a["share"])
			}
			kgs[sh[0]] = true
			uni[party.ID(sh[1])] = true
		}
	}
	for id := range uni {
		w.universe = append(w.universe, id)
	}
	sort.Slice(w.universe, func(i, j int) bool { return w.universe[i] < w.universe[j] })
	for k := range kgs {
		s := protos.FrostKeygen(w.universe, 1, false, []byte("c11 keygen "+k))
		res, err := protos.Run(s, protos.RunOpts{Seed: fmt.Sprintf("c11/%d/%s/%s", seed, lattice, k)})
		if err != nil || !res.AllDone() {
			d := ""
			if res != nil {
				d = res.Describe()
			}
			fatal("keygen %s over %v failed: %v %s", k, w.universe, err, d)
		}
		w.kg[k] = map[party.ID]*frost.Config{}
		for id, c := range res.Results {
			cfg, ok := c.(*frost.Config)
			if !ok {
				fatal("keygen result of %s is %T", id, c)
			}
			w.kg[k][id] = cfg
		}
		sum.Keygens++
	}
	return w
}

// taprootConfig re-expresses a plain config as the TaprootConfig the public API wants, so that the two
// protocol variants can be run on the SAME share.
func taprootConfig(c *frost.Config) (*frost.TaprootConfig, error) {
	ps, ok := c.PrivateShare.(*curve.Secp256k1Scalar)
	if !ok {
		return nil, fmt.Errorf("share is %T", c.PrivateShare)
	}
	pk, ok := c.PublicKey.(*curve.Secp256k1Point)
	if !ok {
		return nil, fmt.Errorf("public key is %T", c.PublicKey)
	}
	vs := map[party.ID]*curve.Secp256k1Point{}
	for id, p := range c.VerificationShares.Points {
		vs[id] = p.(*curve.Secp256k1Point)
	}
	return &frost.TaprootConfig{ID: c.ID, Threshold: c.Threshold, PrivateShare: ps, PublicKey: taproot.PublicKey(pk.XBytes()),
		ChainKey: c.ChainKey, VerificationShares: vs}, nil
}

// frostAttempt constructs a real signing handler under the given source and returns the commitments
// (D_i, E_i) carried by the round-2 broadcast it emits at construction.
func frostAttempt(w *world, a map[string]string, seed int, src io.Reader) ([]string, error) {
	sh := strings.SplitN(a["share"], ":", 2)
	cfg := w.kg[sh[0]][party.ID(sh[1])]
	if cfg == nil {
		return nil, fmt.Errorf("no config for share %s", a["share"])
	}
	signers := splitIDs(a["set"])
	msg := msgBytes(a["msg"], seed)
	sid := sidBytes(a["sid"])
	mk := func() (protocol.Handler, error) {
		var start protocol.StartFunc
		switch a["variant"] {
		case "plain":
			start = frost.Sign(cfg, signers, msg)
		case "taproot":
			tc, err := taprootConfig(cfg)
			if err != nil {
				return nil, err
			}
			start = frost.SignTaproot(tc, signers, msg)
		default:
			return nil, fmt.Errorf("unknown variant %q", a["variant"])
		}
		h, err := protocol.NewMultiHandler(start, sid)
		if err != nil {
			return nil, err
		}
		return h, nil
	}
	p, err, pv := sim.NewParty(cfg.ID, src, mk)
	if pv != "" {
		return nil, fmt.Errorf("panic: %s", pv)
	}
	if err != nil {
		return nil, err
	}
	var found []string
	for _, m := range p.Drain() {
		if m.RoundNumber != 2 || !m.Broadcast {
			continue
		}
		var body map[string]interface{}
		if err := cbor.Unmarshal(m.Data, &body); err != nil {
			return nil, fmt.Errorf("decoding round-2 broadcast: %v", err)
		}
		d, ok1 := body["D_i"].([]byte)
		e, ok2 := body["E_i"].([]byte)
		if !ok1 || !ok2 || len(d) == 0 || len(e) == 0 {
			return nil, fmt.Errorf("round-2 broadcast has no D_i/E_i byte strings: %v", body)
		}
		found = append(found, hex.EncodeToString(d), hex.EncodeToString(e))
	}
	if len(found) != 2 {
		return nil, fmt.Errorf("expected exactly one round-2 broadcast at construction, got %d commitments", len(found))
	}
	return found, nil
}

// bipAttempt signs with the stand-alone BIP-340 signer and returns R (the first 32 signature bytes).
func bipAttempt(a map[string]string, seed int, src *counting) ([]string, error) {
	sk := keyBytes(a["key"], seed)
	msg := msgBytes(a["msg"], seed)
	var rd io.Reader
	switch a["randarg"] {
	case "reader":
		rd = src
	case "nil": // (a nil *counting in an io.Reader would not be a nil interface: keep rd untyped-nil)
		rd = nil
	default:
		return nil, fmt.Errorf("unknown randarg %q", a["randarg"])
	}
	var sig taproot.Signature
	var err error
	src.last = nil
	func() {
		defer func() {
			if r := recover(); r != nil {
				err = fmt.Errorf("panic: %v", r)
			}
		}()
		sig, err = sk.Sign(rd, msg)
	}()
	if err != nil {
		return nil, err
	}
	if len(sig) != taproot.SignatureLen {
		return nil, fmt.Errorf("signature of length %d", len(sig))
	}
	pk, _ := sk.Public()
	if !pk.Verify(sig, msg) {
		return nil, fmt.Errorf("signature does not verify")
	}
	R := hex.EncodeToString(sig[:32])
	if rd != nil && len(src.last) == 32 {
		oracleChecked++
		if want := bipOracleR(sk, src.last, msg); want != R {
			return []string{R}, &derivErr{fmt.Sprintf("R = %s is not the commitment of the BIP-340 nonce H_nonce((d xor H_aux(a)) || P || m) for the secret key, the 32 auxiliary bytes supplied (%x) and the message: expected R = %s",
				R, src.last, want)}
		}
	}
	return []string{R}, nil
}

var oracleChecked int

type derivErr struct{ s string }

func (e *derivErr) Error() string { return e.s }

// ---------------------------------------------------------------------------------------------------
// independent BIP-340 nonce oracle (https://github.com/bitcoin/bips/blob/master/bip-0340.mediawiki#default-signing)

var curveN, _ = new(big.Int).SetString("FFFFFFFFFFFFFFFFFFFFFFFFFFFFFFFEBAAEDCE6AF48A03BBFD25E8CD0364141", 16)

func tagged(tag string, parts ...[]byte) []byte {
	t := sha256.Sum256([]byte(tag))
	h := sha256.New()
	h.Write(t[:])
	h.Write(t[:])
	for _, p := range parts {
		h.Write(p)
	}
	return h.Sum(nil)
}

// baseMult returns (x bytes, y is odd) of k*G.
func baseMult(k *big.Int) ([]byte, bool) {
	var sc secp.ModNScalar
	var kb [32]byte
	k.FillBytes(kb[:])
	sc.SetBytes(&kb)
	var j secp.JacobianPoint
	secp.ScalarBaseMultNonConst(&sc, &j)
	j.ToAffine()
	x := j.X.Bytes()
	return x[:], j.Y.IsOdd()
}

// bipOracleR: the x-only commitment R of the BIP-340 nonce for secret key sk, auxiliary bytes aux and message m.
func bipOracleR(sk, aux, m []byte) string {
	d := new(big.Int).SetBytes(sk)
	px, odd := baseMult(d)
	if odd {
		d.Sub(curveN, d)
	}
	var db [32]byte
	d.FillBytes(db[:])
	ah := tagged("BIP0340/aux", aux)
	t := make([]byte, 32)
	for i := range t {
		t[i] = db[i] ^ ah[i]
	}
	k := new(big.Int).SetBytes(tagged("BIP0340/nonce", t, px, m))
	k.Mod(k, curveN)
	rx, _ := baseMult(k)
	return hex.EncodeToString(rx)
}

func differs(a, b map[string]string) string {
	var d []string
	for k, v := range a {
		if b[k] != v {
			d = append(d, k)
		}
	}
	sort.Strings(d)
	if len(d) == 0 {
		return "none"
	}
	return strings.Join(d, "+")
}

func ctxKey(kind string, a map[string]string) string {
	var ks []string
	for k := range a {
		ks = append(ks, k)
	}
	sort.Strings(ks)
	s := kind
	for _, k := range ks {
		s += "|" + k + "=" + a[k]
	}
	return s
}

func main() {
	rowsFile := flag.String("rows", "", "JSONL file of rows printed by Nonce.tla (with a lattice label added)")
	out := flag.String("out", "", "summary output (JSON)")
	seed := flag.Int("seed", 0, "seed")
	flag.Parse()
	if *rowsFile == "" || *out == "" {
		fatal("usage: noncedrv -rows rows.jsonl -out summary.json [-seed n]")
	}
	fh, err := os.Open(*rowsFile)
	if err != nil {
		fatal("%v", err)
	}
	var rows []*row
	sc := bufio.NewScanner(fh)
	sc.Buffer(make([]byte, 1<<20), 1<<24)
	for sc.Scan() {
		line := strings.TrimSpace(sc.Text())
		if line == "" {
			continue
		}
		r := &row{}
		if err := json.Unmarshal([]byte(line), r); err != nil {
			fatal("bad row %q: %v", line, err)
		}
		rows = append(rows, r)
	}
	fh.Close()

	sum := &summary{ByMode: map[string]int{}, ByDiffers: map[string]int{}, Failures: []failure{}, Samples: []sample{}}
	byLattice := map[string][]*row{}
	var lattices []string
	for _, r := range rows {
		if _, ok := byLattice[r.Lattice]; !ok {
			lattices = append(lattices, r.Lattice)
		}
		byLattice[r.Lattice] = append(byLattice[r.Lattice], r)
	}
	ctxSeen := map[string]bool{}
	sampled := map[string]int{}
	perClass := map[string]int{}
	perKey := map[string]int{}
	addFail := func(f failure) {
		perClass[f.Class]++
		k := f.Class + "|" + f.Lattice + "|" + f.Kind + "|" + f.Mode + "|" + f.Differs
		perKey[k]++
		if perKey[k] <= 3 { // a few witnesses of every distinct kind of finding
			sum.Failures = append(sum.Failures, f)
		}
	}

	for _, lat := range lattices {
		w := buildWorld(lat, byLattice[lat], *seed, sum)
		for ri, r := range byLattice[lat] {
			msgFamily = ri % 4
			per := 1
			if r.Kind == "frost" {
				per = 2
			}
			if len(r.Cls) != per*len(r.Att) {
				fatal("row with %d attempts and %d classes", len(r.Att), len(r.Cls))
			}
			src := newSource(r.Mode, *seed)
			var real []string
			var rowErr error
			for _, a := range r.Att {
				ctxSeen[ctxKey(r.Kind, a)] = true
				var ns []string
				var err error
				if r.Kind == "frost" {
					ns, err = frostAttempt(w, a, *seed, src)
				} else {
					ns, err = bipAttempt(a, *seed, src)
				}
				if de, ok := err.(*derivErr); ok {
					addFail(failure{Class: "derivation", Lattice: lat, Kind: r.Kind, Mode: r.Mode, Differs: "-", What: de.s, Att: []map[string]string{a}, Real: ns})
					err = nil
				}
				if err != nil {
					rowErr = err
					break
				}
				real = append(real, ns...)
				sum.Attempts++
			}
			sum.Rows++
			if rowErr != nil {
				addFail(failure{Class: "error", Lattice: lat, Kind: r.Kind, Mode: r.Mode, Differs: "-", What: rowErr.Error(), Att: r.Att, Cls: r.Cls})
				continue
			}
			if src.n != 32*r.Calls {
				addFail(failure{Class: "rng-accounting", Lattice: lat, Kind: r.Kind, Mode: r.Mode, Differs: "-",
					What: fmt.Sprintf("the attempts consumed %d bytes of the random source, the model says %d draws of 32 bytes", src.n, r.Calls),
					Att:  r.Att, Cls: r.Cls, Real: real})
				if r.Mode == "repeating" {
					continue // the predicted pattern depends on the draw count
				}
			}
			// compare the equality pattern, attempt pair by attempt pair (i <= j; i == j compares D_i with E_i)
			for i := 0; i < len(r.Att); i++ {
				for j := i; j < len(r.Att); j++ {
					ok := true
					for p := 0; p < per; p++ {
						for q := 0; q < per; q++ {
							k, l := i*per+p, j*per+q
							if k >= l {
								continue
							}
							expEq := r.Cls[k] == r.Cls[l]
							realEq := real[k] == real[l]
							sum.NoncePairs++
							if expEq {
								sum.ExpEqual++
							} else {
								sum.ExpDifferent++
							}
							if expEq == realEq {
								continue
							}
							ok = false
							f := failure{Lattice: lat, Kind: r.Kind, Mode: r.Mode, Att: r.Att, I: i, J: j, Real: real, Cls: r.Cls}
							if i == j {
								f.Differs = "same-attempt"
							} else {
								f.Differs = differs(r.Att[i], r.Att[j])
							}
							if realEq {
								f.Class, f.Expected = "reuse", "different"
								f.What = fmt.Sprintf("attempts %d and %d (contexts differ in: %s; random source: %s) published the SAME nonce commitment %s, the specification says they must differ",
									i+1, j+1, f.Differs, r.Mode, real[k])
							} else {
								f.Class, f.Expected = "entropy", "equal"
								f.What = fmt.Sprintf("attempts %d and %d have identical context and were fed identical random bytes, yet published different commitments: the substituted source is not the only entropy",
									i+1, j+1)
							}
							addFail(f)
						}
					}
					if i != j {
						sum.Pairs++
						sum.ByMode[r.Mode]++
						sum.ByDiffers[differs(r.Att[i], r.Att[j])]++
						if ok {
							sum.PairsConfirmed++
						}
					}
				}
			}
			sk := lat + "/" + r.Kind + "/" + r.Mode
			if sampled[sk] < 1 && (r.Mode != "constant" || differs(r.Att[0], r.Att[len(r.Att)-1]) != "none") {
				sampled[sk]++
				sum.Samples = append(sum.Samples, sample{Lattice: lat, Kind: r.Kind, Mode: r.Mode, Att: r.Att, Cls: r.Cls, Real: real, Consumed: src.n})
			}
		}
	}
	sum.DistinctCtx = len(ctxSeen)
	sum.OracleChecked = oracleChecked
	sum.FailuresByClass = perClass
	b, _ := json.MarshalIndent(sum, "", " ")
	if err := os.WriteFile(*out, b, 0o644); err != nil {
		fatal("%v", err)
	}
	fmt.Printf("rows=%d attempts=%d pairs=%d confirmed=%d failures=%d\n", sum.Rows, sum.Attempts, sum.Pairs, sum.PairsConfirmed, len(sum.Failures))
}
