// klife executes histories of KeyLife.tla (keygen, refresh, derive, store/restore, then a signing or
// reconstruction probe with every participant using some version it still holds) on the REAL protocols
// and evaluates after every operation the consistency predicates with independent arithmetic.
package main

import (
	"bufio"
	"bytes"
	"encoding/json"
	"flag"
	"fmt"
	"math/big"
	"os"
	"sort"
	"strconv"
	"strings"

	"github.com/fxamacker/cbor/v2"
	"github.com/taurusgroup/multi-party-sig/pkg/ecdsa"
	"github.com/taurusgroup/multi-party-sig/pkg/party"
	"github.com/taurusgroup/multi-party-sig/protocols/cmp"
	"github.com/taurusgroup/multi-party-sig/protocols/doerner"
	"github.com/taurusgroup/multi-party-sig/protocols/frost"
	"github.com/taurusgroup/multi-party-sig/verifharness/judge"
	"github.com/taurusgroup/multi-party-sig/verifharness/oracle"
	"github.com/taurusgroup/multi-party-sig/verifharness/protos"
	"github.com/taurusgroup/multi-party-sig/verifharness/sim"
)

func fatal(f string, a ...interface{}) {
	fmt.Fprintf(os.Stderr, "klife: "+f+"\n", a...)
	os.Exit(2)
}

// identifier shapes: position k (1-based, sorted) stands for the model's point k
var idShapes = map[string][]party.ID{
	"short":    {"a", "b", "c", "d", "e"},
	"long32":   {"00000000000000000000000000000001", "party-two-with-a-32-byte-name-xx", "zzzzzzzzzzzzzzzzzzzzzzzzzzzzzzzz", "~~~~~~~~~~~~~~~~~~~~~~~~~~~~~~~~", "\x7f\x7f\x7f\x7f\x7f\x7f\x7f\x7f\x7f\x7f\x7f\x7f\x7f\x7f\x7f\x7f\x7f\x7f\x7f\x7f\x7f\x7f\x7f\x7f\x7f\x7f\x7f\x7f\x7f\x7f\x7f\x7f"},
	"long40":   {"a-participant-identifier-of-40-bytes-...", "b-participant-identifier-of-40-bytes-...", "c-participant-identifier-of-40-bytes-...", "d-participant-identifier-of-40-bytes-...", "e-participant-identifier-of-40-bytes-..."},
	"utf8":     {"Ærøskøbing", "Çanakkale", "Đà Nẵng", "Ōsaka", "北京"},
	// leading zero bytes do not change the scalar image: the images must stay distinct (C02 quantifies over such sets
	// only; "\x00\x01" next to "\x01" is two parties on one evaluation point - the first n = 4 run alarmed on that)
	"leadzero": {"\x00\x01", "\x00\x02", "\x00a", "\x03", "b"},
}

type opT struct {
	Op  string `json:"op"`
	Idx int    `json:"idx"`
	Who int    `json:"who"`
	S   []int  `json:"S"` // refresh-subset: the participants
}

type probeT struct {
	Kind   string          `json:"kind"`
	S      []int           `json:"S"`
	Expect string          `json:"expect"`
	Pick   json.RawMessage `json:"pick"`
}

type histT struct {
	Ops   []opT  `json:"ops"`
	Probe probeT `json:"probe"`
	Nver  int    `json:"nver"`
}

func (p probeT) pick() map[int]int {
	out := map[int]int{}
	var arr []int
	if json.Unmarshal(p.Pick, &arr) == nil {
		for i, v := range arr {
			out[i+1] = v
		}
		return out
	}
	var obj map[string]int
	if json.Unmarshal(p.Pick, &obj) == nil {
		for k, v := range obj {
			n, _ := strconv.Atoi(k)
			out[n] = v
		}
	}
	return out
}

type viol struct {
	Prop   string `json:"prop"`
	What   string `json:"what"`
	Detail string `json:"detail"`
	Hist   string `json:"hist"`
}

// real child indices for the model's index labels
var childIdx = map[int][]uint32{0: {0, 1<<31 - 1}, 1: {1, 77777}, 2: {2, 1 << 30}}

type version struct {
	mat  map[party.ID]interface{}
	path []uint32
}

type world struct {
	scheme string
	ids    []party.ID // sorted; ids[k-1] is the model's point k
	t      int
	seed   string
	cache  map[string][]*version // ops prefix -> versions
	viols  []viol
	hist   string
	stats  map[string]int
	msgLen int
}

func (w *world) violate(prop, what, detail string) {
	w.viols = append(w.viols, viol{prop, what, detail, w.hist})
}

func (w *world) views(mat map[party.ID]interface{}) (map[party.ID]*judge.KeyView, error) {
	out := map[party.ID]*judge.KeyView{}
	for id, c := range mat {
		v, err := judge.View(c)
		if err != nil {
			return nil, fmt.Errorf("%s: %w", id, err)
		}
		if v.ID == "" {
			v.ID = id
		}
		out[id] = v
	}
	return out, nil
}

func (w *world) run(s *protos.Session, label string) *protos.RunResult {
	h := uint64(0)
	for _, c := range label + w.seed {
		h = h*131 + uint64(c)
	}
	r, err := protos.Run(s, protos.RunOpts{Seed: w.seed + "/" + label, Sched: sim.NewRng(h), DupProb: 5})
	if err != nil {
		fatal("run %s: %v", label, err)
	}
	w.stats["sessions"]++
	return r
}

var dealCmp = false

func (w *world) keygen(label string) *version {
	if dealCmp && w.scheme == "cmp" {
		// trusted-dealer material (as the library's own tests use): key generation itself is the subject of C02 only
		return &version{mat: protos.DealCmp(w.ids, w.t, w.seed)}
	}
	var s *protos.Session
	switch w.scheme {
	case "frost":
		s = protos.FrostKeygen(reversed(w.ids), w.t, false, []byte("kg")) // the participant list in no particular order
	case "taproot":
		s = protos.FrostKeygen(reversed(w.ids), w.t, true, []byte("kg"))
	case "cmp":
		s = protos.CmpKeygen(reversed(w.ids), w.t, []byte("kg"))
	case "doerner":
		s = protos.DoernerKeygen(w.ids[0], w.ids[1], []byte("kg"))
	}
	r := w.run(s, label+"/keygen")
	if !r.AllDone() {
		w.violate("C01", "honest-session-fails", "all-honest key generation did not complete: "+r.Describe())
		return nil
	}
	v := &version{mat: r.Results}
	w.checkSharing(v, "C02", "after key generation")
	// C14: everybody holds the same 32-byte chain key
	w.checkChain(v, "after key generation")
	// an application that keeps its start function and runs key generation with it a second time: the second session is
	// refused, or fails, or yields material that is again a consistent sharing - and the first result stays intact
	before := w.snap(v.mat)
	protos.ReuseStartFuncs = true
	for k := 0; k < 2; k++ {
		r2, err := protos.Run(s, protos.RunOpts{Seed: fmt.Sprintf("%s/%s/keygen-reuse%d", w.seed, label, k), Sched: sim.NewRng(uint64(7 + k))})
		if err != nil {
			break
		}
		w.stats["sessions"]++
		if r2.AllDone() && k == 1 {
			w.checkSharing(&version{mat: r2.Results}, "C02", "after a second key generation started from the same start functions")
		}
	}
	protos.ReuseStartFuncs = false
	w.unchanged(before, v.mat, "C02", "a later key generation started from the same start functions")
	return v
}

// snap / unchanged: an operation must not modify the key material objects it was given (the caller keeps using them).
func (w *world) snap(mat map[party.ID]interface{}) map[party.ID]string {
	out := map[party.ID]string{}
	for id, m := range mat {
		out[id] = protos.Canon(m)
	}
	return out
}

func (w *world) unchanged(before map[party.ID]string, mat map[party.ID]interface{}, prop, op string) bool {
	for id, m := range mat {
		if b, ok := before[id]; ok && protos.Canon(m) != b {
			w.violate(prop, "key-material-changed", fmt.Sprintf("%s n=%d t=%d: %s changed the key material object of party %q that it was given (first difference: %s)", w.scheme, len(w.ids), w.t, op, id, firstDiff(b, protos.Canon(m))))
			return false
		}
	}
	return true
}

func (w *world) checkChain(v *version, when string) {
	vs, err := w.views(v.mat)
	if err != nil {
		return
	}
	var first []byte
	for i, id := range w.ids {
		ck := vs[id].ChainKey
		if len(ck) != 32 {
			w.violate("C14", "chain-key-missing", fmt.Sprintf("%s %s: party %q holds a chain key of %d bytes", w.scheme, when, id, len(ck)))
			return
		}
		if i == 0 {
			first = ck
		} else if !bytes.Equal(first, ck) {
			w.violate("C14", "chain-key-differs", fmt.Sprintf("%s %s: parties hold different chain keys", w.scheme, when))
			return
		}
	}
}

func (w *world) checkSharing(v *version, prop, when string) bool {
	vs, err := w.views(v.mat)
	if err != nil {
		w.violate(prop, "unreadable-material", fmt.Sprintf("%s %s: %v", w.scheme, when, err))
		return false
	}
	probs := judge.ConsistentSharing(vs, 10)
	for _, p := range probs {
		w.violate(prop, "inconsistent-sharing", fmt.Sprintf("%s n=%d t=%d %s: %s", w.scheme, len(w.ids), w.t, when, p))
	}
	w.stats["sharing-checks"]++
	return len(probs) == 0
}

// abortedRefresh: a dry run on copies tells the number of the last round; the attempt on the real objects loses that round.
func (w *world) abortedRefresh(mk func(map[party.ID]interface{}, string) *protos.Session, mat map[party.ID]interface{}, before map[party.ID]string, label string) {
	dry := w.run(mk(protos.CloneConfigs(mat), "rf-dry"), label+"/refresh-dry")
	last := 0
	for rd := range dry.Engine.ShapeB {
		if rd > last {
			last = rd
		}
	}
	for rd := range dry.Engine.ShapeM {
		if rd > last {
			last = rd
		}
	}
	if !dry.AllDone() || last < 2 {
		return
	}
	r, err := protos.Run(mk(mat, "rf-aborted"), protos.RunOpts{Seed: w.seed + "/" + label + "/refresh-aborted", StopAll: true,
		Drop: func(d *sim.Delivery) bool { return int(d.Msg.RoundNumber) == last }})
	w.stats["sessions"]++
	if err != nil {
		fatal("aborted refresh: %v", err)
	}
	if w.scheme == "frost" || w.scheme == "taproot" {
		// (a FROST refresh writes the new share into the caller's object when it completes - as the library is; the check
		// below is about an attempt that did NOT complete: everybody needs the last round of everybody else)
		for id, st := range r.Status {
			if st.St == "done" {
				return
			}
			_ = id
		}
	}
	w.unchanged(before, mat, "C08", fmt.Sprintf("a refresh that was given up (the messages of its last round, %d, were lost)", last))
	w.stats["aborted-refreshes"]++
}

func (w *world) refresh(cur *version, label string) *version {
	mat := protos.CloneConfigs(cur.mat)
	mk := func(m map[party.ID]interface{}, sid string) *protos.Session {
		switch w.scheme {
		case "frost", "taproot":
			return protos.FrostRefresh(m, []byte(sid))
		case "cmp":
			return protos.CmpRefresh(m, []byte(sid))
		}
		return protos.DoernerRefresh(w.ids[0], w.ids[1], m[w.ids[0]].(*doerner.ConfigReceiver), m[w.ids[1]].(*doerner.ConfigSender), []byte(sid))
	}
	snapBefore := w.snap(mat)
	if (len(w.hist)+len(label))%2 == 0 && w.scheme != "cmp" || w.scheme == "cmp" && (len(w.hist)+len(label))%4 == 0 {
		// an attempt that is given up comes first: the messages of the last round are lost, everybody stops.  A refresh
		// that did not complete must leave the key material objects as they were (the parties go on with them).
		w.abortedRefresh(mk, mat, snapBefore, label)
	}
	s := mk(mat, "rf")
	r := w.run(s, label+"/refresh")
	if w.scheme == "cmp" || w.scheme == "doerner" {
		// (a FROST refresh adds to the caller's share object in place - as the library is; not part of a statement)
		w.unchanged(snapBefore, mat, "C08", "a refresh")
	}
	if !r.AllDone() {
		w.violate("C08", "honest-session-fails", "all-honest refresh did not complete: "+r.Describe())
		return nil
	}
	nv := &version{mat: r.Results, path: cur.path}
	if !w.checkSharing(nv, "C08", "after refresh") {
		return nv
	}
	ov, _ := w.views(cur.mat)
	vs, _ := w.views(nv.mat)
	if ov == nil || vs == nil {
		return nv
	}
	for _, id := range w.ids {
		if !oracle.Equal(ov[id].Group, vs[id].Group) {
			w.violate("C08", "refresh-changed-key", fmt.Sprintf("%s: the group key of party %q changed in a refresh", w.scheme, id))
		}
		if ov[id].Threshold != vs[id].Threshold {
			w.violate("C08", "refresh-changed-threshold", fmt.Sprintf("%s n=%d: the threshold of party %q is %d after the refresh, it was %d", w.scheme, len(w.ids), id, vs[id].Threshold, ov[id].Threshold))
		}
		if ov[id].Secret.Cmp(vs[id].Secret) == 0 && (w.t > 0 || w.scheme == "doerner") {
			w.violate("C08", "share-unchanged", fmt.Sprintf("%s: the secret share of party %q is the same after the refresh", w.scheme, id))
		}
	}
	// mixing epochs must not reconstruct the key
	if w.scheme != "doerner" && w.t >= 1 && len(w.ids) > w.t {
		sub := w.ids[:w.t+1]
		var xs, ys []*big.Int
		for i, id := range sub {
			xs = append(xs, oracle.IDScalar(string(id)))
			if i == 0 {
				ys = append(ys, vs[id].Secret)
			} else {
				ys = append(ys, ov[id].Secret)
			}
		}
		if oracle.Equal(oracle.BaseMul(oracle.InterpolateAt0(xs, ys)), vs[sub[0]].Group) {
			w.violate("C08", "old-shares-still-work", fmt.Sprintf("%s: one new share combined with %d old ones still reconstructs the key", w.scheme, w.t))
		}
	}
	if w.scheme == "doerner" {
		a, b := w.ids[0], w.ids[1]
		mix := new(big.Int).Add(vs[a].Secret, ov[b].Secret)
		if oracle.Equal(oracle.BaseMul(mix), vs[a].Group) {
			w.violate("C08", "old-shares-still-work", "doerner: a new share combined with the peer's old share still gives the key")
		}
	}
	return nv
}

// refreshSubset: a strict subset of the shareholders (more than t of them) attempts a refresh among themselves.
// The left-out shareholders would keep shares of the old polynomial: the attempt must not complete at anybody.
func (w *world) refreshSubset(cur *version, S []int, label string) {
	if w.scheme != "frost" && w.scheme != "taproot" {
		return // the other refresh functions take no participant list
	}
	mat := map[party.ID]interface{}{}
	var names []party.ID
	for _, k := range S {
		id := w.ids[k-1]
		mat[id] = protos.CloneConfig(cur.mat[id])
		names = append(names, id)
	}
	w.stats["subset_refresh_attempts"]++
	r, err := protos.Run(protos.FrostRefresh(mat, []byte("rf-subset")), protos.RunOpts{Seed: w.seed + "/" + label + "/refresh-subset", Sched: sim.NewRng(uint64(len(label)) * 17)})
	if err != nil {
		return // refused at start (or failed to construct): fine
	}
	w.stats["sessions"]++
	for _, id := range names {
		if st, ok := r.Status[id]; ok && st.St == "done" {
			w.violate("C08", "subset-refresh-completes", fmt.Sprintf("%s n=%d t=%d: a refresh among the strict subset %v of the shareholders completed at %q; the others keep shares of the old polynomial while their public shares were rewritten", w.scheme, len(w.ids), w.t, names, id))
			return
		}
	}
}

func (w *world) derive(cur *version, label int) *version {
	idx := childIdx[label][len(cur.path)%2]
	vs, err := w.views(cur.mat)
	if err != nil {
		w.violate("C14", "unreadable-material", err.Error())
		return nil
	}
	nv := &version{mat: map[party.ID]interface{}{}, path: append(append([]uint32(nil), cur.path...), idx)}
	parentBefore := w.snap(cur.mat)
	defer func() { w.unchanged(parentBefore, cur.mat, "C14", "a derivation") }()
	for _, id := range w.ids {
		var out interface{}
		var err error
		func() {
			defer func() {
				if r := recover(); r != nil {
					err = fmt.Errorf("panic: %v", r)
				}
			}()
			switch c := cur.mat[id].(type) {
			case *frost.Config:
				out, err = c.DeriveChild(idx)
			case *frost.TaprootConfig:
				out, err = c.DeriveChild(idx)
			case *cmp.Config:
				out, err = c.DeriveBIP32(idx)
			case *doerner.ConfigReceiver:
				out, err = c.DeriveBIP32(idx)
			case *doerner.ConfigSender:
				out, err = c.DeriveBIP32(idx)
			}
		}()
		if err != nil {
			w.violate("C14", "derive-fails", fmt.Sprintf("%s: deriving child %d at party %q fails: %v", w.scheme, idx, id, err))
			return nil
		}
		nv.mat[id] = out
	}
	w.stats["derivations"]++
	// the standard: child = parse256(I_L)*G + parent, chain' = I_R with I = HMAC-SHA512(chain, serP(parent) || ser32(i))
	parent := vs[w.ids[0]]
	child, cchain, _, err := oracle.BIP32CKDpub(parent.Group, parent.ChainKey, idx)
	if err != nil {
		// the parent chain key may be unusable (reported by checkChain); nothing to compare with
		return nv
	}
	if w.scheme == "taproot" && !child.EvenY() {
		child = oracle.Neg(child)
	}
	nvs, err := w.views(nv.mat)
	if err != nil {
		w.violate("C14", "unreadable-material", "derived material: "+err.Error())
		return nv
	}
	for _, id := range w.ids {
		if !oracle.Equal(nvs[id].Group, child) {
			w.violate("C14", "child-key-wrong", fmt.Sprintf("%s: party %q derives a child public key at index %d that differs from BIP-32 CKDpub", w.scheme, id, idx))
		}
		if !bytes.Equal(nvs[id].ChainKey, cchain) {
			w.violate("C14", "child-chain-wrong", fmt.Sprintf("%s: party %q derives a chain code at index %d that differs from BIP-32 (%d bytes)", w.scheme, id, idx, len(nvs[id].ChainKey)))
		}
	}
	w.checkSharing(nv, "C14", fmt.Sprintf("after deriving child %d", idx))
	return nv
}

// storeRestore serialises the party's material with the documented encoder, restores it, compares and swaps it in.
func (w *world) storeRestore(cur *version, who party.ID) *version {
	nv := &version{mat: map[party.ID]interface{}{}, path: cur.path}
	for id, c := range cur.mat {
		nv.mat[id] = c
	}
	orig := cur.mat[who]
	var restored interface{}
	var err error
	func() {
		defer func() {
			if r := recover(); r != nil {
				err = fmt.Errorf("panic: %v", r)
			}
		}()
		var data []byte
		data, err = cbor.Marshal(orig)
		if err != nil {
			return
		}
		switch orig.(type) {
		case *frost.Config:
			c := frost.EmptyConfig(protos.Group)
			err = cbor.Unmarshal(data, c)
			restored = c
		case *frost.TaprootConfig:
			c := &frost.TaprootConfig{}
			err = cbor.Unmarshal(data, c)
			restored = c
		case *cmp.Config:
			c := cmp.EmptyConfig(protos.Group)
			err = cbor.Unmarshal(data, c)
			restored = c
		case *doerner.ConfigReceiver:
			c := doerner.EmptyConfigReceiver(protos.Group)
			err = cbor.Unmarshal(data, c)
			restored = c
		case *doerner.ConfigSender:
			c := doerner.EmptyConfigSender(protos.Group)
			err = cbor.Unmarshal(data, c)
			restored = c
		}
	}()
	w.stats["roundtrips"]++
	if err != nil {
		w.violate("C15", "roundtrip-fails", fmt.Sprintf("%s: material of party %q does not survive marshal / unmarshal: %v", w.scheme, who, err))
		return nv
	}
	if a, b := protos.Canon(orig), protos.Canon(restored); a != b {
		w.violate("C15", "roundtrip-differs", fmt.Sprintf("%s: restored material of party %q differs from the original (%s)", w.scheme, who, firstDiff(a, b)))
	}
	nv.mat[who] = restored
	return nv
}

func firstDiff(a, b string) string {
	n := len(a)
	if len(b) < n {
		n = len(b)
	}
	for i := 0; i < n; i++ {
		if a[i] != b[i] {
			lo := i - 40
			if lo < 0 {
				lo = 0
			}
			hi := i + 40
			if hi > n {
				hi = n
			}
			return fmt.Sprintf("at %d: ...%s... vs ...%s...", i, a[lo:hi], b[lo:hi])
		}
	}
	return fmt.Sprintf("lengths %d vs %d", len(a), len(b))
}

func (w *world) versions(ops []opT) []*version {
	key := ""
	vs, ok := w.cache[key]
	if !ok {
		v := w.keygen("kg")
		if v == nil {
			w.cache[key] = nil
			return nil
		}
		vs = []*version{v}
		w.cache[key] = vs
	}
	cur := []*version(nil)
	if vs != nil {
		cur = vs
	}
	// the working material (after store/restore swaps) is tracked separately from the version list
	type state struct {
		vers []*version
		work *version
	}
	stKey := ""
	st := state{vers: cur}
	if cur != nil {
		st.work = cur[len(cur)-1]
	}
	for i, op := range ops {
		stKey += fmt.Sprintf("/%s:%d:%d:%v", op.Op, op.Idx, op.Who, op.S)
		if c, ok := w.cache[stKey]; ok {
			if c == nil {
				return nil
			}
			st.vers = c
			st.work = c[len(c)-1]
			continue
		}
		if st.work == nil {
			return nil
		}
		var nv *version
		switch op.Op {
		case "refresh-subset":
			// an attempt that must be refused: no new version, the working material stays
			w.refreshSubset(st.work, op.S, stKey)
			w.cache[stKey] = st.vers
			continue
		case "refresh":
			nv = w.refresh(st.work, stKey)
		case "derive":
			nv = w.derive(st.work, op.Idx)
		case "store":
			nv = w.storeRestore(st.work, w.ids[op.Who-1])
			if nv != nil {
				// a store/restore does not create a version: it replaces the current one
				nl := append([]*version(nil), st.vers[:len(st.vers)-1]...)
				nl = append(nl, nv)
				w.cache[stKey] = nl
				st.vers, st.work = nl, nv
				continue
			}
		}
		if nv == nil {
			w.cache[stKey] = nil
			return nil
		}
		nl := append(append([]*version(nil), st.vers...), nv)
		w.cache[stKey] = nl
		st.vers, st.work = nl, nv
		_ = i
	}
	return st.vers
}

var msgLens = []int{32, 1, 20, 33, 64}

func (w *world) probe(h histT, vers []*version) {
	pick := h.Probe.pick()
	var S []party.ID
	mat := map[party.ID]interface{}{}
	sameV := -1
	for _, k := range h.Probe.S {
		id := w.ids[k-1]
		S = append(S, id)
		vi := pick[k]
		if vi < 1 || vi > len(vers) {
			fatal("history picks version %d of %d", vi, len(vers))
		}
		mat[id] = protos.CloneConfig(vers[vi-1].mat[id])
		sameV = vi
	}
	if h.Probe.Kind == "reconstruct" {
		w.reconstruct(h, S, mat, vers, sameV)
		return
	}
	w.msgLen = (w.msgLen + 1) % len(msgLens)
	msg := sim.NewRng(uint64(len(w.hist))).Bytes(msgLens[w.msgLen])
	msg[0] |= 1
	expect := h.Probe.Expect
	type result struct {
		st  map[party.ID]sim.Status
		err string
	}
	runSign := func(variant string) (map[party.ID]sim.Status, string) {
		var s *protos.Session
		switch w.scheme {
		case "frost", "taproot":
			s = protos.FrostSign(mat, S, msg, []byte("sg"))
		case "cmp":
			if variant == "presign" {
				s = protos.CmpPresign(mat, reversed(S), []byte("ps")) // the list is handed over in no particular order
			} else {
				s = protos.CmpSign(mat, S, msg, []byte("sg"))
			}
		case "doerner":
			if len(S) != 2 {
				return nil, "refused"
			}
			s = protos.DoernerSign(w.ids[0], w.ids[1], mat[w.ids[0]].(*doerner.ConfigReceiver), mat[w.ids[1]].(*doerner.ConfigSender), msg, []byte("sg"))
		}
		if variant == "online" {
			// the presignature is produced with the oldest version any signer picked (everybody holds it) ...
			base := len(vers)
			for _, k := range h.Probe.S {
				if pick[k] < base {
					base = pick[k]
				}
			}
			bm := map[party.ID]interface{}{}
			for _, id := range S {
				bm[id] = protos.CloneConfig(vers[base-1].mat[id])
			}
			pr, err := protos.Run(protos.CmpPresign(bm, reversed(S), []byte("ps")), protos.RunOpts{Seed: w.seed + "/presign/" + w.hist, Sched: sim.NewRng(uint64(len(w.hist)) * 29)})
			w.stats["sessions"]++
			if err != nil || !pr.AllDone() {
				w.violate("C01", "honest-session-fails", fmt.Sprintf("cmp presign with consistent material (version %d) did not complete", base))
				return nil, "presign failed"
			}
			pres := map[party.ID]*ecdsa.PreSignature{}
			for id, x := range pr.Results {
				pres[id] = x.(*ecdsa.PreSignature)
			}
			// ... and every signer then signs with the version it picked
			presBefore := map[party.ID]string{}
			for id, p := range pres {
				presBefore[id] = protos.Canon(p)
			}
			r2, err := protos.Run(protos.CmpPresignOnline(mat, pres, S, msg, []byte("on")), protos.RunOpts{Seed: w.seed + "/online/" + w.hist, Sched: sim.NewRng(uint64(len(w.hist)) * 37)})
			w.stats["sessions"]++
			for id, p := range pres {
				if protos.Canon(p) != presBefore[id] {
					w.violate("C01", "key-material-changed", fmt.Sprintf("cmp online signing changed the presignature object of party %q that it was given", id))
				}
			}
			if err != nil {
				return nil, err.Error()
			}
			return r2.Status, ""
		}
		r, err := protos.Run(s, protos.RunOpts{Seed: w.seed + "/sign/" + w.hist, Sched: sim.NewRng(uint64(len(w.hist)) * 31)})
		w.stats["sessions"]++
		if err != nil {
			return nil, err.Error()
		}
		if variant == "sign-reuse" {
			// the same start functions start a second, identical session: nothing may be left over from the first
			protos.ReuseStartFuncs = true
			_, err1 := protos.Run(s, protos.RunOpts{Seed: w.seed + "/sign-r1/" + w.hist, Sched: sim.NewRng(uint64(len(w.hist)) * 41)})
			r2, err2 := protos.Run(s, protos.RunOpts{Seed: w.seed + "/sign-r2/" + w.hist, Sched: sim.NewRng(uint64(len(w.hist)) * 43)})
			protos.ReuseStartFuncs = false
			w.stats["sessions"] += 2
			if err1 == nil && err2 == nil {
				r = r2 // judged below like any other signing session
			}
		}
		for _, a := range r.Anomalies {
			w.violate("C05", "crash", fmt.Sprintf("%s signing: %s", w.scheme, a))
		}
		if variant == "presign" && r.AllDone() {
			pres := map[party.ID]*ecdsa.PreSignature{}
			for id, x := range r.Results {
				pres[id] = x.(*ecdsa.PreSignature)
			}
			presBefore := map[party.ID]string{}
			for id, p := range pres {
				presBefore[id] = protos.Canon(p)
			}
			r2, err := protos.Run(protos.CmpPresignOnline(mat, pres, S, msg, []byte("on")), protos.RunOpts{Seed: w.seed + "/online/" + w.hist, Sched: sim.NewRng(uint64(len(w.hist)) * 37)})
			w.stats["sessions"]++
			for id, p := range pres {
				if protos.Canon(p) != presBefore[id] {
					w.violate("C01", "key-material-changed", fmt.Sprintf("cmp online signing changed the presignature object of party %q that it was given", id))
				}
			}
			if err != nil {
				return nil, err.Error()
			}
			if r2.AllDone() {
				// the online step is retried for the same digest with the same presignature objects (a first attempt that
				// was started and given up, say): it is this second all-honest session that is judged below
				r3, err := protos.Run(protos.CmpPresignOnline(mat, pres, S, msg, []byte("on-retry")), protos.RunOpts{Seed: w.seed + "/online-retry/" + w.hist, Sched: sim.NewRng(uint64(len(w.hist)) * 47)})
				w.stats["sessions"]++
				if err != nil {
					return nil, err.Error()
				}
				return r3.Status, ""
			}
			return r2.Status, ""
		}
		return r.Status, ""
	}
	variants := []string{"sign"}
	if w.scheme == "cmp" && expect == "ok" && len(w.hist)%3 == 0 {
		variants = append(variants, "presign")
	}
	if w.scheme != "cmp" && expect == "ok" {
		// the same material OBJECTS sign a second time (another digest): signing must not wear the key material out
		variants = append(variants, "sign-again")
		if len(w.hist)%2 == 0 {
			variants = append(variants, "sign-reuse")
		}
	}
	// the signer list is handed over in no particular order
	if len(w.hist)%2 == 1 {
		for i, j := 0, len(S)-1; i < j; i, j = i+1, j-1 {
			S[i], S[j] = S[j], S[i]
		}
	}
	matBefore := w.snap(mat)
	if h.Probe.Kind == "online" {
		if w.scheme != "cmp" || expect == "refused" {
			return
		}
		variants = []string{"online"}
	}
	for _, variant := range variants {
		if variant == "sign-again" {
			msg = append([]byte(nil), msg...)
			msg[len(msg)-1] ^= 0x40
		}
		st, cerr := runSign(variant)
		w.stats["probes"]++
		if expect == "ok" {
			w.unchanged(matBefore, mat, "C01", "a signing session ("+variant+")")
		}
		// the group key the signature must verify under: the version everybody uses
		var gv *judge.KeyView
		if expect == "ok" {
			v, err := judge.View(vers[sameV-1].mat[S[0]])
			if err == nil {
				gv = v
			}
		}
		nsig := 0
		var firstSig string
		for _, id := range S {
			s, ok := st[id]
			if !ok || s.St != "done" {
				continue
			}
			nsig++
			c := protos.Canon(s.Result)
			if firstSig == "" {
				firstSig = c
			} else if c != firstSig {
				w.violate("C01", "signatures-differ", fmt.Sprintf("%s %s: parties of one session return different signatures", w.scheme, variant))
			}
			if expect != "ok" {
				// a signature came out of a session that must not yield one: is it at least invalid under every version's key?
				for vi, ver := range vers {
					if kv, err := judge.View(ver.mat[id]); err == nil {
						if ok, _ := judge.SigValid(kv.Group, kv.GroupX, msg, s.Result); ok {
							w.violate("C08", "stale-material-signs", fmt.Sprintf("%s %s: a session whose signers %v use versions %v (%s) returned a signature valid under version %d's key", w.scheme, variant, S, pick, expect, vi+1))
						}
					}
				}
				continue
			}
			if gv != nil {
				if ok, why := judge.SigValid(gv.Group, gv.GroupX, msg, s.Result); !ok {
					w.violate("C01", "invalid-signature", fmt.Sprintf("%s %s n=%d t=%d signers=%v digest=%d bytes path=%v: returned signature is invalid under the independent verifier: %s", w.scheme, variant, len(w.ids), w.t, S, len(msg), vers[sameV-1].path, why))
				}
			}
		}
		if expect == "ok" && nsig != len(S) {
			desc := cerr
			for _, id := range S {
				if s, ok := st[id]; ok {
					desc += fmt.Sprintf(" %s:%s(%v)", id, s.St, s.Err)
				}
			}
			w.violate("C01", "honest-session-fails", fmt.Sprintf("%s %s n=%d t=%d signers=%v digest=%d bytes path=%v: an all-honest signing session with consistent material did not complete at every signer:%s", w.scheme, variant, len(w.ids), w.t, S, len(msg), vers[sameV-1].path, desc))
		}
	}
}

func reversed(S []party.ID) []party.ID {
	out := make([]party.ID, len(S))
	for i, id := range S {
		out[len(S)-1-i] = id
	}
	return out
}

func (w *world) reconstruct(h histT, S []party.ID, mat map[party.ID]interface{}, vers []*version, sameV int) {
	w.stats["probes"]++
	vs, err := w.views(mat)
	if err != nil {
		return
	}
	var secret *big.Int
	if w.scheme == "doerner" {
		secret = new(big.Int)
		for _, id := range S {
			secret.Add(secret, vs[id].Secret)
		}
		secret.Mod(secret, oracle.N)
	} else {
		var xs, ys []*big.Int
		for _, id := range S {
			xs = append(xs, oracle.IDScalar(string(id)))
			ys = append(ys, vs[id].Secret)
		}
		secret = oracle.InterpolateAt0(xs, ys)
	}
	pub := oracle.BaseMul(secret)
	hits := -1
	for vi, ver := range vers {
		kv, err := judge.View(ver.mat[S[0]])
		if err != nil {
			continue
		}
		if oracle.Equal(pub, kv.Group) || (w.scheme == "taproot" && oracle.Equal(oracle.Neg(pub), kv.Group)) {
			hits = vi + 1
		}
	}
	switch h.Probe.Expect {
	case "ok":
		if hits < 1 {
			w.violate("C02", "does-not-reconstruct", fmt.Sprintf("%s n=%d t=%d: shares of %v (versions %v) do not combine to the key of any version", w.scheme, len(w.ids), w.t, S, h.Probe.pick()))
		}
	case "mixed":
		// A reconstruction takes exactly t+1 shares.  With more, interpolating through all of them at once can return the
		// key by an algebraic coincidence that has nothing to do with the refresh (ids a,b,c,d are consecutive scalars:
		// for t = 1 the Lagrange weights of {a,d} and of {b,c} cancel, whatever the two lines are), so the statement is
		// judged on every (t+1)-subset whose shares come from different versions.
		if w.scheme == "doerner" || len(S) <= w.t+1 {
			if hits >= 1 {
				w.violate("C08", "mixed-shares-reconstruct", fmt.Sprintf("%s: shares of %v taken from versions %v combine to the key of version %d", w.scheme, S, h.Probe.pick(), hits))
			}
			break
		}
		pick := h.Probe.pick()
		verOf := map[party.ID]int{}
		for _, k := range h.Probe.S {
			verOf[w.ids[k-1]] = pick[k]
		}
		for _, sub := range judge.Subsets(S, w.t+1, 40) {
			mixed := false
			for _, id := range sub {
				if verOf[id] != verOf[sub[0]] {
					mixed = true
				}
			}
			if !mixed {
				continue
			}
			var xs, ys []*big.Int
			for _, id := range sub {
				xs = append(xs, oracle.IDScalar(string(id)))
				ys = append(ys, vs[id].Secret)
			}
			p := oracle.BaseMul(oracle.InterpolateAt0(xs, ys))
			for vi, ver := range vers {
				if kv, err := judge.View(ver.mat[S[0]]); err == nil && (oracle.Equal(p, kv.Group) || (w.scheme == "taproot" && oracle.Equal(oracle.Neg(p), kv.Group))) {
					w.violate("C08", "mixed-shares-reconstruct", fmt.Sprintf("%s: the %d shares of %v taken from versions %v combine to the key of version %d", w.scheme, w.t+1, sub, pick, vi+1))
					return
				}
			}
		}
	case "refused":
		if hits >= 1 && !(w.scheme == "doerner") && w.t >= 1 {
			w.violate("C02", "too-few-shares-reconstruct", fmt.Sprintf("%s t=%d: only %d shares combine to the key", w.scheme, w.t, len(S)))
		}
	}
}

func main() {
	scheme := flag.String("scheme", "frost", "cmp | frost | taproot | doerner")
	n := flag.Int("n", 3, "parties")
	t := flag.Int("t", 1, "threshold")
	shape := flag.String("ids", "short", "identifier shape")
	histFile := flag.String("hist", "", "histories (JSON lines)")
	out := flag.String("out", "", "summary")
	seed := flag.String("seed", "0", "seed")
	primes := flag.String("primes", "/verif/fixtures/safeprimes.json", "safe primes")
	flag.BoolVar(&dealCmp, "deal", false, "cmp: start from trusted-dealer material instead of running key generation")
	flag.Parse()
	if err := protos.InstallPrimeSource(*primes); err != nil {
		fatal("%v", err)
	}
	ids := append([]party.ID(nil), idShapes[*shape][:*n]...)
	sort.Slice(ids, func(i, j int) bool { return ids[i] < ids[j] })
	// the properties quantify over identifier sets whose scalar images are distinct and non-zero
	seenImg := map[string]party.ID{}
	for _, id := range ids {
		img := oracle.IDScalar(string(id))
		if img.Sign() == 0 {
			fatal("identifier %q has the scalar image zero", id)
		}
		if o, dup := seenImg[img.String()]; dup {
			fatal("identifiers %q and %q have the same scalar image", o, id)
		}
		seenImg[img.String()] = id
	}
	w := &world{scheme: *scheme, ids: ids, t: *t, seed: *seed + "/" + *scheme + "/" + *shape, cache: map[string][]*version{}, stats: map[string]int{}}
	f, err := os.Open(*histFile)
	if err != nil {
		fatal("%v", err)
	}
	sc := bufio.NewScanner(f)
	sc.Buffer(make([]byte, 1<<20), 1<<26)
	evals := 0
	var samples []json.RawMessage
	for sc.Scan() {
		line := strings.TrimSpace(sc.Text())
		if line == "" {
			continue
		}
		var h histT
		if err := json.Unmarshal([]byte(line), &h); err != nil {
			fatal("bad history: %v", err)
		}
		w.hist = line
		evals++
		if len(samples) < 3 {
			samples = append(samples, json.RawMessage(line))
		}
		vers := w.versions(h.Ops)
		if vers == nil {
			continue
		}
		w.probe(h, vers)
	}
	res := map[string]interface{}{"scheme": *scheme, "n": *n, "t": *t, "ids": *shape, "evaluations": evals, "violations": w.viols, "stats": w.stats, "samples": samples}
	b, _ := json.MarshalIndent(res, "", " ")
	if *out != "" {
		os.WriteFile(*out, b, 0o644)
	} else {
		fmt.Println(string(b))
	}
}
