// genprimes generates 1024-bit safe Blum primes with the library's own sampler (one-off, results
// stored in /verif/fixtures/safeprimes.json and injected through the verif prime-source hook).
package main

import (
	"crypto/rand"
	"encoding/json"
	"fmt"
	"os"
	"strconv"

	"github.com/taurusgroup/multi-party-sig/pkg/math/sample"
	"github.com/taurusgroup/multi-party-sig/pkg/pool"
)

func main() {
	n, _ := strconv.Atoi(os.Args[1])
	pl := pool.NewPool(0)
	defer pl.TearDown()
	var out []string
	for len(out) < n {
		p, q := sample.Paillier(rand.Reader, pl)
		out = append(out, p.Big().Text(16), q.Big().Text(16))
		fmt.Fprintln(os.Stderr, len(out))
	}
	b, _ := json.MarshalIndent(out, "", " ")
	os.WriteFile(os.Args[2], b, 0o644)
}
