// codecdrv executes the cases of Codec.tla (type x field x corruption x (n,t)) on REAL encodings of REAL key
// material, presignatures, signatures and wire messages: it applies the corruption to the documented encoding
// (CBOR level, byte level for whole-object cases), calls the documented decoder inside recover() under a
// watchdog and judges the restored object with predicates that do not use the library's own validation
// (raw bytes -> math/big / package oracle).
package main

import (
	"bytes"
	"encoding"
	"encoding/binary"
	"encoding/hex"
	"encoding/json"
	"flag"
	"fmt"
	"math/big"
	"os"
	"reflect"
	"runtime/debug"
	"sort"
	"strings"
	"sync"
	"time"

	"github.com/fxamacker/cbor/v2"
	"github.com/taurusgroup/multi-party-sig/pkg/ecdsa"
	"github.com/taurusgroup/multi-party-sig/pkg/math/curve"
	"github.com/taurusgroup/multi-party-sig/pkg/party"
	"github.com/taurusgroup/multi-party-sig/pkg/protocol"
	"github.com/taurusgroup/multi-party-sig/protocols/cmp"
	"github.com/taurusgroup/multi-party-sig/protocols/doerner"
	"github.com/taurusgroup/multi-party-sig/protocols/frost"
	"github.com/taurusgroup/multi-party-sig/verifharness/oracle"
	"github.com/taurusgroup/multi-party-sig/verifharness/protos"
	"github.com/taurusgroup/multi-party-sig/verifharness/sim"
)

func fatal(f string, a ...interface{}) {
	fmt.Fprintf(os.Stderr, "codecdrv: "+f+"\n", a...)
	os.Exit(2)
}

// ---------------------------------------------------------------------------------------------
// a small CBOR tree with ordered maps (duplicate keys, verbatim fragments and invalid text are expressible)

type kv struct {
	K string
	V interface{}
}
type omap struct{ kv []kv }
type wrapped struct{ V interface{} } // a byte string holding the encoding of V
type rawcbor []byte                  // emitted verbatim
type badtext []byte                  // a text string with these (possibly invalid) bytes

func (m *omap) idx(k string) int {
	for i := range m.kv {
		if m.kv[i].K == k {
			return i
		}
	}
	return -1
}
func (m *omap) get(k string) (interface{}, bool) {
	if i := m.idx(k); i >= 0 {
		return m.kv[i].V, true
	}
	return nil, false
}
func (m *omap) set(k string, v interface{}) {
	if i := m.idx(k); i >= 0 {
		m.kv[i].V = v
		return
	}
	m.kv = append(m.kv, kv{k, v})
}
func (m *omap) del(k string) {
	if i := m.idx(k); i >= 0 {
		m.kv = append(m.kv[:i:i], m.kv[i+1:]...)
	}
}
func (m *omap) keys() []string {
	var ks []string
	for _, e := range m.kv {
		ks = append(ks, e.K)
	}
	return ks
}

func head(buf *bytes.Buffer, major byte, n uint64) {
	m := major << 5
	switch {
	case n < 24:
		buf.WriteByte(m | byte(n))
	case n < 1<<8:
		buf.WriteByte(m | 24)
		buf.WriteByte(byte(n))
	case n < 1<<16:
		buf.WriteByte(m | 25)
		var b [2]byte
		binary.BigEndian.PutUint16(b[:], uint16(n))
		buf.Write(b[:])
	case n < 1<<32:
		buf.WriteByte(m | 26)
		var b [4]byte
		binary.BigEndian.PutUint32(b[:], uint32(n))
		buf.Write(b[:])
	default:
		buf.WriteByte(m | 27)
		var b [8]byte
		binary.BigEndian.PutUint64(b[:], n)
		buf.Write(b[:])
	}
}

func encTree(buf *bytes.Buffer, v interface{}) {
	switch x := v.(type) {
	case nil:
		buf.WriteByte(0xf6)
	case bool:
		if x {
			buf.WriteByte(0xf5)
		} else {
			buf.WriteByte(0xf4)
		}
	case uint64:
		head(buf, 0, x)
	case int64:
		if x >= 0 {
			head(buf, 0, uint64(x))
		} else {
			head(buf, 1, uint64(-1-x))
		}
	case int:
		encTree(buf, int64(x))
	case []byte:
		head(buf, 2, uint64(len(x)))
		buf.Write(x)
	case string:
		head(buf, 3, uint64(len(x)))
		buf.WriteString(x)
	case badtext:
		head(buf, 3, uint64(len(x)))
		buf.Write(x)
	case []interface{}:
		head(buf, 4, uint64(len(x)))
		for _, e := range x {
			encTree(buf, e)
		}
	case *omap:
		head(buf, 5, uint64(len(x.kv)))
		for _, e := range x.kv {
			encTree(buf, e.K)
			encTree(buf, e.V)
		}
	case *wrapped:
		var inner bytes.Buffer
		encTree(&inner, x.V)
		head(buf, 2, uint64(inner.Len()))
		buf.Write(inner.Bytes())
	case rawcbor:
		buf.Write(x)
	default:
		panic(fmt.Sprintf("encTree: %T", v))
	}
}

func encode(v interface{}) []byte {
	var b bytes.Buffer
	encTree(&b, v)
	return b.Bytes()
}

func conv(v interface{}) interface{} {
	switch x := v.(type) {
	case map[interface{}]interface{}:
		m := &omap{}
		var ks []string
		byK := map[string]interface{}{}
		for k, e := range x {
			s, ok := k.(string)
			if !ok {
				s = fmt.Sprint(k)
			}
			ks = append(ks, s)
			byK[s] = e
		}
		sort.Strings(ks)
		for _, k := range ks {
			m.kv = append(m.kv, kv{k, conv(byK[k])})
		}
		return m
	case []interface{}:
		out := make([]interface{}, len(x))
		for i := range x {
			out[i] = conv(x[i])
		}
		return out
	}
	return v
}

func decodeTree(data []byte) (interface{}, error) {
	var v interface{}
	if err := cbor.Unmarshal(data, &v); err != nil {
		return nil, err
	}
	return conv(v), nil
}

// ---------------------------------------------------------------------------------------------
// instances

type instance struct {
	Ty     string
	N, T   int
	Owner  party.ID
	Other  party.ID // another member (n >= 2)
	Third  party.ID // yet another member (n >= 3)
	IDs    []party.ID
	Obj    interface{}
	Enc    []byte
	Donor  []byte // encoding of the same type held by another party / taken from another run
	Origin string
}

var group = protos.Group

// wrappedTables: fields whose value is a byte string holding a CBOR map (party.PointMap)
var wrappedTables = map[string][]string{
	"frost.Config":       {"VerificationShares"},
	"ecdsa.PreSignature": {"RBar", "S"},
}

func encodeObj(ty string, obj interface{}) ([]byte, error) {
	if ty == "protocol.Message" {
		return obj.(*protocol.Message).MarshalBinary()
	}
	return cbor.Marshal(obj)
}

func emptyOf(ty string) interface{} {
	switch ty {
	case "cmp.Config":
		return cmp.EmptyConfig(group)
	case "frost.Config":
		return frost.EmptyConfig(group)
	case "frost.TaprootConfig":
		return &frost.TaprootConfig{}
	case "doerner.ConfigReceiver":
		return doerner.EmptyConfigReceiver(group)
	case "doerner.ConfigSender":
		return doerner.EmptyConfigSender(group)
	case "ecdsa.PreSignature":
		return ecdsa.EmptyPreSignature(group)
	case "ecdsa.Signature":
		s := ecdsa.EmptySignature(group)
		return &s
	case "protocol.Message":
		return &protocol.Message{}
	}
	return nil
}

// the documented decoder of each type
func decodeDocumented(ty string, data []byte) (interface{}, error) {
	e := emptyOf(ty)
	if ty == "protocol.Message" {
		m := e.(*protocol.Message)
		return m, m.UnmarshalBinary(data)
	}
	return e, cbor.Unmarshal(data, e)
}

type decodeResult struct {
	obj   interface{}
	err   error
	panic string
	hang  bool
}

func safeDecode(ty string, data []byte, limit time.Duration) decodeResult {
	ch := make(chan decodeResult, 1)
	go func() {
		var r decodeResult
		defer func() {
			if p := recover(); p != nil {
				r.panic = fmt.Sprintf("%v | %s", p, shortStack(debug.Stack()))
				r.obj, r.err = nil, nil
			}
			ch <- r
		}()
		r.obj, r.err = decodeDocumented(ty, data)
	}()
	select {
	case r := <-ch:
		return r
	case <-time.After(limit):
		return decodeResult{hang: true}
	}
}

func shortStack(st []byte) string {
	var keep []string
	for _, l := range strings.Split(string(st), "\n") {
		l = strings.TrimSpace(l)
		if strings.HasPrefix(l, "github.com/") && !strings.Contains(l, "verifharness") {
			if i := strings.Index(l, "("); i > 0 {
				l = l[:i]
			}
			keep = append(keep, strings.TrimPrefix(l, "github.com/"))
			if len(keep) >= 4 {
				break
			}
		}
	}
	return strings.Join(keep, " < ")
}

// open decodes an encoding into a tree in which the nested encodings are trees as well.
func open(ty string, enc []byte) (interface{}, *omap, error) {
	t, err := decodeTree(enc)
	if err != nil {
		return nil, nil, err
	}
	if ty == "cmp.Config" {
		b, ok := t.([]byte)
		if !ok {
			return nil, nil, fmt.Errorf("cmp.Config is not encoded as a byte string")
		}
		inner, err := decodeTree(b)
		if err != nil {
			return nil, nil, err
		}
		m, ok := inner.(*omap)
		if !ok {
			return nil, nil, fmt.Errorf("cmp.Config content is not a map")
		}
		return &wrapped{m}, m, nil
	}
	m, ok := t.(*omap)
	if !ok {
		return nil, nil, fmt.Errorf("%s is not encoded as a map", ty)
	}
	for _, f := range wrappedTables[ty] {
		v, _ := m.get(f)
		b, ok := v.([]byte)
		if !ok {
			return nil, nil, fmt.Errorf("%s.%s is not a byte string", ty, f)
		}
		inner, err := decodeTree(b)
		if err != nil {
			return nil, nil, err
		}
		m.set(f, &wrapped{inner})
	}
	return m, m, nil
}

// ---------------------------------------------------------------------------------------------
// building real instances

type builder struct {
	seed  string
	insts map[string][]*instance
	log   []string
	msgs  []*protocol.Message
}

func (b *builder) add(in *instance) {
	enc, err := encodeObj(in.Ty, in.Obj)
	if err != nil {
		fatal("encoding a real %s fails: %v", in.Ty, err)
	}
	in.Enc = enc
	b.insts[in.Ty] = append(b.insts[in.Ty], in)
}

func (b *builder) run(s *protos.Session, label string) *protos.RunResult {
	h := uint64(7)
	for _, c := range label + b.seed {
		h = h*131 + uint64(c)
	}
	r, err := protos.Run(s, protos.RunOpts{Seed: b.seed + "/" + label, Sched: sim.NewRng(h)})
	if err != nil {
		fatal("run %s: %v", label, err)
	}
	if !r.AllDone() {
		fatal("honest session %s did not complete: %s", label, r.Describe())
	}
	// real wire messages
	for _, id := range s.IDs {
		for _, m := range r.Engine.Parties[id].Emitted {
			if m != nil && len(b.msgs) < 4000 {
				b.msgs = append(b.msgs, m)
			}
		}
	}
	return r
}

var idShapes = [][]party.ID{
	{"a", "b", "c", "d", "e"},
	{"Ærøskøbing", "Çanakkale", "Đà Nẵng", "Ōsaka", "北京"},
	{"00000000000000000000000000000001", "party-two-with-a-32-byte-name-xx", "zzzzzzzzzzzzzzzzzzzzzzzzzzzzzzzz", "~~~~~~~~~~~~~~~~~~~~~~~~~~~~~~~~", "p5"},
}

func pickMembers(ids []party.ID, k int) (owner, other, third party.ID) {
	owner = ids[k%len(ids)]
	var rest []party.ID
	for _, id := range ids {
		if id != owner {
			rest = append(rest, id)
		}
	}
	if len(rest) > 0 {
		other = rest[(k/len(ids))%len(rest)]
	}
	for _, id := range rest {
		if id != other {
			third = id
			break
		}
	}
	return
}

func (b *builder) threshold(ty string, n, t, owners int, seedN int) {
	shape := idShapes[(seedN+n+t)%len(idShapes)]
	ids := append([]party.ID(nil), shape[:n]...)
	sort.Slice(ids, func(i, j int) bool { return ids[i] < ids[j] })
	var mat map[party.ID]interface{}
	label := fmt.Sprintf("%s/%d/%d", ty, n, t)
	switch ty {
	case "cmp.Config":
		mat = protos.DealCmp(ids, t, b.seed+"/"+label)
	case "frost.Config":
		mat = b.run(protos.FrostKeygen(ids, t, false, []byte("kg")), label).Results
	case "frost.TaprootConfig":
		mat = b.run(protos.FrostKeygen(ids, t, true, []byte("kg")), label).Results
	}
	for k := 0; k < owners && k < n; k++ {
		owner, other, third := pickMembers(ids, seedN+k*(n+1))
		if k > 0 && owner == b.insts[ty][len(b.insts[ty])-1].Owner {
			owner, other, third = pickMembers(ids, seedN+k*(n+1)+1)
		}
		in := &instance{Ty: ty, N: n, T: t, Owner: owner, Other: other, Third: third, IDs: ids, Obj: mat[owner], Origin: label}
		if other != "" {
			d, err := encodeObj(ty, mat[other])
			if err == nil {
				in.Donor = d
			}
		}
		b.add(in)
	}
}

func (b *builder) doerner() {
	var prev [2][]byte
	for k := 0; k < 2; k++ {
		r := b.run(protos.DoernerKeygen("a", "b", []byte("kg")), fmt.Sprintf("doerner/%d", k))
		cr := r.Results["a"].(*doerner.ConfigReceiver)
		cs := r.Results["b"].(*doerner.ConfigSender)
		ir := &instance{Ty: "doerner.ConfigReceiver", N: 2, T: 1, Owner: "a", Other: "b", IDs: []party.ID{"a", "b"}, Obj: cr, Origin: "doerner keygen"}
		is := &instance{Ty: "doerner.ConfigSender", N: 2, T: 1, Owner: "b", Other: "a", IDs: []party.ID{"a", "b"}, Obj: cs, Origin: "doerner keygen"}
		b.add(ir)
		b.add(is)
		if k == 0 {
			prev[0], prev[1] = ir.Enc, is.Enc
			// a real signature of this scheme
			msg := sim.NewRng(11).Bytes(32)
			sr := b.run(protos.DoernerSign("a", "b", protos.CloneConfig(cr).(*doerner.ConfigReceiver), protos.CloneConfig(cs).(*doerner.ConfigSender), msg, []byte("sg")), "doerner/sign")
			if sig, ok := sr.Results["a"].(*ecdsa.Signature); ok {
				b.add(&instance{Ty: "ecdsa.Signature", N: 2, T: 1, Obj: sig, Origin: "doerner sign"})
			}
		} else {
			ir.Donor, is.Donor = prev[0], prev[1]
			b.insts["doerner.ConfigReceiver"][0].Donor = ir.Enc
			b.insts["doerner.ConfigSender"][0].Donor = is.Enc
		}
	}
}

func (b *builder) presign() {
	ids := []party.ID{"a", "b"}
	mat := protos.DealCmp(ids, 1, b.seed+"/presign")
	r := b.run(protos.CmpPresign(protos.CloneConfigs(mat), ids, []byte("ps")), "cmp/presign")
	pres := map[party.ID]*ecdsa.PreSignature{}
	for id, x := range r.Results {
		pres[id] = x.(*ecdsa.PreSignature)
	}
	encB, _ := cbor.Marshal(pres["b"])
	encA, _ := cbor.Marshal(pres["a"])
	b.add(&instance{Ty: "ecdsa.PreSignature", N: 2, T: 1, Owner: "a", Other: "b", IDs: ids, Obj: pres["a"], Donor: encB, Origin: "cmp presign"})
	b.add(&instance{Ty: "ecdsa.PreSignature", N: 2, T: 1, Owner: "b", Other: "a", IDs: ids, Obj: pres["b"], Donor: encA, Origin: "cmp presign"})
	msg := sim.NewRng(5).Bytes(32)
	r2 := b.run(protos.CmpPresignOnline(protos.CloneConfigs(mat), pres, ids, msg, []byte("on")), "cmp/online")
	if sig, ok := r2.Results["a"].(*ecdsa.Signature); ok {
		b.add(&instance{Ty: "ecdsa.Signature", N: 2, T: 1, Obj: sig, Origin: "cmp presign online"})
	}
}

// messages: a few real ones of different protocols, rounds and kinds
func (b *builder) messages(max int) {
	seen := map[string]bool{}
	for _, m := range b.msgs {
		key := fmt.Sprintf("%s/%d/%v", m.Protocol, m.RoundNumber, m.Broadcast)
		if seen[key] {
			continue
		}
		seen[key] = true
		if len(b.insts["protocol.Message"]) >= max {
			break
		}
		b.add(&instance{Ty: "protocol.Message", N: 2, T: 1, Obj: sim.CloneMsg(m), Origin: key})
	}
	l := b.insts["protocol.Message"]
	for i, in := range l {
		in.Donor = l[(i+1)%len(l)].Enc
	}
}

// ---------------------------------------------------------------------------------------------
// corruption

type caseT struct {
	Ty     string   `json:"ty"`
	Field  string   `json:"field"`
	Kind   string   `json:"kind"`
	C      string   `json:"c"`
	N      int      `json:"n"`
	T      int      `json:"t"`
	Expect string   `json:"expect"`
	Rules  []string `json:"rules"`
	Risk   []string `json:"risk"`
}

var (
	curveP, _ = new(big.Int).SetString("FFFFFFFFFFFFFFFFFFFFFFFFFFFFFFFFFFFFFFFFFFFFFFFFFFFFFFFEFFFFFC2F", 16)
	curveN, _ = new(big.Int).SetString("FFFFFFFFFFFFFFFFFFFFFFFFFFFFFFFEBAAEDCE6AF48A03BBFD25E8CD0364141", 16)
)

func be(x *big.Int, n int) []byte {
	b := x.Bytes()
	if len(b) >= n {
		return b
	}
	return append(make([]byte, n-len(b)), b...)
}

func isLiftable(x *big.Int) bool {
	if x.Sign() < 0 || x.Cmp(curveP) >= 0 {
		return false
	}
	_, ok := oracle.LiftX(x)
	return ok
}

// x coordinate near x0 that is / is not on the curve
func nearX(x0 *big.Int, on bool) *big.Int {
	x := new(big.Int).Set(x0)
	for i := 0; i < 1000; i++ {
		x.Add(x, big.NewInt(1))
		x.Mod(x, curveP)
		if isLiftable(x) == on {
			return x
		}
	}
	return x
}

var primeCache sync.Map

// derived "bad primes" of the size of p (searched once per prime)
func badPrime(p *big.Int, what string) *big.Int {
	key := what + p.Text(16)
	if v, ok := primeCache.Load(key); ok {
		return v.(*big.Int)
	}
	one, two, four := big.NewInt(1), big.NewInt(2), big.NewInt(4)
	var out *big.Int
	switch what {
	case "notsafe": // a prime = 3 mod 4 of the same size whose (p-1)/2 is composite
		c := new(big.Int).Add(p, four)
		for {
			if c.ProbablyPrime(8) {
				h := new(big.Int).Rsh(c, 1)
				if !h.ProbablyPrime(8) {
					out = c
					break
				}
			}
			c = new(big.Int).Add(c, four)
		}
	case "halfprime": // 2q+1 with q prime, but 2q+1 composite (same size, = 3 mod 4)
		q := new(big.Int).Rsh(p, 1)
		q.Add(q, two)
		for {
			if q.ProbablyPrime(8) {
				c := new(big.Int).Lsh(q, 1)
				c.Add(c, one)
				if !c.ProbablyPrime(8) && c.BitLen() == p.BitLen() {
					out = c
					break
				}
			}
			q.Add(q, two)
		}
	}
	primeCache.Store(key, out)
	return out
}

type naErr string

func (e naErr) Error() string { return string(e) }

func na(f string, a ...interface{}) error { return naErr(fmt.Sprintf(f, a...)) }

func asBytes(v interface{}) ([]byte, bool) {
	b, ok := v.([]byte)
	return b, ok
}

// slot is an addressable position in the tree
type slot struct {
	get func() (interface{}, bool)
	set func(interface{})
	del func()
}

func mapSlot(m *omap, k string) slot {
	return slot{get: func() (interface{}, bool) { return m.get(k) }, set: func(v interface{}) { m.set(k, v) }, del: func() { m.del(k) }}
}

func randBytes(rnd *sim.Rng, n int) []byte {
	b := rnd.Bytes(n)
	if n > 0 {
		b[0] &= 0x7f
		b[n-1] |= 1
	}
	return b
}

// table access: a party table is a map id -> point (possibly wrapped) or a list of entries with an ID
func tableOf(top *omap, field string) (*omap, []interface{}, func(interface{}), error) {
	v, ok := top.get(field)
	if !ok {
		return nil, nil, nil, fmt.Errorf("no field %s", field)
	}
	setter := func(nv interface{}) { top.set(field, nv) }
	if w, ok := v.(*wrapped); ok {
		inner := w
		v = inner.V
		setter = func(nv interface{}) { inner.V = nv }
	}
	switch x := v.(type) {
	case *omap:
		return x, nil, setter, nil
	case []interface{}:
		return nil, x, setter, nil
	}
	return nil, nil, nil, fmt.Errorf("field %s is not a table", field)
}

func listEntry(l []interface{}, id party.ID) (*omap, int) {
	for i, e := range l {
		if m, ok := e.(*omap); ok {
			if v, _ := m.get("ID"); v == string(id) {
				return m, i
			}
		}
	}
	return nil, -1
}

func cloneTree(v interface{}) interface{} {
	switch x := v.(type) {
	case *omap:
		m := &omap{}
		for _, e := range x.kv {
			m.kv = append(m.kv, kv{e.K, cloneTree(e.V)})
		}
		return m
	case []interface{}:
		out := make([]interface{}, len(x))
		for i := range x {
			out[i] = cloneTree(x[i])
		}
		return out
	case []byte:
		return append([]byte(nil), x...)
	case *wrapped:
		return &wrapped{cloneTree(x.V)}
	}
	return v
}

// sibling fields of the same kind, for "swap"
var siblings = map[string]string{
	"cmp.Config/ECDSA": "ElGamal", "cmp.Config/ElGamal": "ECDSA", "cmp.Config/P": "Q", "cmp.Config/Q": "P",
	"cmp.Config/RID": "ChainKey", "cmp.Config/ChainKey": "RID",
	"ecdsa.PreSignature/KShare": "ChiShare", "ecdsa.PreSignature/ChiShare": "KShare",
	"protocol.Message/From": "To", "protocol.Message/To": "From", "protocol.Message/Protocol": "From",
}

func corrupt(in *instance, cs caseT, rnd *sim.Rng, donors map[string][]byte) ([]byte, error) {
	if cs.Kind == "whole" {
		return corruptWhole(in, cs, rnd, donors)
	}
	root, top, err := open(in.Ty, in.Enc)
	if err != nil {
		return nil, err
	}
	var donorTop *omap
	if in.Donor != nil {
		if _, dt, err := open(in.Ty, in.Donor); err == nil {
			donorTop = dt
		}
	}
	parts := strings.Split(cs.Field, "/")
	// locate the slot
	var sl slot
	var entry *omap // the list entry a leaf lives in
	var donorVal interface{}
	switch {
	case len(parts) == 1:
		if _, ok := top.get(parts[0]); !ok {
			// the encoder left the (empty) field out of this instance; that the field exists at all is checked against
			// the union of the instances
			return nil, na("this encoding of %s leaves out the field %s", in.Ty, parts[0])
		}
		sl = mapSlot(top, parts[0])
		if donorTop != nil {
			donorVal, _ = donorTop.get(parts[0])
		}
	case len(parts) == 2: // map table entry: Field/own|other
		m, _, _, err := tableOf(top, parts[0])
		if err != nil || m == nil {
			return nil, fmt.Errorf("%s: %v", cs.Field, err)
		}
		id := in.Owner
		alt := in.Other
		if parts[1] == "other" {
			id, alt = in.Other, in.Owner
		}
		if id == "" {
			return nil, na("no such party")
		}
		if _, ok := m.get(string(id)); !ok {
			return nil, fmt.Errorf("table %s has no entry for %q", parts[0], id)
		}
		sl = mapSlot(m, string(id))
		donorVal, _ = m.get(string(alt))
	case len(parts) == 3: // list table entry field: Field/own|other/Key
		_, l, _, err := tableOf(top, parts[0])
		if err != nil || l == nil {
			return nil, fmt.Errorf("%s: %v", cs.Field, err)
		}
		id, alt := in.Owner, in.Other
		if parts[1] == "other" {
			id, alt = in.Other, in.Owner
		}
		e, _ := listEntry(l, id)
		if e == nil {
			return nil, fmt.Errorf("list %s has no entry for %q", parts[0], id)
		}
		if _, ok := e.get(parts[2]); !ok {
			return nil, fmt.Errorf("entries of %s have no field %s", parts[0], parts[2])
		}
		entry = e
		sl = mapSlot(e, parts[2])
		if ae, _ := listEntry(l, alt); ae != nil {
			donorVal, _ = ae.get(parts[2])
		}
	default:
		return nil, fmt.Errorf("bad field path %s", cs.Field)
	}
	cur, _ := sl.get()

	// corruptions every kind shares
	switch cs.C {
	case "absent":
		sl.del()
		return encode(root), nil
	case "null":
		sl.set(nil)
		return encode(root), nil
	}
	sib := func() interface{} {
		if s, ok := siblings[in.Ty+"/"+parts[len(parts)-1]]; ok && len(parts) == 1 {
			v, _ := top.get(s)
			return v
		}
		return nil
	}
	switch cs.Kind {
	case "nzscalar", "point", "entrypoint", "xonly", "bytes32", "setup", "derived", "mbytes":
		b, ok := asBytes(cur)
		if !ok {
			if cur == nil && (cs.Kind == "mbytes") {
				b = []byte{}
			} else {
				return nil, fmt.Errorf("%s.%s is not a byte string in the real encoding (%T)", in.Ty, cs.Field, cur)
			}
		}
		var nb interface{}
		L := len(b)
		switch cs.C {
		case "empty":
			nb = []byte{}
		case "zero":
			nb = make([]byte, L)
		case "lenminus":
			if L == 0 {
				return nil, na("empty field")
			}
			nb = append([]byte(nil), b[:L-1]...)
		case "lenplus":
			nb = append(append([]byte(nil), b...), 0x01)
		case "half":
			nb = append([]byte(nil), b[:L/2]...)
		case "wrongtype":
			nb = uint64(7)
		case "random":
			nb = randBytes(rnd, L)
		case "order":
			nb = be(curveN, 32)
		case "overflow":
			nb = bytes.Repeat([]byte{0xff}, 32)
		case "identity":
			nb = append([]byte{2}, make([]byte, 32)...)
		case "badprefix":
			nb = append([]byte{4}, b[1:]...)
		case "negate":
			nb = append([]byte{b[0] ^ 1}, b[1:]...)
		case "offcurve":
			off := 0
			if L == 33 {
				off = 1
			}
			x := nearX(new(big.Int).SetBytes(b[off:]), false)
			nb = append(append([]byte(nil), b[:off]...), be(x, 32)...)
		case "xoverflow":
			// p + x0 with x0 a small x coordinate on the curve: a decoder reducing mod p would see a valid point
			x0 := nearX(big.NewInt(0), true)
			x := new(big.Int).Add(curveP, x0)
			if x.BitLen() > 256 {
				return nil, na("no overflow representative")
			}
			if L == 33 {
				nb = append([]byte{2}, be(x, 32)...)
			} else {
				nb = be(x, 32)
			}
		case "swap":
			var other interface{}
			switch cs.Kind {
			case "xonly": // the x coordinate of the own verification share
				if m, _, _, err := tableOf(top, "VerificationShares"); err == nil && m != nil {
					if v, ok := m.get(string(in.Owner)); ok {
						if pb, ok := asBytes(v); ok && len(pb) == 33 {
							other = append([]byte(nil), pb[1:]...)
						}
					}
				}
			case "point":
				if entry != nil { // ECDSA <-> ElGamal inside an entry
					o := "ECDSA"
					if parts[2] == "ECDSA" {
						o = "ElGamal"
					}
					other, _ = entry.get(o)
				} else if m, _, _, err := tableOf(top, "VerificationShares"); err == nil && m != nil {
					other, _ = m.get(string(in.Owner))
				}
			}
			if other == nil {
				other = sib()
			}
			if other == nil {
				other = donorVal
			}
			ob, ok := asBytes(other)
			if !ok || bytes.Equal(ob, b) {
				return nil, na("nothing to swap with")
			}
			nb = append([]byte(nil), ob...)
			if len(parts) == 2 { // table entries: a real exchange
				m, _, _, _ := tableOf(top, parts[0])
				alt := in.Other
				if parts[1] == "other" {
					alt = in.Owner
				}
				m.set(string(alt), append([]byte(nil), b...))
			} else if s, ok := siblings[in.Ty+"/"+cs.Field]; ok && len(parts) == 1 {
				top.set(s, append([]byte(nil), b...))
			}
		default:
			return nil, fmt.Errorf("corruption %s is not defined for kind %s", cs.C, cs.Kind)
		}
		sl.set(nb)
	case "prime", "modulus", "pedersen":
		b, ok := asBytes(cur)
		if !ok {
			return nil, fmt.Errorf("%s.%s is not a byte string in the real encoding (%T)", in.Ty, cs.Field, cur)
		}
		x := new(big.Int).SetBytes(b)
		one := big.NewInt(1)
		var nv *big.Int
		padTo := 0
		switch cs.C {
		case "empty":
			sl.set([]byte{})
			return encode(root), nil
		case "wrongtype":
			sl.set("text")
			return encode(root), nil
		case "zero":
			sl.set([]byte{0})
			return encode(root), nil
		case "small", "smallpadded":
			if cs.Kind == "prime" {
				nv = big.NewInt(23) // a safe Blum prime, only too small
			} else {
				nv = big.NewInt(15)
			}
			padTo = len(b) // "smallpadded": the same value in a byte string of the original width (leading zeros)
		case "short":
			if cs.Kind == "prime" {
				nv = new(big.Int).Rsh(x, 8)
				nv.Or(nv, big.NewInt(3))
			} else {
				nv = new(big.Int).Rsh(x, 1)
				nv.Or(nv, one)
			}
		case "long":
			if cs.Kind == "prime" {
				nv = new(big.Int).Lsh(x, 8)
				nv.Or(nv, big.NewInt(3))
			} else {
				nv = new(big.Int).Lsh(x, 1)
				nv.Or(nv, one)
			}
		case "even":
			nv = new(big.Int).Sub(x, one)
		case "notblum":
			nv = new(big.Int).Add(x, big.NewInt(2))
		case "composite":
			nv = new(big.Int).Add(x, big.NewInt(4))
			for nv.ProbablyPrime(8) || new(big.Int).Rsh(nv, 1).ProbablyPrime(8) {
				nv.Add(nv, big.NewInt(4))
			}
		case "notsafe", "halfprime":
			nv = badPrime(x, cs.C)
		case "one":
			nv = big.NewInt(1)
		case "equal", "swap":
			o := "S"
			if parts[len(parts)-1] == "S" {
				o = "T"
			}
			var ov interface{}
			if cs.Kind == "prime" {
				ov = sib()
			} else {
				ov, _ = entry.get(o)
			}
			ob, ok := asBytes(ov)
			if !ok {
				return nil, na("nothing to swap with")
			}
			if cs.C == "swap" {
				if cs.Kind == "prime" {
					top.set(siblings[in.Ty+"/"+cs.Field], append([]byte(nil), b...))
				} else {
					entry.set(o, append([]byte(nil), b...))
				}
			}
			sl.set(append([]byte(nil), ob...))
			return encode(root), nil
		case "modulus", "toolarge", "random":
			nb, ok := entry.get("N")
			nbb, ok2 := asBytes(nb)
			if !ok || !ok2 {
				return nil, fmt.Errorf("entry has no modulus")
			}
			N := new(big.Int).SetBytes(nbb)
			switch cs.C {
			case "modulus":
				nv = N
			case "toolarge":
				nv = new(big.Int).Add(N, x)
			case "random":
				nv = new(big.Int).Mul(x, x)
				nv.Mod(nv, N)
			}
		default:
			return nil, fmt.Errorf("corruption %s is not defined for kind %s", cs.C, cs.Kind)
		}
		if cs.C == "smallpadded" && padTo > 0 {
			pad := make([]byte, padTo)
			nv.FillBytes(pad)
			sl.set(pad)
		} else {
			sl.set(nv.Bytes())
		}
		if cs.Kind == "modulus" && entry != nil && nv.Cmp(big.NewInt(4)) > 0 {
			// keep the entry's Pedersen parameters valid for the new modulus (two small units), so that the modulus
			// itself is the only thing wrong with the entry
			var units []*big.Int
			for k := int64(2); len(units) < 2 && k < 200; k++ {
				if new(big.Int).GCD(nil, nil, big.NewInt(k), nv).Cmp(one) == 0 {
					units = append(units, big.NewInt(k))
				}
			}
			if len(units) == 2 {
				entry.set("S", units[0].Bytes())
				entry.set("T", units[1].Bytes())
			}
		}
	case "threshold":
		switch cs.C {
		case "zero":
			sl.set(uint64(0))
		case "neg":
			sl.set(int64(-1))
		case "eqn":
			sl.set(uint64(in.N))
		case "nminus1":
			sl.set(uint64(in.N - 1))
		case "huge":
			sl.set(uint64(1<<31 - 1))
		case "wrongtype":
			sl.set([]byte{1})
		default:
			return nil, fmt.Errorf("corruption %s is not defined for kind %s", cs.C, cs.Kind)
		}
	case "ownid", "entryid", "ownentryid":
		switch cs.C {
		case "empty":
			sl.set("")
		case "unknown":
			sl.set("zz-unknown")
		case "other", "dupother":
			target := in.Other
			if cs.Kind == "entryid" { // the id inside Other's entry: take the third member's
				target = in.Third
			}
			if cs.Kind == "ownid" && in.Ty == "cmp.Config" {
				// the entry found under the own id supplies the own Pedersen parameters: for the renamed object to be
				// another VALID object they must be units below the own modulus - take a member for which they are
				target = ""
				if _, l, _, err := tableOf(top, "Public"); err == nil {
					if own, _ := listEntry(l, in.Owner); own != nil {
						nb, _ := own.get("N")
						nbb, _ := asBytes(nb)
						N := new(big.Int).SetBytes(nbb)
						for _, id := range in.IDs {
							e, _ := listEntry(l, id)
							if id == in.Owner || e == nil {
								continue
							}
							ok := true
							for _, k := range []string{"S", "T"} {
								v, _ := e.get(k)
								b, _ := asBytes(v)
								x := new(big.Int).SetBytes(b)
								if x.Sign() == 0 || x.Cmp(N) >= 0 || new(big.Int).GCD(nil, nil, x, N).Cmp(big.NewInt(1)) != 0 {
									ok = false
								}
							}
							if ok {
								target = id
								break
							}
						}
					}
				}
				if target == "" {
					return nil, na("no member whose Pedersen parameters fit the own modulus")
				}
			}
			if target == "" {
				return nil, na("not enough parties")
			}
			sl.set(string(target))
		case "dupown":
			sl.set(string(in.Owner))
		case "wrongtype":
			sl.set(uint64(7))
		default:
			return nil, fmt.Errorf("corruption %s is not defined for kind %s", cs.C, cs.Kind)
		}
	case "maptable", "pairtable", "listtable":
		m, l, setT, err := tableOf(top, parts[0])
		if err != nil {
			return nil, err
		}
		switch cs.C {
		case "wrongtype":
			sl.set(uint64(7))
		case "emptymap":
			setT(&omap{})
		case "emptylist":
			setT([]interface{}{})
		case "innertrunc":
			v, _ := top.get(parts[0])
			if w, ok := v.(*wrapped); ok {
				inner := encode(w.V)
				top.set(parts[0], inner[:len(inner)-1])
			} else {
				// announce one entry more than there is
				var buf bytes.Buffer
				head(&buf, 5, uint64(len(m.kv)+1))
				for _, e := range m.kv {
					encTree(&buf, e.K)
					encTree(&buf, e.V)
				}
				top.set(parts[0], rawcbor(buf.Bytes()))
			}
		case "dropown", "dropother":
			id := in.Owner
			if cs.C == "dropother" {
				id = in.Other
			}
			if id == "" {
				return nil, na("no such party")
			}
			if m != nil {
				m.del(string(id))
			} else {
				_, i := listEntry(l, id)
				if i < 0 {
					return nil, fmt.Errorf("no entry for %q", id)
				}
				setT(append(append([]interface{}(nil), l[:i]...), l[i+1:]...))
			}
		case "extra":
			if m != nil {
				v, _ := m.get(string(in.Owner))
				if in.Owner == "" && len(m.kv) > 0 {
					v = m.kv[0].V
				}
				m.set("zz-extra", cloneTree(v))
			} else {
				e, _ := listEntry(l, in.Other)
				if e == nil {
					return nil, na("no other party")
				}
				ne := cloneTree(e).(*omap)
				ne.set("ID", "zz-extra")
				setT(append(append([]interface{}(nil), l...), ne))
			}
		case "dupkey":
			// the same key twice, the second time with another party's (valid) point
			id, alt := in.Other, in.Owner
			if in.Owner == "" && len(m.kv) >= 2 {
				id, alt = party.ID(m.kv[0].K), party.ID(m.kv[1].K)
			}
			v, ok := m.get(string(alt))
			if !ok || id == "" {
				return nil, na("no other party")
			}
			m.kv = append(m.kv, kv{string(id), cloneTree(v)})
		case "dupown", "dupother":
			id := in.Owner
			if cs.C == "dupother" {
				id = in.Other
			}
			e, _ := listEntry(l, id)
			if e == nil {
				return nil, na("no such party")
			}
			setT(append(append([]interface{}(nil), l...), cloneTree(e)))
		case "entrynotmap":
			_, i := listEntry(l, in.Other)
			if i < 0 {
				return nil, na("no other party")
			}
			nl := append([]interface{}(nil), l...)
			nl[i] = []byte{1, 2, 3}
			setT(nl)
		default:
			return nil, fmt.Errorf("corruption %s is not defined for kind %s", cs.C, cs.Kind)
		}
	case "mtext":
		s, _ := cur.(string)
		switch cs.C {
		case "empty":
			sl.set("")
		case "swap":
			o, _ := sib().(string)
			if o == s {
				o = s + "x"
			}
			sl.set(o)
		case "invalidutf8":
			sl.set(badtext([]byte{0xff, 0xfe, 0x41}))
		case "wrongtype":
			sl.set(uint64(7))
		default:
			return nil, fmt.Errorf("corruption %s is not defined for kind %s", cs.C, cs.Kind)
		}
	case "muint":
		u, _ := cur.(uint64)
		switch cs.C {
		case "zero":
			sl.set(uint64(0))
		case "inc":
			sl.set(u + 1)
		case "max16":
			sl.set(uint64(65535))
		case "over16":
			sl.set(uint64(65536))
		case "negative":
			sl.set(int64(-1))
		case "wrongtype":
			sl.set([]byte{1})
		default:
			return nil, fmt.Errorf("corruption %s is not defined for kind %s", cs.C, cs.Kind)
		}
	case "mbool":
		bv, _ := cur.(bool)
		switch cs.C {
		case "negate":
			sl.set(!bv)
		case "wrongtype":
			sl.set(uint64(1))
		default:
			return nil, fmt.Errorf("corruption %s is not defined for kind %s", cs.C, cs.Kind)
		}
	default:
		return nil, fmt.Errorf("unknown kind %s", cs.Kind)
	}
	return encode(root), nil
}

func corruptWhole(in *instance, cs caseT, rnd *sim.Rng, donors map[string][]byte) ([]byte, error) {
	e := in.Enc
	switch cs.C {
	case "emptybytes":
		return []byte{}, nil
	case "trunc1q":
		return append([]byte(nil), e[:len(e)/4]...), nil
	case "trunc2q":
		return append([]byte(nil), e[:len(e)/2]...), nil
	case "trunc3q":
		return append([]byte(nil), e[:3*len(e)/4]...), nil
	case "trunclast":
		return append([]byte(nil), e[:len(e)-1]...), nil
	case "randombytes":
		b := rnd.Bytes(len(e))
		if b[0] == 0xa0 || b[0] == 0xf6 || b[0] == 0xf7 {
			b[0] = 0x82 // "empty map / null followed by garbage" are cases of their own
		}
		return b, nil
	case "emptymapjunk":
		if in.Ty == "cmp.Config" {
			return append([]byte{0x41, 0xa0}, rnd.Bytes(24)...), nil
		}
		return append([]byte{0xa0}, rnd.Bytes(24)...), nil
	case "emptymap":
		if in.Ty == "cmp.Config" {
			return []byte{0x41, 0xa0}, nil
		}
		return []byte{0xa0}, nil
	case "nullvalue":
		return []byte{0xf6}, nil
	case "trailing":
		return append(append([]byte(nil), e...), 0x00), nil
	case "othertype":
		d, ok := donors[cs.Field]
		if !ok {
			return nil, na("no instance of %s", cs.Field)
		}
		return d, nil
	}
	return nil, fmt.Errorf("unknown whole-object corruption %s", cs.C)
}

// ---------------------------------------------------------------------------------------------
// independent predicates on restored objects

func isNil(v interface{}) bool {
	if v == nil {
		return true
	}
	rv := reflect.ValueOf(v)
	switch rv.Kind() {
	case reflect.Ptr, reflect.Map, reflect.Slice, reflect.Interface:
		return rv.IsNil()
	}
	return false
}

func rawOf(v interface{}) ([]byte, bool) {
	if isNil(v) {
		return nil, false
	}
	bm, ok := v.(encoding.BinaryMarshaler)
	if !ok {
		return nil, false
	}
	var b []byte
	var err error
	func() {
		defer func() {
			if r := recover(); r != nil {
				err = fmt.Errorf("panic")
			}
		}()
		b, err = bm.MarshalBinary()
	}()
	return b, err == nil
}

func allZero(b []byte) bool {
	for _, x := range b {
		if x != 0 {
			return false
		}
	}
	return true
}

type verdict struct{ broken map[string]string }

func (v *verdict) add(rule, why string) {
	if v.broken == nil {
		v.broken = map[string]string{}
	}
	if _, ok := v.broken[rule]; !ok {
		v.broken[rule] = why
	}
}

func (v *verdict) scalar(name string, s interface{}) {
	b, ok := rawOf(s)
	if !ok {
		v.add("zero-secret", name+" is missing")
		return
	}
	x := new(big.Int).SetBytes(b)
	x.Mod(x, curveN)
	if x.Sign() == 0 {
		v.add("zero-secret", name+" is zero")
	}
}

func (v *verdict) point(name string, p interface{}) {
	b, ok := rawOf(p)
	if !ok {
		v.add("identity-point", name+" is missing")
		return
	}
	if len(b) != 33 || allZero(b[1:]) {
		v.add("identity-point", name+" is the identity")
		return
	}
	pt, err := oracle.ParseCompressed(b)
	if err != nil || pt.Inf || !oracle.OnCurve(pt) {
		v.add("identity-point", name+" is not a point of the curve")
	}
}

func (v *verdict) size32(name string, b []byte) {
	if len(b) != 32 {
		v.add("wrong-size-bytes", fmt.Sprintf("%s has %d bytes", name, len(b)))
	}
}

func (v *verdict) threshold(t, n int) {
	if t < 0 || t > n-1 {
		v.add("inconsistent-threshold", fmt.Sprintf("threshold %d with %d parties", t, n))
	}
}

func (v *verdict) prime(name string, p *big.Int) {
	if p == nil {
		v.add("bad-prime", name+" is missing")
		return
	}
	switch {
	case p.BitLen() != 1024:
		v.add("bad-prime", fmt.Sprintf("%s has %d bits", name, p.BitLen()))
	case new(big.Int).And(p, big.NewInt(3)).Int64() != 3:
		v.add("bad-prime", name+" is not 3 mod 4")
	case !p.ProbablyPrime(20):
		v.add("bad-prime", name+" is composite")
	case !new(big.Int).Rsh(p, 1).ProbablyPrime(20):
		v.add("bad-prime", name+" is not a safe prime")
	}
}

func (v *verdict) modulus(name string, n *big.Int) {
	if n == nil {
		v.add("bad-modulus", name+" is missing")
		return
	}
	if n.BitLen() != 2048 {
		v.add("bad-modulus", fmt.Sprintf("%s has %d bits", name, n.BitLen()))
	} else if n.Bit(0) == 0 {
		v.add("bad-modulus", name+" is even")
	}
}

func (v *verdict) pedersen(name string, n, s, t *big.Int) {
	if n == nil || s == nil || t == nil {
		v.add("bad-pedersen", name+" is incomplete")
		return
	}
	for k, x := range map[string]*big.Int{"s": s, "t": t} {
		if x.Sign() <= 0 || x.Cmp(n) >= 0 {
			v.add("bad-pedersen", fmt.Sprintf("%s: %s is not in [1, N)", name, k))
			return
		}
		if n.Sign() > 0 && new(big.Int).GCD(nil, nil, x, n).Cmp(big.NewInt(1)) != 0 {
			v.add("bad-pedersen", fmt.Sprintf("%s: %s is not a unit mod N", name, k))
			return
		}
	}
	if s.Cmp(t) == 0 {
		v.add("bad-pedersen", name+": s = t")
	}
}

func setupRows(v *verdict, setup interface{}) {
	if isNil(setup) {
		v.add("missing-setup", "the OT setup is missing")
		return
	}
	rv := reflect.ValueOf(setup).Elem()
	var walk func(x reflect.Value, name string)
	walk = func(x reflect.Value, name string) {
		switch x.Kind() {
		case reflect.Array:
			if x.Type().Elem().Kind() == reflect.Uint8 {
				zero := true
				for i := 0; i < x.Len(); i++ {
					if x.Index(i).Uint() != 0 {
						zero = false
						break
					}
				}
				if zero {
					v.add("zero-secret", "OT setup: "+name+" is all zero")
				}
				return
			}
			for i := 0; i < x.Len(); i++ {
				walk(x.Index(i), fmt.Sprintf("%s[%d]", name, i))
			}
		case reflect.Struct:
			for i := 0; i < x.NumField(); i++ {
				walk(x.Field(i), x.Type().Field(i).Name)
			}
		}
	}
	walk(rv, "setup")
}

func natBig(x interface{ Big() *big.Int }) (out *big.Int) {
	if isNil(x) {
		return nil
	}
	defer func() {
		if recover() != nil {
			out = nil
		}
	}()
	return x.Big()
}

// judgeObj returns the rules the restored object breaks.
func judgeObj(ty string, obj interface{}) (v verdict) {
	defer func() {
		if r := recover(); r != nil {
			v.add("unreadable", fmt.Sprintf("judging panicked: %v", r))
		}
	}()
	switch c := obj.(type) {
	case *cmp.Config:
		v.scalar("ECDSA", c.ECDSA)
		v.scalar("ElGamal", c.ElGamal)
		v.size32("RID", c.RID)
		v.size32("ChainKey", c.ChainKey)
		var ownN *big.Int
		if c.Paillier == nil {
			v.add("bad-prime", "Paillier secret key is missing")
		} else {
			p, q := natBig(c.Paillier.P()), natBig(c.Paillier.Q())
			v.prime("P", p)
			v.prime("Q", q)
			if p != nil && q != nil {
				ownN = new(big.Int).Mul(p, q)
				if c.Paillier.PublicKey == nil || natBig(c.Paillier.PublicKey.N()) == nil || natBig(c.Paillier.PublicKey.N()).Cmp(ownN) != 0 {
					v.add("bad-modulus", "own Paillier modulus is not P*Q")
				}
			}
		}
		v.threshold(c.Threshold, len(c.Public))
		if _, ok := c.Public[c.ID]; !ok {
			v.add("own-entry-missing", fmt.Sprintf("no public entry for own id %q", c.ID))
		}
		for id, p := range c.Public {
			nm := fmt.Sprintf("Public[%s]", id)
			if p == nil {
				v.add("identity-point", nm+" is nil")
				continue
			}
			v.point(nm+".ECDSA", p.ECDSA)
			v.point(nm+".ElGamal", p.ElGamal)
			var n *big.Int
			if p.Paillier != nil {
				n = natBig(p.Paillier.N())
			}
			v.modulus(nm+".N", n)
			if id == c.ID && ownN != nil && n != nil && n.Cmp(ownN) != 0 {
				v.add("bad-modulus", "own public modulus is not P*Q")
			}
			if p.Pedersen == nil {
				v.add("bad-pedersen", nm+" has no Pedersen parameters")
				continue
			}
			pn := natBig(p.Pedersen.N())
			if pn == nil || n == nil || pn.Cmp(n) != 0 {
				v.add("bad-pedersen", nm+": Pedersen and Paillier moduli differ")
			}
			v.pedersen(nm, pn, natBig(p.Pedersen.S()), natBig(p.Pedersen.T()))
		}
	case *frost.Config:
		v.scalar("PrivateShare", c.PrivateShare)
		v.point("PublicKey", c.PublicKey)
		v.size32("ChainKey", c.ChainKey)
		n := 0
		if c.VerificationShares != nil {
			n = len(c.VerificationShares.Points)
			for id, p := range c.VerificationShares.Points {
				v.point(fmt.Sprintf("VerificationShares[%s]", id), p)
			}
			if _, ok := c.VerificationShares.Points[c.ID]; !ok {
				v.add("own-entry-missing", fmt.Sprintf("no verification share for own id %q", c.ID))
			}
		} else {
			v.add("own-entry-missing", "no verification shares at all")
		}
		v.threshold(c.Threshold, n)
	case *frost.TaprootConfig:
		v.scalar("PrivateShare", c.PrivateShare)
		if len(c.PublicKey) != 32 || !isLiftable(new(big.Int).SetBytes(c.PublicKey)) {
			v.add("malformed-public-key", fmt.Sprintf("public key of %d bytes is not the x coordinate of a curve point", len(c.PublicKey)))
		}
		v.size32("ChainKey", c.ChainKey)
		for id, p := range c.VerificationShares {
			v.point(fmt.Sprintf("VerificationShares[%s]", id), p)
		}
		if _, ok := c.VerificationShares[c.ID]; !ok {
			v.add("own-entry-missing", fmt.Sprintf("no verification share for own id %q", c.ID))
		}
		v.threshold(c.Threshold, len(c.VerificationShares))
	case *doerner.ConfigReceiver:
		setupRows(&v, c.Setup)
		v.scalar("SecretShare", c.SecretShare)
		v.point("Public", c.Public)
		v.size32("ChainKey", c.ChainKey)
	case *doerner.ConfigSender:
		setupRows(&v, c.Setup)
		v.scalar("SecretShare", c.SecretShare)
		v.point("Public", c.Public)
		v.size32("ChainKey", c.ChainKey)
	case *ecdsa.PreSignature:
		v.size32("ID", c.ID)
		v.point("R", c.R)
		v.scalar("KShare", c.KShare)
		v.scalar("ChiShare", c.ChiShare)
		if c.RBar == nil || c.S == nil || len(c.RBar.Points) == 0 || len(c.S.Points) == 0 {
			v.add("missing-party", "a share table is missing or empty")
		}
		if c.RBar != nil && c.S != nil {
			for id, p := range c.RBar.Points {
				v.point(fmt.Sprintf("RBar[%s]", id), p)
				if _, ok := c.S.Points[id]; !ok {
					v.add("missing-party", fmt.Sprintf("party %q is in RBar but not in S", id))
				}
			}
			for id, p := range c.S.Points {
				v.point(fmt.Sprintf("S[%s]", id), p)
				if _, ok := c.RBar.Points[id]; !ok {
					v.add("missing-party", fmt.Sprintf("party %q is in S but not in RBar", id))
				}
			}
		}
	case *ecdsa.Signature:
		v.point("R", c.R)
		v.scalar("S", c.S)
	case *protocol.Message:
	default:
		v.add("unreadable", fmt.Sprintf("unexpected type %T", obj))
	}
	return v
}

// valueCanon renders an object by value. cmp.Config carries cached, representation-dependent data (a public key built
// from its factors differs internally from the same key built from N), so it is rendered field by field.
func valueCanon(obj interface{}) (out string) {
	c, ok := obj.(*cmp.Config)
	if !ok || c == nil {
		return protos.Canon(obj)
	}
	defer func() {
		if r := recover(); r != nil {
			out = fmt.Sprintf("unreadable cmp.Config: %v", r)
		}
	}()
	hx := func(v interface{}) string {
		b, ok := rawOf(v)
		if !ok {
			return "nil"
		}
		return hex.EncodeToString(b)
	}
	bg := func(x *big.Int) string {
		if x == nil {
			return "nil"
		}
		return x.Text(16)
	}
	var sb strings.Builder
	fmt.Fprintf(&sb, "cmp.Config{ID=%q;Threshold=%d;ECDSA=%s;ElGamal=%s;RID=%x;ChainKey=%x;", c.ID, c.Threshold, hx(c.ECDSA), hx(c.ElGamal), []byte(c.RID), []byte(c.ChainKey))
	if c.Paillier == nil {
		sb.WriteString("Paillier=nil;")
	} else {
		fmt.Fprintf(&sb, "P=%s;Q=%s;N=%s;", bg(natBig(c.Paillier.P())), bg(natBig(c.Paillier.Q())), bg(natBig(c.Paillier.PublicKey.N())))
	}
	var ids []string
	for id := range c.Public {
		ids = append(ids, string(id))
	}
	sort.Strings(ids)
	for _, id := range ids {
		p := c.Public[party.ID(id)]
		if p == nil {
			fmt.Fprintf(&sb, "Public[%q]=nil;", id)
			continue
		}
		fmt.Fprintf(&sb, "Public[%q]={ECDSA=%s;ElGamal=%s;", id, hx(p.ECDSA), hx(p.ElGamal))
		if p.Paillier != nil {
			fmt.Fprintf(&sb, "N=%s;", bg(natBig(p.Paillier.N())))
		} else {
			sb.WriteString("N=nil;")
		}
		if p.Pedersen != nil {
			fmt.Fprintf(&sb, "PedN=%s;S=%s;T=%s;", bg(natBig(p.Pedersen.N())), bg(natBig(p.Pedersen.S())), bg(natBig(p.Pedersen.T())))
		} else {
			sb.WriteString("Pedersen=nil;")
		}
		sb.WriteString("};")
	}
	sb.WriteString("}")
	return sb.String()
}

// ---------------------------------------------------------------------------------------------

type violT struct {
	Type   string `json:"type"`
	Rule   string `json:"rule"`
	Class  string `json:"class"`
	Field  string `json:"field"`
	C      string `json:"c"`
	N      int    `json:"n"`
	T      int    `json:"t"`
	Expect string `json:"expect"`
	Detail string `json:"detail"`
	Origin string `json:"origin"`
	Input  string `json:"input_hex"`
	Orig   string `json:"original_hex,omitempty"`
}

type outT struct {
	mu          sync.Mutex
	Evaluations int            `json:"evaluations"`
	Reached     int            `json:"reached"`
	NA          map[string]int `json:"not_applicable"`
	Matrix      map[string]int `json:"matrix"`  // expect/observed
	Lenient     map[string]int `json:"lenient"` // expected error|reject, accepted with an object that breaks no rule
	Violations  []violT        `json:"violations"`
	Roundtrips  int            `json:"roundtrips"`
	Mismatch    []string       `json:"model_mismatch"`
	Harness     []string       `json:"harness_errors"`
	Instances   []string       `json:"instances"`
	Samples     []interface{}  `json:"samples"`
	Distinct    int            `json:"distinct_nontrivial"`
	BuildS      float64        `json:"build_s"`
	RunS        float64        `json:"run_s"`
	distinct    map[string]bool
	seenViol    map[string]int
}

func hexCap(b []byte) string {
	if len(b) > 5000 {
		return hex.EncodeToString(b[:5000]) + "..."
	}
	return hex.EncodeToString(b)
}

func (o *outT) violate(in *instance, cs caseT, rule, class, detail string, input []byte) {
	o.mu.Lock()
	defer o.mu.Unlock()
	field := cs.Field
	if cs.Kind == "whole" && cs.C != "othertype" {
		field = "*"
	}
	k := in.Ty + "|" + rule + "|" + class + "|" + field + "|" + cs.C
	o.seenViol[k]++
	if o.seenViol[k] > 1 {
		return
	}
	o.Violations = append(o.Violations, violT{Type: in.Ty, Rule: rule, Class: class, Field: field, C: cs.C, N: in.N, T: in.T, Expect: cs.Expect,
		Detail: detail, Origin: in.Origin, Input: hexCap(input)})
}

func main() {
	casesFile := flag.String("cases", "", "cases printed by Codec.tla (JSON lines)")
	out := flag.String("out", "", "result file")
	seed := flag.String("seed", "0", "seed")
	primes := flag.String("primes", "/verif/fixtures/safeprimes.json", "safe primes")
	owners := flag.Int("owners", 1, "parties per (n,t) whose material is used")
	nmsg := flag.Int("messages", 6, "wire messages used")
	workers := flag.Int("workers", 12, "parallel decoders")
	only := flag.String("only", "", "restrict to one type")
	limit := flag.Duration("watchdog", 60*time.Second, "per call")
	flag.Parse()
	if err := protos.InstallPrimeSource(*primes); err != nil {
		fatal("%v", err)
	}
	seedN := 0
	fmt.Sscanf(*seed, "%d", &seedN)
	if seedN < 0 {
		seedN = -seedN
	}
	raw, err := os.ReadFile(*casesFile)
	if err != nil {
		fatal("%v", err)
	}
	var cases []caseT
	for _, line := range strings.Split(string(raw), "\n") {
		line = strings.TrimSpace(line)
		if line == "" {
			continue
		}
		var c caseT
		if err := json.Unmarshal([]byte(line), &c); err != nil {
			fatal("bad case: %v", err)
		}
		if *only != "" && c.Ty != *only {
			continue
		}
		cases = append(cases, c)
	}
	// ---- real instances
	t0 := time.Now()
	b := &builder{seed: "codec/" + *seed, insts: map[string][]*instance{}}
	need := map[string]map[[2]int]bool{}
	for _, c := range cases {
		if need[c.Ty] == nil {
			need[c.Ty] = map[[2]int]bool{}
		}
		need[c.Ty][[2]int{c.N, c.T}] = true
	}
	for _, ty := range []string{"frost.Config", "frost.TaprootConfig", "cmp.Config"} {
		var nts [][2]int
		for nt := range need[ty] {
			nts = append(nts, nt)
		}
		sort.Slice(nts, func(i, j int) bool { return nts[i][0]*100+nts[i][1] < nts[j][0]*100+nts[j][1] })
		for _, nt := range nts {
			b.threshold(ty, nt[0], nt[1], *owners, seedN)
		}
	}
	// the other types are always built: they are the donors of the "othertype" cases
	b.doerner()
	b.presign()
	for _, ty := range []string{"frost.Config", "frost.TaprootConfig", "cmp.Config"} {
		if len(b.insts[ty]) == 0 {
			b.threshold(ty, 2, 1, 1, seedN)
		}
	}
	b.messages(*nmsg)
	res := &outT{NA: map[string]int{}, Matrix: map[string]int{}, Lenient: map[string]int{}, distinct: map[string]bool{}, seenViol: map[string]int{}}
	res.BuildS = time.Since(t0).Seconds()
	donors := map[string][]byte{}
	for ty, l := range b.insts {
		donors[ty] = l[0].Enc
		for _, in := range l {
			res.Instances = append(res.Instances, fmt.Sprintf("%s n=%d t=%d owner=%q %d bytes (%s)", ty, in.N, in.T, in.Owner, len(in.Enc), in.Origin))
		}
	}
	sort.Strings(res.Instances)

	// ---- the model's field lists against the real encodings
	specFields := map[string]map[string]bool{}
	for _, c := range cases {
		if c.Kind == "whole" {
			continue
		}
		if specFields[c.Ty] == nil {
			specFields[c.Ty] = map[string]bool{}
		}
		specFields[c.Ty][c.Field] = true
	}
	for ty, fs := range specFields {
		// the fields of the real encoding: the union over the instances (an encoder may leave out empty fields)
		real := map[string]bool{}
		opened := false
		for _, in := range b.insts[ty] {
			_, top, err := open(ty, in.Enc)
			if err != nil {
				res.Harness = append(res.Harness, fmt.Sprintf("cannot open the encoding of %s: %v", ty, err))
				continue
			}
			opened = true
			for _, k := range top.keys() {
				real[k] = true
				if _, l, _, err := tableOf(top, k); err == nil && l != nil && len(l) > 0 {
					if e, ok := l[0].(*omap); ok {
						for _, ek := range e.keys() {
							real[k+"/*/"+ek] = true
						}
					}
				}
			}
		}
		if !opened {
			continue
		}
		spec := map[string]bool{}
		for f := range fs {
			p := strings.Split(f, "/")
			spec[p[0]] = true
			if len(p) == 3 {
				spec[p[0]+"/*/"+p[2]] = true
			}
		}
		for k := range real {
			if !spec[k] {
				res.Mismatch = append(res.Mismatch, fmt.Sprintf("%s: field %s of the real encoding is not in Codec.tla", ty, k))
			}
		}
		for k := range spec {
			if !real[k] {
				res.Mismatch = append(res.Mismatch, fmt.Sprintf("%s: field %s of Codec.tla is not in the real encoding", ty, k))
			}
		}
	}
	sort.Strings(res.Mismatch)

	// ---- the uncorrupted encodings round-trip (also: re-encoded through the tree with another key order)
	t1 := time.Now()
	for ty, l := range b.insts {
		for _, in := range l {
			cs0 := caseT{Ty: ty, Field: "*", C: "none", Expect: "roundtrip"}
			variants := map[string][]byte{"documented": in.Enc}
			if root, _, err := open(ty, in.Enc); err == nil {
				variants["re-encoded"] = encode(root)
			} else {
				res.Harness = append(res.Harness, fmt.Sprintf("cannot open the encoding of %s: %v", ty, err))
			}
			docOK := true
			for _, vn := range []string{"documented", "re-encoded"} {
				data, have := variants[vn]
				if !have || (vn == "re-encoded" && !docOK) {
					continue
				}
				r := safeDecode(ty, data, *limit)
				res.Roundtrips++
				switch {
				case r.hang:
					docOK = false
					res.violate(in, cs0, "roundtrip", "hang", "decoding the uncorrupted encoding does not return", data)
				case r.panic != "":
					docOK = false
					res.violate(in, cs0, "roundtrip", "panic", "decoding the uncorrupted encoding panics: "+r.panic, data)
				case r.err != nil:
					if vn == "documented" {
						docOK = false
						res.violate(in, cs0, "roundtrip", "roundtrip-fails", fmt.Sprintf("decoding the uncorrupted encoding fails: %v", r.err), data)
					} else {
						res.Harness = append(res.Harness, fmt.Sprintf("%s: the tree re-encoding is refused: %v", ty, r.err))
					}
				default:
					if a, bb := valueCanon(in.Obj), valueCanon(r.obj); a != bb {
						if vn == "documented" {
							docOK = false
							res.violate(in, cs0, "roundtrip", "roundtrip-differs", "restored object differs from the original: "+firstDiff(a, bb), data)
						} else {
							res.Harness = append(res.Harness, fmt.Sprintf("%s: the tree re-encoding restores a different object", ty))
						}
					}
					if jv := judgeObj(ty, in.Obj); len(jv.broken) > 0 && vn == "documented" {
						// the library's own honest output (as produced, before any encoding) must satisfy the rules,
						// otherwise the predicates are wrong
						res.Harness = append(res.Harness, fmt.Sprintf("%s: honest material breaks rules %v", ty, jv.broken))
					} else if jr := judgeObj(ty, r.obj); len(jr.broken) > 0 && vn == "documented" {
						docOK = false
						res.violate(in, cs0, "roundtrip", "roundtrip-differs", fmt.Sprintf("the object restored from the documented encoding of valid material breaks the rules %v", jr.broken), data)
					}
				}
			}
			// cmp.Config: the direct MarshalBinary / UnmarshalBinary pair
			if c, ok := in.Obj.(*cmp.Config); ok {
				res.Roundtrips++
				func() {
					defer func() {
						if p := recover(); p != nil {
							res.violate(in, cs0, "roundtrip", "panic", fmt.Sprintf("MarshalBinary/UnmarshalBinary panics: %v", p), nil)
						}
					}()
					data, err := c.MarshalBinary()
					if err != nil {
						res.violate(in, cs0, "roundtrip", "roundtrip-fails", "MarshalBinary fails: "+err.Error(), nil)
						return
					}
					c2 := cmp.EmptyConfig(group)
					if err := c2.UnmarshalBinary(data); err != nil {
						res.violate(in, cs0, "roundtrip", "roundtrip-fails", "UnmarshalBinary of MarshalBinary output fails: "+err.Error(), data)
						return
					}
					if a, bb := valueCanon(c), valueCanon(c2); a != bb {
						res.violate(in, cs0, "roundtrip", "roundtrip-differs", "UnmarshalBinary(MarshalBinary()) differs: "+firstDiff(a, bb), data)
					}
				}()
			}
		}
	}

	// ---- restoring over a used receiver: a protocol.Message that already held another message (a receive buffer that
	//      is decoded into again) must end up equal to the stored message, or the restore must fail.  Only the wire
	//      message is held to this: the key material types have Empty* constructors as their documented receivers,
	//      and decoding a table over a non-empty Go map merges the two (frost.TaprootConfig does), which is the
	//      standard semantics of Go decoders rather than a restore.
	for ty, l := range b.insts {
		if ty != "protocol.Message" {
			continue
		}
		for _, in := range l {
			for _, prev := range l {
				if prev == in || bytes.Equal(prev.Enc, in.Enc) {
					continue
				}
				cs0 := caseT{Ty: ty, Field: "*", C: "used-receiver", Expect: "roundtrip"}
				func() {
					defer func() {
						if p := recover(); p != nil {
							res.violate(in, cs0, "roundtrip", "panic", fmt.Sprintf("restoring over a used receiver panics: %v", p), in.Enc)
						}
					}()
					recv, err := decodeDocumented(ty, prev.Enc)
					if err != nil {
						return
					}
					res.Roundtrips++
					if ty == "protocol.Message" {
						err = recv.(*protocol.Message).UnmarshalBinary(in.Enc)
					} else {
						err = cbor.Unmarshal(in.Enc, recv)
					}
					if err != nil {
						return // refusing is fine
					}
					if a, bb := valueCanon(in.Obj), valueCanon(recv); a != bb {
						res.violate(in, cs0, "roundtrip", "roundtrip-differs", "an object restored over a receiver that held another "+ty+" differs from the stored one: "+firstDiff(a, bb), in.Enc)
					}
				}()
			}
		}
	}

	// ---- the cases
	type job struct {
		cs caseT
		in *instance
		k  int
	}
	var jobs []job
	for _, cs := range cases {
		for k, in := range b.insts[cs.Ty] {
			if in.N == cs.N && in.T == cs.T {
				jobs = append(jobs, job{cs, in, k})
			}
		}
	}
	emptyCanon := map[string]string{}
	for ty := range b.insts {
		emptyCanon[ty] = protos.Canon(emptyOf(ty))
	}
	ch := make(chan job)
	var wg sync.WaitGroup
	for w := 0; w < *workers; w++ {
		wg.Add(1)
		go func() {
			defer wg.Done()
			for j := range ch {
				runCase(res, j.cs, j.in, j.k, seedN, donors, emptyCanon, *limit)
			}
		}()
	}
	for _, j := range jobs {
		ch <- j
	}
	close(ch)
	wg.Wait()
	res.RunS = time.Since(t1).Seconds()
	res.Distinct = len(res.distinct)
	sort.Slice(res.Violations, func(i, j int) bool {
		a, c := res.Violations[i], res.Violations[j]
		return a.Type+a.Rule+a.Class+a.Field+a.C < c.Type+c.Rule+c.Class+c.Field+c.C
	})
	sort.Strings(res.Harness)
	js, _ := json.MarshalIndent(res, "", " ")
	if *out != "" {
		if err := os.WriteFile(*out, js, 0o644); err != nil {
			fatal("%v", err)
		}
	} else {
		fmt.Println(string(js))
	}
}

func runCase(res *outT, cs caseT, in *instance, k, seedN int, donors map[string][]byte, emptyCanon map[string]string, limit time.Duration) {
	h := uint64(seedN)*1000003 + uint64(k)
	for _, c := range cs.Ty + cs.Field + cs.C {
		h = h*131 + uint64(c)
	}
	rnd := sim.NewRng(h)
	res.mu.Lock()
	res.Evaluations++
	res.mu.Unlock()
	var data []byte
	var err error
	func() {
		defer func() {
			if p := recover(); p != nil {
				err = fmt.Errorf("corrupting panicked: %v", p)
			}
		}()
		data, err = corrupt(in, cs, rnd, donors)
	}()
	if err != nil {
		res.mu.Lock()
		if _, ok := err.(naErr); ok {
			res.NA[err.Error()]++
		} else {
			res.Harness = append(res.Harness, fmt.Sprintf("%s %s %s: %v", cs.Ty, cs.Field, cs.C, err))
		}
		res.mu.Unlock()
		return
	}
	if bytes.Equal(data, in.Enc) {
		res.mu.Lock()
		res.NA["no-op"]++
		res.mu.Unlock()
		return
	}
	r := safeDecode(cs.Ty, data, limit)
	observed := ""
	switch {
	case r.hang:
		observed = "hang"
		res.violate(in, cs, ruleName(cs), "hang", "the decoder does not return within the watchdog", data)
	case r.panic != "":
		observed = "panic"
		res.violate(in, cs, ruleName(cs), "panic", "the decoder panics: "+r.panic, data)
	case r.err != nil:
		observed = "error"
	default:
		if protos.Canon(r.obj) == emptyCanon[cs.Ty] {
			observed = "empty"
			res.violate(in, cs, "empty-object", "silently-empty", fmt.Sprintf("no error, and the restored %s is the empty object", cs.Ty), data)
			break
		}
		jv := judgeObj(cs.Ty, r.obj)
		// rules about the ENCODING that no restored object can show (a Go map cannot hold a party twice)
		for _, rule := range cs.Rules {
			if rule == "duplicate-party" && cs.Expect == "error" {
				jv.add(rule, "the encoding lists a party twice")
			}
		}
		if len(jv.broken) == 0 {
			observed = "accepted-valid"
			if cs.Expect != "valid" {
				res.mu.Lock()
				res.Lenient[cs.Ty+" "+cs.Field+" "+cs.C]++
				res.mu.Unlock()
			}
			break
		}
		observed = "accepted-invalid"
		var rules, all []string
		for rule := range jv.broken {
			all = append(all, rule)
		}
		sort.Strings(all)
		if cs.Kind == "whole" {
			// one finding per whole-object corruption, whatever the debris looks like
			var why []string
			for _, rule := range all {
				why = append(why, rule+": "+jv.broken[rule])
			}
			res.violate(in, cs, "invalid-object", "accepts-invalid", "no error, but the restored object breaks "+strings.Join(why, "; "), data)
			break
		}
		// attribute to the rules the specification names for this case; anything else only if none of them is among the broken ones
		for _, rule := range all {
			for _, want := range cs.Rules {
				if rule == want {
					rules = append(rules, rule)
				}
			}
		}
		if len(rules) == 0 {
			rules = all
		}
		for _, rule := range rules {
			res.violate(in, cs, rule, "accepts-invalid", fmt.Sprintf("no error, but %s (field %s, corruption %s; the specification expects %s %v)", jv.broken[rule], cs.Field, cs.C, cs.Expect, cs.Rules), data)
		}
	}
	res.mu.Lock()
	res.Reached++
	res.Matrix[cs.Expect+"/"+observed]++
	res.distinct[fmt.Sprintf("%s|%s|%s|%d|%d", cs.Ty, cs.Field, cs.C, cs.N, cs.T)] = true
	if len(res.Samples) < 8 && (res.Reached%97 == 1) {
		res.Samples = append(res.Samples, map[string]interface{}{"case": cs, "instance": fmt.Sprintf("%s n=%d t=%d owner=%q", in.Ty, in.N, in.T, in.Owner),
			"input_bytes": len(data), "input_prefix_hex": hexPrefix(data, 48), "observed": observed, "error": errStr(r.err)})
	}
	res.mu.Unlock()
}

func ruleName(cs caseT) string {
	if len(cs.Rules) > 0 {
		return cs.Rules[0]
	}
	if len(cs.Risk) > 0 {
		return cs.Risk[0]
	}
	return "malformed-field"
}

func errStr(e error) string {
	if e == nil {
		return ""
	}
	s := e.Error()
	if len(s) > 160 {
		s = s[:160]
	}
	return s
}

func hexPrefix(b []byte, n int) string {
	if len(b) > n {
		b = b[:n]
	}
	return hex.EncodeToString(b)
}

func firstDiff(a, b string) string {
	n := len(a)
	if len(b) < n {
		n = len(b)
	}
	for i := 0; i < n; i++ {
		if a[i] != b[i] {
			lo := i - 60
			if lo < 0 {
				lo = 0
			}
			hi := i + 40
			if hi > n {
				hi = n
			}
			return fmt.Sprintf("at %d: ...%s... vs ...%s...", i, a[lo:hi], b[lo:hi])
		}
	}
	return fmt.Sprintf("lengths %d vs %d", len(a), len(b))
}

var _ = curve.Secp256k1{}
