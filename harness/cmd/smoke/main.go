package main

import (
	"fmt"

	"github.com/taurusgroup/multi-party-sig/internal/round"
	"github.com/taurusgroup/multi-party-sig/pkg/party"
)

func main() {
	var n round.Number = 3
	fmt.Println(n, party.ID("a"))
}
