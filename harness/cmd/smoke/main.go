package main

import (
	"fmt"
	"os"
	"time"

	"github.com/taurusgroup/multi-party-sig/pkg/party"
	"github.com/taurusgroup/multi-party-sig/protocols/doerner"
	"github.com/taurusgroup/multi-party-sig/verifharness/protos"
	"github.com/taurusgroup/multi-party-sig/verifharness/sim"
	"github.com/taurusgroup/multi-party-sig/verifharness/toy"
)

func must(r *protos.RunResult, err error) *protos.RunResult {
	if err != nil {
		fmt.Println("ERR", err)
		os.Exit(1)
	}
	if !r.AllDone() {
		fmt.Println("NOT DONE", r.Describe())
		os.Exit(1)
	}
	return r
}

func main() {
	ids := []party.ID{"a", "b", "c"}
	if err := protos.InstallPrimeSource("/verif/fixtures/safeprimes.json"); err != nil {
		panic(err)
	}
	t0 := time.Now()
	sh, _ := toy.ParseShape("b,bm,m")
	r := must(protos.Run(protos.Toy(ids, sh, nil), protos.RunOpts{Seed: "s", Sched: sim.NewRng(1), Log: true}))
	fmt.Println("toy", time.Since(t0), r.Delivered, len(r.Engine.Events))
	t0 = time.Now()
	r = must(protos.Run(protos.Xor(ids, nil), protos.RunOpts{Seed: "s", Sched: sim.NewRng(1)}))
	fmt.Println("xor", time.Since(t0))
	t0 = time.Now()
	r = must(protos.Run(protos.FrostKeygen(ids, 1, false, nil), protos.RunOpts{Seed: "s", Sched: sim.NewRng(1)}))
	fmt.Println("frost-keygen", time.Since(t0))
	t0 = time.Now()
	r2 := must(protos.Run(protos.FrostSign(r.Results, []party.ID{"a", "c"}, []byte("hello"), nil), protos.RunOpts{Seed: "s", Sched: sim.NewRng(1)}))
	fmt.Println("frost-sign", time.Since(t0), r2.Results["a"])
	t0 = time.Now()
	rd := must(protos.Run(protos.DoernerKeygen("a", "b", []byte("x")), protos.RunOpts{Seed: "s", Sched: sim.NewRng(1)}))
	fmt.Println("doerner-keygen", time.Since(t0))
	t0 = time.Now()
	rs := must(protos.Run(protos.DoernerSign("a", "b", rd.Results["a"].(*doerner.ConfigReceiver), rd.Results["b"].(*doerner.ConfigSender), []byte("hello"), []byte("x")), protos.RunOpts{Seed: "s", Sched: sim.NewRng(1)}))
	fmt.Println("doerner-sign", time.Since(t0), rs.Results)
	t0 = time.Now()
	rc := must(protos.Run(protos.CmpKeygen(ids, 1, nil), protos.RunOpts{Seed: "s", Sched: sim.NewRng(1)}))
	fmt.Println("cmp-keygen", time.Since(t0))
	t0 = time.Now()
	rcs := must(protos.Run(protos.CmpSign(rc.Results, []party.ID{"a", "c"}, []byte("hello"), nil), protos.RunOpts{Seed: "s", Sched: sim.NewRng(1)}))
	fmt.Println("cmp-sign", time.Since(t0), rcs.Results["a"])
}
