// hadv runs REAL sessions with one deviating participant (equivocation, message tampering, malformed
// headers), with user Stop calls, or with foreign-session traffic, records one trace event per API call on
// every honest party for validation against Handler.tla, and evaluates the property-level predicates
// (wrong result accepted, honest party blamed, honest views split, crash) on the real outcome.
package main

import (
	"bufio"
	"encoding/json"
	"flag"
	"fmt"
	"github.com/fxamacker/cbor/v2"
	"math/big"
	"os"
	"runtime/pprof"
	"sort"
	"strings"

	"github.com/taurusgroup/multi-party-sig/pkg/ecdsa"
	"github.com/taurusgroup/multi-party-sig/pkg/party"
	"github.com/taurusgroup/multi-party-sig/pkg/pool"
	"github.com/taurusgroup/multi-party-sig/pkg/protocol"
	"github.com/taurusgroup/multi-party-sig/protocols/cmp"
	"github.com/taurusgroup/multi-party-sig/protocols/doerner"
	"github.com/taurusgroup/multi-party-sig/protocols/frost"
	"github.com/taurusgroup/multi-party-sig/verifharness/fault"
	"github.com/taurusgroup/multi-party-sig/verifharness/judge"
	"github.com/taurusgroup/multi-party-sig/verifharness/oracle"
	"github.com/taurusgroup/multi-party-sig/verifharness/protos"
	"github.com/taurusgroup/multi-party-sig/verifharness/sim"
	"github.com/taurusgroup/multi-party-sig/verifharness/toy"
)

func fatal(f string, a ...interface{}) {
	fmt.Fprintf(os.Stderr, "hadv: "+f+"\n", a...)
	os.Exit(2)
}

var names = []party.ID{"a", "b", "c", "d", "e", "f"}

// Scenario is one line of the input file.
type Scenario struct {
	ID      int               `json:"id"`
	Kind    string            `json:"kind"` // equiv | fault | stop | honest
	Proto   string            `json:"proto"`
	N       int               `json:"n"`
	T       int               `json:"t"`
	Byz     string            `json:"byz"`
	Round   int               `json:"round"`
	B       bool              `json:"b"`
	Groups  map[string]string `json:"groups"`
	To      string            `json:"to"`   // fault: recipient of the altered copy, or "all"
	Hdr     string            `json:"hdr"`  // fault: header class ("" = content alteration)
	Leaf    int               `json:"leaf"` // fault: ordinal of the leaf in the decoded content
	Alt     string            `json:"alt"`
	Sched   int               `json:"sched"`
	Who     string            `json:"who"`     // stop: party
	After   int               `json:"after"`   // stop: number of deliveries before Stop
	Cross   bool              `json:"cross"`   // equiv: also deliver the other universe's later messages
	Both    bool              `json:"both"`    // equiv: a party of group B gets the B version ADDRESSED to it first, then the A version as an ordinary broadcast
	Variant string            `json:"variant"` // presigncheat: offline | full | online
	Rule    string            `json:"rule"`    // presigncheat: delta | gamma | x-chi | chi (offline, full); k | chi (online)
	Stage   string            `json:"stage"`   // presigncheat: where PresignAlg.tla predicts the deviation is caught (abort1 | abort2 | sigma)
	Coded   string            `json:"coded"`   // presigncheat: the same for the identification rounds as coded (SwapIndex = TRUE)
	Pool    bool              `json:"pool"`    // run the handlers with a real worker pool (a panic in a worker kills the process)
	Diff    string            `json:"diff"`    // foreign: the one parameter in which the other session differs
	From    string            `json:"from"`    // relabel: the real sender whose message is replayed under Byz's name
}

type viol struct {
	Prop   string `json:"prop"`
	What   string `json:"what"`
	Detail string `json:"detail"`
	Site   string `json:"site,omitempty"`
}

type outcome struct {
	ID         int               `json:"id"`
	Applicable bool              `json:"applicable"`
	Why        string            `json:"why,omitempty"`
	Status     map[string]string `json:"status"`
	Viol       []viol            `json:"viol,omitempty"`
	Events     int               `json:"events"`
	Reached    bool              `json:"reached"` // the altered / equivocated message was delivered to an honest party
}

// material shared by the scenarios of one (proto, n, t)
type setup struct {
	proto string
	n, t  int
	ids   []party.ID
	cfgs  map[party.ID]interface{}
	alt   map[party.ID]interface{} // doerner-sign: the key material of another key generation (see doernerCheat)
	pres  map[party.ID]*ecdsa.PreSignature
	msg   []byte
	group oracle.Pt
	gx    []byte
	sign  bool
	keyg  bool
}

var setups = map[string]*setup{}

func getSetup(proto string, n, t int, seed string) *setup {
	key := fmt.Sprintf("%s/%d/%d", proto, n, t)
	if s, ok := setups[key]; ok {
		return s
	}
	s := &setup{proto: proto, n: n, t: t, ids: append([]party.ID(nil), names[:n]...), msg: []byte("the message hash to be signed..!")}
	runKG := func(sess *protos.Session) map[party.ID]interface{} {
		r, err := protos.Run(sess, protos.RunOpts{Seed: seed + "/setup/" + key})
		if err != nil || !r.AllDone() {
			fatal("setup for %s failed: %v %s", key, err, r.Describe())
		}
		return r.Results
	}
	switch proto {
	case "frost-sign", "frost-refresh":
		s.cfgs = runKG(protos.FrostKeygen(s.ids, t, false, []byte("kg")))
	case "taproot-sign", "taproot-refresh":
		s.cfgs = runKG(protos.FrostKeygen(s.ids, t, true, []byte("kg")))
	case "doerner-sign", "doerner-refresh":
		s.cfgs = runKG(protos.DoernerKeygen(s.ids[0], s.ids[1], []byte("kg")))
		if proto == "doerner-sign" {
			s.alt = runKG(protos.DoernerKeygen(s.ids[0], s.ids[1], []byte("kg-other")))
		}
	case "cmp-sign", "cmp-refresh", "cmp-presign", "cmp-presign-online", "cmp-presign-full":
		s.cfgs = protos.DealCmp(s.ids, t, seed+key)
	}
	if proto == "cmp-presign-online" {
		r, err := protos.Run(protos.CmpPresign(s.cfgs, s.ids, []byte("pre")), protos.RunOpts{Seed: seed + "/pre/" + key})
		if err != nil || !r.AllDone() {
			fatal("presign setup failed: %v %s", err, r.Describe())
		}
		s.pres = map[party.ID]*ecdsa.PreSignature{}
		for id, x := range r.Results {
			s.pres[id] = x.(*ecdsa.PreSignature)
		}
	}
	if s.cfgs != nil {
		v, err := judge.View(s.cfgs[s.ids[0]])
		if err != nil {
			fatal("view: %v", err)
		}
		s.group, s.gx = v.Group, v.GroupX
	}
	s.sign = strings.HasSuffix(proto, "-sign") || proto == "cmp-presign-online" || proto == "cmp-presign-full"
	s.keyg = strings.HasSuffix(proto, "-keygen") || strings.HasSuffix(proto, "-refresh")
	setups[key] = s
	return s
}

func (s *setup) session(sid []byte) *protos.Session {
	real := s.cfgs
	if s.cfgs != nil {
		// every session starts from its own copy of the key material
		s.cfgs = protos.CloneConfigs(real)
		defer func() { s.cfgs = real }()
	}
	switch {
	case strings.HasPrefix(s.proto, "toy:"):
		sh, err := toy.ParseShape(s.proto[4:])
		if err != nil {
			fatal("%v", err)
		}
		return protos.Toy(s.ids, sh, sid)
	case s.proto == "xor":
		return protos.Xor(s.ids, sid)
	case s.proto == "frost-keygen":
		return protos.FrostKeygen(s.ids, s.t, false, sid)
	case s.proto == "taproot-keygen":
		return protos.FrostKeygen(s.ids, s.t, true, sid)
	case s.proto == "frost-refresh", s.proto == "taproot-refresh":
		return protos.FrostRefresh(s.cfgs, sid)
	case s.proto == "frost-sign", s.proto == "taproot-sign":
		return protos.FrostSign(s.cfgs, s.ids, s.msg, sid)
	case s.proto == "doerner-keygen":
		return protos.DoernerKeygen(s.ids[0], s.ids[1], sid)
	case s.proto == "doerner-refresh":
		return protos.DoernerRefresh(s.ids[0], s.ids[1], s.cfgs[s.ids[0]].(*doerner.ConfigReceiver), s.cfgs[s.ids[1]].(*doerner.ConfigSender), sid)
	case s.proto == "doerner-sign":
		return protos.DoernerSign(s.ids[0], s.ids[1], s.cfgs[s.ids[0]].(*doerner.ConfigReceiver), s.cfgs[s.ids[1]].(*doerner.ConfigSender), s.msg, sid)
	case s.proto == "cmp-keygen":
		return protos.CmpKeygen(s.ids, s.t, sid)
	case s.proto == "cmp-refresh":
		return protos.CmpRefresh(s.cfgs, sid)
	case s.proto == "cmp-sign":
		return protos.CmpSign(s.cfgs, s.ids, s.msg, sid)
	case s.proto == "cmp-presign":
		return protos.CmpPresign(s.cfgs, s.ids, sid)
	case s.proto == "cmp-presign-full":
		return protos.CmpPresignFull(s.cfgs, s.ids, s.msg, sid)
	case s.proto == "cmp-presign-online":
		return protos.CmpPresignOnline(s.cfgs, s.pres, s.ids, s.msg, sid)
	}
	fatal("unknown protocol %q", s.proto)
	return nil
}

// judgeResult classifies a finished party's result where that can be done for one party alone.
func (s *setup) judgeResult(res interface{}) string {
	if s.sign {
		ok, _ := judge.SigValid(s.group, s.gx, s.msg, res)
		if ok {
			return "correct"
		}
		return "wrong"
	}
	if s.proto == "cmp-presign" {
		if p, ok := res.(*ecdsa.PreSignature); ok && p != nil {
			if err := p.Validate(); err != nil {
				return "wrong"
			}
		}
	}
	return "none"
}

func panicSite(stack string) string {
	lines := strings.Split(stack, "\n")
	for i, l := range lines {
		if strings.HasPrefix(l, "panic(") {
			for j := i + 2; j < len(lines); j += 2 {
				fn := strings.TrimSpace(lines[j])
				if strings.Contains(fn, "multi-party-sig/") && !strings.Contains(fn, "verifharness") {
					if k := strings.LastIndex(fn, "("); k > 0 {
						fn = fn[:k]
					}
					return strings.TrimPrefix(fn, "github.com/taurusgroup/multi-party-sig/")
				}
			}
		}
	}
	return "unknown"
}

type runner struct {
	sc     Scenario
	su     *setup
	e      *sim.Engine
	honest []party.ID
	byz    party.ID
	rng    *sim.Rng
	out    outcome
	crash  []sim.Outcome
	retry  bool // the attempt is void (see run)
}

func (r *runner) violate(prop, what, detail, site string) {
	r.out.Viol = append(r.out.Viol, viol{prop, what, detail, site})
}

func (r *runner) deliver(inst party.ID, m *protocol.Message, cls string) {
	oc := r.e.Deliver(inst, m, cls)
	if oc.Panic != "" && r.e.Honest[inst] {
		r.violate("C05", "panic", fmt.Sprintf("honest party %s panicked in Accept/CanAccept: %s", inst, strings.SplitN(oc.Panic, "\n", 2)[0]), panicSite(oc.Panic))
	}
	if oc.Hang && r.e.Honest[inst] {
		r.violate("C05", "hang", fmt.Sprintf("honest party %s did not return from Accept", inst), "")
	}
}

// newParty constructs one real handler.
func (r *runner) newParty(sess *protos.Session, id party.ID, label string) *sim.Party {
	p, err, pv := sim.NewParty(id, sim.NewDetReader(label), sess.Makers[id])
	if pv != "" || err != nil {
		fatal("constructing %s: %v %s", id, err, pv)
	}
	return p
}

// run executes one scenario.  An equivocation scenario needs its two universes to be byte-identical before the
// fork; some broadcasts of the library encode a Go map, so that their bytes are not a function of the state (the
// map order is chosen at encoding time).  Such an attempt is discarded and repeated (the order is drawn afresh).
func run(sc Scenario, seed string) (outcome, []sim.Event) {
	for attempt := 0; ; attempt++ {
		o, ev, again := runOnce(sc, seed)
		if !again {
			return o, ev
		}
		if attempt >= 24 {
			o = outcome{ID: sc.ID, Applicable: false, Status: map[string]string{},
				Why: "the two universes could not be kept byte-identical before the fork (map-order dependent encoding)"}
			return o, nil
		}
	}
}

func runOnce(sc Scenario, seed string) (outcome, []sim.Event, bool) {
	su := getSetup(sc.Proto, sc.N, sc.T, seed)
	if sc.Pool {
		protos.Pool = pool.NewPool(3)
		defer func() { protos.Pool.TearDown(); protos.Pool = nil }()
	}
	r := &runner{sc: sc, su: su, byz: party.ID(sc.Byz), rng: sim.NewRng(uint64(sc.Sched)*7919 + 17)}
	r.out = outcome{ID: sc.ID, Applicable: true, Status: map[string]string{}}
	for _, id := range su.ids {
		if id != r.byz {
			r.honest = append(r.honest, id)
		}
	}
	sess := su.session([]byte("sid"))
	e := sim.NewEngine(su.ids, r.honest, 0)
	r.e = e
	e.Judge = func(inst party.ID, res interface{}) string { return su.judgeResult(res) }
	label := func(id party.ID) string { return fmt.Sprintf("%s/%d/%s", seed, sc.Sched, id) }

	switch sc.Kind {
	case "equiv":
		r.equiv(sess, label)
	case "fault":
		r.fault(sess, label)
	case "stop", "honest":
		r.stop(sess, label)
	case "presigncheat":
		r.presignCheat(label, seed)
	case "dealercheat":
		r.dealerCheat(sess, label)
	case "foreign":
		r.foreign(sess, label, seed)
	case "relabel":
		r.relabel(sess, label)
	case "early":
		r.early(sess, label, seed)
	case "frostcheat":
		r.frostCheat(sess, label)
	case "doernercheat":
		r.doernerCheat(label)
	default:
		fatal("unknown scenario kind %q", sc.Kind)
	}
	if r.retry {
		return r.out, nil, true
	}
	if !r.out.Applicable && len(e.Parties) == 0 {
		return r.out, nil, false
	}

	// ---- property-level predicates on the real outcome
	type fin struct {
		id  party.ID
		res interface{}
	}
	var done []fin
	for _, id := range r.honest {
		p := e.Parties[id]
		st := p.Status()
		r.out.Status[string(id)] = st.St
		if st.St == "err" {
			kind := sim.ClassifyErr(st.Err, id, st.Culprits)
			if os.Getenv("HADV_DEBUG") != "" {
				fmt.Fprintf(os.Stderr, "scenario %d: %s ends with %v (culprits %v)\n", sc.ID, id, st.Err, st.Culprits)
			}
			r.out.Status[string(id)] = "err:" + kind
			for _, c := range st.Culprits {
				if kind == "detected" || kind == "proto" || kind == "self" {
					if c != r.byz {
						r.violate("C04", "honest-blamed", fmt.Sprintf("honest party %s ends with error kind %s naming %v although only %q deviated: %v", id, kind, st.Culprits, r.byz, st.Err), "")
					}
				}
			}
			if kind == "echo" && len(st.Culprits) > 0 {
				r.violate("C04", "honest-blamed", fmt.Sprintf("echo mismatch names %v", st.Culprits), "")
			}
		}
		if st.St == "done" {
			done = append(done, fin{id, st.Result})
			if su.judgeResult(st.Result) == "wrong" {
				r.violate("C03", "wrong-result", fmt.Sprintf("honest party %s finished with a result the independent verifier rejects", id), "")
			}
		}
		if p.Closes > 1 {
			r.violate("C17", "double-close", fmt.Sprintf("party %s: outgoing channel closed %d times", id, p.Closes), "")
		}
		if (st.St == "done" || st.St == "err") && !p.Closed {
			p.Drain()
			if !p.Closed {
				r.violate("C17", "not-closed", fmt.Sprintf("party %s ended (%s) but its outgoing channel is still open", id, st.St), "")
			}
		}
		if st.St == "run" && p.Closed {
			r.violate("C17", "closed-while-running", fmt.Sprintf("party %s: channel closed but Result says not finished", id), "")
		}
	}
	for _, a := range e.Anomalies {
		if strings.HasPrefix(a, "hash-collision") && e.Log { // the abstract views are only maintained for logged scenarios
			r.violate("C06", "echo-hash-collision", a, "")
		}
	}
	// key material of the honest finishers must be mutually consistent
	if su.keyg && len(done) >= 1 {
		views := map[party.ID]*judge.KeyView{}
		bad := ""
		for _, f := range done {
			v, err := judge.View(f.res)
			if err != nil {
				bad = fmt.Sprintf("result of %s cannot be read: %v", f.id, err)
				break
			}
			views[f.id] = v
		}
		if bad == "" && strings.HasPrefix(su.proto, "doerner") {
			// two-party additive sharing: if both honest parties finished their shares must sum to the common key
			if len(done) == 2 {
				a, b := views[done[0].id], views[done[1].id]
				sum := new(big.Int).Add(a.Secret, b.Secret)
				if !oracle.Equal(a.Group, b.Group) || !oracle.Equal(oracle.BaseMul(sum), a.Group) {
					bad = "the two finishers' shares do not combine to one common public key"
				}
				if string(a.ChainKey) != string(b.ChainKey) {
					bad = "the two finishers hold different chain keys (their derived keys will differ)"
				}
			}
		} else if bad == "" {
			// same group key and table among finishers, own share matches table
			var first *judge.KeyView
			for _, f := range done {
				v := views[f.id]
				if first == nil {
					first = v
				}
				if !oracle.Equal(v.Group, first.Group) {
					bad = fmt.Sprintf("honest finishers %s and %s hold different group keys", f.id, done[0].id)
				}
				for j, pt := range first.Table {
					if q, ok := v.Table[j]; !ok || !oracle.Equal(pt, q) {
						bad = fmt.Sprintf("honest finishers %s and %s disagree on the public share of %s", f.id, done[0].id, j)
					}
				}
				if own, ok := v.Table[f.id]; !ok || !oracle.Equal(oracle.BaseMul(v.Secret), own) {
					bad = fmt.Sprintf("secret share of honest finisher %s does not match its table entry", f.id)
				}
				if v.Aux != first.Aux {
					bad = fmt.Sprintf("honest finishers %s and %s disagree on auxiliary keys", f.id, done[0].id)
				}
				if string(v.ChainKey) != string(first.ChainKey) {
					bad = fmt.Sprintf("honest finishers %s and %s hold different chain keys (their derived keys will differ)", f.id, done[0].id)
				}
				if strings.HasSuffix(su.proto, "-refresh") && !oracle.Equal(v.Group, su.group) {
					bad = fmt.Sprintf("refresh changed the group key at %s", f.id)
				}
			}
		}
		// every t+1 honest finishers must be able to use the key: their secret shares combine to the group key and their
		// table entries interpolate to it (a dealer whose polynomial has the wrong degree breaks exactly this)
		if bad == "" && !strings.HasPrefix(su.proto, "doerner") && len(done) > su.t {
			var fids []party.ID
			for _, f := range done {
				fids = append(fids, f.id)
			}
			first := views[fids[0]]
			for _, sub := range judge.Subsets(fids, su.t+1, 12) {
				var xs, ys []*big.Int
				var pts []oracle.Pt
				for _, id := range sub {
					xs = append(xs, oracle.IDScalar(string(id)))
					ys = append(ys, views[id].Secret)
					pts = append(pts, first.Table[id])
				}
				if !oracle.Equal(oracle.BaseMul(oracle.InterpolateAt0(xs, ys)), first.Group) {
					bad = fmt.Sprintf("the secret shares of the honest finishers %v do not combine to the group key", sub)
				} else if !oracle.Equal(oracle.InterpolatePointsAt0(xs, pts), first.Group) {
					bad = fmt.Sprintf("the public shares of %v do not interpolate to the group key", sub)
				}
			}
		}
		if bad != "" {
			r.violate("C03", "wrong-result", bad, "")
			if sc.Kind == "equiv" {
				r.violate("C06", "split", "after an equivocation: "+bad, "")
			}
		}
	}
	// C06: honest finishers hold identical views of every non-final broadcast round
	if sc.Kind == "equiv" && len(done) >= 2 {
		R := 0
		for rd := range e.ShapeB {
			if rd > R {
				R = rd
			}
		}
		for rd := range e.ShapeM {
			if rd > R {
				R = rd
			}
		}
		for rd := range e.ShapeB {
			if rd == R {
				continue
			}
			ref := e.StoredLabels(done[0].id, rd)
			for _, f := range done[1:] {
				if got := e.StoredLabels(f.id, rd); got != ref {
					r.violate("C06", "split", fmt.Sprintf("honest parties %s and %s both completed but stored different broadcasts of round %d: %s vs %s", done[0].id, f.id, rd, ref, got), "")
				}
			}
		}
	}
	r.out.Events = len(e.Events)
	return r.out, e.Events, false
}

// ---------------------------------------------------------------------------------------------

func (r *runner) loop(handle func(d *sim.Delivery) bool) {
	n := 0
	for len(r.e.Net.Pending) > 0 {
		i := r.rng.Intn(len(r.e.Net.Pending))
		d := r.e.Net.Take(i)
		if handle == nil || !handle(d) {
			r.deliver(d.To, d.Msg, "ok")
		}
		n++
		if n > 20000 {
			r.violate("C05", "runaway", "session does not quiesce", "")
			return
		}
	}
}

func (r *runner) stop(sess *protos.Session, label func(party.ID) string) {
	e := r.e
	for _, id := range r.su.ids {
		e.AddParty(id, r.newParty(sess, id, label(id)))
	}
	who := party.ID(r.sc.Who)
	n := 0
	stopped := false
	var late []*sim.Delivery
	r.loop(func(d *sim.Delivery) bool {
		if r.sc.Kind == "stop" && !stopped && n == r.sc.After {
			e.StopParty(who)
			if r.rng.Intn(2) == 0 {
				e.StopParty(who) // Stop twice
			}
			stopped = true
			r.out.Reached = true
		}
		n++
		late = append(late, d)
		return false
	})
	if r.sc.Kind == "stop" && !stopped {
		e.StopParty(who)
		r.out.Reached = true
	}
	// after the end: Stop again, late and duplicate messages, Result must stay fixed
	for _, id := range r.honest {
		p := e.Parties[id]
		before := p.Status()
		e.StopParty(id)
		for k := 0; k < 3 && len(late) > 0; k++ {
			d := late[r.rng.Intn(len(late))]
			if d.To == id {
				r.deliver(id, d.Msg, "ok")
			}
		}
		after := p.Status()
		if before.St != "run" && (before.St != after.St || fmt.Sprint(before.Err) != fmt.Sprint(after.Err) || protos.Canon(before.Result) != protos.Canon(after.Result)) {
			r.violate("C17", "result-changed", fmt.Sprintf("party %s: Result changed after the end: %s/%v -> %s/%v", id, before.St, before.Err, after.St, after.Err), "")
		}
		if before.St == "run" && after.St != "err" {
			r.violate("C17", "stop-ineffective", fmt.Sprintf("party %s: Stop on a running session left it %s", id, after.St), "")
		}
	}
}

func (r *runner) equiv(sess *protos.Session, label func(party.ID) string) {
	e := r.e
	k := r.byz
	kA, kB := party.ID(string(k)+"#A"), party.ID(string(k)+"#B")
	for _, id := range r.honest {
		e.AddParty(id, r.newParty(sess, id, label(id)))
	}
	group := func(j party.ID) string { return r.sc.Groups[string(j)] }
	forked := r.sc.Round == 2
	// labels: before the fork both universes are byte-identical ("h"); afterwards e1 / e2
	e.LabelEmit = func(inst party.ID, m *protocol.Message) string {
		if inst == kA && forked && int(m.RoundNumber) >= r.sc.Round {
			return "e1"
		}
		if inst == kB && forked && int(m.RoundNumber) >= r.sc.Round {
			return "e2"
		}
		return ""
	}
	var emittedA, emittedB []*protocol.Message
	heldA := map[party.ID]*protocol.Message{}
	var firstB party.ID
	for _, j := range r.honest {
		if group(j) == "B" && (firstB == "" || j < firstB) {
			firstB = j
		}
	}
	e.OnEmit = func(inst party.ID, m *protocol.Message) bool {
		if inst != kA && inst != kB {
			return true
		}
		if m.RoundNumber == 0 {
			return false // the equivocator's own abort notices are not part of the scenario
		}
		if inst == kA {
			emittedA = append(emittedA, m)
		} else {
			emittedB = append(emittedB, m)
		}
		pre := int(m.RoundNumber) < r.sc.Round
		if pre && inst == kB {
			// universe B must still be a byte-identical copy of universe A
			same := false
			for _, a := range emittedA {
				if a.RoundNumber == m.RoundNumber && a.Broadcast == m.Broadcast && a.To == m.To {
					same = string(a.Data) == string(m.Data)
				}
			}
			if !same {
				r.retry = true
			}
		}
		for _, j := range r.honest {
			if !m.IsFor(j) {
				continue
			}
			switch {
			case pre && inst == kA:
				e.Net.PostTo(m, j, "h")
			case pre:
				// identical copy of universe B: not delivered twice
			case inst == kA && (group(j) == "A" || r.sc.Cross && int(m.RoundNumber) > r.sc.Round):
				e.Net.PostTo(m, j, "e1")
			case inst == kB && (group(j) == "B" || r.sc.Cross && int(m.RoundNumber) > r.sc.Round):
				if r.sc.Both && m.Broadcast && int(m.RoundNumber) == r.sc.Round && j == firstB {
					// the same broadcast, but naming its recipient (the header filter lets it through)
					// (the recipient field is part of the message hash: for the echo comparison this is yet another
					// version of the broadcast, which nobody else holds - label "mut"; only ONE party gets such a
					// version, two of them would be two different messages under one label)
					c := sim.CloneMsg(m)
					c.To = j
					e.InheritLabels(c, m)
					e.SetVar(c, "mut")
					e.Net.PostTo(c, j, "e2")
				} else {
					e.Net.PostTo(m, j, "e2")
				}
			}
			// "both": the A version of the equivocated broadcast follows the B version at the parties of group B (a second,
			// different message for a filled slot: dropped as a duplicate)
			if r.sc.Both && inst == kA && m.Broadcast && int(m.RoundNumber) == r.sc.Round && group(j) == "B" {
				heldA[j] = m
			}
		}
		return false
	}
	pa := r.newParty(sess, k, label(k))
	lb := label(k)
	if forked {
		lb += "/universeB"
	}
	pb := r.newParty(sess, k, lb)
	e.AddParty(kA, pa)
	e.AddParty(kB, pb)
	// The equivocator is never given a message of a round it has not reached: otherwise one call could finalize two
	// rounds, and the fork (a change of random stream between two calls) could not be placed between them.
	var held []*sim.Delivery
	curRound := func() int { return e.PostOf(kA).Cur }
	r.loop(func(d *sim.Delivery) bool {
		if r.retry {
			return true // void attempt: drain
		}
		if d.To != k {
			if d.Msg.From == k && (d.Tag == "e1" || d.Tag == "e2") && int(d.Msg.RoundNumber) == r.sc.Round {
				r.out.Reached = true
			}
			if r.sc.Both && d.Tag == "e2" && d.Msg.Broadcast && int(d.Msg.RoundNumber) == r.sc.Round && heldA[d.To] != nil {
				r.deliver(d.To, d.Msg, "ok")
				e.Net.PostTo(heldA[d.To], d.To, "e1")
				delete(heldA, d.To)
				return true
			}
			return false
		}
		if !forked && int(d.Msg.RoundNumber) > curRound() {
			held = append(held, d)
			return true
		}
		defer func() {
			keep := held[:0]
			for _, hd := range held {
				if forked || int(hd.Msg.RoundNumber) <= curRound() {
					e.Net.Pending = append(e.Net.Pending, hd)
				} else {
					keep = append(keep, hd)
				}
			}
			held = keep
		}()
		// a message for the equivocator goes to both universes; the fork happens at the call in which
		// universe A emits its round-`Round` messages
		nA := len(emittedA)
		r.deliver(kA, d.Msg, "ok")
		fork := false
		if !forked {
			for _, m := range emittedA[nA:] {
				if int(m.RoundNumber) >= r.sc.Round {
					fork = true
				}
			}
		}
		if fork {
			pb.Rand = sim.NewDetReader(label(k) + "/universeB")
			forked = true
			// relabel what universe A just emitted
			for _, m := range emittedA[nA:] {
				if int(m.RoundNumber) >= r.sc.Round {
					e.Relabel(kA, m, "e1")
					for _, pd := range e.Net.Pending {
						if pd.Msg == m {
							pd.Tag = "e1"
						}
					}
				}
			}
		}
		r.deliver(kB, d.Msg, "ok")
		return true
	})
	// was this a real equivocation? (identical payloads = the round is deterministic: not applicable)
	differ := false
	for _, a := range emittedA {
		if int(a.RoundNumber) != r.sc.Round || !a.Broadcast {
			continue
		}
		for _, b := range emittedB {
			if int(b.RoundNumber) == r.sc.Round && b.Broadcast && string(a.Data) != string(b.Data) {
				differ = true
			}
		}
	}
	if !differ {
		r.out.Applicable = false
		r.out.Why = "both universes produce the same broadcast in this round (deterministic content) or the round was not reached"
	}
}

func (r *runner) fault(sess *protos.Session, label func(party.ID) string) {
	e := r.e
	k := r.byz
	for _, id := range r.su.ids {
		if id != k {
			e.AddParty(id, r.newParty(sess, id, label(id)))
		}
	}
	// donor contents: the same slot from an independent run of the same session with other randomness
	donors := map[string][]byte{}
	{
		dr, err := protos.Run(sess2(r.su), protos.RunOpts{Seed: label(k) + "/donor"})
		if err == nil {
			for _, id := range r.su.ids {
				if p := dr.Engine.Parties[id]; p != nil {
					for _, m := range p.Emitted {
						donors[fmt.Sprintf("%s/%d/%v", m.From, m.RoundNumber, m.Broadcast)] = m.Data
					}
				}
			}
		}
	}
	done := false
	altered := map[*protocol.Message]string{}
	// from the altered round on, everything the cheater sends is suspect: its own state no longer matches what
	// the recipients of the altered message hold, so whether its later messages verify is left to the real code
	// (the unaltered original of the altered slot, sent to the other recipients, stays "h": it is byte-identical
	// to what an honest party would send, and recipients of the two copies must be seen to hold different views)
	e.LabelEmit = func(inst party.ID, m *protocol.Message) string {
		if inst != k || m.RoundNumber == 0 {
			return ""
		}
		if int(m.RoundNumber) > r.sc.Round || (int(m.RoundNumber) == r.sc.Round && m.Broadcast != r.sc.B) {
			return "mut"
		}
		return ""
	}
	e.OnEmit = func(inst party.ID, m *protocol.Message) bool {
		if inst != k || m.RoundNumber == 0 {
			return inst != k
		}
		target := int(m.RoundNumber) == r.sc.Round && m.Broadcast == r.sc.B && !done
		if target && !m.Broadcast && r.sc.To != "all" && m.To != "" && string(m.To) != r.sc.To {
			target = false
		}
		if !target {
			return true
		}
		done = true
		var mm *protocol.Message
		cls := "ok"
		lbl := "mut"
		if r.sc.Hdr != "" {
			to := r.sc.To
			if to == "all" || to == "" {
				to = string(r.honest[0])
			}
			other := ""
			for _, j := range r.su.ids {
				if string(j) != to && j != k {
					other = string(j)
				}
			}
			mm, cls = fault.Header(m, r.sc.Hdr, to, other, 0, r.rng)
			switch r.sc.Hdr {
			case "junkData", "truncData", "emptyData":
				lbl = "junk"
			case "round0":
				lbl = "h"
			}
			if sim.SameMsg(mm, m) {
				r.out.Applicable = false
				r.out.Why = "this header alteration does not change the message"
				return true
			}
		} else {
			leaves, err := fault.Leaves(m.Data)
			if err != nil || r.sc.Leaf >= len(leaves) {
				r.out.Applicable = false
				r.out.Why = "no such leaf"
				return true
			}
			lf := leaves[r.sc.Leaf]
			ok := false
			for _, a := range fault.Alterations(lf.Kind) {
				if a == r.sc.Alt {
					ok = true
				}
			}
			if !ok {
				r.out.Applicable = false
				r.out.Why = "alteration does not apply to a " + lf.Kind
				return true
			}
			data, err := fault.Mutate(m.Data, lf.Path, r.sc.Alt, donors[fmt.Sprintf("%s/%d/%v", m.From, m.RoundNumber, m.Broadcast)], r.rng)
			if err != nil {
				r.out.Applicable = false
				r.out.Why = "mutation not possible: " + err.Error()
				return true
			}
			mm = sim.CloneMsg(m)
			mm.Data = data
			r.out.Why = lf.Path + ":" + r.sc.Alt
		}
		e.InheritLabels(mm, m)
		e.SetVar(mm, lbl)
		altered[mm] = cls
		for _, j := range r.honest {
			getsAltered := r.sc.To == "all" || r.sc.To == "" || string(j) == r.sc.To
			if getsAltered {
				if r.sc.Hdr != "" || mm.IsFor(j) {
					e.Net.PostTo(mm, j, lbl)
				}
			} else if m.IsFor(j) {
				e.Net.PostTo(m, j, "h")
			}
		}
		return false
	}
	e.AddParty(k, r.newParty(sess, k, label(k)))
	r.loop(func(d *sim.Delivery) bool {
		if cls, ok := altered[d.Msg]; ok {
			r.out.Reached = true
			r.deliver(d.To, d.Msg, cls)
			return true
		}
		return false
	})
	if !done && r.out.Applicable {
		r.out.Applicable = false
		r.out.Why = "the cheater never emitted a message in that slot"
	}
}

func sess2(su *setup) *protos.Session { return su.session([]byte("sid")) }

// dealerCheat: one FROST dealer deals a polynomial of degree threshold+Leaf (Leaf = +1 / -1 reused as the delta)
// with consistent shares; honest parties must not crash and must not finish with inconsistent material.
func (r *runner) dealerCheat(sess *protos.Session, label func(party.ID) string) {
	e := r.e
	e.Log = false
	su := r.su
	delta := 1
	if r.sc.Alt == "minus" {
		delta = -1
	}
	k := r.byz
	// the deviating dealer is a real instance with altered state: when its own checks trip over what it did, it would
	// tell everybody to abort - a cheater does not do that
	e.OnEmit = func(inst party.ID, m *protocol.Message) bool { return !(inst == k && m.RoundNumber == 0) }
	cfgs := protos.CloneConfigs(su.cfgs)
	var mk func() protocol.StartFunc
	switch su.proto {
	case "frost-keygen":
		mk = func() protocol.StartFunc { return frost.Keygen(protos.Group, k, su.ids, su.t) }
	case "taproot-keygen":
		mk = func() protocol.StartFunc { return frost.KeygenTaproot(k, su.ids, su.t) }
	case "frost-refresh":
		mk = func() protocol.StartFunc { return frost.Refresh(cfgs[k].(*frost.Config), su.ids) }
	case "taproot-refresh":
		mk = func() protocol.StartFunc { return frost.RefreshTaproot(cfgs[k].(*frost.TaprootConfig), su.ids) }
	case "cmp-keygen", "cmp-refresh":
		if su.proto == "cmp-keygen" {
			mk = func() protocol.StartFunc { return cmp.Keygen(protos.Group, k, su.ids, su.t, nil) }
		} else {
			mk = func() protocol.StartFunc { return cmp.Refresh(cfgs[k].(*cmp.Config), nil) }
		}
		if strings.HasPrefix(r.sc.Alt, "commit:") {
			protos.CommitCheat(sess, k, strings.TrimPrefix(r.sc.Alt, "commit:"), []byte("sid"), mk)
			for _, id := range su.ids {
				e.AddParty(id, r.newParty(sess, id, label(id)))
			}
			r.loop(nil)
			r.out.Reached = true
			return
		}
		if r.sc.Alt == "wrongshares" {
			protos.CmpWrongShares(sess, k, []byte("sid"), mk)
			// abort notices are withheld: the party that was served the wrong share must reach its own verdict
			e.OnEmit = func(inst party.ID, m *protocol.Message) bool { return m.RoundNumber != 0 }
			for _, id := range su.ids {
				e.AddParty(id, r.newParty(sess, id, label(id)))
			}
			r.loop(nil)
			r.out.Reached = true
			return
		}
		if r.sc.Alt == "nonzero" && su.proto == "cmp-keygen" || r.sc.Alt == "zero" && su.proto == "cmp-refresh" || strings.HasPrefix(r.sc.Alt, "eval") {
			r.out.Applicable = false
			r.out.Why = "not defined for this protocol"
			return
		}
		protos.CmpDealerCheat(sess, k, r.sc.Alt, []byte("sid"), mk)
		for _, id := range su.ids {
			e.AddParty(id, r.newParty(sess, id, label(id)))
		}
		r.loop(nil)
		r.out.Reached = true
		return
	default:
		r.out.Applicable = false
		r.out.Why = "dealer cheat applies to key generation / refresh"
		return
	}
	if strings.HasPrefix(r.sc.Alt, "eval") {
		r.evalPointCheat(sess, label, mk)
		return
	}
	if strings.HasPrefix(r.sc.Alt, "commit:") {
		protos.CommitCheat(sess, k, strings.TrimPrefix(r.sc.Alt, "commit:"), []byte("sid"), mk)
		for _, id := range su.ids {
			e.AddParty(id, r.newParty(sess, id, label(id)))
		}
		r.loop(nil)
		r.out.Reached = true
		return
	}
	if r.sc.Alt == "zero" {
		if strings.HasSuffix(su.proto, "-refresh") {
			r.out.Applicable = false
			r.out.Why = "a refresh polynomial has a zero constant term anyway"
			return
		}
		protos.FrostZeroDealer(sess, k, []byte("sid"), mk)
		for _, id := range su.ids {
			e.AddParty(id, r.newParty(sess, id, label(id)))
		}
		r.loop(nil)
		r.out.Reached = true
		return
	}
	protos.FrostDealerCheat(sess, k, delta, []byte("sid"), mk)
	for _, id := range su.ids {
		e.AddParty(id, r.newParty(sess, id, label(id)))
	}
	r.loop(nil)
	r.out.Reached = true
}

// evalPointCheat: the dealer sends one honest party the share of ANOTHER evaluation point of its (committed,
// correct-degree) polynomial - the point 0 (its secret) or another party's point - with the recipient header
// kept or emptied (the handler accepts an empty recipient).  Alt: eval0 | eval0-empty | evalk | evalk-empty.
func (r *runner) evalPointCheat(sess *protos.Session, label func(party.ID) string, mk func() protocol.StartFunc) {
	e := r.e
	k := r.byz
	spy := protos.FrostDealerSpy(sess, k, []byte("sid"), mk)
	for _, id := range r.su.ids {
		e.AddParty(id, r.newParty(sess, id, label(id)))
	}
	victim := r.honest[r.sc.Sched%len(r.honest)]
	var other party.ID
	for _, id := range r.honest {
		if id != victim {
			other = id
		}
	}
	r.loop(func(d *sim.Delivery) bool {
		m := d.Msg
		if m.From != k || m.Broadcast || d.To != victim || m.RoundNumber != 3 || spy.F == nil || r.out.Reached {
			return false
		}
		leaves, err := fault.Leaves(m.Data)
		if err != nil {
			return false
		}
		path := ""
		for _, l := range leaves {
			if l.Kind == "bytes" {
				path = l.Path
			}
		}
		val := spy.F.Constant()
		if strings.HasPrefix(r.sc.Alt, "evalk") {
			val = spy.F.Evaluate(other.Scalar(protos.Group))
		}
		share, _ := val.MarshalBinary()
		data, err := fault.Mutate(m.Data, path, "set", share, r.rng)
		if err != nil {
			return false
		}
		c := sim.CloneMsg(m)
		c.Data = data
		if strings.HasSuffix(r.sc.Alt, "-empty") {
			c.To = ""
		}
		r.out.Reached = true
		r.deliver(victim, c, "ok")
		return true
	})
}

// frostCheat: one FROST signer answers inconsistently with what it published (rules of FrostAlg.tla); as the
// specification says, every honest signer must end with an error naming exactly that signer, nobody outputs anything.
func (r *runner) frostCheat(sess *protos.Session, label func(party.ID) string) {
	e := r.e
	e.Log = false
	su := r.su
	k := r.byz
	cfgs := protos.CloneConfigs(su.cfgs)
	var mk func() protocol.StartFunc
	switch c := cfgs[k].(type) {
	case *frost.Config:
		mk = func() protocol.StartFunc { return frost.Sign(c, su.ids, su.msg) }
	case *frost.TaprootConfig:
		mk = func() protocol.StartFunc { return frost.SignTaproot(c, su.ids, su.msg) }
	default:
		r.out.Applicable = false
		r.out.Why = "needs FROST key material"
		return
	}
	protos.FrostSignCheat(sess, k, r.sc.Rule, []byte("sid"), mk)
	// abort notices are withheld: every honest signer reaches its own verdict
	e.OnEmit = func(inst party.ID, m *protocol.Message) bool { return m.RoundNumber != 0 }
	for _, id := range su.ids {
		e.AddParty(id, r.newParty(sess, id, label(id)))
	}
	r.loop(nil)
	r.out.Reached = true
	for _, id := range r.honest {
		st := e.Parties[id].Status()
		desc := fmt.Sprintf("%s, signer %s deviates (%s): honest signer %s ends %s", su.proto, k, r.sc.Rule, id, st.St)
		switch {
		case st.St == "done":
			if su.judgeResult(st.Result) == "wrong" {
				r.violate("C03", "wrong-result", desc+" with an invalid signature", "")
			} else {
				r.violate("C04", "cheater-not-identified", desc+" although a response was inconsistent (FrostAlg.tla: Detected)", "")
			}
		case st.St == "err" && (len(st.Culprits) != 1 || st.Culprits[0] != k):
			r.violate("C04", "cheater-not-identified", fmt.Sprintf("%s with culprits %v (%v); FrostAlg.tla (BlameComplete) says exactly [%s]", desc, st.Culprits, st.Err, k), "")
		case st.St == "run":
			r.violate("C04", "cheater-not-identified", desc+" (still waiting)", "")
		}
	}
}

// doernerCheat: one side of a Doerner signing session computes with other inputs than key generation fixed (rule:
// share / public / ot / kinv, see protos.DoernerSignCheat and DoernerAlg.tla).  DoernerAlg.tla: the honest side returns
// a signature only if it is valid - and without a collision of the masks it returns none; a party that ends with an
// error it detected itself names the other side at most.
func (r *runner) doernerCheat(label func(party.ID) string) {
	e := r.e
	e.Log = false
	su := r.su
	k := r.byz
	if su.proto != "doerner-sign" || su.alt == nil {
		r.out.Applicable = false
		r.out.Why = "needs Doerner key material"
		return
	}
	recv, send := su.ids[0], su.ids[1]
	if r.sc.Rule == "kinv" && k != recv {
		r.out.Applicable = false
		r.out.Why = "kinv is a deviation of the Receiver"
		return
	}
	cfgs := protos.CloneConfigs(su.cfgs)
	sess, applied := protos.DoernerSignCheat(recv, send, cfgs[recv].(*doerner.ConfigReceiver), cfgs[send].(*doerner.ConfigSender),
		su.alt[recv].(*doerner.ConfigReceiver), su.alt[send].(*doerner.ConfigSender), su.msg, k, r.sc.Rule, []byte("sid"))
	for _, id := range su.ids {
		e.AddParty(id, r.newParty(sess, id, label(id)))
	}
	r.loop(nil)
	if !applied() {
		r.out.Applicable = false
		r.out.Why = "the state alteration was not reached"
		return
	}
	r.out.Reached = true
	for _, id := range r.honest {
		st := e.Parties[id].Status()
		if st.St == "done" {
			desc := fmt.Sprintf("%s, %s deviates (%s): honest side %s finished", su.proto, k, r.sc.Rule, id)
			if su.judgeResult(st.Result) == "wrong" {
				r.violate("C03", "wrong-result", desc+" with an invalid signature", "")
			} else {
				r.violate("C03", "deviation-undetected", desc+" although the two sides computed with inconsistent inputs (DoernerAlg.tla: only by a collision of the masks)", "")
			}
		}
	}
}

// presignStage names the step of CMP presigning / signing that produced an error.
func presignStage(e string) string {
	switch {
	case strings.Contains(e, "abort1: detected culprit"):
		return "abort1"
	case strings.Contains(e, "abort2: detected culprit"):
		return "abort2"
	case strings.Contains(e, "signature failed to verify"):
		return "sigma"
	case strings.Contains(e, "round 7: failed to validate Delta MtA Nth proof"):
		return "abort1-proofs"
	case strings.Contains(e, "round 8: failed to validate Delta MtA Nth proof"):
		return "abort2-proofs"
	}
	return "other"
}

// presignCheat: one presigner deviates at state level (its proofs pass); every honest signer must single it out.
func (r *runner) presignCheat(label func(party.ID) string, seed string) {
	e := r.e
	e.Log = false // the abort rounds have their own shape; judged by the predicates below only
	su := r.su
	cfgs := protos.CloneConfigs(su.cfgs)
	var sess *protos.Session
	switch r.sc.Variant {
	case "offline":
		sess = protos.CmpPresignCheat(cfgs, su.ids, nil, r.byz, r.sc.Rule, []byte("sid"))
	case "full":
		sess = protos.CmpPresignCheat(cfgs, su.ids, su.msg, r.byz, r.sc.Rule, []byte("sid"))
	case "online":
		pr, err := protos.Run(protos.CmpPresign(protos.CloneConfigs(su.cfgs), su.ids, []byte("pre")), protos.RunOpts{Seed: seed + "/pre/" + label("x")})
		if err != nil || !pr.AllDone() {
			r.out.Applicable = false
			r.out.Why = "honest presigning failed"
			return
		}
		pres := map[party.ID]*ecdsa.PreSignature{}
		for id, x := range pr.Results {
			pres[id] = x.(*ecdsa.PreSignature)
		}
		// the presignatures are stored and reloaded (cbor, ecdsa.EmptyPreSignature) before they are used
		for id, p := range pres {
			data, err := cbor.Marshal(p)
			q := ecdsa.EmptyPreSignature(protos.Group)
			if err == nil {
				err = cbor.Unmarshal(data, q)
			}
			if err != nil {
				r.out.Applicable = false
				r.out.Why = "a presignature does not survive its encoding: " + err.Error()
				return
			}
			pres[id] = q
		}
		bad, err := protos.TamperPreSignature(pres[r.byz], r.sc.Rule)
		if err != nil {
			fatal("%v", err)
		}
		pres[r.byz] = bad
		sess = protos.CmpPresignOnline(cfgs, pres, su.ids, su.msg, []byte("sid"))
	default:
		fatal("unknown presign variant %q", r.sc.Variant)
	}
	// abort notices are not delivered, so that every honest signer reaches its own verdict
	e.OnEmit = func(inst party.ID, m *protocol.Message) bool { return m.RoundNumber != 0 }
	for _, id := range su.ids {
		e.AddParty(id, r.newParty(sess, id, label(id)))
	}
	r.loop(nil)
	r.out.Reached = true
	for _, id := range r.honest {
		st := e.Parties[id].Status()
		desc := fmt.Sprintf("%s presign, cheater %s deviates in %s: honest signer %s ends %s", r.sc.Variant, r.byz, r.sc.Rule, id, st.St)
		switch st.St {
		case "done":
			r.violate("C04", "cheater-not-identified", desc+" (completed although a contribution was inconsistent)", "")
		case "run":
			r.violate("C04", "cheater-not-identified", desc+" (still waiting: the identification round never finished)", "")
		case "err":
			if len(st.Culprits) != 1 || st.Culprits[0] != r.byz {
				r.violate("C04", "cheater-not-identified", fmt.Sprintf("%s with culprits %v (%v); expected exactly [%s]", desc, st.Culprits, st.Err, r.byz), "")
			}
			// the stage at which the deviation is caught, against the prediction of PresignAlg.tla (as designed / as coded)
			if got := presignStage(st.Err.Error()); r.sc.Stage != "" && got != r.sc.Stage && got != r.sc.Coded {
				r.violate("C04", "caught-at-wrong-stage", fmt.Sprintf("%s at stage %q (%v); PresignAlg.tla predicts %q", desc, got, st.Err, r.sc.Stage), "")
			}
		}
	}
}

// otherSession builds a session that differs from the observed one (sid "sid") in exactly one parameter.
func (r *runner) otherSession(seed string) (*protos.Session, string) {
	su := r.su
	switch r.sc.Diff {
	case "sid":
		alts := [][]byte{nil, {}, []byte("si"), []byte("sid2"), []byte("sie")}
		return su.session(alts[r.sc.Sched%len(alts)]), ""
	case "proto":
		twin := map[string]string{"frost-keygen": "taproot-keygen", "taproot-keygen": "frost-keygen"}[su.proto]
		if twin == "" {
			return nil, "no twin protocol"
		}
		return getSetup(twin, su.n, su.t, seed).session([]byte("sid")), ""
	case "parties":
		if su.cfgs != nil || su.n+1 > len(names) {
			return nil, "participant set is fixed by the key material"
		}
		return getSetup(su.proto, su.n+1, su.t, seed).session([]byte("sid")), ""
	case "threshold":
		if su.cfgs != nil {
			return nil, "threshold is fixed by the key material"
		}
		t2 := su.t + 1
		if t2 > su.n-1 {
			t2 = su.t - 1
		}
		if t2 < 0 || strings.HasPrefix(su.proto, "toy") || su.proto == "xor" {
			return nil, "no other threshold"
		}
		return getSetup(su.proto, su.n, t2, seed).session([]byte("sid")), ""
	case "material":
		if !strings.HasPrefix(su.proto, "cmp-") || su.cfgs == nil {
			return nil, "only CMP binds sessions to the key material"
		}
		o := *su
		o.cfgs = protos.DealCmp(su.ids, su.t, seed+"/other-material")
		if su.proto == "cmp-presign-online" {
			return nil, "presignature belongs to the material"
		}
		return o.session([]byte("sid")), ""
	case "message":
		if !su.sign || !strings.HasPrefix(su.proto, "cmp-") {
			return nil, "no message"
		}
		o := *su
		o.msg = []byte("another message hash to be signed")
		return o.session([]byte("sid")), ""
	case "presig":
		if su.proto != "cmp-presign-online" {
			return nil, "no presignature"
		}
		o := *su
		pr, err := protos.Run(protos.CmpPresign(protos.CloneConfigs(su.cfgs), su.ids, []byte("pre2")), protos.RunOpts{Seed: seed + "/pre2"})
		if err != nil || !pr.AllDone() {
			return nil, "second presignature failed"
		}
		o.pres = map[party.ID]*ecdsa.PreSignature{}
		for id, x := range pr.Results {
			o.pres[id] = x.(*ecdsa.PreSignature)
		}
		return o.session([]byte("sid")), ""
	}
	return nil, "unknown diff"
}

// foreign: messages of a session that differs in one parameter are presented to the parties of the observed
// (all honest) session at random points of its progress.
func (r *runner) foreign(sess *protos.Session, label func(party.ID) string, seed string) {
	e := r.e
	other, why := r.otherSession(seed)
	if other == nil {
		r.out.Applicable = false
		r.out.Why = why
		return
	}
	or, err := protos.Run(other, protos.RunOpts{Seed: seed + "/other/" + label("x")})
	if err != nil {
		r.out.Applicable = false
		r.out.Why = "the other session could not be run: " + err.Error()
		return
	}
	var alien []*protocol.Message
	for _, p := range or.Engine.Parties {
		alien = append(alien, p.Emitted...)
	}
	// ... and the abort notices of that session: one of its parties is stopped in a second instance of it
	if o2, _ := r.otherSession(seed); o2 != nil {
		for i, id := range o2.IDs {
			p, err, pv := sim.NewParty(id, sim.NewDetReader(seed+"/other-stop/"+string(id)), o2.Makers[id])
			if err != nil || pv != "" {
				continue
			}
			p.Drain()
			if i == r.sc.Sched%len(o2.IDs) || i == 0 {
				oc := p.Call(func() { p.H.Stop() })
				for _, m := range oc.Emitted {
					if m.RoundNumber == 0 {
						alien = append(alien, m, m)
					}
				}
			}
		}
	}
	if len(alien) == 0 {
		r.out.Applicable = false
		r.out.Why = "the other session produced no messages"
		return
	}
	for _, id := range r.su.ids {
		e.AddParty(id, r.newParty(sess, id, label(id)))
	}
	present := func() {
		m := alien[r.rng.Intn(len(alien))]
		// to its addressee if that party exists here, else to anybody
		var cands []party.ID
		for _, id := range r.su.ids {
			if m.IsFor(id) {
				cands = append(cands, id)
			}
		}
		if len(cands) == 0 {
			cands = r.su.ids
		}
		to := cands[r.rng.Intn(len(cands))]
		n0 := len(e.Events)
		r.deliver(to, m, "foreign")
		r.out.Reached = true
		if len(e.Events) > n0 {
			ev := e.Events[len(e.Events)-1]
			if ev.Ev == "Accept" && (ev.Can || !ev.Ign) {
				r.violate("C09", "foreign-accepted", fmt.Sprintf("a message of a session differing in %s (round %d from %s) was presented to %s: CanAccept=%v, state unchanged=%v", r.sc.Diff, m.RoundNumber, m.From, to, ev.Can, ev.Ign), "")
			}
		}
	}
	r.loop(func(d *sim.Delivery) bool {
		for k := r.rng.Intn(3); k > 0; k-- {
			present()
		}
		return false
	})
	for k := 0; k < 4; k++ {
		present()
	}
	// the observed session must be unaffected
	for _, id := range r.honest {
		if st := e.Parties[id].Status(); st.St != "done" {
			r.violate("C09", "session-disturbed", fmt.Sprintf("party %s of the observed all-honest session ended %s (%v) although only foreign messages were injected", id, st.St, st.Err), "")
		}
	}
}

// relabel: a message of party From is presented to a recipient under the name of party Byz before Byz's own one.
func (r *runner) relabel(sess *protos.Session, label func(party.ID) string) {
	e := r.e
	k := r.byz
	from := party.ID(r.sc.From)
	for _, id := range r.su.ids {
		e.AddParty(id, r.newParty(sess, id, label(id)))
	}
	var victim party.ID
	done := false
	r.loop(func(d *sim.Delivery) bool {
		m := d.Msg
		if done || m.From != from || int(m.RoundNumber) != r.sc.Round || m.Broadcast != r.sc.B || d.To == k || d.To == from {
			return false
		}
		// deliver the genuine message, then the same content under k's name (k's own message for that slot must not have arrived yet)
		if containsStored(e, d.To, int(m.RoundNumber), m.Broadcast, k) {
			return false
		}
		done = true
		victim = d.To
		r.deliver(d.To, m, "ok")
		fm := sim.CloneMsg(m)
		fm.From = k
		e.InheritLabels(fm, m)
		e.SetVar(fm, "mut")
		r.out.Reached = true
		r.deliver(d.To, fm, "ok")
		return true
	})
	if !done {
		r.out.Applicable = false
		r.out.Why = "no such message, or the impersonated party's own message always arrived first"
		return
	}
	// The message carries a proof (or a share) that is bound to its maker: under another sender's name it must fail the
	// verification of ITS round and that sender must be named.  Getting past that round - to completion, or to an error
	// of a later round - means the proof verified for a party that did not make it.
	st := e.Parties[victim].Status()
	switch {
	case st.St == "done":
		r.violate("C09", "relabelled-accepted", fmt.Sprintf("party %s completed although a message made by %s (round %d) was stored under the name of %s", victim, from, r.sc.Round, k), "")
	case st.St == "err" && len(st.Culprits) == 1 && st.Culprits[0] == k && strings.Contains(st.Err.Error(), fmt.Sprintf("round %d:", r.sc.Round)):
		// refused where it must be
	default:
		r.violate("C09", "relabelled-accepted", fmt.Sprintf("party %s did not refuse, in round %d, a message made by %s and presented under the name of %s: it ends %s (%v)", victim, r.sc.Round, from, k, st.St, st.Err), "")
	}
}

// early: before anything else the deviating party presents a well-formed message of a LATER round (taken from another
// run of the same session parameters, so its header is acceptable and its content is of the right type but does not
// belong to this execution).  A handler that stores early messages must still verify them when their round comes.
func (r *runner) early(sess *protos.Session, label func(party.ID) string, seed string) {
	e := r.e
	k := r.byz
	donor, err := protos.Run(r.su.session([]byte("sid")), protos.RunOpts{Seed: seed + "/early-donor/" + fmt.Sprint(r.sc.Sched)})
	if err != nil || !donor.AllDone() {
		r.out.Applicable = false
		r.out.Why = "the donor run did not complete"
		return
	}
	// what the deviating party sends in later rounds belongs to its own execution, not to the one the recipient built on
	// the foreign message: whether it verifies is left to the real code (label "mut"), as for a field alteration
	e.LabelEmit = func(inst party.ID, m *protocol.Message) string {
		if inst == k && int(m.RoundNumber) > r.sc.Round {
			return "mut"
		}
		return ""
	}
	for _, id := range r.su.ids {
		e.AddParty(id, r.newParty(sess, id, label(id)))
	}
	n := 0
	for _, m := range donor.Engine.Parties[k].Emitted {
		if int(m.RoundNumber) != r.sc.Round || m.RoundNumber == 0 {
			continue
		}
		for _, h := range r.honest {
			if m.IsFor(h) {
				fm := sim.CloneMsg(m)
				if r.sc.Alt != "" {
					// ... and one of its fields altered, so that it is well-formed but wrong whatever execution it is held against
					leaves, err := fault.Leaves(m.Data)
					if err != nil || r.sc.Leaf >= len(leaves) {
						continue
					}
					data, err := fault.Mutate(m.Data, leaves[r.sc.Leaf].Path, r.sc.Alt, nil, r.rng)
					if err != nil {
						continue
					}
					fm.Data = data
				}
				e.SetVar(fm, "mut")
				r.deliver(h, fm, "ok")
				n++
			}
		}
	}
	if n == 0 {
		r.out.Applicable = false
		r.out.Why = "the deviating party sends nothing in that round"
		return
	}
	r.out.Reached = true
	r.loop(nil)
}

func containsStored(e *sim.Engine, inst party.ID, rd int, b bool, from party.ID) bool {
	return e.HasStored(inst, rd, b, from)
}

// discover prints the message structure of a protocol: per (round, kind) the leaves of the content.
func discover(proto string, n, t int, seed string) {
	su := getSetup(proto, n, t, seed)
	r, err := protos.Run(su.session([]byte("sid")), protos.RunOpts{Seed: seed + "/discover"})
	if err != nil || !r.AllDone() {
		fatal("discover run failed: %v %s", err, r.Describe())
	}
	type slot struct {
		Round  int          `json:"round"`
		B      bool         `json:"b"`
		Leaves []fault.Leaf `json:"leaves"`
	}
	seen := map[string]bool{}
	var slots []slot
	R := 0
	for _, m := range r.Engine.Parties[su.ids[0]].Emitted {
		if int(m.RoundNumber) > R {
			R = int(m.RoundNumber)
		}
		key := fmt.Sprintf("%d/%v", m.RoundNumber, m.Broadcast)
		if seen[key] || m.RoundNumber == 0 {
			continue
		}
		seen[key] = true
		lv, err := fault.Leaves(m.Data)
		if err != nil {
			fatal("leaves: %v", err)
		}
		slots = append(slots, slot{int(m.RoundNumber), m.Broadcast, lv})
	}
	sort.Slice(slots, func(i, j int) bool {
		if slots[i].Round != slots[j].Round {
			return slots[i].Round < slots[j].Round
		}
		return slots[i].B && !slots[j].B
	})
	var sb, sm []int
	for rd := range r.Engine.ShapeB {
		sb = append(sb, rd)
	}
	for rd := range r.Engine.ShapeM {
		sm = append(sm, rd)
	}
	sort.Ints(sb)
	sort.Ints(sm)
	b, _ := json.Marshal(map[string]interface{}{"proto": proto, "n": n, "t": t, "R": R, "shapeB": sb, "shapeM": sm, "slots": slots})
	fmt.Println(string(b))
}

func main() {
	if pf := os.Getenv("HADV_CPUPROFILE"); pf != "" {
		if f, err := os.Create(pf); err == nil {
			pprof.StartCPUProfile(f)
			defer pprof.StopCPUProfile()
		}
	}
	mode := flag.String("mode", "run", "run | discover")
	scen := flag.String("scen", "", "scenario file (JSON lines)")
	outDir := flag.String("out", ".", "output directory")
	seed := flag.String("seed", "0", "seed label")
	proto := flag.String("proto", "", "discover: protocol")
	n := flag.Int("n", 3, "discover: parties")
	t := flag.Int("t", 1, "discover: threshold")
	primes := flag.String("primes", "/verif/fixtures/safeprimes.json", "safe primes")
	tag := flag.String("tag", "adv", "output file tag")
	flag.Parse()
	if err := protos.InstallPrimeSource(*primes); err != nil {
		fatal("%v", err)
	}
	if *mode == "discover" {
		discover(*proto, *n, *t, *seed)
		return
	}
	f, err := os.Open(*scen)
	if err != nil {
		fatal("%v", err)
	}
	defer f.Close()
	sc := bufio.NewScanner(f)
	sc.Buffer(make([]byte, 1<<20), 1<<26)
	// traces are grouped by (proto, n, byz): one file per TLC configuration. Everything is flushed after every
	// scenario, and the id of the scenario in progress is kept in a file, so that a fatal runtime error
	// (out of memory, stack overflow) in the code under test can be attributed and the run resumed.
	type group struct {
		w     *bufio.Writer
		f     *os.File
		enc   *json.Encoder
		n     int
		lines int
		meta  map[string]interface{}
	}
	groups := map[string]*group{}
	of, err := os.Create(fmt.Sprintf("%s/%s_outcomes.jsonl", *outDir, *tag))
	if err != nil {
		fatal("%v", err)
	}
	defer of.Close()
	oenc := json.NewEncoder(of)
	progress := fmt.Sprintf("%s/%s_progress", *outDir, *tag)
	for sc.Scan() {
		line := strings.TrimSpace(sc.Text())
		if line == "" {
			continue
		}
		var s Scenario
		if err := json.Unmarshal([]byte(line), &s); err != nil {
			fatal("bad scenario %q: %v", line, err)
		}
		os.WriteFile(progress, []byte(fmt.Sprint(s.ID)), 0o644)
		o, events := run(s, *seed)
		oenc.Encode(o)
		of.Sync()
		if !o.Applicable {
			continue
		}
		gk := fmt.Sprintf("%s_%s_%d_%s", *tag, strings.NewReplacer(":", "_", ",", "_").Replace(s.Proto), s.N, s.Byz)
		g := groups[gk]
		if g == nil {
			fh, err := os.Create(fmt.Sprintf("%s/%s.ndjson", *outDir, gk))
			if err != nil {
				fatal("%v", err)
			}
			g = &group{f: fh, w: bufio.NewWriter(fh)}
			g.enc = json.NewEncoder(g.w)
			var honest []string
			for _, id := range names[:s.N] {
				if string(id) != s.Byz {
					honest = append(honest, string(id))
				}
			}
			g.meta = map[string]interface{}{"proto": s.Proto, "n": s.N, "t": s.T, "byz": s.Byz, "parties": names[:s.N], "honest": honest, "file": fh.Name()}
			groups[gk] = g
		}
		if g.n > 0 {
			g.enc.Encode(sim.Event{Ev: "Reset", Trace: s.ID, Em: []sim.Em{}, Post: sim.Post{Culp: []string{}}, Res: "none"})
			g.lines++
		}
		for _, ev := range events {
			ev.Trace = s.ID
			if ev.Em == nil {
				ev.Em = []sim.Em{}
			}
			if ev.Post.Culp == nil {
				ev.Post.Culp = []string{}
			}
			if ev.Res == "" {
				ev.Res = "none"
			}
			g.enc.Encode(ev)
			g.lines++
		}
		g.n++
		g.w.Flush()
		g.meta["traces"] = g.n
		g.meta["lines"] = g.lines
		mb, _ := json.Marshal(g.meta)
		os.WriteFile(g.f.Name()+".meta", mb, 0o644)
		// a call that did not return leaves a goroutine behind that keeps computing: this process stops here (everything
		// so far is on disk) and the caller starts another one for the remaining scenarios
		for _, v := range o.Viol {
			if v.What == "hang" {
				for _, gg := range groups {
					gg.w.Flush()
					gg.f.Close()
				}
				os.WriteFile(progress, []byte("hung"), 0o644)
				os.Exit(3)
			}
		}
	}
	os.WriteFile(progress, []byte("done"), 0o644)
	for _, g := range groups {
		g.w.Flush()
		g.f.Close()
	}
}
