// otdrv replays the cases printed by /verif/spec/OTFlow.tla on the real internal/ot package at real size
// and judges every run with oracles that do not use the library's arithmetic: math/big for Z_q and
// GF(2)[x], bit addressing through the tables printed by /verif/spec/OTAlg.tla (MODE = "tables").
//
//	otdrv -cases cases.jsonl -tables tables.json -seed N -shard i -of k -out result.json
//
// Outcome of a run: "ok" (both sides finished and the defining relation holds), "wrong" (both finished,
// relation violated), "errS"/"errR" (an error returned on that side), "panic".  "wrong", "panic" and an
// error in an untampered run are violations of the property, and so is an altered message that passes the
// side that checks it and makes only the peer fail; any other difference from the outcome the specification
// derived is reported as a divergence (the model does not describe the code).
package main

import (
	"bytes"
	"crypto/rand"
	"encoding/binary"
	"encoding/json"
	"flag"
	"fmt"
	"io"
	"math/big"
	"os"
	"reflect"
	"runtime"
	"sort"
	"strings"

	"github.com/cronokirby/saferith"
	"github.com/taurusgroup/multi-party-sig/internal/ot"
	"github.com/taurusgroup/multi-party-sig/pkg/hash"
	"github.com/taurusgroup/multi-party-sig/pkg/math/curve"
	"github.com/taurusgroup/multi-party-sig/verifharness/protos"
	"github.com/zeebo/blake3"
)

// ---------------------------------------------------------------------------------------------
// input / output

type Case struct {
	Layer  string   `json:"layer"`
	A      string   `json:"a"`
	B      string   `json:"b"`
	Pat    string   `json:"pat"`
	Ch     int      `json:"ch"`
	N      int      `json:"n"`
	Tr     int      `json:"tr"`
	M      string   `json:"m"`
	F      string   `json:"f"`
	Idx    string   `json:"idx"`
	Comp   int      `json:"comp"`
	Kind   string   `json:"kind"`
	Expect []string `json:"expect"`
}

func (c Case) key() string {
	return fmt.Sprintf("%s|%s|%s|%s|%d|%d|%d|%s|%s|%s|%d|%s", c.Layer, c.A, c.B, c.Pat, c.Ch, c.N, c.Tr, c.M, c.F, c.Idx, c.Comp, c.Kind)
}

type Tables struct {
	BitPos    [][2]int       `json:"bitpos"`
	GadgetExp []int          `json:"gadgetexp"`
	Sizes     map[string]int `json:"sizes"`
}

type Failure struct {
	Class    string   `json:"class"` // panic | wrong-product | wrong-pad | relation | honest-error | wrong-side
	Site     string   `json:"site"`
	Case     Case     `json:"case"`
	Run      int      `json:"run"`
	Observed []string `json:"observed"`
	What     string   `json:"what"`
	Detail   string   `json:"detail"`
}

type Divergence struct {
	Case     Case     `json:"case"`
	Observed []string `json:"observed"`
	Detail   string   `json:"detail"`
}

type Result struct {
	Cases       int            `json:"cases"`
	Runs        int            `json:"runs"`
	Relations   int            `json:"relation_checks"`
	Reached     int            `json:"reached"`
	NoOps       int            `json:"noop_alterations"`
	ByLayer     map[string]int `json:"by_layer"`
	ByOutcome   map[string]int `json:"by_outcome"`
	Failures    []Failure      `json:"failures"`
	Divergences []Divergence   `json:"divergences"`
	Samples     []interface{}  `json:"samples"`
}

// ---------------------------------------------------------------------------------------------
// independent arithmetic

var group = curve.Secp256k1{}

// order of secp256k1, written out (not taken from the library)
var qOrder, _ = new(big.Int).SetString("FFFFFFFFFFFFFFFFFFFFFFFFFFFFFFFEBAAEDCE6AF48A03BBFD25E8CD0364141", 16)

var tab Tables

// bitOf addresses bit i of a byte vector through the table printed by OTAlg.tla (BitPos).
func bitOf(data []byte, i int) uint {
	p := tab.BitPos[i]
	return uint(data[p[0]]>>uint(p[1])) & 1
}

func scalarFromBig(x *big.Int) curve.Scalar {
	return group.NewScalar().SetNat(new(saferith.Nat).SetBig(new(big.Int).Mod(x, qOrder), 256))
}

func bigOf(s curve.Scalar) *big.Int {
	b, err := s.MarshalBinary()
	if err != nil {
		panic(err)
	}
	return new(big.Int).SetBytes(b)
}

func modq(x *big.Int) *big.Int { return new(big.Int).Mod(x, qOrder) }

// polyOf reads a byte vector as a polynomial over GF(2): bit i (table order) is the coefficient of x^i.
func polyOf(data []byte, nbits int) *big.Int {
	p := new(big.Int)
	for i := 0; i < nbits; i++ {
		if bitOf(data, i) == 1 {
			p.SetBit(p, i, 1)
		}
	}
	return p
}

// clmul is the textbook carry-less product in GF(2)[x] (no reduction).
func clmul(a, b *big.Int) *big.Int {
	r := new(big.Int)
	for i := 0; i < a.BitLen(); i++ {
		if a.Bit(i) == 1 {
			r.Xor(r, new(big.Int).Lsh(b, uint(i)))
		}
	}
	return r
}

// ---------------------------------------------------------------------------------------------
// deterministic randomness

type detReader struct{ d io.Reader }

func (r *detReader) Read(p []byte) (int, error) { return io.ReadFull(r.d, p) }

func newDet(seed int64, label ...string) *detReader {
	h := blake3.New()
	var sb [8]byte
	binary.BigEndian.PutUint64(sb[:], uint64(seed))
	_, _ = h.Write(sb[:])
	for _, l := range label {
		_, _ = h.Write([]byte{0})
		_, _ = h.Write([]byte(l))
	}
	return &detReader{d: h.Digest()}
}

type rng struct{ r io.Reader }

func (g rng) bytes(n int) []byte {
	b := make([]byte, n)
	_, _ = io.ReadFull(g.r, b)
	return b
}
func (g rng) intn(n int) int {
	if n <= 0 {
		return 0
	}
	b := g.bytes(8)
	return int(binary.BigEndian.Uint64(b) % uint64(n))
}

// ---------------------------------------------------------------------------------------------
// panics

type panicInfo struct {
	site string
	val  string
}

// guard runs f and turns a panic inside the library into a value; site = innermost internal/ot frame.
func guard(f func()) (pi *panicInfo) {
	defer func() {
		if r := recover(); r != nil {
			pcs := make([]uintptr, 64)
			n := runtime.Callers(2, pcs)
			frames := runtime.CallersFrames(pcs[:n])
			site := "?"
			for {
				fr, more := frames.Next()
				if strings.Contains(fr.Function, "/internal/ot.") {
					site = fr.Function[strings.Index(fr.Function, "/internal/ot.")+len("/internal/ot."):]
					site = strings.NewReplacer("(*", "", ")", "").Replace(site)
					break
				}
				if !more {
					break
				}
			}
			pi = &panicInfo{site: site, val: fmt.Sprint(r)}
		}
	}()
	f()
	return nil
}

// ---------------------------------------------------------------------------------------------
// scalar lattice and choice patterns

func latticePoint(name string, g rng) *big.Int {
	switch name {
	case "zero":
		return big.NewInt(0)
	case "one":
		return big.NewInt(1)
	case "two":
		return big.NewInt(2)
	case "qm1":
		return new(big.Int).Sub(qOrder, big.NewInt(1))
	case "qm2":
		return new(big.Int).Sub(qOrder, big.NewInt(2))
	case "half":
		return new(big.Int).Rsh(new(big.Int).Sub(qOrder, big.NewInt(1)), 1)
	case "rand":
		return modq(new(big.Int).SetBytes(g.bytes(40)))
	}
	panic("unknown lattice point " + name)
}

// lastBuf is the allocation the most recent choice vector was carved from: the vector is a sub-slice with spare
// capacity followed by a canary, as a caller holding a row of a larger choice matrix would pass it.
var lastBuf []byte

const canaryByte = 0xC3

func canaryIntact(n int) bool {
	for _, b := range lastBuf[n:] {
		if b != canaryByte {
			return false
		}
	}
	return true
}

func pattern(name string, nbytes int, g rng) []byte {
	lastBuf = make([]byte, nbytes+96)
	for i := nbytes; i < len(lastBuf); i++ {
		lastBuf[i] = canaryByte
	}
	out := lastBuf[:nbytes]
	switch name {
	case "zeros":
	case "ones":
		for i := range out {
			out[i] = 0xff
		}
	case "alt":
		for i := range out {
			out[i] = 0xaa
		}
	case "unit": // a single one, at a position that is not symmetric under any byte / bit reversal
		i := 8*(nbytes/3) + 1
		if i >= 8*nbytes {
			i = 1
		}
		out[i/8] = 1 << uint(i%8)
	case "rand", "tiny":
		copy(out, g.bytes(nbytes))
	default:
		panic("unknown pattern " + name)
	}
	return out
}

func patternLen(c Case, run int) int {
	if c.Pat == "tiny" {
		return 2 // fewer than 32 transfers
	}
	switch c.Layer {
	case "cot":
		return []int{16, 8, 40}[(run-1)%3]
	case "eot":
		return []int{16, 11, 32}[(run-1)%3]
	default: // aot
		return []int{11, 16, 6}[(run-1)%3]
	}
}

// ---------------------------------------------------------------------------------------------
// setups (shared over the cases of a process: "repeated use of one setup")

type setupPair struct {
	s *ot.CorreOTSendSetup
	r *ot.CorreOTReceiveSetup
}

func honestSetup(seed int64, label string) (setupPair, error) {
	rand.Reader = newDet(seed, "setup", label)
	h := hash.New()
	_ = h.WriteAny([]byte("C13 setup " + label))
	s := ot.NewCorreOTSetupSender(nil, h.Clone())
	r := ot.NewCorreOTSetupReceiver(nil, h.Clone(), group)
	m0 := r.Round1()
	m1, err := s.Round1(m0)
	if err != nil {
		return setupPair{}, err
	}
	m2, err := r.Round2(m1)
	if err != nil {
		return setupPair{}, err
	}
	m3 := s.Round2(m2)
	m4, rs, err := r.Round3(m3)
	if err != nil {
		return setupPair{}, err
	}
	ss, err := s.Round3(m4)
	if err != nil {
		return setupPair{}, err
	}
	return setupPair{ss, rs}, nil
}

func arr16(v interface{}) [16]byte { return v.([16]byte) }

func deltaOf(ss interface{}) []byte {
	d := arr16(protos.Field(ss, "_Delta"))
	return d[:]
}

// setupRelation: K_Delta[i] is the pad the chosen bit selects, for every i (read through unexported fields).
func setupRelation(sp setupPair) string {
	delta := deltaOf(sp.s)
	kd := protos.Field(sp.s, "_K_Delta").([128][16]byte)
	k0 := protos.Field(sp.r, "_K_0").([128][16]byte)
	k1 := protos.Field(sp.r, "_K_1").([128][16]byte)
	for i := 0; i < 128; i++ {
		want := k0[i]
		if bitOf(delta, i) == 1 {
			want = k1[i]
		}
		if kd[i] != want {
			return fmt.Sprintf("K_Delta[%d] is not the pad selected by bit %d of Delta", i, i)
		}
		if k0[i] == k1[i] {
			return fmt.Sprintf("K_0[%d] == K_1[%d]", i, i)
		}
	}
	return ""
}

// ---------------------------------------------------------------------------------------------

type runner struct {
	seed    int64
	setups  []setupPair
	res     *Result
	sampled map[string]bool
}

type runOut struct {
	outcome string // ok | wrong | errS | errR | panic
	site    string
	detail  string
	noop    bool
}

func ctxHash(nonce []byte) *hash.Hash {
	h := hash.New()
	_ = h.WriteAny(nonce)
	return h
}

func flipBit(b []byte, g rng) {
	if len(b) == 0 {
		return
	}
	i := g.intn(8 * len(b))
	b[i/8] ^= 1 << uint(i%8)
}

// alterBytes applies an alteration kind to a variable-length byte field; other = same field elsewhere
// (another index for copyidx, another run for copyrun).
func alterBytes(cur []byte, kind string, otherIdx, otherRun []byte, g rng) []byte {
	out := append([]byte{}, cur...)
	switch kind {
	case "flip":
		flipBit(out, g)
	case "zero":
		for i := range out {
			out[i] = 0
		}
	case "copyidx":
		out = append([]byte{}, otherIdx...)
	case "copyrun":
		out = append([]byte{}, otherRun...)
	case "trunc":
		out = out[:len(out)-1]
	case "ext":
		out = append(out, 0)
	default:
		panic("alterBytes: kind " + kind)
	}
	return out
}

func alterScalar(cur curve.Scalar, kind string, otherIdx, otherRun curve.Scalar) curve.Scalar {
	switch kind {
	case "flip":
		return scalarFromBig(new(big.Int).Xor(bigOf(cur), big.NewInt(1)))
	case "zero":
		return group.NewScalar()
	case "copyidx":
		return group.NewScalar().Set(otherIdx)
	case "copyrun":
		return group.NewScalar().Set(otherRun)
	}
	panic("alterScalar: kind " + kind)
}

func alterPoint(cur curve.Point, kind string, otherRun curve.Point) curve.Point {
	switch kind {
	case "flip":
		return cur.Negate()
	case "zero":
		return group.NewPoint()
	case "copyrun":
		return otherRun
	}
	panic("alterPoint: kind " + kind)
}

// ---------------------------------------------------------------------------------------------
// layer "mul"

type mulRun struct {
	sender   *ot.MultiplySender
	receiver *ot.MultiplyReceiver
	m1       *ot.MultiplyReceiveRound1Message
}

func (rn *runner) mulStart(sp setupPair, nonce []byte, alpha, beta curve.Scalar) (mr mulRun, err error) {
	h := ctxHash(nonce)
	mr.sender = ot.NewMultiplySender(h.Clone(), sp.s, alpha)
	mr.receiver, err = ot.NewMultiplyReceiver(h.Clone(), sp.r, beta)
	if err != nil {
		return
	}
	mr.m1 = mr.receiver.Round1()
	return
}

func copyM2(m *ot.MultiplySendRound1Message) *ot.MultiplySendRound1Message {
	out := &ot.MultiplySendRound1Message{Msg: &ot.AdditiveOTSendRound1Message{}}
	out.Msg.CombinedPads = make([][2][]byte, len(m.Msg.CombinedPads))
	for i := range m.Msg.CombinedPads {
		out.Msg.CombinedPads[i][0] = append([]byte{}, m.Msg.CombinedPads[i][0]...)
		out.Msg.CombinedPads[i][1] = append([]byte{}, m.Msg.CombinedPads[i][1]...)
	}
	out.RCheck = make([]curve.Scalar, len(m.RCheck))
	for i := range m.RCheck {
		out.RCheck[i] = group.NewScalar().Set(m.RCheck[i])
	}
	out.UCheck = group.NewScalar().Set(m.UCheck)
	return out
}

// gadgetRelation checks, with math/big and the GadgetExp / BitPos tables of OTAlg.tla, that the receiver's
// choice bits decode to beta under the gadget and that the first part of the gadget is the powers of two.
func gadgetRelation(recv *ot.MultiplyReceiver, beta *big.Int) string {
	gad, ok1 := protos.Field(recv, "gadget").([]curve.Scalar)
	choices, ok2 := protos.Field(recv, "choices").([]byte)
	if !ok1 || !ok2 {
		return "cannot read gadget / choices"
	}
	if len(gad) != tab.Sizes["len"] || 8*len(choices) != len(gad) {
		return fmt.Sprintf("gadget has %d elements, choices %d bits, the specification says %d", len(gad), 8*len(choices), tab.Sizes["len"])
	}
	sum := new(big.Int)
	for i := range gad {
		gi := bigOf(gad[i])
		if i < len(tab.GadgetExp) {
			want := new(big.Int).Exp(big.NewInt(2), big.NewInt(int64(tab.GadgetExp[i])), qOrder)
			if gi.Cmp(want) != 0 {
				return fmt.Sprintf("gadget[%d] is not 2^%d mod q", i, tab.GadgetExp[i])
			}
		}
		if bitOf(choices, i) == 1 {
			sum.Add(sum, gi)
		}
	}
	if modq(sum).Cmp(beta) != 0 {
		return "sum of gadget_i * choice_i is not beta"
	}
	return ""
}

func (rn *runner) pickSlot(recv *ot.MultiplyReceiver, slot string, sel int, g rng) int {
	choices := protos.Field(recv, "choices").([]byte)
	npow := tab.Sizes["npow"]
	lo, hi := 0, npow
	if slot[0] == 'n' {
		lo, hi = npow, 8*len(choices)
	}
	want := uint(slot[1] - '0')
	var cand []int
	for i := lo; i < hi; i++ {
		if bitOf(choices, i) == want {
			cand = append(cand, i)
		}
	}
	if len(cand) == 0 {
		return -1
	}
	return pickOf(cand, sel, g)
}

// pickOf: boundaries matter - the first candidate, the last one, the one at / next to index 32, or a random
// one, spread over the cases by a hash of the case coordinates so that every (field, kind) meets all of them.
func pickOf(cand []int, sel int, g rng) int {
	switch sel % 4 {
	case 0:
		return cand[0]
	case 1:
		return cand[len(cand)-1]
	case 2: // the candidate nearest to index 32 (= byte length of a scalar) above the first one
		best := cand[0]
		for _, x := range cand {
			if abs(x-(cand[0]/256*256+32)) < abs(best-(cand[0]/256*256+32)) {
				best = x
			}
		}
		return best
	}
	return cand[g.intn(len(cand))]
}

func abs(x int) int {
	if x < 0 {
		return -x
	}
	return x
}

// selOf spreads the index selections over the cases independently of the seed.
func selOf(c Case) int {
	h := uint32(2166136261)
	for _, b := range []byte(c.key()) {
		h = (h ^ uint32(b)) * 16777619
	}
	return int(h>>8) & 0xffff
}

func pickCol(delta []byte, want uint, sel int, g rng) int {
	var cand []int
	for i := 0; i < 128; i++ {
		if bitOf(delta, i) == want {
			cand = append(cand, i)
		}
	}
	if len(cand) == 0 {
		return -1
	}
	return pickOf(cand, sel, g)
}

func otherIndex(i, n int, g rng) int {
	j := g.intn(n - 1)
	if j >= i {
		j++
	}
	return j
}

func (rn *runner) mulRunOnce(c Case, run int, sp setupPair, alphaB, betaB *big.Int, g rng) (ro runOut) {
	alpha, beta := scalarFromBig(alphaB), scalarFromBig(betaB)
	nonce := g.bytes(32)
	tampered := c.Tr == run
	var mr, aux mulRun
	var err error
	var auxM2 *ot.MultiplySendRound1Message
	if pi := guard(func() {
		mr, err = rn.mulStart(sp, nonce, alpha, beta)
		if err == nil && tampered {
			aux, err = rn.mulStart(sp, g.bytes(32), alpha, beta) // another run over the same setup, other nonce
		}
	}); pi != nil {
		return runOut{outcome: "panic", site: pi.site, detail: pi.val}
	}
	if err != nil {
		return runOut{outcome: "errR", detail: "NewMultiplyReceiver: " + err.Error()}
	}
	if !tampered {
		if why := gadgetRelation(mr.receiver, betaB); why != "" {
			return runOut{outcome: "wrong", site: "encode/makeGadget", detail: why}
		}
		rn.res.Relations++
	}
	// ---- adversary on M1
	if tampered && c.M == "M1" {
		em := mr.m1.Msg.Msg
		am := aux.m1.Msg.Msg
		switch c.F {
		case "U":
			col := pickCol(deltaOf(sp.s), uint(c.Idx[1]-'0'), selOf(c), g)
			if col < 0 {
				return runOut{outcome: "ok", noop: true, detail: "no such column"}
			}
			before := em.CorreMsg.U[col]
			oc := otherIndex(col, 128, g)
			em.CorreMsg.U[col] = alterBytes(before, c.Kind, em.CorreMsg.U[oc], am.CorreMsg.U[col], g)
			ro.noop = bytes.Equal(before, em.CorreMsg.U[col])
			ro.detail = fmt.Sprintf("U[%d]", col)
		case "X":
			before := em.X
			switch c.Kind {
			case "flip":
				flipBit(em.X[:], g)
			case "zero":
				em.X = [16]byte{}
			case "copyrun":
				em.X = am.X
			}
			ro.noop = before == em.X
		case "T":
			before := em.T
			switch c.Kind {
			case "flip":
				i := g.intn(256)
				em.T[i/64] ^= 1 << uint(i%64)
			case "zero":
				for i := range em.T {
					em.T[i] = 0
				}
			case "copyrun":
				em.T = am.T
			}
			ro.noop = before == em.T
		case "ALL":
			mr.m1 = aux.m1
		}
	}
	// ---- Sender.Round1
	var m2 *ot.MultiplySendRound1Message
	var shareA curve.Scalar
	if pi := guard(func() { m2, shareA, err = mr.sender.Round1(mr.m1) }); pi != nil {
		return runOut{outcome: "panic", site: pi.site, detail: pi.val, noop: ro.noop}
	}
	if err != nil {
		return runOut{outcome: "errS", detail: ro.detail + " " + err.Error(), noop: ro.noop}
	}
	// ---- adversary on M2
	if tampered && c.M == "M2" {
		if pi := guard(func() { auxM2, _, err = aux.sender.Round1(aux.m1) }); pi != nil || err != nil {
			return runOut{outcome: "panic", site: "aux", detail: "auxiliary honest run failed"}
		}
		auxM2 = copyM2(auxM2)
		nb := len(m2.Msg.CombinedPads)
		switch c.F {
		case "pad":
			i := rn.pickSlot(mr.receiver, c.Idx, selOf(c), g)
			if i < 0 {
				return runOut{outcome: "ok", noop: true, detail: "no such index"}
			}
			k := c.Comp - 1
			before := m2.Msg.CombinedPads[i][k]
			oi := otherIndex(i, nb, g)
			m2.Msg.CombinedPads[i][k] = alterBytes(before, c.Kind, m2.Msg.CombinedPads[oi][k], auxM2.Msg.CombinedPads[i][k], g)
			ro.noop = bytes.Equal(before, m2.Msg.CombinedPads[i][k])
			ro.detail = fmt.Sprintf("CombinedPads[%d][%d]", i, k)
		case "padlist":
			if c.Kind == "trunc" {
				m2.Msg.CombinedPads = m2.Msg.CombinedPads[:nb-1-g.intn(2)*(nb/2)]
			} else {
				m2.Msg.CombinedPads = append(m2.Msg.CombinedPads, auxM2.Msg.CombinedPads[0])
			}
			ro.detail = fmt.Sprintf("len(CombinedPads)=%d", len(m2.Msg.CombinedPads))
		case "rcheck":
			i := rn.pickSlot(mr.receiver, c.Idx, selOf(c), g)
			if i < 0 {
				return runOut{outcome: "ok", noop: true, detail: "no such index"}
			}
			before := m2.RCheck[i]
			oi := otherIndex(i, nb, g)
			m2.RCheck[i] = alterScalar(before, c.Kind, m2.RCheck[oi], auxM2.RCheck[i])
			ro.noop = before.Equal(m2.RCheck[i])
			ro.detail = fmt.Sprintf("RCheck[%d]", i)
		case "rlist":
			if c.Kind == "trunc" {
				m2.RCheck = m2.RCheck[:len(m2.RCheck)-1-g.intn(2)*(nb/2)]
			} else {
				m2.RCheck = append(m2.RCheck, auxM2.RCheck[0])
			}
			ro.detail = fmt.Sprintf("len(RCheck)=%d", len(m2.RCheck))
		case "ucheck":
			before := m2.UCheck
			m2.UCheck = alterScalar(before, c.Kind, nil, auxM2.UCheck)
			ro.noop = before.Equal(m2.UCheck)
		case "ALL":
			m2 = auxM2
		}
	}
	// ---- Receiver.Round2
	var shareB curve.Scalar
	if pi := guard(func() { shareB, err = mr.receiver.Round2(m2) }); pi != nil {
		return runOut{outcome: "panic", site: pi.site, detail: ro.detail + " " + pi.val, noop: ro.noop}
	}
	if err != nil {
		return runOut{outcome: "errR", detail: ro.detail + " " + err.Error(), noop: ro.noop}
	}
	sum := modq(new(big.Int).Add(bigOf(shareA), bigOf(shareB)))
	prod := modq(new(big.Int).Mul(alphaB, betaB))
	rn.res.Relations++
	if sum.Cmp(prod) != 0 {
		return runOut{outcome: "wrong", site: "Multiply", noop: ro.noop,
			detail: fmt.Sprintf("%s shareA+shareB=%x alpha*beta=%x", ro.detail, sum, prod)}
	}
	ro.outcome = "ok"
	return ro
}

// ---------------------------------------------------------------------------------------------
// layers "cot", "eot", "aot" (relations, untampered)

func fieldT(m *ot.ExtendedOTReceiveMessage) *big.Int {
	rv := reflect.ValueOf(m.T)
	v := new(big.Int)
	for i := rv.Len() - 1; i >= 0; i-- {
		v.Lsh(v, 64)
		v.Or(v, new(big.Int).SetUint64(rv.Index(i).Uint()))
	}
	return v
}

func prgKeyOf(h *hash.Hash) []byte {
	k := make([]byte, 32)
	_, _ = h.Fork(&hash.BytesWithDomain{TheDomain: "CorreOT PRG Key", Bytes: nil}).Digest().Read(k)
	return k
}

func expand(key, seed []byte, n int) []byte {
	p, _ := blake3.NewKeyed(key)
	_, _ = p.Write(seed)
	out := make([]byte, n)
	_, _ = p.Digest().Read(out)
	return out
}

// cotRelation: q_j = t_j xor c_j*Delta for every j, and T/U are exactly the (transposed) PRG expansions.
func cotRelation(sp setupPair, h *hash.Hash, choices []byte, msg *ot.CorreOTReceiveMessage, sres *ot.CorreOTSendResult, rres *ot.CorreOTReceiveResult) string {
	batch := 8 * len(choices)
	delta := deltaOf(sp.s)
	Q := protos.Field(sres, "_Q").([][16]byte)
	T := protos.Field(rres, "_T").([][16]byte)
	if len(Q) != batch || len(T) != batch {
		return fmt.Sprintf("len(Q)=%d len(T)=%d batch=%d", len(Q), len(T), batch)
	}
	for j := 0; j < batch; j++ {
		cj := bitOf(choices, j)
		for i := 0; i < 128; i++ {
			if bitOf(Q[j][:], i) != bitOf(T[j][:], i)^(cj&bitOf(delta, i)) {
				return fmt.Sprintf("q_%d != t_%d xor c_%d*Delta at bit %d", j, j, j, i)
			}
		}
	}
	k0 := protos.Field(sp.r, "_K_0").([128][16]byte)
	k1 := protos.Field(sp.r, "_K_1").([128][16]byte)
	key := prgKeyOf(h)
	for i := 0; i < 128; i++ {
		t0 := expand(key, k0[i][:], len(choices))
		t1 := expand(key, k1[i][:], len(choices))
		for j := 0; j < batch; j++ {
			if bitOf(T[j][:], i) != bitOf(t0, j) {
				return fmt.Sprintf("T row %d bit %d is not bit %d of column %d (transpose)", j, i, j, i)
			}
		}
		for b := range t0 {
			if msg.U[i][b] != t0[b]^t1[b]^choices[b] {
				return fmt.Sprintf("U[%d][%d] != T0 xor T1 xor choices", i, b)
			}
		}
	}
	return ""
}

func (rn *runner) relRunOnce(c Case, run int, sp setupPair, g rng) (ro runOut) {
	nonce := g.bytes(32)
	h := ctxHash(nonce)
	choices := pattern(c.Pat, patternLen(c, run), g)
	want := append([]byte(nil), choices...)
	defer func() {
		// the library must treat the caller's choice vector as read-only and must not write behind it
		if !canaryIntact(len(want)) || string(choices) != string(want) {
			ro = runOut{outcome: "wrong", site: "caller-memory", detail: "the OT layer wrote into the caller's choice buffer (or the memory right behind it)"}
		}
	}()
	batch := 8 * len(choices)
	var err error
	switch c.Layer {
	case "cot":
		var msg *ot.CorreOTReceiveMessage
		var rres *ot.CorreOTReceiveResult
		var sres *ot.CorreOTSendResult
		if pi := guard(func() {
			msg, rres = ot.CorreOTReceive(h.Clone(), sp.r, choices)
			sres, err = ot.CorreOTSend(h.Clone(), sp.s, batch, msg)
		}); pi != nil {
			return runOut{outcome: "panic", site: pi.site, detail: pi.val}
		}
		if err != nil {
			return runOut{outcome: "errS", detail: err.Error()}
		}
		rn.res.Relations++
		if why := cotRelation(sp, h, choices, msg, sres, rres); why != "" {
			return runOut{outcome: "wrong", site: "CorreOT", detail: why}
		}
	case "eot":
		var msg *ot.ExtendedOTReceiveMessage
		var rres *ot.ExtendedOTReceiveResult
		var sres *ot.ExtendedOTSendResult
		if pi := guard(func() {
			msg, rres = ot.ExtendedOTReceive(h.Clone(), sp.r, choices)
			sres, err = ot.ExtendedOTSend(h.Clone(), sp.s, batch, msg)
		}); pi != nil {
			return runOut{outcome: "panic", site: pi.site, detail: pi.val}
		}
		if err != nil {
			return runOut{outcome: "errS", detail: err.Error()}
		}
		V0 := protos.Field(sres, "_V0").([][16]byte)
		V1 := protos.Field(sres, "_V1").([][16]byte)
		VC := protos.Field(rres, "_VChoices").([][16]byte)
		rn.res.Relations++
		if len(V0) != batch || len(V1) != batch || len(VC) != batch {
			return runOut{outcome: "wrong", site: "ExtendedOT", detail: "wrong number of outputs"}
		}
		for j := 0; j < batch; j++ {
			want := V0[j]
			if bitOf(choices, j) == 1 {
				want = V1[j]
			}
			if VC[j] != want || V0[j] == V1[j] {
				return runOut{outcome: "wrong", site: "ExtendedOT", detail: fmt.Sprintf("output %d does not match choice bit", j)}
			}
		}
		// the consistency check recomputed in GF(2)[x] with math/big: sum q_j*chi_j + X*Delta = T
		var cres *ot.CorreOTSendResult
		hh := h.Clone()
		if pi := guard(func() { cres, err = ot.CorreOTSend(hh, sp.s, batch+128+80, msg.CorreMsg) }); pi != nil || err != nil {
			return runOut{outcome: "wrong", site: "CorreOTSend", detail: "cannot recompute the Q rows"}
		}
		Q := protos.Field(cres, "_Q").([][16]byte)
		for i := 0; i < 128; i++ {
			_ = hh.WriteAny(msg.CorreMsg.U[i])
		}
		dg := hh.Digest()
		acc := new(big.Int)
		chi := make([]byte, 16)
		for j := 0; j < len(Q); j++ {
			_, _ = dg.Read(chi)
			acc.Xor(acc, clmul(polyOf(Q[j][:], 128), polyOf(chi, 128)))
		}
		acc.Xor(acc, clmul(polyOf(msg.X[:], 128), polyOf(deltaOf(sp.s), 128)))
		rn.res.Relations++
		if acc.Cmp(fieldT(msg)) != 0 {
			return runOut{outcome: "wrong", site: "accumulate", detail: "sum q_j*chi_j + X*Delta != T over GF(2)[x] (math/big)"}
		}
	case "aot":
		gA := latticePoint(c.A, g)
		gB := latticePoint(c.B, g)
		al := [2]curve.Scalar{scalarFromBig(gA), scalarFromBig(gB)}
		alB := [2]*big.Int{gA, gB}
		var sres ot.AdditiveOTSendResult
		var rres ot.AdditiveOTReceiveResult
		stage := "S"
		if pi := guard(func() {
			snd := ot.NewAdditiveOTSender(h.Clone(), sp.s, batch, al)
			rcv := ot.NewAdditiveOTReceiver(h.Clone(), sp.r, group, append([]byte{}, choices...))
			m1 := rcv.Round1()
			var m2 *ot.AdditiveOTSendRound1Message
			m2, sres, err = snd.Round1(m1)
			if err != nil {
				return
			}
			stage = "R"
			rres, err = rcv.Round2(m2)
		}); pi != nil {
			return runOut{outcome: "panic", site: pi.site, detail: fmt.Sprintf("batch=%d %s", batch, pi.val)}
		}
		if err != nil {
			return runOut{outcome: "err" + stage, detail: err.Error()}
		}
		rn.res.Relations++
		if len(sres) != batch || len(rres) != batch {
			return runOut{outcome: "wrong", site: "AdditiveOT", detail: "wrong number of outputs"}
		}
		for i := 0; i < batch; i++ {
			for k := 0; k < 2; k++ {
				lhs := modq(new(big.Int).Add(bigOf(sres[i][k]), bigOf(rres[i][k])))
				rhs := new(big.Int)
				if bitOf(choices, i) == 1 {
					rhs = modq(alB[k])
				}
				if lhs.Cmp(rhs) != 0 {
					return runOut{outcome: "wrong", site: "AdditiveOT", detail: fmt.Sprintf("recv+pad != c*alpha at index %d component %d", i, k)}
				}
			}
		}
	}
	return runOut{outcome: "ok"}
}

// ---------------------------------------------------------------------------------------------
// layer "rot" (driven directly) and "setup" (the same flow inside CorreOTSetup)

type rotAux struct {
	a    []byte
	chal [16]byte
	resp [16]byte
	d0   [16]byte
	d1   [16]byte
}

func rotHonest(nonce []byte, ss *ot.RandomOTSendSetup, rs *ot.RandomOTReceiveSetup, ch int) (aux rotAux, err error) {
	r := ot.NewRandomOTReceiver(nonce, rs, saferith.Choice(ch))
	s := ot.NewRandomOTSender(nonce, ss)
	m1, err := r.Round1()
	if err != nil {
		return
	}
	m2, err := s.Round1(&m1)
	if err != nil {
		return
	}
	m3 := r.Round2(&m2)
	m4, _, err := s.Round2(&m3)
	if err != nil {
		return
	}
	return rotAux{a: m1.ABytes, chal: m2.Challenge, resp: m3.Response, d0: m4.Decommit0, d1: m4.Decommit1}, nil
}

func alter16(cur [16]byte, kind string, other [16]byte, g rng) [16]byte {
	switch kind {
	case "flip":
		flipBit(cur[:], g)
		return cur
	case "zero":
		return [16]byte{}
	case "copyrun":
		return other
	}
	panic("alter16: kind " + kind)
}

func alterA(cur []byte, kind string, other []byte, g rng) []byte {
	out := append([]byte{}, cur...)
	switch kind {
	case "flip": // the sign bit of the compressed encoding: -A, always a valid point
		out[0] ^= 1
	case "flipx":
		i := 8 + g.intn(8*(len(out)-1))
		out[i/8] ^= 1 << uint(i%8)
	case "zero":
		for i := range out {
			out[i] = 0
		}
	case "copyrun":
		out = append([]byte{}, other...)
	case "trunc":
		out = out[:len(out)-1]
	case "ext":
		out = append(out, 0)
	default:
		panic("alterA: kind " + kind)
	}
	return out
}

func (rn *runner) rotRunOnce(c Case, run int, ss *ot.RandomOTSendSetup, rs *ot.RandomOTReceiveSetup, g rng) (ro runOut) {
	nonce := g.bytes(32)
	tampered := c.Tr == run
	var aux rotAux
	var err error
	if tampered {
		if aux, err = rotHonest(g.bytes(32), ss, rs, c.Ch); err != nil {
			return runOut{outcome: "panic", site: "aux", detail: err.Error()}
		}
	}
	var pad [16]byte
	var sres ot.RandomOTSendResult
	stage := ""
	pi := guard(func() {
		r := ot.NewRandomOTReceiver(nonce, rs, saferith.Choice(c.Ch))
		s := ot.NewRandomOTSender(nonce, ss)
		var m1 ot.RandomOTReceiveRound1Message
		if m1, err = r.Round1(); err != nil {
			stage = "errR"
			return
		}
		if tampered && c.M == "A" {
			before := m1.ABytes
			m1.ABytes = alterA(before, c.Kind, aux.a, g)
			ro.noop = bytes.Equal(before, m1.ABytes)
		}
		var m2 ot.RandomOTSendRound1Message
		if m2, err = s.Round1(&m1); err != nil {
			stage = "errS"
			return
		}
		if tampered && c.M == "Ch" {
			m2.Challenge = alter16(m2.Challenge, c.Kind, aux.chal, g)
		}
		m3 := r.Round2(&m2)
		if tampered && c.M == "Rs" {
			m3.Response = alter16(m3.Response, c.Kind, aux.resp, g)
		}
		var m4 ot.RandomOTSendRound2Message
		if m4, sres, err = s.Round2(&m3); err != nil {
			stage = "errS"
			return
		}
		if tampered && c.M == "De" {
			switch {
			case c.Kind == "swap":
				m4.Decommit0, m4.Decommit1 = m4.Decommit1, m4.Decommit0
			case c.Comp == 1:
				m4.Decommit0 = alter16(m4.Decommit0, c.Kind, aux.d0, g)
			default:
				m4.Decommit1 = alter16(m4.Decommit1, c.Kind, aux.d1, g)
			}
		}
		if pad, err = r.Round3(&m4); err != nil {
			stage = "errR"
			return
		}
	})
	if pi != nil {
		return runOut{outcome: "panic", site: pi.site, detail: pi.val}
	}
	if stage != "" {
		return runOut{outcome: stage, detail: err.Error(), noop: ro.noop}
	}
	want := sres.Rand0
	if c.Ch == 1 {
		want = sres.Rand1
	}
	rn.res.Relations++
	if pad != want || sres.Rand0 == sres.Rand1 {
		return runOut{outcome: "wrong", site: "RandomOT", noop: ro.noop, detail: "the receiver's pad is not the sender's pad for the chosen bit"}
	}
	ro.outcome = "ok"
	return ro
}

func (rn *runner) setupRunOnce(c Case, g rng) (ro runOut) {
	h := hash.New()
	_ = h.WriteAny(g.bytes(16))
	tampered := c.Tr == 1
	// auxiliary honest setup with other randomness (source of copyrun)
	var auxM0 *ot.CorreOTSetupReceiveRound1Message
	var auxR rotAux
	if tampered {
		ar := ot.NewCorreOTSetupReceiver(nil, h.Clone(), group)
		as := ot.NewCorreOTSetupSender(nil, h.Clone())
		auxM0 = ar.Round1()
		am1, err := as.Round1(auxM0)
		if err != nil {
			return runOut{outcome: "panic", site: "aux", detail: err.Error()}
		}
		am2, err := ar.Round2(am1)
		if err != nil {
			return runOut{outcome: "panic", site: "aux", detail: err.Error()}
		}
		am3 := as.Round2(am2)
		am4, _, err := ar.Round3(am3)
		if err != nil {
			return runOut{outcome: "panic", site: "aux", detail: err.Error()}
		}
		auxR = rotAux{a: am1.Msgs[0].ABytes, chal: am2.Msgs[0].Challenge, resp: am3.Msgs[0].Response, d0: am4.Msgs[0].Decommit0, d1: am4.Msgs[0].Decommit1}
	}
	var err error
	stage := ""
	var sp setupPair
	pi := guard(func() {
		r := ot.NewCorreOTSetupReceiver(nil, h.Clone(), group) // random-OT sender  "S"
		s := ot.NewCorreOTSetupSender(nil, h.Clone())          // random-OT receiver "R"
		m0 := r.Round1()
		if tampered && c.M == "M0" {
			switch c.F {
			case "B":
				m0.Msg.B = alterPoint(m0.Msg.B, c.Kind, auxM0.Msg.B)
			case "ProofC":
				m0.Msg.BProof.C.C = alterPoint(m0.Msg.BProof.C.C, c.Kind, auxM0.Msg.BProof.C.C)
			case "ProofZ":
				m0.Msg.BProof.Z.Z = alterScalar(m0.Msg.BProof.Z.Z, c.Kind, nil, auxM0.Msg.BProof.Z.Z)
			}
		}
		var m1 *ot.CorreOTSetupSendRound1Message
		if m1, err = s.Round1(m0); err != nil {
			stage = "errR"
			return
		}
		d := arr16(protos.Field(s, "_Delta"))
		i := pickCol(d[:], uint(c.Ch), selOf(c), g)
		if i < 0 {
			i = 0
		}
		ro.detail = fmt.Sprintf("index %d", i)
		if tampered && c.M == "A" {
			m1.Msgs[i].ABytes = alterA(m1.Msgs[i].ABytes, c.Kind, auxR.a, g)
		}
		var m2 *ot.CorreOTSetupReceiveRound2Message
		if m2, err = r.Round2(m1); err != nil {
			stage = "errS"
			return
		}
		if tampered && c.M == "Ch" {
			m2.Msgs[i].Challenge = alter16(m2.Msgs[i].Challenge, c.Kind, auxR.chal, g)
		}
		m3 := s.Round2(m2)
		if tampered && c.M == "Rs" {
			m3.Msgs[i].Response = alter16(m3.Msgs[i].Response, c.Kind, auxR.resp, g)
		}
		var m4 *ot.CorreOTSetupReceiveRound3Message
		if m4, sp.r, err = r.Round3(m3); err != nil {
			stage = "errS"
			return
		}
		if tampered && c.M == "De" {
			switch {
			case c.Kind == "swap":
				m4.Msgs[i].Decommit0, m4.Msgs[i].Decommit1 = m4.Msgs[i].Decommit1, m4.Msgs[i].Decommit0
			case c.Comp == 1:
				m4.Msgs[i].Decommit0 = alter16(m4.Msgs[i].Decommit0, c.Kind, auxR.d0, g)
			default:
				m4.Msgs[i].Decommit1 = alter16(m4.Msgs[i].Decommit1, c.Kind, auxR.d1, g)
			}
		}
		if sp.s, err = s.Round3(m4); err != nil {
			stage = "errR"
			return
		}
	})
	if pi != nil {
		return runOut{outcome: "panic", site: pi.site, detail: ro.detail + " " + pi.val}
	}
	if stage != "" {
		return runOut{outcome: stage, detail: ro.detail + " " + err.Error()}
	}
	rn.res.Relations++
	if why := setupRelation(sp); why != "" {
		return runOut{outcome: "wrong", site: "CorreOTSetup", detail: why}
	}
	ro.outcome = "ok"
	return ro
}

// ---------------------------------------------------------------------------------------------

func (rn *runner) runCase(c Case) {
	g := rng{newDet(rn.seed, "drv", c.key())}
	rand.Reader = newDet(rn.seed, "lib", c.key())
	sp := rn.setups[int(g.intn(len(rn.setups)))]
	var alphaB, betaB *big.Int
	var rss *ot.RandomOTSendSetup
	var rrs *ot.RandomOTReceiveSetup
	switch c.Layer {
	case "mul":
		alphaB, betaB = latticePoint(c.A, g), latticePoint(c.B, g)
	case "rot":
		h := hash.New()
		_ = h.WriteAny(g.bytes(16))
		var m *ot.RandomOTSetupSendMessage
		m, rss = ot.RandomOTSetupSend(h.Clone(), group)
		var err error
		if rrs, err = ot.RandomOTSetupReceive(h.Clone(), m); err != nil {
			rn.fail(c, 0, nil, "honest-error", "RandomOTSetupReceive", "an honest random-OT setup is refused", err.Error())
			return
		}
	}
	observed := make([]string, 0, c.N)
	noop := false
	var outs []runOut
	for run := 1; run <= c.N; run++ {
		var ro runOut
		switch c.Layer {
		case "mul":
			ro = rn.mulRunOnce(c, run, sp, alphaB, betaB, g)
		case "cot", "eot", "aot":
			ro = rn.relRunOnce(c, run, sp, g)
		case "rot":
			ro = rn.rotRunOnce(c, run, rss, rrs, g)
		case "setup":
			ro = rn.setupRunOnce(c, g)
		default:
			panic("unknown layer " + c.Layer)
		}
		rn.res.Runs++
		observed = append(observed, ro.outcome)
		outs = append(outs, ro)
		noop = noop || ro.noop
		rn.res.ByOutcome[c.Layer+"/"+ro.outcome]++
	}
	rn.res.Cases++
	rn.res.ByLayer[c.Layer]++
	if noop {
		rn.res.NoOps++ // the alteration did not change the value (negligible probability): nothing to conclude
		return
	}
	rn.res.Reached++
	bad := false
	for k, ro := range outs {
		run := k + 1
		switch {
		case ro.outcome == "panic":
			bad = true
			rn.fail(c, run, observed, "panic", ro.site, "a panic instead of an error or a result", ro.detail)
		case ro.outcome == "wrong":
			bad = true
			cl := "wrong-product"
			if c.Layer != "mul" {
				cl = "relation"
			}
			if c.Layer == "rot" || c.Layer == "setup" {
				cl = "wrong-pad"
			}
			rn.fail(c, run, observed, cl, ro.site, "both sides finished without error but the defining relation does not hold", ro.detail)
		case run != c.Tr && ro.outcome != "ok":
			bad = true
			rn.fail(c, run, observed, "honest-error", ro.outcome, "an untampered run over the shared setup ended in an error", ro.detail)
		case run == c.Tr && ro.outcome == otherSide(c.M):
			// the side that checks the altered message let it pass; only the peer failed later
			bad = true
			rn.fail(c, run, observed, "wrong-side", ro.outcome, "the altered message passed the side that checks it; the error came only from the other side", ro.detail)
		}
	}
	if !bad && !reflect.DeepEqual(observed, c.Expect) {
		d := ""
		for _, ro := range outs {
			d += ro.detail + "; "
		}
		rn.res.Divergences = append(rn.res.Divergences, Divergence{Case: c, Observed: observed, Detail: d})
	}
	sk := c.Layer + "/" + c.M + "/" + strings.Join(observed, ",")
	if !bad && !rn.sampled[sk] && len(rn.res.Samples) < 16 {
		rn.sampled[sk] = true
		d := ""
		for _, ro := range outs {
			d += ro.detail + "; "
		}
		rn.res.Samples = append(rn.res.Samples, map[string]interface{}{"case": c, "observed": observed, "detail": d})
	}
}

// otherSide: the outcome that means "the checking side of message m did not object, its peer did".
// (OTFlow.tla, invariant CheckingSide; for the challenge either side may be the one that notices.)
func otherSide(m string) string {
	switch m {
	case "M1", "A", "Rs":
		return "errR"
	case "M2", "M0", "De":
		return "errS"
	}
	return "-"
}

func (rn *runner) fail(c Case, run int, observed []string, class, site, what, detail string) {
	rn.res.Failures = append(rn.res.Failures, Failure{Class: class, Site: site, Case: c, Run: run, Observed: observed, What: what, Detail: detail})
}

func main() {
	casesPath := flag.String("cases", "", "JSON lines: cases printed by OTFlow.tla")
	tablesPath := flag.String("tables", "", "JSON: tables printed by OTAlg.tla")
	seed := flag.Int64("seed", 0, "seed")
	shard := flag.Int("shard", 0, "shard index")
	of := flag.Int("of", 1, "number of shards")
	nsetups := flag.Int("setups", 3, "shared setups")
	outPath := flag.String("out", "", "result file")
	flag.Parse()

	tb, err := os.ReadFile(*tablesPath)
	if err != nil {
		fmt.Fprintln(os.Stderr, err)
		os.Exit(3)
	}
	if err := json.Unmarshal(tb, &tab); err != nil {
		fmt.Fprintln(os.Stderr, err)
		os.Exit(3)
	}
	if len(tab.BitPos) < 1024 || len(tab.GadgetExp) != 256 || tab.Sizes["kappa"] != 128 {
		fmt.Fprintln(os.Stderr, "tables are not at the real sizes")
		os.Exit(3)
	}
	data, err := os.ReadFile(*casesPath)
	if err != nil {
		fmt.Fprintln(os.Stderr, err)
		os.Exit(3)
	}
	var cases []Case
	for _, line := range bytes.Split(data, []byte("\n")) {
		if len(bytes.TrimSpace(line)) == 0 {
			continue
		}
		var c Case
		if err := json.Unmarshal(line, &c); err != nil {
			fmt.Fprintln(os.Stderr, "bad case line:", err)
			os.Exit(3)
		}
		cases = append(cases, c)
	}
	sort.SliceStable(cases, func(i, j int) bool { return cases[i].key() < cases[j].key() })

	// sanity of the harness' own conversions (a failure here is a harness problem, not a finding)
	for _, n := range []string{"zero", "one", "two", "qm1", "qm2", "half"} {
		x := latticePoint(n, rng{})
		if bigOf(scalarFromBig(x)).Cmp(x) != 0 {
			fmt.Fprintln(os.Stderr, "scalar conversion is not the identity on", n)
			os.Exit(3)
		}
	}

	res := &Result{ByLayer: map[string]int{}, ByOutcome: map[string]int{}}
	rn := &runner{seed: *seed, res: res, sampled: map[string]bool{}}
	for k := 0; k < *nsetups; k++ {
		sp, err := honestSetup(*seed, fmt.Sprint(k))
		if err != nil {
			res.Failures = append(res.Failures, Failure{Class: "honest-error", Site: "CorreOTSetup", What: "an honest correlated-OT setup failed", Detail: err.Error()})
			continue
		}
		if *shard == 0 {
			res.Relations++
			if why := setupRelation(sp); why != "" {
				res.Failures = append(res.Failures, Failure{Class: "relation", Site: "CorreOTSetup", What: "setup relation", Detail: why})
			}
		}
		rn.setups = append(rn.setups, sp)
	}
	if len(rn.setups) > 0 {
		for i, c := range cases {
			if i%*of != *shard {
				continue
			}
			rn.runCase(c)
		}
	}
	if res.Failures == nil {
		res.Failures = []Failure{}
	}
	if res.Divergences == nil {
		res.Divergences = []Divergence{}
	}
	out, _ := json.MarshalIndent(res, "", " ")
	if *outPath == "" {
		fmt.Println(string(out))
	} else if err := os.WriteFile(*outPath, out, 0o644); err != nil {
		fmt.Fprintln(os.Stderr, err)
		os.Exit(3)
	}
}
