//go:build verif

// sigdrv - conformance driver of property C16 (stand-alone signature primitives conform to their standards).
//
// Input: the cases printed by TLC for spec/SigVerify.tla (one JSON object per line: routine, abstract class of every
// input field, the computed-point branch, and the verdict / reason / stage / output decisions the standard prescribes).
// For every case and several message lengths / repetitions the driver CONSTRUCTS a concrete input lying in exactly those
// classes (independent secp256k1 of package oracle; a valid signature plus the perturbations the case names), runs the
// REAL library routine and the independent oracle, and reports
//   - a FAILURE (property violation) when the library's verdict / stage / output differs from what the specification
//     prescribes for the case,
//   - a HARNESS ERROR when oracle and specification disagree about the constructed input (the construction is wrong;
//     never reported as a violation).
//
// It also runs the published BIP-340 vectors as known answers.
package main

import (
	"bufio"
	"bytes"
	"crypto/sha256"
	"encoding/binary"
	"encoding/hex"
	"encoding/json"
	"errors"
	"flag"
	"fmt"
	"math/big"
	"os"
	"sort"
	"strconv"
	"strings"
	"sync"

	"github.com/taurusgroup/multi-party-sig/pkg/ecdsa"
	"github.com/taurusgroup/multi-party-sig/pkg/math/curve"
	"github.com/taurusgroup/multi-party-sig/pkg/taproot"
	"github.com/taurusgroup/multi-party-sig/verifharness/oracle"
)

// ---------------------------------------------------------------------------------------------------------
// case / result types

type Case struct {
	Proc  string            `json:"proc"`
	Inp   map[string]string `json:"inp"`
	Comp  string            `json:"comp"`
	Acc   string            `json:"acc"`
	Why   string            `json:"why"`
	Stage string            `json:"stage"`
	Out   map[string]string `json:"out"`
	Pert  int               `json:"pert"`
	idx   int
}

func (c *Case) id() string {
	keys := make([]string, 0, len(c.Inp))
	for k := range c.Inp {
		keys = append(keys, k)
	}
	sort.Strings(keys)
	var sb strings.Builder
	sb.WriteString(c.Proc)
	for _, k := range keys {
		sb.WriteString(" " + k + "=" + c.Inp[k])
	}
	return sb.String()
}

type Failure struct {
	Site     string            `json:"site"`
	Class    string            `json:"class"`
	Got      string            `json:"got"`
	Expected string            `json:"expected"`
	Proc     string            `json:"proc"`
	Inp      map[string]string `json:"inp,omitempty"`
	Comp     string            `json:"comp,omitempty"`
	Concrete map[string]string `json:"concrete,omitempty"`
	What     string            `json:"what"`
}

type Result struct {
	Evaluations    int                 `json:"evaluations"`
	Cases          int                 `json:"cases"`
	CasesCovered   int                 `json:"cases_covered"`
	Uncovered      []string            `json:"uncovered"`
	Skipped        int                 `json:"skipped_combinations"`
	Failures       []Failure           `json:"failures"`
	FailuresTotal  int                 `json:"failures_total"`
	FailureCounts  map[string]int      `json:"failure_counts"`
	HarnessErrors  []string            `json:"harness_errors"`
	Samples        []map[string]string `json:"samples"`
	PerProc        map[string]int      `json:"evaluations_per_proc"`
	KAT            int                 `json:"kat_evaluations"`
	Mutated        int                 `json:"sigethereum_receiver_mutated"`
	EthCalls       int                 `json:"sigethereum_calls"`
	Notes          []string            `json:"notes"`
	PanicsObserved int                 `json:"panics"`
}

var (
	mu  sync.Mutex
	res = Result{PerProc: map[string]int{}, FailureCounts: map[string]int{}, Failures: []Failure{}, HarnessErrors: []string{}, Uncovered: []string{}, Notes: []string{}}
)

var failSeen = map[string]int{}

// addFailure keeps at most three concrete witnesses per (site, class, got) and counts the rest.
func addFailure(f Failure) {
	mu.Lock()
	defer mu.Unlock()
	k := f.Site + "|" + f.Class + "|" + f.Got
	failSeen[k]++
	res.FailureCounts[k] = failSeen[k]
	res.FailuresTotal++
	if failSeen[k] <= 3 {
		res.Failures = append(res.Failures, f)
	}
}
func addHarness(s string) {
	mu.Lock()
	defer mu.Unlock()
	if len(res.HarnessErrors) < 100 {
		res.HarnessErrors = append(res.HarnessErrors, s)
	}
}
func addEval(proc string, n int) {
	mu.Lock()
	res.Evaluations += n
	res.PerProc[proc] += n
	mu.Unlock()
}

var sampleSeen = map[string]int{}

// addSample keeps two samples per (routine, verdict reason).
func addSample(s map[string]string) {
	mu.Lock()
	k := strings.SplitN(s["case"], " ", 2)[0] + "|" + s["expected"]
	sampleSeen[k]++
	if sampleSeen[k] <= 1 && len(res.Samples) < 200 {
		res.Samples = append(res.Samples, s)
	}
	mu.Unlock()
}

// ---------------------------------------------------------------------------------------------------------
// deterministic randomness

type rng struct {
	key [32]byte
	ctr uint64
	buf []byte
}

func newRng(label string) *rng { return &rng{key: sha256.Sum256([]byte(label))} }
func (r *rng) Read(p []byte) (int, error) {
	for i := range p {
		if len(r.buf) == 0 {
			var c [8]byte
			binary.BigEndian.PutUint64(c[:], r.ctr)
			r.ctr++
			h := sha256.Sum256(append(r.key[:], c[:]...))
			r.buf = h[:]
		}
		p[i] = r.buf[0]
		r.buf = r.buf[1:]
	}
	return len(p), nil
}
func (r *rng) bytes(n int) []byte { b := make([]byte, n); r.Read(b); return b }
func (r *rng) scalar() *big.Int { // in [1, N-1]
	for {
		x := new(big.Int).SetBytes(r.bytes(40))
		x.Mod(x, oracle.N)
		if x.Sign() != 0 {
			return x
		}
	}
}
func (r *rng) intn(n int) int { return int(binary.BigEndian.Uint32(r.bytes(4)) % uint32(n)) }

// ---------------------------------------------------------------------------------------------------------
// helpers

var (
	grp   = curve.Secp256k1{}
	one   = big.NewInt(1)
	two   = big.NewInt(2)
	max   = new(big.Int).Sub(new(big.Int).Lsh(one, 256), one)
	nM1   = new(big.Int).Sub(oracle.N, one)
	nP1   = new(big.Int).Add(oracle.N, one)
	pM1   = new(big.Int).Sub(oracle.P, one)
	pP1   = new(big.Int).Add(oracle.P, one)
	halfN = oracle.HalfN()
)

func b32(x *big.Int) []byte { return oracle.Bytes32(x) }
func hx(b []byte) string    { return hex.EncodeToString(b) }
func addN(a, b *big.Int) *big.Int {
	x := new(big.Int).Add(a, b)
	return x.Mod(x, oracle.N)
}
func mulN(a, b *big.Int) *big.Int {
	x := new(big.Int).Mul(a, b)
	return x.Mod(x, oracle.N)
}
func negN(a *big.Int) *big.Int {
	x := new(big.Int).Neg(a)
	return x.Mod(x, oracle.N)
}
func invN(a *big.Int) *big.Int { return new(big.Int).ModInverse(a, oracle.N) }

// smallest t >= from such that base+t is the abscissa of a curve point (and base+t < 2^256)
func nextOnCurve(base *big.Int, from int64) *big.Int {
	for t := from; ; t++ {
		x := new(big.Int).Add(base, big.NewInt(t))
		if x.Cmp(max) > 0 {
			return nil
		}
		if base.Cmp(oracle.P) >= 0 {
			// x >= p: "on curve after reduction"
			if _, ok := oracle.LiftX(new(big.Int).Sub(x, oracle.P)); ok {
				return x
			}
			continue
		}
		if _, ok := oracle.LiftX(x); ok {
			return x
		}
	}
}

// first x' >= x (x' < p) that is NOT the abscissa of a curve point
func nextOffCurve(x *big.Int) *big.Int {
	y := new(big.Int).Set(x)
	for {
		if y.Cmp(oracle.P) >= 0 {
			y.SetInt64(0)
		}
		if _, ok := oracle.LiftX(y); !ok {
			return y
		}
		y.Add(y, one)
	}
}

func withParity(p oracle.Pt, odd bool) oracle.Pt {
	if p.EvenY() == odd {
		return oracle.Neg(p)
	}
	return p
}

// nonce with a point of the requested parity
func nonce(r *rng, odd bool) (*big.Int, oracle.Pt) {
	k := r.scalar()
	R := oracle.BaseMul(k)
	if R.EvenY() == odd {
		k = negN(k)
		R = oracle.Neg(R)
	}
	return k, R
}

func resize(b []byte, class string, v int, r *rng) []byte {
	full := len(b)
	switch class {
	case "len0":
		return []byte{}
	case "len31", "len32", "len63":
		n, _ := strconv.Atoi(class[3:])
		if n >= full {
			return b
		}
		if n == full-1 && v%2 == 1 {
			return append([]byte{}, b[1:]...) // drop the first byte instead of the last
		}
		return append([]byte{}, b[:n]...)
	case "len33", "len34", "len65", "len96":
		n, _ := strconv.Atoi(class[3:])
		if n <= full {
			return b
		}
		ext := make([]byte, n-full)
		if v%3 == 2 {
			r.Read(ext)
		}
		if n == full+1 && v%2 == 1 {
			return append(ext, b...) // prepend
		}
		return append(append([]byte{}, b...), ext...)
	}
	return b
}

func libPoint(p oracle.Pt) (curve.Point, error) {
	q := grp.NewPoint()
	err := q.UnmarshalBinary(p.Compressed())
	return q, err
}

func protect(f func()) (panicked string) {
	defer func() {
		if e := recover(); e != nil {
			panicked = fmt.Sprint(e)
			mu.Lock()
			res.PanicsObserved++
			mu.Unlock()
		}
	}()
	f()
	return ""
}

// a key whose x coordinate has a zero leading byte (for the crafted 31-byte public key)
var (
	craftOnce sync.Once
	craftD    []*big.Int
)

func craftedKeys() []*big.Int {
	craftOnce.Do(func() {
		r := newRng("crafted31")
		d := r.scalar()
		P := oracle.BaseMul(d)
		g := oracle.G()
		for len(craftD) < 3 {
			d = addN(d, one)
			P = oracle.Add(P, g)
			if !P.Inf && P.XBytes()[0] == 0 && P.XBytes()[1] != 0 {
				craftD = append(craftD, new(big.Int).Set(d))
			}
		}
	})
	return craftD
}

// ---------------------------------------------------------------------------------------------------------
// group of sibling cases (same routine and input classes, different computed branch)

type group struct {
	proc  string
	inp   map[string]string
	cases []*Case
	cov   map[*Case]int
}

func (g *group) match(target *Case, acc, why string) *Case {
	if target != nil && target.Acc == acc && target.Why == why {
		return target
	}
	for _, c := range g.cases {
		if c.Acc == acc && c.Why == why {
			return c
		}
	}
	return nil
}

// ---------------------------------------------------------------------------------------------------------
// bipverify

var bipWhy = map[string]string{"sig-length": "sigLen", "pk-length": "pkLen", "pk-lift": "liftPk", "r-range": "rRange", "s-range": "sRange",
	"R-infinite": "Rinf", "R-odd": "Reven", "R-x": "Rx", "accept": "ok"}

func bipChallenge(rx, pk, msg []byte) *big.Int {
	e := new(big.Int).SetBytes(oracle.TaggedHash("BIP0340/challenge", rx, pk, msg))
	return e.Mod(e, oracle.N)
}

func evenSecret(d *big.Int) (*big.Int, oracle.Pt) {
	P := oracle.BaseMul(d)
	if !P.EvenY() {
		return negN(d), P
	}
	return d, P
}

func runBip(g *group, target *Case, msgLen int, v int, r *rng) (skipped bool) {
	in := g.inp
	// 1. genuine key, message, nonce
	var d *big.Int
	if in["pkLen"] == "len31crafted" {
		ks := craftedKeys()
		d = ks[v%len(ks)]
	} else {
		d = r.scalar()
	}
	dE, P := evenSecret(d)
	pk0 := P.XBytes()
	if in["pkLen"] == "len31crafted" {
		pk0 = pk0[1:]
	}
	msg0 := r.bytes(msgLen)
	k, R := nonce(r, false)
	rx := R.XBytes()
	// 2. perturbed public inputs
	pk := pk0
	dF := dE // secret belonging to the final key (when known)
	switch in["pk"] {
	case "otherKey":
		var P2 oracle.Pt
		dF, P2 = evenSecret(r.scalar())
		pk = P2.XBytes()
	case "noRoot":
		pk = b32(nextOffCurve(new(big.Int).SetBytes(P.XBytes())))
	case "geP":
		opts := []*big.Int{oracle.P, pP1, nextOnCurve(oracle.P, 2), max, nextOnCurve(oracle.P, int64(3+r.intn(1000)))}
		pk = b32(opts[v%len(opts)])
	}
	rb := rx
	switch in["r"] {
	case "other":
		alt := new(big.Int).SetBytes(rx)
		alt.Xor(alt, one)
		_, Rr := nonce(r, v%2 == 0)
		opts := []*big.Int{big.NewInt(0), one, nM1, oracle.N, pM1, alt, Rr.X}
		if target != nil && target.Comp == "infZeroR" {
			opts = []*big.Int{big.NewInt(0), one}
		}
		rb = b32(opts[v%len(opts)])
	case "geP":
		opts := []*big.Int{oracle.P, pP1, max, nextOnCurve(oracle.P, 2)}
		rb = b32(opts[v%len(opts)])
	}
	msg := msg0
	if in["msg"] == "changed" {
		switch {
		case len(msg0) == 0 || v%3 == 1:
			msg = append(append([]byte{}, msg0...), byte(v))
		case v%3 == 2:
			msg = append([]byte{}, msg0[:len(msg0)-1]...)
		default:
			msg = append([]byte{}, msg0...)
			msg[(v/3)%len(msg)] ^= 1 << uint(v%8)
		}
	}
	// 3. s
	s0 := addN(k, mulN(bipChallenge(rx, pk0, msg0), dE)) // the valid signature of (pk0, msg0) with nonce k
	eF := bipChallenge(rb, pk, msg)                      // challenge the verifier will compute (when it gets that far)
	var sb []byte
	switch in["s"] {
	case "valid":
		sb = b32(s0)
	case "nonceFlipped":
		sb = b32(addN(negN(k), mulN(eF, dF)))
	case "forInf":
		sb = b32(mulN(eF, dF))
	case "other":
		flip := new(big.Int).Xor(s0, new(big.Int).Lsh(one, uint(8*(v%31))))
		opts := []*big.Int{big.NewInt(0), one, nM1, addN(s0, one), negN(s0), flip.Mod(flip, oracle.N)}
		c := opts[v%len(opts)]
		if c.Cmp(s0) == 0 {
			c = addN(s0, two)
		}
		sb = b32(c)
	case "geN":
		opts := []*big.Int{oracle.N, nP1, max, pM1, oracle.P}
		sb = b32(opts[v%len(opts)])
	}
	sig := append(append([]byte{}, rb...), sb...)
	// 4. lengths
	switch in["pkLen"] {
	case "len0", "len31", "len33":
		pk = resize(pk, in["pkLen"], v, r)
	}
	sig = resize(sig, in["sigLen"], v, r)

	// oracle
	ow := bipWhy[oracle.BIP340Why(pk, msg, sig)]
	oacc := "reject"
	if ow == "ok" {
		oacc = "accept"
	}
	if (oacc == "accept") != oracle.BIP340Verify(pk, msg, sig) {
		addHarness("oracle BIP340Why/BIP340Verify disagree")
		return
	}
	c := g.match(target, oacc, ow)
	conc := map[string]string{"pk": hx(pk), "msg": hx(msg), "sig": hx(sig)}
	if c == nil {
		addHarness(fmt.Sprintf("bipverify %v target=%v: oracle says %s/%s, no sibling case agrees; %v", in, target.Comp, oacc, ow, conc))
		return
	}
	// library
	var got bool
	pan := protect(func() { got = taproot.PublicKey(pk).Verify(taproot.Signature(sig), msg) })
	addEval("bipverify", 1)
	mu.Lock()
	g.cov[c]++
	mu.Unlock()
	gs := "reject"
	if pan != "" {
		gs = "panic"
	} else if got {
		gs = "accept"
	}
	if gs != c.Acc {
		addFailure(Failure{Site: "taproot.PublicKey.Verify", Class: c.Why, Got: gs, Expected: c.Acc + ":" + c.Why, Proc: "bipverify", Inp: in, Comp: c.Comp,
			Concrete: conc, What: fmt.Sprintf("BIP-340 prescribes %s (%s) for this input, the library %ss %s", c.Acc, c.Why, gs, pan)})
	} else if c.Pert <= 1 {
		conc["case"] = c.id() + " comp=" + c.Comp
		conc["expected"] = c.Acc + ":" + c.Why
		conc["library"] = gs
		addSample(conc)
	}
	return
}

// ---------------------------------------------------------------------------------------------------------
// ecdsaverify

type ecdsaSig struct {
	R    oracle.Pt
	s    *big.Int
	X    oracle.Pt
	hash []byte
	d    *big.Int // the secret key, where the key was not solved for as a point
}

// validECDSA builds a valid signature with a chosen nonce-point class and a chosen s (the key is solved for).
func validECDSA(r *rng, hash []byte, rX string, odd bool, s0 *big.Int, v int) (sg ecdsaSig, ok bool) {
	e := oracle.HashToScalar(hash)
	for try := 0; try < 20; try++ {
		switch rX {
		case "geN", "isN", "smallX":
			var x *big.Int
			if rX == "isN" {
				x = new(big.Int).Set(oracle.N)
			} else if rX == "smallX" {
				x = nextOnCurve(big.NewInt(0), int64(1+(v%7)*31+try)) // x < 2^256 - p, so x + p still fits in 32 bytes
			} else {
				x = nextOnCurve(oracle.N, int64(1+(v%5)*97+try))
			}
			R, okk := oracle.LiftX(x)
			if !okk {
				return sg, false
			}
			R = withParity(R, odd)
			rr := new(big.Int).Mod(R.X, oracle.N)
			if rr.Sign() == 0 {
				// no valid signature exists: any key
				return ecdsaSig{R: R, s: s0, X: oracle.BaseMul(r.scalar()), hash: hash}, true
			}
			X := oracle.Mul(invN(rr), oracle.Sub(oracle.Mul(s0, R), oracle.BaseMul(e)))
			if X.Inf {
				continue
			}
			return ecdsaSig{R: R, s: s0, X: X, hash: hash}, true
		default:
			k, R := nonce(r, odd)
			rr := new(big.Int).Mod(R.X, oracle.N)
			if rr.Sign() == 0 {
				continue
			}
			x := mulN(new(big.Int).Sub(mulN(s0, k), e), invN(rr))
			if x.Sign() == 0 {
				continue
			}
			return ecdsaSig{R: R, s: s0, X: oracle.BaseMul(x), hash: hash, d: x}, true
		}
	}
	return sg, false
}

func validSVariant(r *rng, v int) *big.Int {
	opts := []*big.Int{nil, one, nM1, halfN, new(big.Int).Add(halfN, one), nil, nil}
	if s := opts[v%len(opts)]; s != nil {
		return s
	}
	return r.scalar()
}

func ecdsaOracle(Rb, Sb []byte, X oracle.Pt, hash []byte) (acc, why string) {
	if len(Rb) != 33 {
		return "reject", "rLen"
	}
	if Rb[0] != 2 && Rb[0] != 3 {
		return "reject", "rPrefix"
	}
	x := new(big.Int).SetBytes(Rb[1:])
	if x.Cmp(oracle.P) >= 0 {
		return "reject", "rRange"
	}
	R, err := oracle.ParseCompressed(Rb)
	if err != nil {
		return "reject", "rCurve"
	}
	if len(Sb) != 32 {
		return "reject", "sLen"
	}
	s := new(big.Int).SetBytes(Sb)
	if s.Cmp(oracle.N) >= 0 {
		return "reject", "sRange"
	}
	if new(big.Int).Mod(R.X, oracle.N).Sign() == 0 {
		return "reject", "rZero"
	}
	if s.Sign() == 0 {
		return "reject", "sZero"
	}
	if !oracle.ECDSAVerifyPoint(X, hash, R, s) {
		return "reject", "equation"
	}
	if !oracle.ECDSAVerifyRS(X, hash, new(big.Int).Mod(R.X, oracle.N), s) {
		return "harness", "textbook r/s verification disagrees with point verification on an accepted signature"
	}
	return "accept", "ok"
}

func stageOf(why string) string {
	switch why {
	case "rLen", "rPrefix", "rRange", "rCurve":
		return "decodeR"
	case "sLen", "sRange":
		return "decodeS"
	}
	return "verify"
}

func runEcdsa(g *group, target *Case, hashLen int, v int, r *rng) (skipped bool) {
	in := g.inp
	if in["hash"] == "changedTail" && hashLen <= 32 {
		return true
	}
	if in["hash"] == "changedHead" && hashLen == 0 {
		return true
	}
	if in["hash"] == "forInf" && hashLen != 32 {
		return true // the digest is chosen as a scalar: 32 bytes
	}
	hash0 := r.bytes(hashLen)
	odd := in["rPar"] == "odd"
	s0 := validSVariant(r, v)
	base := in["rX"]
	if base == "smallXPlusP" {
		base = "smallX"
	} else if base != "geN" && base != "isN" {
		base = "genuine"
	}
	if in["s"] == "validPlusN" { // s + n must fit in 32 bytes: s < 2^256 - n
		lim := new(big.Int).Sub(max, oracle.N)
		s0 = []*big.Int{one, lim, new(big.Int).Mod(r.scalar(), lim), two}[v%4]
		if s0.Sign() == 0 {
			s0 = one
		}
	}
	sg, ok := validECDSA(r, hash0, base, odd, s0, v)
	if !ok {
		addHarness(fmt.Sprintf("ecdsaverify: could not build a signature for %v", in))
		return
	}
	// nonce point encoding
	Rb := sg.R.Compressed()
	switch in["rX"] {
	case "otherPoint":
		_, R2 := nonce(r, odd)
		Rb = R2.Compressed()
	case "noRoot":
		copy(Rb[1:], b32(nextOffCurve(sg.R.X)))
	case "geP":
		opts := []*big.Int{oracle.P, pP1, nextOnCurve(oracle.P, 2), max, nextOnCurve(oracle.P, int64(3+r.intn(1000)))}
		copy(Rb[1:], b32(opts[v%len(opts)]))
	case "smallXPlusP":
		copy(Rb[1:], b32(new(big.Int).Add(sg.R.X, oracle.P)))
	}
	switch in["rPrefix"] {
	case "flipped":
		Rb[0] ^= 1
	case "noncanon":
		opts := []byte{0x04, 0x00, 0x05, 0x06, 0x01, 0x07, 0xff}
		Rb[0] = opts[v%len(opts)]
	}
	switch in["rLen"] {
	case "len65":
		u := make([]byte, 65)
		u[0] = 4
		copy(u[1:], sg.R.XBytes())
		copy(u[33:], b32(sg.R.Y))
		Rb = u
	case "len0", "len32", "len34":
		Rb = resize(Rb, in["rLen"], v, r)
	}
	// s encoding
	var s *big.Int
	switch in["s"] {
	case "valid":
		s = s0
	case "zero":
		s = big.NewInt(0)
	case "negated":
		s = negN(s0)
	case "other":
		if v%2 == 0 {
			s = addN(s0, one)
			if s.Sign() == 0 {
				s = big.NewInt(2)
			}
		} else {
			s = r.scalar()
			if s.Cmp(s0) == 0 || s.Cmp(negN(s0)) == 0 {
				s = addN(s0, two)
			}
		}
		if s.Cmp(negN(s0)) == 0 || s.Sign() == 0 { // n-1+1 = 0, or s0+1 = -s0
			s = addN(s0, big.NewInt(3))
		}
	case "geN":
		opts := []*big.Int{oracle.N, nP1, max, pM1, oracle.P}
		s = opts[v%len(opts)]
	case "validPlusN":
		s = new(big.Int).Add(s0, oracle.N)
	}
	Sb := resize(b32(s), in["sLen"], v, r)
	// hash
	hash := hash0
	switch in["hash"] {
	case "changedHead":
		hash = append([]byte{}, hash0...)
		lim := hashLen
		if lim > 32 {
			lim = 32
		}
		pos := []int{0, lim - 1, lim / 2}[v%3]
		hash[pos] ^= 1 << uint(v%8)
	case "changedTail":
		hash = append([]byte{}, hash0...)
		pos := []int{32, hashLen - 1}[v%2]
		hash[pos] ^= 1 << uint(v%8)
	case "forInf":
		// e = -r*d: the verifier's e*G + r*X is the point at infinity, which equals no nonce point - whatever s is
		if sg.d == nil {
			addHarness("ecdsaverify forInf: the secret key is not known for this nonce class")
			return
		}
		hash = b32(negN(mulN(new(big.Int).Mod(sg.R.X, oracle.N), sg.d)))
	}
	X := sg.X
	if in["pub"] == "other" {
		// -X is a different key, but for e = 0 (empty hash) the pair (-X, -R) satisfies the equation again: use it only when e != 0
		if v%2 == 0 || oracle.HashToScalar(hash).Sign() == 0 {
			X = oracle.BaseMul(r.scalar())
		} else {
			X = oracle.Neg(X)
		}
	}
	conc := map[string]string{"R": hx(Rb), "s": hx(Sb), "pub": hx(X.Compressed()), "hash": hx(hash)}

	oacc, owhy := ecdsaOracle(Rb, Sb, X, hash)
	if oacc == "harness" {
		addHarness(owhy)
		return
	}
	c := g.match(target, oacc, owhy)
	if c == nil {
		addHarness(fmt.Sprintf("ecdsaverify %v: oracle says %s/%s, the case says %s/%s; %v", in, oacc, owhy, target.Acc, target.Why, conc))
		return
	}
	// library
	lX, err := libPoint(X)
	if err != nil {
		addHarness("library rejects an oracle public key: " + err.Error())
		return
	}
	gotStage, gotAcc := "", ""
	pan := protect(func() {
		Rl := grp.NewPoint()
		if err := Rl.UnmarshalBinary(Rb); err != nil {
			gotStage, gotAcc = "decodeR", "reject"
			return
		}
		Sl := grp.NewScalar()
		if err := Sl.UnmarshalBinary(Sb); err != nil {
			gotStage, gotAcc = "decodeS", "reject"
			return
		}
		gotStage = "verify"
		if (ecdsa.Signature{R: Rl, S: Sl}).Verify(lX, hash) {
			gotAcc = "accept"
		} else {
			gotAcc = "reject"
		}
	})
	addEval("ecdsaverify", 1)
	mu.Lock()
	g.cov[c]++
	mu.Unlock()
	if pan != "" {
		gotAcc, gotStage = "panic", "panic"
	}
	if gotAcc != c.Acc || gotStage != c.Stage {
		site := "ecdsa.Signature.Verify"
		if c.Stage == "decodeR" || gotStage == "decodeR" {
			site = "Secp256k1Point.UnmarshalBinary"
		} else if c.Stage == "decodeS" || gotStage == "decodeS" {
			site = "Secp256k1Scalar.UnmarshalBinary"
		}
		addFailure(Failure{Site: site, Class: c.Why, Got: gotAcc + "@" + gotStage, Expected: c.Acc + "@" + c.Stage + ":" + c.Why, Proc: "ecdsaverify", Inp: in,
			Concrete: conc, What: fmt.Sprintf("the standard prescribes %s at stage %s (%s); the library: %s at stage %s %s", c.Acc, c.Stage, c.Why, gotAcc, gotStage, pan)})
	} else if c.Pert <= 1 {
		conc["case"] = c.id()
		conc["expected"] = c.Acc + "@" + c.Stage + ":" + c.Why
		conc["library"] = gotAcc + "@" + gotStage
		addSample(conc)
	}
	return
}

// ---------------------------------------------------------------------------------------------------------
// liftx

func runLiftX(g *group, target *Case, _ int, v int, r *rng) (skipped bool) {
	in := g.inp
	var xb []byte
	var src oracle.Pt
	hasSrc := false
	switch in["x"] {
	case "evenSrc", "oddSrc":
		odd := in["x"] == "oddSrc"
		special := []*big.Int{one, two, big.NewInt(3), oracle.N}
		if v%3 == 2 {
			// special abscissae: the "source" is the point of the requested parity
			p, _ := oracle.LiftX(special[(v/3)%len(special)])
			src = withParity(p, odd)
		} else {
			_, src = nonce(r, odd)
		}
		hasSrc = true
		xb = src.XBytes()
	case "noRoot":
		_, p := nonce(r, false)
		opts := []*big.Int{big.NewInt(0), nextOffCurve(pM1), nextOffCurve(nM1), nextOffCurve(p.X)}
		xb = b32(opts[v%len(opts)])
	case "geP":
		opts := []*big.Int{oracle.P, pP1, new(big.Int).Add(oracle.P, two), max, nextOnCurve(oracle.P, int64(4+r.intn(1000)))}
		xb = b32(opts[v%len(opts)])
	}
	exp, ok := oracle.LiftX(new(big.Int).SetBytes(xb))
	oacc, owhy := "accept", "ok"
	if !ok {
		oacc = "reject"
		if new(big.Int).SetBytes(xb).Cmp(oracle.P) >= 0 {
			owhy = "range"
		} else {
			owhy = "root"
		}
	}
	c := g.match(target, oacc, owhy)
	if c == nil {
		addHarness(fmt.Sprintf("liftx %v x=%x: oracle %s/%s", in, xb, oacc, owhy))
		return
	}
	if ok && hasSrc {
		want := src
		if c.Out["point"] == "negSrc" {
			want = oracle.Neg(src)
		}
		if !oracle.Equal(exp, want) || !exp.EvenY() {
			addHarness("liftx: oracle result is not the point the specification names")
			return
		}
	}
	var pt *curve.Secp256k1Point
	var err error
	pan := protect(func() { pt, err = grp.LiftX(xb) })
	addEval("liftx", 1)
	mu.Lock()
	g.cov[c]++
	mu.Unlock()
	got := "accept"
	detail := ""
	if pan != "" {
		got = "panic"
	} else if err != nil {
		got = "reject"
	} else {
		b, _ := pt.MarshalBinary()
		if ok && (!bytes.Equal(b, exp.Compressed()) || !pt.HasEvenY() || b[0] != 2) {
			got = "wrong-point"
			detail = hx(b)
		}
	}
	if got != c.Acc {
		addFailure(Failure{Site: "Secp256k1.LiftX", Class: c.Why + "/" + in["x"], Got: got, Expected: c.Acc + ":" + c.Why, Proc: "liftx", Inp: in,
			Concrete: map[string]string{"x": hx(xb), "got": detail}, What: "lift_x disagrees with BIP-340 " + pan})
	} else if c.Pert <= 1 {
		addSample(map[string]string{"case": c.id(), "x": hx(xb), "expected": c.Acc + ":" + c.Why, "library": got})
	}
	return
}

// ---------------------------------------------------------------------------------------------------------
// public / sign

func secretFor(in map[string]string, v int, r *rng) (sk []byte, d *big.Int) {
	oddP := in["pPar"] == "oddP"
	switch in["sk"] {
	case "zero":
		return make([]byte, 32), nil
	case "geN":
		opts := []*big.Int{oracle.N, nP1, oracle.P, max}
		return b32(opts[v%len(opts)]), nil
	}
	switch v % 4 {
	case 1: // smallest d with the requested parity of P
		for i := int64(1); ; i++ {
			d = big.NewInt(i)
			if oracle.BaseMul(d).EvenY() != oddP {
				break
			}
		}
	case 3: // largest
		for i := int64(1); ; i++ {
			d = new(big.Int).Sub(oracle.N, big.NewInt(i))
			if oracle.BaseMul(d).EvenY() != oddP {
				break
			}
		}
	default:
		for {
			d = r.scalar()
			if oracle.BaseMul(d).EvenY() != oddP {
				break
			}
		}
	}
	return b32(d), d
}

func runPublic(g *group, target *Case, _ int, v int, r *rng) (skipped bool) {
	in := g.inp
	sk, d := secretFor(in, v, r)
	sk = resize(sk, in["skLen"], v, r)
	opk, oerr := oracle.BIP340PubKey(sk)
	oacc, owhy := "accept", "ok"
	if oerr != nil {
		oacc = "reject"
		if len(sk) != 32 {
			owhy = "skLen"
		} else {
			owhy = "skRange"
		}
	}
	c := g.match(target, oacc, owhy)
	if c == nil {
		addHarness(fmt.Sprintf("public %v: oracle %s/%s", in, oacc, owhy))
		return
	}
	var pk taproot.PublicKey
	var err error
	pan := protect(func() { pk, err = taproot.SecretKey(sk).Public() })
	addEval("public", 1)
	mu.Lock()
	g.cov[c]++
	mu.Unlock()
	got := "accept"
	switch {
	case pan != "":
		got = "panic"
	case err != nil:
		got = "reject"
	case c.Acc == "accept":
		// x-only, 32 bytes, lifts to the even-Y one of {P, -P}
		P := oracle.BaseMul(d)
		want := P
		if c.Out["lifts"] == "negP" {
			want = oracle.Neg(P)
		}
		if P.EvenY() != (c.Out["lifts"] == "P") {
			addHarness("public: parity of the constructed key is not the case's")
			return
		}
		L, lok := oracle.LiftX(new(big.Int).SetBytes(pk))
		if len(pk) != 32 || !bytes.Equal(pk, opk) || !lok || !oracle.Equal(L, want) || !L.EvenY() {
			got = "wrong-key"
		}
	}
	if got != c.Acc {
		addFailure(Failure{Site: "taproot.SecretKey.Public", Class: c.Why + "/" + in["sk"], Got: got, Expected: c.Acc + ":" + c.Why, Proc: "public", Inp: in,
			Concrete: map[string]string{"sk": hx(sk), "pk": hx(pk), "oracle_pk": hx(opk)}, What: "BIP-340 public key generation disagrees " + pan})
	} else if c.Pert <= 1 {
		addSample(map[string]string{"case": c.id(), "sk": hx(sk), "pk": hx(pk), "expected": c.Acc + ":" + c.Why, "library": got})
	}
	return
}

type failingReader struct{}

func (failingReader) Read([]byte) (int, error) { return 0, errors.New("entropy source failed") }

func runSign(g *group, target *Case, msgLen int, v int, r *rng) (skipped bool) {
	in := g.inp
	sk, _ := secretFor(in, v, r)
	sk = resize(sk, in["skLen"], v, r)
	msg := r.bytes(msgLen)
	aux := r.bytes(32)
	var osig []byte
	var negD, negK bool
	var oerr error
	if in["rnd"] == "aux32" {
		wantOdd := in["rPar"] == "oddR"
		for try := 0; try < 64; try++ {
			osig, negD, negK, oerr = oracle.BIP340SignTrace(sk, msg, aux)
			if oerr != nil || negK == wantOdd {
				break
			}
			aux = r.bytes(32)
		}
		if oerr == nil && negK != wantOdd {
			addHarness("sign: no aux with the requested nonce parity found")
			return
		}
	} else {
		_, oerr = oracle.BIP340PubKey(sk)
	}
	oacc, owhy := "accept", "ok"
	switch {
	case oerr != nil && len(sk) != 32:
		oacc, owhy = "reject", "skLen"
	case oerr != nil:
		oacc, owhy = "reject", "skRange"
	case in["rnd"] == "failing" || in["rnd"] == "short":
		oacc, owhy = "reject", "rand"
	}
	c := g.match(target, oacc, owhy)
	if c == nil {
		addHarness(fmt.Sprintf("sign %v: oracle %s/%s", in, oacc, owhy))
		return
	}
	if c.Acc == "accept" && c.Out["mode"] == "exact" {
		if (c.Out["negD"] == "yes") != negD || (c.Out["negK"] == "yes") != negK {
			addHarness(fmt.Sprintf("sign %v: oracle negation decisions (%v,%v) differ from the specification's %v", in, negD, negK, c.Out))
			return
		}
	}
	var sig taproot.Signature
	var err error
	pan := protect(func() {
		switch in["rnd"] {
		case "aux32":
			sig, err = taproot.SecretKey(sk).Sign(bytes.NewReader(aux), msg)
		case "nil":
			sig, err = taproot.SecretKey(sk).Sign(nil, msg)
		case "failing":
			sig, err = taproot.SecretKey(sk).Sign(failingReader{}, msg)
		case "short":
			sig, err = taproot.SecretKey(sk).Sign(bytes.NewReader(aux[:(v*5)%32]), msg)
		}
	})
	addEval("sign", 1)
	mu.Lock()
	g.cov[c]++
	mu.Unlock()
	got := "accept"
	switch {
	case pan != "":
		got = "panic"
	case err != nil:
		got = "reject"
	case c.Acc == "accept":
		pk, _ := oracle.BIP340PubKey(sk)
		if len(sig) != 64 || !oracle.BIP340Verify(pk, msg, sig) {
			got = "invalid-signature"
		} else if c.Out["mode"] == "exact" && !bytes.Equal(sig, osig) {
			got = "not-the-reference-signature"
		} else if !taproot.PublicKey(pk).Verify(sig, msg) {
			got = "own-verify-rejects"
		}
	}
	if got != c.Acc {
		addFailure(Failure{Site: "taproot.SecretKey.Sign", Class: c.Why + "/" + in["pPar"] + "/" + in["rPar"] + "/" + in["rnd"], Got: got, Expected: c.Acc + ":" + c.Why, Proc: "sign", Inp: in,
			Concrete: map[string]string{"sk": hx(sk), "msg": hx(msg), "aux": hx(aux), "sig": hx(sig), "reference": hx(osig)},
			What:     "BIP-340 signing: " + got + " " + pan})
	} else if c.Pert <= 1 {
		addSample(map[string]string{"case": c.id(), "sk": hx(sk), "msg": hx(msg), "aux": hx(aux), "sig": hx(sig), "expected": c.Acc + ":" + c.Why + fmt.Sprint(c.Out), "library": got})
	}
	return
}

// ---------------------------------------------------------------------------------------------------------
// ethexport

func ethS(class string, r *rng) *big.Int {
	switch class {
	case "one":
		return one
	case "halfN":
		return halfN
	case "halfNp1":
		return new(big.Int).Add(halfN, one)
	case "nm1":
		return nM1
	}
	for {
		s := r.scalar()
		if (s.Cmp(halfN) > 0) == (class == "high") {
			return s
		}
	}
}

// ethCheck runs SigEthereum on a valid signature and returns the list of defects ("" = none) plus whether the receiver changed.
func ethCheck(sg ecdsaSig, wantV string, wantAction string) (defects []string, mutated bool, conc map[string]string, pan string) {
	conc = map[string]string{"R": hx(sg.R.Compressed()), "s": hx(b32(sg.s)), "pub": hx(sg.X.Compressed()), "hash": hx(sg.hash)}
	lX, _ := libPoint(sg.X)
	Rl := grp.NewPoint()
	Sl := grp.NewScalar()
	if Rl.UnmarshalBinary(sg.R.Compressed()) != nil || Sl.UnmarshalBinary(b32(sg.s)) != nil {
		return []string{"harness"}, false, conc, ""
	}
	sig := ecdsa.Signature{R: Rl, S: Sl}
	if !oracle.ECDSAVerifyPoint(sg.X, sg.hash, sg.R, sg.s) {
		return []string{"harness"}, false, conc, ""
	}
	if !sig.Verify(lX, sg.hash) {
		// the independent verifier accepts the constructed signature, the library does not: not a harness matter
		return []string{"library-rejects-valid-signature"}, false, conc, ""
	}
	var out, out2 []byte
	var err, err2 error
	pan = protect(func() {
		out, err = sig.SigEthereum()
	})
	if pan != "" {
		return []string{"panic"}, false, conc, pan
	}
	conc["export"] = hx(out)
	if err != nil {
		return []string{"error"}, false, conc, ""
	}
	if len(out) != 65 {
		return []string{"len"}, false, conc, ""
	}
	rr := new(big.Int).SetBytes(out[:32])
	ss := new(big.Int).SetBytes(out[32:64])
	if !bytes.Equal(out[:32], sg.R.XBytes()) {
		defects = append(defects, "r")
	}
	wantS := sg.s
	if wantAction == "negate" {
		wantS = negN(sg.s)
	}
	if ss.Cmp(wantS) != 0 {
		defects = append(defects, "s")
	}
	if ss.Cmp(halfN) > 0 || ss.Sign() == 0 {
		defects = append(defects, "low-s")
	}
	if wantV != "" && strconv.Itoa(int(out[64])) != wantV {
		defects = append(defects, "v")
	}
	Q, ok := oracle.ECDSARecover(sg.hash, rr, ss, out[64])
	if !ok || !oracle.Equal(Q, sg.X) {
		defects = append(defects, "recover")
	}
	if !oracle.ECDSAVerifyRS(sg.X, sg.hash, rr, ss) {
		defects = append(defects, "export-invalid")
	}
	// the original signature object afterwards
	ra, _ := sig.R.MarshalBinary()
	sa, _ := sig.S.MarshalBinary()
	conc["R_after"], conc["s_after"] = hx(ra), hx(sa)
	mutated = !bytes.Equal(ra, sg.R.Compressed()) || !bytes.Equal(sa, b32(sg.s))
	Ra, perr := oracle.ParseCompressed(ra)
	if perr != nil || !oracle.ECDSAVerifyPoint(sg.X, sg.hash, Ra, new(big.Int).SetBytes(sa)) || !sig.Verify(lX, sg.hash) {
		defects = append(defects, "original-invalid")
	}
	pan = protect(func() { out2, err2 = sig.SigEthereum() })
	if pan != "" || err2 != nil || !bytes.Equal(out, out2) {
		defects = append(defects, "not-idempotent")
	}
	return defects, mutated, conc, ""
}

func runEth(g *group, target *Case, hashLen int, v int, r *rng) (skipped bool) {
	in := g.inp
	hash := r.bytes(hashLen)
	s0 := ethS(in["s"], r)
	sg, ok := validECDSA(r, hash, "genuine", in["rPar"] == "odd", s0, v)
	if !ok {
		addHarness("ethexport: could not build a signature")
		return
	}
	c := g.cases[0]
	defects, mutated, conc, pan := ethCheck(sg, c.Out["v"], c.Out["sAction"])
	if len(defects) == 1 && defects[0] == "harness" {
		addHarness(fmt.Sprintf("ethexport: constructed signature is not valid %v", conc))
		return
	}
	addEval("ethexport", 1)
	mu.Lock()
	g.cov[c]++
	res.EthCalls++
	if mutated {
		res.Mutated++
	}
	mu.Unlock()
	for _, d := range defects {
		addFailure(Failure{Site: "ecdsa.Signature.SigEthereum", Class: d, Got: d, Expected: fmt.Sprint(c.Out), Proc: "ethexport", Inp: in, Concrete: conc,
			What: "Ethereum export: " + d + " " + pan})
	}
	if len(defects) == 0 {
		conc["case"] = c.id()
		conc["expected"] = fmt.Sprint(c.Out)
		conc["receiver_mutated"] = fmt.Sprint(mutated)
		addSample(conc)
	}
	return
}

// ---------------------------------------------------------------------------------------------------------
// known answers: the BIP-340 test vectors 0..14 (bip-0340/test-vectors.csv)

type bipVec struct {
	sk, pk, aux, msg, sig string
	ok                    bool
}

var bipVecs = []bipVec{
	{"0000000000000000000000000000000000000000000000000000000000000003", "F9308A019258C31049344F85F89D5229B531C845836F99B08601F113BCE036F9", "0000000000000000000000000000000000000000000000000000000000000000", "0000000000000000000000000000000000000000000000000000000000000000", "E907831F80848D1069A5371B402410364BDF1C5F8307B0084C55F1CE2DCA821525F66A4A85EA8B71E482A74F382D2CE5EBEEE8FDB2172F477DF4900D310536C0", true},
	{"B7E151628AED2A6ABF7158809CF4F3C762E7160F38B4DA56A784D9045190CFEF", "DFF1D77F2A671C5F36183726DB2341BE58FEAE1DA2DECED843240F7B502BA659", "0000000000000000000000000000000000000000000000000000000000000001", "243F6A8885A308D313198A2E03707344A4093822299F31D0082EFA98EC4E6C89", "6896BD60EEAE296DB48A229FF71DFE071BDE413E6D43F917DC8DCF8C78DE33418906D11AC976ABCCB20B091292BFF4EA897EFCB639EA871CFA95F6DE339E4B0A", true},
	{"C90FDAA22168C234C4C6628B80DC1CD129024E088A67CC74020BBEA63B14E5C9", "DD308AFEC5777E13121FA72B9CC1B7CC0139715309B086C960E18FD969774EB8", "C87AA53824B4D7AE2EB035A2B5BBBCCC080E76CDC6D1692C4B0B62D798E6D906", "7E2D58D8B3BCDF1ABADEC7829054F90DDA9805AAB56C77333024B9D0A508B75C", "5831AAEED7B44BB74E5EAB94BA9D4294C49BCF2A60728D8B4C200F50DD313C1BAB745879A5AD954A72C45A91C3A51D3C7ADEA98D82F8481E0E1E03674A6F3FB7", true},
	{"0B432B2677937381AEF05BB02A66ECD012773062CF3FA2549E44F58ED2401710", "25D1DFF95105F5253C4022F628A996AD3A0D95FBF21D468A1B33F8C160D8F517", "FFFFFFFFFFFFFFFFFFFFFFFFFFFFFFFFFFFFFFFFFFFFFFFFFFFFFFFFFFFFFFFF", "FFFFFFFFFFFFFFFFFFFFFFFFFFFFFFFFFFFFFFFFFFFFFFFFFFFFFFFFFFFFFFFF", "7EB0509757E246F19449885651611CB965ECC1A187DD51B64FDA1EDC9637D5EC97582B9CB13DB3933705B32BA982AF5AF25FD78881EBB32771FC5922EFC66EA3", true},
	{"", "D69C3509BB99E412E68B0FE8544E72837DFA30746D8BE2AA65975F29D22DC7B9", "", "4DF3C3F68FCC83B27E9D42C90431A72499F17875C81A599B566C9889B9696703", "00000000000000000000003B78CE563F89A0ED9414F5AA28AD0D96D6795F9C6376AFB1548AF603B3EB45C9F8207DEE1060CB71C04E80F593060B07D28308D7F4", true},
	{"", "EEFDEA4CDB677750A420FEE807EACF21EB9898AE79B9768766E4FAA04A2D4A34", "", "243F6A8885A308D313198A2E03707344A4093822299F31D0082EFA98EC4E6C89", "6CFF5C3BA86C69EA4B7376F31A9BCB4F74C1976089B2D9963DA2E5543E17776969E89B4C5564D00349106B8497785DD7D1D713A8AE82B32FA79D5F7FC407D39B", false},
	{"", "DFF1D77F2A671C5F36183726DB2341BE58FEAE1DA2DECED843240F7B502BA659", "", "243F6A8885A308D313198A2E03707344A4093822299F31D0082EFA98EC4E6C89", "FFF97BD5755EEEA420453A14355235D382F6472F8568A18B2F057A14602975563CC27944640AC607CD107AE10923D9EF7A73C643E166BE5EBEAFA34B1AC553E2", false},
	{"", "DFF1D77F2A671C5F36183726DB2341BE58FEAE1DA2DECED843240F7B502BA659", "", "243F6A8885A308D313198A2E03707344A4093822299F31D0082EFA98EC4E6C89", "1FA62E331EDBC21C394792D2AB1100A7B432B013DF3F6FF4F99FCB33E0E1515F28890B3EDB6E7189B630448B515CE4F8622A954CFE545735AAEA5134FCCDB2BD", false},
	{"", "DFF1D77F2A671C5F36183726DB2341BE58FEAE1DA2DECED843240F7B502BA659", "", "243F6A8885A308D313198A2E03707344A4093822299F31D0082EFA98EC4E6C89", "6CFF5C3BA86C69EA4B7376F31A9BCB4F74C1976089B2D9963DA2E5543E177769961764B3AA9B2FFCB6EF947B6887A226E8D7C93E00C5ED0C1834FF0D0C2E6DA6", false},
	{"", "DFF1D77F2A671C5F36183726DB2341BE58FEAE1DA2DECED843240F7B502BA659", "", "243F6A8885A308D313198A2E03707344A4093822299F31D0082EFA98EC4E6C89", "0000000000000000000000000000000000000000000000000000000000000000123DDA8328AF9C23A94C1FEECFD123BA4FB73476F0D594DCB65C6425BD186051", false},
	{"", "DFF1D77F2A671C5F36183726DB2341BE58FEAE1DA2DECED843240F7B502BA659", "", "243F6A8885A308D313198A2E03707344A4093822299F31D0082EFA98EC4E6C89", "00000000000000000000000000000000000000000000000000000000000000017615FBAF5AE28864013C099742DEADB4DBA87F11AC6754F93780D5A1837CF197", false},
	{"", "DFF1D77F2A671C5F36183726DB2341BE58FEAE1DA2DECED843240F7B502BA659", "", "243F6A8885A308D313198A2E03707344A4093822299F31D0082EFA98EC4E6C89", "4A298DACAE57395A15D0795DDBFD1DCB564DA82B0F269BC70A74F8220429BA1D69E89B4C5564D00349106B8497785DD7D1D713A8AE82B32FA79D5F7FC407D39B", false},
	{"", "DFF1D77F2A671C5F36183726DB2341BE58FEAE1DA2DECED843240F7B502BA659", "", "243F6A8885A308D313198A2E03707344A4093822299F31D0082EFA98EC4E6C89", "FFFFFFFFFFFFFFFFFFFFFFFFFFFFFFFFFFFFFFFFFFFFFFFFFFFFFFFEFFFFFC2F69E89B4C5564D00349106B8497785DD7D1D713A8AE82B32FA79D5F7FC407D39B", false},
	{"", "DFF1D77F2A671C5F36183726DB2341BE58FEAE1DA2DECED843240F7B502BA659", "", "243F6A8885A308D313198A2E03707344A4093822299F31D0082EFA98EC4E6C89", "6CFF5C3BA86C69EA4B7376F31A9BCB4F74C1976089B2D9963DA2E5543E177769FFFFFFFFFFFFFFFFFFFFFFFFFFFFFFFEBAAEDCE6AF48A03BBFD25E8CD0364141", false},
	{"", "FFFFFFFFFFFFFFFFFFFFFFFFFFFFFFFFFFFFFFFFFFFFFFFFFFFFFFFEFFFFFC30", "", "243F6A8885A308D313198A2E03707344A4093822299F31D0082EFA98EC4E6C89", "6CFF5C3BA86C69EA4B7376F31A9BCB4F74C1976089B2D9963DA2E5543E17776969E89B4C5564D00349106B8497785DD7D1D713A8AE82B32FA79D5F7FC407D39B", false},
}

func unhex(s string) []byte { b, _ := hex.DecodeString(s); return b }

func runKAT() {
	for i, v := range bipVecs {
		pk, msg, sig := unhex(v.pk), unhex(v.msg), unhex(v.sig)
		if oracle.BIP340Verify(pk, msg, sig) != v.ok {
			addHarness(fmt.Sprintf("oracle disagrees with BIP-340 vector %d", i))
			continue
		}
		var got bool
		pan := protect(func() { got = taproot.PublicKey(pk).Verify(taproot.Signature(sig), msg) })
		res.KAT++
		if pan != "" || got != v.ok {
			addFailure(Failure{Site: "taproot.PublicKey.Verify", Class: fmt.Sprintf("kat-vector-%d", i), Got: fmt.Sprint(got, pan), Expected: fmt.Sprint(v.ok), Proc: "kat",
				Concrete: map[string]string{"pk": v.pk, "msg": v.msg, "sig": v.sig}, What: fmt.Sprintf("BIP-340 test vector %d: Verify returned %v, the vector says %v", i, got, v.ok)})
		}
		if v.sk == "" {
			continue
		}
		sk, aux := unhex(v.sk), unhex(v.aux)
		osig, err := oracle.BIP340Sign(sk, msg, aux)
		if err != nil || !bytes.Equal(osig, sig) {
			addHarness(fmt.Sprintf("oracle signer does not reproduce BIP-340 vector %d", i))
			continue
		}
		var lsig taproot.Signature
		var lpk taproot.PublicKey
		var e1, e2 error
		pan = protect(func() {
			lpk, e1 = taproot.SecretKey(sk).Public()
			lsig, e2 = taproot.SecretKey(sk).Sign(bytes.NewReader(aux), msg)
		})
		res.KAT += 2
		if pan != "" || e1 != nil || !bytes.Equal(lpk, pk) {
			addFailure(Failure{Site: "taproot.SecretKey.Public", Class: fmt.Sprintf("kat-vector-%d", i), Got: hx(lpk), Expected: v.pk, Proc: "kat", What: fmt.Sprintf("BIP-340 test vector %d: public key differs %s", i, pan)})
		}
		if pan != "" || e2 != nil || !bytes.Equal(lsig, sig) {
			addFailure(Failure{Site: "taproot.SecretKey.Sign", Class: fmt.Sprintf("kat-vector-%d", i), Got: hx(lsig), Expected: v.sig, Proc: "kat", What: fmt.Sprintf("BIP-340 test vector %d: signature differs from the published one %s", i, pan)})
		}
	}
	// TaggedHash against the independent one on a few shapes
	for i, parts := range [][][]byte{{}, {{}}, {[]byte("a")}, {[]byte("abc"), {}, bytes.Repeat([]byte{0xff}, 100)}} {
		for _, tag := range []string{"BIP0340/challenge", "BIP0340/aux", "BIP0340/nonce", "", "TapTweak"} {
			res.KAT++
			if !bytes.Equal(taproot.TaggedHash(tag, parts...), oracle.TaggedHash(tag, parts...)) {
				addFailure(Failure{Site: "taproot.TaggedHash", Class: fmt.Sprintf("tag-%q-shape-%d", tag, i), Got: "differs", Expected: "SHA256(SHA256(tag)||SHA256(tag)||data)", Proc: "kat", What: "TaggedHash differs from BIP-340 hash_tag"})
			}
		}
	}
}

// observation (not part of the verdict): a crafted valid signature whose nonce abscissa is >= n cannot be expressed with v in {0,1}
func probeEthLargeX(seed string) {
	r := newRng(seed + "/ethprobe")
	hash := r.bytes(32)
	sg, ok := validECDSA(r, hash, "geN", false, ethS("low", r), 0)
	if !ok {
		return
	}
	defects, _, conc, _ := ethCheck(sg, "", "keep")
	res.Notes = append(res.Notes, fmt.Sprintf("observation (not counted): SigEthereum on a crafted valid signature with x(R) >= n (probability 2^-128 for honest nonces) -> defects %v, export %s", defects, conc["export"]))
}

// ---------------------------------------------------------------------------------------------------------

func main() {
	casesPath := flag.String("cases", "", "TLC cases (JSON lines)")
	outPath := flag.String("out", "", "result file")
	seed := flag.Int("seed", 0, "seed")
	lensFlag := flag.String("lens", "0,1,31,32,33,64,100", "message / hash lengths")
	reps := flag.Int("reps", 1, "repetitions per (case, length)")
	par := flag.Int("par", 16, "workers")
	boost := flag.Int("boost", 1, "multiplier of -reps for the routines with few paths (liftx, public, sign, ethexport)")
	flag.Parse()

	var lens []int
	for _, s := range strings.Split(*lensFlag, ",") {
		n, err := strconv.Atoi(strings.TrimSpace(s))
		if err != nil {
			fmt.Fprintln(os.Stderr, "bad -lens")
			os.Exit(2)
		}
		lens = append(lens, n)
	}
	f, err := os.Open(*casesPath)
	if err != nil {
		fmt.Fprintln(os.Stderr, err)
		os.Exit(2)
	}
	groups := map[string]*group{}
	var order []string
	sc := bufio.NewScanner(f)
	sc.Buffer(make([]byte, 1<<20), 1<<24)
	n := 0
	for sc.Scan() {
		line := strings.TrimSpace(sc.Text())
		if line == "" {
			continue
		}
		c := &Case{}
		if err := json.Unmarshal([]byte(line), c); err != nil {
			fmt.Fprintln(os.Stderr, "bad case:", err)
			os.Exit(2)
		}
		c.idx = n
		n++
		id := c.id()
		g := groups[id]
		if g == nil {
			g = &group{proc: c.Proc, inp: c.Inp, cov: map[*Case]int{}}
			groups[id] = g
			order = append(order, id)
		}
		g.cases = append(g.cases, c)
	}
	res.Cases = n

	runners := map[string]func(*group, *Case, int, int, *rng) bool{
		"bipverify": runBip, "ecdsaverify": runEcdsa, "liftx": runLiftX, "public": runPublic, "sign": runSign, "ethexport": runEth,
	}

	type job struct {
		g  *group
		id string
	}
	jobs := make(chan job)
	var wg sync.WaitGroup
	for w := 0; w < *par; w++ {
		wg.Add(1)
		go func() {
			defer wg.Done()
			for j := range jobs {
				g := j.g
				run := runners[g.proc]
				if run == nil {
					addHarness("unknown routine " + g.proc)
					continue
				}
				v := *seed
				nreps := *reps
				if g.proc != "bipverify" && g.proc != "ecdsaverify" {
					nreps *= *boost
				}
				for rep := 0; rep < nreps; rep++ {
					for li, l := range lens {
						_ = li
						for ti, target := range g.cases {
							r := newRng(fmt.Sprintf("%d|%s|%d|%d|%d", *seed, j.id, l, rep, ti))
							if run(g, target, l, v, r) {
								mu.Lock()
								res.Skipped++
								mu.Unlock()
							}
							v++
						}
					}
				}
				// sibling branches that depend on a coin (parity of an unrelated point): insist until every branch was seen
				for extra := 0; extra < 60; extra++ {
					var missing *Case
					mu.Lock()
					for _, c := range g.cases {
						if g.cov[c] == 0 {
							missing = c
							break
						}
					}
					mu.Unlock()
					if missing == nil {
						break
					}
					l := lens[(extra+3)%len(lens)]
					if (g.inp["hash"] == "changedTail" && l <= 32) || (g.inp["hash"] == "changedHead" && l == 0) {
						l = 64
					}
					if g.inp["hash"] == "forInf" {
						l = 32
					}
					r := newRng(fmt.Sprintf("%d|%s|extra|%d", *seed, j.id, extra))
					run(g, missing, l, v, r)
					v++
				}
			}
		}()
	}
	for _, id := range order {
		jobs <- job{groups[id], id}
	}
	close(jobs)
	wg.Wait()

	runKAT()
	probeEthLargeX(strconv.Itoa(*seed))

	for _, id := range order {
		g := groups[id]
		for _, c := range g.cases {
			if g.cov[c] > 0 {
				res.CasesCovered++
			} else {
				res.Uncovered = append(res.Uncovered, id+" comp="+c.Comp)
			}
		}
	}
	sort.Slice(res.Failures, func(i, j int) bool {
		a, b := res.Failures[i], res.Failures[j]
		if a.Site != b.Site {
			return a.Site < b.Site
		}
		return a.Class < b.Class
	})
	out, _ := json.MarshalIndent(res, "", " ")
	if *outPath == "" {
		fmt.Println(string(out))
	} else if err := os.WriteFile(*outPath, out, 0o644); err != nil {
		fmt.Fprintln(os.Stderr, err)
		os.Exit(2)
	}
	fmt.Printf("sigdrv: %d cases, %d covered, %d evaluations, %d failures, %d harness errors\n", res.Cases, res.CasesCovered, res.Evaluations, res.FailuresTotal, len(res.HarnessErrors))
}
