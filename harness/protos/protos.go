// Package protos builds handlers of the real protocols for the simulator.
package protos

import (
	"encoding/json"
	"fmt"
	"io"
	"math/big"
	"os"
	"sort"
	"sync"

	"github.com/cronokirby/saferith"
	"github.com/taurusgroup/multi-party-sig/internal/types"
	"github.com/taurusgroup/multi-party-sig/pkg/ecdsa"
	"github.com/taurusgroup/multi-party-sig/pkg/math/curve"
	"github.com/taurusgroup/multi-party-sig/pkg/math/polynomial"
	"github.com/taurusgroup/multi-party-sig/pkg/math/sample"
	"github.com/taurusgroup/multi-party-sig/pkg/paillier"
	"github.com/taurusgroup/multi-party-sig/pkg/party"
	"github.com/taurusgroup/multi-party-sig/pkg/pedersen"
	"github.com/taurusgroup/multi-party-sig/pkg/pool"
	"github.com/taurusgroup/multi-party-sig/pkg/protocol"
	"github.com/taurusgroup/multi-party-sig/protocols/cmp"
	cmpconfig "github.com/taurusgroup/multi-party-sig/protocols/cmp/config"
	"github.com/taurusgroup/multi-party-sig/protocols/cmp/presign"
	"github.com/taurusgroup/multi-party-sig/protocols/doerner"
	"github.com/taurusgroup/multi-party-sig/protocols/example"
	"github.com/taurusgroup/multi-party-sig/protocols/frost"
	"github.com/taurusgroup/multi-party-sig/verifharness/sim"
	"github.com/taurusgroup/multi-party-sig/verifharness/toy"
)

// Pool is handed to every start function that takes one.  nil (the default) keeps all work on the calling goroutine,
// which the deterministic simulation needs; scenarios that look at what a worker goroutine does with network input
// set it for their duration.
var Pool *pool.Pool

// Group used everywhere.
var Group = curve.Secp256k1{}

// Maker constructs a handler for one party.
type Maker func() (protocol.Handler, error)

// Session describes one protocol session: a maker per party.
type Session struct {
	Name   string
	IDs    []party.ID // sorted
	Makers map[party.ID]Maker
	Two    bool
}

func sorted(ids []party.ID) []party.ID {
	s := append([]party.ID(nil), ids...)
	sort.Slice(s, func(i, j int) bool { return s[i] < s[j] })
	return s
}

// A StartFunc must not be reused for a second handler (FROST keygen's closure keeps state from the first
// call and would start the second one in refresh mode), so makers build a fresh one every time.
// ReuseStartFuncs: when set, a Maker keeps the first StartFunc it built and hands the SAME function value to every later
// handler (an application that holds on to its start function and runs a second session with it).
var ReuseStartFuncs bool

func multi(mk func() protocol.StartFunc, sid []byte) Maker {
	var kept protocol.StartFunc
	return func() (protocol.Handler, error) {
		sf := mk()
		if ReuseStartFuncs {
			if kept == nil {
				kept = sf
			}
			sf = kept
		}
		h, err := protocol.NewMultiHandler(sf, sid)
		if err != nil {
			return nil, err
		}
		return h, nil
	}
}

func two(mk func() protocol.StartFunc, sid []byte, leader bool) Maker {
	var kept protocol.StartFunc
	return func() (protocol.Handler, error) {
		sf := mk()
		if ReuseStartFuncs {
			if kept == nil {
				kept = sf
			}
			sf = kept
		}
		h, err := protocol.NewTwoPartyHandler(sf, sid, leader)
		if err != nil {
			return nil, err
		}
		return h, nil
	}
}

// Toy session.
func Toy(ids []party.ID, shape toy.Shape, sid []byte) *Session {
	s := &Session{Name: "toy", IDs: sorted(ids), Makers: map[party.ID]Maker{}}
	for _, id := range ids {
		s.Makers[id] = multi(func() protocol.StartFunc { return toy.Start(id, sorted(ids), shape) }, sid)
	}
	return s
}

// Xor session (the library's example protocol).
func Xor(ids []party.ID, sid []byte) *Session {
	s := &Session{Name: "xor", IDs: sorted(ids), Makers: map[party.ID]Maker{}}
	for _, id := range ids {
		s.Makers[id] = multi(func() protocol.StartFunc { return example.StartXOR(id, party.NewIDSlice(ids)) }, sid)
	}
	return s
}

// FrostKeygen session.
func FrostKeygen(ids []party.ID, t int, taproot bool, sid []byte) *Session {
	s := &Session{Name: "frost-keygen", IDs: sorted(ids), Makers: map[party.ID]Maker{}}
	for _, id := range ids {
		if taproot {
			s.Makers[id] = multi(func() protocol.StartFunc { return frost.KeygenTaproot(id, ids, t) }, sid)
		} else {
			s.Makers[id] = multi(func() protocol.StartFunc { return frost.Keygen(Group, id, ids, t) }, sid)
		}
	}
	if taproot {
		s.Name = "taproot-keygen"
	}
	return s
}

// FrostRefresh session from configs (either *frost.Config or *frost.TaprootConfig).
func FrostRefresh(cfgs map[party.ID]interface{}, sid []byte) *Session {
	ids := idsOf(cfgs)
	s := &Session{Name: "frost-refresh", IDs: ids, Makers: map[party.ID]Maker{}}
	for _, id := range ids {
		switch c := cfgs[id].(type) {
		case *frost.Config:
			s.Makers[id] = multi(func() protocol.StartFunc { return frost.Refresh(c, ids) }, sid)
		case *frost.TaprootConfig:
			s.Makers[id] = multi(func() protocol.StartFunc { return frost.RefreshTaproot(c, ids) }, sid)
			s.Name = "taproot-refresh"
		}
	}
	return s
}

// FrostSign session among signers.
func FrostSign(cfgs map[party.ID]interface{}, signers []party.ID, msg []byte, sid []byte) *Session {
	s := &Session{Name: "frost-sign", IDs: sorted(signers), Makers: map[party.ID]Maker{}}
	for _, id := range signers {
		switch c := cfgs[id].(type) {
		case *frost.Config:
			s.Makers[id] = multi(func() protocol.StartFunc { return frost.Sign(c, signers, msg) }, sid)
		case *frost.TaprootConfig:
			s.Makers[id] = multi(func() protocol.StartFunc { return frost.SignTaproot(c, signers, msg) }, sid)
			s.Name = "taproot-sign"
		}
	}
	return s
}

// CmpKeygen session.
func CmpKeygen(ids []party.ID, t int, sid []byte) *Session {
	s := &Session{Name: "cmp-keygen", IDs: sorted(ids), Makers: map[party.ID]Maker{}}
	for _, id := range ids {
		s.Makers[id] = multi(func() protocol.StartFunc { return cmp.Keygen(Group, id, ids, t, Pool) }, sid)
	}
	return s
}

// CmpRefresh session.
func CmpRefresh(cfgs map[party.ID]interface{}, sid []byte) *Session {
	ids := idsOf(cfgs)
	s := &Session{Name: "cmp-refresh", IDs: ids, Makers: map[party.ID]Maker{}}
	for _, id := range ids {
		s.Makers[id] = multi(func() protocol.StartFunc { return cmp.Refresh(cfgs[id].(*cmp.Config), Pool) }, sid)
	}
	return s
}

// CmpSign session.
func CmpSign(cfgs map[party.ID]interface{}, signers []party.ID, msg []byte, sid []byte) *Session {
	s := &Session{Name: "cmp-sign", IDs: sorted(signers), Makers: map[party.ID]Maker{}}
	for _, id := range signers {
		s.Makers[id] = multi(func() protocol.StartFunc { return cmp.Sign(cfgs[id].(*cmp.Config), signers, msg, Pool) }, sid)
	}
	return s
}

// CmpPresign session (offline: presignature only).
func CmpPresign(cfgs map[party.ID]interface{}, signers []party.ID, sid []byte) *Session {
	s := &Session{Name: "cmp-presign", IDs: sorted(signers), Makers: map[party.ID]Maker{}}
	for _, id := range signers {
		s.Makers[id] = multi(func() protocol.StartFunc { return cmp.Presign(cfgs[id].(*cmp.Config), signers, Pool) }, sid)
	}
	return s
}

// CmpPresignFull session: presigning WITH the message (protocols/cmp/presign.StartPresign, the mode the library's own
// presign tests drive): seven presign rounds followed by the signing round.
func CmpPresignFull(cfgs map[party.ID]interface{}, signers []party.ID, msg []byte, sid []byte) *Session {
	s := &Session{Name: "cmp-presign-full", IDs: sorted(signers), Makers: map[party.ID]Maker{}}
	for _, id := range signers {
		s.Makers[id] = multi(func() protocol.StartFunc { return presign.StartPresign(cfgs[id].(*cmp.Config), signers, msg, Pool) }, sid)
	}
	return s
}

// CmpPresignOnline session.
func CmpPresignOnline(cfgs map[party.ID]interface{}, pres map[party.ID]*ecdsa.PreSignature, signers []party.ID, msg []byte, sid []byte) *Session {
	s := &Session{Name: "cmp-presign-online", IDs: sorted(signers), Makers: map[party.ID]Maker{}}
	for _, id := range signers {
		s.Makers[id] = multi(func() protocol.StartFunc { return cmp.PresignOnline(cfgs[id].(*cmp.Config), pres[id], msg, Pool) }, sid)
	}
	return s
}

// DoernerKeygen session: ids[0] is the receiver (leader), ids[1] the sender.
func DoernerKeygen(recv, send party.ID, sid []byte) *Session {
	s := &Session{Name: "doerner-keygen", IDs: sorted([]party.ID{recv, send}), Makers: map[party.ID]Maker{}, Two: true}
	s.Makers[recv] = two(func() protocol.StartFunc { return doerner.Keygen(Group, true, recv, send, Pool) }, sid, true)
	s.Makers[send] = two(func() protocol.StartFunc { return doerner.Keygen(Group, false, send, recv, Pool) }, sid, false)
	return s
}

// DoernerRefresh session.
func DoernerRefresh(recv, send party.ID, cr *doerner.ConfigReceiver, cs *doerner.ConfigSender, sid []byte) *Session {
	s := &Session{Name: "doerner-refresh", IDs: sorted([]party.ID{recv, send}), Makers: map[party.ID]Maker{}, Two: true}
	s.Makers[recv] = two(func() protocol.StartFunc { return doerner.RefreshReceiver(cr, recv, send, Pool) }, sid, true)
	s.Makers[send] = two(func() protocol.StartFunc { return doerner.RefreshSender(cs, send, recv, Pool) }, sid, false)
	return s
}

// DoernerSign session (both parties start, as in the library's own test).
func DoernerSign(recv, send party.ID, cr *doerner.ConfigReceiver, cs *doerner.ConfigSender, msg []byte, sid []byte) *Session {
	s := &Session{Name: "doerner-sign", IDs: sorted([]party.ID{recv, send}), Makers: map[party.ID]Maker{}, Two: true}
	s.Makers[recv] = two(func() protocol.StartFunc { return doerner.SignReceiver(cr, recv, send, msg, Pool) }, sid, true)
	s.Makers[send] = two(func() protocol.StartFunc { return doerner.SignSender(cs, send, recv, msg, Pool) }, sid, true)
	return s
}

func idsOf(cfgs map[party.ID]interface{}) []party.ID {
	var ids []party.ID
	for id := range cfgs {
		ids = append(ids, id)
	}
	return sorted(ids)
}

// ---------------------------------------------------------------------------------------------
// safe primes for CMP (verif hook)

var (
	primesOnce sync.Once
	primes     []*big.Int
)

// InstallPrimeSource makes sample.Paillier return fixture primes, chosen by the bytes read
// from the caller's random source (so the choice is deterministic per party stream).
func InstallPrimeSource(path string) error {
	var err error
	primesOnce.Do(func() {
		var raw []byte
		raw, err = os.ReadFile(path)
		if err != nil {
			return
		}
		var hexes []string
		if err = json.Unmarshal(raw, &hexes); err != nil {
			return
		}
		for _, h := range hexes {
			b, ok := new(big.Int).SetString(h, 16)
			if !ok {
				err = fmt.Errorf("bad prime in %s", path)
				return
			}
			primes = append(primes, b)
		}
	})
	if err != nil {
		return err
	}
	if len(primes) < 2 {
		return fmt.Errorf("need at least two primes in %s", path)
	}
	sample.VerifPrimeSource = func(rnd io.Reader) (p, q *saferith.Nat) {
		var b [2]byte
		if _, e := io.ReadFull(rnd, b[:]); e != nil {
			return nil, nil
		}
		i := int(b[0]) % len(primes)
		j := int(b[1]) % (len(primes) - 1)
		if j >= i {
			j++
		}
		return new(saferith.Nat).SetBig(primes[i], 1024), new(saferith.Nat).SetBig(primes[j], 1024)
	}
	return nil
}

// ---------------------------------------------------------------------------------------------
// honest runner

// RunResult is the outcome of a session run.
type RunResult struct {
	Results   map[party.ID]interface{}
	Status    map[party.ID]sim.Status
	Anomalies []string
	Engine    *sim.Engine
	Delivered int
}

// RunOpts configure Run.
type RunOpts struct {
	Seed    string   // label of the per-party random streams
	Sched   *sim.Rng // nil: FIFO
	Log     bool
	Alias   map[party.ID]string
	DupProb int // percent of deliveries that are duplicated
	Drop    func(d *sim.Delivery) bool // deliveries the network loses (nil: none)
	StopAll bool                       // when nothing is in flight any more, every party that is still running is stopped
}

// Run executes a session with all parties honest under a random (or FIFO) schedule.
func Run(s *Session, o RunOpts) (*RunResult, error) {
	e := sim.NewEngine(s.IDs, s.IDs, 0)
	e.Log = o.Log
	e.Alias = o.Alias
	for _, id := range s.IDs {
		p, err, pv := sim.NewParty(id, sim.NewDetReader(o.Seed+"/"+string(id)), s.Makers[id])
		if pv != "" {
			return nil, fmt.Errorf("panic constructing %s: %s", id, pv)
		}
		if err != nil {
			return nil, fmt.Errorf("constructing %s: %w", id, err)
		}
		e.AddParty(id, p)
	}
	rr := &RunResult{Engine: e}
	for len(e.Net.Pending) > 0 {
		i := 0
		if o.Sched != nil {
			i = o.Sched.Intn(len(e.Net.Pending))
		}
		var d *sim.Delivery
		if o.Sched != nil && o.DupProb > 0 && o.Sched.Intn(100) < o.DupProb {
			d = e.Net.Pending[i] // deliver, but keep it pending: a duplicate
		} else {
			d = e.Net.Take(i)
		}
		if o.Drop != nil && o.Drop(d) {
			continue
		}
		e.Deliver(d.To, d.Msg, "ok")
		rr.Delivered++
		if rr.Delivered > 100000 {
			return rr, fmt.Errorf("runaway session")
		}
	}
	if o.StopAll {
		for _, id := range s.IDs {
			if p := e.Parties[id]; p.Status().St == "run" {
				p.Call(func() { p.H.Stop() })
			}
		}
	}
	rr.Results = map[party.ID]interface{}{}
	rr.Status = map[party.ID]sim.Status{}
	for _, id := range s.IDs {
		st := e.Parties[id].Status()
		rr.Status[id] = st
		if st.St == "done" {
			rr.Results[id] = st.Result
		}
	}
	rr.Anomalies = e.Anomalies
	return rr, nil
}

// AllDone reports whether every party finished with a result.
func (r *RunResult) AllDone() bool {
	for _, st := range r.Status {
		if st.St != "done" {
			return false
		}
	}
	return len(r.Anomalies) == 0
}

// Describe summarises the statuses (for error reports).
func (r *RunResult) Describe() string {
	s := ""
	var ids []string
	for id := range r.Status {
		ids = append(ids, string(id))
	}
	sort.Strings(ids)
	for _, id := range ids {
		st := r.Status[party.ID(id)]
		s += fmt.Sprintf("%s:%s", id, st.St)
		if st.Err != nil {
			s += "(" + st.Err.Error() + ")"
		}
		s += " "
	}
	if len(r.Anomalies) > 0 {
		s += fmt.Sprint(r.Anomalies)
	}
	return s
}

// ---------------------------------------------------------------------------------------------
// trusted-dealer CMP material (what the library's own tests use instead of running keygen);
// InstallPrimeSource must have been called so that Paillier keys come from the fixture primes.

// DealCmp creates consistent CMP configs for ids with threshold t from the deterministic stream `seed`.
func DealCmp(ids []party.ID, t int, seed string) map[party.ID]interface{} {
	out := map[party.ID]interface{}{}
	src := sim.NewDetReader("deal/" + seed)
	sim.WithRand(src, func() {
		group := Group
		public := make(map[party.ID]*cmpconfig.Public, len(ids))
		f := polynomial.NewPolynomial(group, t, sample.Scalar(src, group))
		rid, _ := types.NewRID(src)
		chainKey, _ := types.NewRID(src)
		for _, pid := range sorted(ids) {
			paillierSecret := paillier.NewSecretKey(nil)
			s, tt, _ := sample.Pedersen(src, paillierSecret.Phi(), paillierSecret.N())
			pedersenPublic := pedersen.New(paillierSecret.Modulus(), s, tt)
			elGamalSecret := sample.Scalar(src, group)
			ecdsaSecret := f.Evaluate(pid.Scalar(group))
			out[pid] = &cmp.Config{
				Group: group, ID: pid, Threshold: t, ECDSA: ecdsaSecret, ElGamal: elGamalSecret,
				Paillier: paillierSecret, RID: rid.Copy(), ChainKey: chainKey.Copy(), Public: public,
			}
			public[pid] = &cmpconfig.Public{
				ECDSA: ecdsaSecret.ActOnBase(), ElGamal: elGamalSecret.ActOnBase(),
				Paillier: paillierSecret.PublicKey, Pedersen: pedersenPublic,
			}
		}
	})
	return out
}

// ---------------------------------------------------------------------------------------------

// CloneConfig deep-copies key material so that a session cannot alter what another one starts from
// (FROST refresh adds the new sub-shares to the caller's PrivateShare in place).
func CloneConfig(cfg interface{}) interface{} {
	switch c := cfg.(type) {
	case *frost.Config:
		pts := map[party.ID]curve.Point{}
		for id, p := range c.VerificationShares.Points {
			pts[id] = p.Add(p.Curve().NewPoint())
		}
		return &frost.Config{ID: c.ID, Threshold: c.Threshold,
			PrivateShare:       c.PrivateShare.Curve().NewScalar().Set(c.PrivateShare),
			PublicKey:          c.PublicKey.Add(c.PublicKey.Curve().NewPoint()),
			ChainKey:           append([]byte(nil), c.ChainKey...),
			VerificationShares: party.NewPointMap(pts)}
	case *frost.TaprootConfig:
		cl := c.Clone()
		vs := map[party.ID]*curve.Secp256k1Point{}
		for id, p := range c.VerificationShares {
			vs[id] = p.Add(curve.Secp256k1{}.NewPoint()).(*curve.Secp256k1Point)
		}
		cl.VerificationShares = vs
		return cl
	case *cmp.Config:
		b, err := c.MarshalBinary()
		if err != nil {
			return c
		}
		out := cmp.EmptyConfig(c.Group)
		if err := out.UnmarshalBinary(b); err != nil {
			return c
		}
		return out
	case *doerner.ConfigReceiver:
		return &doerner.ConfigReceiver{Setup: c.Setup, SecretShare: c.SecretShare.Curve().NewScalar().Set(c.SecretShare),
			Public: c.Public.Add(c.Public.Curve().NewPoint()), ChainKey: append([]byte(nil), c.ChainKey...)}
	case *doerner.ConfigSender:
		return &doerner.ConfigSender{Setup: c.Setup, SecretShare: c.SecretShare.Curve().NewScalar().Set(c.SecretShare),
			Public: c.Public.Add(c.Public.Curve().NewPoint()), ChainKey: append([]byte(nil), c.ChainKey...)}
	}
	return cfg
}

// CloneConfigs clones a whole map.
func CloneConfigs(cfgs map[party.ID]interface{}) map[party.ID]interface{} {
	out := map[party.ID]interface{}{}
	for id, c := range cfgs {
		out[id] = CloneConfig(c)
	}
	return out
}
