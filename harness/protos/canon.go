package protos

import (
	"encoding"
	"encoding/hex"
	"fmt"
	"math/big"
	"reflect"
	"sort"
	"strings"
	"unsafe"

	"github.com/cronokirby/saferith"
	"github.com/taurusgroup/multi-party-sig/pkg/hash"
)

// Canon renders any value (results, configs, signatures) deterministically and deeply, including
// unexported fields, so that two results can be compared for equality independent of pointers.
func Canon(v interface{}) string {
	var sb strings.Builder
	canon(&sb, reflect.ValueOf(v), 0)
	return sb.String()
}

var (
	binMarsh = reflect.TypeOf((*encoding.BinaryMarshaler)(nil)).Elem()
)

func access(v reflect.Value) reflect.Value {
	if v.CanInterface() {
		return v
	}
	if v.CanAddr() {
		return reflect.NewAt(v.Type(), unsafe.Pointer(v.UnsafeAddr())).Elem()
	}
	// read-only and not addressable: the kind-based walk below still works, only Interface() is denied
	return v
}

func canon(sb *strings.Builder, v reflect.Value, depth int) {
	if depth > 40 {
		sb.WriteString("<deep>")
		return
	}
	if !v.IsValid() {
		sb.WriteString("nil")
		return
	}
	v = access(v)
	// special types first
	if v.CanInterface() {
		switch x := v.Interface().(type) {
		case *saferith.Nat:
			if x == nil {
				sb.WriteString("nil")
			} else {
				sb.WriteString("nat:" + x.Big().Text(16))
			}
			return
		case *saferith.Int:
			if x == nil {
				sb.WriteString("nil")
			} else {
				sb.WriteString("int:" + x.Big().Text(16))
			}
			return
		case *saferith.Modulus:
			if x == nil {
				sb.WriteString("nil")
			} else {
				sb.WriteString("mod:" + x.Big().Text(16))
			}
			return
		case *big.Int:
			if x == nil {
				sb.WriteString("nil")
			} else {
				sb.WriteString("big:" + x.Text(16))
			}
			return
		case *hash.Hash:
			if x == nil {
				sb.WriteString("nil")
			} else {
				sb.WriteString("hash:" + hex.EncodeToString(x.Clone().Sum()))
			}
			return
		case []byte:
			if x == nil {
				sb.WriteString("bytes:nil")
			} else {
				sb.WriteString("bytes:" + hex.EncodeToString(x))
			}
			return
		}
		if v.Kind() == reflect.Ptr || v.Kind() == reflect.Interface {
			if v.IsNil() {
				sb.WriteString("nil")
				return
			}
		}
		if v.Type().Implements(binMarsh) && v.Kind() != reflect.Interface && (strings.Contains(v.Type().String(), "curve.") || strings.Contains(v.Type().String(), "Ciphertext")) {
			bm := v.Interface().(encoding.BinaryMarshaler)
			b, err := func() (b []byte, err error) {
				defer func() {
					if r := recover(); r != nil {
						err = fmt.Errorf("panic %v", r)
					}
				}()
				return bm.MarshalBinary()
			}()
			if err == nil {
				sb.WriteString(v.Type().String() + ":" + hex.EncodeToString(b))
				return
			}
		}
	}
	switch v.Kind() {
	case reflect.Ptr, reflect.Interface:
		if v.IsNil() {
			sb.WriteString("nil")
			return
		}
		canon(sb, v.Elem(), depth+1)
	case reflect.Struct:
		sb.WriteString(v.Type().String() + "{")
		for i := 0; i < v.NumField(); i++ {
			f := v.Field(i)
			switch f.Kind() {
			case reflect.Func, reflect.Chan, reflect.UnsafePointer:
				continue
			}
			tn := f.Type().String()
			if strings.Contains(tn, "sync.") || strings.Contains(tn, "pool.Pool") {
				continue
			}
			sb.WriteString(v.Type().Field(i).Name + "=")
			canon(sb, f, depth+1)
			sb.WriteString(";")
		}
		sb.WriteString("}")
	case reflect.Map:
		type kv struct{ k, v string }
		var items []kv
		iter := v.MapRange()
		for iter.Next() {
			var kb, vb strings.Builder
			canon(&kb, iter.Key(), depth+1)
			canon(&vb, iter.Value(), depth+1)
			items = append(items, kv{kb.String(), vb.String()})
		}
		sort.Slice(items, func(i, j int) bool { return items[i].k < items[j].k })
		sb.WriteString("map[")
		for _, it := range items {
			sb.WriteString(it.k + ":" + it.v + ",")
		}
		sb.WriteString("]")
	case reflect.Slice, reflect.Array:
		if v.Kind() == reflect.Slice && v.IsNil() {
			sb.WriteString("nil")
			return
		}
		if v.Type().Elem().Kind() == reflect.Uint8 {
			b := make([]byte, v.Len())
			for i := range b {
				b[i] = byte(v.Index(i).Uint())
			}
			sb.WriteString("bytes:" + hex.EncodeToString(b))
			return
		}
		sb.WriteString("[")
		for i := 0; i < v.Len(); i++ {
			canon(sb, v.Index(i), depth+1)
			sb.WriteString(",")
		}
		sb.WriteString("]")
	case reflect.String:
		fmt.Fprintf(sb, "%q", v.String())
	case reflect.Bool:
		fmt.Fprintf(sb, "%v", v.Bool())
	case reflect.Int, reflect.Int8, reflect.Int16, reflect.Int32, reflect.Int64:
		fmt.Fprintf(sb, "%d", v.Int())
	case reflect.Uint, reflect.Uint8, reflect.Uint16, reflect.Uint32, reflect.Uint64, reflect.Uintptr:
		fmt.Fprintf(sb, "%d", v.Uint())
	default:
		fmt.Fprintf(sb, "<%s>", v.Kind())
	}
}

// Field reads a (possibly unexported) field of a struct or pointer to struct.
func Field(v interface{}, name string) interface{} {
	rv := reflect.ValueOf(v)
	for rv.Kind() == reflect.Ptr || rv.Kind() == reflect.Interface {
		rv = rv.Elem()
	}
	if !rv.CanAddr() {
		cp := reflect.New(rv.Type()).Elem()
		cp.Set(rv)
		rv = cp
	}
	f := rv.FieldByName(name)
	if !f.IsValid() {
		return nil
	}
	f = reflect.NewAt(f.Type(), unsafe.Pointer(f.UnsafeAddr())).Elem()
	return f.Interface()
}
