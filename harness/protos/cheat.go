package protos

import (
	"fmt"
	"github.com/taurusgroup/multi-party-sig/internal/types"
	"github.com/taurusgroup/multi-party-sig/pkg/hash"
	"github.com/taurusgroup/multi-party-sig/pkg/paillier"
	"github.com/taurusgroup/multi-party-sig/pkg/pedersen"
	zksch "github.com/taurusgroup/multi-party-sig/pkg/zk/sch"
	"math/big"
	"reflect"
	"strings"
	"unsafe"

	"github.com/cronokirby/saferith"
	"github.com/taurusgroup/multi-party-sig/internal/round"
	"github.com/taurusgroup/multi-party-sig/pkg/ecdsa"
	"github.com/taurusgroup/multi-party-sig/pkg/math/arith"
	"github.com/taurusgroup/multi-party-sig/pkg/math/curve"
	"github.com/taurusgroup/multi-party-sig/pkg/math/polynomial"
	"github.com/taurusgroup/multi-party-sig/pkg/party"
	"github.com/taurusgroup/multi-party-sig/pkg/protocol"
	"github.com/taurusgroup/multi-party-sig/protocols/cmp"
	"github.com/taurusgroup/multi-party-sig/protocols/cmp/presign"
	"github.com/taurusgroup/multi-party-sig/protocols/doerner"
)

// A state-level cheater: a real party whose round objects are altered around Finalize, so that everything it
// sends carries passing proofs although its delta / chi contribution is inconsistent (the deviations of the
// library's own TestRoundFail, which drives them below the handler; here they run through MultiHandler).

// CheatRules lists the deviations of a presigner.
var CheatRules = []string{"delta", "gamma", "x-chi", "chi"}

type cheat struct {
	rule    string
	observe func(next round.Session) // sees every round the cheater enters (nil: none)
	// commit cheat: the malformed value is committed to consistently (see CommitCheat)
	commitRule string
	newCommit  interface{}
	// zero-constant dealer (FROST key generation): replacement polynomial commitment and proof for the round-2 broadcast
	zeroConst   bool
	newPhi      *polynomial.Exponent
	newSigma    *zksch.Proof
	applied     bool // a state alteration (doerner:kinv, frost:degree) was carried out
	degreeDelta int
	newPed      *pedersen.Parameters // commit cheat n-giant: the parameters the cheater announces
}

func typeName(s interface{}) string {
	t := reflect.TypeOf(s)
	for t.Kind() == reflect.Ptr {
		t = t.Elem()
	}
	return t.Name()
}

func field(s interface{}, name string) reflect.Value {
	v := reflect.ValueOf(s)
	for v.Kind() == reflect.Ptr || v.Kind() == reflect.Interface {
		v = v.Elem()
	}
	return v.FieldByName(name)
}

func one(g curve.Curve) curve.Scalar { return g.NewScalar().SetNat(new(saferith.Nat).SetUint64(1)) }

func addInt(x *saferith.Int, d int64) *saferith.Int {
	di := new(saferith.Int).SetUint64(1)
	if d < 0 {
		di.Neg(1)
	}
	return new(saferith.Int).Add(x, di, -1)
}

// wrongShares: in CMP key generation / refresh the shares are computed in round 3 from the polynomial that was committed to
// in round 1; the cheater evaluates ANOTHER polynomial (constant term + 1) there: every share it sends is a well-formed,
// in-range scalar that does not lie on the committed polynomial.
func (c *cheat) wrongShares(s round.Session) {}

// wrongShareTo: the round-4 message to ONE recipient (the first other party) carries an encryption of f(j) + 1 under the
// recipient's key - in range, well formed, with the genuine factor proof - instead of f(j).  The other parties are served
// correctly, so that they have no reason to stop before the victim is done.
func (c *cheat) wrongShareTo(next round.Session, m *round.Message) {
	if c.rule != "cmp:wrongshares" || typeName(m.Content) != "message4" || m.To != next.OtherPartyIDs()[0] {
		return
	}
	vss := field(next, "VSSSecret")
	pks := field(next, "PaillierPublic")
	if !vss.IsValid() || !pks.IsValid() {
		return
	}
	pk, ok := pks.MapIndex(reflect.ValueOf(m.To)).Interface().(*paillier.PublicKey)
	if !ok || pk == nil {
		return
	}
	share := vss.Interface().(*polynomial.Polynomial).Evaluate(m.To.Scalar(next.Group()))
	wrong := next.Group().NewScalar().Set(share).Add(one(next.Group()))
	ct, _ := pk.Enc(curve.MakeInt(wrong))
	if f := field(m.Content, "Share"); f.IsValid() && f.CanSet() {
		f.Set(reflect.ValueOf(ct))
	}
}

func (c *cheat) before(s round.Session) {
	c.frostBefore(s)
	c.wrongShares(s)
	if typeName(s) != "presign3" {
		return
	}
	switch c.rule {
	case "gamma":
		f := field(s, "GammaShare")
		f.Set(reflect.ValueOf(addInt(f.Interface().(*saferith.Int), -1)))
	case "x-chi":
		f := field(s, "SecretECDSA")
		x := f.Interface().(curve.Scalar)
		f.Set(reflect.ValueOf(one(s.Group()).Negate().Add(x)))
	}
}

func (c *cheat) after(next round.Session) {
	switch typeName(next) {
	case "presign4":
		switch c.rule {
		case "delta":
			f := field(next, "DeltaShares")
			self := reflect.ValueOf(next.SelfID())
			cur := f.MapIndex(self).Interface().(curve.Scalar)
			f.SetMapIndex(self, reflect.ValueOf(next.Group().NewScalar().Set(cur).Sub(one(next.Group()))))
		case "gamma":
			f := field(next, "GammaShare")
			f.Set(reflect.ValueOf(addInt(f.Interface().(*saferith.Int), 1)))
		case "x-chi":
			f := field(next, "SecretECDSA")
			x := f.Interface().(curve.Scalar)
			f.Set(reflect.ValueOf(one(next.Group()).Add(x)))
		}
	case "presign3":
		if c.rule == "chi" {
			f := field(next, "SecretECDSA")
			x := f.Interface().(curve.Scalar)
			f.Set(reflect.ValueOf(one(next.Group()).Add(x)))
		}
	}
}

func malformRID(b types.RID, how string) types.RID {
	switch how {
	case "short":
		return types.RID{0x5a}
	case "long":
		return append(append(types.RID{}, b...), 0x5a)
	case "empty":
		return types.RID{}
	}
	return b
}

// recommit: after round 1 of a key generation / refresh the cheater replaces the chain-key contribution (or the RID) it
// just committed to by a malformed one and commits again, so that its later opening is consistent.
func (c *cheat) recommit(next round.Session) {
	if c.commitRule == "" || typeName(next) != "round2" || c.newCommit != nil {
		return
	}
	hf, ok := next.(interface{ HashForID(party.ID) *hash.Hash })
	if !ok {
		return
	}
	what, how := c.commitRule[:strings.Index(c.commitRule, "-")], c.commitRule[strings.Index(c.commitRule, "-")+1:]
	self := reflect.ValueOf(next.SelfID())
	cks := field(next, "ChainKeys")
	if !cks.IsValid() || !cks.MapIndex(self).IsValid() {
		return
	}
	ck := cks.MapIndex(self).Interface().(types.RID)
	if rids := field(next, "RIDs"); rids.IsValid() { // CMP: commit(rid, c, F, A, Y, N, s, t)
		rid := rids.MapIndex(self).Interface().(types.RID)
		switch what {
		case "rid":
			rid = malformRID(rid, how)
		case "c":
			ck = malformRID(ck, how)
		}
		vss := field(next, "VSSPolynomials").MapIndex(self).Interface()
		sch := field(next, "SchnorrRand").Interface().(interface{ Commitment() *zksch.Commitment })
		eg := field(next, "ElGamalPublic").MapIndex(self).Interface()
		ped := field(next, "Pedersen").MapIndex(self).Interface().(*pedersen.Parameters)
		if what == "n" {
			// an oversized modulus (64 KB, odd) with s = 2, t = 3: nothing but the size check stands against it before it is used
			nb := make([]byte, 64<<10)
			for i := range nb {
				nb[i] = byte(37*i + 11)
			}
			nb[0] |= 0x80
			nb[len(nb)-1] |= 1
			for new(big.Int).Mod(new(big.Int).SetBytes(nb), big.NewInt(3)).Sign() == 0 { // coprime to t = 3
				nb[len(nb)-1] += 2
			}
			// (only what the cheater SENDS carries the big modulus - commitment, opening and the N, s, t of its round 3
			// broadcast; its own state keeps the real parameters, it does not have to compute with the monster itself)
			ped = pedersen.New(arith.ModulusFromN(saferith.ModulusFromBytes(nb)), new(saferith.Nat).SetUint64(2), new(saferith.Nat).SetUint64(3))
			c.newPed = ped
		}
		com, dec, err := hf.HashForID(next.SelfID()).Commit(rid, ck, vss, sch.Commitment(), eg, ped.N(), ped.S(), ped.T())
		if err != nil {
			return
		}
		rids.SetMapIndex(self, reflect.ValueOf(rid))
		cks.SetMapIndex(self, reflect.ValueOf(ck))
		field(next, "Commitments").SetMapIndex(self, reflect.ValueOf(com))
		field(next, "Decommitment").Set(reflect.ValueOf(dec))
		c.newCommit = com
		return
	}
	if what != "c" { // FROST commits to the chain-key contribution only
		return
	}
	ck = malformRID(ck, how)
	com, dec, err := hf.HashForID(next.SelfID()).Commit(ck)
	if err != nil {
		return
	}
	cks.SetMapIndex(self, reflect.ValueOf(ck))
	field(next, "ChainKeyDecommitment").Set(reflect.ValueOf(dec))
	c.newCommit = com
}

// zeroDeal: after round 1 of a FROST key generation the cheater replaces its polynomial by one whose constant term is zero
// (its contribution to the key is the identity), with the matching commitment and an honestly made proof of knowledge of 0.
func (c *cheat) zeroDeal(next round.Session) {
	if !c.zeroConst || typeName(next) != "round2" || c.newPhi != nil {
		return
	}
	fi := field(next, "f_i")
	hf, ok := next.(interface{ HashForID(party.ID) *hash.Hash })
	if !fi.IsValid() || !ok {
		return
	}
	var deg int
	setUnexported(next, "f_i", func(old interface{}) interface{} {
		deg = int(old.(*polynomial.Polynomial).Degree())
		return polynomial.NewPolynomial(next.Group(), deg, next.Group().NewScalar())
	})
	var f *polynomial.Polynomial
	setUnexported(next, "f_i", func(old interface{}) interface{} { f = old.(*polynomial.Polynomial); return old })
	c.newPhi = polynomial.NewPolynomialExponent(f)
	// the honest prover refuses the identity; the equation z G = C + e * identity holds for any z with C = z G
	_ = hf
	z := one(next.Group())
	c.newSigma = &zksch.Proof{C: zksch.Commitment{C: z.ActOnBase()}, Z: zksch.Response{Z: z}}
	field(next, "Phi").SetMapIndex(reflect.ValueOf(next.SelfID()), reflect.ValueOf(c.newPhi))
}

func (c *cheat) beforeSend(next round.Session, m *round.Message) {
	c.frostBeforeSend(next, m)
	c.wrongShareTo(next, m)
	if c.newPhi != nil && typeName(m.Content) == "broadcast2" {
		if f := field(m.Content, "Phi_i"); f.IsValid() && f.CanSet() {
			f.Set(reflect.ValueOf(c.newPhi))
		}
		if f := field(m.Content, "Sigma_i"); f.IsValid() && f.CanSet() {
			f.Set(reflect.ValueOf(c.newSigma))
		}
	}
	if c.newPed != nil && typeName(m.Content) == "broadcast3" {
		for name, v := range map[string]interface{}{"N": c.newPed.N(), "S": c.newPed.S(), "T": c.newPed.T()} {
			if f := field(m.Content, name); f.IsValid() && f.CanSet() {
				f.Set(reflect.ValueOf(v))
			}
		}
	}
	if c.newCommit != nil {
		if f := field(m.Content, "Commitment"); f.IsValid() && f.CanSet() && f.Type() == reflect.TypeOf(c.newCommit) {
			f.Set(reflect.ValueOf(c.newCommit))
		}
	}
	if c.rule == "delta" && typeName(m.Content) == "broadcast4" {
		f := field(m.Content, "DeltaShare")
		cur := f.Interface().(curve.Scalar)
		f.Set(reflect.ValueOf(next.Group().NewScalar().Set(cur).Sub(one(next.Group()))))
	}
}

type proxy struct {
	round.Session
	c *cheat
}

type proxyB struct{ proxy }

func (p *proxyB) StoreBroadcastMessage(msg round.Message) error {
	return p.Session.(round.BroadcastRound).StoreBroadcastMessage(msg)
}
func (p *proxyB) BroadcastContent() round.BroadcastContent {
	return p.Session.(round.BroadcastRound).BroadcastContent()
}

func wrap(s round.Session, c *cheat) round.Session {
	switch s.(type) {
	case *round.Abort, *round.Output:
		return s
	}
	if _, ok := s.(round.BroadcastRound); ok {
		return &proxyB{proxy{s, c}}
	}
	return &proxy{s, c}
}

func (p *proxy) Finalize(out chan<- *round.Message) (round.Session, error) {
	p.c.before(p.Session)
	tmp := make(chan *round.Message, 64)
	next, err := p.Session.Finalize(tmp)
	close(tmp)
	if next != nil && err == nil {
		p.c.recommit(next)
		p.c.zeroDeal(next)
		p.c.after(next)
		p.c.doernerAfter(next)
		p.c.degreeAfter(next)
		if p.c.observe != nil {
			p.c.observe(next)
		}
	}
	for m := range tmp {
		if next != nil {
			p.c.beforeSend(next, m)
		}
		out <- m
	}
	if err != nil || next == nil {
		return next, err
	}
	if next == p.Session {
		return p, nil
	}
	return wrap(next, p.c), nil
}

// CmpPresignCheat builds a presign session (offline when msg is nil, full otherwise) in which `cheater` deviates
// at state level according to rule; everybody else is honest.
func CmpPresignCheat(cfgs map[party.ID]interface{}, signers []party.ID, msg []byte, cheater party.ID, rule string, sid []byte) *Session {
	s := &Session{Name: "cmp-presign-cheat", IDs: sorted(signers), Makers: map[party.ID]Maker{}}
	for _, id := range signers {
		id := id
		mk := func() protocol.StartFunc { return presign.StartPresign(cfgs[id].(*cmp.Config), signers, msg, nil) }
		if id == cheater {
			s.Makers[id] = multi(func() protocol.StartFunc {
				inner := mk()
				return func(sessionID []byte) (round.Session, error) {
					r, err := inner(sessionID)
					if err != nil {
						return nil, err
					}
					return wrap(r, &cheat{rule: rule}), nil
				}
			}, sid)
		} else {
			s.Makers[id] = multi(mk, sid)
		}
	}
	return s
}

// TamperPreSignature returns a copy of the cheater's presignature whose sigma share will be inconsistent.
func TamperPreSignature(p *ecdsa.PreSignature, what string) (*ecdsa.PreSignature, error) {
	b := *p
	g := p.Group()
	switch what {
	case "k":
		b.KShare = g.NewScalar().Set(p.KShare).Add(one(g))
	case "chi":
		b.ChiShare = g.NewScalar().Set(p.ChiShare).Add(one(g))
	default:
		return nil, fmt.Errorf("unknown tampering %q", what)
	}
	return &b, nil
}

// FrostDealerCheat makes `cheater` deal a polynomial whose degree differs from the agreed threshold by delta, with
// shares that are consistent with it (its round-1 state is altered before anything is sent), in a key generation
// or refresh session built by FrostKeygen / FrostRefresh.
func FrostDealerCheat(s *Session, cheater party.ID, delta int, sid []byte, mk func() protocol.StartFunc) {
	s.Makers[cheater] = multi(func() protocol.StartFunc {
		inner := mk()
		return func(sessionID []byte) (round.Session, error) {
			r, err := inner(sessionID)
			if err != nil {
				return nil, err
			}
			f := field(r, "threshold")
			if !f.IsValid() {
				return nil, fmt.Errorf("no threshold field in %T", r)
			}
			f = reflect.NewAt(f.Type(), unsafe.Pointer(f.UnsafeAddr())).Elem()
			if f.Int()+int64(delta) < 0 {
				return nil, fmt.Errorf("degree would be negative")
			}
			f.SetInt(f.Int() + int64(delta))
			// the dealer samples its polynomial with the altered degree in round 1 and goes back to the agreed threshold
			// afterwards: it checks what the others send like everybody else
			return wrap(r, &cheat{rule: "frost:degree", degreeDelta: delta}), nil
		}
	}, sid)
}

func (c *cheat) degreeAfter(next round.Session) {
	if c.rule != "frost:degree" || typeName(next) != "round2" || c.applied {
		return
	}
	if setUnexported(next, "threshold", func(old interface{}) interface{} { return old.(int) - c.degreeDelta }) {
		c.applied = true
	}
}

// PolySpy holds the secret polynomial of a FROST dealer once it has been sampled.
type PolySpy struct{ F *polynomial.Polynomial }

// FrostDealerSpy makes the secret polynomial of `cheater` visible to the scenario (the cheater itself behaves
// honestly; the scenario alters what it sends using that secret - a share for another evaluation point).
func FrostDealerSpy(s *Session, cheater party.ID, sid []byte, mk func() protocol.StartFunc) *PolySpy {
	spy := &PolySpy{}
	c := &cheat{observe: func(next round.Session) {
		f := field(next, "f_i")
		if !f.IsValid() || !f.CanAddr() {
			return
		}
		if p, ok := reflect.NewAt(f.Type(), unsafe.Pointer(f.UnsafeAddr())).Elem().Interface().(*polynomial.Polynomial); ok && p != nil {
			spy.F = p
		}
	}}
	s.Makers[cheater] = multi(func() protocol.StartFunc {
		inner := mk()
		return func(sessionID []byte) (round.Session, error) {
			r, err := inner(sessionID)
			if err != nil {
				return nil, err
			}
			return wrap(r, c), nil
		}
	}, sid)
	return spy
}

// CmpDealerCheat alters the polynomial a CMP key generation / refresh party deals before anything is sent, so that
// its commitment, shares and proofs are all consistent with the altered polynomial: kind "plus" / "minus" change the
// degree by one, "nonzero" gives a refresh polynomial a non-zero constant term (which would move the group key).
func CmpDealerCheat(s *Session, cheater party.ID, kind string, sid []byte, mk func() protocol.StartFunc) {
	s.Makers[cheater] = multi(func() protocol.StartFunc {
		inner := mk()
		return func(sessionID []byte) (round.Session, error) {
			r, err := inner(sessionID)
			if err != nil {
				return nil, err
			}
			f := field(r, "VSSSecret")
			if !f.IsValid() || !f.CanSet() {
				return nil, fmt.Errorf("no settable VSSSecret in %T", r)
			}
			cur := f.Interface().(*polynomial.Polynomial)
			deg, c := int(cur.Degree()), cur.Constant()
			switch kind {
			case "plus":
				deg++
			case "minus":
				deg--
			case "nonzero":
				c = one(r.Group())
			case "zero":
				c = r.Group().NewScalar()
			default:
				return nil, fmt.Errorf("unknown dealer cheat %q", kind)
			}
			if deg < 0 {
				return nil, fmt.Errorf("degree would be negative")
			}
			f.Set(reflect.ValueOf(polynomial.NewPolynomial(r.Group(), deg, c)))
			return r, nil
		}
	}, sid)
}

// CommitCheat: `cheater` commits in round 1 of a key generation / refresh to a malformed chain-key contribution or RID
// (rule: c-short | c-long | c-empty | rid-short | rid-long | rid-empty) and opens it consistently later - the
// decommitment check passes, only the validation of the opened value can stop it.
func CommitCheat(s *Session, cheater party.ID, rule string, sid []byte, mk func() protocol.StartFunc) {
	c := &cheat{commitRule: rule}
	s.Makers[cheater] = multi(func() protocol.StartFunc {
		inner := mk()
		return func(sessionID []byte) (round.Session, error) {
			r, err := inner(sessionID)
			if err != nil {
				return nil, err
			}
			return wrap(r, c), nil
		}
	}, sid)
}

// setUnexported replaces an unexported field of a round object (read / written through unsafe).
func setUnexported(s interface{}, name string, f func(old interface{}) interface{}) bool {
	v := field(s, name)
	if !v.IsValid() || !v.CanAddr() {
		return false
	}
	w := reflect.NewAt(v.Type(), unsafe.Pointer(v.UnsafeAddr())).Elem()
	w.Set(reflect.ValueOf(f(w.Interface())))
	return true
}

// FrostSignCheat: a FROST signer that answers inconsistently with what it published (FrostAlg.tla): rule "z" adds 1 to
// the response it broadcasts, "nonce" answers with another first nonce than the one it committed to, "share" answers
// with another secret share than the one behind its public share.  Nothing it sends is malformed.
func FrostSignCheat(s *Session, cheater party.ID, rule string, sid []byte, mk func() protocol.StartFunc) {
	c := &cheat{rule: "frost:" + rule}
	s.Makers[cheater] = multi(func() protocol.StartFunc {
		inner := mk()
		return func(sessionID []byte) (round.Session, error) {
			r, err := inner(sessionID)
			if err != nil {
				return nil, err
			}
			return wrap(r, c), nil
		}
	}, sid)
}

func (c *cheat) frostBefore(s round.Session) {
	if !strings.HasPrefix(c.rule, "frost:") || typeName(s) != "round2" || !field(s, "d_i").IsValid() {
		return
	}
	bump := func(old interface{}) interface{} {
		x := old.(curve.Scalar)
		return s.Group().NewScalar().Set(x).Add(one(s.Group())) // a new object: the caller's share must stay as it is
	}
	switch c.rule {
	case "frost:nonce":
		setUnexported(s, "d_i", bump)
	case "frost:share":
		setUnexported(s, "s_i", bump)
	}
}

func (c *cheat) frostBeforeSend(next round.Session, m *round.Message) {
	if c.rule != "frost:z" || typeName(m.Content) != "broadcast3" {
		return
	}
	if f := field(m.Content, "Z_i"); f.IsValid() && f.CanSet() {
		cur := f.Interface().(curve.Scalar)
		f.Set(reflect.ValueOf(next.Group().NewScalar().Set(cur).Add(one(next.Group()))))
	}
}

// FrostZeroDealer: `cheater` deals, in a key generation, a polynomial whose constant term is zero (see zeroDeal).
func FrostZeroDealer(s *Session, cheater party.ID, sid []byte, mk func() protocol.StartFunc) {
	c := &cheat{zeroConst: true}
	s.Makers[cheater] = multi(func() protocol.StartFunc {
		inner := mk()
		return func(sessionID []byte) (round.Session, error) {
			r, err := inner(sessionID)
			if err != nil {
				return nil, err
			}
			return wrap(r, c), nil
		}
	}, sid)
}

// CmpWrongShares: see wrongShares.
func CmpWrongShares(s *Session, cheater party.ID, sid []byte, mk func() protocol.StartFunc) {
	c := &cheat{rule: "cmp:wrongshares"}
	s.Makers[cheater] = multi(func() protocol.StartFunc {
		inner := mk()
		return func(sessionID []byte) (round.Session, error) {
			r, err := inner(sessionID)
			if err != nil {
				return nil, err
			}
			return wrap(r, c), nil
		}
	}, sid)
}

// DoernerSignCheat: one side of a Doerner signing session computes with other inputs than key generation fixed
// (DoernerAlg.tla); every message it sends is well-formed.
//
//	"share"   its key share plus one
//	"public"  another public key (its own plus G) in the second consistency check and in its own verification
//	"ot"      the OT correlation of ANOTHER key generation (alt: that key generation's configs): the shares of all three
//	          multiplications are off
//	"kinv"    (Receiver) unmasks with another 1/kB than the one it entered the multiplications with
func DoernerSignCheat(recv, send party.ID, cr *doerner.ConfigReceiver, cs *doerner.ConfigSender, altR *doerner.ConfigReceiver, altS *doerner.ConfigSender,
	msg []byte, cheater party.ID, rule string, sid []byte) (*Session, func() bool) {
	applied := func() bool { return true }
	cr = CloneConfig(cr).(*doerner.ConfigReceiver)
	cs = CloneConfig(cs).(*doerner.ConfigSender)
	g := cr.Public.Curve()
	switch rule {
	case "share":
		if cheater == recv {
			cr.SecretShare = g.NewScalar().Set(cr.SecretShare).Add(one(g))
		} else {
			cs.SecretShare = g.NewScalar().Set(cs.SecretShare).Add(one(g))
		}
	case "public":
		if cheater == recv {
			cr.Public = cr.Public.Add(g.NewBasePoint())
		} else {
			cs.Public = cs.Public.Add(g.NewBasePoint())
		}
	case "ot":
		if cheater == recv {
			cr.Setup = altR.Setup
		} else {
			cs.Setup = altS.Setup
		}
	}
	s := DoernerSign(recv, send, cr, cs, msg, sid)
	if rule == "kinv" {
		c := &cheat{rule: "doerner:kinv"}
		applied = func() bool { return c.applied }
		s.Makers[recv] = two(func() protocol.StartFunc {
			inner := doerner.SignReceiver(cr, recv, send, msg, Pool)
			return func(sessionID []byte) (round.Session, error) {
				r, err := inner(sessionID)
				if err != nil {
					return nil, err
				}
				return wrap(r, c), nil
			}
		}, sid, true)
	}
	return s, applied
}

func (c *cheat) doernerAfter(next round.Session) {
	if c.rule != "doerner:kinv" || typeName(next) != "round2R" {
		return
	}
	if !setUnexported(next, "kBInv", func(old interface{}) interface{} {
		x := old.(curve.Scalar)
		return next.Group().NewScalar().Set(x).Add(one(next.Group()))
	}) {
		panic("doerner:kinv: field kBInv not found")
	}
	c.applied = true
}
