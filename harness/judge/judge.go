// Package judge evaluates results of real protocol runs (key material, signatures) with arithmetic that is
// independent of the library: everything is converted to big integers / affine points of package oracle.
package judge

import (
	"bytes"
	"encoding"
	"fmt"
	"math/big"
	"sort"

	"github.com/taurusgroup/multi-party-sig/pkg/ecdsa"
	"github.com/taurusgroup/multi-party-sig/pkg/party"
	"github.com/taurusgroup/multi-party-sig/pkg/taproot"
	"github.com/taurusgroup/multi-party-sig/protocols/cmp"
	"github.com/taurusgroup/multi-party-sig/protocols/doerner"
	"github.com/taurusgroup/multi-party-sig/protocols/frost"
	frostsign "github.com/taurusgroup/multi-party-sig/protocols/frost/sign"
	"github.com/taurusgroup/multi-party-sig/verifharness/oracle"
	"github.com/taurusgroup/multi-party-sig/verifharness/protos"
)

// KeyView is scheme-agnostic key material of one party in oracle terms.
type KeyView struct {
	Scheme    string // cmp | frost | taproot | doerner-r | doerner-s
	ID        party.ID
	Threshold int
	Secret    *big.Int
	Group     oracle.Pt // group public key (taproot: the even-Y lift of the x-only key)
	GroupX    []byte    // taproot: the 32-byte x-only key as stored
	Table     map[party.ID]oracle.Pt
	ChainKey  []byte
	Aux       string // canonical rendering of the auxiliary public keys (CMP)
	// Reported is the group key as the library's own accessor reports it, where the material does not store it
	// (cmp.Config.PublicPoint()); nil otherwise
	Reported *oracle.Pt
}

func scalar(v interface{}) (*big.Int, error) {
	if v == nil {
		return nil, fmt.Errorf("nil scalar")
	}
	bm, ok := v.(encoding.BinaryMarshaler)
	if !ok {
		return nil, fmt.Errorf("not a scalar: %T", v)
	}
	b, err := safeMarshal(bm)
	if err != nil {
		return nil, err
	}
	return new(big.Int).SetBytes(b), nil
}

func safeMarshal(bm encoding.BinaryMarshaler) (b []byte, err error) {
	defer func() {
		if r := recover(); r != nil {
			err = fmt.Errorf("marshal panicked: %v", r)
		}
	}()
	return bm.MarshalBinary()
}

func point(v interface{}) (oracle.Pt, error) {
	if v == nil {
		return oracle.Pt{}, fmt.Errorf("nil point")
	}
	bm, ok := v.(encoding.BinaryMarshaler)
	if !ok {
		return oracle.Pt{}, fmt.Errorf("not a point: %T", v)
	}
	b, err := safeMarshal(bm)
	if err != nil {
		return oracle.Pt{}, err
	}
	if len(b) == 33 && bytes.Equal(b[1:], make([]byte, 32)) {
		return oracle.Infinity(), nil
	}
	return oracle.ParseCompressed(b)
}

// View converts a result / config of any scheme.
func View(cfg interface{}) (*KeyView, error) {
	switch c := cfg.(type) {
	case *cmp.Config:
		if c == nil {
			return nil, fmt.Errorf("nil config")
		}
		v := &KeyView{Scheme: "cmp", ID: c.ID, Threshold: c.Threshold, Table: map[party.ID]oracle.Pt{}, ChainKey: c.ChainKey}
		var err error
		if v.Secret, err = scalar(c.ECDSA); err != nil {
			return nil, err
		}
		var ids []string
		for id := range c.Public {
			ids = append(ids, string(id))
		}
		sort.Strings(ids)
		var xs []*big.Int
		var pts []oracle.Pt
		aux := ""
		for _, id := range ids {
			p := c.Public[party.ID(id)]
			if p == nil {
				return nil, fmt.Errorf("nil public entry for %s", id)
			}
			pt, err := point(p.ECDSA)
			if err != nil {
				return nil, fmt.Errorf("public share of %s: %w", id, err)
			}
			v.Table[party.ID(id)] = pt
			xs = append(xs, oracle.IDScalar(id))
			pts = append(pts, pt)
			if p.ElGamal == nil || p.Paillier == nil || p.Pedersen == nil {
				return nil, fmt.Errorf("public entry of %s lacks auxiliary keys", id)
			}
			// by value (the objects carry cached, representation-dependent data)
			aux += id + ":" + protos.Canon(p.ElGamal) + "|" + p.Paillier.N().Big().Text(16) + "|" + p.Pedersen.N().Big().Text(16) + "," +
				p.Pedersen.S().Big().Text(16) + "," + p.Pedersen.T().Big().Text(16) + ";"
		}
		aux += "rid:" + protos.Canon([]byte(c.RID))
		v.Aux = aux
		// the group key of a CMP config is defined by interpolation of the whole table
		if len(xs) > 0 {
			v.Group = oracle.InterpolatePointsAt0(xs, pts)
		}
		func() {
			defer func() { _ = recover() }()
			if rp, err := point(c.PublicPoint()); err == nil {
				v.Reported = &rp
			}
		}()
		return v, nil
	case *frost.Config:
		if c == nil {
			return nil, fmt.Errorf("nil config")
		}
		v := &KeyView{Scheme: "frost", ID: c.ID, Threshold: c.Threshold, Table: map[party.ID]oracle.Pt{}, ChainKey: c.ChainKey}
		var err error
		if v.Secret, err = scalar(c.PrivateShare); err != nil {
			return nil, err
		}
		if v.Group, err = point(c.PublicKey); err != nil {
			return nil, err
		}
		if c.VerificationShares == nil {
			return nil, fmt.Errorf("nil verification shares")
		}
		for id, p := range c.VerificationShares.Points {
			if v.Table[id], err = point(p); err != nil {
				return nil, err
			}
		}
		return v, nil
	case *frost.TaprootConfig:
		if c == nil {
			return nil, fmt.Errorf("nil config")
		}
		v := &KeyView{Scheme: "taproot", ID: c.ID, Threshold: c.Threshold, Table: map[party.ID]oracle.Pt{}, ChainKey: c.ChainKey, GroupX: c.PublicKey}
		var err error
		if v.Secret, err = scalar(c.PrivateShare); err != nil {
			return nil, err
		}
		if len(c.PublicKey) != 32 {
			return nil, fmt.Errorf("taproot public key has %d bytes", len(c.PublicKey))
		}
		g, ok := oracle.LiftX(new(big.Int).SetBytes(c.PublicKey))
		if !ok {
			return nil, fmt.Errorf("taproot public key is not an x coordinate")
		}
		v.Group = g
		for id, p := range c.VerificationShares {
			if v.Table[id], err = point(p); err != nil {
				return nil, err
			}
		}
		return v, nil
	case *doerner.ConfigReceiver:
		if c == nil {
			return nil, fmt.Errorf("nil config")
		}
		v := &KeyView{Scheme: "doerner-r", Threshold: 1, ChainKey: c.ChainKey}
		var err error
		if v.Secret, err = scalar(c.SecretShare); err != nil {
			return nil, err
		}
		if v.Group, err = point(c.Public); err != nil {
			return nil, err
		}
		return v, nil
	case *doerner.ConfigSender:
		if c == nil {
			return nil, fmt.Errorf("nil config")
		}
		v := &KeyView{Scheme: "doerner-s", Threshold: 1, ChainKey: c.ChainKey}
		var err error
		if v.Secret, err = scalar(c.SecretShare); err != nil {
			return nil, err
		}
		if v.Group, err = point(c.Public); err != nil {
			return nil, err
		}
		return v, nil
	}
	return nil, fmt.Errorf("unknown key material type %T", cfg)
}

func ptS(p oracle.Pt) string {
	if p.Inf {
		return "inf"
	}
	return fmt.Sprintf("%x", p.Compressed())
}

// subsets of size k of ids (at most limit, in a deterministic order starting with non-prefix ones mixed in)
func Subsets(ids []party.ID, k, limit int) [][]party.ID {
	var out [][]party.ID
	var rec func(start int, cur []party.ID)
	rec = func(start int, cur []party.ID) {
		if len(cur) == k {
			out = append(out, append([]party.ID(nil), cur...))
			return
		}
		for i := start; i < len(ids); i++ {
			rec(i+1, append(cur, ids[i]))
		}
	}
	rec(0, nil)
	if limit > 0 && len(out) > limit {
		// keep first, last and an even spread
		step := float64(len(out)-1) / float64(limit-1)
		var sel [][]party.ID
		for i := 0; i < limit; i++ {
			sel = append(sel, out[int(float64(i)*step+0.5)])
		}
		out = sel
	}
	return out
}

// ConsistentSharing checks the key-generation consistency conditions of C02 on a set of views
// (all parties of a threshold scheme, or the two Doerner parties). Returns the list of problems.
func ConsistentSharing(views map[party.ID]*KeyView, subsetLimit int) []string {
	var probs []string
	var ids []party.ID
	for id := range views {
		ids = append(ids, id)
	}
	sort.Slice(ids, func(i, j int) bool { return ids[i] < ids[j] })
	if len(ids) == 0 {
		return []string{"no views"}
	}
	first := views[ids[0]]
	if first.Scheme == "doerner-r" || first.Scheme == "doerner-s" {
		if len(ids) != 2 {
			return []string{"doerner needs two views"}
		}
		a, b := views[ids[0]], views[ids[1]]
		if !oracle.Equal(a.Group, b.Group) {
			probs = append(probs, "the two parties report different public keys")
		}
		if a.Group.Inf {
			probs = append(probs, "public key is the identity")
		}
		sum := new(big.Int).Add(a.Secret, b.Secret)
		sum.Mod(sum, oracle.N)
		if !oracle.Equal(oracle.BaseMul(sum), a.Group) {
			probs = append(probs, "the secret shares of both parties do not combine to the reported public key")
		}
		if a.Secret.Sign() == 0 || b.Secret.Sign() == 0 {
			probs = append(probs, "zero secret share")
		}
		return probs
	}
	t := first.Threshold
	for _, id := range ids {
		v := views[id]
		if v.Threshold != t {
			probs = append(probs, fmt.Sprintf("party %s reports threshold %d, party %s %d", id, v.Threshold, ids[0], t))
		}
		if !oracle.Equal(v.Group, first.Group) {
			probs = append(probs, fmt.Sprintf("party %s reports group key %s, party %s %s", id, ptS(v.Group), ids[0], ptS(first.Group)))
		}
		if v.GroupX != nil && !bytes.Equal(v.GroupX, first.GroupX) {
			probs = append(probs, fmt.Sprintf("party %s reports a different x-only key", id))
		}
		if len(v.Table) != len(first.Table) {
			probs = append(probs, fmt.Sprintf("party %s has %d table entries, party %s %d", id, len(v.Table), ids[0], len(first.Table)))
		}
		for j, p := range first.Table {
			q, ok := v.Table[j]
			if !ok || !oracle.Equal(p, q) {
				probs = append(probs, fmt.Sprintf("party %s and %s disagree on the public share of %s", id, ids[0], j))
			}
		}
		if v.Aux != first.Aux {
			probs = append(probs, fmt.Sprintf("party %s and %s disagree on auxiliary public keys", id, ids[0]))
		}
		if v.Reported != nil && !oracle.Equal(*v.Reported, v.Group) {
			probs = append(probs, fmt.Sprintf("party %s reports a group public key that is not the public key of the shared secret (table interpolation)", id))
		}
		if v.ID != id {
			probs = append(probs, fmt.Sprintf("result of party %s carries id %q", id, v.ID))
		}
		own, ok := v.Table[id]
		if !ok {
			probs = append(probs, fmt.Sprintf("party %s has no own entry in the table", id))
		} else if !oracle.Equal(oracle.BaseMul(v.Secret), own) {
			probs = append(probs, fmt.Sprintf("secret share of party %s does not match its own table entry", id))
		}
		if v.Secret.Sign() == 0 {
			probs = append(probs, fmt.Sprintf("party %s holds a zero secret share", id))
		}
	}
	if first.Group.Inf {
		probs = append(probs, "group key is the identity")
	}
	if first.Scheme == "taproot" && !first.Group.EvenY() {
		probs = append(probs, "taproot key does not have even Y")
	}
	for id := range first.Table {
		if _, ok := views[id]; !ok {
			probs = append(probs, fmt.Sprintf("table names %s which is not a participant", id))
		}
	}
	if len(probs) > 0 {
		return probs
	}
	// any t+1 secret shares combine to the key; any t+1 table entries interpolate to it
	for _, sub := range Subsets(ids, t+1, subsetLimit) {
		var xs, ys []*big.Int
		var pts []oracle.Pt
		for _, id := range sub {
			xs = append(xs, oracle.IDScalar(string(id)))
			ys = append(ys, views[id].Secret)
			pts = append(pts, first.Table[id])
		}
		sk := oracle.InterpolateAt0(xs, ys)
		if !oracle.Equal(oracle.BaseMul(sk), first.Group) {
			probs = append(probs, fmt.Sprintf("secret shares of %v do not combine to the group key", sub))
		}
		if !oracle.Equal(oracle.InterpolatePointsAt0(xs, pts), first.Group) {
			probs = append(probs, fmt.Sprintf("table entries of %v do not interpolate to the group key", sub))
		}
	}
	// degree is exactly t: t shares must NOT determine the key (checked as: interpolation of t shares differs)
	if t >= 1 && len(ids) > t {
		sub := ids[:t]
		var xs, ys []*big.Int
		for _, id := range sub {
			xs = append(xs, oracle.IDScalar(string(id)))
			ys = append(ys, views[id].Secret)
		}
		if oracle.Equal(oracle.BaseMul(oracle.InterpolateAt0(xs, ys)), first.Group) {
			probs = append(probs, fmt.Sprintf("only %d shares already combine to the group key (degree below threshold)", t))
		}
	}
	return probs
}

// SigValid judges a signing result against the group key with the textbook verifier of the scheme.
func SigValid(group oracle.Pt, groupX []byte, msg []byte, sig interface{}) (bool, string) {
	switch s := sig.(type) {
	case *ecdsa.Signature:
		if s == nil {
			return false, "nil signature"
		}
		R, err := point(s.R)
		if err != nil {
			return false, "R: " + err.Error()
		}
		sc, err := scalar(s.S)
		if err != nil {
			return false, "S: " + err.Error()
		}
		if R.Inf {
			return false, "R is the identity"
		}
		r := new(big.Int).Mod(R.X, oracle.N)
		if !oracle.ECDSAVerifyRS(group, msg, r, sc) {
			return false, "ECDSA equation does not hold"
		}
		if !oracle.ECDSAVerifyPoint(group, msg, R, sc) {
			return false, "ECDSA equation holds for r but not for the transmitted nonce point"
		}
		return true, ""
	case frostsign.Signature:
		return frostSig(group, msg, s)
	case *frostsign.Signature:
		if s == nil {
			return false, "nil signature"
		}
		return frostSig(group, msg, *s)
	case taproot.Signature:
		if groupX == nil {
			groupX = group.XBytes()
		}
		if !oracle.BIP340Verify(groupX, msg, []byte(s)) {
			return false, "BIP-340 verification fails: " + oracle.BIP340Why(groupX, msg, []byte(s))
		}
		return true, ""
	}
	return false, fmt.Sprintf("unknown signature type %T", sig)
}

func frostSig(group oracle.Pt, msg []byte, s frostsign.Signature) (bool, string) {
	R, err := point(s.R)
	if err != nil {
		return false, "R: " + err.Error()
	}
	z, err := scalar(protos.Field(s, "z"))
	if err != nil {
		return false, "z: " + err.Error()
	}
	if !oracle.SchnorrVerify(group, msg, R, z) {
		return false, "Schnorr equation does not hold"
	}
	return true, ""
}
