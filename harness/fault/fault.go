// Package fault alters real protocol messages: structural mutations of the CBOR content (discovered
// from the decoded message, so new fields are covered without a catalogue) and header malformations.
package fault

import (
	"bytes"
	"encoding/binary"
	"fmt"
	"math/big"
	"sort"

	"github.com/fxamacker/cbor/v2"
	"github.com/taurusgroup/multi-party-sig/pkg/party"
	"github.com/taurusgroup/multi-party-sig/pkg/protocol"
	"github.com/taurusgroup/multi-party-sig/verifharness/sim"
)

// Leaf is one addressable position in a decoded CBOR value.
type Leaf struct {
	Path string // e.g. /Proof/Z1 or /Shares/2
	Kind string // bytes | uint | int | bool | nil | map | array | text
	Len  int
}

func decode(data []byte) (interface{}, error) {
	var v interface{}
	dm, _ := cbor.DecOptions{}.DecMode()
	if err := dm.Unmarshal(data, &v); err != nil {
		return nil, err
	}
	return v, nil
}

func kindOf(v interface{}) (string, int) {
	switch x := v.(type) {
	case []byte:
		if looksLengthPrefixed(x) {
			return "lpbytes", len(x)
		}
		return "bytes", len(x)
	case uint64:
		return "uint", 0
	case int64:
		return "int", 0
	case bool:
		return "bool", 0
	case nil:
		return "nil", 0
	case string:
		return "text", len(x)
	case map[interface{}]interface{}:
		return "map", len(x)
	case []interface{}:
		return "array", len(x)
	case big.Int:
		return "bigint", x.BitLen()
	case *big.Int:
		return "bigint", x.BitLen()
	}
	return fmt.Sprintf("%T", v), 0
}

func sortedKeys(m map[interface{}]interface{}) []interface{} {
	var ks []interface{}
	for k := range m {
		ks = append(ks, k)
	}
	sort.Slice(ks, func(i, j int) bool { return fmt.Sprint(ks[i]) < fmt.Sprint(ks[j]) })
	return ks
}

func walk(v interface{}, path string, out *[]Leaf) {
	k, n := kindOf(v)
	*out = append(*out, Leaf{Path: path, Kind: k, Len: n})
	switch x := v.(type) {
	case map[interface{}]interface{}:
		for _, key := range sortedKeys(x) {
			walk(x[key], path+"/"+fmt.Sprint(key), out)
		}
	case []interface{}:
		for i, e := range x {
			if i >= 3 && i < len(x)-1 {
				continue // first three and the last element of long arrays
			}
			walk(e, fmt.Sprintf("%s/%d", path, i), out)
		}
	}
}

// Leaves lists the addressable positions of a message content.
func Leaves(data []byte) ([]Leaf, error) {
	v, err := decode(data)
	if err != nil {
		return nil, err
	}
	var out []Leaf
	walk(v, "", &out)
	return out, nil
}

// get / set by path
func splitPath(p string) []string {
	var parts []string
	cur := ""
	for i := 1; i < len(p); i++ {
		if p[i] == '/' {
			parts = append(parts, cur)
			cur = ""
		} else {
			cur += string(p[i])
		}
	}
	if len(p) > 0 {
		parts = append(parts, cur)
	}
	return parts
}

func lookup(v interface{}, parts []string) (interface{}, bool) {
	if len(parts) == 0 {
		return v, true
	}
	switch x := v.(type) {
	case map[interface{}]interface{}:
		for k, e := range x {
			if fmt.Sprint(k) == parts[0] {
				return lookup(e, parts[1:])
			}
		}
	case []interface{}:
		var i int
		if _, err := fmt.Sscanf(parts[0], "%d", &i); err == nil && i >= 0 && i < len(x) {
			return lookup(x[i], parts[1:])
		}
	}
	return nil, false
}

// replace returns v with the value at parts replaced by f(old); del=true removes the key / element.
func replace(v interface{}, parts []string, f func(interface{}) (interface{}, bool)) (interface{}, bool) {
	if len(parts) == 0 {
		nv, del := f(v)
		return nv, del
	}
	switch x := v.(type) {
	case map[interface{}]interface{}:
		for k, e := range x {
			if fmt.Sprint(k) == parts[0] {
				nv, del := replace(e, parts[1:], f)
				if del && len(parts) == 1 {
					delete(x, k)
				} else {
					x[k] = nv
				}
				return x, false
			}
		}
	case []interface{}:
		var i int
		if _, err := fmt.Sscanf(parts[0], "%d", &i); err == nil && i >= 0 && i < len(x) {
			nv, del := replace(x[i], parts[1:], f)
			if del && len(parts) == 1 {
				return append(x[:i:i], x[i+1:]...), false
			}
			x[i] = nv
			return x, false
		}
	}
	return v, false
}

// looksLengthPrefixed: the byte string starts with a 4-byte big-endian count that is plausible for its length
// (the library's hand-written binary encodings: polynomial.Exponent, ...).
func looksLengthPrefixed(b []byte) bool {
	if len(b) < 8 {
		return false
	}
	n := binary.BigEndian.Uint32(b[:4])
	return n > 0 && uint64(n) <= uint64(len(b)-4)
}

// WrapFactors: element sizes k for which the announced count is set to floor(2^32 / k) + 1, the smallest count whose
// product with k overflows 32 bits (what a size computation "count * k" in the decoder would wrap on).
func WrapFactors() []int {
	var ks []int
	for k := 2; k <= 72; k++ {
		ks = append(ks, k)
	}
	return append(ks, 96, 128, 256)
}

// GiantLen is the size of the "giant" alteration of a byte string / big integer.
const GiantLen = 512 << 10

// Alterations applicable to a leaf kind.
func Alterations(kind string) []string {
	switch kind {
	case "lpbytes":
		a := append([]string{}, Alterations("bytes")...)
		a = append(a, "lenmax", "lenhalf")
		for _, k := range WrapFactors() {
			a = append(a, fmt.Sprintf("lenwrap%d", k))
		}
		return a
	case "bytes":
		return []string{"zero", "ones", "flipfirst", "fliplast", "trunc", "extend", "empty", "donor", "random", "null", "absent", "giant"}
	case "uint", "int":
		return []string{"zero", "one", "inc", "max", "null", "absent"}
	case "bigint":
		return []string{"zero", "one", "inc", "negate", "huge", "giant", "donor", "random", "null", "absent"}
	case "bool":
		return []string{"negate", "null"}
	case "map":
		return []string{"null", "absent", "emptymap"}
	case "array":
		return []string{"droplast", "duplast", "emptyarr", "null", "absent", "huge"}
	case "text":
		return []string{"emptytext", "null"}
	case "nil":
		return []string{}
	}
	return nil
}

// Mutate applies alteration alt at path of the content. donor is a content of the same shape taken from
// another message (other sender / recipient / session) used by "donor"; rnd feeds "random".
func Mutate(data []byte, path, alt string, donor []byte, rnd *sim.Rng) ([]byte, error) {
	v, err := decode(data)
	if err != nil {
		return nil, err
	}
	parts := splitPath(path)
	if _, ok := lookup(v, parts); !ok {
		return nil, fmt.Errorf("no such path %s", path)
	}
	var donorVal interface{}
	if alt == "set" { // donor is the raw byte string to put at path
		donorVal = append([]byte(nil), donor...)
	}
	if alt == "donor" {
		if donor == nil {
			return nil, fmt.Errorf("no donor")
		}
		dv, err := decode(donor)
		if err != nil {
			return nil, err
		}
		var ok bool
		donorVal, ok = lookup(dv, parts)
		if !ok {
			return nil, fmt.Errorf("donor lacks path")
		}
	}
	nv, _ := replace(v, parts, func(old interface{}) (interface{}, bool) {
		switch alt {
		case "null":
			return nil, false
		case "absent":
			return nil, true
		case "donor", "set":
			return donorVal, false
		}
		switch x := old.(type) {
		case []byte:
			b := append([]byte(nil), x...)
			switch alt {
			case "zero":
				for i := range b {
					b[i] = 0
				}
			case "ones":
				for i := range b {
					b[i] = 0xff
				}
			case "flipfirst":
				if len(b) > 0 {
					b[0] ^= 1
				}
			case "fliplast":
				if len(b) > 0 {
					b[len(b)-1] ^= 1
				}
			case "trunc":
				if len(b) > 0 {
					b = b[:len(b)-1]
				}
			case "extend":
				b = append(b, 0x01)
			case "empty":
				b = []byte{}
			case "random":
				b = rnd.Bytes(len(b))
			case "giant": // half a megabyte where a few dozen bytes are expected
				b = make([]byte, GiantLen)
				for i := range b {
					b[i] = byte(0x51 + i%7)
				}
			case "lenmax":
				if len(b) >= 4 {
					binary.BigEndian.PutUint32(b[:4], 0xffffffff)
				}
			case "lenhalf":
				if len(b) >= 4 {
					binary.BigEndian.PutUint32(b[:4], 0x80000000)
				}
			default:
				var k uint64
				if _, err := fmt.Sscanf(alt, "lenwrap%d", &k); err == nil && k >= 2 && len(b) >= 4 {
					binary.BigEndian.PutUint32(b[:4], uint32((uint64(1)<<32)/k+1))
				}
			}
			return b, false
		case big.Int:
			y := new(big.Int).Set(&x)
			switch alt {
			case "zero":
				y.SetInt64(0)
			case "one":
				y.SetInt64(1)
			case "inc":
				y.Add(y, big.NewInt(1))
			case "negate":
				y.Neg(y)
				if y.Sign() == 0 {
					y.SetInt64(-1)
				}
			case "huge":
				y.Lsh(y.Add(y, big.NewInt(1)), 8192)
			case "giant":
				y.Lsh(y.Add(y, big.NewInt(1)), 8*GiantLen)
			case "random":
				n := (x.BitLen() + 7) / 8
				if n == 0 {
					n = 8
				}
				y.SetBytes(rnd.Bytes(n))
			}
			return *y, false
		case uint64:
			switch alt {
			case "zero":
				return uint64(0), false
			case "one":
				return uint64(1), false
			case "inc":
				return x + 1, false
			case "max":
				return uint64(1<<63 - 1), false
			}
		case int64:
			switch alt {
			case "zero":
				return int64(0), false
			case "one":
				return int64(1), false
			case "inc":
				return x + 1, false
			case "max":
				return int64(1<<62 - 1), false
			}
		case bool:
			return !x, false
		case map[interface{}]interface{}:
			if alt == "emptymap" {
				return map[interface{}]interface{}{}, false
			}
		case []interface{}:
			switch alt {
			case "droplast":
				if len(x) > 0 {
					return x[:len(x)-1], false
				}
			case "duplast":
				if len(x) > 0 {
					return append(append([]interface{}(nil), x...), x[len(x)-1]), false
				}
			case "emptyarr":
				return []interface{}{}, false
			case "huge":
				big := make([]interface{}, 0, 5000)
				for i := 0; i < 5000; i++ {
					if len(x) > 0 {
						big = append(big, x[i%len(x)])
					} else {
						big = append(big, uint64(0))
					}
				}
				return big, false
			}
		case string:
			if alt == "emptytext" {
				return "", false
			}
		}
		return old, false
	})
	out, err := cbor.Marshal(nv)
	if err != nil {
		return nil, err
	}
	if bytes.Equal(out, data) {
		return nil, fmt.Errorf("no-op")
	}
	return out, nil
}

// HeaderClasses are the header malformations of C05 / C09.
var HeaderClasses = []string{"wrongTo", "emptyTo", "fromSelf", "unknownFrom", "round0", "roundPast", "roundBig", "wrongSSID", "emptySSID",
	"wrongProto", "nilData", "emptyData", "flipBroadcast", "junkData", "truncData", "nilBV", "wrongBV"}

// Header applies a header malformation; returns the message and the spec class of its header
// ("ok" when the header stays acceptable and only the content / kind changed).
func Header(m *protocol.Message, class string, self, other string, R int, rnd *sim.Rng) (*protocol.Message, string) {
	c := sim.CloneMsg(m)
	switch class {
	case "wrongTo":
		c.To = partyID(other)
		return c, "readdress"
	case "emptyTo":
		c.To = ""
		return c, "ok"
	case "fromSelf":
		c.From = partyID(self)
		return c, "fromself"
	case "unknownFrom":
		c.From = "zz-unknown"
		return c, "unknown"
	case "round0":
		c.RoundNumber = 0
		return c, "ok"
	case "roundPast":
		c.RoundNumber = 1
		return c, "ok"
	case "roundBig":
		c.RoundNumber = 9999
		return c, "toobig"
	case "wrongSSID":
		c.SSID = append([]byte(nil), c.SSID...)
		if len(c.SSID) > 0 {
			c.SSID[0] ^= 1
		}
		return c, "wrongSSID"
	case "emptySSID":
		c.SSID = nil
		return c, "wrongSSID"
	case "wrongProto":
		c.Protocol += "x"
		return c, "wrongProto"
	case "nilData":
		c.Data = nil
		return c, "nilData"
	case "emptyData":
		c.Data = []byte{}
		return c, "ok"
	case "flipBroadcast":
		c.Broadcast = !c.Broadcast
		return c, "ok"
	case "junkData":
		c.Data = rnd.Bytes(len(c.Data))
		return c, "ok"
	case "truncData":
		if len(c.Data) > 1 {
			c.Data = c.Data[:len(c.Data)/2]
		}
		return c, "ok"
	case "nilBV":
		c.BroadcastVerification = nil
		return c, "ok"
	case "wrongBV":
		c.BroadcastVerification = rnd.Bytes(64)
		return c, "ok"
	}
	return c, "ok"
}

func partyID(s string) party.ID { return party.ID(s) }
