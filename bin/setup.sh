#!/bin/bash
# Build the harness from files on disk only (offline).
set -e
cd /verif/harness
export GOFLAGS=-mod=mod GOPROXY=off GOSUMDB=off GOTOOLCHAIN=local
cp /repo/go.sum go.sum
go build -tags verif ./... 
echo setup ok
