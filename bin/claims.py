NOT_YET = {}

claim("C07", "model_checking",
      "TLC explores every interleaving of message deliveries among 3 honest handlers (with a duplicate / foreign message) in Handler.tla and checks completion, no abort, no deadlock and liveness; HandlerLocal.tla enumerates EVERY causal delivery order for one handler and each order is replayed on the real handler (toy protocol of that shape, xor, FROST keygen/sign, Taproot) with fixed randomness: it must complete with the byte-identical result and emitted messages; randomly scheduled real sessions are recorded and validated line by line against Handler.tla.",
      "Trusted: TLC, the abstraction of payload bytes to variants, the harness' deep structural rendering of results. Exhaustive for 3-4 parties and the listed round shapes; CMP and n>=5 are sampled.",
      "TLC model checking of Handler.tla/HandlerLocal.tla + replay of all enumerated delivery orders on the real handler + trace validation",
      "DESIGN.md §3.1, §3.2, §5 C07")
