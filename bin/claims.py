NOT_YET = {}

claim("C07", "model_checking",
      "TLC explores every interleaving of message deliveries among 3 honest handlers (with a duplicate / foreign message) in Handler.tla and checks completion, no abort, no deadlock and liveness; HandlerLocal.tla enumerates EVERY causal delivery order for one handler and each order is replayed on the real handler (toy protocol of that shape, xor, FROST keygen/sign, Taproot) with fixed randomness: it must complete with the byte-identical result and emitted messages; randomly scheduled real sessions are recorded and validated line by line against Handler.tla.",
      "Trusted: TLC, the abstraction of payload bytes to variants, the harness' deep structural rendering of results. Exhaustive for 3-4 parties and the listed round shapes; CMP and n>=5 are sampled.",
      "TLC model checking of Handler.tla/HandlerLocal.tla + replay of all enumerated delivery orders on the real handler + trace validation",
      "DESIGN.md §3.1, §3.2, §5 C07")

claim("C18", "model_checking",
      "Pool.tla models the caller and W workers at exactly the synchronisation points of pkg/pool (unbuffered channels as joint steps). TLC checks exhaustively (W<=3, up to 3 consecutive Parallelize/Search calls) that every call returns complete results, no worker is ever left blocked, and - liveness - every call returns and all workers become idle again. Every behaviour TLC emits (all paths for the small configurations, thousands simulated beyond) is then replayed step by step on the REAL pool through verif yield hooks that park the goroutines; after each step the labels of the real goroutines must equal the model's, and at the end results must be exact and all W workers must take a task simultaneously. An ungated stress of consecutive instantaneous calls follows.",
      "Trusted: TLC; the yield hooks mark the synchronisation points faithfully (a change that adds a new blocking point between hooks is seen only by the final predicates and the stress). Exhaustive within W<=3 / K<=3 / 3 calls.",
      "TLC model checking of Pool.tla (safety + liveness) + gated replay of TLC behaviours on the real pool through yield hooks",
      "DESIGN.md §3.3, §5 C18")

claim("C10", "exploration",
      "ZkCases.tla holds the transcribed structure of the 15 proof systems (public / commitment / response fields, range-checked responses, Fiat-Shamir input list, which equation mentions which field); TLC checks structural invariants (no unbound public or commitment field, every response in an equation) and enumerates the case lattice system x witness lattice point x perturbation with the expected verdict. Every case is replayed on the real pkg/zk/* code with fixed keys: honest proofs for boundary witnesses must verify; proofs with any public input, context, commitment or response substituted, or a response out of range, must not; the Fiat-Shamir challenge is re-derived independently from the transcribed list.",
      "TLC is an enumerator plus structural checker here: soundness of the proof systems is not model checked. Trusted: the transcription of the structures (cross-checked by reflection against the Go types), the fixed Paillier/Pedersen keys.",
      "TLC-enumerated case lattice from a transcribed structure spec (ZkCases.tla) + replay of every case on the real provers/verifiers",
      "DESIGN.md §5 C10")

claim("C11", "model_checking",
      "Nonce.tla transcribes the FROST hedged nonce derivation and the BIP-340 nonce derivation over an injective abstract hash and checks NoReuse over all sequences of 2-3 signing attempts whose contexts differ in message, signer set, session id, variant or share under a constant / repeating / honest RNG; each enumerated sequence is replayed on the real FROST round 1 (through a real handler) and on taproot.SecretKey.Sign with crypto/rand.Reader replaced by the prescribed source, and the equality pattern of the published commitments must equal the model's prediction in both directions; BIP-340 R values are additionally compared byte-exactly with an independent transcription.",
      "Trusted: TLC; the hash is modelled as injective; replacing crypto/rand.Reader really controls all entropy (confirmed in every run by the 'identical context + constant RNG => identical commitments' direction).",
      "TLC model checking of Nonce.tla + replay of every enumerated context sequence on the real signing code with a substituted RNG",
      "DESIGN.md §5 C11")

claim("C12", "model_checking",
      "Paillier.tla / MtA.tla are exact Paillier and MtA over tiny moduli (N in {15,33,35,77,161}): TLC checks Dec(Enc)=id on the whole symmetric range including endpoints, refusal outside, Add/Mul exact iff in range, recovered randomness, Validate accepts exactly units below N^2, alpha+beta=a*b over the integers, and prints the complete tables plus a symbolic boundary lattice with expected classes. The real package is run on the same tiny keys (CRT and plain) and must reproduce EVERY table entry; the symbolic lattice is instantiated on real 2048-bit keys and compared with an independent math/big Paillier; mta.ProveAffG/ProveAffP are checked over the scalar lattice.",
      "Trusted: TLC; the independent math/big Paillier in the driver. Exhaustive on the tiny keys, boundary lattice at real size.",
      "TLC model checking of exact small-modulus Paillier/MtA + exhaustive table equality against the real package + boundary lattice on real keys",
      "DESIGN.md §5 C12")

claim("C13", "exploration",
      "OTAlg.tla checks the defining relations of the OT stack exactly at small parameters (transpose bit order, q_j = t_j xor c_j*Delta, carry-less accumulate, monochrome check, gadget encoding, share law over Z_7/Z_11) and OTFlow.tla models the message flows of random OT, correlated-OT setup and multiplication with an adversary altering one field of one message, deriving the allowed outcome of each case. Every printed case (scalar lattice x choice pattern x setup reuse x tampering) is replayed on the real internal/ot at real size with independent math/big and bit-level oracles: pads, q/t/Delta relation (read from unexported fields), extended-OT consistency, shares summing to the product; a tampered run must end in an error at the checking side or a correct product.",
      "The small-parameter algebra is a design check; detection power comes from the real-size replay. Trusted: TLC, the independent oracles in the driver.",
      "TLC model checking of OTAlg.tla/OTFlow.tla + replay of every enumerated (input, tampering) case on the real OT code",
      "DESIGN.md §5 C13")

claim("C16", "exploration",
      "SigVerify.tla transcribes BIP-340 verification and signing rules, ECDSA verification on the full nonce point, x-only public keys and the Ethereum export as decision procedures over abstract value classes; TLC enumerates every path with the verdict the standard prescribes and checks accept-iff-conforming. For every path a concrete input is built with an independent secp256k1/ECDSA/BIP-340 implementation (math/big), classified by that oracle into the same path, and given to the real routine, whose verdict must equal the prescribed one; BIP-340 test vectors, byte-exact signing, 65-byte low-s export with key recovery are known-answer checks.",
      "Trusted: TLC, the independent oracle package (cross-tested against the published BIP-340 vectors).",
      "TLC-enumerated decision paths (SigVerify.tla) + one concrete oracle-built input per path run on the real primitives",
      "DESIGN.md §5 C16")

claim("C19", "model_checking",
      "Framing.tla specifies the transcript framing '(' len(domain) domain len(data) data ')' after the CMP-BLAKE prefix; TLC checks, for all item sequences within the bound and 14 adversarial relations (boundary shifts, merge/split, type swap, permutation, nesting...), that the encoding is injective (a parser is a left inverse) and rejects four classic wrong framings as controls; it prints byte-exact vectors. The real hash must produce blake3(spec bytes) for every vector - so the code's framing IS the specified injective one - and rich real types under the same relations must never collide. Commit.tla enumerates commitment openings and perturbations with expected verdicts, replayed on the real Commit/Decommit/Validate.",
      "Trusted: TLC; BLAKE3 collision resistance is assumed. Exhaustive within <=3 items / data <=2 bytes over a small alphabet; rich types sampled by relation.",
      "TLC model checking of Framing.tla/Commit.tla + byte-exact vector conformance and collision search on the real transcript hash",
      "DESIGN.md §5 C19")

claim("C20", "exploration",
      "StartParams.tla holds, per start function, the parameter record over abstract value classes, the validity predicate implied by the statement and the bad-value lattice; TLC enumerates every single invalid parameter and every pair with the expected outcome and checks consistency of the predicate (nominal accepted, monotonicity, every clause exercised). Each case is executed on the real start function through NewMultiHandler / NewTwoPartyHandler inside recover(); a wrongly accepted start is then RUN with honest peers in the simulator to see whether it crashes or stalls them.",
      "Trusted: TLC, the mapping of abstract classes to concrete Go values. Pairs that contain an already failing single are attributed to the single.",
      "TLC-enumerated parameter lattice with expected outcomes (StartParams.tla) + replay of every case on all 17 real start functions",
      "DESIGN.md §5 C20")

claim("C06", "model_checking",
      "Handler.tla is checked exhaustively for 3 parties with one Byzantine broadcaster sending two individually valid payloads (every delivery order, every choice of whose view the equivocator mimics): NoSplit, BlameSound, EchoNamesNobody hold, and TLC rejects the model without the echo comparison. FaultCat.tla enumerates every (non-final broadcast round, equivocator, assignment of honest parties to payloads); each scenario is run on the real protocols (toy shapes, FROST keygen/sign/refresh, Taproot, CMP) with TWO real instances of the equivocator that diverge at that round, under random schedules; every honest API call is recorded and the traces are validated line by line against Handler.tla with NoSplit evaluated in every state, plus a direct check that honest finishers stored identical broadcasts.",
      "Trusted: TLC; real echo hashes are mapped to abstract view hashes by the harness (a real collision between different views is itself reported). Exhaustive for 3 parties in the model; real protocols by scenario x sampled schedules.",
      "TLC model checking of Handler.tla (equivocation cfg) + TLC-enumerated equivocation scenarios run on real protocols + trace validation",
      "DESIGN.md §3.1, §3.2, §5 C06")

claim("C03", "fault_enumeration",
      "FaultCat.tla (TLC) enumerates the catalogue the property quantifies over from the DISCOVERED structure of the real messages: message slot x field path x alteration (boundary values, bit flips, value copied from the same field of another run, re-randomised value, null / absent / truncated / extended) x deviating party x recipients. Every case is run on the real protocol with one real party whose emitted message is altered at CBOR level; every honest API call is recorded and validated against Handler.tla (TLC), whose invariant WrongNeverAccepted says no honest party is ever done with a result the independent verifier (math/big ECDSA / Schnorr / BIP-340) rejects; key material of honest finishers is checked for mutual consistency with independent arithmetic.",
      "One deviating participant: alterations of real messages, plus state-level strategies that read the cheater's own secrets out of its round objects (a dealer with a wrong-degree or shifted polynomial, a share for another evaluation point, a malformed value committed to consistently, an early message of a later round for the two-party handler). CMP is sampled (seconds per session); FROST / Taproot / toy catalogues are run completely in the thorough tier; Doerner traces are validated against TwoParty.tla. No coalitions.",
      "TLC-enumerated fault catalogue (FaultCat.tla) executed on real protocols + trace validation against Handler.tla with an independent result oracle",
      "DESIGN.md §5 C03")

claim("C04", "model_checking",
      "Handler.tla is checked exhaustively (3 parties, one Byzantine using valid, equivocated, failing, undecodable and protocol-detected payloads, wrong message kinds, abort notices; every delivery order) for BlameSound (a self-detected error names only the deviating party), EchoNamesNobody and NoticeBlame; TLC rejects the pre-fix ordering (echo compared only in finalize) as a negative control. The deviations of FaultCat.tla (field alterations, header malformations, every equivocation scenario) are run on real protocols with exactly one deviating real party; the harness knows who deviated and checks Culprits at every honest party, and every recorded API call is validated against Handler.tla with the blame invariants evaluated in every state. PresignAlg.tla models the algebra of CMP presigning and of its identification rounds over Z_3 / Z_5 / Z_7 (what the proofs leave free: the broadcast delta share, the committed chi share, the stored k / chi share): TLC checks that the recomputation formulas of abort1 / abort2 and the per-share sigma check single out exactly the deviating signer and at which stage, and prints the deviation catalogue; each case is run on the real protocol with a state-level cheater whose proofs pass (offline, full and online variants, every position) and stage and culprits are compared. The as-coded variant of the model (proofs checked against the wrong ciphertext slot) must violate BlameExact: it is the model-level account of the known finding. FrostAlg.tla does the same for FROST signing over GF(7) (binding factors and challenge range over all values): a signer that answers inconsistently with what it published is named by every honest signer's per-share check, nobody else ever is; its deviation catalogue is run on real FROST / Taproot signing with a state-level cheater.",
      "Exhaustive for 3 parties in the model; real protocols by catalogue (CMP sampled). The cheater scenarios of presigning are judged by culprits and stage; they are not replayed against Handler.tla (fixed round shape).",
      "TLC model checking of Handler.tla blame invariants, PresignAlg.tla and FrostAlg.tla + TLC-enumerated deviations run on real protocols + trace validation",
      "DESIGN.md §3.1, §5 C04")

claim("C05", "fault_enumeration",
      "FaultCat.tla (TLC) enumerates message slot x field path x structural malformation (null, absent, truncated, extended, empty, 5000-element collections, all-zero / all-one / random bytes) and slot x 17 header malformations (recipient, sender, round 0 / past / too big, SSID, protocol, nil / empty / junk / truncated data, flipped broadcast flag, echo field) x cheater x recipient, with the reaction Handler.tla allows (ignore, store, clean abort naming the sender). Each case is delivered to real honest handlers in child processes with an address-space limit; the recorded API calls are validated against Handler.tla by TLC. A panic, a hang, a call exceeding its time limit or the death of the process (e.g. out of memory) is attributed to the exact input and reported with the crashing site.",
      "Handlers run with a nil pool except in the pool-mode scenarios (CMP; one null / absent case per field name). Memory and time are measured, not modelled. Byte strings off the malformation lattice are sampled; announced counts are probed at 2^32-1, 2^31 and the 32-bit overflow points of element sizes up to 72 (and 96, 128, 256).",
      "TLC-enumerated malformation catalogue (FaultCat.tla) delivered to real handlers in isolated processes + trace validation against Handler.tla",
      "DESIGN.md §5 C05")

_KL = "KeyLife.tla models key material through its life over exact GF(7) arithmetic (Shamir.tla): key generation, refresh, derivation, store/restore and a final probe (signing session or reconstruction) in which every participant uses SOME version of the material it still holds; TLC checks after every operation that every version is a consistent sharing of its key and prints every complete history with the expected outcome. ShamirLaws.tla checks the underlying laws exhaustively (every identifier set, threshold, polynomial and subset in GF(5)/GF(7), n<=4). "

claim("C01", "model_checking",
      _KL + "For C01 the histories ending in a signing session with consistent material (fresh, refreshed, derived; every signer subset incl. non-prefix ones; undersized sets) are run on the real protocols (FROST, Taproot, Doerner; CMP sign and presign+online from trusted-dealer material) under random schedules with digests of 1/20/32/33/64 bytes: every returned signature is judged by an independent math/big ECDSA / Schnorr / BIP-340 verifier under the key fixed at key generation, all signers must return the same signature, and the all-honest session must complete (delivery-order completeness of the handler itself is C07's model).",
      "Trusted: TLC, the independent verifiers of package oracle (cross-tested against BIP-340 vectors). Validity is judged per returned signature; nothing is claimed about unforgeability.",
      "TLC model checking of KeyLife.tla/ShamirLaws.tla + replay of enumerated histories on real signing protocols with independent verifiers",
      "DESIGN.md §3.5, §5 C01")

claim("C02", "model_checking",
      _KL + "For C02 the keygen-only histories with every reconstruction subset are run for every (n<=4, t) (n=5 in the thorough tier) and several identifier shapes (short, 32/40-byte, non-ASCII, leading zero byte) on the REAL key generation of FROST, Taproot, Doerner and CMP (verif prime-source hook) under random schedules, and judged with independent arithmetic: same group key, public table and auxiliary keys at all parties; own secret share matches own table entry; every t+1 subset of shares and of table entries yields the group key; t shares do not.",
      "Trusted: TLC, independent math/big secp256k1 and Lagrange interpolation. Randomness quality and Paillier/Pedersen parameter soundness are not judged.",
      "TLC model checking of ShamirLaws.tla/KeyLife.tla + replay on real key generation with independent interpolation",
      "DESIGN.md §3.5, §5 C02")

claim("C08", "model_checking",
      _KL + "For C08 the histories containing refreshes (interleaved with derivations and store/restore), with EVERY way of mixing held versions in the final signing or reconstruction set, are run on real CMP, FROST, Taproot and Doerner: group key unchanged, new material satisfies the key-generation conditions, every secret share changed, a new share mixed with old ones does not give the key, signing with refreshed material succeeds, and a session in which some signer uses stale material returns no signature that is valid under any version's key.",
      "Old material is captured by deep copies before the refresh. Negative statements (mixed shares do not reconstruct) hold with overwhelming probability and are asserted on the real 256-bit values only.",
      "TLC model checking of KeyLife.tla/ShamirLaws.tla + replay of enumerated histories (incl. stale-material mixes) on real protocols",
      "DESIGN.md §3.5, §5 C08")

claim("C14", "model_checking",
      _KL + "For C14 the histories containing derivations (paths up to length 2-3, boundary and random indices, interleaved with refresh and store/restore) are run on real CMP, FROST, Taproot and Doerner material: after key generation every party holds the same 32-byte chain key; after each derivation the child public key and chain code of every party equal an independent BIP-32 CKDpub (HMAC-SHA512, math/big secp256k1, even-Y rule for Taproot); the derived shares satisfy the key-generation conditions; signing with derived material yields a valid signature under the child key; derivation is repeated on derived material.",
      "Trusted: TLC, the independent BIP-32 / secp256k1 implementation.",
      "TLC model checking of KeyLife.tla/ShamirLaws.tla + replay of enumerated derivation histories with an independent BIP-32 oracle",
      "DESIGN.md §3.5, §5 C14")

claim("C09", "model_checking",
      "Session.tla specifies the exact byte string hashed into a session tag (NewSession + IDSlice.WriteTo + WriteAny framing) and TLC checks TagInjective over ALL parameter tuples built from an identifier alphabet with equal concatenations and shared prefixes (and rejects the pre-fix encoding as a control); every realizable tuple is compared byte-exactly with the SSID of a real session (xor, FROST keygen, Taproot keygen), and all 14 start functions started with the same participants and session id must get pairwise different tags. Handler.tla's Isolation (foreign / re-addressed / malformed-header messages at every point change nothing) is model checked. On real sessions, messages of a second real session differing in exactly one of session id, protocol, participant set, threshold, key material, message, presignature are injected at random points: CanAccept must be false, the snapshot unchanged, the session must complete - the recorded calls are validated against Handler.tla; real messages replayed under another sender's name must not let the recipient complete.",
      "Trusted: TLC, blake3 collision resistance. Key-material / message / presignature binding is checked for CMP only (as the statement says).",
      "TLC model checking of Session.tla (tag injectivity) and Handler.tla (Isolation) + byte-exact tag vectors + cross-session replay with trace validation",
      "DESIGN.md §5 C09")

claim("C15", "fault_enumeration",
      "Codec.tla holds, for the 8 result types, the field list with kinds, the validity rules the statement names and a corruption lattice (per field: absent, null, empty, zero, identity, wrong length, truncated / extended containers, duplicated / dropped parties, swapped fields, random bytes; whole object: empty, truncated, random, a valid encoding of another type); TLC computes the expected class of every case on an abstract object, checks that every rule and field is covered and rejects a structural-only decoder as a control. Every case is applied to the documented encoding of REAL material (FROST / Taproot / Doerner key generation, CMP configs, a real presignature, real signatures and wire messages) and given to the documented decoder; the restored object is judged with independent predicates. KeyLife.tla histories with store / restore are executed on the real protocols: the restored object must equal the original and work in the following signing session with the other parties' material.",
      "The library validates restored material only for cmp.Config; the remaining types are recorded as known findings per (type, rule, class), so that a regression of an existing validation or a new failing (type, rule) is still reported.",
      "TLC-enumerated corruption lattice (Codec.tla) applied to real encodings + KeyLife.tla store/restore histories on real protocols",
      "DESIGN.md §5 C15")

claim("C17", "model_checking",
      "Atomic layer: Handler.tla with user Stop, abort notices, duplicates and late messages at every point of a 3-party session is model checked for ResultStable (once done / aborted, result, error kind and culprits never change) and Isolation. Lockset layer: the lock / field-access table of MultiHandler and TwoPartyHandler is EXTRACTED from the working tree, Lifecycle.tla (TLC) explores two concurrent method executions and predicts the racy pairs; every method pair is then run from two goroutines against a live real session (FROST keygen, xor, Doerner keygen) under Go's race detector, with lifecycle predicates (no panic, Stop ends the session, Result stable). Stop at every delivery position of real sessions, followed by Stop again, late / duplicate messages and Result twice, is recorded and validated against Handler.tla (close exactly once, closed iff ended).",
      "Data races are observed by the Go race detector on generated executions; TLA+ does not model the Go memory model. Blocking forever is detected by per-call time limits.",
      "TLC model checking of Handler.tla (lifecycle) and Lifecycle.tla (lockset) + race-detector runs of every method pair + trace validation of Stop scenarios",
      "DESIGN.md §3.4, §5 C17")
