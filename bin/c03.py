"""C03 - a tampering participant cannot make an honest party accept a wrong result."""
import vlib, handler_common as hc, adv

PROP = "C03"


def plan(quick):
    p = [
        {"proto": "frost-keygen", "n": 3, "t": 1, "kinds": ["fault"], "limit": 500 if quick else None},
        {"proto": "frost-sign", "n": 3, "t": 2, "kinds": ["fault"]},
        {"proto": "taproot-sign", "n": 3, "t": 2, "kinds": ["fault"], "limit": 200 if quick else None},
        {"proto": "frost-refresh", "n": 3, "t": 1, "kinds": ["fault"], "limit": 300 if quick else None},
        {"proto": "taproot-keygen", "n": 3, "t": 1, "kinds": ["fault"], "limit": 200 if quick else None},
        {"proto": "toy:b,bm,b", "n": 3, "t": 1, "kinds": ["fault"], "limit": 200 if quick else None},
        {"proto": "doerner-keygen", "n": 2, "t": 1, "kinds": ["fault"], "limit": 250 if quick else None},
        {"proto": "doerner-sign", "n": 2, "t": 1, "kinds": ["fault"], "limit": 250 if quick else None},
        {"proto": "cmp-sign", "n": 3, "t": 2, "kinds": ["fault"], "limit": 24 if quick else 400},
        {"proto": "cmp-keygen", "n": 3, "t": 1, "kinds": ["fault"], "limit": 6 if quick else 120},
    ]
    if not quick:
        p += [
            {"proto": "frost-keygen", "n": 4, "t": 2, "kinds": ["fault"], "limit": 1500},
            {"proto": "frost-sign", "n": 4, "t": 2, "kinds": ["fault"], "limit": 800},
            {"proto": "cmp-refresh", "n": 3, "t": 1, "kinds": ["fault"], "limit": 80},
            {"proto": "cmp-presign", "n": 3, "t": 2, "kinds": ["fault"], "limit": 200},
            {"proto": "cmp-presign-online", "n": 3, "t": 2, "kinds": ["fault"], "limit": 60},
            {"proto": "taproot-refresh", "n": 3, "t": 1, "kinds": ["fault"], "limit": 400},
            {"proto": "doerner-refresh", "n": 2, "t": 1, "kinds": ["fault"]},
        ]
    return p


def run(tier):
    rep = vlib.Report(PROP, "fault_enumeration", tier)
    wd = vlib.workdir(PROP)
    vlib.build(["hadv"])
    quick = tier == "quick"
    # state-level dealers: a polynomial of the wrong degree with shares consistent with it (plus / minus), and a
    # correct polynomial of which one honest party is sent the share of another evaluation point (0 = the dealer's
    # secret, or a peer's point), with the recipient header kept or emptied (eval*)
    dealers = [{"kind": "dealercheat", "proto": p, "n": 3, "t": 1, "byz": b, "alt": a, "sched": vlib.seed() * 5 + i}
               for i, (p, b, a) in enumerate((p, b, a) for p in ("frost-keygen", "frost-refresh", "taproot-keygen", "taproot-refresh")
                                             for b in ("a", "b", "c")
                                             for a in ("plus", "minus", "eval0", "eval0-empty", "evalk", "evalk-empty"))]
    # a malformed chain-key contribution / RID that is committed to consistently (only the validation of the opened value stops it)
    dealers += [{"kind": "dealercheat", "proto": pr, "n": 3, "t": 1, "byz": "abc"[(i + vlib.seed()) % 3], "alt": "commit:" + a, "sched": vlib.seed() * 5 + 200 + i}
                for i, (pr, a) in enumerate((pr, a) for pr in ("frost-keygen", "taproot-keygen", "frost-refresh", "cmp-keygen", "cmp-refresh")
                                            for a in ("c-short", "c-long", "c-empty", "rid-short", "rid-long", "rid-empty") if pr.startswith("cmp") or a.startswith("c-"))]
    # the same for CMP: the polynomial a party deals is replaced at start, so that its commitment, shares and proofs agree with it
    dealers += [{"kind": "dealercheat", "proto": pr, "n": 3, "t": 1, "byz": b, "alt": a, "sched": vlib.seed() * 5 + 100 + i}
                for i, (pr, b, a) in enumerate((pr, b, a) for pr in ("cmp-keygen", "cmp-refresh") for b in ("a", "b", "c")
                                               for a in ("plus", "minus", "nonzero") if not (pr == "cmp-keygen" and a == "nonzero"))]
    # two-party handler: a well-formed message of a LATER round (from another run with the same parameters) presented before
    # anything else - it is stored early and must still be verified when its round comes
    dealers += [{"kind": "early", "proto": pr, "n": 2, "t": 1, "byz": b, "round": rd, "sched": vlib.seed() * 3 + i}
                for i, (pr, b, rd) in enumerate((pr, b, rd) for pr in ("doerner-keygen", "doerner-sign", "doerner-refresh")
                                                for b in ("a", "b") for rd in (1, 2, 3, 4, 5))]
    # ... and the same with one byte-string field of that message altered (a valid message of another run may still lead to a
    # correct result; an altered one must never be consumed unverified)
    for pr in ("doerner-keygen", "doerner-sign", "doerner-refresh"):
        d = hc.discover(pr, 2, 1, vlib.seed())
        for sl in d["slots"]:
            for li, lf in enumerate(sl["leaves"]):
                if lf["Kind"] not in ("bytes", "lpbytes") or (quick and li % 2 == vlib.seed() % 2 and len(sl["leaves"]) > 12):
                    continue
                for b in ("a", "b"):
                    dealers.append({"kind": "early", "proto": pr, "n": 2, "t": 1, "byz": b, "round": sl["round"], "leaf": li,
                                    "alt": "flipfirst" if (li + len(dealers)) % 2 else "random", "sched": vlib.seed() * 3 + len(dealers)})
    # a CMP dealer whose shares are in range but not on the polynomial it committed to (about 12 s per case)
    dealers += [{"kind": "dealercheat", "proto": pr, "n": 3, "t": 1, "byz": "abc"[(i + vlib.seed()) % 3], "alt": "wrongshares", "sched": vlib.seed() + 500 + i}
           for i, pr in enumerate(("cmp-keygen", "cmp-refresh") if not quick else ("cmp-keygen",))]
    # a dealer whose contribution to the key is the identity (zero constant term, forged proof of knowledge)
    dealers += [{"kind": "dealercheat", "proto": pr, "n": 3, "t": 1, "byz": b, "alt": "zero", "sched": vlib.seed() + 400 + i}
                for i, (pr, b) in enumerate((pr, b) for pr in ("frost-keygen", "taproot-keygen", "cmp-keygen") for b in ("a", "b", "c"))]
    # DoernerAlg.tla: the algebra of two-party signing over Z_5 for every choice of shares, nonces, pad, multiplication
    # shares, digest and x(R): honest sessions complete, the two consistency checks hold exactly for consistent inputs, and
    # under every state-level deviation of one side the other never returns an invalid signature.  Its deviation
    # catalogue is run on the real protocol (altered key material / round state of the deviating side).
    dinv = ["TypeOK", "HonestCompletes", "ChecksHold", "KeyCheckSound", "OtCheckSound", "ChecksImplyValid", "OutputValid", "Agreement"]
    dconst = {"Q": 5, "SkVals": {0, 1, 3}, "KVals": {1, 2, 4}, "PhiVals": {0, 2}, "TVals": {0, 3}, "MVals": {0, 1, 3}, "RVals": {1, 2},
              "Kinds": {"share", "public", "ot", "kinv"}, "Offs": {1, 3}, "MaskDiffs": {0, 1}, "VerifyFinal": True}
    if not quick:
        dconst.update({"SkVals": {0, 1, 2, 3, 4}, "KVals": {1, 2, 3, 4}, "MaskDiffs": {0, 1, 3}, "MVals": {0, 1}, "PhiVals": {0, 2, 3}})
    r = vlib.tlc(wd, "DoernerAlg", vlib.cfg(dconst, init="Init", next_="Next", invariants=dinv), timeout=3000)
    vlib.tlc_must_pass(r, "DoernerAlg.tla")
    dstates, dtrans = r["distinct"], r["generated"]
    dcat = (vlib.printed(r["out"], "CAT") or [[]])[0]
    if not dcat:
        raise vlib.Inconclusive("DoernerAlg.tla did not emit its deviation catalogue")
    # control: a Receiver that returns what it assembled without verifying it
    dctl = dict(dconst, SkVals={1, 3}, KVals={1, 2}, VerifyFinal=False, MaskDiffs={1})
    r = vlib.tlc(wd, "DoernerAlg", vlib.cfg(dctl, init="Init", next_="Next", invariants=["OutputValid"]), timeout=3000)
    if r["violated"] != "OutputValid":
        raise vlib.Inconclusive("DoernerAlg.tla with VerifyFinal=FALSE should violate OutputValid (got %s)" % r["violated"])
    rep.notes.append("DoernerAlg.tla over Z_5: %d distinct states; honest sessions complete, Gamma1 / Gamma2 hold exactly for consistent inputs, no invalid signature is returned by the honest side under share / public / ot / kinv deviations; control VerifyFinal=FALSE violates OutputValid" % dstates)
    seen = set()
    for c in sorted(dcat, key=lambda c: (c["rule"], c["who"], c["mul"])):
        if c["rule"] == "ot" and c["mul"] != 3:
            continue   # model only: the real deviation (the correlation of another key generation) breaks all three multiplications
        key = (c["rule"], c["who"])
        if key in seen:
            continue
        seen.add(key)
        for k in range(1 if quick else 3):
            dealers.append({"kind": "doernercheat", "proto": "doerner-sign", "n": 2, "t": 1, "byz": {"A": "b", "B": "a"}[c["who"]], "rule": c["rule"],
                            "sched": vlib.seed() * 11 + 600 + len(dealers)})
    st = adv.run_family(rep, wd, plan(quick), PROP, vlib.seed(), {"C03"}, shards=14, extra_scen=dealers)
    st["states"] += dstates; st["transitions"] += dtrans
    rep.cov.update({"distinct_nontrivial": st["distinct"], "states": st["states"], "transitions": st["transitions"],
                    "traces_validated_against_impl": st["traces"], "trace_lines": st["lines"], "catalogue_cases": st["catalogue"],
                    "scenarios_applicable": st["applicable"], "scenarios_reached": st["reached"],
                    "rule": "FaultCat.tla (TLC) enumerates message slot x field of the decoded real message x alteration x cheater x recipients; each case is run on the real protocol with one real party whose emitted message is altered at CBOR level; non-trivial = the altered message was delivered to an honest party; every honest API call is validated against Handler.tla (invariant WrongNeverAccepted: no party is done with a result the independent verifier rejects) and key material of honest finishers must be mutually consistent"})
    if st["reached"] < 2:
        raise vlib.Inconclusive("the fault scenarios did not reach the code under test")
    rep.assumptions += ["one deviating participant; deviations are alterations of real messages (field level), plus state-level strategies (dealer: wrong degree, share of another evaluation point, malformed committed value, zero constant, wrong share to one recipient; Doerner signer: other key share / public key / OT correlation / inverse nonce)"]
    return rep.finish()
