#!/bin/bash
# usage: mutrun.sh <patch.diff> <PROP> [tier]
# Runs a check against a seeded change without touching /repo: a scratch checkout of /repo with the patch applied, a
# scratch copy of the CURRENT /verif tree (uncommitted edits included), VERIF_REPO pointing the harness at the checkout.
set -u
P=$(readlink -f "$1"); PROP=$2; TIER=${3:-quick}
TAG=$$
WT=/tmp/mutrun_repo_$TAG; VF=/tmp/mutrun_verif_$TAG
git -C /repo worktree add -q --detach $WT HEAD || exit 2
( cd $WT && git apply "$P" ) || { echo "patch does not apply"; git -C /repo worktree remove --force $WT; exit 2; }
mkdir -p $VF && rsync -a --exclude work --exclude .git --exclude 'harness/bin' --exclude replay /verif/ $VF/
mkdir -p $VF/replay
( cd $VF && VERIF_REPO=$WT timeout 3000 bin/check "$PROP" "$TIER" > /tmp/mutrun_${PROP}_$TAG.out 2>&1; echo "rc=$?" >> /tmp/mutrun_${PROP}_$TAG.out )
grep -c "^VIOLATION" /tmp/mutrun_${PROP}_$TAG.out | sed "s/^/violations: /"
grep -A1 "^VIOLATION" /tmp/mutrun_${PROP}_$TAG.out | grep "what:" | head -4 | cut -c1-300
tail -1 /tmp/mutrun_${PROP}_$TAG.out; echo "log: /tmp/mutrun_${PROP}_$TAG.out"
if [ -z "${KEEP:-}" ]; then git -C /repo worktree remove --force $WT; rm -rf $WT $VF; else echo "kept $WT $VF"; fi
