"""C11 - signing nonces never repeat across contexts, even if the RNG fails.

Nonce.tla transcribes the FROST (round1.Finalize) and BIP-340 (taproot.SecretKey.Sign) nonce derivations over an
injective hash, TLC enumerates every pair / short sequence of signing attempts over the context lattice under a
constant, a period-2 and an honest random source, checks NoReuse/Agree/HonestFresh on the model and prints, for every
sequence, the equality classes of the published nonces.  cmd/noncedrv replays every sequence on the real code with
crypto/rand.Reader (resp. the rand argument) replaced by the prescribed source and requires the same equality pattern.
"""
import json, os
import vlib

PROP = "C11"
INVS = ["TypeOK", "NoReuse", "Agree", "HonestFresh", "EmitRow"]
ALLMODES = {"constant", "repeating", "honest"}


def consts(kind, modes, maxlen, mono, msgs=("m1", "m2"), sets=("a,b", "a,b,c"), sids=("nil", "s1", "s2"),
           variants=("plain", "taproot"), shares=("k1:a", "k2:a"), keys=("x1", "x2"), randargs=("reader", "nil"),
           wrong="none", emit=True):
    return {"Kind": kind, "Msgs": set(msgs), "Sets": set(sets), "Sids": set(sids), "Variants": set(variants),
            "Shares": set(shares), "Keys": set(keys), "RandArgs": set(randargs), "Modes": set(modes),
            "MaxLen": maxlen, "Mono": mono, "Wrong": wrong, "Emit": emit}


def lattices(tier):
    """(label, constants) of every TLC run."""
    q = tier == "quick"
    L = []
    # FROST, all pairs (up to order) over the full context lattice; a constant source and the system source
    L.append(("frost-pairs", consts("frost", {"constant", "honest"}, 2, True,
                                    msgs=("m1", "m2") if q else ("m1", "m2", "m3"),
                                    shares=("k1:a", "k2:a") if q else ("k1:a", "k2:a", "k1:b"))))
    # FROST, every ordered triple over a reduced lattice under all three sources (period 2 needs three attempts to repeat)
    L.append(("frost-triples", consts("frost", ALLMODES, 3, False,
                                      sets=("a,b,c",) if q else ("a,b", "a,b,c"), sids=("nil", "s1"),
                                      variants=("plain",) if q else ("plain", "taproot"),
                                      shares=("k1:a", "k1:b"))))
    # stand-alone BIP-340: every ordered triple over {2 keys} x {2 messages} x {reader, nil}
    L.append(("bip340-triples", consts("bip340", ALLMODES, 3, False,
                                       msgs=("m1", "m2") if q else ("m1", "m2", "m3"))))
    # signer sets whose identifiers have the same concatenation ("a"+"b"+"cd" = "a"+"bc"+"d"): still different sets
    L.append(("frost-ambiguous-ids", consts("frost", {"constant"}, 2, True, msgs=("m1",), sets=("a,b,cd", "a,bc,d"),
                                            sids=("nil", "s1"), shares=("k1:a",))))
    # signer sets of equal size that differ in exactly one member - the first, a middle or the last of the sorted list
    L.append(("frost-neighbour-sets", consts("frost", {"constant"}, 2, True, msgs=("m1",), sets=("a,b,c", "a,b,d", "a,c,d", "a,b,e"),
                                             sids=("nil", "s1"), shares=("k1:a",))))
    return L


def controls(wd=None):
    """Negative controls (not part of the registered path): TLC must reject every classic wrong derivation."""
    wd = wd or vlib.workdir(PROP + "-controls")
    res = {}
    for kind, wrongs in (("frost", ["nomsg", "noctx", "noshare", "norand"]), ("bip340", ["nomsg", "noshare", "norand", "noctr"])):
        for w in wrongs:
            c = consts(kind, ALLMODES, 2, True, wrong=w, emit=False)
            r = vlib.tlc(wd, "Nonce", vlib.cfg(c, spec="Spec", invariants=INVS[:-1]), workers=1, timeout=300)
            res[kind + ":" + w] = r["violated"]
    return res


def run(tier):
    rep = vlib.Report(PROP, "model_checking", tier)
    wd = vlib.workdir(PROP)
    vlib.build(["noncedrv"])
    drv = os.path.join(vlib.HBIN, "noncedrv")
    sd = vlib.seed()
    states = trans = 0
    rows_file = os.path.join(wd, "rows.jsonl")
    nrows = 0
    with open(rows_file, "w") as fh:
        for label, c in lattices(tier):
            r = vlib.tlc(wd, "Nonce", vlib.cfg(c, spec="Spec", invariants=INVS), workers=1, timeout=600 if tier == "quick" else 3000)
            vlib.tlc_must_pass(r, "Nonce.tla lattice %s" % label)
            states += r["distinct"]; trans += r["generated"]
            rows = vlib.printed(r["out"], "ROW")
            if not rows:
                raise vlib.Inconclusive("Nonce.tla printed no rows for lattice %s" % label)
            for row in rows:
                row["lattice"] = label
                fh.write(json.dumps(row) + "\n")
            nrows += len(rows)
            rep.notes.append("Nonce.tla %s: %d distinct states, %d attempt sequences printed; NoReuse, Agree, HonestFresh hold" % (label, r["distinct"], len(rows)))

    out = os.path.join(wd, "replay.json")
    p = vlib.run([drv, "-rows", rows_file, "-out", out, "-seed", str(sd)], timeout=600 if tier == "quick" else 3000)
    if p.returncode != 0 or not os.path.exists(out):
        raise vlib.Inconclusive("noncedrv failed: %s" % (p.stdout + p.stderr)[-3000:])
    res = json.load(open(out))
    if res["rows"] != nrows:
        raise vlib.Inconclusive("noncedrv replayed %d of %d rows" % (res["rows"], nrows))

    harness = [f for f in res["failures"] if f["class"] not in ("reuse", "derivation")]
    reuse = [f for f in res["failures"] if f["class"] in ("reuse", "derivation")]
    for f in reuse:
        if f["class"] == "reuse":
            key = {"kind": f["kind"], "lattice": f["lattice"], "differs": f["differs"], "mode": f["mode"]}
            rep.violation(key, "%s nonce reuse: %s" % (f["kind"], f["what"]), f)
        else:
            key = {"kind": f["kind"], "lattice": f["lattice"], "class": "derivation", "mode": f["mode"]}
            rep.violation(key, "%s nonce derivation: %s" % (f["kind"], f["what"]), f)
    if harness and not reuse:
        f = harness[0]
        raise vlib.Inconclusive("the harness does not control what it thinks it controls (%d findings of class %s): %s\n%s" % (
            len(harness), sorted({h["class"] for h in harness}), f["what"], json.dumps(f)[:1500]))
    if harness:
        rep.notes.append("%d harness-level findings (classes %s) besides the violations; first: %s" % (
            len(harness), sorted({h["class"] for h in harness}), harness[0]["what"]))
    if res["expected_equal"] == 0 or res["expected_different"] == 0:
        raise vlib.Inconclusive("degenerate case set: %d equal / %d different predictions" % (res["expected_equal"], res["expected_different"]))

    rep.cov.update({"states": states, "transitions": trans, "traces_validated_against_impl": res["pairs_confirmed"],
                    "exhaustive": True,
                    "attempt_sequences": res["rows"], "attempts_on_real_code": res["attempts"], "attempt_pairs": res["pairs"],
                    "commitment_pairs_compared": res["nonce_pairs"], "predicted_equal": res["expected_equal"],
                    "predicted_different": res["expected_different"], "pairs_by_mode": res["pairs_by_mode"],
                    "pairs_by_differing_fields": res["pairs_by_differing_fields"], "distinct_contexts": res["distinct_contexts"],
                    "bip340_R_byte_exact_against_independent_oracle": res["bip340_byte_exact_checked"],
                    "rule": "every pair (full lattice, up to order) and every ordered triple (reduced lattice) of signing contexts that TLC "
                            "enumerates from Nonce.tla under a constant / period-2 / honest random source is replayed on the real FROST "
                            "handler (round-2 broadcast D_i,E_i) resp. taproot.SecretKey.Sign (R), and the byte-equality pattern of all "
                            "published commitments must equal the model's equality classes in both directions; every BIP-340 "
                            "signature made with a reader argument is also compared byte-exactly with an independent "
                            "transcription of the BIP-340 nonce derivation (secret key, supplied aux bytes, message)"})
    for s in res["samples"]:
        rep.sample(s, limit=8)
    rep.assumptions += [
        "blake3, SHA-256 and scalar multiplication are modelled as injective (collision resistance); the check decides WHICH inputs reach the hash, not the hash",
        "crypto/rand.Reader is the only entropy of FROST round 1 (confirmed in the run: identical context + identical bytes => identical commitments)",
        "the BIP-340 counter is process-wide; equality is judged within one process (a fresh process restarts the counter, which repeats a nonce only for an identical key and message, i.e. an identical signature)",
        "the two protocol variants are run on the same share by re-expressing a plain FROST config as a TaprootConfig",
        "the honest source is the system RNG: 'different' holds except with probability 2^-256",
    ]
    return rep.finish()
