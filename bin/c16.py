"""C16 - stand-alone signature primitives conform to their standards.

SigVerify.tla transcribes the standards' decision procedures (BIP-340 verify / lift_x / public key / signing negation rules,
ECDSA decoding + verification on the full nonce point, Ethereum export) over abstract value classes; TLC enumerates every
path with the prescribed verdict; cmd/sigdrv builds a concrete input per path with an independent secp256k1 (harness/oracle)
and makes the real routines answer."""
import json, os
import vlib

PROP = "C16"
ALL = ["bipverify", "ecdsaverify", "liftx", "public", "sign", "ethexport"]
INVS = ["TypeOK", "AcceptIffConforming", "SinglePerturbationRejected", "UntouchedAccepted", "FirstFailure", "EthExportSound"]


def consts(maxpert, skip="none", variant="std", emit=True, procs=ALL):
    return {"Procs": set(procs), "MaxPert": maxpert, "Skip": skip, "Variant": variant, "Emit": emit}


def run(tier):
    rep = vlib.Report(PROP, "exploration", tier)
    wd = vlib.workdir(PROP)
    vlib.build(["sigdrv"])
    sigdrv = os.path.join(vlib.HBIN, "sigdrv")
    sd = vlib.seed()
    quick = tier == "quick"
    maxpert, reps, boost = (2, 1, 4) if quick else (4, 2, 10)

    # ---- 1. TLC: every path of every decision procedure within the class lattice, invariants of the model
    c = vlib.cfg(consts(maxpert), spec="Spec", invariants=INVS + ["EmitCase"])
    r = vlib.tlc(wd, "SigVerify", c, workers=1, timeout=1200)
    vlib.tlc_must_pass(r, "SigVerify.tla MaxPert=%d" % maxpert)
    states, trans = r["distinct"], r["generated"]
    cases = vlib.printed(r["out"], "CASE")
    if not cases:
        raise vlib.Inconclusive("SigVerify emitted no cases")
    per_proc = {}
    for cs in cases:
        per_proc[cs["proc"]] = per_proc.get(cs["proc"], 0) + 1
    if set(per_proc) != set(ALL):
        raise vlib.Inconclusive("SigVerify emitted cases only for %s" % sorted(per_proc))
    rep.notes.append("SigVerify.tla MaxPert=%d: %d distinct states, %d decision paths %s; invariants %s hold" % (
        maxpert, r["distinct"], len(cases), json.dumps(per_proc, sort_keys=True), ", ".join(INVS)))

    # ---- 2. negative controls on the model (fast): a verifier that omits a check / compares only x(R) must be rejected by TLC
    controls = [("Reven", "std", ["bipverify"]), ("Rinf", "std", ["bipverify"]), ("none", "xonly", ["ecdsaverify"]), ("sRange", "std", ["ecdsaverify"])]
    if not quick:
        controls += [("rRange", "std", ["bipverify"]), ("skRange", "std", ["public"]), ("rand", "std", ["sign"]), ("sLen", "std", ["ecdsaverify"]), ("rRange", "std", ["ecdsaverify"]),
                     ("range", "std", ["liftx"])]
    for skip, variant, procs in controls:
        cn = vlib.cfg(consts(2, skip=skip, variant=variant, emit=False, procs=procs), spec="Spec", invariants=INVS)
        rn = vlib.tlc(wd, "SigVerify", cn, workers=1, timeout=600)
        states += rn["distinct"]; trans += rn["generated"]
        if rn["ok"] or rn["violated"] != "AcceptIffConforming":
            raise vlib.Inconclusive("negative control Skip=%s Variant=%s was not rejected by TLC (violated=%s): the model lost its teeth, see %s" % (
                skip, variant, rn["violated"], rn["dir"]))
    rep.notes.append("negative controls rejected by TLC (AcceptIffConforming): " + ", ".join("Skip=%s/Variant=%s" % (s, v) for s, v, _ in controls))

    # ---- 3. conformance: one concrete input per path x message length x repetition on the real routines
    cf = os.path.join(wd, "cases.jsonl")
    with open(cf, "w") as fh:
        for cs in cases:
            fh.write(json.dumps(cs) + "\n")
    out = os.path.join(wd, "sigdrv.json")
    p = vlib.run([sigdrv, "-cases", cf, "-out", out, "-seed", str(sd), "-reps", str(reps), "-boost", str(boost), "-par", str(os.cpu_count() or 8)], timeout=3000)
    if p.returncode != 0 or not os.path.exists(out):
        raise vlib.Inconclusive("sigdrv failed: %s" % (p.stdout + p.stderr)[-3000:])
    res = json.load(open(out))
    harness_errors = res.get("harness_errors")
    if res.get("uncovered") and not (res.get("failures") or harness_errors):
        raise vlib.Inconclusive("sigdrv: %d decision paths got no concrete input: %s" % (len(res["uncovered"]), res["uncovered"][:5]))
    if res["cases"] != len(cases):
        raise vlib.Inconclusive("sigdrv read %d cases, TLC emitted %d" % (res["cases"], len(cases)))

    # group the failures by (site, class): one violation per defect, with the observed behaviours and up to three witnesses
    byk = {}
    for f in res.get("failures") or []:
        byk.setdefault((f["site"], f["class"]), []).append(f)
    for (site, cls), fs in sorted(byk.items()):
        counts = {k: v for k, v in (res.get("failure_counts") or {}).items() if k.startswith(site + "|" + cls + "|")}
        fs.sort(key=lambda f: (not f["got"].startswith("accept"), f["got"]))     # lead with a witness the library ACCEPTS, if any
        f0 = fs[0]
        rep.violation({"site": site, "class": cls},
                      "%s: the standard prescribes %s, the library answers %s (%s)" % (site, f0["expected"], " / ".join(sorted(set(f["got"] for f in fs))), f0["what"]),
                      {"observed_counts": counts, "witnesses": fs[:3]})

    # a disagreement the driver could not attribute counts as a harness problem only when the run shows nothing else
    if harness_errors and not rep.unknown():
        raise vlib.Inconclusive("sigdrv: the oracle and the specification disagree on %d constructed inputs (harness bug, not a verdict): %s" % (
            len(harness_errors), harness_errors[:3]))
    rep.add_counts(evaluations=res["evaluations"] + res["kat_evaluations"])
    rep.cov.update({
        "distinct_nontrivial": res["cases_covered"],
        "states": states, "transitions": trans, "exhaustive": True,
        "decision_paths": len(cases), "paths_per_routine": per_proc,
        "evaluations_per_routine": res["evaluations_per_proc"], "known_answer_evaluations": res["kat_evaluations"],
        "max_perturbed_fields": maxpert, "skipped_length_combinations": res["skipped_combinations"],
        "sigethereum_calls": res["sigethereum_calls"], "sigethereum_receiver_mutated": res["sigethereum_receiver_mutated"],
        "rule": "TLC enumerates every path of the six transcribed decision procedures over the abstract class lattice (all class tuples with at most "
                "max_perturbed_fields fields off their conforming class, every computed-point branch); a path counts as distinct_nontrivial when sigdrv "
                "built at least one concrete input for it that the independent oracle classifies into exactly that path (same verdict and reason) and "
                "the real library routine was run on it; each path is exercised for message/hash lengths 0,1,31,32,33,64,100 and rotating boundary "
                "variants (0, 1, n-1, n, n+1, p-1, p, p+1, 2^256-1, half order, half order + 1); evaluations = library calls incl. the BIP-340 vectors",
    })
    samples = sorted(res.get("samples") or [], key=lambda s: (s.get("case", ""), s.get("expected", "")))
    picked, seen = [], set()
    for want in ("accept", "reject", ""):                    # one accepted and one rejected concrete case per routine first
        for s in samples:
            k = (s.get("case", "").split(" ")[0], want)
            if k in seen or not str(s.get("expected", "")).startswith(want) and want:
                continue
            if s in picked:
                continue
            seen.add(k); picked.append(s)
    for s in picked[:12]:
        rep.sample(s, limit=12)
    for n in res.get("notes") or []:
        rep.notes.append(n)
    if res["sigethereum_calls"]:
        rep.notes.append("SigEthereum: in %d of %d calls the receiver's R and S were rewritten in place to (-R, n-s) (value receiver, pointer-backed fields); "
                         "the rewritten object still verifies (library and oracle), so 'the original signature stays valid' holds as 'the signature object "
                         "still verifies', not as 'is left untouched'" % (res["sigethereum_receiver_mutated"], res["sigethereum_calls"]))
    rep.assumptions += [
        "the independent oracle (harness/oracle: affine secp256k1, ECDSA, BIP-340, recovery over math/big) is correct; it reproduces the BIP-340 vectors 0-14 itself",
        "the algebraic axioms of SigVerify.tla (Comp, EquationHolds) hold with overwhelming probability for random perturbations; every constructed input is "
        "re-classified by the oracle and a disagreement is a harness error, not a verdict",
        "mutants that only differ on cryptographically unreachable inputs (a valid BIP-340 signature with s + n < 2^256, x(R) + p < 2^256, r = 0 with known "
        "discrete log) are out of reach of any input-based check",
        "BIP-340 vectors 0-14 are embedded from the published test-vectors.csv; vectors 0-3 are self-validating (an independent signer reproduces them byte for byte)",
    ]
    return rep.finish()
