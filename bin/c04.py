"""C04 - blame is sound and provable cheating is attributed to the cheater."""
import vlib, handler_common as hc, adv

PROP = "C04"


def plan(quick):
    p = [
        {"proto": "frost-sign", "n": 3, "t": 2, "kinds": ["equiv", "fault", "hdr"], "limit": 300 if quick else None},
        {"proto": "frost-keygen", "n": 3, "t": 1, "kinds": ["equiv", "fault", "hdr"], "limit": 400 if quick else None},
        {"proto": "taproot-sign", "n": 3, "t": 2, "kinds": ["equiv", "fault"], "limit": 150 if quick else None},
        {"proto": "toy:b,bm,b", "n": 3, "t": 1, "kinds": ["equiv", "fault", "hdr"], "limit": 250 if quick else None},
        {"proto": "toy:bm,bm", "n": 4, "t": 1, "kinds": ["equiv", "hdr"], "limit": 150 if quick else None},
        {"proto": "cmp-sign", "n": 3, "t": 2, "kinds": ["equiv", "fault"], "limit": 24 if quick else 400},
        {"proto": "cmp-presign", "n": 3, "t": 2, "kinds": ["fault"], "limit": 8 if quick else 200},
    ]
    if not quick:
        p += [
            {"proto": "frost-refresh", "n": 3, "t": 1, "kinds": ["equiv", "fault", "hdr"]},
            {"proto": "frost-sign", "n": 4, "t": 2, "kinds": ["equiv", "fault"], "limit": 1000},
            {"proto": "cmp-keygen", "n": 3, "t": 1, "kinds": ["equiv", "fault"], "limit": 100},
            {"proto": "cmp-presign-online", "n": 3, "t": 2, "kinds": ["fault"], "limit": 60},
        ]
    return p


def run(tier):
    rep = vlib.Report(PROP, "model_checking", tier)
    wd = vlib.workdir(PROP)
    vlib.build(["hadv"])
    quick = tier == "quick"
    states = trans = 0
    # ---- 1. the design: one Byzantine party with valid-looking, failing, undecodable and protocol-detected payloads,
    #         equivocation included, every delivery order; blame invariants of Handler.tla
    models = [("b,b", ("h", "e1", "e2", "bad"), 3), ("b,bm", ("h", "bad", "junk", "sly"), 2)]
    if not quick:
        models += [("bm,bm", ("h", "e1", "bad", "sly"), 3), ("b,b", ("h", "e1", "e2", "bad", "junk", "sly"), 3)]
    for shape, variants, inj in models:
        R, sb, sm = hc.SHAPES[shape]
        consts = hc.handler_consts(["a", "b", "c"], ["a", "b"], R, sb, sm, variants=variants, inject=inj, kindflip=True)
        c = vlib.cfg(consts, init="Init", next_="Next",
                     invariants=["TypeOK", "BlameSound", "EchoNamesNobody", "NoticeBlame", "NoBadAccepted", "NoSplit"])
        r = vlib.tlc(wd, "Handler", c, timeout=3000)
        vlib.tlc_must_pass(r, "Handler.tla blame shape %s" % shape)
        states += r["distinct"]; trans += r["generated"]
        rep.notes.append("Handler.tla, 3 parties / 1 Byzantine, shape %s, variants %s, %d injections: %d distinct states, BlameSound / EchoNamesNobody / NoticeBlame hold" % (shape, ",".join(variants), inj, r["distinct"]))
    if not quick:
        # the order matters: with the echo comparison only in finalize (the code before the fix) TLC must find an honest party blamed
        R, sb, sm = hc.SHAPES["b,b"]
        consts = hc.handler_consts(["a", "b", "c"], ["a", "b"], R, sb, sm, variants=("h", "e1", "e2"), inject=4, echo_first=False)
        r = vlib.tlc(wd, "Handler", vlib.cfg(consts, init="Init", next_="Next", invariants=["BlameSound"]), timeout=3000)
        if r["violated"] != "BlameSound":
            raise vlib.Inconclusive("negative control failed: with EchoFirst=FALSE TLC should violate BlameSound")
        rep.notes.append("negative control: with EchoFirst=FALSE (echo compared only in finalize) TLC violates BlameSound at depth %d" % r["depth"])
    # ---- 2. deviations of the catalogue on the real protocols
    # ---- 3. a presigner whose delta / chi / sigma contribution is inconsistent while its proofs pass (state-level
    #         cheater through MultiHandler), offline / full / online variants, every position of the cheater
    #         PresignAlg.tla is the algebra of presigning and of its identification rounds over a small field: TLC checks
    #         on every input that the recomputation formulas of abort1 / abort2 single out exactly the deviating party and
    #         at which stage each deviation is caught, and emits the deviation catalogue that is run on the real protocol
    kinds = {"delta", "gamma", "chi", "x-chi", "sig-k", "sig-chi"}
    invs = ["TypeOK", "HonestCompletes", "OutputValid", "Detected", "BlameExact", "StageAsPredicted", "FormulasExact"]
    fields = [({"a", "b", "c"}, 3, {1, 2}, {1}, {1, 2}), ({"a", "b"}, 5, {1}, {2}, {1, 2})]
    if not quick:
        # (beta is drawn per ordered pair of signers: with three signers every further value multiplies the states by 64 -
        #  the two-valued set is explored with two signers)
        fields += [({"a", "b", "c"}, 3, {1}, {2}, {1}), ({"a", "b"}, 5, {1, 3}, {0, 1}, {1, 2, 3, 4}), ({"a", "b"}, 7, {1}, {3}, {1, 6})]
    catalogue = None
    for parties, q, msgs, betas, offs in fields:
        for online in (True, False):
            consts = {"P": parties, "Q": q, "Msgs": msgs, "BetaVals": betas, "Offsets": offs, "Kinds": kinds, "Online": online, "SwapIndex": False}
            r = vlib.tlc(wd, "PresignAlg", vlib.cfg(consts, init="Init", next_="Next", invariants=invs), timeout=3000)
            vlib.tlc_must_pass(r, "PresignAlg.tla n=%d Q=%d" % (len(parties), q))
            states += r["distinct"]; trans += r["generated"]
            if len(parties) == 3 and catalogue is None:
                catalogue = vlib.printed(r["out"], "CAT")[0]
        rep.notes.append("PresignAlg.tla, %d signers over Z_%d (offline and online): identification formulas exact, every deviation (delta / gamma / chi / x-chi / stored k / stored chi) is caught at the predicted stage and attributed to exactly the deviating signer" % (len(parties), q))
    # the identification rounds AS CODED (proofs checked against the wrong ciphertext slot): TLC must show an honest signer
    # blamed - the model-level account of the known finding - while the stage prediction still holds
    consts = {"P": {"a", "b", "c"}, "Q": 3, "Msgs": {1}, "BetaVals": {1}, "Offsets": {1}, "Kinds": kinds, "Online": False, "SwapIndex": True}
    r = vlib.tlc(wd, "PresignAlg", vlib.cfg(consts, init="Init", next_="Next", invariants=["StageAsPredicted", "BlameExact"]), timeout=3000)
    if r["violated"] != "BlameExact":
        raise vlib.Inconclusive("PresignAlg.tla with SwapIndex=TRUE should violate BlameExact (got %s)" % r["violated"])
    rep.notes.append("PresignAlg.tla with SwapIndex=TRUE (abort1 / abort2 as coded): BlameExact violated at depth %d, as observed on the real protocol (known finding)" % r["depth"])
    if not catalogue:
        raise vlib.Inconclusive("PresignAlg.tla did not emit its deviation catalogue")
    cheats = []
    hrule = {"sig-k": "k", "sig-chi": "chi"}
    combos = []
    for c in sorted(catalogue, key=lambda c: (c["rule"], c["byz"])):
        if c["rule"] in hrule:
            combos.append(("online", hrule[c["rule"]], c["byz"], c))
        else:
            combos += [("offline", c["rule"], c["byz"], c), ("full", c["rule"], c["byz"], c)]
    if quick:
        pick = [("offline", "delta", "b"), ("offline", "chi", "a"), ("full", "gamma", "c"), ("full", "x-chi", "a"), ("online", "k", "c")]
        rot = vlib.seed() % 3
        ids = ["a", "b", "c"]
        pick = [(v, ru, ids[(ids.index(b) + rot) % 3]) for v, ru, b in pick]
        combos = [x for x in combos if x[:3] in pick]
    for v, rule, byz, c in combos:
        cheats.append({"kind": "presigncheat", "proto": "cmp-presign", "n": 3, "t": 2, "byz": byz, "variant": v, "rule": rule,
                       "stage": c["stage"], "coded": c["coded"], "sched": vlib.seed() * 7 + len(cheats)})
    rep.notes.append("presign deviation catalogue from PresignAlg.tla: %d cases, %d run on the real protocol" % (len(catalogue), len(cheats)))
    # ---- 3c. FrostAlg.tla: the algebra of FROST signing over GF(7) for all binding factors / challenges; a signer that answers
    #          inconsistently with what it published is singled out by the per-share check of every honest signer
    fkinds = {"z", "nonce", "share", "noneg"}
    fconf = [(True, {1, 2, 3}, 1, "PolysT1"), (False, {1, 2, 3}, 1, "PolysT1")]
    if not quick:
        fconf += [(True, {1, 2, 3, 4}, 2, "PolysT2"), (False, {1, 2, 4}, 1, "PolysT1")]
    fcat = []
    for tap, xs, t, polys in fconf:
        consts = {"Q": 7, "XS": xs, "T": t, "Taproot": tap, "Kinds": fkinds, "Polys": "<- " + polys,
                  "DVals": {1, 4}, "EVals": {2, 5}, "RhoVals": {1, 3}, "CVals": {1, 6}, "Offs": {1, 5}}
        r = vlib.tlc(wd, "FrostAlg", vlib.cfg(consts, init="Init", next_="Next",
                                              invariants=["HonestCompletes", "OutputValid", "Detected", "BlameExact", "BlameComplete", "Harmless"]), timeout=3000)
        vlib.tlc_must_pass(r, "FrostAlg.tla taproot=%s n=%d t=%d" % (tap, len(xs), t))
        states += r["distinct"]; trans += r["generated"]
        for c in (vlib.printed(r["out"], "CAT") or [[]])[0]:
            if c not in fcat:
                fcat.append(c)
    rep.notes.append("FrostAlg.tla (GF(7), every signer subset above the threshold, plain and Taproot): an effective deviation of one signer is caught by every honest signer's per-share check, which names exactly that signer; ineffective ones are harmless")
    if not fcat:
        raise vlib.Inconclusive("FrostAlg.tla did not emit its deviation catalogue")
    for c in sorted(fcat, key=lambda c: (c["rule"], c["taproot"])):
        if c["rule"] == "noneg":
            continue   # model only: the negation happens inside the real Finalize, there is no seam to leave it out
        for k, b in enumerate(("a", "b", "c")):
            if quick and (k + vlib.seed() + len(cheats)) % 3:
                continue
            cheats.append({"kind": "frostcheat", "proto": "taproot-sign" if c["taproot"] else "frost-sign", "n": 3, "t": 1, "byz": b, "rule": c["rule"],
                           "sched": vlib.seed() * 7 + len(cheats)})
    # state-level dealers and committers (see c03.py): whoever ends with an error must name the deviating party, never
    # itself or another honest party
    for i, (pr, b, a) in enumerate((pr, b, a) for pr in ("frost-keygen", "frost-refresh", "cmp-keygen", "cmp-refresh") for b in ("a", "b", "c")
                                   for a in ("plus", "minus", "nonzero", "commit:c-short", "commit:c-long", "commit:rid-short")
                                   if not (a == "nonzero" and pr != "cmp-refresh") and not (a == "commit:rid-short" and pr.startswith("frost"))):
        if quick and (i + vlib.seed()) % 3:
            continue
        cheats.append({"kind": "dealercheat", "proto": pr, "n": 3, "t": 1 if not (pr == "cmp-keygen" and a == "minus") else 2, "byz": b, "alt": a,
                       "sched": vlib.seed() * 5 + 300 + i})
    # a CMP dealer whose shares are in range but not on the polynomial it committed to (about 12 s per case)
    cheats += [{"kind": "dealercheat", "proto": pr, "n": 3, "t": 1, "byz": "abc"[(i + vlib.seed()) % 3], "alt": "wrongshares", "sched": vlib.seed() + 500 + i}
           for i, pr in enumerate(("cmp-keygen", "cmp-refresh") if not quick else ("cmp-keygen",))]
    # a dealer whose contribution to the key is the identity (zero constant term, forged proof of knowledge)
    cheats += [{"kind": "dealercheat", "proto": pr, "n": 3, "t": 1, "byz": "abc"[(i + vlib.seed()) % 3], "alt": "zero", "sched": vlib.seed() + 400 + i}
               for i, pr in enumerate(("frost-keygen", "taproot-keygen", "cmp-keygen"))]
    st = adv.run_family(rep, wd, plan(quick), PROP, vlib.seed(), {"C04"}, shards=14, extra_scen=cheats)
    states += st["states"]; trans += st["transitions"]
    rep.cov.update({"distinct_nontrivial": st["distinct"], "states": states, "transitions": trans,
                    "traces_validated_against_impl": st["traces"], "trace_lines": st["lines"], "catalogue_cases": st["catalogue"],
                    "scenarios_applicable": st["applicable"], "scenarios_reached": st["reached"],
                    "rule": "deviations (field alterations, header malformations, equivocation) enumerated by FaultCat.tla are run on real protocols with exactly one deviating party; at every honest party a self-detected error may only name the deviating party, an echo mismatch names nobody, a relayed abort names its origin; every recorded API call is validated against Handler.tla with BlameSound / EchoNamesNobody / NoticeBlame evaluated in every state"})
    if st["reached"] < 2:
        raise vlib.Inconclusive("the scenarios did not reach the code under test")
    return rep.finish()
